package main

// C16 — string, number, object methods and num()/json() honour their
// documented contract.

import (
	"fmt"
	"math"
	"math/big"
	"math/rand"
	"sort"
	"strconv"
	"strings"
	"unicode/utf8"
)

// a string value the program can hold: as a literal (any bytes except both quotes) or from the document (valid UTF-8)
func c16StrExpr(r *rand.Rand, s string, name string, doc map[string]string) string {
	_, canLit := strLit(nil, s)
	if utf8.ValidString(s) && (!canLit || chance(r, 0.3)) {
		doc[name] = jsonString(s)
		return "$." + name
	}
	l, ok := strLit(r, s)
	if !ok {
		panic("c16: unwritable string")
	}
	return l
}

func c16Doc(doc map[string]string) string {
	keys := make([]string, 0, len(doc))
	for k := range doc {
		keys = append(keys, k)
	}
	sort.Strings(keys)
	parts := []string{}
	for _, k := range keys {
		parts = append(parts, jsonString(k)+": "+doc[k])
	}
	return "{" + strings.Join(parts, ", ") + "}"
}

var c16Receivers = []string{"", "a", "abc", "a,b,,c", ",a,", ",,", ",", "aaa", "aaaa", "aaaaa", "é", "日本語", "añb", "a\xffb", "\xff\xfe", "\xc3", "x\xc3\xa9y", "ab ab ab", "--a--b--", "\t", "line1\nline2",
	"a.b.c", "🙂x🙂", "abcabc", "xaax", "\xe6\x97", "é\xa9é", "a\x00b", "Hello, World", " lead and trail ", "\\", "q'q", `q"q`, "ÀÉ"}
var c16Seps = []string{"", ",", ",,", "a", "aa", "ab", "b", "é", "\xc3", "\xa9", "\xff", "日", "\x97", "--", " ", "abcdefgh", ".", "\n", "🙂", "x", "\\", "'", "c", "\x00", "l", ", "}

func c16SplitCase(r *rand.Rand, s, sep string) Case {
	doc := map[string]string{}
	S := c16StrExpr(r, s, "s", doc)
	SEP := c16StrExpr(r, sep, "sep", doc)
	prog := "{\n  s = " + S + "\n  sep = " + SEP + "\n  a = s.split(sep)\n  print a.length()\n" +
		"  j = ''\n  for (p, i in a) {\n    if (i > 0) { j = j + sep }\n    j = j + p\n  }\n" +
		"  nosep = true\n  for (p in a) {\n    if (sep != '' && p.split(sep).length() != 1) { nosep = false }\n  }\n" +
		"  print j == s, j.length() == s.length(), nosep\n  for (p in a) {\n    print '[' + p + ']'\n  }\n  print s\n}\n"
	d := c16Doc(doc)
	return Case{Req: RunReq(prog, nil, []File{{Name: "in.json", Data: []byte(d)}}, false), Fields: []string{"class", "out"},
		Meta: metaProg(prog, "input", d, "s", fmt.Sprintf("%q", s), "sep", fmt.Sprintf("%q", sep)),
		Oracle: func(i Resp) string {
			if i["class"] != "ok" {
				return "split of a string by a string must succeed, class " + i["class"] + " " + i["msg"]
			}
			out := string(i.Bytes("out"))
			lines := strings.SplitN(out, "\n", 3)
			if len(lines) < 3 {
				return "output too short"
			}
			n, err := strconv.Atoi(lines[0])
			if err != nil {
				return "no piece count"
			}
			if lines[1] != "true true true" {
				return "in-program laws (pieces joined by sep == s, same length, no piece contains sep) print " + lines[1]
			}
			if sep != "" && n != strings.Count(s, sep)+1 {
				return fmt.Sprintf("%d pieces, but sep occurs %d times without overlap", n, strings.Count(s, sep))
			}
			if sep == "" && n != utf8.RuneCountInString(s) {
				return fmt.Sprintf("%d pieces for the empty separator, the string has %d characters", n, utf8.RuneCountInString(s))
			}
			if strings.Contains(s, "\n") {
				return ""
			}
			rest := strings.Split(strings.TrimSuffix(lines[2], "\n"), "\n")
			if len(rest) != n+1 {
				return fmt.Sprintf("%d piece lines for %d pieces", len(rest)-1, n)
			}
			var pieces []string
			for _, l := range rest[:n] {
				if len(l) < 2 || l[0] != '[' || l[len(l)-1] != ']' {
					return "bad piece line " + l
				}
				pieces = append(pieces, l[1:len(l)-1])
			}
			if strings.Join(pieces, sep) != s {
				return fmt.Sprintf("pieces %q joined by %q are not %q", pieces, sep, s)
			}
			for _, p := range pieces {
				if sep != "" && strings.Contains(p, sep) {
					return fmt.Sprintf("piece %q contains the separator %q", p, sep)
				}
				if sep == "" && utf8.RuneCountInString(p) != 1 {
					return fmt.Sprintf("empty separator: piece %q is not one character", p)
				}
			}
			if rest[n] != s {
				return "the receiver changed"
			}
			return ""
		}}
}

// ---------------------------------------------------------------- rounding

type c16NumSrc struct {
	expr string
	json string // when it can come from a document
	val  float64
}

func c16Numbers() []c16NumSrc {
	var out []c16NumSrc
	lit := func(f float64) {
		t := strconv.FormatFloat(math.Abs(f), 'f', -1, 64)
		e := t
		if f < 0 || math.Signbit(f) {
			e = "(-" + t + ")"
		}
		out = append(out, c16NumSrc{e, strconv.FormatFloat(f, 'g', -1, 64), f})
	}
	for _, f := range []float64{0, 0.5, 1.5, 2.5, 3.5, -0.5, -1.5, -2.5, -3.5, 0.49999999999999994, -0.49999999999999994, 0.5000000000000001, 1, -1, 2, 7, -7, 0.1, -0.1, 0.9, -0.9, 1.1, -1.1, 2.4999, 2.5001,
		4503599627370495.5, -4503599627370495.5, 4503599627370496, 9007199254740993, 123456789.5, -123456789.5, 1e15 + 0.5, 99.5, -99.5, 1e-7, 255.5, 0.3} {
		lit(f)
	}
	out = append(out, c16NumSrc{"(-0)", "-0", math.Copysign(0, -1)})
	for _, s := range []string{"1e300", "-1e300", "5e-324", "-5e-324", "1.7976931348623157e308", "1e21", "2.5e0", "1e-300", "4.5e15"} {
		f, _ := strconv.ParseFloat(s, 64)
		out = append(out, c16NumSrc{"num('" + s + "')", s, f})
	}
	nan, inf := math.NaN(), math.Inf(1)
	out = append(out, c16NumSrc{"num('nan')", "", nan}, c16NumSrc{"num('inf')", "", inf}, c16NumSrc{"num('-inf')", "", -inf})
	// arithmetic
	type bin struct {
		a  float64
		op string
		b  float64
	}
	for _, x := range []bin{{5, "/", 2}, {-5, "/", 2}, {1, "/", 2}, {-1, "/", 2}, {0, "-", 0.5}, {0.1, "+", 0.2}, {3, "*", 0.5}, {7, "/", 2}, {-7, "/", 2}, {1, "/", 3}, {2, "/", 3}, {10, "-", 12.5}, {0, "*", -1}, {1e15, "+", 0.5}, {0.5, "-", 1}} {
		var v float64
		switch x.op {
		case "/":
			v = x.a / x.b
		case "-":
			v = x.a - x.b
		case "+":
			v = x.a + x.b
		case "*":
			v = x.a * x.b
		}
		out = append(out, c16NumSrc{"(" + numLit(x.a) + " " + x.op + " " + numLit(x.b) + ")", "", v})
	}
	return out
}

func c16F(f float64) string { return strconv.FormatFloat(f, 'f', -1, 64) }

// ---------------------------------------------------------------- pluck

func c16PluckCase(r *rand.Rand) Case {
	keys := []string{"a", "b", "c", "length", "1", "1.5", "x y", "é", "-0", "10"}
	if chance(r, 0.15) {
		keys = append(keys, "pluck")
	}
	r.Shuffle(len(keys), func(i, j int) { keys[i], keys[j] = keys[j], keys[i] })
	n := r.Intn(6)
	var parts []string
	for _, k := range keys[:n] {
		parts = append(parts, jsonString(k)+": "+pick(r, []string{"1", "2.5", `"s"`, `"10"`, "true", "null", `[1, 2]`, `{"nn": 1}`, "-0", `""`}))
	}
	objJSON := "{" + strings.Join(parts, ", ") + "}"
	o := c09Decode(objJSON)
	// the requested keys
	type karg struct {
		expr string
		key  string
		bad  bool
	}
	var args []karg
	for k := r.Intn(5); k > 0; k-- {
		x := r.Float64()
		switch {
		case x < 0.45 && n > 0:
			k := keys[r.Intn(n)]
			args = append(args, karg{mustStrLit(k), k, false})
		case x < 0.6:
			k := pick(r, []string{"nope", "zz", "", "A"})
			args = append(args, karg{mustStrLit(k), k, false})
		case x < 0.72:
			k := pick(r, []string{"length", "pluck", "push", "floor"})
			args = append(args, karg{mustStrLit(k), k, false})
		case x < 0.88:
			f := pick(r, []float64{1, 1.5, 10, 0, 2})
			args = append(args, karg{numLit(f), c16F(f), false})
		case x < 0.91:
			args = append(args, karg{"(-0)", "-0", false})
		case x < 0.97 && len(args) > 0:
			args = append(args, args[r.Intn(len(args))]) // repeated
		default:
			args = append(args, karg{pick(r, []string{"null", "true", "[]", "{}", "un", "/re/"}), "", true})
		}
	}
	bad := false
	want := c09NewObj()
	for _, a := range args {
		if a.bad {
			bad = true
			break
		}
		if c, ok := o.o.m[a.key]; ok {
			want.o.m[a.key] = &c09Cell{c.v}
		} else {
			want.o.m[a.key] = &c09Cell{c09Null}
		}
	}
	exprs := make([]string, len(args))
	for i, a := range args {
		exprs[i] = a.expr
	}
	src := "$.o"
	if chance(r, 0.3) && !strings.Contains(objJSON, "x y") && !strings.Contains(objJSON, "é") && !strings.Contains(objJSON, "1.5") && !strings.Contains(objJSON, "-0") && !strings.Contains(objJSON, `"1"`) && !strings.Contains(objJSON, `"10"`) {
		// the same object as a literal (keys that are identifiers only)
		src = strings.NewReplacer(`"a":`, "a:", `"b":`, "b:", `"c":`, "c:", `"length":`, "length:", `"pluck":`, "pluck:", `"nn":`, "nn:").Replace(objJSON)
	}
	lenStmt, lenWant := "print r.length()", fmt.Sprint(len(want.o.m))
	if _, has := want.o.m["length"]; has {
		lenStmt, lenWant = "print 'own length'", "own length" // the plucked member hides the method
	}
	if _, has := o.o.m["pluck"]; has {
		bad = true // an own member named pluck hides the method: calling it is an error
	}
	prog := "{\n  o = " + src + "\n  before = json(o)\n  r = o.pluck(" + strings.Join(exprs, ", ") + ")\n  print r\n  " + lenStmt + "\n  print o\n" +
		"  r.NEW = 99\n  r.a = 'changed'\n  print r\n  print o\n  print json(o) == before\n}\n"
	oBefore := c09Pretty(o, false)
	exp := ""
	if !bad {
		exp = c09Pretty(want, false) + "\n" + lenWant + "\n" + oBefore + "\n"
		want.o.m["NEW"] = &c09Cell{c09N(99)}
		want.o.m["a"] = &c09Cell{c09S("changed")}
		exp += c09Pretty(want, false) + "\n" + oBefore + "\ntrue\n"
	}
	doc := `{"o": ` + objJSON + `}`
	return Case{Req: RunReq(prog, nil, []File{{Name: "in.json", Data: []byte(doc)}}, false), Fields: []string{"class", "out"},
		Meta: metaProg(prog, "input", doc),
		Oracle: func(i Resp) string {
			if bad {
				if i["class"] != "runtime" {
					return "pluck with a key that is neither number nor string (or on an object whose own member hides the method) must be a runtime error"
				}
				return ""
			}
			if i["class"] != "ok" {
				return "pluck must succeed: " + i["class"] + " " + i["msg"]
			}
			if got := string(i.Bytes("out")); got != exp {
				return fmt.Sprintf("pluck: %s", c09FirstDiff(got, exp))
			}
			return ""
		}}
}

// ---------------------------------------------------------------- num / json

var c16NumStrings = []string{"1e3", "0x10", "0x1p-2", "0X1P4", "1_000", "0x_1f", "1__0", "_1", "1_", " 1", "1 ", "inf", "-inf", "+Inf", "infinity", "INFINITY", "nan", "NaN", "+nan", "+5", "-5", ".5", "5.", "5.e1", "",
	"-", "+", "e5", "1e", "1e+", "0b101", "0o7", "1e999", "-1e999", "1e-999", "0x", "0x.p1", "0x1.8p1", "1.5", "007", "-0", "+0", "0.1", "1e21", "123456789012345678901234567890", "9007199254740993", "1,5",
	"１", "1e3x", "Infinit", "in", "0e0", "00.100", "1.7976931348623157e308", "1.7976931348623159e308", "4.9e-324", "2e-324", "0x1p-1075", "abc", "true", "null", "[1]", "1\n", "\t1"}

func c16NumOracle(in string) string {
	f, err := strconv.ParseFloat(in, 64)
	if err != nil {
		return "null"
	}
	return c16F(f)
}

// ---------------------------------------------------------------- num() at the integer boundaries

// c16BoundaryDigits: decimal digit strings around the limits of the integer types a
// conversion could go through (int32, uint32, the 53-bit mantissa, int64, uint64), powers of
// ten, and for every length 1-40 the all-nines string, 1 followed by zeros, and random digits.
func c16BoundaryDigits(r *rand.Rand, perLen int) []string {
	seen := map[string]bool{}
	var out []string
	add := func(s string) {
		if s != "" && !seen[s] {
			seen[s] = true
			out = append(out, s)
		}
	}
	pow := func(b, e int64) *big.Int { return new(big.Int).Exp(big.NewInt(b), big.NewInt(e), nil) }
	var bases []*big.Int
	for _, e := range []int64{7, 8, 15, 16, 24, 31, 32, 52, 53, 54, 62, 63, 64, 65, 127, 128} {
		bases = append(bases, pow(2, e))
	}
	for _, e := range []int64{9, 10, 15, 16, 17, 18, 19, 20, 21, 22, 23, 38} {
		bases = append(bases, pow(10, e))
	}
	for _, b := range bases {
		for d := int64(-2); d <= 2; d++ {
			v := new(big.Int).Add(b, big.NewInt(d))
			add(v.String())
		}
	}
	// the halfway points between neighbouring doubles just above 2^53 and 2^63 (round to even)
	for _, t := range []string{"9007199254740993", "9007199254740995", "9223372036854776832", "9223372036854775296", "9223372036854777856", "18446744073709552640", "18446744073709553664",
		"9223372036854775807", "9223372036854775808", "9999999999999999999", "0", "1", "7", "42"} {
		add(t)
	}
	for n := 1; n <= 40; n++ {
		add(strings.Repeat("9", n))
		add("1" + strings.Repeat("0", n-1))
		add(strings.Repeat("9", n-1) + "8")
		add("9" + strings.Repeat("0", n-1))
		if n >= 2 {
			add("9223372036854775807922337203685477580792"[:n]) // prefixes of MaxInt64 MaxInt64
			add("1844674407370955161518446744073709551615"[:n])
		}
		for k := 0; k < perLen; k++ {
			b := make([]byte, n)
			for i := range b {
				b[i] = byte('0' + r.Intn(10))
			}
			if b[0] == '0' {
				b[0] = byte('1' + r.Intn(9))
			}
			if k%2 == 1 {
				b[0] = '9' // the upper part of the length class: above MaxInt64 / MaxUint64 for 19 / 20 digits
			}
			add(string(b))
		}
	}
	return out
}

// c16Decorate: the spellings of one digit string that ParseFloat accepts (sign, leading zeros,
// a trailing point / fraction, exponents, underscores, hex) and near misses (blanks, lone sign)
func c16Decorate(r *rand.Rand, d string, all bool) []string {
	v, _ := new(big.Int).SetString(d, 10)
	hexs := fmt.Sprintf("%x", v)
	grouped := d
	if len(d) > 3 {
		var parts []string
		for e := len(d); e > 0; e -= 3 {
			b := e - 3
			if b < 0 {
				b = 0
			}
			parts = append([]string{d[b:e]}, parts...)
		}
		grouped = strings.Join(parts, "_")
	}
	pad := func(n int) string {
		if len(d) >= n {
			return "0" + d
		}
		return strings.Repeat("0", n-len(d)) + d
	}
	forms := []string{d, "-" + d, "+" + d, "0" + d, "000" + d, pad(19), pad(20), pad(18), " " + d, d + " ", "\t" + d, d + "\n", d + ".", d + ".0", d + ".5", d + ".00000000000000000000", d + "e0", d + "E0", d + "e+0", d + "e-0",
		d + "e1", d + "0e-1", d + "e-1", "-" + d + ".", "+" + d + ".0", "-0" + d, grouped, "-" + grouped, "0x" + hexs + "p0", "0X" + strings.ToUpper(hexs) + "P0", "0x" + hexs + "p+0", "-0x" + hexs + "p0", "0x" + hexs, "0x_" + hexs + "p0",
		d[:len(d)-1] + "." + d[len(d)-1:] + "e1", "." + d + "e" + fmt.Sprint(len(d)), "0." + d + "e+" + fmt.Sprint(len(d)), d + "_", "_" + d, d + "f", d + "d", "+-" + d, "++" + d, "- " + d}
	if all {
		return forms
	}
	// the plain spellings always, a sample of the others
	out := append([]string{}, forms[:8]...)
	for _, j := range r.Perm(len(forms) - 8)[:7] {
		out = append(out, forms[8+j])
	}
	return out
}

func c16ModOracle(x float64, m int) (string, bool) {
	if math.IsNaN(x) || math.Abs(x) >= 1<<63 {
		return "", false
	}
	return c16F(float64(int(x) % m)), true
}

func c16NumBoundaries(r *rand.Rand, tier string, emit func(Case)) {
	digits := c16BoundaryDigits(r, tierN(tier, 2, 12))
	zero, one := 0.0, 1.0 // variables: the signs of zero results must come out as at run time
	fields := []string{"class", "out"}
	emptyDoc := []File{{Name: "in.json", Data: []byte("{}")}}
	expect := func(prog string, files []File, what string, want string, row string) {
		emit(Case{Req: RunReq(prog, nil, files, false), Fields: fields, Meta: metaProg(prog, "probe", what, "input", string(files[0].Data), "row", row),
			Oracle: func(i Resp) string {
				if i["class"] != "ok" || string(i.Bytes("out")) != want {
					return fmt.Sprintf("%s: got %s %q, Go's strconv.ParseFloat / float64 arithmetic say %q", what, i["class"], string(i.Bytes("out")), want)
				}
				return ""
			}})
	}
	modelOnly := func(prog string, files []File, what string, row string) {
		emit(Case{Req: RunReq(prog, nil, files, false), Fields: fields, Meta: metaProg(prog, "probe", what, "input", string(files[0].Data), "row", row), Oracle: c16OkOrRuntime, NonTrivial: c09NT})
	}
	for di, d := range digits {
		f, _ := strconv.ParseFloat(d, 64)
		// (a) num() of every spelling
		for _, s := range c16Decorate(r, d, di%16 == 0 || tier == "thorough") {
			doc := map[string]string{}
			S := c16StrExpr(r, s, "s", doc)
			prog := "{\n  n = num(" + S + ")\n  print n, n is number, n is null\n}\n"
			w := c16NumOracle(s)
			expect(prog, []File{{Name: "in.json", Data: []byte(c16Doc(doc))}}, fmt.Sprintf("num(%q)", s), w+" "+fmt.Sprint(w != "null")+" "+fmt.Sprint(w == "null")+"\n", "num(string)")
		}
		// (b) the string in arithmetic (converted like num(), 0 when it is not a number)
		if di%2 == 0 {
			s := pick(r, []string{d, "-" + d, d + ".", "0" + d, d + "e0", "+" + d})
			sf, err := strconv.ParseFloat(s, 64)
			if err != nil {
				sf = 0
			}
			prog := "{\n  s = " + mustStrLit(s) + "\n  print s - 0, s * 1, -s, s / 1, 0 - s, (s - 0) == num(s)\n}\n"
			expect(prog, emptyDoc, "arithmetic on the string "+s, fmt.Sprintf("%s %s %s %s %s true\n", c16F(sf-zero), c16F(sf*one), c16F(-sf), c16F(sf/one), c16F(zero-sf)), "string in arithmetic")
		}
		// (c) the digits as a number literal of the program and as a number of the input
		if di%2 == 1 || len(d) >= 15 {
			prog := "{\n  x = " + d + "\n  print x, x + 0, 0 - x, x == num('" + d + "'), x is number\n  print $.x, $.x + 0, $.x * 1, $.x == x, $.neg, $.dot, $.exp\n}\n"
			in := `{"x": ` + d + `, "neg": -` + d + `, "dot": ` + d + `.0, "exp": ` + d + `e0}`
			expect(prog, []File{{Name: "in.json", Data: []byte(in)}}, "the number "+d+" as a literal and from the input",
				fmt.Sprintf("%s %s %s true true\n%s %s %s true %s %s %s\n", c16F(f), c16F(f+0), c16F(0-f), c16F(f), c16F(f+0), c16F(f*1), c16F(-f), c16F(f), c16F(f)), "number literal / JSON number")
		}
		// (d) conversions to an integer: %, num(number), index
		if di%3 == 0 || (len(d) >= 18 && len(d) <= 21) {
			m := pick(r, []int{7, 10, 2, 1000, 4294967296})
			prog := fmt.Sprintf("{\n  print $.x %% %d, num('%s') %% %d, (0 - $.x) %% %d, num($.x), num(0 - $.x)\n}\n", m, d, m, m)
			in := `{"x": ` + d + `}`
			w1, ok := c16ModOracle(f, m)
			if ok {
				w2, _ := c16ModOracle(-f, m)
				expect(prog, []File{{Name: "in.json", Data: []byte(in)}}, "integer conversions of "+d, fmt.Sprintf("%s %s %s %s %s\n", w1, w1, w2, c16F(math.Trunc(f)), c16F(math.Trunc(-f)+0)), "% and num(number)")
			} else {
				modelOnly(prog, []File{{Name: "in.json", Data: []byte(in)}}, "integer conversions of "+d+" (outside int64: the model decides)", "% and num(number), outside int64")
			}
		}
		// (e) order: num() of d and of d+1 compare like the nearest doubles do
		if di%3 == 1 {
			v, _ := new(big.Int).SetString(d, 10)
			d2 := new(big.Int).Add(v, big.NewInt(pick(r, []int64{1, 1, 2, 1000, 1025}))).String()
			f2, _ := strconv.ParseFloat(d2, 64)
			prog := "{\n  a = num('" + d + "'); b = num('" + d2 + "')\n  print a < b, a == b, a > b, a <= b, b - a\n}\n"
			expect(prog, emptyDoc, "order of num("+d+") and num("+d2+")", fmt.Sprintf("%v %v %v %v %s\n", f < f2, f == f2, f > f2, f <= f2, c16F(f2-f)), "order")
		}
	}
	// (f) index use: the subscript goes through a conversion to int
	for _, ix := range []string{"0", "1", "2", "00000000000000000001", "0000000000000000002", "2.", "1.0", "1e0", "10e-1", "0x1p0", "0x1p1", "+1", "-0", "1_0e-1", "2.9", "0.5", "3", "-1", "9223372036854775807", "9223372036854775808",
		"18446744073709551616", "18446744073709551617", "4294967296", "4294967297", "4294967298", "-9223372036854775808", "-9223372036854775809", "1e19", "1e30", "nan", "inf", "abc"} {
		prog := "{\n  a = [10, 20, 30]\n  i = num(" + mustStrLit(ix) + ")\n  print i\n  print a[i]\n}\n"
		f, err := strconv.ParseFloat(ix, 64)
		if err == nil && f >= 0 && f < 3 {
			expect(prog, emptyDoc, "index "+ix, fmt.Sprintf("%s\n%d\n", c16F(f), []int{10, 20, 30}[int(f)]), "index")
		} else {
			modelOnly(prog, emptyDoc, "index "+ix, "index out of range / not a number")
		}
	}
}

// ---------------------------------------------------------------- totality

var c16Methods = []string{"length", "push", "pop", "popfirst", "contains", "sort", "pluck", "split", "lower", "upper", "floor", "ceil", "round", "nosuch", "x"}

type c16Recv struct{ kind, expr string }

var c16Recvs = []c16Recv{
	{"N", "5"}, {"N", "2.5"}, {"N", "num('nan')"}, {"S", "'abc'"}, {"S", "''"}, {"S", "'Ab é'"}, {"B", "true"}, {"B", "false"}, {"Z", "null"}, {"U", "un"},
	{"A", "[1, 2]"}, {"A", "[]"}, {"O", "{k: 1}"}, {"O", "{}"}, {"O", "{length: 3, x: 'own'}"}, {"R", "/re/"}, {"F", "f"}, {"F", "num"}, {"M", "[1].push"}, {"M", "'s'.upper"},
}

var c16ArgLists = []string{"", "1", "'a'", "''", "null", "true", "un", "[1]", "{k: 1}", "/re/", "1, 2", "'a', 'b'", "1, 'a'", "null, null", "[1], 2", "1, 2, 3", "'a', 1, null", "'k', 'x', 'k'", "f", "1, num"}

func c16OkOrRuntime(i Resp) string {
	if i["class"] != "ok" && i["class"] != "runtime" {
		return "a method or builtin must answer a value or a runtime error, got class " + i["class"] + " " + i["msg"]
	}
	return ""
}

func init() {
	register(Family{
		Name: "split-join", Prop: "C16",
		Rule: "every receiver (empty, ASCII, multi-byte, invalid UTF-8 bytes, separators at the ends / repeated / overlapping) x every separator (empty, single, multi-byte, partial multi-byte bytes, longer than the string, the string itself) of two pools, as literals or document fields; the program joins the pieces with a loop and compares with ==, checks that no piece contains sep, prints count, pieces and the receiver; oracle: the same laws checked in Go on the printed pieces, count = non-overlapping occurrences + 1 (characters for the empty separator)",
		Gen: func(r *rand.Rand, tier string, emit func(Case)) {
			for _, s := range c16Receivers {
				for _, sep := range c16Seps {
					emit(c16SplitCase(r, s, sep))
				}
				emit(c16SplitCase(r, s, s))
			}
			n := tierN(tier, 500, 8000)
			alphabet := []string{"a", "b", ",", "é", "\xff", "\xc3", "\xa9", "日", " ", "ab", "🙂"}
			for i := 0; i < n; i++ {
				var sb strings.Builder
				for k := r.Intn(9); k > 0; k-- {
					sb.WriteString(pick(r, alphabet))
				}
				sep := ""
				for k := r.Intn(3); k > 0; k-- {
					sep += pick(r, alphabet)
				}
				emit(c16SplitCase(r, sb.String(), sep))
			}
			// wrong kinds and counts of the argument
			for _, a := range []string{"", "1", "null", "true", "[]", "{}", "un", "/a/", "',', 1", "1, ','"} {
				prog := "{\n  print 'B'\n  print 'a,b'.split(" + a + ")\n}\n"
				wantOK := strings.HasPrefix(a, "','")
				emit(Case{Req: RunReq(prog, nil, []File{{Name: "in.json", Data: []byte("{}")}}, false), Fields: []string{"class", "out"}, Meta: metaProg(prog),
					Oracle: func(i Resp) string {
						if wantOK && i["class"] == "ok" || !wantOK && i["class"] == "runtime" {
							return ""
						}
						return "split needs a string separator as first argument (runtime error otherwise): class " + i["class"]
					}, NonTrivial: c09NT})
			}
		},
	})
	register(Family{
		Name: "rounding", Prop: "C16",
		Rule: "floor/ceil/round on halves of both signs, numbers next to halves, integers, -0, huge, tiny, NaN, infinities, results of arithmetic, from literals, num(), document fields and directly on literals; oracle: math.Floor/Ceil/Round (halves away from zero) of the same double, rendered like print",
		Gen: func(r *rand.Rand, tier string, emit func(Case)) {
			nums := c16Numbers()
			for _, x := range nums {
				want := c16F(x.val) + " " + c16F(math.Floor(x.val)) + " " + c16F(math.Ceil(x.val)) + " " + c16F(math.Round(x.val)) + "\n"
				srcs := []struct{ prog, doc string }{
					{"{\n  x = " + x.expr + "\n  print x, x.floor(), x.ceil(), x.round()\n}\n", "{}"},
					{"{\n  print " + x.expr + ", " + x.expr + ".floor(), " + x.expr + ".ceil(), " + x.expr + ".round()\n}\n", "{}"},
				}
				if x.json != "" {
					srcs = append(srcs, struct{ prog, doc string }{"{\n  print $.x, $.x.floor(), $.x.ceil(), $.x.round()\n}\n", `{"x": ` + x.json + `}`},
						struct{ prog, doc string }{"{\n  for (v in $) { print v, v.floor(), v.ceil(), v.round() }\n}\n", `[[` + x.json + `]]`})
				}
				for _, s := range srcs {
					emit(Case{Req: RunReq(s.prog, nil, []File{{Name: "in.json", Data: []byte(s.doc)}}, false), Fields: []string{"class", "out"},
						Meta: metaProg(s.prog, "input", s.doc),
						Oracle: func(i Resp) string {
							if i["class"] != "ok" || string(i.Bytes("out")) != want {
								return fmt.Sprintf("floor/ceil/round: got %s %q, math package says %q", i["class"], string(i.Bytes("out")), want)
							}
							return ""
						}})
				}
				// a method directly on a positive literal after a unary minus: -(2.5.round())
				if x.val > 0 && !strings.ContainsAny(x.expr, "(n") {
					prog := "{\n  print -" + x.expr + ".round(), -" + x.expr + ".floor(), -" + x.expr + ".ceil()\n}\n"
					want := c16F(-math.Round(x.val)) + " " + c16F(-math.Floor(x.val)) + " " + c16F(-math.Ceil(x.val)) + "\n"
					emit(Case{Req: RunReq(prog, nil, []File{{Name: "in.json", Data: []byte("{}")}}, false), Fields: []string{"class", "out"}, Meta: metaProg(prog),
						Oracle: func(i Resp) string {
							if i["class"] != "ok" || string(i.Bytes("out")) != want {
								return fmt.Sprintf("got %q, want %q (the method binds tighter than unary minus)", string(i.Bytes("out")), want)
							}
							return ""
						}})
				}
			}
			// the methods ignore their arguments and need none
			for _, m := range []string{"floor", "ceil", "round"} {
				for _, a := range []string{"1", "1, 2", "'x'", "null, un"} {
					prog := "{\n  print 2.5." + m + "(" + a + "), (-2.5)." + m + "(" + a + ")\n}\n"
					emit(Case{Req: RunReq(prog, nil, []File{{Name: "in.json", Data: []byte("{}")}}, false), Fields: []string{"class", "out"}, Meta: metaProg(prog), Oracle: c16OkOrRuntime})
				}
			}
		},
	})
	register(Family{
		Name: "length-case", Prop: "C16",
		Rule: "length() of every pool string (bytes, also with invalid UTF-8) as literal or document field and of concatenations; of objects from documents (0-6 keys, duplicates, nested) and literals, before and after adding / overwriting keys; upper()/lower() on ASCII strings (oracle: byte-wise ASCII mapping, receiver unchanged) and a small non-ASCII sub-family (oracle: Go's strings.ToUpper/ToLower; the model declines); non-trivial = ok with output",
		Gen: func(r *rand.Rand, tier string, emit func(Case)) {
			for _, s := range append(append([]string{}, c16Receivers...), "Hello", "MiXeD 123 _-", "zZ", "@[`{") {
				doc := map[string]string{}
				S := c16StrExpr(r, s, "s", doc)
				prog := "{\n  s = " + S + "\n  print s.length(), (s + s).length(), (s + 'xy').length(), s.length(1, 2)\n}\n"
				want := fmt.Sprintf("%d %d %d %d\n", len(s), 2*len(s), len(s)+2, len(s))
				d := c16Doc(doc)
				emit(Case{Req: RunReq(prog, nil, []File{{Name: "in.json", Data: []byte(d)}}, false), Fields: []string{"class", "out"}, Meta: metaProg(prog, "input", d),
					Oracle: func(i Resp) string {
						if i["class"] != "ok" || string(i.Bytes("out")) != want {
							return fmt.Sprintf("string length counts bytes: got %q, want %q", string(i.Bytes("out")), want)
						}
						return ""
					}})
				ascii := true
				for k := 0; k < len(s); k++ {
					if s[k] >= 0x80 {
						ascii = false
					}
				}
				if strings.Contains(s, "\n") {
					continue
				}
				up, lo := strings.ToUpper(s), strings.ToLower(s)
				if ascii {
					ub, lb := []byte(s), []byte(s)
					for k := range ub {
						if ub[k] >= 'a' && ub[k] <= 'z' {
							ub[k] -= 32
						}
						if lb[k] >= 'A' && lb[k] <= 'Z' {
							lb[k] += 32
						}
					}
					up, lo = string(ub), string(lb)
				} else if !utf8.ValidString(s) {
					continue
				}
				prog2 := "{\n  s = " + S + "\n  print '[' + s.upper() + ']'\n  print '[' + s.lower() + ']'\n  print '[' + s + ']'\n  print '[' + s.upper().lower() + ']', s.upper().length()\n}\n"
				want2 := "[" + up + "]\n[" + lo + "]\n[" + s + "]\n[" + strings.ToLower(up) + "] " + fmt.Sprint(len(up)) + "\n"
				emit(Case{Req: RunReq(prog2, nil, []File{{Name: "in.json", Data: []byte(d)}}, false), Fields: []string{"class", "out"}, Meta: metaProg(prog2, "input", d),
					Oracle: func(i Resp) string {
						if i["class"] != "ok" || string(i.Bytes("out")) != want2 {
							return fmt.Sprintf("upper/lower: got %q, want %q", string(i.Bytes("out")), want2)
						}
						return ""
					}})
			}
			n := tierN(tier, 400, 5000)
			for i := 0; i < n; i++ {
				keys := []string{"a", "b", "c", "k1", "x y", "é", "10", "", "pluck", "A"}
				r.Shuffle(len(keys), func(i, j int) { keys[i], keys[j] = keys[j], keys[i] })
				k := r.Intn(7)
				var parts []string
				distinct := map[string]bool{}
				for _, key := range keys[:k] {
					parts = append(parts, jsonString(key)+": "+pick(r, []string{"1", `"s"`, "null", `{"nn": {"deep": 1}}`, `[1, 2, 3]`}))
					distinct[key] = true
					if chance(r, 0.15) {
						parts = append(parts, jsonString(key)+": 0") // a duplicate key: the last one wins, still one member
					}
				}
				doc := `{"o": {` + strings.Join(parts, ", ") + `}}`
				add := pick(r, []string{"fresh", "a", "b", "zz"})
				n1 := len(distinct)
				n2 := n1
				if !distinct[add] {
					n2++
				}
				prog := "{\n  o = $.o\n  print o.length(), $.o.length(7)\n  o." + add + " = 1\n  print o.length()\n  o[" + mustStrLit(add) + "] = null\n  print $.o.length(), {}.length(), {p: 1, q: {r: 2}, p: 3}.length()\n}\n"
				want := fmt.Sprintf("%d %d\n%d\n%d 0 2\n", n1, n1, n2, n2)
				emit(Case{Req: RunReq(prog, nil, []File{{Name: "in.json", Data: []byte(doc)}}, false), Fields: []string{"class", "out"}, Meta: metaProg(prog, "input", doc),
					Oracle: func(i Resp) string {
						if i["class"] != "ok" || string(i.Bytes("out")) != want {
							return fmt.Sprintf("object length counts keys: got %s %q, want %q", i["class"], string(i.Bytes("out")), want)
						}
						return ""
					}})
			}
		},
	})
	register(Family{
		Name: "pluck", Prop: "C16",
		Rule: "objects with 0-5 members over a key pool incl. method names and numeric-looking keys, from the document or as literal; 0-4 requested keys: present, absent, method-named (length pluck push floor), numeric (1, 1.5, -0), repeated, and of a non-key kind (error); the result, its length and the original printed, then the result mutated and both printed again; oracle: expected renderings computed in Go (exactly the requested keys, own values or null, original unchanged)",
		Gen: func(r *rand.Rand, tier string, emit func(Case)) {
			n := tierN(tier, 2500, 30000)
			for i := 0; i < n; i++ {
				emit(c16PluckCase(r))
			}
		},
	})
	register(Family{
		Name: "num-json", Prop: "C16",
		Rule: "num() on 63 strings covering Go's ParseFloat syntax and its neighbours (oracle: strconv.ParseFloat, null when it fails), on numbers (truncation toward zero for |x| < 2^63) and on every other kind (null), with 0-3 arguments; json() of scalars, documents (oracle: re-parsed output equals re-parsed input), unset, cycles, functions, wrong argument counts",
		Gen: func(r *rand.Rand, tier string, emit func(Case)) {
			for _, s := range c16NumStrings {
				doc := map[string]string{}
				S := c16StrExpr(r, s, "s", doc)
				prog := "{\n  n = num(" + S + ")\n  print n, n is number, n is null\n}\n"
				w := c16NumOracle(s)
				want := w + " " + fmt.Sprint(w != "null") + " " + fmt.Sprint(w == "null") + "\n"
				d := c16Doc(doc)
				emit(Case{Req: RunReq(prog, nil, []File{{Name: "in.json", Data: []byte(d)}}, false), Fields: []string{"class", "out"}, Meta: metaProg(prog, "input", d),
					Oracle: func(i Resp) string {
						if i["class"] != "ok" || string(i.Bytes("out")) != want {
							return fmt.Sprintf("num(%q): got %q, ParseFloat says %q", s, string(i.Bytes("out")), want)
						}
						return ""
					}})
			}
			for _, x := range c16Numbers() {
				if math.IsNaN(x.val) || math.Abs(x.val) >= 1<<63 {
					// outside int64: whatever the conversion gives, compared with the model only
					prog := "{\n  print num(" + x.expr + ")\n}\n"
					emit(Case{Req: RunReq(prog, nil, []File{{Name: "in.json", Data: []byte("{}")}}, false), Fields: []string{"class", "out"}, Meta: metaProg(prog), Oracle: c16OkOrRuntime})
					continue
				}
				prog := "{\n  print num(" + x.expr + "), num(" + x.expr + ") is number\n}\n"
				want := c16F(math.Trunc(x.val)+0) + " true\n"
				emit(Case{Req: RunReq(prog, nil, []File{{Name: "in.json", Data: []byte("{}")}}, false), Fields: []string{"class", "out"}, Meta: metaProg(prog),
					Oracle: func(i Resp) string {
						if i["class"] != "ok" || string(i.Bytes("out")) != want {
							return fmt.Sprintf("num of a number truncates: got %q, want %q", string(i.Bytes("out")), want)
						}
						return ""
					}})
			}
			for _, b := range []string{"num", "json"} {
				for _, a := range c16ArgLists {
					prog := "function f() { return 1 }\n{\n  r = " + b + "(" + a + ")\n  print r, r is null, r is string\n}\n"
					emit(Case{Req: RunReq(prog, nil, []File{{Name: "in.json", Data: []byte("{}")}}, false), Fields: []string{"class", "out"}, Meta: metaProg(prog), Oracle: c16OkOrRuntime, NonTrivial: c09NT})
				}
			}
			n := tierN(tier, 600, 8000)
			for i := 0; i < n; i++ {
				doc := genJSON(r, defaultJSONCfg(), 0)
				prog := pick(r, []string{"{\n  print json($)\n}\n", "{\n  x = $\n  print json(x)\n}\n", "{\n  print json([$][0])\n}\n", "{\n  print json({k: $}.k)\n}\n"})
				in := []byte("[" + doc + "]") // one element: the rule runs once with $ = the value
				emit(Case{Req: RunReq(prog, nil, []File{{Name: "in.json", Data: in}}, false), Fields: []string{"class", "out"}, Meta: metaProg(prog, "input", string(in)),
					Oracle: func(i Resp) string {
						if i["class"] != "ok" {
							return "json() of a decoded document must succeed: " + i["class"]
						}
						same, err := c09SameJSON(i.Bytes("out"), []byte(doc))
						if err != nil {
							return "json() output is not JSON: " + err.Error()
						}
						if !same {
							return "json() output re-parsed differs from the input re-parsed"
						}
						return ""
					}})
			}
			for _, p := range []string{"a = [1]; a.push(a); print json(a)", "o = {}; o.me = o; print json(o)", "print json(un)", "print json([un, null])", "print json(num('nan'))", "print json([num('inf')])",
				"print json('é\\n\"')", "print json(-0)", "print json(num('1e21')), json(0.000001), json(num('1e-7'))", "print json({b: 1, a: {d: [], c: {}}})", "print json(/re/)", "print json([/re/])"} {
				prog := "{\n  " + p + "\n}\n"
				emit(Case{Req: RunReq(prog, nil, []File{{Name: "in.json", Data: []byte("{}")}}, false), Fields: []string{"class", "out"}, Meta: metaProg(prog), Oracle: c16OkOrRuntime, NonTrivial: c09NT})
			}
		},
	})
	register(Family{
		Name: "num-boundaries", Prop: "C16",
		Rule: "num() on decimal digit strings of EVERY length 1-40 (all nines, 1 followed by zeros, prefixes of MaxInt64 / MaxUint64, random digits, upper part of each length class) and within +-2 of 2^7 ... 2^128 (int32, uint32, 2^53, int64, uint64 limits), 10^9 ... 10^38 and the round-to-even halfway points above 2^53 / 2^63 / 2^64, each in up to 44 spellings: sign, leading + , leading zeros (also padded to 18 / 19 / 20 characters), surrounding blanks, trailing . / .0 / .5 / twenty zeros, exponent forms, digit groups with underscores, hex mantissa with p exponent, and near misses; oracle: strconv.ParseFloat on the same text (null when it fails). The same values as strings in arithmetic (s - 0, s * 1, -s), as number literals of the program, as numbers of the JSON input (plain, negative, with .0, with e0), under %, num(number) and as array subscripts (oracle: Go's float64 / int arithmetic inside int64, the model alone outside), and the order of num(d) and num(d+k)",
		Gen:  c16NumBoundaries,
	})
	register(Family{
		Name: "totality", Prop: "C16",
		Rule: "every method name (15, incl. two that do not exist) on receivers of every kind (20 receivers: numbers, strings, bools, null, unset, arrays, objects incl. one with an own key `length`, regex, functions, bound methods) x 20 argument lists (0-3 arguments of every kind, function values); every method detached from its receiver by a match binding and called after the receiver variable was given a value of another kind; oracle: value or runtime error, never another class",
		Gen: func(r *rand.Rand, tier string, emit func(Case)) {
			applies := map[string]string{"N": "floor ceil round", "S": "length split lower upper", "A": "length push pop popfirst contains sort", "O": "length pluck"}
			for _, rc := range c16Recvs {
				for _, m := range c16Methods {
					lists := c16ArgLists
					if !strings.Contains(" "+applies[rc.kind]+" ", " "+m+" ") {
						// the receiver has no such method (calling null fails whatever the arguments): three lists only
						lists = []string{"", "1", "'a', 1, null"}
					}
					for _, a := range lists {
						prog := "function f() { return 1 }\n{\n  x = 0\n  r = " + rc.expr + "." + m + "(" + a + ")\n  print r, r is null, r is number, r is string, r is array, r is bool\n}\n"
						if rc.kind != "F" && rc.kind != "M" && rc.kind != "U" {
							prog = "function f() { return 1 }\n{\n  v = " + rc.expr + "\n  r = v." + m + "(" + a + ")\n  print r, r is null, r is number, r is string, r is array, r is bool\n  print v\n}\n"
						}
						emit(Case{Req: RunReq(prog, nil, []File{{Name: "in.json", Data: []byte("{}")}}, false), Fields: []string{"class", "out"},
							Meta: metaProg(prog, "kinds", rc.kind+"."+m), Oracle: c16OkOrRuntime, NonTrivial: c09NT})
					}
				}
			}
			holders := []struct{ init, methods string }{
				{"[3, 1, 2]", "length push pop popfirst contains sort"}, {"{k: 1, j: 2}", "length pluck"}, {"'a,B'", "length split lower upper"}, {"2.5", "floor ceil round"},
			}
			for _, h := range holders {
				for _, m := range strings.Fields(h.methods) {
					for _, nv := range []string{"5", "'str'", "true", "null", "[9, 8]", "{z: 1}", "/re/", "2.5", "''"} {
						for _, a := range []string{"", "1", "','", "'k', 'j'"} {
							prog := "{\n  a = " + h.init + "\n  match (a." + m + ") { p => {\n    print p(" + a + ")\n    a = " + nv + "\n    r = p(" + a + ")\n    print r, r is null, r is number, r is array\n    print a\n  } }\n\n}\n"
							emit(Case{Req: RunReq(prog, nil, []File{{Name: "in.json", Data: []byte("{}")}}, false), Fields: []string{"class", "out"},
								Meta: metaProg(prog), Oracle: c16OkOrRuntime, NonTrivial: c09NT})
						}
					}
				}
			}
		},
	})
}

// ---------------------------------------------------------------- every syntactic form of a method call
//
// The string / object / number methods reached in every syntactic form of
// member access (see c15FormNames in fam_c15.go: dot, index with a literal, a
// variable, a concatenation, a function result, an array element, an object
// member, the result of an assignment, parentheses around the receiver or the
// member expression, a match binding holding the bound method), on a receiver
// that is a literal, a variable, a field of the document ($.name,
// $.people[1].name), an element of a container, a parameter or a for-in
// variable. The result must be what the dot form gives and what Go computes.

type c16Probe struct {
	lit  string // the receiver as a jqawk expression
	js   string // the receiver as JSON
	m    string
	args string
	want string // what print shows for the result
	show string // what print shows for the receiver
}

func c16AsciiCase(s string, upper bool) string {
	b := []byte(s)
	for k := range b {
		if upper && b[k] >= 'a' && b[k] <= 'z' {
			b[k] -= 32
		}
		if !upper && b[k] >= 'A' && b[k] <= 'Z' {
			b[k] += 32
		}
	}
	return string(b)
}

func c16Probes() []c16Probe {
	var ps []c16Probe
	for _, s := range []string{"Hello, World", "", "a,b,,c", "abc"} {
		lit, js := mustStrLit(s), jsonString(s)
		ps = append(ps, c16Probe{lit, js, "length", "", fmt.Sprint(len(s)), s}, c16Probe{lit, js, "upper", "", c16AsciiCase(s, true), s}, c16Probe{lit, js, "lower", "", c16AsciiCase(s, false), s})
		for _, sep := range []string{",", "", "b"} {
			var pieces []string
			if sep == "" {
				for _, ch := range s {
					pieces = append(pieces, string(ch))
				}
			} else {
				pieces = strings.Split(s, sep)
			}
			q := make([]string, len(pieces))
			for i, x := range pieces {
				q[i] = `"` + x + `"`
			}
			ps = append(ps, c16Probe{lit, js, "split", mustStrLit(sep), "[" + strings.Join(q, ", ") + "]", s})
		}
	}
	for _, o := range []struct{ lit, js string }{{`{a: 1, b: "x", c: [1, 2]}`, `{"a": 1, "b": "x", "c": [1, 2]}`}, {"{}", "{}"}, {`{length: 2, z: null}`, `{"length": 2, "z": null}`}} {
		v := c09Decode(o.js)
		show := c09Pretty(v, false)
		if _, own := v.o.m["length"]; !own {
			ps = append(ps, c16Probe{o.lit, o.js, "length", "", fmt.Sprint(len(v.o.m)), show})
		}
		for _, keys := range [][]string{{"a", "c"}, {"zz"}, {}, {"b", "b", "z"}} {
			want := c09NewObj()
			q := make([]string, len(keys))
			for i, k := range keys {
				q[i] = mustStrLit(k)
				if c, ok := v.o.m[k]; ok {
					want.o.m[k] = &c09Cell{c.v}
				} else {
					want.o.m[k] = &c09Cell{c09Null}
				}
			}
			ps = append(ps, c16Probe{o.lit, o.js, "pluck", strings.Join(q, ", "), c09Pretty(want, false), show})
		}
	}
	for _, f := range []float64{2.5, -2.5, 7, 0.49, -3.5, 1e15 + 0.5} {
		lit := numLit(f)
		js := strconv.FormatFloat(f, 'f', -1, 64)
		ps = append(ps, c16Probe{lit, js, "floor", "", c16F(math.Floor(f)), c16F(f)}, c16Probe{lit, js, "ceil", "", c16F(math.Ceil(f)), c16F(f)}, c16Probe{lit, js, "round", "", c16F(math.Round(f)), c16F(f)})
	}
	return ps
}

var c16PlaceNames = []string{"literal", "variable", "$.name", "$.people[1].name", "o.t[0]", "parameter", "for-in variable", `$["people"][1]["name"]`}

// c16FormCase: probe p, its call written in the given form, the receiver in the given place
func c16FormCase(r *rand.Rand, p c16Probe, form, place int) Case {
	var aux c15Aux
	doc := `{"name": ` + p.js + `, "people": [{"name": 1}, {"name": ` + p.js + `}]}`
	R, setup := p.lit, ""
	switch place {
	case 1:
		R, setup = "v", "  v = "+p.lit+"\n"
	case 2:
		R = "$.name"
	case 3:
		R = "$.people[1].name"
	case 4:
		R, setup = "o.t[0]", "  o = {t: ["+p.lit+"]}\n"
	case 5:
		R = "p"
	case 6:
		R = "e"
	case 7:
		R = `$["people"][1]["name"]`
	}
	callText := c15FormText(r, &aux, form, R, p.m, p.args)
	dot := R + "." + p.m + "(" + p.args + ")"
	var body, funcs string
	switch place {
	case 5:
		funcs = "function via(p) {\n  return " + callText + "\n}\nfunction viadot(p) {\n  return " + dot + "\n}\n"
		body = "  print via(" + p.lit + ")\n  print viadot(" + p.lit + ")\n  print " + p.lit + "\n"
	case 6:
		body = "  for (e in [" + p.lit + "]) {\n    print " + callText + "\n    print " + dot + "\n    print e\n  }\n"
	default:
		body = setup + "  print " + callText + "\n  print " + dot + "\n  print " + R + "\n"
	}
	prog := funcs + aux.funcs() + "{\n" + aux.prelude("  ") + body + "}\n"
	want := p.want + "\n" + p.want + "\n" + p.show + "\n"
	return Case{Req: RunReq(prog, nil, []File{{Name: "in.json", Data: []byte(doc)}}, false), Fields: []string{"class", "out"},
		Meta: metaProg(prog, "input", doc, "row", c15FormNames[form], "col", p.m, "place", c16PlaceNames[place]),
		Oracle: func(i Resp) string {
			if i["class"] != "ok" || string(i.Bytes("out")) != want {
				return fmt.Sprintf("%s on %s written %s: got %s %q, want %q (the result, the same from the dot form, the receiver unchanged)", p.m, c16PlaceNames[place], c15FormNames[form], i["class"], string(i.Bytes("out")), want)
			}
			return ""
		}}
}

// ---------------------------------------------------------------- json() of values with shared parts
//
// json(v) succeeds exactly when v does not reach itself. A container that is
// referenced several times -- by siblings, at different depths, from the
// document and from variables -- is no cycle: it is written out once per
// reference. The graphs are built by programs (gen_values.go): assignments,
// pushes, index and member stores, array and object literals naming earlier
// containers, and containers that came with the input.

func c16GraphScalar(g *vgGraph, lit, pretty string, val interface{}) int {
	g.nodes = append(g.nodes, vgNode{kind: 's', lit: lit, pretty: pretty, val: val})
	return len(g.nodes) - 1
}

// a container held by a variable, created by the statement `cN = expr`
func c16GraphCont(g *vgGraph, kind byte, expr string, kids []int, keys []string) int {
	g.nodes = append(g.nodes, vgNode{kind: kind, kids: kids, keys: keys})
	id := len(g.nodes) - 1
	g.conts = append(g.conts, id)
	g.stmts = append(g.stmts, g.varOf(id)+" = "+expr)
	return id
}

const c16ShareDoc = `{"a": [1, "x"], "o": {"k": [true], "n": null}, "e": [], "eo": {}}`

// the containers of c16ShareDoc, named by variables
func c16DocGraph(g *vgGraph) {
	a := c16GraphCont(g, 'a', "$.a", []int{c16GraphScalar(g, "1", "1", 1.0), c16GraphScalar(g, `"x"`, `"x"`, "x")}, nil)
	k := c16GraphCont(g, 'a', "$.o.k", []int{c16GraphScalar(g, "true", "true", true)}, nil)
	o := c16GraphCont(g, 'o', "$.o", []int{k, c16GraphScalar(g, "null", "null", nil)}, []string{"k", "n"})
	e := c16GraphCont(g, 'a', "$.e", nil, nil)
	eo := c16GraphCont(g, 'o', "$.eo", nil, nil)
	c16GraphCont(g, 'o', "$", []int{a, o, e, eo}, []string{"a", "o", "e", "eo"})
}

var c16LitKeys = []string{"a", "b", "c", "k1", "z", "v", "d", "name"}

// c16LitHolder: a new container written as a literal whose items are the given nodes (earlier
// containers by their variable, scalars by their literal), some of them wrapped in one more
// anonymous literal container
func c16LitHolder(r *rand.Rand, g *vgGraph, kind byte, kids []int) int {
	text := func(id int) string {
		if g.nodes[id].kind == 's' {
			return g.nodes[id].lit
		}
		return g.varOf(id)
	}
	var items []string
	var ids []int
	var keys []string
	for i, k := range kids {
		t := text(k)
		id := k
		if chance(r, 0.25) {
			// an anonymous container around it
			if chance(r, 0.5) {
				g.nodes = append(g.nodes, vgNode{kind: 'a', kids: []int{k, k}})
				t = "[" + t + ", " + t + "]"
			} else {
				g.nodes = append(g.nodes, vgNode{kind: 'o', kids: []int{k}, keys: []string{"w"}})
				t = "{w: " + t + "}"
			}
			id = len(g.nodes) - 1
		}
		ids = append(ids, id)
		if kind == 'o' {
			key := c16LitKeys[i%len(c16LitKeys)]
			keys = append(keys, key)
			if chance(r, 0.3) {
				t = `"` + key + `": ` + t
			} else {
				t = key + ": " + t
			}
		}
		items = append(items, t)
	}
	if kind == 'a' {
		return c16GraphCont(g, 'a', "["+strings.Join(items, ", ")+"]", ids, nil)
	}
	return c16GraphCont(g, 'o', "{"+strings.Join(items, ", ")+"}", ids, keys)
}

// c16ShareGraph: shared containers referenced 2-4 times from holders at different depths; with
// cyclic = true some container also reaches itself
func c16ShareGraph(r *rand.Rand, fromDoc, cyclic bool) *vgGraph {
	g := &vgGraph{}
	var shared []int
	if fromDoc {
		c16DocGraph(g)
		shared = append(shared, g.conts[:5]...)
	}
	for k := 1 + r.Intn(2); k > 0; k-- {
		s := g.newCont(pick(r, []byte{'a', 'a', 'o'}))
		for j := r.Intn(3); j > 0; j-- {
			g.link(r, s, g.scalar(r, true, false), pick(r, []string{"a", "b", "v"}))
		}
		if len(shared) > 0 && chance(r, 0.4) {
			g.link(r, s, pick(r, shared), pick(r, []string{"c", "k1", "z"})) // a shared container inside a shared container
		}
		shared = append(shared, s)
	}
	first := len(g.conts)
	nh := 1 + r.Intn(5)
	for h := 0; h < nh; h++ {
		// what the new holder refers to: shared containers (each 1-3 times), the holder before it (depth), an earlier holder, scalars
		var kids []int
		for k := 1 + r.Intn(2); k > 0; k-- {
			s := pick(r, shared)
			for c := 1 + r.Intn(3); c > 0; c-- {
				kids = append(kids, s)
			}
		}
		if h > 0 && chance(r, 0.8) {
			kids = append(kids, g.conts[len(g.conts)-1])
		}
		if h > 1 && chance(r, 0.4) {
			kids = append(kids, g.conts[first+r.Intn(h)])
		}
		for k := r.Intn(2); k > 0; k-- {
			kids = append(kids, g.scalar(r, true, false))
		}
		r.Shuffle(len(kids), func(i, j int) { kids[i], kids[j] = kids[j], kids[i] })
		kind := pick(r, []byte{'a', 'o'})
		if fromDoc && h == nh-1 && chance(r, 0.5) {
			// hang everything into the document itself
			for i, k := range kids {
				g.link(r, g.conts[5], k, pick(r, []string{"b", "c", "k1", "z", "a"})+fmt.Sprint(i))
			}
			continue
		}
		if chance(r, 0.5) && len(kids) <= len(c16LitKeys) {
			c16LitHolder(r, g, kind, kids)
			continue
		}
		id := g.newCont(kind)
		for i, k := range kids {
			g.link(r, id, k, vgGraphKeys[(i+r.Intn(3))%len(vgGraphKeys)]+fmt.Sprint(i))
		}
	}
	if cyclic {
		// a back edge: from a container to itself, to a later one or to the last holder
		from := pick(r, g.conts)
		to := g.conts[len(g.conts)-1]
		switch r.Intn(4) {
		case 0:
			to = from
		case 1:
			to = pick(r, g.conts)
		}
		g.link(r, from, to, pick(r, []string{"self", "c", "k1"}))
	}
	return g
}

func c16ShareCase(r *rand.Rand) Case {
	fromDoc, cyclic := chance(r, 0.35), chance(r, 0.25)
	g := c16ShareGraph(r, fromDoc, cyclic)
	// what to convert: mostly the last holder (or the document), sometimes others, up to three in a row
	var roots []int
	for k := 1 + r.Intn(3); k > 0; k-- {
		switch {
		case fromDoc && chance(r, 0.5):
			roots = append(roots, g.conts[5])
		case chance(r, 0.6):
			roots = append(roots, g.conts[len(g.conts)-1])
		default:
			roots = append(roots, pick(r, g.conts))
		}
	}
	var wants []interface{}
	fails := false
	body := strings.Join(g.stmts, "\n  ")
	for _, id := range roots {
		arg := g.varOf(id)
		if chance(r, 0.2) {
			arg = pick(r, []string{"[" + arg + "][0]", "{k: " + arg + "}.k", "(" + arg + ")"})
		}
		body += "\n  print json(" + arg + ")"
		if t, ok := g.tree(id, nil); ok && !fails {
			wants = append(wants, t)
		} else {
			fails = true
		}
	}
	body += "\n  print 7"
	if !fails {
		wants = append(wants, 7.0)
	}
	var prog string
	var files []File
	input := ""
	if fromDoc {
		prog, files, input = "{\n  "+body+"\n}\n", vgDocFile(c16ShareDoc), c16ShareDoc
	} else {
		prog = "BEGIN {\n  " + body + "\n}\n"
	}
	row := "acyclic"
	if fails {
		row = "reaches itself"
	}
	return Case{Req: RunReq(prog, nil, files, false), Fields: []string{"class", "out"}, Meta: metaProg(prog, "input", input, "row", row, "values", fmt.Sprint(len(wants))),
		Oracle: func(i Resp) string {
			wantClass := "ok"
			if fails {
				wantClass = "runtime"
			}
			if i["class"] != wantClass {
				if fails {
					return "json() of a value that reaches itself must be a runtime error (circular reference), got class " + i["class"]
				}
				return "json() of a value that does not reach itself (shared parts are no cycle) must succeed, got class " + i["class"] + " " + i["msg"]
			}
			got, err := vgDecodeAll(i.Bytes("out"))
			if err != nil {
				return "json() output is not valid JSON for Go's decoder: " + err.Error() + ": " + short(string(i.Bytes("out")))
			}
			if len(got) != len(wants) {
				return fmt.Sprintf("%d values printed, expected %d: %s", len(got), len(wants), short(string(i.Bytes("out"))))
			}
			for k := range got {
				if !vgEqual(got[k], wants[k]) {
					return fmt.Sprintf("json() value %d parses to a different value: want %s got %s", k, vgShow(wants[k]), vgShow(got[k]))
				}
			}
			return ""
		}, NonTrivial: c09NT}
}

func init() {
	register(Family{
		Name: "method-forms", Prop: "C16",
		Rule: "length upper lower split (strings), length pluck (objects), floor ceil round (numbers) reached in each of the 13 syntactic forms of a method call (dot, [\"m\"] in either quote, [variable], [concatenation], [function result], [array element], [object member], [result of an assignment], parentheses around the receiver / the member expression, a match binding holding the bound method) on a receiver that is a literal, a variable, $.name, $.people[1].name (also written with [\"..\"]), an element of a container, a parameter, a for-in variable; the program prints the result, the dot form's result and the receiver; oracle: all three as computed in Go; second part: every receiver kind x every method name (also names that are no method of it) x 4 index forms x 2 argument lists: value or runtime error, compared with the model; matrix form x method",
		Gen: func(r *rand.Rand, tier string, emit func(Case)) {
			for _, p := range c16Probes() {
				for form := range c15FormNames {
					places := r.Perm(len(c16PlaceNames))
					if tier != "thorough" {
						places = places[:2]
					}
					for _, pl := range places {
						if pl == 0 && strings.HasPrefix(p.lit, "{") && (form == 0 || form == 1 || form == 2 || form == 3 || form == 4 || form == 8 || form == 9 || form == 10) {
							pl = 1 // an object literal at the start of a print argument is fine, but keep the text unambiguous
						}
						emit(c16FormCase(r, p, form, pl))
					}
				}
			}
			for _, rc := range c16Recvs {
				for _, m := range c16Methods {
					for _, form := range []int{1, 3, 7, 10} {
						for _, a := range []string{"", "1"} {
							var aux c15Aux
							R := rc.expr
							setup := ""
							if rc.kind != "F" && rc.kind != "M" && rc.kind != "U" {
								R, setup = "v", "  v = "+rc.expr+"\n"
							}
							prog := "function f() { return 1 }\n{\n" + setup + "  r = " + c15FormText(r, &aux, form, R, m, a) + "\n  print r, r is null, r is number, r is string, r is array, r is bool\n}\n"
							emit(Case{Req: RunReq(prog, nil, []File{{Name: "in.json", Data: []byte("{}")}}, false), Fields: []string{"class", "out"},
								Meta: metaProg(prog, "kinds", rc.kind+"."+m), Oracle: c16OkOrRuntime, NonTrivial: c09NT})
						}
					}
				}
			}
		},
	})
	register(Family{
		Name: "json-sharing", Prop: "C16",
		Rule: "json() of values in which the same array / object is referenced 2-4 times without a cycle: by siblings of one holder, by holders at different depths (chains up to 5 deep, an ancestor and a descendant both referring to it), shared containers inside shared containers, arrays in objects and objects in arrays, built by push / index store / member store / array and object literals naming earlier containers (also wrapped in anonymous literals), containers that came with the input ($.a stored again under $.b, into variables' containers, everything hung into $ itself); 25 % with one more edge that makes a container reach itself (self edge, edge to a later holder, to the last holder); 1-3 json() calls in a row (the later ones must not be affected by the earlier), then `print 7`; oracle: acyclic -> ok and every printed text re-parsed by Go equals the tree of the graph, reaches itself -> runtime error after exactly the values before it; compared with the model (toJVal_acyclic_ok); matrix acyclic / reaches itself x class",
		Gen: func(r *rand.Rand, tier string, emit func(Case)) {
			for _, prog := range []string{
				"BEGIN {\n  t = [\"x\", \"y\"]\n  o.first = t\n  o.second = t\n  print json(o)\n  print json([t, t])\n  print json({p: t, q: {r: t}})\n  print json([[t], [[t]], t])\n}\n",
				"BEGIN {\n  t = {k: 1}\n  print json([t, t])\n  print json({a: t, b: [t, t]})\n  u = [t]\n  print json([u, u, t])\n}\n",
				"BEGIN {\n  t = []\n  print json([t, t, t, t])\n  e = {}\n  print json({a: e, b: e, c: [e]})\n}\n",
				"BEGIN {\n  t = [1]\n  print json([t, t])\n  print json([t, t])\n  t.push(t)\n  print json([1])\n  print json(t)\n}\n",
			} {
				cyc := strings.Contains(prog, "t.push(t)")
				emit(Case{Req: RunReq(prog, nil, nil, false), Fields: []string{"class", "out"}, Meta: metaProg(prog), Oracle: func(i Resp) string {
					if !cyc && i["class"] != "ok" || cyc && i["class"] != "runtime" {
						return "shared is not circular: class " + i["class"]
					}
					if _, err := vgDecodeAll(i.Bytes("out")); err != nil {
						return "invalid JSON: " + err.Error()
					}
					return ""
				}, NonTrivial: c09NT})
			}
			n := tierN(tier, 2000, 20000)
			for i := 0; i < n; i++ {
				emit(c16ShareCase(r))
			}
		},
	})
}

// ---------------------------------------------------------------- numbers from every source are numbers
//
// floor / ceil / round work on EVERY number, wherever the program got it from:
// a for-in position (arrays: index; strings: byte offset), $index, a length()
// result, arithmetic, num(), the document, a literal, ++ / -- / op= results, an
// element or member, a popped value, a match binding, a parameter, a function
// result, another rounding result. Each number is used directly and after being
// copied (j = E), put into a container, passed on, bound by a match, pushed.

type c16Src struct {
	name string
	tmpl string // the program; @U@ stands where the number is used (executed once per entry of vals), @E@ is the number
	e    string
	vals []float64
	pure bool // evaluating @E@ twice gives the same number and has no effect
	doc  string
}

func c16NumberSources() []c16Src {
	var out []c16Src
	add := func(name, tmpl, e string, pure bool, doc string, vals ...float64) {
		if doc == "" {
			doc = "{}"
		}
		out = append(out, c16Src{name, tmpl, e, vals, pure, doc})
	}
	rule := func(pre string) string { return "{\n" + pre + "@U@}\n" }
	loop := func(head string) string { return "{\n  " + head + " {\n@U@  }\n}\n" }
	// for-in position variables
	add("for-in index (array)", loop("for (v, i in [10.5, 20.5, 30.5])"), "i", true, "", 0, 1, 2)
	add("for-in index (array of containers)", loop("for (v, i in [[], {}, 'x', null])"), "i", true, "", 0, 1, 2, 3)
	add("for-in index (document array)", loop("for (v, i in $.l)"), "i", true, `{"l": [5, 6]}`, 0, 1)
	add("for-in index (array variable)", "{\n  arr = ['a', 'b', 'c']\n  for (e, pos in arr) {\n@U@  }\n}\n", "pos", true, "", 0, 1, 2)
	add("for-in byte offset (string)", loop("for (c, p in 'abc')"), "p", true, "", 0, 1, 2)
	add("for-in byte offset (multi-byte string)", loop("for (c, p in 'aé日b')"), "p", true, "", 0, 1, 3, 6)
	add("for-in byte offset (document string)", loop("for (c, p in $.s)"), "p", true, `{"s": "xé!"}`, 0, 1, 3)
	add("for-in index, inner of two loops", "{\n  for (a, i in [1, 2]) {\n    for (b, j in 'xy') {\n@U@    }\n  }\n}\n", "j", true, "", 0, 1, 0, 1)
	add("for-in index, outer of two loops", "{\n  for (a, i in [1, 2]) {\n    for (b, j in 'xy') {\n@U@    }\n  }\n}\n", "i", true, "", 0, 0, 1, 1)
	add("for-in index inside a function", "function walk(l) {\n  for (v, i in l) {\n@U@  }\n}\n{\n  walk([7, 8, 9])\n}\n", "i", true, "", 0, 1, 2)
	add("for-in index after the loop (array)", rule("  for (v, i in [7, 8, 9]) { n = v }\n"), "i", true, "", 2)
	add("for-in offset after the loop (string)", rule("  for (c, p in 'aé') { n = c }\n"), "p", true, "", 1)
	add("for-in index after a break", rule("  for (v, i in [7, 8, 9]) { if (i == 1) break }\n"), "i", true, "", 1)
	add("for-in index in BEGIN", "BEGIN {\n  for (v, i in [1, 2]) {\n@U@  }\n}\n", "i", true, "", 0, 1)
	add("for-in index plus a half", loop("for (v, i in [1, 2, 3])"), "(i + 0.5)", true, "", 0.5, 1.5, 2.5)
	add("for-in index halved", loop("for (v, i in [1, 2, 3, 4])"), "(i / 2)", true, "", 0, 0.5, 1, 1.5)
	add("negated for-in offset", loop("for (c, p in 'abc')"), "(-p - 0.5)", true, "", -0.5, -1.5, -2.5)
	add("for-in element", loop("for (v in [2.5, -2.5, 7])"), "v", true, "", 2.5, -2.5, 7)
	add("for-in element with index", loop("for (v, i in [2.5, -3.5])"), "v", true, "", 2.5, -3.5)
	add("for-in object value", loop("for (k, v in {a: 2.5, b: -3.5})"), "v", true, "", 2.5, -3.5)
	add("for-in document element", loop("for (v in $.l)"), "v", true, `{"l": [0.5, 1.5, -0.5]}`, 0.5, 1.5, -0.5)
	// the record counter
	add("$index", rule(""), "$index", true, `[10, 20, 30]`, 0, 1, 2)
	add("$index halved", rule(""), "($index / 2)", true, `[10, 20, 30]`, 0, 0.5, 1)
	add("$index in a pattern rule", "$ > 15 {\n@U@}\n", "$index", true, `[10, 20, 30]`, 1, 2)
	add("$index in END", "END {\n@U@}\n", "$index", true, `[10, 20, 30]`, 2)
	// length() results
	add("string length", rule(""), "'abc'.length()", true, "", 3)
	add("multi-byte string length", rule("  s = 'aé日'\n"), "s.length()", true, "", 6)
	add("array length", rule("  l = [1, 2]\n"), "l.length()", true, "", 2)
	add("object length", rule(""), "$.length()", true, `{"a": 1, "b": 2, "c": 3}`, 3)
	add("length after push", rule("  l = [1]\n"), "l.push(5).length()", false, "", 2)
	add("half a length", rule("  l = [1, 2, 3]\n"), "(l.length() / 2)", true, "", 1.5)
	// arithmetic
	add("quotient", rule(""), "(5 / 2)", true, "", 2.5)
	add("negative quotient", rule(""), "(-7 / 2)", true, "", -3.5)
	add("sum of variables", rule("  x = 2\n  y = 0.5\n"), "(x + y)", true, "", 2.5)
	add("unary minus", rule("  x = 2.5\n"), "(-x)", true, "", -2.5)
	add("unary plus of a string", rule("  s = '2.5'\n"), "(+s)", true, "", 2.5)
	add("string times number", rule(""), "('1.5' * 3)", true, "", 4.5)
	add("remainder", rule(""), "(7 % 4)", true, "", 3)
	add("difference", rule(""), "(10 - 12.5)", true, "", -2.5)
	// num()
	add("num of a string", rule(""), "num('2.5')", true, "", 2.5)
	add("num of a negative string", rule(""), "num('-3.5')", true, "", -3.5)
	add("num of a number", rule(""), "num(7.9)", true, "", 7)
	add("num of a document string", rule(""), "num($.s)", true, `{"s": "1e1"}`, 10)
	// the document
	add("document member", rule(""), "$.x", true, `{"x": 2.5}`, 2.5)
	add("document element", rule(""), "$.l[1]", true, `{"l": [1, -2.5]}`, -2.5)
	add("document element from the end", rule(""), "$.l[-1]", true, `{"l": [1, 3.5]}`, 3.5)
	add("record", rule(""), "$", true, `[1.5, -1.5, 4]`, 1.5, -1.5, 4)
	add("document exponent form", rule(""), "$.x", true, `{"x": 25e-1}`, 2.5)
	// literals
	add("literal", rule(""), "2.5", true, "", 2.5)
	add("integer literal", rule(""), "7", true, "", 7)
	add("parenthesised negative literal", rule(""), "(-2.5)", true, "", -2.5)
	// ++ -- op= =
	add("postfix ++", rule("  x = 1.5\n"), "x++", false, "", 1.5)
	add("prefix ++", rule("  x = 1.5\n"), "(++x)", false, "", 2.5)
	add("postfix --", rule("  x = 1.5\n"), "x--", false, "", 1.5)
	add("prefix --", rule("  x = 1.5\n"), "(--x)", false, "", 0.5)
	add("++ of an unset variable", rule(""), "(++fresh)", false, "", 1)
	add("++ of an element", rule("  l = [1.5]\n"), "(++l[0])", false, "", 2.5)
	add("+= result", rule("  x = 1\n"), "(x += 1.5)", false, "", 2.5)
	add("/= result", rule("  x = 5\n"), "(x /= 2)", false, "", 2.5)
	add("assignment result", rule(""), "(x = 2.5)", true, "", 2.5)
	add("the variable after ++", rule("  x = 1.5\n  x++\n"), "x", true, "", 2.5)
	add("for loop counter", "{\n  for (n = 0; n < 3; n++) {\n@U@  }\n}\n", "n", true, "", 0, 1, 2)
	add("while loop counter", "{\n  n = 0.5\n  while (n < 3) {\n@U@    n += 1\n  }\n}\n", "n", true, "", 0.5, 1.5, 2.5)
	// elements, members, popped values
	add("array element", rule("  l = [1, 2.5]\n"), "l[1]", true, "", 2.5)
	add("array element from the end", rule("  l = [1, -2.5]\n"), "l[-1]", true, "", -2.5)
	add("object member", rule("  o = {k: 2.5}\n"), "o.k", true, "", 2.5)
	add("nested member", rule("  o = {k: [{n: -3.5}]}\n"), "o.k[0].n", true, "", -3.5)
	add("popped value", rule("  l = [1, 2.5]\n"), "l.pop()", false, "", 2.5)
	add("popfirst value", rule("  l = [3.5, 1]\n"), "l.popfirst()", false, "", 3.5)
	add("element of a sorted copy", rule("  l = [3.5, 1.5]\n"), "l.sort()[0]", true, "", 1.5)
	add("element of an array literal", rule(""), "[1, 2.5][1]", true, "", 2.5)
	add("auto-created element", rule("  fresh2[1] = 2.5\n"), "fresh2[1]", true, "", 2.5)
	// match bindings
	add("match binding", "{\n  match (2.5) { n => {\n@U@  } }\n\n}\n", "n", true, "", 2.5)
	add("match binding of an element", "{\n  match ([1, -2.5]) { [a, b] => {\n@U@  } }\n\n}\n", "b", true, "", -2.5)
	add("match binding of a for-in index", "{\n  for (v, i in [5, 6]) {\n    match (i) { n => {\n@U@    } }\n\n  }\n}\n", "n", true, "", 0, 1)
	add("match result", rule(""), "(match (1) { 1 => 2.5 })", true, "", 2.5)
	// parameters and function results
	add("parameter", "function f(p) {\n@U@}\n{\n  f(2.5)\n  f(-3.5)\n}\n", "p", true, "", 2.5, -3.5)
	add("parameter holding a for-in index", "function f(p) {\n@U@}\n{\n  for (v, i in [5, 6]) f(i)\n}\n", "p", true, "", 0, 1)
	add("function result", "function g() { return 2.5 }\n"+rule(""), "g()", true, "", 2.5)
	add("function returning a for-in index", "function last(l) { for (v, i in l) { n = v }\n  return i }\n"+rule(""), "last([1, 2, 3])", true, "", 2)
	add("function returning its parameter", "function id(p) { return p }\n"+loop("for (v, i in [5, 6])"), "id(i)", true, "", 0, 1)
	// rounding results
	add("floor result", rule(""), "2.5.floor()", true, "", 2)
	add("round result", rule(""), "(-2.5).round()", true, "", -3)
	add("ceil of a for-in index", loop("for (v, i in [5, 6])"), "i.ceil()", true, "", 0, 1)
	// comparisons / conditionals producing the number
	add("|| is a bool, the operand is the number", rule("  x = 2.5\n"), "(x)", true, "", 2.5)
	return out
}

// c16Uses: the ways a number is used; each evaluates E exactly once unless pureOnly
var c16Uses = []struct {
	name     string
	pureOnly bool
	funcs    string
	text     string // statements; @E@ the number; prints "floor ceil round" on one line
}{
	{"direct", true, "", "print @E@.floor(), @E@.ceil(), @E@.round()\n"},
	{"direct, once", false, "", "print @E@.@M@()\n"},
	{"plain copy", false, "", "cj = @E@\nprint cj.floor(), cj.ceil(), cj.round()\n"},
	{"copy of a copy", false, "", "cj = @E@\nck = cj\nprint ck.floor(), ck.ceil(), ck.round()\n"},
	{"array element", false, "", "cl = [@E@]\nprint cl[0].floor(), cl[0].ceil(), cl[-1].round()\n"},
	{"object member", false, "", "co = {k: @E@}\nprint co.k.floor(), co['k'].ceil(), co.k.round()\n"},
	{"stored element", false, "", "cs = []\ncs[1] = @E@\nprint cs[1].floor(), cs[1].ceil(), cs[1].round()\n"},
	{"stored member", false, "", "cm.deep.er = @E@\nprint cm.deep.er.floor(), cm.deep.er.ceil(), cm.deep.er.round()\n"},
	{"pushed then popped", false, "", "cp = []\ncp.push(@E@)\nprint cp[0].floor(), cp[0].ceil(), cp.pop().round()\n"},
	{"parameter", false, "function c16show(q) {\n  print q.floor(), q.ceil(), q.round()\n}\n", "c16show(@E@)\n"},
	{"function result", false, "function c16id(q) { return q }\n", "cj = c16id(@E@)\nprint cj.floor(), c16id(cj).ceil(), cj.round()\n"},
	{"match binding", false, "", "match (@E@) { cq => {\n  print cq.floor(), cq.ceil(), cq.round()\n} }\n\n"},
	{"match binding of an element", false, "", "match ([@E@, 1]) { [cq, cr] => {\n  print cq.floor(), cq.ceil(), cq.round()\n} }\n\n"},
	{"for-in element", false, "", "for (cw in [@E@]) {\n  print cw.floor(), cw.ceil(), cw.round()\n}\n"},
	{"index form", true, "", "print @E@['floor'](), @E@[\"ceil\"](), (@E@).round()\n"},
	{"parenthesised", true, "", "print (@E@).floor(), ((@E@)).ceil(), (@E@.round)()\n"},
	{"bound method", false, "", "cj = @E@\nmatch (cj.floor) { cf => {\n  print cf(), cj.ceil(), cj.round()\n} }\n\n"},
	{"compound copy", false, "", "cj = 0\ncj += @E@\nck = @E_PURE@\nprint cj.floor(), cj.ceil(), cj.round()\n"},
}

func c16SourceCase(s c16Src, u int, m string) (Case, bool) {
	use := c16Uses[u]
	if use.pureOnly && !s.pure {
		return Case{}, false
	}
	text := use.text
	if strings.Contains(text, "@E_PURE@") {
		text = strings.ReplaceAll(text, "@E_PURE@", "cj")
	}
	text = strings.ReplaceAll(strings.ReplaceAll(text, "@E@", s.e), "@M@", m)
	// indent every statement line
	var ub strings.Builder
	for _, ln := range strings.Split(strings.TrimSuffix(text, "\n"), "\n") {
		if ln == "" {
			ub.WriteString("\n")
		} else {
			ub.WriteString("      " + ln + "\n")
		}
	}
	prog := use.funcs + strings.ReplaceAll(s.tmpl, "@U@", ub.String())
	var want strings.Builder
	for _, v := range s.vals {
		switch {
		case strings.Contains(use.text, "@M@"):
			f := map[string]func(float64) float64{"floor": math.Floor, "ceil": math.Ceil, "round": math.Round}[m]
			want.WriteString(c16F(f(v)))
		default:
			want.WriteString(c16F(math.Floor(v)) + " " + c16F(math.Ceil(v)) + " " + c16F(math.Round(v)))
		}
		want.WriteString("\n")
	}
	w := want.String()
	return Case{Req: RunReq(prog, nil, []File{{Name: "in.json", Data: []byte(s.doc)}}, false), Fields: []string{"class", "out"},
		Meta: metaProg(prog, "input", s.doc, "row", s.name, "col", use.name, "want", w),
		Oracle: func(i Resp) string {
			if i["class"] != "ok" || string(i.Bytes("out")) != w {
				return fmt.Sprintf("floor/ceil/round of a number from %s, used as %s: got %s %q (%s), the math package says %q", s.name, use.name, i["class"], string(i.Bytes("out")), i["msg"], w)
			}
			return ""
		}}, true
}

func init() {
	register(Family{
		Name: "number-sources", Prop: "C16",
		Rule: "floor / ceil / round on numbers from every source the language has: for-in position variables (index over array literals, variables, document arrays, arrays of containers; byte offset over ASCII, multi-byte and document strings; inner and outer of nested loops, inside a function, in BEGIN, after the loop ended / after break), arithmetic on them, for-in elements and object values, $index (rule, pattern rule, END), length() of strings / arrays / objects, arithmetic results (/ + - * % unary, string operands), num() results, document numbers ($.x, $.l[1], $.l[-1], the record, exponent form), literals, ++ -- += /= = results (prefix, postfix, unset variable, element), loop counters, elements / members / popped values / sorted copies / auto-created elements, match bindings and match results, parameters, function results, rounding results -- each used in 18 ways: directly (three calls, one call per method), after a plain copy, a copy of a copy, as an array element, an object member, a stored element / member, pushed and popped, as a parameter, a function result, a match binding (whole and array pattern), a for-in element, in index form, parenthesised, through a bound method, after +=; oracle: math.Floor / Ceil / Round (halves away from zero) of the known value, one line per evaluation; also compared with the model; matrix source x use",
		Gen: func(r *rand.Rand, tier string, emit func(Case)) {
			for _, s := range c16NumberSources() {
				for u := range c16Uses {
					for _, m := range []string{"floor", "ceil", "round"} {
						if !strings.Contains(c16Uses[u].text, "@M@") && m != "floor" {
							continue
						}
						if c, ok := c16SourceCase(s, u, m); ok {
							emit(c)
						}
					}
				}
			}
		},
	})
}

// ---------------------------------------------------------------- one call site entered again while its call is under way
//
// A method acts on the receiver it was taken from -- also when the very same
// call site (the same member expression of the program text) is evaluated again,
// with another receiver, between the lookup of the method and its call: while
// the arguments of the call are being evaluated (recursion through an argument)
// or while a match binding / a function result holds the bound method
// (recursion inside the match body). Every level of the recursion has its own
// receiver rs[n]; level n prints what its call gave, so the expected output is
// the methods of prototypes.go applied level by level, computed in Go.

type c16V = interface{} // float64, string, bool, nil, []interface{}, map[string]interface{}

func c16VShow(v c16V, quote bool) string {
	switch x := v.(type) {
	case nil:
		return "null"
	case float64:
		return c16F(x)
	case bool:
		return fmt.Sprint(x)
	case string:
		if quote {
			return `"` + x + `"`
		}
		return x
	case []interface{}:
		p := make([]string, len(x))
		for i, e := range x {
			p[i] = c16VShow(e, true)
		}
		return "[" + strings.Join(p, ", ") + "]"
	case map[string]interface{}:
		ks := make([]string, 0, len(x))
		for k := range x {
			ks = append(ks, k)
		}
		sort.Strings(ks)
		for i, k := range ks {
			ks[i] = `"` + k + `": ` + c16VShow(x[k], true)
		}
		return "{" + strings.Join(ks, ", ") + "}"
	}
	panic("c16VShow")
}

// c16VText: the value as a jqawk literal (js = false) or as JSON (js = true)
func c16VText(v c16V, js bool) string {
	switch x := v.(type) {
	case nil:
		return "null"
	case float64:
		if js {
			return c16F(x)
		}
		return numLit(x)
	case bool:
		return fmt.Sprint(x)
	case string:
		if js {
			return jsonString(x)
		}
		return mustStrLit(x)
	case []interface{}:
		p := make([]string, len(x))
		for i, e := range x {
			p[i] = c16VText(e, js)
		}
		return "[" + strings.Join(p, ", ") + "]"
	case map[string]interface{}:
		ks := make([]string, 0, len(x))
		for k := range x {
			ks = append(ks, k)
		}
		sort.Strings(ks)
		for i, k := range ks {
			if js {
				ks[i] = jsonString(k) + ": " + c16VText(x[k], js)
			} else {
				ks[i] = mustStrLit(k) + ": " + c16VText(x[k], js)
			}
		}
		return "{" + strings.Join(ks, ", ") + "}"
	}
	panic("c16VText")
}

func c16VKind(v c16V) byte {
	switch v.(type) {
	case float64:
		return 'n'
	case string:
		return 's'
	case []interface{}:
		return 'a'
	case map[string]interface{}:
		return 'o'
	}
	return 'z'
}

var c16MethodsOf = map[byte]string{'s': " length split lower upper ", 'n': " floor ceil round ", 'a': " length push pop popfirst contains sort ", 'o': " length pluck "}

// c16Method: method m of recv's prototype applied to args, as src/prototypes.go documents it.
// fail = a runtime error (no such method: the call of a null member; wrong argument count or kind).
func c16Method(m string, recv c16V, args []c16V) (res, after c16V, fail bool) {
	if !strings.Contains(c16MethodsOf[c16VKind(recv)], " "+m+" ") {
		return nil, recv, true
	}
	switch x := recv.(type) {
	case string:
		switch m {
		case "length":
			return float64(len(x)), recv, false
		case "upper":
			return c16AsciiCase(x, true), recv, false
		case "lower":
			return c16AsciiCase(x, false), recv, false
		case "split":
			if len(args) == 0 {
				return nil, recv, true
			}
			sep, ok := args[0].(string)
			if !ok {
				return nil, recv, true
			}
			var out []interface{}
			for _, p := range strings.Split(x, sep) {
				out = append(out, p)
			}
			return out, recv, false
		}
	case float64:
		switch m {
		case "floor":
			return math.Floor(x), recv, false
		case "ceil":
			return math.Ceil(x), recv, false
		case "round":
			return math.Round(x), recv, false
		}
	case []interface{}:
		switch m {
		case "length":
			return float64(len(x)), recv, false
		case "push":
			if len(args) != 1 {
				return nil, recv, true
			}
			n := append(append([]interface{}{}, x...), args[0])
			return n, n, false
		case "pop", "popfirst":
			if len(args) != 0 {
				return nil, recv, true
			}
			if len(x) == 0 {
				return nil, recv, false
			}
			if m == "pop" {
				return x[len(x)-1], append([]interface{}{}, x[:len(x)-1]...), false
			}
			return x[0], append([]interface{}{}, x[1:]...), false
		case "contains":
			if len(args) != 1 {
				return nil, recv, true
			}
			for _, e := range x {
				if e == args[0] { // generated: scalars of one kind
					return true, recv, false
				}
			}
			return false, recv, false
		case "sort":
			n := append([]interface{}{}, x...)
			sort.SliceStable(n, func(i, j int) bool {
				if a, ok := n[i].(float64); ok {
					return a < n[j].(float64)
				}
				return n[i].(string) < n[j].(string)
			})
			return n, recv, false
		}
	case map[string]interface{}:
		switch m {
		case "length":
			return float64(len(x)), recv, false
		case "pluck":
			out := map[string]interface{}{}
			for _, a := range args {
				var k string
				switch kk := a.(type) {
				case string:
					k = kk
				case float64:
					k = c16F(kk)
				default:
					return nil, recv, true
				}
				out[k] = x[k] // absent: null
			}
			return out, recv, false
		}
	}
	panic("c16Method " + m)
}

type c16Slot struct {
	rec bool // the recursive call stands here
	own bool // ak[n], the value of the level's own
	val c16V
}

type c16Re struct {
	m     string
	D     int    // the call site is entered D times, each inside the previous one
	rs    []c16V // the receiver of each level (plus an unused last entry)
	ak    []c16V // ak[n]: what level n returns to the call under way one level up (ak[D]: the innermost return)
	tmpl  []c16Slot
	mech  int // 0 recursion inside the argument list; 1 the method held by a match binding across the recursion; 2 held, called before and after; 3 held, the recursion inside the argument list of the held method's call
	form  int // how the call (mech 0) / the member expression (mech 1, 2) is written
	place int // where the receiver stands
	wrap  int // how the recursive call is written
	runs  int // how often the rule starts the recursion (the second time every call site has been evaluated before)
}

const c16ReGetter = 13 // form: get(n)(A), the bound method is a function result

var c16RePlaces = []string{"rs[n]", "parameter", "$.rs[n]", "w.t[n]", "function result", "local variable", "global variable"}
var c16ReWraps = []string{"f(n + 1)", "g(n + 1)", "h(f(n + 1))", "[f(n + 1)][0]", "{k: f(n + 1)}.k", "(f(n + 1))", "(match (f(n + 1)) { q => q })"}

// sim: the output of the program; collapse = every call made after a recursion acts on the innermost level's receiver
// (what a per-call-site cell would do), only used to tell whether the case can see such a fault
func (c *c16Re) sim(collapse bool) (string, bool) {
	rs := append([]c16V{}, c.rs...)
	var out strings.Builder
	failed := false
	call := func(ri int, args []c16V) c16V {
		res, after, fail := c16Method(c.m, rs[ri], args)
		rs[ri] = after
		if fail {
			failed = true
		}
		return res
	}
	var f func(n int) c16V
	f = func(n int) c16V {
		if failed {
			return nil
		}
		if n == c.D {
			return c.ak[c.D]
		}
		late := n
		if collapse {
			late = c.D - 1
		}
		var args []c16V
		if c.mech == 0 || c.mech == 3 {
			for _, s := range c.tmpl {
				v := s.val
				if s.own {
					v = c.ak[n]
				}
				if s.rec {
					v = f(n + 1)
					if failed {
						return nil
					}
				}
				args = append(args, v)
			}
		} else {
			if c.mech == 2 {
				for _, s := range c.tmpl {
					if s.rec || s.own {
						args = append(args, c.ak[n])
					} else {
						args = append(args, s.val)
					}
				}
				x := call(n, args)
				if failed {
					return nil
				}
				out.WriteString(fmt.Sprintf("%d pre %s\n", n, c16VShow(x, false)))
				args = nil
			}
			v := f(n + 1)
			if failed {
				return nil
			}
			for _, s := range c.tmpl {
				switch {
				case s.rec:
					args = append(args, v)
				case s.own:
					args = append(args, c.ak[n])
				default:
					args = append(args, s.val)
				}
			}
		}
		x := call(late, args)
		if failed {
			return nil
		}
		out.WriteString(fmt.Sprintf("%d %s\n", n, c16VShow(x, false)))
		return c.ak[n]
	}
	for k := 0; k < c.runs && !failed; k++ {
		f(0)
	}
	if !failed {
		out.WriteString(c16VShow(rs, false) + "\n")
	}
	return out.String(), failed
}

func (c *c16Re) build(r *rand.Rand) Case {
	var aux c15Aux
	doc := c.place == 2
	RS, AK := "rs", "ak"
	switch c.place {
	case 2:
		RS, AK = "$.rs", "$.ak"
	case 3:
		RS = "w.t"
	}
	R := RS + "[n]"
	params, first, next := "n, x, v", "f(0)", "f(n + 1)"
	pre := ""
	switch c.place {
	case 1:
		R, params, first, next = "s", "s, n, x, v", "f("+RS+"[0], 0)", "f("+RS+"[n + 1], n + 1)"
	case 4:
		R = "recv(n)"
	case 5:
		R, params, pre = "loc", "n, x, v, loc", "  loc = "+RS+"[n]\n"
	case 6:
		R, pre = "gv", "  gv = "+RS+"[n]\n"
	}
	rec := next
	switch c.wrap {
	case 1:
		rec = "g(n + 1)"
	case 2:
		rec = "h(" + next + ")"
	case 3:
		rec = "[" + next + "][0]"
	case 4:
		rec = "{k: " + next + "}.k"
	case 5:
		rec = "(" + next + ")"
	case 6:
		rec = "(match (" + next + ") { q => q })"
	}
	args := func(recText string, own bool) string {
		p := make([]string, len(c.tmpl))
		for i, s := range c.tmpl {
			switch {
			case s.rec && own || s.own:
				p[i] = AK + "[n]"
			case s.rec:
				p[i] = recText
			default:
				p[i] = c16VText(s.val, false)
			}
		}
		return strings.Join(p, ", ")
	}
	var body string
	getter := false
	if c.mech == 0 {
		var callText string
		if c.form == c16ReGetter {
			getter = true
			callText = "get(n)(" + args(rec, false) + ")"
		} else {
			callText = c15FormText(r, &aux, c.form, R, c.m, args(rec, false))
		}
		body = pre + "  x = " + callText + "\n  print n, x\n"
	} else {
		var member string
		switch c.form {
		case 0:
			member = R + "." + c.m
		case 1:
			member = R + "[" + c15Quote(r, c.m) + "]"
		case 2:
			c15Add(&aux.kvars, c.m)
			member = R + "[k" + c.m + "]"
		case 3:
			member = "(" + R + "." + c.m + ")"
		default:
			getter = true
			member = "get(n)"
		}
		body = pre + "  match (" + member + ") { p => {\n"
		if c.mech == 2 {
			body += "    x = p(" + args("", true) + ")\n    print n, 'pre', x\n"
		}
		if c.mech == 3 {
			body += "    x = p(" + args(rec, false) + ")\n    print n, x\n  } }\n\n"
		} else {
			body += "    v = " + rec + "\n    x = p(" + args("v", false) + ")\n    print n, x\n  } }\n\n"
		}
	}
	var funcs string
	if c.wrap == 1 {
		funcs += "function g(n) {\n  return " + strings.ReplaceAll(next, "n + 1", "n") + "\n}\n"
	}
	if c.wrap == 2 {
		funcs += "function h(y) {\n  return y\n}\n"
	}
	if getter {
		funcs += "function get(n) {\n  return " + RS + "[n]." + c.m + "\n}\n"
	}
	if c.place == 4 {
		funcs += "function recv(n) {\n  return " + RS + "[n]\n}\n"
	}
	funcs += aux.funcs() + "function f(" + params + ") {\n  if (n == " + fmt.Sprint(c.D) + ") {\n    return " + AK + "[" + fmt.Sprint(c.D) + "]\n  }\n" + body + "  return " + AK + "[n]\n}\n"
	setup := aux.prelude("  ")
	input := "{}"
	if doc {
		input = `{"rs": ` + c16VText(c.rs, true) + `, "ak": ` + c16VText(c.ak, true) + `}`
	} else {
		if c.place == 3 {
			setup += "  w = {t: " + c16VText(c.rs, false) + "}\n"
		} else {
			setup += "  rs = " + c16VText(c.rs, false) + "\n"
		}
		setup += "  ak = " + c16VText(c.ak, false) + "\n"
	}
	head := "{\n"
	var files []File
	if !doc && chance(r, 0.5) {
		head = "BEGIN {\n"
	} else {
		files = []File{{Name: "in.json", Data: []byte(input)}}
	}
	prog := funcs + head + setup + strings.Repeat("  "+first+"\n", c.runs) + "  print " + RS + "\n}\n"
	want, failed := c.sim(false)
	wantClass := "ok"
	if failed {
		wantClass = "runtime"
	}
	bad, badFailed := c.sim(true)
	sees := fmt.Sprint(bad != want || badFailed != failed)
	mech := []string{"recursion in the argument list", "held by a match binding", "held, called before and after", "held, recursion in its argument list"}[c.mech]
	meta := metaProg(prog, "input", input, "row", c.m, "col", mech, "place", c16RePlaces[c.place], "levels", fmt.Sprint(c.D), "sees-shared-cell", sees)
	cs := Case{Req: RunReq(prog, nil, files, false), Fields: []string{"class", "out"}, Meta: meta, NonTrivial: c09NT}
	if c.place == 6 {
		// a global variable as receiver: the bound method refers to the variable's cell, the deeper levels assign to it;
		// compared with the model only
		cs.Oracle = c16OkOrRuntime
		return cs
	}
	cs.Oracle = func(i Resp) string {
		if i["class"] != wantClass || string(i.Bytes("out")) != want {
			return fmt.Sprintf("%s, %s, %d levels, receiver %s: got %s %q, want %s %q (every level's call acts on that level's own receiver)", c.m, mech, c.D, c16RePlaces[c.place], i["class"], string(i.Bytes("out")), wantClass, want)
		}
		return ""
	}
	return cs
}

var c16ReStrings = []string{"a;b,c", "x,y;z", "Hello, World", "q;;r,s", "ab", "", "A-b-C", "m,n,o;p", "Zz;yY", ";lead", "trail,", "b;a;b"}
var c16ReSeps = []string{",", ";", "", "-", "b", ", ", ";;", "a"}
var c16ReNums = []float64{2.5, -2.5, 7, 0.49, -3.5, 12.75, 1e15 + 0.5, -0.25, 3.999, 100.5, -7.5, 0.5}
var c16ReKeys = []string{"a", "b", "c", "k1", "zz", "x y", "10"}
var c16ReScalars = []c16V{1.0, 2.5, -3.0, "one", "", "x,y", nil, true, false, 40.0}

func c16ReRecv(r *rand.Rand, kind byte, strs bool) c16V {
	switch kind {
	case 's':
		return pick(r, c16ReStrings)
	case 'n':
		return pick(r, c16ReNums)
	case 'a':
		out := []interface{}{}
		for k := r.Intn(5); k > 0; k-- {
			if strs {
				out = append(out, pick(r, []string{"a", "b", "c", "B", "zz", "10", "9"}))
			} else {
				out = append(out, pick(r, []float64{1, 2, 3, 10, 9, -4, 2.5, 0}))
			}
		}
		return out
	case 'o':
		out := map[string]interface{}{}
		for k := r.Intn(5); k > 0; k-- {
			out[pick(r, c16ReKeys)] = pick(r, []c16V{1.0, 2.0, "s", "t", nil, true, []interface{}{1.0, "u"}, map[string]interface{}{"in": 1.0}})
		}
		return out
	}
	panic("c16ReRecv")
}

// c16ReCase: one random case for method m on receivers of the given kinds (one kind letter per level is drawn from kinds)
func c16ReCase(r *rand.Rand, m, kinds string, mech int, badArgs bool) Case {
	var best *c16Re
	for try := 0; try < 6; try++ {
		c := &c16Re{m: m, mech: mech, D: 2 + r.Intn(3), runs: 1 + r.Intn(2)}
		strs := chance(r, 0.5)
		for n := 0; n < c.D; n++ {
			c.rs = append(c.rs, c16ReRecv(r, kinds[r.Intn(len(kinds))], strs))
		}
		c.rs = append(c.rs, "end")
		// what the levels hand upwards: of the kind the method's argument wants
		arg := func() c16V {
			switch m {
			case "split":
				return pick(r, c16ReSeps)
			case "contains":
				if strs {
					return pick(r, []string{"a", "b", "c", "B", "zz", "10", "9"})
				}
				return pick(r, []float64{1, 2, 3, 10, 9, -4, 2.5, 0})
			case "pluck":
				if chance(r, 0.15) {
					return 10.0
				}
				return pick(r, c16ReKeys)
			case "push":
				if chance(r, 0.15) {
					return []interface{}{7.0}
				}
			}
			return pick(r, c16ReScalars)
		}
		for n := 0; n <= c.D; n++ {
			c.ak = append(c.ak, arg())
		}
		rec, own, lit := c16Slot{rec: true}, c16Slot{own: true}, func(v c16V) c16Slot { return c16Slot{val: v} }
		var tmpls [][]c16Slot
		switch m {
		case "split":
			tmpls = [][]c16Slot{{rec}, {rec}, {rec, lit(1.0)}, {lit(","), rec}, {own, rec}, {own, rec}, {rec, rec}}
		case "push", "contains":
			tmpls = [][]c16Slot{{rec}}
			if badArgs {
				tmpls = [][]c16Slot{{rec, lit(1.0)}, {rec, rec}}
			}
		case "pop", "popfirst":
			tmpls = [][]c16Slot{{}}
			if mech == 0 || mech == 3 || badArgs {
				tmpls = [][]c16Slot{{rec}}
			}
		case "pluck":
			tmpls = [][]c16Slot{{rec}, {lit("a"), rec}, {rec, lit("zz"), rec}, {rec, lit("b"), lit("b")}, {lit(10.0), rec}, {own, rec}, {own, rec, own}, {rec, own}}
			if badArgs {
				tmpls = [][]c16Slot{{rec, lit(true)}, {lit(nil), rec}}
			}
		default: // the methods that ignore their arguments
			tmpls = [][]c16Slot{{rec}, {rec}, {lit(1.0), rec}, {rec, lit("x"), lit(nil)}, {rec, rec}, {own, rec}}
			if mech != 0 && mech != 3 {
				tmpls = append(tmpls, []c16Slot{})
			}
		}
		if m == "split" && badArgs {
			tmpls = [][]c16Slot{{lit(1.0), rec}, {lit(nil), rec}}
			if mech != 0 && mech != 3 {
				tmpls = append(tmpls, []c16Slot{})
			}
		}
		c.tmpl = pick(r, tmpls)
		c.place = r.Intn(len(c16RePlaces) - 1)
		if chance(r, 0.06) {
			c.place = 6
		}
		c.wrap = r.Intn(len(c16ReWraps))
		if chance(r, 0.3) {
			c.wrap = 0
		}
		if mech == 0 {
			c.form = r.Intn(c16ReGetter + 1)
			if chance(r, 0.25) {
				c.form = 0
			}
		} else {
			c.form = r.Intn(5)
		}
		if (c.place == 1 || c.place >= 4) && (mech == 0 && c.form == c16ReGetter || mech != 0 && c.form == 4) {
			c.place = 0 // the getter names rs[n] (or $.rs[n], w.t[n]) itself
		}
		best = c
		want, failed := c.sim(false)
		bad, badFailed := c.sim(true)
		if bad != want || badFailed != failed {
			break // this one tells the levels' receivers apart
		}
	}
	return best.build(r)
}

var c16ReMethods = []struct{ m, kinds string }{
	{"length", "s"}, {"split", "s"}, {"lower", "s"}, {"upper", "s"}, {"floor", "n"}, {"ceil", "n"}, {"round", "n"},
	{"length", "a"}, {"push", "a"}, {"pop", "a"}, {"popfirst", "a"}, {"contains", "a"}, {"sort", "a"}, {"length", "o"}, {"pluck", "o"}, {"length", "sao"},
}

// c16ReFamily: the cases of one mechanism set
func c16ReFamily(r *rand.Rand, tier string, emit func(Case), mechs []int) {
	n := tierN(tier, 36, 400)
	for _, mk := range c16ReMethods {
		for _, mech := range mechs {
			k := n
			if (mech == 0 || mech == 3) && (mk.m == "pop" || mk.m == "popfirst") {
				k = 4 // an argument is an error for these two: the innermost call fails
			}
			for i := 0; i < k; i++ {
				emit(c16ReCase(r, mk.m, mk.kinds, mech, false))
			}
			// missing / surplus / wrong-kind arguments: the runtime error comes from the right level, after the output of the levels below
			if mk.m == "push" || mk.m == "contains" || mk.m == "pluck" || mk.m == "split" || (mech == 1 || mech == 2) && (mk.m == "pop" || mk.m == "popfirst") {
				for i := 0; i < n/6+1; i++ {
					emit(c16ReCase(r, mk.m, mk.kinds, mech, true))
				}
			}
			// receivers of other kinds at some levels: the method does not exist there (runtime error at that level's call)
			for i := 0; i < n/9+1; i++ {
				emit(c16ReCase(r, mk.m, mk.kinds+mk.kinds+pick(r, []string{"s", "n", "a", "o"}), mech, false))
			}
		}
	}
}

func init() {
	register(Family{
		Name: "reentrant-callsite", Prop: "C16",
		Rule: "one method call site entered again, with another receiver, while its own argument list is being evaluated: a recursive function f(n) whose body calls rs[n].m(... f(n + 1) ...), 2-4 levels, for EVERY method of every prototype (string length split lower upper, number floor ceil round, array length push pop popfirst contains sort, object length pluck, length on receivers of mixed kinds); the recursive call stands in any argument position (also twice; the other positions hold literals or the level's own ak[n]), written directly, through a second function (indirect recursion), an identity function, an array / object literal, parentheses, a match expression; the call in each of the 13 syntactic forms of method-forms plus get(n)(args) (the bound method as a function result); the receiver as rs[n], a parameter, $.rs[n] of the document, w.t[n], a function result, a local variable, a global variable (model only: the bound method follows the variable); every level prints its result, the recursion is started once or twice, the receivers are printed at the end; smaller streams with missing / surplus / wrong-kind arguments and with receivers of another kind at some levels (runtime error from the right level); oracle: prototypes.go's contract applied level by level to that level's own receiver, computed in Go; also compared with the model; matrix method x mechanism",
		Gen: func(r *rand.Rand, tier string, emit func(Case)) {
			// the shape the gap was found with: a separator computed by a recursive call that splits another string at the same place
			for depth := 1; depth <= 4; depth++ {
				prog := "function first(s, n) {\n  if (n == 0) {\n    return \",\"\n  }\n  pieces = s.split(first(\";\", n - 1))\n  return pieces[0]\n}\nBEGIN {\n  print first(\"a;b,c\", " + fmt.Sprint(depth) + ")\n  print \"a;b,c\".split(\";\")\n}\n"
				want := "a\n[\"a\", \"b,c\"]\n"
				if depth == 1 {
					want = "a;b\n[\"a\", \"b,c\"]\n"
				}
				emit(Case{Req: RunReq(prog, nil, nil, false), Fields: []string{"class", "out"}, Meta: metaProg(prog, "row", "split", "col", "recursion in the argument list"), NonTrivial: c09NT,
					Oracle: func(i Resp) string {
						if i["class"] != "ok" || string(i.Bytes("out")) != want {
							return fmt.Sprintf("s.split(first(\";\", n - 1)) must split s: got %s %q, want %q", i["class"], string(i.Bytes("out")), want)
						}
						return ""
					}})
			}
			c16ReFamily(r, tier, emit, []int{0})
		},
	})
	register(Family{
		Name: "held-method-reentry", Prop: "C16",
		Rule: "a bound method held while the member expression it came from is evaluated again with other receivers: match (rs[n].m) { p => { v = f(n + 1); x = p(.. v ..) } } inside the recursive f, 2-4 levels, every method of every prototype (pop and popfirst included), the member expression written R.m, R[\"m\"], R[kvar], (R.m) or get(n); optionally p is called before the recursion as well, or the recursion stands inside the argument list of p's call; same receiver places, argument positions and ill-formed streams as reentrant-callsite; second part: a loop over i calling get(i)(get((i + 1) % D)(..)) for the methods that ignore their arguments (the getter's member expression is evaluated for another receiver between taking the method and calling it); oracle: every call acts on the receiver its method was taken from, computed in Go; also compared with the model; matrix method x mechanism",
		Gen: func(r *rand.Rand, tier string, emit func(Case)) {
			c16ReFamily(r, tier, emit, []int{1, 2, 3})
			for _, mk := range c16ReMethods {
				if mk.m != "length" && mk.m != "lower" && mk.m != "upper" && mk.m != "floor" && mk.m != "ceil" && mk.m != "round" && mk.m != "sort" {
					continue
				}
				for i := tierN(tier, 6, 60); i > 0; i-- {
					D := 2 + r.Intn(3)
					strs := chance(r, 0.5)
					var rs []c16V
					want := ""
					for k := 0; k < D; k++ {
						rs = append(rs, c16ReRecv(r, mk.kinds[r.Intn(len(mk.kinds))], strs))
						res, _, _ := c16Method(mk.m, rs[k], nil)
						want += fmt.Sprintf("%d %s\n", k, c16VShow(res, false))
					}
					want += c16VShow(rs, false) + "\n"
					inner := pick(r, []string{"get((i + 1) % " + fmt.Sprint(D) + ")()", "get((i + 1) % " + fmt.Sprint(D) + ")(get((i + 2) % " + fmt.Sprint(D) + ")(i))", "1, get(" + fmt.Sprint(D-1) + " - i)(2)"})
					prog := "function get(k) {\n  return rs[k]." + mk.m + "\n}\nBEGIN {\n  rs = " + c16VText(rs, false) + "\n  for (i = 0; i < " + fmt.Sprint(D) + "; i++) {\n    x = get(i)(" + inner + ")\n    print i, x\n  }\n  print rs\n}\n"
					emit(Case{Req: RunReq(prog, nil, nil, false), Fields: []string{"class", "out"}, Meta: metaProg(prog, "row", mk.m, "col", "getter in a loop"), NonTrivial: c09NT,
						Oracle: func(i Resp) string {
							if i["class"] != "ok" || string(i.Bytes("out")) != want {
								return fmt.Sprintf("%s through a getter in a loop: got %s %q, want %q", mk.m, i["class"], string(i.Bytes("out")), want)
							}
							return ""
						}})
				}
			}
		},
	})
}
