package main

// Request kind `cli`: run the real jqawk binary (env JQAWK_BIN) in a fresh
// temporary directory.
//
//   cli <argv> <stdin> <files> <flags>
//     argv   "-" (no arguments) or comma-separated hex arguments ("e" = empty argument)
//     stdin  hex bytes, or "-" for no stdin data (the binary's stdin is /dev/null)
//     files  "-" or name:data[:kind];...  (hex name relative to the directory, hex data;
//            kind "d" = create a directory of that name instead of a file)
//     flags  "-" or comma-separated: o=<hex name> (file to read back as `ofile`),
//            t=<milliseconds> (time limit, default 10000)
//
// Answer: R exit=<n> out=<hex stdout> errlen=<n> stderr=<hex> ofile=<hex | -> ofexists=<0|1> class=cli<n>
// (class=nobinary when JQAWK_BIN is not set, class=timeout when the limit is hit).

import (
	"bytes"
	"context"
	"fmt"
	"os"
	"os/exec"
	"path/filepath"
	"strconv"
	"strings"
	"time"
)

// CliFile is one file (or directory) placed in the binary's working directory.
type CliFile struct {
	Name string
	Data []byte
	Dir  bool
}

// CliReq builds a "cli" request line. stdin == nil means "no stdin data".
func CliReq(argv []string, stdin []byte, hasStdin bool, files []CliFile, ofile string) string {
	a := "-"
	if len(argv) > 0 {
		parts := make([]string, len(argv))
		for i, x := range argv {
			if x == "" {
				parts[i] = "e"
			} else {
				parts[i] = hxs(x)
			}
		}
		a = strings.Join(parts, ",")
	}
	in := "-"
	if hasStdin {
		in = hx(stdin)
		if len(stdin) == 0 {
			in = "e"
		}
	}
	f := "-"
	if len(files) > 0 {
		parts := make([]string, len(files))
		for i, x := range files {
			parts[i] = hxs(x.Name) + ":" + hx(x.Data)
			if x.Dir {
				parts[i] += ":d"
			}
		}
		f = strings.Join(parts, ";")
	}
	fl := "-"
	if ofile != "" {
		fl = "o=" + hxs(ofile)
	}
	return "cli " + a + " " + in + " " + f + " " + fl
}

func implCli(fields []string) string {
	bin := os.Getenv("JQAWK_BIN")
	if bin == "" {
		return "R class=nobinary"
	}
	var argv []string
	if fields[1] != "-" {
		for _, a := range strings.Split(fields[1], ",") {
			if a == "e" {
				argv = append(argv, "")
				continue
			}
			b, err := unhx(a)
			if err != nil {
				return "R class=badrequest"
			}
			argv = append(argv, string(b))
		}
	}
	dir, err := os.MkdirTemp("", "jqawk-cli-")
	if err != nil {
		return "R class=crash msg=no_temp_dir"
	}
	defer os.RemoveAll(dir)
	if fields[3] != "-" {
		for _, f := range strings.Split(fields[3], ";") {
			parts := strings.Split(f, ":")
			if len(parts) < 2 {
				return "R class=badrequest"
			}
			name, err1 := unhx(parts[0])
			data, err2 := unhx(parts[1])
			if err1 != nil || err2 != nil || len(name) == 0 {
				return "R class=badrequest"
			}
			path := filepath.Join(dir, string(name))
			os.MkdirAll(filepath.Dir(path), 0o755)
			if len(parts) >= 3 && parts[2] == "d" {
				os.MkdirAll(path, 0o755)
			} else if err := os.WriteFile(path, data, 0o644); err != nil {
				return "R class=crash msg=cannot_write_file"
			}
		}
	}
	limit := 10 * time.Second
	ofile := ""
	if fields[4] != "-" {
		for _, fl := range strings.Split(fields[4], ",") {
			switch {
			case strings.HasPrefix(fl, "o="):
				b, err := unhx(fl[2:])
				if err != nil {
					return "R class=badrequest"
				}
				ofile = string(b)
			case strings.HasPrefix(fl, "t="):
				ms, err := strconv.Atoi(fl[2:])
				if err != nil {
					return "R class=badrequest"
				}
				limit = time.Duration(ms) * time.Millisecond
			}
		}
	}
	ctx, cancel := context.WithTimeout(context.Background(), limit)
	defer cancel()
	cmd := exec.CommandContext(ctx, bin, argv...)
	cmd.Dir = dir
	if fields[2] != "-" {
		data := []byte{}
		if fields[2] != "e" {
			data, err = unhx(fields[2])
			if err != nil {
				return "R class=badrequest"
			}
		}
		cmd.Stdin = bytes.NewReader(data)
	} // else: nil = /dev/null
	var so, se bytes.Buffer
	cmd.Stdout, cmd.Stderr = &so, &se
	runErr := cmd.Run()
	if ctx.Err() == context.DeadlineExceeded {
		return "R class=timeout"
	}
	if cmd.ProcessState == nil {
		return "R class=crash msg=" + strings.ReplaceAll(fmt.Sprint(runErr), " ", "_")
	}
	exit := cmd.ProcessState.ExitCode()
	of, ofexists := "-", 0
	if ofile != "" {
		if b, err := os.ReadFile(filepath.Join(dir, ofile)); err == nil {
			of, ofexists = hx(b), 1
		}
	}
	errFlag := 0
	if se.Len() > 0 {
		errFlag = 1
	}
	return fmt.Sprintf("R exit=%d out=%s err=%d errlen=%d stderr=%s ofile=%s ofexists=%d class=cli%d", exit, hx(so.Bytes()), errFlag, se.Len(), hx(se.Bytes()), of, ofexists, exit)
}
