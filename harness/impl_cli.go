package main

// Request kind `cli`: run the real jqawk binary (env JQAWK_BIN) in a fresh
// temporary directory.
//
//   cli <argv> <stdin> <files> <flags>
//     argv   "-" (no arguments) or comma-separated hex arguments ("e" = empty argument)
//     stdin  hex bytes, or "-" for no stdin data (the binary's stdin is /dev/null), or
//            staged: <hex first>:<hex rest> -- stdin is a pipe that STAYS OPEN: `first` is
//            written, the harness waits (see w= / d=), records `early`, then writes `rest`
//            and closes the pipe
//     files  "-" or name:data[:kind[:rest]];...  (hex name relative to the directory, hex data;
//            kind "d" = create a directory of that name instead of a file,
//            kind "r" = a file without write permission (mode 0444; the answer's `wdenied`
//                       says whether that actually keeps this process from writing to it),
//            kind "p" = a named pipe (FIFO): `data` is written into it, the harness waits,
//                       records `early`, then writes `rest` and closes its end)
//     flags  "-" or comma-separated: o=<hex name> (file to read back as `ofile`),
//            t=<milliseconds> (time limit, default 10000),
//            w=<n> staged input: wait until the binary's stdout holds at least n bytes
//                  (default 1) ...
//            d=<milliseconds> ... or this much time has passed (default 2500)
//
// Answer: R exit=<n> out=<hex stdout> errlen=<n> stderr=<hex> ofile=<hex | -> ofexists=<0|1> class=cli<n>
// (class=nobinary when JQAWK_BIN is not set, class=timeout when the limit is hit); with a staged
// input also early=<hex of the stdout seen at the end of the wait> earlyms=<how long the wait took>;
// with a kind "r" file also wdenied=<0|1>.
//
// At most one staged input (stdin or one FIFO) per request. The model knows neither staging nor
// FIFOs nor permissions: give such cases a ModelReq with the same bytes in plain files / plain stdin.

import (
	"bytes"
	"context"
	"fmt"
	"io"
	"os"
	"os/exec"
	"path/filepath"
	"strconv"
	"strings"
	"sync"
	"syscall"
	"time"
)

// CliFile is one file (or directory) placed in the binary's working directory.
type CliFile struct {
	Name     string
	Data     []byte
	Dir      bool
	ReadOnly bool   // kind "r": chmod 0444
	Fifo     bool   // kind "p": a named pipe fed with Data, then (after the wait) Rest
	Rest     []byte // second part of a FIFO's data
}

func cliArgvField(argv []string) string {
	if len(argv) == 0 {
		return "-"
	}
	parts := make([]string, len(argv))
	for i, x := range argv {
		if x == "" {
			parts[i] = "e"
		} else {
			parts[i] = hxs(x)
		}
	}
	return strings.Join(parts, ",")
}

func cliFilesField(files []CliFile) string {
	if len(files) == 0 {
		return "-"
	}
	parts := make([]string, len(files))
	for i, x := range files {
		parts[i] = hxs(x.Name) + ":" + hx(x.Data)
		switch {
		case x.Dir:
			parts[i] += ":d"
		case x.ReadOnly:
			parts[i] += ":r"
		case x.Fifo:
			parts[i] += ":p:" + hx(x.Rest)
		}
	}
	return strings.Join(parts, ";")
}

// CliReq builds a "cli" request line. stdin == nil means "no stdin data".
func CliReq(argv []string, stdin []byte, hasStdin bool, files []CliFile, ofile string) string {
	in := "-"
	if hasStdin {
		in = hx(stdin)
		if len(stdin) == 0 {
			in = "e"
		}
	}
	fl := "-"
	if ofile != "" {
		fl = "o=" + hxs(ofile)
	}
	return "cli " + cliArgvField(argv) + " " + in + " " + cliFilesField(files) + " " + fl
}

// CliStagedReq builds a "cli" request whose input arrives in two parts: through stdin when
// stdinFirst/stdinRest are given (staged == "stdin"), else through the FIFO among files.
// waitBytes is the stdout length the harness waits for before it records `early`.
func CliStagedReq(argv []string, staged string, stdinFirst, stdinRest []byte, files []CliFile, waitBytes int) string {
	in := "-"
	if staged == "stdin" {
		in = hx(stdinFirst) + ":" + hx(stdinRest)
	}
	return "cli " + cliArgvField(argv) + " " + in + " " + cliFilesField(files) + " " + fmt.Sprintf("w=%d", waitBytes)
}

// growBuf collects a stream and lets others wait for it to reach a length.
type growBuf struct {
	mu   sync.Mutex
	buf  []byte
	wake chan struct{}
}

func newGrowBuf() *growBuf { return &growBuf{wake: make(chan struct{}, 1)} }

func (g *growBuf) Write(p []byte) (int, error) {
	g.mu.Lock()
	g.buf = append(g.buf, p...)
	g.mu.Unlock()
	select {
	case g.wake <- struct{}{}:
	default:
	}
	return len(p), nil
}

func (g *growBuf) snapshot() []byte {
	g.mu.Lock()
	defer g.mu.Unlock()
	return append([]byte{}, g.buf...)
}

// waitLen waits until the buffer holds n bytes, done is closed, or the deadline passes.
func (g *growBuf) waitLen(n int, done <-chan struct{}, limit time.Duration) {
	deadline := time.After(limit)
	for {
		g.mu.Lock()
		l := len(g.buf)
		g.mu.Unlock()
		if l >= n {
			return
		}
		select {
		case <-g.wake:
		case <-done:
			return
		case <-deadline:
			return
		}
	}
}

func implCli(fields []string) string {
	bin := os.Getenv("JQAWK_BIN")
	if bin == "" {
		return "R class=nobinary"
	}
	var argv []string
	if fields[1] != "-" {
		for _, a := range strings.Split(fields[1], ",") {
			if a == "e" {
				argv = append(argv, "")
				continue
			}
			b, err := unhx(a)
			if err != nil {
				return "R class=badrequest"
			}
			argv = append(argv, string(b))
		}
	}
	dir, err := os.MkdirTemp("", "jqawk-cli-")
	if err != nil {
		return "R class=crash msg=no_temp_dir"
	}
	defer os.RemoveAll(dir)
	// staged input: what to write first, what after the wait, and where
	var stageFirst, stageRest []byte
	var stageW io.WriteCloser
	staged := false
	extra := ""
	if fields[3] != "-" {
		for _, f := range strings.Split(fields[3], ";") {
			parts := strings.Split(f, ":")
			if len(parts) < 2 {
				return "R class=badrequest"
			}
			name, err1 := unhx(parts[0])
			data, err2 := unhx(parts[1])
			if err1 != nil || err2 != nil || len(name) == 0 {
				return "R class=badrequest"
			}
			path := filepath.Join(dir, string(name))
			os.MkdirAll(filepath.Dir(path), 0o755)
			kind := ""
			if len(parts) >= 3 {
				kind = parts[2]
			}
			switch kind {
			case "d":
				os.MkdirAll(path, 0o755)
			case "p":
				if staged || len(parts) < 4 {
					return "R class=badrequest"
				}
				rest, err := unhx(parts[3])
				if err != nil {
					return "R class=badrequest"
				}
				if err := syscall.Mkfifo(path, 0o644); err != nil {
					return "R class=crash msg=cannot_make_fifo"
				}
				// read-write: the open does not wait for the binary, and the binary sees
				// end of input only when this descriptor is closed
				fp, err := os.OpenFile(path, os.O_RDWR, 0)
				if err != nil {
					return "R class=crash msg=cannot_open_fifo"
				}
				staged, stageFirst, stageRest, stageW = true, data, rest, fp
			default:
				if err := os.WriteFile(path, data, 0o644); err != nil {
					return "R class=crash msg=cannot_write_file"
				}
				if kind == "r" {
					os.Chmod(path, 0o444)
					denied := 1
					if fp, err := os.OpenFile(path, os.O_WRONLY, 0); err == nil {
						fp.Close()
						denied = 0
					}
					extra += fmt.Sprintf(" wdenied=%d", denied)
				}
			}
		}
	}
	limit := 10 * time.Second
	waitBytes, waitLimit := 1, 2500*time.Millisecond
	ofile := ""
	if fields[4] != "-" {
		for _, fl := range strings.Split(fields[4], ",") {
			num := func() (int, bool) {
				n, err := strconv.Atoi(fl[2:])
				return n, err == nil
			}
			switch {
			case strings.HasPrefix(fl, "o="):
				b, err := unhx(fl[2:])
				if err != nil {
					return "R class=badrequest"
				}
				ofile = string(b)
			case strings.HasPrefix(fl, "t="):
				ms, ok := num()
				if !ok {
					return "R class=badrequest"
				}
				limit = time.Duration(ms) * time.Millisecond
			case strings.HasPrefix(fl, "w="):
				n, ok := num()
				if !ok {
					return "R class=badrequest"
				}
				waitBytes = n
			case strings.HasPrefix(fl, "d="):
				ms, ok := num()
				if !ok {
					return "R class=badrequest"
				}
				waitLimit = time.Duration(ms) * time.Millisecond
			}
		}
	}
	ctx, cancel := context.WithTimeout(context.Background(), limit)
	defer cancel()
	cmd := exec.CommandContext(ctx, bin, argv...)
	cmd.Dir = dir
	switch {
	case strings.Contains(fields[2], ":"):
		if staged {
			stageW.Close()
			return "R class=badrequest"
		}
		p := strings.SplitN(fields[2], ":", 2)
		first, err1 := unhx(p[0])
		rest, err2 := unhx(p[1])
		if err1 != nil || err2 != nil {
			return "R class=badrequest"
		}
		w, err := cmd.StdinPipe()
		if err != nil {
			return "R class=crash msg=no_stdin_pipe"
		}
		staged, stageFirst, stageRest, stageW = true, first, rest, w
	case fields[2] != "-":
		data := []byte{}
		if fields[2] != "e" {
			data, err = unhx(fields[2])
			if err != nil {
				return "R class=badrequest"
			}
		}
		cmd.Stdin = bytes.NewReader(data)
	} // else: nil = /dev/null
	so := newGrowBuf()
	var se bytes.Buffer
	cmd.Stdout, cmd.Stderr = so, &se
	var runErr error
	if !staged {
		runErr = cmd.Run()
	} else {
		if runErr = cmd.Start(); runErr != nil {
			stageW.Close()
			return "R class=crash msg=" + strings.ReplaceAll(fmt.Sprint(runErr), " ", "_")
		}
		// done: the process has ended and its output has been collected. (Wait also closes the
		// stdin pipe, which releases a feeder blocked in a write.)
		done := make(chan struct{})
		go func() {
			runErr = cmd.Wait()
			close(done)
		}()
		var early []byte
		var waited time.Duration
		fed := make(chan struct{})
		go func() {
			defer close(fed)
			stageW.Write(stageFirst)
			t0 := time.Now()
			so.waitLen(waitBytes, done, waitLimit)
			waited = time.Since(t0)
			early = so.snapshot()
			stageW.Write(stageRest)
			stageW.Close()
		}()
		select {
		case <-fed:
		case <-done:
			// the binary ended without reading everything: a write into a full FIFO
			// would block for good; closing the descriptor releases it
			select {
			case <-fed:
			case <-time.After(200 * time.Millisecond):
				stageW.Close()
				<-fed
			}
		}
		<-done
		extra += fmt.Sprintf(" early=%s earlyms=%d", hx(early), waited.Milliseconds())
	}
	if ctx.Err() == context.DeadlineExceeded {
		return "R class=timeout"
	}
	if cmd.ProcessState == nil {
		return "R class=crash msg=" + strings.ReplaceAll(fmt.Sprint(runErr), " ", "_")
	}
	exit := cmd.ProcessState.ExitCode()
	of, ofexists := "-", 0
	if ofile != "" {
		if b, err := os.ReadFile(filepath.Join(dir, ofile)); err == nil {
			of, ofexists = hx(b), 1
		}
	}
	errFlag := 0
	if se.Len() > 0 {
		errFlag = 1
	}
	outB := so.snapshot()
	return fmt.Sprintf("R exit=%d out=%s err=%d errlen=%d stderr=%s ofile=%s ofexists=%d%s class=cli%d", exit, hx(outB), errFlag, se.Len(), hx(se.Bytes()), of, ofexists, extra, exit)
}
