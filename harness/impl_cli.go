package main

// Request kind `cli`: run the real jqawk binary (env JQAWK_BIN) in a fresh
// temporary directory.
//
//   cli <argv> <stdin> <files> <flags>
//     argv   "-" (no arguments) or comma-separated hex arguments ("e" = empty argument)
//     stdin  hex bytes, or "-" for no stdin data (the binary's stdin is /dev/null), or
//            staged: <hex first>:<hex rest> -- stdin is a pipe that STAYS OPEN: `first` is
//            written, the harness waits (see w= / d=), records `early`, then writes `rest`
//            and closes the pipe
//     files  "-" or name:data[:kind[:rest]];...  (hex name relative to the directory, hex data;
//            kind "d" = create a directory of that name instead of a file,
//            kind "r" = a file without write permission (mode 0444; the answer's `wdenied`
//                       says whether that actually keeps this process from writing to it),
//            kind "p" = a named pipe (FIFO): `data` is written into it, the harness waits,
//                       records `early`, then writes `rest` and closes its end)
//     flags  "-" or comma-separated: o=<hex name> (file to read back as `ofile`),
//            t=<milliseconds> (time limit, default 10000),
//            w=<n> staged input: wait until the binary's stdout holds at least n bytes
//                  (default 1) ...
//            d=<milliseconds> ... or this much time has passed (default 2500)
//            s=<kind> what KIND of file descriptor the binary's stdin is (the stdin field gives the
//                  bytes; not with staged input): pipe (the default: a pipe the harness writes without
//                  pausing and closes), file (a regular file opened for reading, as the shell's
//                  `< data.json` or a here-document), empty (an empty regular file), null (/dev/null;
//                  the bytes are ignored), socket (one end of a socket pair; the bytes are written to
//                  the other end, which is then closed), closed (descriptor 0 is closed: `<&-`),
//                  zero / full / random (the character devices /dev/zero, /dev/full, /dev/urandom opened
//                  for reading: endless NUL bytes / random bytes; the stdin bytes of the request are
//                  ignored), tty (the slave side of a fresh pseudo-terminal that nobody types into: a
//                  TERMINAL; the answer is class=nodevice where the system has no /dev/ptmx).
//                  The model knows only bytes on stdin: give such a case a ModelReq without s=
//            z     huge JSON output (deeply nested documents indent to megabytes): where stdout / the
//                  -o file holds exactly one JSON document, `out` / `ofile` carry the hex of its
//                  COMPACT form, and outraw / ofileraw the length of the text, outcanon / ofilecanon
//                  whether the text is exactly encoding/json's two-space indentation of it
//                  (implementation only)
//            p=<run>[+<run>...] EARLIER RUNS of the binary in the same directory, before the run
//                  under test (file-system history, C10): each <run> is its argument list, hex
//                  arguments joined by "." ("e" = empty argument); stdin is /dev/null, stdout and
//                  stderr are dropped, the exit status is ignored. The model does not know p=:
//                  give such a case a ModelReq without it (the answer must not depend on it)
//            e=<hex spec> the process ENVIRONMENT of the run under test (C10; see cliEnvApply):
//                  `;`-separated directives NAME=value (set a variable), -NAME (unset it),
//                  umask=<octal>, root=shm|deep (where the working directory itself is made: on
//                  /dev/shm -- another file system than the default temp dir --, or several levels
//                  down a path with blanks and non-ASCII names). In a value @DIR@ is the working
//                  directory, @MISSING@ a path that does not exist, @FILE@ a regular file, @RODIR@
//                  a directory without write permission, @SHM@ / @TMP@ a fresh empty directory on
//                  /dev/shm / in the default temp dir (removed afterwards). The answer carries
//                  envfs=<0|1>: whether @SHM@ / root=shm really is another file system than the
//                  default temp dir. The model does not know e=: give a ModelReq without it
//
// Answer: R exit=<n> out=<hex stdout> errlen=<n> stderr=<hex> ofile=<hex | -> ofexists=<0|1> class=cli<n>
// (class=nobinary when JQAWK_BIN is not set, class=timeout when the limit is hit); with a staged
// input also early=<hex of the stdout seen at the end of the wait> earlyms=<how long the wait took>;
// with a kind "r" file also wdenied=<0|1>.
//
// At most one staged input (stdin or one FIFO) per request. The model knows neither staging nor
// FIFOs nor permissions: give such cases a ModelReq with the same bytes in plain files / plain stdin.

import (
	"bytes"
	"context"
	"fmt"
	"io"
	"os"
	"os/exec"
	"path/filepath"
	"strconv"
	"strings"
	"sync"
	"syscall"
	"time"
	"unsafe"
)

// CliFile is one file (or directory) placed in the binary's working directory.
type CliFile struct {
	Name     string
	Data     []byte
	Dir      bool
	ReadOnly bool   // kind "r": chmod 0444
	Fifo     bool   // kind "p": a named pipe fed with Data, then (after the wait) Rest
	Rest     []byte // second part of a FIFO's data
}

func cliArgvField(argv []string) string {
	if len(argv) == 0 {
		return "-"
	}
	parts := make([]string, len(argv))
	for i, x := range argv {
		if x == "" {
			parts[i] = "e"
		} else {
			parts[i] = hxs(x)
		}
	}
	return strings.Join(parts, ",")
}

func cliFilesField(files []CliFile) string {
	if len(files) == 0 {
		return "-"
	}
	parts := make([]string, len(files))
	for i, x := range files {
		parts[i] = hxs(x.Name) + ":" + hx(x.Data)
		switch {
		case x.Dir:
			parts[i] += ":d"
		case x.ReadOnly:
			parts[i] += ":r"
		case x.Fifo:
			parts[i] += ":p:" + hx(x.Rest)
		}
	}
	return strings.Join(parts, ";")
}

// CliReq builds a "cli" request line. stdin == nil means "no stdin data".
func CliReq(argv []string, stdin []byte, hasStdin bool, files []CliFile, ofile string) string {
	in := "-"
	if hasStdin {
		in = hx(stdin)
		if len(stdin) == 0 {
			in = "e"
		}
	}
	fl := "-"
	if ofile != "" {
		fl = "o=" + hxs(ofile)
	}
	return "cli " + cliArgvField(argv) + " " + in + " " + cliFilesField(files) + " " + fl
}

// CliStdinKindReq: a "cli" request whose stdin is a descriptor of the given kind (see s= above)
// carrying the bytes.
func CliStdinKindReq(argv []string, stdin []byte, kind string, files []CliFile, ofile string) string {
	req := CliReq(argv, stdin, true, files, ofile)
	if kind == "" || kind == "pipe" {
		return req
	}
	if strings.HasSuffix(req, " -") {
		return strings.TrimSuffix(req, "-") + "s=" + kind
	}
	return req + ",s=" + kind
}

// CliHistoryReq: a "cli" request preceded by earlier runs of the binary (argument lists) in the
// same directory.
func CliHistoryReq(earlier [][]string, argv []string, stdin []byte, hasStdin bool, files []CliFile, ofile string) string {
	req := CliReq(argv, stdin, hasStdin, files, ofile)
	if len(earlier) == 0 {
		return req
	}
	runs := make([]string, len(earlier))
	for i, av := range earlier {
		parts := make([]string, len(av))
		for j, a := range av {
			parts[j] = "e"
			if a != "" {
				parts[j] = hxs(a)
			}
		}
		runs[i] = strings.Join(parts, ".")
	}
	p := "p=" + strings.Join(runs, "+")
	if strings.HasSuffix(req, " -") {
		return strings.TrimSuffix(req, "-") + p
	}
	return req + "," + p
}

// CliStagedReq builds a "cli" request whose input arrives in two parts: through stdin when
// stdinFirst/stdinRest are given (staged == "stdin"), else through the FIFO among files.
// waitBytes is the stdout length the harness waits for before it records `early`.
func CliStagedReq(argv []string, staged string, stdinFirst, stdinRest []byte, files []CliFile, waitBytes int) string {
	in := "-"
	if staged == "stdin" {
		in = hx(stdinFirst) + ":" + hx(stdinRest)
	}
	return "cli " + cliArgvField(argv) + " " + in + " " + cliFilesField(files) + " " + fmt.Sprintf("w=%d", waitBytes)
}

// growBuf collects a stream and lets others wait for it to reach a length.
type growBuf struct {
	mu   sync.Mutex
	buf  []byte
	wake chan struct{}
}

func newGrowBuf() *growBuf { return &growBuf{wake: make(chan struct{}, 1)} }

func (g *growBuf) Write(p []byte) (int, error) {
	g.mu.Lock()
	g.buf = append(g.buf, p...)
	g.mu.Unlock()
	select {
	case g.wake <- struct{}{}:
	default:
	}
	return len(p), nil
}

func (g *growBuf) snapshot() []byte {
	g.mu.Lock()
	defer g.mu.Unlock()
	return append([]byte{}, g.buf...)
}

// waitLen waits until the buffer holds n bytes, done is closed, or the deadline passes.
func (g *growBuf) waitLen(n int, done <-chan struct{}, limit time.Duration) {
	deadline := time.After(limit)
	for {
		g.mu.Lock()
		l := len(g.buf)
		g.mu.Unlock()
		if l >= n {
			return
		}
		select {
		case <-g.wake:
		case <-done:
			return
		case <-deadline:
			return
		}
	}
}

func implCli(fields []string) string {
	bin := os.Getenv("JQAWK_BIN")
	if bin == "" {
		return "R class=nobinary"
	}
	var argv []string
	if fields[1] != "-" {
		for _, a := range strings.Split(fields[1], ",") {
			if a == "e" {
				argv = append(argv, "")
				continue
			}
			b, err := unhx(a)
			if err != nil {
				return "R class=badrequest"
			}
			argv = append(argv, string(b))
		}
	}
	top, dir, err := cliEnvRoot(fields[4])
	if err != nil {
		return "R class=crash msg=no_temp_dir"
	}
	defer os.RemoveAll(top)
	// staged input: what to write first, what after the wait, and where
	var stageFirst, stageRest []byte
	var stageW io.WriteCloser
	staged := false
	extra := ""
	if fields[3] != "-" {
		for _, f := range strings.Split(fields[3], ";") {
			parts := strings.Split(f, ":")
			if len(parts) < 2 {
				return "R class=badrequest"
			}
			name, err1 := unhx(parts[0])
			data, err2 := unhx(parts[1])
			if err1 != nil || err2 != nil || len(name) == 0 {
				return "R class=badrequest"
			}
			path := filepath.Join(dir, string(name))
			os.MkdirAll(filepath.Dir(path), 0o755)
			kind := ""
			if len(parts) >= 3 {
				kind = parts[2]
			}
			switch kind {
			case "d":
				os.MkdirAll(path, 0o755)
			case "p":
				if staged || len(parts) < 4 {
					return "R class=badrequest"
				}
				rest, err := unhx(parts[3])
				if err != nil {
					return "R class=badrequest"
				}
				if err := syscall.Mkfifo(path, 0o644); err != nil {
					return "R class=crash msg=cannot_make_fifo"
				}
				// read-write: the open does not wait for the binary, and the binary sees
				// end of input only when this descriptor is closed
				fp, err := os.OpenFile(path, os.O_RDWR, 0)
				if err != nil {
					return "R class=crash msg=cannot_open_fifo"
				}
				staged, stageFirst, stageRest, stageW = true, data, rest, fp
			default:
				if err := os.WriteFile(path, data, 0o644); err != nil {
					return "R class=crash msg=cannot_write_file"
				}
				if kind == "r" {
					os.Chmod(path, 0o444)
					denied := 1
					if fp, err := os.OpenFile(path, os.O_WRONLY, 0); err == nil {
						fp.Close()
						denied = 0
					}
					extra += fmt.Sprintf(" wdenied=%d", denied)
				}
			}
		}
	}
	limit := 10 * time.Second
	waitBytes, waitLimit := 1, 2500*time.Millisecond
	ofile := ""
	var prelude [][]string
	stdinKind := "pipe"
	summarise := false
	envSpec := ""
	if fields[4] != "-" {
		for _, fl := range strings.Split(fields[4], ",") {
			num := func() (int, bool) {
				n, err := strconv.Atoi(fl[2:])
				return n, err == nil
			}
			switch {
			case strings.HasPrefix(fl, "o="):
				b, err := unhx(fl[2:])
				if err != nil {
					return "R class=badrequest"
				}
				ofile = string(b)
			case fl == "z":
				summarise = true
			case strings.HasPrefix(fl, "e="):
				b, err := unhx(fl[2:])
				if err != nil {
					return "R class=badrequest"
				}
				envSpec = string(b)
			case strings.HasPrefix(fl, "s="):
				stdinKind = fl[2:]
			case strings.HasPrefix(fl, "p="):
				for _, run := range strings.Split(fl[2:], "+") {
					var av []string
					for _, a := range strings.Split(run, ".") {
						if a == "e" {
							av = append(av, "")
							continue
						}
						b, err := unhx(a)
						if err != nil {
							return "R class=badrequest"
						}
						av = append(av, string(b))
					}
					prelude = append(prelude, av)
				}
			case strings.HasPrefix(fl, "t="):
				ms, ok := num()
				if !ok {
					return "R class=badrequest"
				}
				limit = time.Duration(ms) * time.Millisecond
			case strings.HasPrefix(fl, "w="):
				n, ok := num()
				if !ok {
					return "R class=badrequest"
				}
				waitBytes = n
			case strings.HasPrefix(fl, "d="):
				ms, ok := num()
				if !ok {
					return "R class=badrequest"
				}
				waitLimit = time.Duration(ms) * time.Millisecond
			}
		}
	}
	if k, err := strconv.Atoi(os.Getenv("VERIF_SLOW")); err == nil && k > 1 {
		limit *= time.Duration(k) // a retry of a timed-out request on a busy machine (core.go)
	}
	ctx, cancel := context.WithTimeout(context.Background(), limit)
	defer cancel()
	for _, av := range prelude {
		pre := exec.CommandContext(ctx, bin, av...)
		pre.Dir = dir
		pre.Run() // whatever it does: only what it leaves behind in the directory matters
	}
	cmd := exec.CommandContext(ctx, bin, argv...)
	if stdinKind == "closed" {
		// the shell closes descriptor 0 and replaces itself by the binary, arguments untouched
		cmd = exec.CommandContext(ctx, "/bin/sh", append([]string{"-c", `exec "$0" "$@" <&-`, bin}, argv...)...)
	}
	cmd.Dir = dir
	if envSpec != "" {
		cleanup, ex, ok := cliEnvApply(cmd, envSpec, dir, bin, argv, stdinKind)
		defer cleanup()
		if !ok {
			return "R class=badrequest"
		}
		extra += ex
	}
	switch {
	case stdinKind != "pipe":
		if staged || strings.Contains(fields[2], ":") {
			if staged {
				stageW.Close()
			}
			return "R class=badrequest"
		}
		var data []byte
		if fields[2] != "-" && fields[2] != "e" {
			if data, err = unhx(fields[2]); err != nil {
				return "R class=badrequest"
			}
		}
		switch stdinKind {
		case "file", "empty":
			if stdinKind == "empty" {
				data = nil
			}
			tf, err := os.CreateTemp("", "jqawk-stdin-")
			if err != nil {
				return "R class=crash msg=no_temp_file"
			}
			defer os.Remove(tf.Name())
			tf.Write(data)
			tf.Close()
			rf, err := os.Open(tf.Name())
			if err != nil {
				return "R class=crash msg=cannot_reopen_temp_file"
			}
			defer rf.Close()
			cmd.Stdin = rf
		case "null":
			nf, err := os.Open(os.DevNull)
			if err != nil {
				return "R class=crash msg=no_dev_null"
			}
			defer nf.Close()
			cmd.Stdin = nf
		case "socket":
			fds, err := syscall.Socketpair(syscall.AF_UNIX, syscall.SOCK_STREAM|syscall.SOCK_CLOEXEC, 0)
			if err != nil {
				return "R class=crash msg=no_socketpair"
			}
			wr, rd := os.NewFile(uintptr(fds[0]), "stdin-socket-w"), os.NewFile(uintptr(fds[1]), "stdin-socket-r")
			defer rd.Close()
			go func() {
				wr.Write(data)
				wr.Close()
			}()
			cmd.Stdin = rd
		case "closed":
			// nothing: the shell closes it (cmd.Stdin == nil gives the shell /dev/null first)
		default:
			// a device node: zero, full, random, tty (see cliStdinDevice)
			df, keep, ok := cliStdinDevice(stdinKind)
			if !ok {
				return "R class=badrequest"
			}
			if df == nil {
				return "R class=nodevice"
			}
			defer df.Close()
			if keep != nil {
				defer keep.Close()
			}
			cmd.Stdin = df
		}
	case strings.Contains(fields[2], ":"):
		if staged {
			stageW.Close()
			return "R class=badrequest"
		}
		p := strings.SplitN(fields[2], ":", 2)
		first, err1 := unhx(p[0])
		rest, err2 := unhx(p[1])
		if err1 != nil || err2 != nil {
			return "R class=badrequest"
		}
		w, err := cmd.StdinPipe()
		if err != nil {
			return "R class=crash msg=no_stdin_pipe"
		}
		staged, stageFirst, stageRest, stageW = true, first, rest, w
	case fields[2] != "-":
		data := []byte{}
		if fields[2] != "e" {
			data, err = unhx(fields[2])
			if err != nil {
				return "R class=badrequest"
			}
		}
		cmd.Stdin = bytes.NewReader(data)
	} // else: nil = /dev/null
	so := newGrowBuf()
	var se bytes.Buffer
	cmd.Stdout, cmd.Stderr = so, &se
	var runErr error
	if !staged {
		runErr = cmd.Run()
	} else {
		if runErr = cmd.Start(); runErr != nil {
			stageW.Close()
			return "R class=crash msg=" + strings.ReplaceAll(fmt.Sprint(runErr), " ", "_")
		}
		// done: the process has ended and its output has been collected. (Wait also closes the
		// stdin pipe, which releases a feeder blocked in a write.)
		done := make(chan struct{})
		go func() {
			runErr = cmd.Wait()
			close(done)
		}()
		var early []byte
		var waited time.Duration
		fed := make(chan struct{})
		go func() {
			defer close(fed)
			stageW.Write(stageFirst)
			t0 := time.Now()
			so.waitLen(waitBytes, done, waitLimit)
			waited = time.Since(t0)
			early = so.snapshot()
			stageW.Write(stageRest)
			stageW.Close()
		}()
		select {
		case <-fed:
		case <-done:
			// the binary ended without reading everything: a write into a full FIFO
			// would block for good; closing the descriptor releases it
			select {
			case <-fed:
			case <-time.After(200 * time.Millisecond):
				stageW.Close()
				<-fed
			}
		}
		<-done
		extra += fmt.Sprintf(" early=%s earlyms=%d", hx(early), waited.Milliseconds())
	}
	if ctx.Err() == context.DeadlineExceeded {
		return "R class=timeout"
	}
	if cmd.ProcessState == nil {
		return "R class=crash msg=" + strings.ReplaceAll(fmt.Sprint(runErr), " ", "_")
	}
	exit := cmd.ProcessState.ExitCode()
	of, ofexists := "ofile=-", 0
	if ofile != "" {
		if b, err := os.ReadFile(filepath.Join(dir, ofile)); err == nil {
			of, ofexists = "ofile="+hx(b), 1
			if summarise {
				if f, ok := summariseJSON("ofile", string(b)); ok {
					of = f
				}
			}
		}
	}
	errFlag := 0
	if se.Len() > 0 {
		errFlag = 1
	}
	outB := so.snapshot()
	outF := "out=" + hx(outB)
	if summarise {
		if f, ok := summariseJSON("out", string(outB)); ok {
			outF = f
		}
	}
	return fmt.Sprintf("R exit=%d %s err=%d errlen=%d stderr=%s %s ofexists=%d%s class=cli%d", exit, outF, errFlag, se.Len(), hx(se.Bytes()), of, ofexists, extra, exit)
}

// cliStdinDevice opens the device behind the stdin kinds zero, full, random and tty. ok == false:
// no such kind; a nil file: the device cannot be opened on this system. keep is a second
// descriptor that has to stay open as long as the first is in use (the master side of the
// pseudo-terminal).
func cliStdinDevice(kind string) (f *os.File, keep *os.File, ok bool) {
	switch kind {
	case "zero", "full", "random":
		path := map[string]string{"zero": "/dev/zero", "full": "/dev/full", "random": "/dev/urandom"}[kind]
		f, err := os.Open(path)
		if err != nil {
			return nil, nil, true
		}
		return f, nil, true
	case "tty":
		master, err := os.OpenFile("/dev/ptmx", os.O_RDWR|syscall.O_NOCTTY, 0)
		if err != nil {
			return nil, nil, true
		}
		var n uint32
		var unlock int32
		if _, _, e := syscall.Syscall(syscall.SYS_IOCTL, master.Fd(), syscall.TIOCSPTLCK, uintptr(unsafe.Pointer(&unlock))); e != 0 {
			master.Close()
			return nil, nil, true
		}
		if _, _, e := syscall.Syscall(syscall.SYS_IOCTL, master.Fd(), syscall.TIOCGPTN, uintptr(unsafe.Pointer(&n))); e != 0 {
			master.Close()
			return nil, nil, true
		}
		slave, err := os.OpenFile(fmt.Sprintf("/dev/pts/%d", n), os.O_RDWR|syscall.O_NOCTTY, 0)
		if err != nil {
			master.Close()
			return nil, nil, true
		}
		return slave, master, true
	}
	return nil, nil, false
}

// ---- e=: the process environment of the run under test (C10) ------------------------------

// CliEnvReq adds the environment spec (see e= above) to a "cli" request.
func CliEnvReq(req string, spec string) string {
	if spec == "" {
		return req
	}
	if strings.HasSuffix(req, " -") {
		return strings.TrimSuffix(req, "-") + "e=" + hxs(spec)
	}
	return req + ",e=" + hxs(spec)
}

// cliEnvSpec extracts the e= spec from the flags field ("" if there is none).
func cliEnvSpec(flags string) string {
	for _, fl := range strings.Split(flags, ",") {
		if strings.HasPrefix(fl, "e=") {
			if b, err := unhx(fl[2:]); err == nil {
				return string(b)
			}
		}
	}
	return ""
}

func cliShmUsable() bool {
	st, err := os.Stat("/dev/shm")
	return err == nil && st.IsDir()
}

// cliOtherFS: is path on another file system than the default temp dir?
func cliOtherFS(path string) bool {
	var a, b syscall.Stat_t
	if syscall.Stat(path, &a) != nil || syscall.Stat(os.TempDir(), &b) != nil {
		return false
	}
	return a.Dev != b.Dev
}

// cliEnvRoot makes the working directory: top is what has to be removed afterwards.
func cliEnvRoot(flags string) (top, dir string, err error) {
	parent, deep := "", false
	for _, d := range strings.Split(cliEnvSpec(flags), ";") {
		switch d {
		case "root=shm":
			if cliShmUsable() {
				parent = "/dev/shm"
			}
		case "root=deep":
			deep = true
		}
	}
	top, err = os.MkdirTemp(parent, "jqawk-cli-")
	if err != nil {
		return "", "", err
	}
	dir = top
	if deep {
		dir = filepath.Join(top, "a b", "d\u00e9j\u00e0 vu", "x'y", "wd")
		if err = os.MkdirAll(dir, 0o755); err != nil {
			os.RemoveAll(top)
			return "", "", err
		}
	}
	return top, dir, nil
}

// cliEnvApply gives cmd the environment described by spec.
func cliEnvApply(cmd *exec.Cmd, spec, dir, bin string, argv []string, stdinKind string) (cleanup func(), extra string, ok bool) {
	var remove []string
	cleanup = func() {
		for _, p := range remove {
			os.Chmod(p, 0o755)
			os.RemoveAll(p)
		}
	}
	otherFS := false
	fresh := func(parent string) string {
		p, err := os.MkdirTemp(parent, "jqawk-env-")
		if err != nil {
			return filepath.Join(dir, "..", "jqawk-env-unavailable")
		}
		remove = append(remove, p)
		return p
	}
	subst := func(v string) string {
		if strings.Contains(v, "@DIR@") {
			v = strings.ReplaceAll(v, "@DIR@", dir)
		}
		if strings.Contains(v, "@MISSING@") {
			v = strings.ReplaceAll(v, "@MISSING@", filepath.Join(dir, ".no", "such", "dir"))
		}
		if strings.Contains(v, "@FILE@") {
			p := fresh("")
			f := filepath.Join(p, "plain-file")
			os.WriteFile(f, []byte("x"), 0o644)
			v = strings.ReplaceAll(v, "@FILE@", f)
		}
		if strings.Contains(v, "@RODIR@") {
			p := fresh("")
			os.Chmod(p, 0o555)
			v = strings.ReplaceAll(v, "@RODIR@", p)
		}
		if strings.Contains(v, "@TMP@") {
			v = strings.ReplaceAll(v, "@TMP@", fresh(""))
		}
		if strings.Contains(v, "@SHM@") {
			parent := ""
			if cliShmUsable() {
				parent = "/dev/shm"
			}
			p := fresh(parent)
			otherFS = otherFS || cliOtherFS(p)
			v = strings.ReplaceAll(v, "@SHM@", p)
		}
		return v
	}
	env := os.Environ()
	unset := func(name string) {
		kept := env[:0:0]
		for _, kv := range env {
			if !strings.HasPrefix(kv, name+"=") {
				kept = append(kept, kv)
			}
		}
		env = kept
	}
	for _, d := range strings.Split(spec, ";") {
		switch {
		case d == "":
		case d == "root=shm":
			otherFS = otherFS || cliOtherFS(dir)
		case d == "root=deep":
		case strings.HasPrefix(d, "umask="):
			if _, err := strconv.ParseUint(d[6:], 8, 12); err != nil || stdinKind == "closed" {
				return cleanup, "", false
			}
			// the shell sets the mask and replaces itself by the binary, arguments untouched
			cmd.Path = "/bin/sh"
			cmd.Args = append([]string{"/bin/sh", "-c", "umask " + d[6:] + `; exec "$0" "$@"`, bin}, argv...)
		case strings.HasPrefix(d, "-"):
			unset(d[1:])
		case strings.Contains(d, "="):
			i := strings.IndexByte(d, '=')
			unset(d[:i])
			env = append(env, d[:i]+"="+subst(d[i+1:]))
		default:
			return cleanup, "", false
		}
	}
	cmd.Env = env
	fs := 0
	if otherFS {
		fs = 1
	}
	return cleanup, fmt.Sprintf(" envfs=%d", fs), true
}
