package main

// C14 — the command line is a faithful wrapper: -f, stdin, -r, -o, file order,
// exit code (cli/cli.go Run).
//
// The real binary (env JQAWK_BIN) is run through the `cli` request kind
// (impl_cli.go). The model does not know `cli`: binary cases are ImplOnly and
// every scenario also carries the equivalent library `run` request, which IS
// compared with the model; the binary is tied to it, and to its own variants,
// by Group relations:
//
//   cli-wrapper  one Group per scenario; first member = the binary with an inline
//                program; members: the library run (cli_equals_library), -f FILE
//                (dash_f_equals_inline), stdin <-> named file (stdin_equals_file),
//                -o - <-> -o FILE <-> no -o (o_file_equals_o_dash), and
//                -r E <-> BEGINFILE { $ = E } (r_equals_beginfile)
//   cli-order    files and -r selectors in argv order: expected stdout computed by
//                the generator
//   cli-faults   missing / directory / unwritable paths, -o with several inputs or
//                none, unreadable -f file, bad flags: exit != 0, diagnostic, no panic

import (
	"fmt"
	"math/rand"
	"os"
	"strconv"
	"strings"
)

type c14Prog struct {
	text       string
	usesFile   bool // mentions $file: excluded from stdin <-> file
	fileDollar bool // inspects $ in BEGINFILE/ENDFILE: excluded from -r <-> BEGINFILE
	// assignsRoot: a pattern rule assigns `$` unconditionally. With a path selector that hit
	// a missing location (`-r '$.list'` on an array) the root used to be a pending member and
	// the assignment failed or was lost, unlike after BEGINFILE { $ = E }; repaired in /repo
	// (bbf13a0), these programs are part of the -r <-> BEGINFILE relation at full strength.
	assignsRoot bool
}

var c14Progs = []c14Prog{
	{text: `{ print $ }`},
	{text: `{ print $file, $ }`, usesFile: true},
	{text: "BEGIN { print \"begin\" } { n++; print n, $ } END { print \"end\", n }"},
	{text: `$ is number && $ > 1`},
	{text: `$ is number { s += $ } END { print s }`},
	{text: `{ print $; x = 1 / 0 }`},
	{text: `$ is number { print 10 / $ }`},
	{text: `{ print `},
	{text: `BEGIN { exit } END { print "no" }`},
	{text: "{ if ($ is number && $ == 2) exit\n print $ }"},
	{text: `{ $ = [$, "seen"] }`, assignsRoot: true},
	{text: `$ is number { $ = $ * 2 }`},
	{text: `BEGINFILE { print "bf" } ENDFILE { print "ef" } { print "p", $ }`},
	{text: `BEGINFILE { print "bf", $ } ENDFILE { print "ef", $ }`, fileDollar: true},
	{text: "function f(x) { return x + 1 }\n$ is number { print f($) }"},
	{text: `{ printf("%s|%s\n", $file, $) }`, usesFile: true},
	{text: `END { print "é ✓", $file }`, usesFile: true},
	{text: `{ print 'single', "double" }`},
	{text: ``},
	{text: `$ is object { $.k = "v" }`},
	{text: `BEGIN { print "only begin" }`},
	{text: `{ print $.a, $.list }`},
	{text: `{ $ = null }`, assignsRoot: true},
	{text: "# a comment\n{ print $index, $ }"},
	{text: `ENDFILE { print }`, fileDollar: true},
	{text: `BEGINFILE { $ = [7, 8] } { print $ }`, fileDollar: true},
	{text: `{ print $ } END { x = u.v.w; print x; y = 1 % 0 }`},
}

var c14Sels = []string{"$", "$.a", "$[0]", "[$, 1]", "$.list", "{x: $}", "$.a.b", "$[1]", "[$.a, $.list]", "$.list[0]", "1 / 0", "$.", "[1, 2, 3]", "\"str\""}

var c14BadStreams = []string{"[1,2", `{"a":1} x`, "1 ] 2", "[1] nul", `"open`, "[1,]"}

func c14Stream(r *rand.Rand) []byte {
	if chance(r, 0.07) {
		return []byte(pick(r, c14BadStreams))
	}
	n := pick(r, []int{0, 1, 1, 1, 1, 1, 2, 2, 2, 3, 3})
	vals := make([]string, n)
	for i := range vals {
		vals[i], _ = c02Root(r)
	}
	s := strings.Join(vals, pick(r, []string{" ", "\n", "\n\n"}))
	if chance(r, 0.3) {
		s += "\n"
	}
	return []byte(s)
}

// flag spellings accepted by Go's flag package
func c14Flag(r *rand.Rand, name, val string) []string {
	switch r.Intn(4) {
	case 0:
		return []string{"-" + name + "=" + val}
	case 1:
		return []string{"--" + name, val}
	default:
		return []string{"-" + name, val}
	}
}

func c14Basic(i Resp) string {
	switch i["class"] {
	case "nobinary":
		return "JQAWK_BIN is not set: the binary was not run"
	case "badrequest", "crash", "garbled":
		return "harness problem running the binary: " + i.String()
	}
	if i["exit"] == "" {
		return ""
	}
	stderr := string(i.Bytes("stderr"))
	if strings.Contains(stderr, "goroutine ") || strings.Contains(stderr, "panic:") {
		return "the binary panicked: " + short(stderr)
	}
	if i["exit"] == "0" && i["errlen"] != "0" {
		return "exit status 0 with a diagnostic on stderr: " + short(stderr)
	}
	if i["exit"] != "0" && i["errlen"] == "0" {
		return "exit status " + i["exit"] + " without a diagnostic on stderr"
	}
	if i["exit"] != "0" && i["exit"] != "1" && i["exit"] != "2" {
		return "unexpected exit status " + i["exit"]
	}
	return ""
}

func c14NT(i Resp) bool {
	return i["exit"] != "" && (i["out"] != "-" || i["errlen"] != "0" || i["ofexists"] == "1")
}

// c14CliVsLib: the binary's answer against the library's for the same program,
// selectors and inputs. oMode: "" (no -o), "-" or a path; nInputs as cli.go counts them.
func c14CliVsLib(cli, lib Resp, oMode string, nInputs int) string {
	libOut := string(lib.Bytes("out"))
	cliOut := string(cli.Bytes("out"))
	switch lib["class"] {
	case "ok":
		js := ""
		if lib["json"] != "ERR" {
			js = string(lib.Bytes("json"))
		}
		fail := oMode != "" && (nInputs > 1 || lib["json"] == "ERR")
		if fail {
			if cli["exit"] == "0" {
				return "library run succeeds but -o cannot be honoured (several inputs / no value): exit status must not be 0"
			}
			if cliOut != libOut {
				return fmt.Sprintf("stdout %q, library output %q", cliOut, libOut)
			}
			return ""
		}
		if cli["exit"] != "0" {
			return "library run succeeds, binary exits with " + cli["exit"] + ": " + short(string(cli.Bytes("stderr")))
		}
		want := libOut
		if oMode == "-" {
			want += js
		}
		if cliOut != want {
			return fmt.Sprintf("stdout %q, expected %q (library output%s)", cliOut, want, map[bool]string{true: " followed by the JSON of the root", false: ""}[oMode == "-"])
		}
		if oMode != "" && oMode != "-" {
			if cli["ofexists"] != "1" {
				return "-o " + oMode + ": the file was not written"
			}
			if got := string(cli.Bytes("ofile")); got != js {
				return fmt.Sprintf("-o file holds %q, GetRootJson gives %q", got, js)
			}
		}
	case "syntax", "runtime", "json":
		if cli["exit"] == "0" {
			return "library reports a " + lib["class"] + " error, binary exits with status 0"
		}
		if cli["errlen"] == "0" {
			return "library reports a " + lib["class"] + " error, binary prints no diagnostic"
		}
		if cliOut != libOut {
			return fmt.Sprintf("stdout %q, library output before the error %q", cliOut, libOut)
		}
		if cli["ofexists"] == "1" {
			return "an -o file was written although the run failed"
		}
	default:
		return "library outcome " + lib["class"]
	}
	return ""
}

type c14Scenario struct {
	prog   c14Prog
	sels   []string
	mode   string // "stdin", "files", "none"
	stdin  []byte
	files  []CliFile // input files (regular or directory), in argv order
	oMode  string
	dashes bool // `--` before the program
}

func (sc *c14Scenario) nInputs() int {
	if sc.mode == "files" {
		return len(sc.files)
	}
	return 1 // <stdin>
}

func (sc *c14Scenario) libFiles() []File {
	if sc.mode != "files" {
		return []File{{Name: "<stdin>", Data: sc.stdin}}
	}
	var fs []File
	for _, f := range sc.files {
		fs = append(fs, File{Name: f.Name, Data: f.Data, IOErr: f.Dir})
	}
	return fs
}

// argv for the scenario; progFile != "": use -f progFile. sels/oMode/prog text may be overridden.
func (sc *c14Scenario) argv(r *rand.Rand, prog string, sels []string, oMode string, progFile string, fileNames []string) []string {
	var flags [][]string
	for _, s := range sels {
		flags = append(flags, c14Flag(r, "r", s))
	}
	var args []string
	// -o and -f go at a random place among the -r flags (the order of -r flags is kept)
	ins := func(f []string) {
		at := r.Intn(len(flags) + 1)
		flags = append(flags[:at], append([][]string{f}, flags[at:]...)...)
	}
	if oMode != "" {
		ins(c14Flag(r, "o", oMode))
	}
	if progFile != "" {
		ins(c14Flag(r, "f", progFile))
	}
	for _, f := range flags {
		args = append(args, f...)
	}
	if sc.dashes {
		args = append(args, "--")
	}
	if progFile == "" {
		args = append(args, prog)
	}
	return append(args, fileNames...)
}

func (sc *c14Scenario) fileNames() []string {
	var n []string
	if sc.mode == "files" {
		for _, f := range sc.files {
			n = append(n, f.Name)
		}
	}
	return n
}

func c14Scenarios(r *rand.Rand, n int, emit func(Case)) {
	modes := []string{"stdin", "one", "several", "one", "stdin", "several", "one", "none"}
	oModes := []string{"", "-", "out.json"}
	combo := 0
	for i := 0; i < n; i++ {
		// cycle through input mode x number of selectors x -o mode
		mode := modes[combo%8]
		nsel := (combo / 8) % 4
		oMode := oModes[(combo/32)%3]
		combo++
		sc := &c14Scenario{oMode: oMode, dashes: chance(r, 0.15)}
		if chance(r, 0.8) {
			sc.prog = pick(r, c14Progs)
		} else {
			files, firstArr, nvals := c02Inputs(r)
			_ = files
			g := &c02Gen{r: r, firstArr: firstArr, idxSafe: false, nvals: nvals, used: map[string]bool{}}
			t := g.program().text
			sc.prog = c14Prog{text: t, usesFile: strings.Contains(t, "$file"), fileDollar: true}
		}
		if strings.HasPrefix(sc.prog.text, "-") {
			sc.dashes = true
		}
		for k := 0; k < nsel; k++ {
			sel := pick(r, c14Sels)
			if (sel == "1 / 0" || sel == "$.") && chance(r, 0.6) {
				sel = "$"
			}
			sc.sels = append(sc.sels, sel)
		}
		switch mode {
		case "stdin":
			sc.mode, sc.stdin = "stdin", c14Stream(r)
		case "none":
			sc.mode = "none"
		case "one":
			sc.mode = "files"
			sc.files = []CliFile{{Name: pick(r, []string{"in.json", "sub/in.json", "data file.json", "é.json"}), Data: c14Stream(r)}}
		default:
			sc.mode = "files"
			names := []string{"z.json", "a.json", "m.json"}
			r.Shuffle(3, func(a, b int) { names[a], names[b] = names[b], names[a] })
			for k := 0; k < 2+r.Intn(2); k++ {
				sc.files = append(sc.files, CliFile{Name: names[k], Data: c14Stream(r)})
			}
			if chance(r, 0.1) {
				sc.files = append(sc.files, sc.files[0]) // the same file twice
			}
		}
		if sc.mode == "files" && chance(r, 0.06) {
			k := r.Intn(len(sc.files))
			sc.files[k] = CliFile{Name: "adir" + strconv.Itoa(k), Dir: true}
		}
		g := fmt.Sprintf("cli-%d", i)
		desc := fmt.Sprintf("input=%s sels=%v -o=%q", mode, sc.sels, oMode)
		var stdinData []byte
		hasStdin := sc.mode == "stdin"
		if hasStdin {
			stdinData = sc.stdin
		}
		var disk []CliFile
		seen := map[string]bool{}
		for _, f := range sc.files {
			if !seen[f.Name] {
				seen[f.Name] = true
				disk = append(disk, f)
			}
		}
		ofile := ""
		if oMode != "" && oMode != "-" {
			ofile = oMode
		}
		meta := func(argv []string, what string) map[string]string {
			m := metaProg(sc.prog.text, "argv", strings.Join(argv, " ␣ "), "scenario", desc, "variant", what)
			if hasStdin {
				m["stdin"] = strconv.Quote(string(stdinData))
			}
			for _, f := range disk {
				m["file "+f.Name] = strconv.Quote(string(f.Data))
				if f.Dir {
					m["file "+f.Name] = "(a directory)"
				}
			}
			return m
		}
		nIn := sc.nInputs()

		// first member: the binary, inline program
		baseArgv := sc.argv(r, sc.prog.text, sc.sels, oMode, "", sc.fileNames())
		emit(Case{ID: g + "/inline", Req: CliReq(baseArgv, stdinData, hasStdin, disk, ofile), Fields: c14CliFields, Group: g,
			Meta: meta(baseArgv, "binary, inline program (first member of the group)"), Oracle: c14Basic, NonTrivial: c14NT})

		// the library, compared with the model and tied to the binary
		emit(Case{ID: g + "/lib", Req: RunReq(sc.prog.text, sc.sels, sc.libFiles(), oMode != ""), Fields: []string{"class", "out", "json"}, Group: g,
			Meta: meta(nil, "library run of the same program, selectors and inputs"),
			GroupCheck: func(first, self Resp) string {
				if first["exit"] == "" {
					return ""
				}
				return c14CliVsLib(first, self, oMode, nIn)
			},
			Oracle: func(i Resp) string {
				switch i["class"] {
				case "sentinel", "panic", "other":
					return "library outcome " + i["class"] + " " + i["msg"]
				}
				return ""
			}})

		// -f FILE
		if chance(r, 0.7) {
			pf := pick(r, []string{"prog.jqawk", "p", "sub/prog.awk"})
			argv := sc.argv(r, "", sc.sels, oMode, pf, sc.fileNames())
			emit(Case{ID: g + "/dash-f", Req: CliReq(argv, stdinData, hasStdin, append(append([]CliFile{}, disk...), CliFile{Name: pf, Data: []byte(sc.prog.text)}), ofile), Fields: c14CliFields,
				 Group: g, GroupFields: []string{"exit", "out", "stderr", "ofile", "ofexists"},
				Meta: meta(argv, "-f FILE instead of the inline program"), Oracle: c14Basic, NonTrivial: c14NT})
		}

		// stdin <-> the same bytes in a named file
		if !sc.prog.usesFile && (sc.mode == "stdin" || (sc.mode == "files" && len(sc.files) == 1 && !sc.files[0].Dir)) && chance(r, 0.8) {
			gf := []string{"exit", "out", "ofile", "ofexists"}
			if sc.mode == "stdin" {
				argv := sc.argv(r, sc.prog.text, sc.sels, oMode, "", []string{"named.json"})
				emit(Case{ID: g + "/as-file", Req: CliReq(argv, nil, false, []CliFile{{Name: "named.json", Data: sc.stdin}}, ofile), Fields: c14CliFields,
					 Group: g, GroupFields: gf, Meta: meta(argv, "the stdin bytes in a named file"), Oracle: c14Basic, NonTrivial: c14NT})
			} else {
				argv := sc.argv(r, sc.prog.text, sc.sels, oMode, "", nil)
				emit(Case{ID: g + "/as-stdin", Req: CliReq(argv, sc.files[0].Data, true, nil, ofile), Fields: c14CliFields,
					 Group: g, GroupFields: gf, Meta: meta(argv, "the file's bytes on stdin"), Oracle: c14Basic, NonTrivial: c14NT})
			}
		}

		// -o variants
		if chance(r, 0.6) {
			alt := pick(r, []string{"", "-", "other.json", "sub/o.json"})
			if alt == "sub/o.json" && !seen["sub/in.json"] && !seen["sub/prog.awk"] {
				alt = "o2.json" // the directory would not exist
			}
			if alt != oMode {
				argv := sc.argv(r, sc.prog.text, sc.sels, alt, "", sc.fileNames())
				altFile := ""
				if alt != "" && alt != "-" {
					altFile = alt
				}
				emit(Case{ID: g + "/o=" + alt, Req: CliReq(argv, stdinData, hasStdin, disk, altFile), Fields: c14CliFields, Group: g,
					Meta: meta(argv, fmt.Sprintf("-o %q instead of -o %q", alt, oMode)), Oracle: c14Basic, NonTrivial: c14NT,
					GroupCheck: func(first, self Resp) string { return c14OVariants(first, oMode, self, alt) }})
			}
		}

		// -r E  <->  BEGINFILE { $ = E }
		if len(sc.sels) == 1 && !sc.prog.fileDollar && sc.sels[0] != "$." {
			prog2 := "BEGINFILE { $ = " + sc.sels[0] + " }\n" + sc.prog.text
			argv := sc.argv(r, prog2, nil, oMode, "", sc.fileNames())
			emit(Case{ID: g + "/beginfile", Req: CliReq(argv, stdinData, hasStdin, disk, ofile), Fields: c14CliFields, Group: g,
				GroupFields: []string{"exit", "out", "ofile", "ofexists"},
				Meta:        meta(argv, "BEGINFILE { $ = E } instead of -r E"), Oracle: c14Basic, NonTrivial: c14NT})
		}
	}
}

// c14OVariants: the same run under two -o modes. What the program prints is the
// same; -o - appends the JSON that -o FILE writes into the file.
func c14OVariants(a Resp, aMode string, b Resp, bMode string) string {
	if a["exit"] == "" || b["exit"] == "" {
		return ""
	}
	split := func(x Resp, mode string) (prog string, js string, hasJS bool) {
		out := string(x.Bytes("out"))
		switch mode {
		case "":
			return out, "", false
		case "-":
			return out, "", false // cannot be split without the other side
		default:
			return out, string(x.Bytes("ofile")), x["ofexists"] == "1"
		}
	}
	ao, aj, ah := split(a, aMode)
	bo, bj, bh := split(b, bMode)
	aFile, bFile := aMode != "" && aMode != "-", bMode != "" && bMode != "-"
	switch {
	case aMode == "-" && bFile:
		if a["exit"] != b["exit"] {
			return fmt.Sprintf("exit status %s with -o -, %s with -o %s", a["exit"], b["exit"], bMode)
		}
		if ao != bo+bj {
			return fmt.Sprintf("-o - prints %q; program output %q plus -o FILE content %q expected", ao, bo, bj)
		}
		if a["exit"] == "0" && !bh {
			return "-o FILE: exit 0 but no file written"
		}
	case bMode == "-" && aFile:
		return c14OVariants(b, bMode, a, aMode)
	case aFile && bFile:
		if a["exit"] != b["exit"] || ao != bo || aj != bj || ah != bh {
			return fmt.Sprintf("-o %s and -o %s differ: exit %s/%s stdout %q/%q file %q/%q", aMode, bMode, a["exit"], b["exit"], ao, bo, aj, bj)
		}
	case aMode == "" && bFile, bMode == "" && aFile:
		// without -o the run can only be more successful; stdout is the same
		if ao != bo {
			return fmt.Sprintf("stdout differs with and without -o FILE: %q vs %q", ao, bo)
		}
		with, without := a, b
		if aMode == "" {
			with, without = b, a
		}
		if without["exit"] != "0" && with["exit"] == "0" {
			return "the run fails without -o but succeeds with -o FILE"
		}
	case aMode == "" && bMode == "-", aMode == "-" && bMode == "":
		with, without := a, b
		if aMode == "" {
			with, without = b, a
		}
		wo, no := string(with.Bytes("out")), string(without.Bytes("out"))
		if !strings.HasPrefix(wo, no) {
			return fmt.Sprintf("-o - output %q does not start with the program's own output %q", wo, no)
		}
		if without["exit"] != "0" && with["exit"] == "0" {
			return "the run fails without -o but succeeds with -o -"
		}
	}
	return ""
}

// fields of a `cli` answer compared between the real binary and the model of the wrapper
var c14CliFields = []string{"exit", "out", "err", "ofile", "ofexists"}

func init() {
	noBin := func(emit func(Case)) bool {
		if os.Getenv("JQAWK_BIN") != "" {
			return false
		}
		emit(Case{ID: "no-binary", Req: "cli - - - -", ImplOnly: true, Oracle: c14Basic,
			Meta: map[string]string{"problem": "env JQAWK_BIN is not set; the C14 families run the real binary"}})
		return true
	}

	register(Family{
		Name: "cli-wrapper", Prop: "C14",
		Rule: "scenarios cycling through stdin / one file / several files / no input x 0-3 -r selectors x -o absent / - / path, with programs from a pool (succeeding, failing at syntax/runtime/JSON level, exiting, rewriting the root) and random C02 programs; per scenario one Group: binary with inline program (first), library run of the same request (compared with the model; tied to the binary: exit 0 <=> class ok, stdout, -o content = json), -f FILE, stdin <-> named file, other -o modes, -r E <-> BEGINFILE { $ = E }; non-trivial = the binary ran and produced stdout, stderr or an -o file",
		Gen: func(r *rand.Rand, tier string, emit func(Case)) {
			if noBin(emit) {
				return
			}
			c14Scenarios(r, tierN(tier, 96, 6500), emit)
		},
	})

	register(Family{
		Name: "cli-order", Prop: "C14",
		Rule: "1-3 files holding distinct numbers under keys a, b, c, 0-3 -r selectors in random order, program { print $file, $ }: stdout must list file x value x selector in argv order (expected text computed by the generator); also compared with the library run",
		Gen: func(r *rand.Rand, tier string, emit func(Case)) {
			if noBin(emit) {
				return
			}
			for i := 0; i < tierN(tier, 40, 1500); i++ {
				nf := 1 + r.Intn(3)
				names := []string{"z.json", "a.json", "m.json", "b/k.json"}
				r.Shuffle(len(names), func(a, b int) { names[a], names[b] = names[b], names[a] })
				keys := []string{"a", "b", "c"}
				selPool := []string{"$.a", "$.b", "$.c[0]"}
				r.Shuffle(3, func(a, b int) { selPool[a], selPool[b] = selPool[b], selPool[a] })
				sels := selPool[:r.Intn(4)]
				var files []CliFile
				var lib []File
				var want strings.Builder
				for f := 0; f < nf; f++ {
					nv := 1 + r.Intn(2)
					var data strings.Builder
					for v := 0; v < nv; v++ {
						base := (f*2+v)*10 + 10
						data.WriteString(fmt.Sprintf(`{"b": %d, "a": %d, "c": [%d]}`, base+2, base+1, base+3) + pick(r, []string{" ", "\n"}))
						if len(sels) == 0 {
							fmt.Fprintf(&want, "%s {\"a\": %d, \"b\": %d, \"c\": [%d]}\n", names[f], base+1, base+2, base+3)
						}
						for _, s := range sels {
							k := 0
							for j, key := range keys {
								if strings.HasPrefix(s, "$."+key) {
									k = j + 1
								}
							}
							fmt.Fprintf(&want, "%s %d\n", names[f], base+k)
						}
					}
					files = append(files, CliFile{Name: names[f], Data: []byte(data.String())})
					lib = append(lib, File{Name: names[f], Data: []byte(data.String())})
				}
				prog := `{ print $file, $ }`
				var argv []string
				for _, s := range sels {
					argv = append(argv, c14Flag(r, "r", s)...)
				}
				argv = append(argv, prog)
				for _, f := range files {
					argv = append(argv, f.Name)
				}
				expected := want.String()
				g := fmt.Sprintf("order-%d", i)
				emit(Case{ID: g + "/cli", Req: CliReq(argv, nil, false, files, ""), Fields: c14CliFields, Group: g, NonTrivial: c14NT,
					Meta: metaProg(prog, "argv", strings.Join(argv, " ␣ "), "expected", expected),
					Oracle: func(i Resp) string {
						if w := c14Basic(i); w != "" {
							return w
						}
						if i["exit"] != "0" {
							return "exit status " + i["exit"] + ": " + short(string(i.Bytes("stderr")))
						}
						if got := string(i.Bytes("out")); got != expected {
							return fmt.Sprintf("files/selectors not processed in argv order: stdout %q, expected %q", got, expected)
						}
						return ""
					}})
				emit(Case{ID: g + "/lib", Req: RunReq(prog, sels, lib, false), Fields: []string{"class", "out"}, Group: g,
					Meta:       metaProg(prog, "selectors", strings.Join(sels, " | ")),
					GroupCheck: func(first, self Resp) string { return c14CliVsLib(first, self, "", len(lib)) }})
			}
		},
	})

	register(Family{
		Name: "cli-faults", Prop: "C14",
		Rule: "the error paths of the wrapper: missing input file (alone, first, last), directory as input, missing or directory -f file, -o with 2-3 input files, -o with no input at all (empty stdin, BEGIN-only program, exit in BEGIN), -o into a missing directory / onto a directory, unknown flag, -r without a value: exit status != 0, a diagnostic on stderr, no panic; where the library has a counterpart it is run too",
		Gen: func(r *rand.Rand, tier string, emit func(Case)) {
			if noBin(emit) {
				return
			}
			good := CliFile{Name: "ok.json", Data: []byte("[1,2,3]\n")}
			good2 := CliFile{Name: "ok2.json", Data: []byte(`{"a":1}`)}
			mustFail := func(what string) func(Resp) string {
				return func(i Resp) string {
					if w := c14Basic(i); w != "" {
						return w
					}
					if i["exit"] == "0" {
						return what + ": exit status 0"
					}
					if i["errlen"] == "0" {
						return what + ": no diagnostic on stderr"
					}
					return ""
				}
			}
			n := 0
			add := func(what string, argv []string, stdin []byte, hasStdin bool, files []CliFile, ofile string, oracle func(Resp) string) {
				n++
				emit(Case{ID: fmt.Sprintf("fault-%d", n), Req: CliReq(argv, stdin, hasStdin, files, ofile), Fields: c14CliFields, NonTrivial: c14NT,
					Meta: map[string]string{"what": what, "argv": strings.Join(argv, " ␣ ")}, Oracle: oracle})
			}
			rounds := tierN(tier, 2, 3)
			for round := 0; round < rounds; round++ {
				prog := pick(r, []string{`{ print $ }`, `BEGIN { print "b" } { print $ } END { print "e" }`, `{ n++ } END { print n }`})
				add("missing input file", []string{prog, "nope.json"}, nil, false, nil, "", mustFail("missing input file"))
				add("missing input file after a good one", []string{prog, "ok.json", "nope.json"}, nil, false, []CliFile{good}, "", mustFail("missing input file"))
				add("missing input file before a good one", []string{prog, "nope.json", "ok.json"}, nil, false, []CliFile{good}, "", mustFail("missing input file"))
				add("directory as input", []string{prog, "d"}, nil, false, []CliFile{{Name: "d", Dir: true}}, "", mustFail("directory as input"))
				add("directory after a good file", []string{prog, "ok.json", "d"}, nil, false, []CliFile{good, {Name: "d", Dir: true}}, "", mustFail("directory as input"))
				add("-f names a missing file", []string{"-f", "nope.awk", "ok.json"}, nil, false, []CliFile{good}, "", mustFail("missing -f file"))
				add("-f names a directory", []string{"-f", "d", "ok.json"}, nil, false, []CliFile{good, {Name: "d", Dir: true}}, "", mustFail("-f directory"))
				for _, o := range []string{"-", "out.json"} {
					of := ""
					if o != "-" {
						of = o
					}
					add("-o with two input files", []string{"-o", o, prog, "ok.json", "ok2.json"}, nil, false, []CliFile{good, good2}, of, mustFail("-o with several input files"))
					add("-o with three input files", []string{"-o", o, prog, "ok.json", "ok2.json", "ok.json"}, nil, false, []CliFile{good, good2}, of, mustFail("-o with several input files"))
					add("-o with no input (no stdin data)", []string{"-o", o, prog}, nil, false, nil, of, mustFail("-o with no input"))
					add("-o with empty stdin", []string{"-o", o, prog}, []byte{}, true, nil, of, mustFail("-o with no input"))
					add("-o with whitespace-only stdin", []string{"-o", o, prog}, []byte(" \n"), true, nil, of, mustFail("-o with no input"))
					add("-o with an empty file", []string{"-o", o, prog, "empty.json"}, nil, false, []CliFile{{Name: "empty.json"}}, of, mustFail("-o with no input"))
					add("-o, BEGIN-only program that exits", []string{"-o", o, `BEGIN { print "x"; exit }`, "ok.json"}, nil, false, []CliFile{good}, of, mustFail("-o with no value read"))
					add("-o, no arguments at all", []string{"-o", o}, nil, false, nil, of, mustFail("-o with no input"))
				}
				add("-o into a missing directory", []string{"-o", "nodir/out.json", prog, "ok.json"}, nil, false, []CliFile{good}, "nodir/out.json", mustFail("-o into a missing directory"))
				add("-o onto a directory", []string{"-o", "d", prog, "ok.json"}, nil, false, []CliFile{good, {Name: "d", Dir: true}}, "", mustFail("-o onto a directory"))
				add("unknown flag", []string{"-nosuchflag", prog, "ok.json"}, nil, false, []CliFile{good}, "", mustFail("unknown flag"))
				add("-r without a value", []string{prog, "ok.json", "-r"}, nil, false, []CliFile{good}, "", mustFail("-r taken as a file name"))
				add("-r as last flag", []string{"-r"}, nil, false, nil, "", mustFail("-r without value"))
				add("JSON error in the second file", []string{`{ print $ }`, "ok.json", "bad.json"}, nil, false, []CliFile{good, {Name: "bad.json", Data: []byte("[1,2")}}, "", func(i Resp) string {
					if w := mustFail("JSON error")(i); w != "" {
						return w
					}
					if !strings.Contains(string(i.Bytes("stderr")), "bad.json") {
						return "the diagnostic does not name the faulty file: " + short(string(i.Bytes("stderr")))
					}
					if !strings.Contains(string(i.Bytes("out")), "3") {
						return "the first file was not processed before the error"
					}
					return ""
				})
				add("syntax error in a selector", []string{"-r", "$.", prog, "ok.json"}, nil, false, []CliFile{good}, "", mustFail("selector syntax error"))
				add("runtime error in a selector", []string{"-r", "1 / 0", prog, "ok.json"}, nil, false, []CliFile{good}, "", mustFail("selector runtime error"))
				// sanity: the good paths succeed
				add("good: one file", []string{prog, "ok.json"}, nil, false, []CliFile{good}, "", func(i Resp) string {
					if w := c14Basic(i); w != "" {
						return w
					}
					if i["exit"] != "0" {
						return "plain run fails: " + short(string(i.Bytes("stderr")))
					}
					return ""
				})
				add("good: no arguments, no stdin data", nil, nil, false, nil, "", func(i Resp) string {
					if w := c14Basic(i); w != "" {
						return w
					}
					if i["exit"] != "0" || i["out"] != "-" {
						return "empty program on empty input: exit " + i["exit"]
					}
					return ""
				})
			}
		},
	})
}
