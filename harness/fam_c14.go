package main

// C14 — the command line is a faithful wrapper: -f, stdin, -r, -o, file order,
// exit code (cli/cli.go Run).
//
// The real binary (env JQAWK_BIN) is run through the `cli` request kind
// (impl_cli.go). The model answers `cli` requests too (Model/Cli.lean: flag
// parsing, an abstract working directory): binary cases are compared with it on
// exit, stdout, "stderr non-empty", and the content of the -o file after the run.
// Every scenario also carries the equivalent library `run` request; the binary
// is tied to it, and to its own variants, by Group relations:
//
//   cli-wrapper  one Group per scenario; first member = the binary with an inline
//                program; members: the library run (cli_equals_library), -f FILE
//                (dash_f_equals_inline), stdin <-> named file (stdin_equals_file),
//                -o - <-> -o FILE <-> no -o (o_file_equals_o_dash), and
//                -r E <-> BEGINFILE { $ = E } (r_equals_beginfile)
//   cli-order    files and -r selectors in argv order: expected stdout computed by
//                the generator
//   cli-faults   missing / directory / unwritable paths, -o with several inputs or
//                none, unreadable -f file, bad flags: exit != 0, diagnostic, no panic
//   cli-o-existing    -o FILE onto a file that already exists (longer / equal / shorter
//                than the new JSON, the input itself, read-only, ...) or cannot be made
//   cli-stdin-kinds   stdin as a pipe / a regular file (`< file`) / a socket / /dev/null / an
//                empty file / a closed descriptor: same answer as the pipe and the named file
//   cli-degenerate-progfile  -f FILE with an empty / blank / comment-only program file against the same
//                text inline, with 0-2 file arguments, -r and -o
//   cli-hostile-args  selectors, program texts, file names and flag values containing
//                commas, brackets, quotes, backslashes, blanks, dashes, '='; empty
//                arguments; flag look-alikes after the flags ended

import (
	"fmt"
	"math/rand"
	"os"
	"strconv"
	"strings"
)

type c14Prog struct {
	text       string
	usesFile   bool // mentions $file: excluded from stdin <-> file
	fileDollar bool // inspects $ in BEGINFILE/ENDFILE: excluded from -r <-> BEGINFILE
	// assignsRoot: a pattern rule assigns `$` unconditionally. With a path selector that hit
	// a missing location (`-r '$.list'` on an array) the root used to be a pending member and
	// the assignment failed or was lost, unlike after BEGINFILE { $ = E }; repaired in /repo
	// (bbf13a0), these programs are part of the -r <-> BEGINFILE relation at full strength.
	assignsRoot bool
}

var c14Progs = []c14Prog{
	{text: `{ print $ }`},
	{text: `{ print $file, $ }`, usesFile: true},
	{text: "BEGIN { print \"begin\" } { n++; print n, $ } END { print \"end\", n }"},
	{text: `$ is number && $ > 1`},
	{text: `$ is number { s += $ } END { print s }`},
	{text: `{ print $; x = 1 / 0 }`},
	{text: `$ is number { print 10 / $ }`},
	{text: `{ print `},
	{text: `BEGIN { exit } END { print "no" }`},
	{text: "{ if ($ is number && $ == 2) exit\n print $ }"},
	{text: `{ $ = [$, "seen"] }`, assignsRoot: true},
	{text: `$ is number { $ = $ * 2 }`},
	{text: `BEGINFILE { print "bf" } ENDFILE { print "ef" } { print "p", $ }`},
	{text: `BEGINFILE { print "bf", $ } ENDFILE { print "ef", $ }`, fileDollar: true},
	{text: "function f(x) { return x + 1 }\n$ is number { print f($) }"},
	{text: `{ printf("%s|%s\n", $file, $) }`, usesFile: true},
	{text: `END { print "é ✓", $file }`, usesFile: true},
	{text: `{ print 'single', "double" }`},
	{text: ``},
	{text: `$ is object { $.k = "v" }`},
	{text: `BEGIN { print "only begin" }`},
	{text: `{ print $.a, $.list }`},
	{text: `{ $ = null }`, assignsRoot: true},
	{text: "# a comment\n{ print $index, $ }"},
	{text: `ENDFILE { print }`, fileDollar: true},
	{text: `BEGINFILE { $ = [7, 8] } { print $ }`, fileDollar: true},
	{text: `{ print $ } END { x = u.v.w; print x; y = 1 % 0 }`},
}

var c14Sels = []string{"$", "$.a", "$[0]", "[$, 1]", "$.list", "{x: $}", "$.a.b", "$[1]", "[$.a, $.list]", "$.list[0]", "1 / 0", "$.", "[1, 2, 3]", "\"str\""}

var c14BadStreams = []string{"[1,2", `{"a":1} x`, "1 ] 2", "[1] nul", `"open`, "[1,]"}

func c14Stream(r *rand.Rand) []byte {
	if chance(r, 0.07) {
		return []byte(pick(r, c14BadStreams))
	}
	n := pick(r, []int{0, 1, 1, 1, 1, 1, 2, 2, 2, 3, 3})
	vals := make([]string, n)
	for i := range vals {
		vals[i], _ = c02Root(r)
	}
	s := strings.Join(vals, pick(r, []string{" ", "\n", "\n\n"}))
	if chance(r, 0.3) {
		s += "\n"
	}
	return []byte(s)
}

// flag spellings accepted by Go's flag package
func c14Flag(r *rand.Rand, name, val string) []string {
	switch r.Intn(4) {
	case 0:
		return []string{"-" + name + "=" + val}
	case 1:
		return []string{"--" + name, val}
	default:
		return []string{"-" + name, val}
	}
}

func c14Basic(i Resp) string {
	switch i["class"] {
	case "nobinary":
		return "JQAWK_BIN is not set: the binary was not run"
	case "badrequest", "crash", "garbled":
		return "harness problem running the binary: " + i.String()
	}
	if i["exit"] == "" {
		return ""
	}
	stderr := string(i.Bytes("stderr"))
	if strings.Contains(stderr, "goroutine ") || strings.Contains(stderr, "panic:") {
		return "the binary panicked: " + short(stderr)
	}
	if i["exit"] == "0" && i["errlen"] != "0" {
		return "exit status 0 with a diagnostic on stderr: " + short(stderr)
	}
	if i["exit"] != "0" && i["errlen"] == "0" {
		return "exit status " + i["exit"] + " without a diagnostic on stderr"
	}
	if i["exit"] != "0" && i["exit"] != "1" && i["exit"] != "2" {
		return "unexpected exit status " + i["exit"]
	}
	return ""
}

func c14NT(i Resp) bool {
	return i["exit"] != "" && (i["out"] != "-" || i["errlen"] != "0" || i["ofexists"] == "1")
}

// c14CliVsLib: the binary's answer against the library's for the same program,
// selectors and inputs. oMode: "" (no -o), "-" or a path; nInputs as cli.go counts them.
func c14CliVsLib(cli, lib Resp, oMode string, nInputs int) string {
	libOut := string(lib.Bytes("out"))
	cliOut := string(cli.Bytes("out"))
	switch lib["class"] {
	case "ok":
		js := ""
		if lib["json"] != "ERR" {
			js = string(lib.Bytes("json"))
		}
		fail := oMode != "" && (nInputs > 1 || lib["json"] == "ERR")
		if fail {
			if cli["exit"] == "0" {
				return "library run succeeds but -o cannot be honoured (several inputs / no value): exit status must not be 0"
			}
			if cliOut != libOut {
				return fmt.Sprintf("stdout %q, library output %q", cliOut, libOut)
			}
			return ""
		}
		if cli["exit"] != "0" {
			return "library run succeeds, binary exits with " + cli["exit"] + ": " + short(string(cli.Bytes("stderr")))
		}
		want := libOut
		if oMode == "-" {
			want += js
		}
		if cliOut != want {
			return fmt.Sprintf("stdout %q, expected %q (library output%s)", cliOut, want, map[bool]string{true: " followed by the JSON of the root", false: ""}[oMode == "-"])
		}
		if oMode != "" && oMode != "-" {
			if cli["ofexists"] != "1" {
				return "-o " + oMode + ": the file was not written"
			}
			if got := string(cli.Bytes("ofile")); got != js {
				return fmt.Sprintf("-o file holds %q, GetRootJson gives %q", got, js)
			}
		}
	case "syntax", "runtime", "json":
		if cli["exit"] == "0" {
			return "library reports a " + lib["class"] + " error, binary exits with status 0"
		}
		if cli["errlen"] == "0" {
			return "library reports a " + lib["class"] + " error, binary prints no diagnostic"
		}
		if cliOut != libOut {
			return fmt.Sprintf("stdout %q, library output before the error %q", cliOut, libOut)
		}
		if cli["ofexists"] == "1" {
			return "an -o file was written although the run failed"
		}
	default:
		return "library outcome " + lib["class"]
	}
	return ""
}

type c14Scenario struct {
	prog   c14Prog
	sels   []string
	mode   string // "stdin", "files", "none"
	stdin  []byte
	files  []CliFile // input files (regular or directory), in argv order
	oMode  string
	dashes bool // `--` before the program
}

func (sc *c14Scenario) nInputs() int {
	if sc.mode == "files" {
		return len(sc.files)
	}
	return 1 // <stdin>
}

func (sc *c14Scenario) libFiles() []File {
	if sc.mode != "files" {
		return []File{{Name: "<stdin>", Data: sc.stdin}}
	}
	var fs []File
	for _, f := range sc.files {
		fs = append(fs, File{Name: f.Name, Data: f.Data, IOErr: f.Dir})
	}
	return fs
}

// argv for the scenario; progFile != "": use -f progFile. sels/oMode/prog text may be overridden.
func (sc *c14Scenario) argv(r *rand.Rand, prog string, sels []string, oMode string, progFile string, fileNames []string) []string {
	var flags [][]string
	for _, s := range sels {
		flags = append(flags, c14Flag(r, "r", s))
	}
	var args []string
	// -o and -f go at a random place among the -r flags (the order of -r flags is kept)
	ins := func(f []string) {
		at := r.Intn(len(flags) + 1)
		flags = append(flags[:at], append([][]string{f}, flags[at:]...)...)
	}
	if oMode != "" {
		ins(c14Flag(r, "o", oMode))
	}
	if progFile != "" {
		ins(c14Flag(r, "f", progFile))
	}
	for _, f := range flags {
		args = append(args, f...)
	}
	if sc.dashes {
		args = append(args, "--")
	}
	if progFile == "" {
		args = append(args, prog)
	}
	return append(args, fileNames...)
}

func (sc *c14Scenario) fileNames() []string {
	var n []string
	if sc.mode == "files" {
		for _, f := range sc.files {
			n = append(n, f.Name)
		}
	}
	return n
}

func c14Scenarios(r *rand.Rand, n int, emit func(Case)) {
	modes := []string{"stdin", "one", "several", "one", "stdin", "several", "one", "none"}
	oModes := []string{"", "-", "out.json"}
	combo := 0
	for i := 0; i < n; i++ {
		// cycle through input mode x number of selectors x -o mode
		mode := modes[combo%8]
		nsel := (combo / 8) % 4
		oMode := oModes[(combo/32)%3]
		combo++
		sc := &c14Scenario{oMode: oMode, dashes: chance(r, 0.15)}
		if chance(r, 0.8) {
			sc.prog = pick(r, c14Progs)
		} else {
			files, firstArr, nvals := c02Inputs(r)
			_ = files
			g := &c02Gen{r: r, firstArr: firstArr, idxSafe: false, nvals: nvals, used: map[string]bool{}}
			t := g.program().text
			sc.prog = c14Prog{text: t, usesFile: strings.Contains(t, "$file"), fileDollar: true}
		}
		if strings.HasPrefix(sc.prog.text, "-") {
			sc.dashes = true
		}
		for k := 0; k < nsel; k++ {
			sel := pick(r, c14Sels)
			if (sel == "1 / 0" || sel == "$.") && chance(r, 0.6) {
				sel = "$"
			}
			sc.sels = append(sc.sels, sel)
		}
		switch mode {
		case "stdin":
			sc.mode, sc.stdin = "stdin", c14Stream(r)
		case "none":
			sc.mode = "none"
		case "one":
			sc.mode = "files"
			sc.files = []CliFile{{Name: pick(r, []string{"in.json", "sub/in.json", "data file.json", "é.json"}), Data: c14Stream(r)}}
		default:
			sc.mode = "files"
			names := []string{"z.json", "a.json", "m.json"}
			r.Shuffle(3, func(a, b int) { names[a], names[b] = names[b], names[a] })
			for k := 0; k < 2+r.Intn(2); k++ {
				sc.files = append(sc.files, CliFile{Name: names[k], Data: c14Stream(r)})
			}
			if chance(r, 0.1) {
				sc.files = append(sc.files, sc.files[0]) // the same file twice
			}
		}
		if sc.mode == "files" && chance(r, 0.06) {
			k := r.Intn(len(sc.files))
			sc.files[k] = CliFile{Name: "adir" + strconv.Itoa(k), Dir: true}
		}
		g := fmt.Sprintf("cli-%d", i)
		desc := fmt.Sprintf("input=%s sels=%v -o=%q", mode, sc.sels, oMode)
		var stdinData []byte
		hasStdin := sc.mode == "stdin"
		if hasStdin {
			stdinData = sc.stdin
		}
		var disk []CliFile
		seen := map[string]bool{}
		for _, f := range sc.files {
			if !seen[f.Name] {
				seen[f.Name] = true
				disk = append(disk, f)
			}
		}
		ofile := ""
		if oMode != "" && oMode != "-" {
			ofile = oMode
		}
		meta := func(argv []string, what string) map[string]string {
			m := metaProg(sc.prog.text, "argv", strings.Join(argv, " ␣ "), "scenario", desc, "variant", what)
			if hasStdin {
				m["stdin"] = strconv.Quote(string(stdinData))
			}
			for _, f := range disk {
				m["file "+f.Name] = strconv.Quote(string(f.Data))
				if f.Dir {
					m["file "+f.Name] = "(a directory)"
				}
			}
			return m
		}
		nIn := sc.nInputs()

		// first member: the binary, inline program
		baseArgv := sc.argv(r, sc.prog.text, sc.sels, oMode, "", sc.fileNames())
		emit(Case{ID: g + "/inline", Req: CliReq(baseArgv, stdinData, hasStdin, disk, ofile), Fields: c14CliFields, Group: g,
			Meta: meta(baseArgv, "binary, inline program (first member of the group)"), Oracle: c14Basic, NonTrivial: c14NT})

		// the library, compared with the model and tied to the binary
		emit(Case{ID: g + "/lib", Req: RunReq(sc.prog.text, sc.sels, sc.libFiles(), oMode != ""), Fields: []string{"class", "out", "json"}, Group: g,
			Meta: meta(nil, "library run of the same program, selectors and inputs"),
			GroupCheck: func(first, self Resp) string {
				if first["exit"] == "" {
					return ""
				}
				return c14CliVsLib(first, self, oMode, nIn)
			},
			Oracle: func(i Resp) string {
				switch i["class"] {
				case "sentinel", "panic", "other":
					return "library outcome " + i["class"] + " " + i["msg"]
				}
				return ""
			}})

		// -f FILE
		if chance(r, 0.7) {
			pf := pick(r, []string{"prog.jqawk", "p", "sub/prog.awk"})
			argv := sc.argv(r, "", sc.sels, oMode, pf, sc.fileNames())
			emit(Case{ID: g + "/dash-f", Req: CliReq(argv, stdinData, hasStdin, append(append([]CliFile{}, disk...), CliFile{Name: pf, Data: []byte(sc.prog.text)}), ofile), Fields: c14CliFields,
				Group: g, GroupFields: []string{"exit", "out", "stderr", "ofile", "ofexists"},
				Meta: meta(argv, "-f FILE instead of the inline program"), Oracle: c14Basic, NonTrivial: c14NT})
		}

		// stdin <-> the same bytes in a named file
		if !sc.prog.usesFile && (sc.mode == "stdin" || (sc.mode == "files" && len(sc.files) == 1 && !sc.files[0].Dir)) && chance(r, 0.8) {
			gf := []string{"exit", "out", "ofile", "ofexists"}
			if sc.mode == "stdin" {
				argv := sc.argv(r, sc.prog.text, sc.sels, oMode, "", []string{"named.json"})
				emit(Case{ID: g + "/as-file", Req: CliReq(argv, nil, false, []CliFile{{Name: "named.json", Data: sc.stdin}}, ofile), Fields: c14CliFields,
					Group: g, GroupFields: gf, Meta: meta(argv, "the stdin bytes in a named file"), Oracle: c14Basic, NonTrivial: c14NT})
			} else {
				argv := sc.argv(r, sc.prog.text, sc.sels, oMode, "", nil)
				emit(Case{ID: g + "/as-stdin", Req: CliReq(argv, sc.files[0].Data, true, nil, ofile), Fields: c14CliFields,
					Group: g, GroupFields: gf, Meta: meta(argv, "the file's bytes on stdin"), Oracle: c14Basic, NonTrivial: c14NT})
			}
		}

		// -o variants
		if chance(r, 0.6) {
			alt := pick(r, []string{"", "-", "other.json", "sub/o.json"})
			if alt == "sub/o.json" && !seen["sub/in.json"] && !seen["sub/prog.awk"] {
				alt = "o2.json" // the directory would not exist
			}
			if alt != oMode {
				argv := sc.argv(r, sc.prog.text, sc.sels, alt, "", sc.fileNames())
				altFile := ""
				if alt != "" && alt != "-" {
					altFile = alt
				}
				emit(Case{ID: g + "/o=" + alt, Req: CliReq(argv, stdinData, hasStdin, disk, altFile), Fields: c14CliFields, Group: g,
					Meta: meta(argv, fmt.Sprintf("-o %q instead of -o %q", alt, oMode)), Oracle: c14Basic, NonTrivial: c14NT,
					GroupCheck: func(first, self Resp) string { return c14OVariants(first, oMode, self, alt) }})
			}
		}

		// -r E  <->  BEGINFILE { $ = E }
		if len(sc.sels) == 1 && !sc.prog.fileDollar && sc.sels[0] != "$." {
			prog2 := "BEGINFILE { $ = " + sc.sels[0] + " }\n" + sc.prog.text
			argv := sc.argv(r, prog2, nil, oMode, "", sc.fileNames())
			emit(Case{ID: g + "/beginfile", Req: CliReq(argv, stdinData, hasStdin, disk, ofile), Fields: c14CliFields, Group: g,
				GroupFields: []string{"exit", "out", "ofile", "ofexists"},
				Meta:        meta(argv, "BEGINFILE { $ = E } instead of -r E"), Oracle: c14Basic, NonTrivial: c14NT})
		}
	}
}

// c14OVariants: the same run under two -o modes. What the program prints is the
// same; -o - appends the JSON that -o FILE writes into the file.
func c14OVariants(a Resp, aMode string, b Resp, bMode string) string {
	if a["exit"] == "" || b["exit"] == "" {
		return ""
	}
	split := func(x Resp, mode string) (prog string, js string, hasJS bool) {
		out := string(x.Bytes("out"))
		switch mode {
		case "":
			return out, "", false
		case "-":
			return out, "", false // cannot be split without the other side
		default:
			return out, string(x.Bytes("ofile")), x["ofexists"] == "1"
		}
	}
	ao, aj, ah := split(a, aMode)
	bo, bj, bh := split(b, bMode)
	aFile, bFile := aMode != "" && aMode != "-", bMode != "" && bMode != "-"
	switch {
	case aMode == "-" && bFile:
		if a["exit"] != b["exit"] {
			return fmt.Sprintf("exit status %s with -o -, %s with -o %s", a["exit"], b["exit"], bMode)
		}
		if ao != bo+bj {
			return fmt.Sprintf("-o - prints %q; program output %q plus -o FILE content %q expected", ao, bo, bj)
		}
		if a["exit"] == "0" && !bh {
			return "-o FILE: exit 0 but no file written"
		}
	case bMode == "-" && aFile:
		return c14OVariants(b, bMode, a, aMode)
	case aFile && bFile:
		if a["exit"] != b["exit"] || ao != bo || aj != bj || ah != bh {
			return fmt.Sprintf("-o %s and -o %s differ: exit %s/%s stdout %q/%q file %q/%q", aMode, bMode, a["exit"], b["exit"], ao, bo, aj, bj)
		}
	case aMode == "" && bFile, bMode == "" && aFile:
		// without -o the run can only be more successful; stdout is the same
		if ao != bo {
			return fmt.Sprintf("stdout differs with and without -o FILE: %q vs %q", ao, bo)
		}
		with, without := a, b
		if aMode == "" {
			with, without = b, a
		}
		if without["exit"] != "0" && with["exit"] == "0" {
			return "the run fails without -o but succeeds with -o FILE"
		}
	case aMode == "" && bMode == "-", aMode == "-" && bMode == "":
		with, without := a, b
		if aMode == "" {
			with, without = b, a
		}
		wo, no := string(with.Bytes("out")), string(without.Bytes("out"))
		if !strings.HasPrefix(wo, no) {
			return fmt.Sprintf("-o - output %q does not start with the program's own output %q", wo, no)
		}
		if without["exit"] != "0" && with["exit"] == "0" {
			return "the run fails without -o but succeeds with -o -"
		}
	}
	return ""
}

// fields of a `cli` answer compared between the real binary and the model of the wrapper
var c14CliFields = []string{"exit", "out", "err", "ofile", "ofexists"}

func init() {
	noBin := func(emit func(Case)) bool {
		if os.Getenv("JQAWK_BIN") != "" {
			return false
		}
		emit(Case{ID: "no-binary", Req: "cli - - - -", ImplOnly: true, Oracle: c14Basic,
			Meta: map[string]string{"problem": "env JQAWK_BIN is not set; the C14 families run the real binary"}})
		return true
	}

	register(Family{
		Name: "cli-wrapper", Prop: "C14",
		Rule: "scenarios cycling through stdin / one file / several files / no input x 0-3 -r selectors x -o absent / - / path, with programs from a pool (succeeding, failing at syntax/runtime/JSON level, exiting, rewriting the root) and random C02 programs; per scenario one Group: binary with inline program (first), library run of the same request (compared with the model; tied to the binary: exit 0 <=> class ok, stdout, -o content = json), -f FILE, stdin <-> named file, other -o modes, -r E <-> BEGINFILE { $ = E }; non-trivial = the binary ran and produced stdout, stderr or an -o file",
		Gen: func(r *rand.Rand, tier string, emit func(Case)) {
			if noBin(emit) {
				return
			}
			c14Scenarios(r, tierN(tier, 96, 6500), emit)
		},
	})

	register(Family{
		Name: "cli-order", Prop: "C14",
		Rule: "1-3 files holding distinct numbers under keys a, b, c, 0-3 -r selectors in random order, program { print $file, $ }: stdout must list file x value x selector in argv order (expected text computed by the generator); also compared with the library run",
		Gen: func(r *rand.Rand, tier string, emit func(Case)) {
			if noBin(emit) {
				return
			}
			for i := 0; i < tierN(tier, 40, 1500); i++ {
				nf := 1 + r.Intn(3)
				names := []string{"z.json", "a.json", "m.json", "b/k.json"}
				r.Shuffle(len(names), func(a, b int) { names[a], names[b] = names[b], names[a] })
				keys := []string{"a", "b", "c"}
				selPool := []string{"$.a", "$.b", "$.c[0]"}
				r.Shuffle(3, func(a, b int) { selPool[a], selPool[b] = selPool[b], selPool[a] })
				sels := selPool[:r.Intn(4)]
				var files []CliFile
				var lib []File
				var want strings.Builder
				for f := 0; f < nf; f++ {
					nv := 1 + r.Intn(2)
					var data strings.Builder
					for v := 0; v < nv; v++ {
						base := (f*2+v)*10 + 10
						data.WriteString(fmt.Sprintf(`{"b": %d, "a": %d, "c": [%d]}`, base+2, base+1, base+3) + pick(r, []string{" ", "\n"}))
						if len(sels) == 0 {
							fmt.Fprintf(&want, "%s {\"a\": %d, \"b\": %d, \"c\": [%d]}\n", names[f], base+1, base+2, base+3)
						}
						for _, s := range sels {
							k := 0
							for j, key := range keys {
								if strings.HasPrefix(s, "$."+key) {
									k = j + 1
								}
							}
							fmt.Fprintf(&want, "%s %d\n", names[f], base+k)
						}
					}
					files = append(files, CliFile{Name: names[f], Data: []byte(data.String())})
					lib = append(lib, File{Name: names[f], Data: []byte(data.String())})
				}
				prog := `{ print $file, $ }`
				var argv []string
				for _, s := range sels {
					argv = append(argv, c14Flag(r, "r", s)...)
				}
				argv = append(argv, prog)
				for _, f := range files {
					argv = append(argv, f.Name)
				}
				expected := want.String()
				g := fmt.Sprintf("order-%d", i)
				emit(Case{ID: g + "/cli", Req: CliReq(argv, nil, false, files, ""), Fields: c14CliFields, Group: g, NonTrivial: c14NT,
					Meta: metaProg(prog, "argv", strings.Join(argv, " ␣ "), "expected", expected),
					Oracle: func(i Resp) string {
						if w := c14Basic(i); w != "" {
							return w
						}
						if i["exit"] != "0" {
							return "exit status " + i["exit"] + ": " + short(string(i.Bytes("stderr")))
						}
						if got := string(i.Bytes("out")); got != expected {
							return fmt.Sprintf("files/selectors not processed in argv order: stdout %q, expected %q", got, expected)
						}
						return ""
					}})
				emit(Case{ID: g + "/lib", Req: RunReq(prog, sels, lib, false), Fields: []string{"class", "out"}, Group: g,
					Meta:       metaProg(prog, "selectors", strings.Join(sels, " | ")),
					GroupCheck: func(first, self Resp) string { return c14CliVsLib(first, self, "", len(lib)) }})
			}
		},
	})

	register(Family{
		Name: "cli-faults", Prop: "C14",
		Rule: "the error paths of the wrapper: missing input file (alone, first, last), directory as input, missing or directory -f file, -o with 2-3 input files, -o with no input at all (empty stdin, BEGIN-only program, exit in BEGIN), -o into a missing directory / onto a directory, unknown flag, -r without a value: exit status != 0, a diagnostic on stderr, no panic; where the library has a counterpart it is run too",
		Gen: func(r *rand.Rand, tier string, emit func(Case)) {
			if noBin(emit) {
				return
			}
			good := CliFile{Name: "ok.json", Data: []byte("[1,2,3]\n")}
			good2 := CliFile{Name: "ok2.json", Data: []byte(`{"a":1}`)}
			mustFail := func(what string) func(Resp) string {
				return func(i Resp) string {
					if w := c14Basic(i); w != "" {
						return w
					}
					if i["exit"] == "0" {
						return what + ": exit status 0"
					}
					if i["errlen"] == "0" {
						return what + ": no diagnostic on stderr"
					}
					return ""
				}
			}
			n := 0
			add := func(what string, argv []string, stdin []byte, hasStdin bool, files []CliFile, ofile string, oracle func(Resp) string) {
				n++
				emit(Case{ID: fmt.Sprintf("fault-%d", n), Req: CliReq(argv, stdin, hasStdin, files, ofile), Fields: c14CliFields, NonTrivial: c14NT,
					Meta: map[string]string{"what": what, "argv": strings.Join(argv, " ␣ ")}, Oracle: oracle})
			}
			rounds := tierN(tier, 2, 3)
			for round := 0; round < rounds; round++ {
				prog := pick(r, []string{`{ print $ }`, `BEGIN { print "b" } { print $ } END { print "e" }`, `{ n++ } END { print n }`})
				add("missing input file", []string{prog, "nope.json"}, nil, false, nil, "", mustFail("missing input file"))
				add("missing input file after a good one", []string{prog, "ok.json", "nope.json"}, nil, false, []CliFile{good}, "", mustFail("missing input file"))
				add("missing input file before a good one", []string{prog, "nope.json", "ok.json"}, nil, false, []CliFile{good}, "", mustFail("missing input file"))
				add("directory as input", []string{prog, "d"}, nil, false, []CliFile{{Name: "d", Dir: true}}, "", mustFail("directory as input"))
				add("directory after a good file", []string{prog, "ok.json", "d"}, nil, false, []CliFile{good, {Name: "d", Dir: true}}, "", mustFail("directory as input"))
				add("-f names a missing file", []string{"-f", "nope.awk", "ok.json"}, nil, false, []CliFile{good}, "", mustFail("missing -f file"))
				add("-f names a directory", []string{"-f", "d", "ok.json"}, nil, false, []CliFile{good, {Name: "d", Dir: true}}, "", mustFail("-f directory"))
				for _, o := range []string{"-", "out.json"} {
					of := ""
					if o != "-" {
						of = o
					}
					add("-o with two input files", []string{"-o", o, prog, "ok.json", "ok2.json"}, nil, false, []CliFile{good, good2}, of, mustFail("-o with several input files"))
					add("-o with three input files", []string{"-o", o, prog, "ok.json", "ok2.json", "ok.json"}, nil, false, []CliFile{good, good2}, of, mustFail("-o with several input files"))
					add("-o with no input (no stdin data)", []string{"-o", o, prog}, nil, false, nil, of, mustFail("-o with no input"))
					add("-o with empty stdin", []string{"-o", o, prog}, []byte{}, true, nil, of, mustFail("-o with no input"))
					add("-o with whitespace-only stdin", []string{"-o", o, prog}, []byte(" \n"), true, nil, of, mustFail("-o with no input"))
					add("-o with an empty file", []string{"-o", o, prog, "empty.json"}, nil, false, []CliFile{{Name: "empty.json"}}, of, mustFail("-o with no input"))
					add("-o, BEGIN-only program that exits", []string{"-o", o, `BEGIN { print "x"; exit }`, "ok.json"}, nil, false, []CliFile{good}, of, mustFail("-o with no value read"))
					add("-o, no arguments at all", []string{"-o", o}, nil, false, nil, of, mustFail("-o with no input"))
				}
				add("-o into a missing directory", []string{"-o", "nodir/out.json", prog, "ok.json"}, nil, false, []CliFile{good}, "nodir/out.json", mustFail("-o into a missing directory"))
				add("-o onto a directory", []string{"-o", "d", prog, "ok.json"}, nil, false, []CliFile{good, {Name: "d", Dir: true}}, "", mustFail("-o onto a directory"))
				add("unknown flag", []string{"-nosuchflag", prog, "ok.json"}, nil, false, []CliFile{good}, "", mustFail("unknown flag"))
				add("-r without a value", []string{prog, "ok.json", "-r"}, nil, false, []CliFile{good}, "", mustFail("-r taken as a file name"))
				add("-r as last flag", []string{"-r"}, nil, false, nil, "", mustFail("-r without value"))
				add("JSON error in the second file", []string{`{ print $ }`, "ok.json", "bad.json"}, nil, false, []CliFile{good, {Name: "bad.json", Data: []byte("[1,2")}}, "", func(i Resp) string {
					if w := mustFail("JSON error")(i); w != "" {
						return w
					}
					if !strings.Contains(string(i.Bytes("stderr")), "bad.json") {
						return "the diagnostic does not name the faulty file: " + short(string(i.Bytes("stderr")))
					}
					if !strings.Contains(string(i.Bytes("out")), "3") {
						return "the first file was not processed before the error"
					}
					return ""
				})
				add("syntax error in a selector", []string{"-r", "$.", prog, "ok.json"}, nil, false, []CliFile{good}, "", mustFail("selector syntax error"))
				add("runtime error in a selector", []string{"-r", "1 / 0", prog, "ok.json"}, nil, false, []CliFile{good}, "", mustFail("selector runtime error"))
				// sanity: the good paths succeed
				add("good: one file", []string{prog, "ok.json"}, nil, false, []CliFile{good}, "", func(i Resp) string {
					if w := c14Basic(i); w != "" {
						return w
					}
					if i["exit"] != "0" {
						return "plain run fails: " + short(string(i.Bytes("stderr")))
					}
					return ""
				})
				add("good: no arguments, no stdin data", nil, nil, false, nil, "", func(i Resp) string {
					if w := c14Basic(i); w != "" {
						return w
					}
					if i["exit"] != "0" || i["out"] != "-" {
						return "empty program on empty input: exit " + i["exit"]
					}
					return ""
				})
			}
		},
	})
}

// ---------------------------------------------------------------------------------------
// cli-o-existing: -o FILE onto a path that already exists (or cannot be created)
// cli-hostile-args: selectors, program texts, file names and flag values full of the
//                   characters a command-line front end might be tempted to interpret
// ---------------------------------------------------------------------------------------

// c14InProc runs a library request inside the generator (to learn, e.g., how long the JSON
// that -o will write is, so that pre-existing files can be made longer / equal / shorter).
func c14InProc(prog string, sels []string, files []File, wantJSON bool) Resp {
	return ParseResp(implAnswer(RunReq(prog, sels, files, wantJSON)))
}

var c14OProgs = []string{
	`{ }`, `{ }`, ``, `{ $ = null }`, `{ $ = 1 }`, `{ $ = $.id }`, `{ $ = [$, $, $] }`, `$ is object { $ = $.pluck("id") }`,
	`$ is object { $.added = "a fairly long string value that makes the document grow by quite a few bytes" }`,
	`$ is object { $.notes = 0 }`, `BEGINFILE { $ = 1 }`, `BEGINFILE { $ = {} }`, `BEGINFILE { $ = [] }`, `BEGINFILE { $ = [$, [$]] }`,
	`{ print "seen", $index }`, `END { print "done" }`, `BEGIN { print "start" } $ is object { $.n = $index }`,
	`{ $ = "%d 100% %s" }`,
	// failing runs: the file must be left alone
	`{ x = 1 / 0 }`, `{ print `, `BEGIN { exit }`, `$ is object { $.self = $ }`, `{ print "before"; x = nope() }`,
}

func c14ODoc(r *rand.Rand) string {
	var doc string
	switch r.Intn(5) {
	case 0, 1:
		n := 1 + r.Intn(4)
		recs := make([]string, n)
		for i := range recs {
			recs[i] = fmt.Sprintf(`{"id": %d, "name": %s, "notes": %s}`, i+1, jsonString(pick(r, []string{"Beth", "Kathy", "é", ""})),
				jsonString(strings.Repeat(pick(r, []string{"x", "free text ", "50% ", "ab"}), r.Intn(12))))
		}
		doc = "[" + strings.Join(recs, pick(r, []string{",", ",\n  ", ", "})) + "]"
	case 2:
		doc = fmt.Sprintf(`{"id": 7, "name": "solo", "notes": %s, "list": [1, 2, 3]}`, jsonString(strings.Repeat("n", r.Intn(80))))
	case 3:
		doc, _ = c02Root(r)
	default:
		doc = genJSON(r, defaultJSONCfg(), 0)
	}
	switch r.Intn(4) {
	case 0:
		doc += "\n"
	case 1:
		doc = " " + doc + strings.Repeat(" \n", r.Intn(40)) // padded: the input is longer than what -o writes
	}
	if chance(r, 0.08) {
		v, _ := c02Root(r)
		doc = v + "\n" + doc // two values: -o writes the last one
	}
	return doc
}

func c14Filler(n int) []byte {
	if n <= 0 {
		return []byte{}
	}
	return []byte(strings.Repeat("OLD-CONTENT-OF-THE-FILE\n", n/24+1)[:n])
}

func c14MustFail(what string) func(Resp) string {
	return func(i Resp) string {
		if w := c14Basic(i); w != "" {
			return w
		}
		if i["exit"] == "0" {
			return what + ": exit status 0"
		}
		if i["errlen"] == "0" {
			return what + ": no diagnostic on stderr"
		}
		return ""
	}
}

func c14OExisting(r *rand.Rand, n int, emit func(Case)) {
	kinds := []string{"longer", "shorter", "equal", "longer", "inplace", "empty", "inplace", "longer-by-1", "shorter-by-1", "huge", "readonly", "dir", "missingdir", "notdir", "subdir", "devfull", "devnull", "progfile"}
	for i := 0; i < n; i++ {
		kind := kinds[i%len(kinds)]
		prog := pick(r, c14OProgs)
		doc := c14ODoc(r)
		inName := pick(r, []string{"data.json", "in.json", "sub/in.json", "a b.json"})
		useStdin := kind != "inplace" && chance(r, 0.3)
		lib := []File{{Name: inName, Data: []byte(doc)}}
		if useStdin {
			lib[0].Name = "<stdin>"
		}
		ref := c14InProc(prog, nil, lib, true)
		js, hasJS := "", false
		if ref["class"] == "ok" && ref["json"] != "ERR" {
			js, hasJS = string(ref.Bytes("json")), true
		}
		L := len(js)
		if !hasJS {
			L = 10 + r.Intn(60)
		}
		var disk []CliFile
		if !useStdin {
			disk = append(disk, CliFile{Name: inName, Data: []byte(doc)})
		}
		target := pick(r, []string{"out.json", "result", "o,1.json", "-o.json"})
		var pre []byte
		preExists, writable, modelled := true, true, true
		progFile := ""
		switch kind {
		case "longer":
			pre = c14Filler(L + 2 + r.Intn(3*L+40))
		case "longer-by-1":
			pre = c14Filler(L + 1)
		case "shorter":
			pre = c14Filler(1 + r.Intn(L+1)*9/10)
		case "shorter-by-1":
			pre = c14Filler(L - 1)
		case "equal":
			pre = c14Filler(L)
		case "huge":
			pre = c14Filler(70000 + r.Intn(5000))
		case "empty":
			pre = []byte{}
		case "inplace":
			target, pre = inName, []byte(doc)
		case "readonly":
			pre = c14Filler(L + 20)
			modelled = false
		case "dir":
			writable = false
		case "missingdir":
			target, preExists, writable = "nodir/"+target, false, false
		case "notdir":
			// a path through a regular file
			target, preExists, writable = "blocker/out.json", false, false
			disk = append(disk, CliFile{Name: "blocker", Data: []byte("a regular file")})
		case "subdir":
			// a new file in a directory that exists
			target, preExists = "outdir/"+target, false
			disk = append(disk, CliFile{Name: "outdir", Dir: true})
		case "devfull":
			target, preExists, modelled = "/dev/full", false, false
		case "devnull":
			target, preExists, modelled = "/dev/null", false, false
		case "progfile":
			// the program comes from a file and -o overwrites that very file
			progFile = "prog.jqawk"
			target, pre = progFile, []byte(prog)
			disk = append(disk, CliFile{Name: progFile, Data: []byte(prog)})
		}
		switch {
		case kind == "dir":
			disk = append(disk, CliFile{Name: target, Dir: true})
		case kind == "inplace" || kind == "progfile":
		case preExists:
			disk = append(disk, CliFile{Name: target, Data: pre, ReadOnly: kind == "readonly"})
		}
		var stdin []byte
		if useStdin {
			stdin = []byte(doc)
		}
		mkArgv := func(o string) []string {
			var a []string
			a = append(a, c14Flag(r, "o", o)...)
			if progFile != "" {
				a = append(a, c14Flag(r, "f", progFile)...)
			} else {
				a = append(a, prog)
			}
			if !useStdin {
				a = append(a, inName)
			}
			return a
		}
		g := fmt.Sprintf("oex-%d", i)
		meta := func(argv []string, what string) map[string]string {
			return metaProg(prog, "argv", strings.Join(argv, " ␣ "), "target", kind, "variant", what, "input", strconv.Quote(doc),
				"pre-existing content", fmt.Sprintf("%d bytes", len(pre)), "JSON expected", fmt.Sprintf("%d bytes", len(js)))
		}
		dashArgv := mkArgv("-")
		emit(Case{ID: g + "/o-dash", Req: CliReq(dashArgv, stdin, useStdin, disk, ""), Fields: c14CliFields, Group: g,
			Meta: meta(dashArgv, "-o - (reference of the group)"), Oracle: c14Basic, NonTrivial: c14NT})
		argv := mkArgv(target)
		ofile := target
		if strings.HasPrefix(target, "/dev/") {
			ofile = ""
		}
		preCopy := append([]byte{}, pre...)
		c := Case{ID: g + "/" + kind, Req: CliReq(argv, stdin, useStdin, disk, ofile), Fields: c14CliFields, Group: g, ImplOnly: !modelled,
			Meta: meta(argv, "-o onto: "+kind), NonTrivial: c14NT}
		switch {
		case kind == "devfull":
			c.GroupCheck = func(first, self Resp) string {
				if first["exit"] == "0" && (self["exit"] == "0" || self["errlen"] == "0") {
					return "writing the JSON to /dev/full fails (no space): expected a diagnostic and a non-zero exit status, got exit " + self["exit"]
				}
				return ""
			}
			c.Oracle = c14Basic
		case kind == "devnull":
			c.GroupCheck = func(first, self Resp) string {
				if first["exit"] != self["exit"] {
					return fmt.Sprintf("exit status %s with -o -, %s with -o /dev/null", first["exit"], self["exit"])
				}
				if fo, so := string(first.Bytes("out")), string(self.Bytes("out")); !strings.HasPrefix(fo, so) {
					return fmt.Sprintf("stdout with -o /dev/null %q is not the program's own part of %q", so, fo)
				}
				return ""
			}
			c.Oracle = c14Basic
		case !writable:
			c.Oracle = c14MustFail("-o onto " + kind)
			c.GroupCheck = func(first, self Resp) string {
				if fo, so := string(first.Bytes("out")), string(self.Bytes("out")); !strings.HasPrefix(fo, so) {
					return fmt.Sprintf("stdout %q is not the program's own part of the -o - output %q", so, fo)
				}
				return ""
			}
		default:
			c.GroupCheck = func(first, self Resp) string {
				if kind == "readonly" && self["wdenied"] == "1" {
					if self["exit"] == "0" || self["errlen"] == "0" {
						return "the -o file cannot be written: expected a diagnostic and a non-zero exit status"
					}
					if string(self.Bytes("ofile")) != string(preCopy) {
						return "the read-only -o file was modified"
					}
					return ""
				}
				if first["exit"] != "0" || self["exit"] != "0" {
					// a failed run: same status, same output; the file is the oracle's business
					if first["exit"] != self["exit"] {
						return fmt.Sprintf("exit status %s with -o -, %s with -o %s", first["exit"], self["exit"], target)
					}
					if fo, so := string(first.Bytes("out")), string(self.Bytes("out")); fo != so {
						return fmt.Sprintf("failed run: stdout %q with -o -, %q with -o %s", fo, so, target)
					}
					return ""
				}
				return c14OVariants(first, "-", self, target)
			}
			c.Oracle = func(i Resp) string {
				if w := c14Basic(i); w != "" {
					return w
				}
				if i["exit"] != "" && i["exit"] != "0" && preExists {
					// a failed run writes nothing: the file is as it was
					if i["ofexists"] != "1" || string(i.Bytes("ofile")) != string(preCopy) {
						return fmt.Sprintf("the run failed (exit %s) but the existing -o file was changed: now %d bytes %q, before %d bytes", i["exit"], len(i.Bytes("ofile")), short(string(i.Bytes("ofile"))), len(preCopy))
					}
				}
				if i["exit"] == "0" && hasJS && string(i.Bytes("ofile")) != js {
					return fmt.Sprintf("-o file holds %d bytes %q, GetRootJson of the library gives %d bytes %q", len(i.Bytes("ofile")), short(string(i.Bytes("ofile"))), len(js), short(js))
				}
				return ""
			}
		}
		emit(c)
	}
}

// ---- hostile selectors ---------------------------------------------------------------

var c14HostileStrs = []string{", ", "a,b", ",", ",,", ")", "(", "[", "]", "{", "}", "([{", "}])", "),(", "],[", "a=b", "=", "-x", "--", "-", " ", "  two  spaces ", "# no comment", "/", "%s", "é,日本", "$", ";", "\\\\", "\\n", "\\t,", "x\\\\,", "k,1", "", "'", "\"", "it's, ok", "say \"hi\", ok", "[\"", "'}"}

func c14HostileStrLit(r *rand.Rand) string {
	s := pick(r, c14HostileStrs)
	switch {
	case strings.Contains(s, "'"):
		return `"` + s + `"`
	case strings.Contains(s, `"`):
		return "'" + s + "'"
	case chance(r, 0.5):
		return `"` + s + `"`
	}
	return "'" + s + "'"
}

var c14HostileRegex = []string{"/a,b/", "/[,]/", "/x{1,2}/", "/(a|b),/", "/[)}]/", "/ /", "/=/", "/\"/", "/'/", "/,/", "/(,)/", "/[(]/", "/a|,|b/", "/^-/", "/[[]/", "/\\d,\\d/", "/{/"}

type c14SelGen struct{ r *rand.Rand }

func (g *c14SelGen) atom() string {
	r := g.r
	switch r.Intn(12) {
	case 0, 1:
		return pick(r, []string{"$", "$.a", "$.s", "$.list", "$.list[0]", "$.list[1]", "$.o.k", `$["a"]`, `$['k,1']`, `$["x y"]`, "$.nope"})
	case 2, 3, 4, 5:
		return c14HostileStrLit(r)
	case 6:
		return pick(r, c14HostileRegex)
	case 7:
		return pick(r, []string{"0", "1", "2.5", "10", "true", "false", "null", "u"})
	case 8:
		return "-" + pick(r, []string{"1", " 1", "$.a", "2.5"})
	default:
		return pick(r, []string{"$.s", "$.a", "$"})
	}
}

func (g *c14SelGen) expr(d int) string {
	r := g.r
	if d <= 0 || chance(r, 0.25) {
		return g.atom()
	}
	d--
	sp := func() string { return pick(r, []string{" ", " ", "", "  ", "\t", "\n "}) }
	switch r.Intn(22) {
	case 0, 1, 2:
		return g.expr(d) + sp() + "+" + sp() + c14HostileStrLit(r) + sp() + "+" + sp() + g.expr(d)
	case 3:
		return g.expr(d) + " " + pick(r, []string{"~", "!~"}) + " " + pick(r, c14HostileRegex)
	case 4:
		return g.expr(d) + " " + pick(r, []string{"==", "!=", "&&", "||"}) + " " + g.expr(d)
	case 5, 6:
		n := r.Intn(4)
		parts := make([]string, n)
		for i := range parts {
			parts[i] = g.expr(d)
		}
		return "[" + strings.Join(parts, ","+sp()) + "]"
	case 7, 8:
		n := 1 + r.Intn(3)
		parts := make([]string, n)
		for i := range parts {
			key := pick(r, []string{"k", "a", `"k,2"`, `'('`, `"]"`, `'a=b'`, `"-k"`, "k" + fmt.Sprint(i)})
			parts[i] = key + ":" + sp() + g.expr(d)
		}
		return "{" + strings.Join(parts, ","+sp()) + "}"
	case 9:
		return c14HostileStrLit(r) + ".split(" + pick(r, []string{`","`, `', '`, `"="`, `")"`, `"["`}) + ")"
	case 10:
		return pick(r, []string{"$", "$.o", "{a: 1, b: ',', c: 3}"}) + ".pluck(" + pick(r, []string{`"a", "b"`, `'k,1', "a"`, `"a","x y",'s'`, `"k"`}) + ")"
	case 11:
		return "[" + g.expr(d) + ", " + g.expr(d) + "].contains(" + g.expr(d) + ")"
	case 12:
		return "(" + sp() + g.expr(d) + sp() + ")"
	case 13:
		return pick(r, []string{"json", "num"}) + "(" + g.expr(d) + ")"
	case 14:
		return "match (" + g.expr(d) + ") { 1, 2 => " + g.expr(d) + ", " + c14HostileStrLit(r) + " => " + g.expr(d) + ", x => " + pick(r, []string{"x", "[x, x]", "x + ', '"}) + " }"
	case 15:
		return "[" + g.expr(d) + ", " + g.expr(d) + "][" + pick(r, []string{"0", "1", "-1"}) + "]"
	case 16:
		return "{k: " + g.expr(d) + ", 'j,': 2}" + pick(r, []string{".k", `["k"]`, `['j,']`})
	case 17:
		return c14HostileStrLit(r) + pick(r, []string{".length()", ".upper()", ".lower()"})
	case 18:
		return "!" + g.expr(d)
	case 19:
		return pick(r, []string{"x", "y.z", "$.w"}) + " = " + g.expr(d)
	case 20:
		return g.expr(d) + pick(r, []string{" # c, [", "  # ) trailing ' comment", " #"})
	default:
		return g.expr(d) + sp() + pick(r, []string{"+", "-", "*", "<", ">="}) + sp() + g.expr(d)
	}
}

// ill-formed selectors (and ones a comma-splitter would turn into something well-formed)
var c14BadSels = []string{"[1, 2", ")", "$.a,", ",", "a,b", "1, 2", "", " ", "$.a, $.list", "$.list[0,1]", "'a', 'b'", "\"unterminated, ", "/unterminated,", "{k: 1", "$.a]", "(1", "f(1, 2", "$,$", ",$", "$ $", "--", "-", "=", "-r", "$.a -r $.list"}

const c14SelDoc = `{"a": 1, "s": "x,y", "list": [10, "l,1", {"a": 2}], "o": {"k": "v", "a": 5}, "k,1": "comma key", "x y": [1]}`

func c14HostileSelectors(r *rand.Rand, n int, emit func(Case)) {
	gen := &c14SelGen{r: r}
	progs := []c14Prog{{text: `{ print $ }`}, {text: `{ print "v:", $ }`}, {text: `{ }`}, {text: `END { print "end" }`}, {text: "BEGIN { print \"b\" }\n{ print $, $ }"}, {text: `$ is string { print "str", $.length() }`}}
	for i := 0; i < n; i++ {
		nsel := pick(r, []int{1, 1, 1, 1, 2, 2, 3})
		var sels []string
		wellFormed := true
		for k := 0; k < nsel; k++ {
			if chance(r, 0.12) {
				sels = append(sels, pick(r, c14BadSels))
				wellFormed = false
			} else {
				s := gen.expr(1 + r.Intn(3))
				if chance(r, 0.1) {
					s = pick(r, []string{" ", "\t", "\n"}) + s + pick(r, []string{" ", "\n", ""})
				}
				sels = append(sels, s)
			}
		}
		if nsel >= 2 && chance(r, 0.15) {
			sels[nsel-1] = sels[0] // the same selector twice: both count
		}
		prog := pick(r, progs)
		oMode := pick(r, []string{"", "", "-", "-", "out.json"})
		doc := c14SelDoc
		if chance(r, 0.3) {
			doc = "[" + c14SelDoc + ", {\"a\": \"second\", \"s\": \",\"}]"
		}
		if chance(r, 0.15) {
			doc += "\n" + pick(r, []string{`"x,y"`, `[1, 2]`, `{"a": ","}`})
		}
		useStdin := chance(r, 0.3)
		name := pick(r, []string{"in.json", "a,b.json", "x=y.json"})
		var disk []CliFile
		var names []string
		lib := []File{{Name: "<stdin>", Data: []byte(doc)}}
		var stdin []byte
		if useStdin {
			stdin = []byte(doc)
		} else {
			disk = []CliFile{{Name: name, Data: []byte(doc)}}
			names = []string{name}
			lib[0].Name = name
		}
		ofile := ""
		if oMode != "" && oMode != "-" {
			ofile = oMode
		}
		sc := &c14Scenario{prog: prog}
		g := fmt.Sprintf("hsel-%d", i)
		meta := func(argv []string, what string) map[string]string {
			return metaProg(prog.text, "argv", strings.Join(argv, " ␣ "), "selectors", strings.Join(sels, " ␣ "), "variant", what, "input", doc, "-o", oMode)
		}
		argv := sc.argv(r, prog.text, sels, oMode, "", names)
		emit(Case{ID: g + "/inline", Req: CliReq(argv, stdin, useStdin, disk, ofile), Fields: c14CliFields, Group: g,
			Meta: meta(argv, "binary (first member of the group)"), Oracle: c14Basic, NonTrivial: c14NT})
		if !(nsel == 1 && sels[0] == "") { // a single empty selector cannot be written in a run request
			emit(Case{ID: g + "/lib", Req: RunReq(prog.text, sels, lib, oMode != ""), Fields: []string{"class", "out", "json"}, Group: g,
				Meta:       meta(nil, "library run with the same selectors, unsplit and in order"),
				GroupCheck: func(first, self Resp) string { return c14CliVsLib(first, self, oMode, 1) }})
		}
		// another spelling of the flags
		argv2 := sc.argv(r, prog.text, sels, oMode, "", names)
		if strings.Join(argv2, "\x00") != strings.Join(argv, "\x00") {
			emit(Case{ID: g + "/respelled", Req: CliReq(argv2, stdin, useStdin, disk, ofile), Fields: c14CliFields, Group: g,
				GroupFields: []string{"exit", "out", "stderr", "ofile", "ofexists"}, Meta: meta(argv2, "the flags spelled / placed differently"), Oracle: c14Basic, NonTrivial: c14NT})
		}
		// the README's equivalence is about expressions: a text that does not parse as one (a
		// line break outside brackets ends it; `=> {` starts a block) fails later as a selector
		// than as part of the program
		if nsel == 1 && wellFormed && c14InProc("{ }", sels, lib, false)["class"] != "syntax" {
			prog2 := "BEGINFILE { $ = " + sels[0] + "\n}\n" + prog.text
			argv3 := sc.argv(r, prog2, nil, oMode, "", names)
			emit(Case{ID: g + "/beginfile", Req: CliReq(argv3, stdin, useStdin, disk, ofile), Fields: c14CliFields, Group: g,
				GroupFields: []string{"exit", "out", "ofile", "ofexists"}, Meta: meta(argv3, "BEGINFILE { $ = E } instead of -r E"), Oracle: c14Basic, NonTrivial: c14NT})
		}
		if nsel >= 2 && chance(r, 0.5) {
			// the selectors in reverse order: the output lists the selections in reverse per value
			// (checked through the library run of the reversed list)
			rev := make([]string, nsel)
			for k := range sels {
				rev[nsel-1-k] = sels[k]
			}
			gr := g + "r"
			argv4 := sc.argv(r, prog.text, rev, oMode, "", names)
			emit(Case{ID: gr + "/inline", Req: CliReq(argv4, stdin, useStdin, disk, ofile), Fields: c14CliFields, Group: gr,
				Meta: meta(argv4, "the selectors in reverse order"), Oracle: c14Basic, NonTrivial: c14NT})
			emit(Case{ID: gr + "/lib", Req: RunReq(prog.text, rev, lib, oMode != ""), Fields: []string{"class", "out", "json"}, Group: gr,
				Meta:       meta(nil, "library run with the reversed selectors"),
				GroupCheck: func(first, self Resp) string { return c14CliVsLib(first, self, oMode, 1) }})
		}
	}
}

// ---- hostile program texts: inline <-> -f <-> library -------------------------------------

var c14HostileProgs = []string{
	`{ print "a,b", $ }`, `{ print "[" + $ + "]", ')', "{" }`, `{ print 'q"q', "q'q" }`, `{ print "back\\slash", "tab\there", "nl\nx" }`,
	"\n\n{ print 1 / 0 }", "\n\n\n  { print $; x = nope() }", "{ print $ }\n\n", "  { print $ }  ", "{ print $ }\r\n", "\r\n{ print $ }\r\n{ print 2 }", "# only a comment",
	"{ print $ } # trailing [, comment", "\t", " ", "\n", "\n\n\n", "{ print \"unterminated  ", "{ print $ }\n'", "\n \n{ print @ }", "{ print 1 }\n\n\n}",
	`{ printf("%s,%s\n", 1, "x") }`, `$ ~ /a,b|[)]/ { print "m" }`, `{ x = {"k,": [1, 2], '(': ")"}; print x }`,
	"function f(a, b) { return a + \",\" + b }\n{ print f($, \"=\") }", `{ print "-o", "-r", "--", "-f=x" }`, `{ print "é, 日本", "\xff\xfe" }`,
	`-1 { print "negative pattern" }`, `- 1 { print "dash space" }`, `--x { print "predecrement" }`, `-o`, `-r`, `--`, `-`, `-f`, `-h`, `=`, `-=`,
	"{ print \"cr\r\nlf inside a string\", 'tab\there' }\r\n", "{ print \"trailing blanks inside   \n\" }", "{ print \" \" + $ + \" \" }",
	"{ print \"tail\" }\n#", "{ print \"tail\" } #", "{\n\tprint \"tabs\"\n}\n", "{ print 1 };", "BEGIN { print \"x\" }\n\n\n\nEND { print 2 / 0 }\n\n",
}

func c14HostilePrograms(r *rand.Rand, n int, emit func(Case)) {
	docs := []string{`["a,b", 2]`, `{"a": 1}`, `"a,b)"`, "1 2\n3", `[[1, 2], "x"]`, ``}
	pfNames := []string{"prog.jqawk", "p", "a,b.awk", "p q", "=x", "é.awk", "-prog", "sub/[1].awk", "x=y"}
	for i := 0; i < n; i++ {
		var prog string
		if i < len(c14HostileProgs) {
			prog = c14HostileProgs[i]
		} else if chance(r, 0.6) {
			prog = pick(r, c14HostileProgs)
		} else {
			files, firstArr, nvals := c02Inputs(r)
			_ = files
			cg := &c02Gen{r: r, firstArr: firstArr, idxSafe: false, nvals: nvals, used: map[string]bool{}}
			prog = pick(r, []string{"", "\n", "\n\n# c\n", "  ", "\r\n"}) + cg.program().text + pick(r, []string{"", "\n", "\n\n", "  ", "\r\n", "\n# end"})
		}
		doc := pick(r, docs)
		oMode := pick(r, []string{"", "", "-", "out.json"})
		ofile := ""
		if oMode != "" && oMode != "-" {
			ofile = oMode
		}
		dashes := strings.HasPrefix(prog, "-") || chance(r, 0.2)
		if strings.HasPrefix(prog, "-") && chance(r, 0.25) {
			dashes = false // taken as flags: whatever flag.Parse does with it (compared with the model only)
		}
		name := pick(r, []string{"in.json", "a,b.json", "-r", "--", "x=y", "sp ace.json", "q\"q.json", "b\\s.json", "[1].json", "é.json", "-"})
		useStdin := chance(r, 0.3)
		var disk []CliFile
		var names []string
		lib := []File{{Name: "<stdin>", Data: []byte(doc)}}
		var stdin []byte
		if useStdin {
			stdin = []byte(doc)
		} else {
			disk = []CliFile{{Name: name, Data: []byte(doc)}}
			names = []string{name}
			lib[0].Name = name
		}
		var sels []string
		if chance(r, 0.25) {
			sels = []string{pick(r, []string{"$", "[$, ', ']", "$"})}
		}
		sc := &c14Scenario{prog: c14Prog{text: prog}, dashes: dashes}
		g := fmt.Sprintf("hprog-%d", i)
		meta := func(argv []string, what string) map[string]string {
			return metaProg(prog, "argv", strings.Join(argv, " ␣ "), "variant", what, "input", doc, "-o", oMode)
		}
		argv := sc.argv(r, prog, sels, oMode, "", names)
		first := Case{ID: g + "/inline", Req: CliReq(argv, stdin, useStdin, disk, ofile), Fields: c14CliFields, Group: g,
			Meta: meta(argv, "inline program (first member of the group)"), Oracle: c14Basic, NonTrivial: c14NT}
		if !dashes && strings.HasPrefix(prog, "-") {
			first.Oracle = nil // may be -h: usage on stderr with status 0
		}
		emit(first)
		if dashes || !strings.HasPrefix(prog, "-") {
			emit(Case{ID: g + "/lib", Req: RunReq(prog, sels, lib, oMode != ""), Fields: []string{"class", "out", "json"}, Group: g,
				Meta:       meta(nil, "library run of the same text"),
				GroupCheck: func(first, self Resp) string { return c14CliVsLib(first, self, oMode, 1) }})
			if prog != "" { // -f with an empty file is -f; an empty inline program is an argument
				pf := pick(r, pfNames)
				for pf == name {
					pf = pick(r, pfNames)
				}
				// with -f every argument is an input: one that starts with a dash needs --
				scF := &c14Scenario{prog: sc.prog, dashes: chance(r, 0.2) || (len(names) > 0 && strings.HasPrefix(names[0], "-"))}
				argvF := scF.argv(r, "", sels, oMode, pf, names)
				emit(Case{ID: g + "/dash-f", Req: CliReq(argvF, stdin, useStdin, append(append([]CliFile{}, disk...), CliFile{Name: pf, Data: []byte(prog)}), ofile), Fields: c14CliFields,
					Group: g, GroupFields: []string{"exit", "out", "stderr", "ofile", "ofexists"},
					Meta: meta(argvF, "-f FILE holding exactly the same bytes"), Oracle: c14Basic, NonTrivial: c14NT})
			}
		}
	}
}

// ---- argument shapes: empty arguments, flag look-alikes after the flags ended ------------------

func c14ArgShapes(r *rand.Rand, rounds int, emit func(Case)) {
	doc := []byte(`[1, "a,b"]`)
	p := `{ print $ }`
	type shape struct {
		what  string
		argv  []string
		stdin bool
		files []CliFile
		ofile string
		basic bool // apply the exit/diagnostic oracle
	}
	f := func(names ...string) []CliFile {
		var fs []CliFile
		for _, n := range names {
			fs = append(fs, CliFile{Name: n, Data: doc})
		}
		return fs
	}
	shapes := []shape{
		{"file named -r after the program", []string{p, "-r"}, false, f("-r"), "", true},
		{"file named -o after the program, then another", []string{p, "-o", "in.json"}, false, f("-o", "in.json"), "", true},
		{"file named -- after the program", []string{p, "--"}, false, f("--"), "", true},
		{"-- then program then a file named -f", []string{"--", p, "-f"}, false, f("-f"), "", true},
		{"-- -- : the program is --", []string{"--", "--", "in.json"}, false, f("in.json"), "", true},
		{"-- alone: empty program, stdin", []string{"--"}, true, nil, "", true},
		{"-- then a program that looks like a flag", []string{"--", "-o", "in.json"}, false, f("in.json"), "", true},
		{"file named - ", []string{p, "-"}, false, f("-"), "", true},
		{"a lone - as the program", []string{"-", "in.json"}, false, f("in.json"), "", true},
		{"empty program, stdin", []string{""}, true, nil, "", true},
		{"empty program, a file", []string{"", "in.json"}, false, f("in.json"), "", true},
		{"empty file name", []string{p, ""}, false, f("in.json"), "", true},
		{"empty file name after a good one", []string{p, "in.json", ""}, false, f("in.json"), "", true},
		{"empty selector", []string{"-r", "", p, "in.json"}, false, f("in.json"), "", true},
		{"empty selector via =", []string{"-r=", p, "in.json"}, false, f("in.json"), "", true},
		{"empty -o value: no -o", []string{"-o", "", p, "in.json"}, false, f("in.json"), "", true},
		{"empty -o value via =", []string{"-o=", p, "in.json"}, false, f("in.json"), "", true},
		{"empty -f value: the program is inline", []string{"-f", "", p, "in.json"}, false, f("in.json"), "", true},
		{"empty -f value via =", []string{"-f=", p, "in.json"}, false, f("in.json"), "", true},
		{"-f set, then reset to empty", []string{"-f", "prog", "-f", "", p, "in.json"}, false, append(f("in.json"), CliFile{Name: "prog", Data: []byte(`{ print "from file" }`)}), "", true},
		{"-f given twice: the last one counts", []string{"-f", "p1", "-f", "p2", "in.json"}, false, append(f("in.json"), CliFile{Name: "p1", Data: []byte(`{ print "one" }`)}, CliFile{Name: "p2", Data: []byte(`{ print "two" }`)}), "", true},
		{"-o given twice: the last one counts", []string{"-o", "first.json", "-o", "second.json", p, "in.json"}, false, f("in.json"), "second.json", true},
		{"-o given twice: the first is not written", []string{"-o", "first.json", "-o", "second.json", p, "in.json"}, false, f("in.json"), "first.json", true},
		{"-o value is -r", []string{"-o", "-r", p, "in.json"}, false, f("in.json"), "-r", true},
		{"-o value is --", []string{"-o", "--", p, "in.json"}, false, f("in.json"), "--", true},
		{"-o=- via =", []string{"-o=-", p, "in.json"}, false, f("in.json"), "", true},
		{"--o=- two dashes", []string{"--o=-", p, "in.json"}, false, f("in.json"), "", true},
		{"-r value is --", []string{"-r", "--", p, "in.json"}, false, f("in.json"), "", true},
		{"-r value is -o", []string{"-r", "-o", p, "in.json"}, false, f("in.json"), "", true},
		{"-r value with = via =", []string{"-r=x=$[1]", p, "in.json"}, false, f("in.json"), "", true},
		{"-r value starting with = via =", []string{"-r==1", p, "in.json"}, false, f("in.json"), "", true},
		{"-r value is a negative number", []string{"-r", "-1", p, "in.json"}, false, f("in.json"), "", true},
		{"-r=-1", []string{"-r=-1", p, "in.json"}, false, f("in.json"), "", true},
		{"three dashes", []string{"---o", "-", p, "in.json"}, false, f("in.json"), "", true},
		{"-=x", []string{"-=x", p, "in.json"}, false, f("in.json"), "", true},
		{"--=x", []string{"--=x", p, "in.json"}, false, f("in.json"), "", true},
		{"-rx: no such flag", []string{"-rx", p, "in.json"}, false, f("in.json"), "", true},
		{"-r after the program: a file name", []string{p, "in.json", "-r", "$[0]"}, false, f("in.json"), "", true},
		{"-h", []string{"-h"}, false, nil, "", false},
		{"-help after -r", []string{"-r", "$", "-help", p}, false, nil, "", false},
		{"program with a comma and a file with a comma", []string{`{ print $file, "a,b" }`, "a,b.json", "c,d.json"}, false, f("a,b.json", "c,d.json"), "", true},
		{"selector that is only a string with a comma", []string{"-r", `"a,b"`, p, "in.json"}, false, f("in.json"), "", true},
		{"no arguments, stdin", nil, true, nil, "", true},
	}
	for round := 0; round < rounds; round++ {
		for si, s := range shapes {
			var stdin []byte
			if s.stdin {
				stdin = doc
			}
			c := Case{ID: fmt.Sprintf("shape-%d-%d", round, si), Req: CliReq(s.argv, stdin, s.stdin, s.files, s.ofile), Fields: c14CliFields, NonTrivial: c14NT,
				Meta: map[string]string{"what": s.what, "argv": strings.Join(s.argv, " ␣ ")}}
			if s.basic {
				c.Oracle = c14Basic
			}
			emit(c)
			if round > 0 {
				break // the list is deterministic; later rounds only add the random part below
			}
		}
		// random: a value-taking flag followed by a hostile value, both spellings
		for k := 0; k < 20; k++ {
			val := pick(r, append(append([]string{}, c14HostileStrs...), "-r", "-o", "-f", "--", "-", "", "$", "x=1", "=", "-1"))
			flagName := pick(r, []string{"r", "o", "f"})
			if flagName != "r" && strings.Contains(val, "/") {
				continue
			}
			argv := append(c14Flag(r, flagName, val), p, "in.json")
			files := f("in.json")
			of := ""
			if flagName == "o" && val != "" && val != "-" {
				of = val
			}
			if flagName == "f" && val != "" {
				files = append(files, CliFile{Name: val, Data: []byte(`{ print "prog file", $ }`)})
				argv = append(c14Flag(r, flagName, val), "in.json")
			}
			emit(Case{ID: fmt.Sprintf("shape-%d-rand%d", round, k), Req: CliReq(argv, nil, false, files, of), Fields: c14CliFields, NonTrivial: c14NT, Oracle: c14Basic,
				Meta: map[string]string{"what": "-" + flagName + " with a hostile value", "argv": strings.Join(argv, " ␣ ")}})
		}
	}
}

func init() {
	noBin := func(emit func(Case)) bool {
		if os.Getenv("JQAWK_BIN") != "" {
			return false
		}
		emit(Case{ID: "no-binary", Req: "cli - - - -", ImplOnly: true, Oracle: c14Basic,
			Meta: map[string]string{"problem": "env JQAWK_BIN is not set; the C14 families run the real binary"}})
		return true
	}
	register(Family{
		Name: "cli-o-existing", Prop: "C14",
		Rule: "-o FILE where FILE already exists -- longer than / one byte longer than / equal to / shorter than the JSON to be written (the length is learnt by running the library in the generator), 70 kB, empty, the input file itself (in-place edit), the -f program file, read-only -- or cannot be created (a directory, in a missing directory, below a regular file), in an existing sub-directory, /dev/full, /dev/null; programs that keep, shrink, grow or replace the document and ones that fail (division by zero, syntax error, exit in BEGIN, cyclic document); one Group per scenario with the -o - run first: file content = what -o - printed after the program's output (exactly, nothing of the old content left), a failed run leaves the existing file untouched; every case is also compared with the model of the wrapper",
		Gen: func(r *rand.Rand, tier string, emit func(Case)) {
			if noBin(emit) {
				return
			}
			c14OExisting(r, tierN(tier, 180, 5400), emit)
		},
	})
	register(Family{
		Name: "cli-hostile-args", Prop: "C14",
		Rule: "(a) 1-3 -r selectors drawn from an expression generator: string literals in both quote styles and regex literals containing commas, all three kinds of brackets balanced and unbalanced, quotes, backslashes, blanks, leading dashes, '='; array and object literals, calls with several arguments, match with several patterns, comments, assignments; plus ill-formed ones; each scenario: binary (compared with the model), library run with the same selector list (tie), the flags respelled (-r=E, --r E, other places), -r E <-> BEGINFILE { $ = E }, reversed order; (b) program texts with the same characters, leading / trailing blank lines, CRLF, no final newline, leading dashes: inline <-> library <-> -f FILE (stdout, stderr, exit, -o file identical), program-file and input-file names with commas, '=', blanks, quotes, leading dashes; (c) argument shapes: empty arguments in every position, flag look-alikes after the flags ended and as flag values, repeated -f / -o, -r=x=y, bad flag syntax",
		Gen: func(r *rand.Rand, tier string, emit func(Case)) {
			if noBin(emit) {
				return
			}
			c14HostileSelectors(r, tierN(tier, 220, 6000), emit)
			c14HostilePrograms(r, tierN(tier, 90, 2500), emit)
			c14ArgShapes(r, tierN(tier, 1, 12), emit)
		},
	})
}

// ---------------------------------------------------------------------------------------
// cli-stdin-kinds: "input on stdin behaves as the same bytes in a named file" whatever KIND
// of file descriptor stdin is: a pipe, a regular file (`< data.json`, a here-document), a
// socket, /dev/null, an empty file, a closed descriptor.
// ---------------------------------------------------------------------------------------

func c14StdinKinds(r *rand.Rand, n int, emit func(Case)) {
	oModes := []string{"", "", "-", "out.json"}
	for i := 0; i < n; i++ {
		prog := c14Progs[i%len(c14Progs)]
		if i >= 2*len(c14Progs) {
			prog = pick(r, c14Progs)
		}
		oMode := oModes[(i/3)%len(oModes)]
		var sels []string
		if i%3 == 2 {
			sels = []string{pick(r, c14Sels[:10])}
		}
		data := c14Stream(r)
		if i%5 == 0 {
			// more than a pipe buffer / a read-ahead buffer
			recs := make([]string, 600+r.Intn(3000))
			for k := range recs {
				recs[k] = fmt.Sprintf(`{"a": %d, "list": [%d, "x"]}`, k, k%7)
			}
			data = []byte(strings.Join(recs, "\n") + "\n")
		}
		ofile := ""
		if oMode != "" && oMode != "-" {
			ofile = oMode
		}
		sc := &c14Scenario{prog: prog, dashes: strings.HasPrefix(prog.text, "-")}
		g := fmt.Sprintf("kinds-%d", i)
		meta := func(argv []string, what string) map[string]string {
			return metaProg(prog.text, "argv", strings.Join(argv, " ␣ "), "stdin bytes", short(strconv.Quote(string(data))), "stdin is", what, "-o", oMode)
		}
		argv := sc.argv(r, prog.text, sels, oMode, "", nil)
		pipeReq := CliReq(argv, data, true, nil, ofile)
		all := []string{"exit", "out", "stderr", "ofile", "ofexists"}
		// first member: the pipe (compared with the model; the model knows only bytes on stdin)
		emit(Case{ID: g + "/pipe", Req: pipeReq, Fields: c14CliFields, Group: g, Meta: meta(argv, "a pipe (first member of the group)"), Oracle: c14Basic, NonTrivial: c14NT})
		// (long streams: the model is asked once, the other members are tied to the first by the Group)
		big := len(data) > 10000
		for _, kind := range []string{"file", "socket"} {
			emit(Case{ID: g + "/" + kind, Req: CliStdinKindReq(argv, data, kind, nil, ofile), ModelReq: pipeReq, ImplOnly: big, Fields: c14CliFields, Group: g, GroupFields: all,
				Meta: meta(argv, map[string]string{"file": "a regular file opened for reading (`< data.json`)", "socket": "a socket"}[kind]), Oracle: c14Basic, NonTrivial: c14NT})
		}
		// the same bytes in a named file (apart from $file)
		if !prog.usesFile {
			argvF := sc.argv(r, prog.text, sels, oMode, "", []string{"named.json"})
			emit(Case{ID: g + "/named", Req: CliReq(argvF, nil, false, []CliFile{{Name: "named.json", Data: data}}, ofile), ImplOnly: big, Fields: c14CliFields, Group: g,
				GroupFields: []string{"exit", "out", "ofile", "ofexists"}, Meta: meta(argvF, "(not used: the bytes are in the named file named.json)"), Oracle: c14Basic, NonTrivial: c14NT})
			// a named file while stdin is a regular file with OTHER bytes: stdin is not read
			if i%4 == 1 {
				emit(Case{ID: g + "/named+stdin", Req: CliStdinKindReq(argvF, []byte("[\"stdin must not be read\"]\n"), "file", []CliFile{{Name: "named.json", Data: data}}, ofile), ImplOnly: big, Fields: c14CliFields, Group: g,
					ModelReq:    CliReq(argvF, []byte("[\"stdin must not be read\"]\n"), true, []CliFile{{Name: "named.json", Data: data}}, ofile),
					GroupFields: []string{"exit", "out", "ofile", "ofexists"}, Meta: meta(argvF, "a regular file with other bytes, next to the file argument named.json"), Oracle: c14Basic, NonTrivial: c14NT})
			}
		}
		// /dev/stdin given by name, stdin a regular file: for the model a file of that name
		if i%4 == 2 {
			argvD := sc.argv(r, prog.text, sels, oMode, "", []string{"/dev/stdin"})
			gd := g + "d"
			emit(Case{ID: gd + "/pipe", Req: CliReq(argvD, data, true, nil, ofile), ModelReq: CliReq(argvD, nil, false, []CliFile{{Name: "/dev/stdin", Data: data}}, ofile), Fields: c14CliFields, Group: gd,
				Meta: meta(argvD, "a pipe, read through the file argument /dev/stdin"), Oracle: c14Basic, NonTrivial: c14NT})
			emit(Case{ID: gd + "/file", Req: CliStdinKindReq(argvD, data, "file", nil, ofile), ImplOnly: big, ModelReq: CliReq(argvD, nil, false, []CliFile{{Name: "/dev/stdin", Data: data}}, ofile), Fields: c14CliFields, Group: gd, GroupFields: all,
				Meta: meta(argvD, "a regular file, read through the file argument /dev/stdin"), Oracle: c14Basic, NonTrivial: c14NT})
		}
		// no bytes at all: an empty pipe, an empty regular file, /dev/null, a closed descriptor
		if i%2 == 0 {
			ge := g + "e"
			emptyReq := CliReq(argv, []byte{}, true, nil, ofile)
			emit(Case{ID: ge + "/pipe", Req: emptyReq, Fields: c14CliFields, Group: ge, Meta: meta(argv, "an empty pipe (first member of the group)"), Oracle: c14Basic,
				NonTrivial: func(i Resp) bool { return i["exit"] != "" }})
			for _, kind := range []string{"empty", "null", "closed"} {
				emit(Case{ID: ge + "/" + kind, Req: CliStdinKindReq(argv, nil, kind, nil, ofile), ModelReq: emptyReq, Fields: c14CliFields, Group: ge, GroupFields: all,
					Meta:   meta(argv, map[string]string{"empty": "an empty regular file", "null": "/dev/null", "closed": "closed (`<&-`): the Go runtime opens /dev/null in its place"}[kind]),
					Oracle: c14Basic, NonTrivial: func(i Resp) bool { return i["exit"] != "" }})
			}
		}
	}
}

func init() {
	register(Family{
		Name: "cli-stdin-kinds", Prop: "C14",
		Rule: "the binary without file arguments (every program of the pool, 0-1 -r selectors, -o absent / - / a path; streams of 0-3 values, ill-formed ones, and streams of 20-150 kB) with stdin being each KIND of descriptor: a pipe (first member of the Group, compared with the model), a regular file opened for reading (the shell's `< data.json`, here-documents), a socket: exit, stdout, stderr and the -o file must equal the pipe run's (and the model's); the same bytes in a named file (exit, stdout, -o file; programs that do not mention $file); a named file while stdin is a regular file holding other bytes (stdin is not read); /dev/stdin as file argument with stdin a pipe / a regular file; and no bytes at all: an empty pipe, an empty regular file, /dev/null, a closed descriptor must agree with each other and with the model",
		Gen: func(r *rand.Rand, tier string, emit func(Case)) {
			if os.Getenv("JQAWK_BIN") == "" {
				emit(Case{ID: "no-binary", Req: "cli - - - -", ImplOnly: true, Oracle: c14Basic,
					Meta: map[string]string{"problem": "env JQAWK_BIN is not set; the C14 families run the real binary"}})
				return
			}
			c14StdinKinds(r, tierN(tier, 81, 2700), emit)
		},
	})
}

// ---------------------------------------------------------------------------------------
// cli-selector-overlap: every -r root is a FRESH conversion of the decoded document. With two
// selectors whose results overlap in a container of the same document (the same selector twice,
// `$.items` and `$`, `$.a` and `$.a.b`) what the rules change under the first root must not be
// visible under the second one -- neither in what is printed nor in what -o writes. So, for a
// program that keeps no state between roots, `-r S1 -r S2` prints what `-r S1` prints followed
// by what `-r S2` prints, and -o writes what `-r S2` alone writes (as BEGINFILE { $ = S2 } does).
// ---------------------------------------------------------------------------------------

var c14OverlapProgs = []c14Prog{
	{text: `{ $.qty *= 10; print $.name, $.qty }`},
	{text: "$ is object && $.qty is number { $.qty *= 10 }\n{ print \"v\", $ }"},
	{text: "$ is array { $.push(\"+\") }\n$ is object { $.n = $.n + 1 }\n{ print \"v\", $ }"},
	{text: "$ is object { $.seen = [$.seen] }\n{ print \"v\", $ }\nENDFILE { print \"E\", $ }", fileDollar: true},
	{text: "BEGINFILE { print \"B\", $ }\n$ is object { $.n += 1; $.n += 1 }\nENDFILE { print \"E\", $ }", fileDollar: true},
	{text: `$.name { $.qty = 0 }`},
	{text: `$ is object { $.k = "v"; $.n += 1 }`},
	{text: "BEGINFILE { if ($ is object) { $.visited += 1 }\n print \"B\", $ }", fileDollar: true},
	{text: "$ is object && $.sub is object { $.sub.n *= 2 }\n$ is object && $.b is object { $.b.l.push($.b.n); $.b.n -= 1 }\n{ print \"v\", $ }"},
	{text: "$ is number { $ += 100 }\n$ is array { $[0] = [$[0]] }\nENDFILE { print \"E\", $ }", fileDollar: true},
	{text: "ENDFILE { if ($ is object) { $.done = [$.done, 1] }\n if ($ is array) { $.push(0) }\n print \"E\", $ }", fileDollar: true},
	{text: `{ print "v", $ }`},
}

type c14OverlapDoc struct {
	text string
	sels [][]string // overlapping selector lists
	pool []string   // more selectors into the same document
}

func c14OverlapDocs(r *rand.Rand) c14OverlapDoc {
	q1, q2, n := 1+r.Intn(9), 1+r.Intn(9), r.Intn(5)
	if chance(r, 0.6) {
		return c14OverlapDoc{
			text: fmt.Sprintf(`{"items": [{"name": "x", "qty": %d}, {"name": "y", "qty": %d}], "a": {"b": {"n": %d, "l": [1]}, "n": 5}, "list": [[1], [2, 3]], "n": %d}`, q1, q2, n, n+1),
			sels: [][]string{{"$.items", "$.items"}, {"$.items", "$"}, {"$", "$.items"}, {"$.a", "$.a.b"}, {"$.a.b", "$.a"}, {"$", "$"}, {"$.list", "$.list[0]"}, {"$.list[1]", "$.list"},
				{"[$.items[0]]", "$.items"}, {"{w: $.a}", "$.a"}, {"$.items[0]", "$.items"}, {"$.a.b.l", "$.a.b"}, {"[$.a, $.a]", "$.a"}, {"$.a", "$"}, {"$.items[1]", "$.items[1]"}},
			pool: []string{"$", "$.items", "$.a", "$.a.b", "$.list", "$.items[0]", "$.n"},
		}
	}
	return c14OverlapDoc{
		text: fmt.Sprintf(`[{"name": "p", "qty": %d, "n": %d}, {"name": "q", "qty": %d, "sub": {"n": 2}}]`, q1, n, q2),
		sels: [][]string{{"$", "$"}, {"$[0]", "$"}, {"$", "$[1].sub"}, {"[$[0], $[0]]", "$[0]"}, {"$[1]", "$[1].sub"}, {"$[1].sub", "$[1]"}, {"{first: $[0]}", "$"}, {"$[0]", "$[0]"}},
		pool: []string{"$", "$[0]", "$[1]", "$[1].sub", "$[0].qty"},
	}
}

func c14SelectorOverlap(r *rand.Rand, n int, emit func(Case)) {
	for i := 0; i < n; i++ {
		d := c14OverlapDocs(r)
		sels := append([]string{}, pick(r, d.sels)...)
		switch r.Intn(6) {
		case 0:
			sels = append(sels, pick(r, d.pool)) // a third selector
		case 1:
			sels = append([]string{pick(r, d.pool)}, sels...)
		}
		prog := c14OverlapProgs[i%len(c14OverlapProgs)]
		oMode := pick(r, []string{"", "-", "-", "out.json", "out.json"})
		doc := d.text
		single := true
		if chance(r, 0.25) {
			doc += pick(r, []string{"\n", " "}) + c14OverlapDocs(r).text
			single = false
		}
		useStdin := chance(r, 0.4)
		name := "in.json"
		var disk []CliFile
		var names []string
		lib := []File{{Name: "<stdin>", Data: []byte(doc)}}
		var stdin []byte
		if useStdin {
			stdin = []byte(doc)
		} else {
			disk = []CliFile{{Name: name, Data: []byte(doc)}}
			names = []string{name}
			lib[0].Name = name
		}
		ofile := ""
		if oMode != "" && oMode != "-" {
			ofile = oMode
		}
		sc := &c14Scenario{prog: prog}
		g := fmt.Sprintf("overlap-%d", i)
		meta := func(argv []string, what string) map[string]string {
			return metaProg(prog.text, "argv", strings.Join(argv, " ␣ "), "selectors", strings.Join(sels, " ␣ "), "variant", what, "input", doc, "-o", oMode)
		}
		// what each selector prints and leaves on its own (library runs inside the generator; one
		// selector per run)
		expOut, expJSON, expOK := "", "", single
		if single {
			for _, s := range sels {
				one := c14InProc(prog.text, []string{s}, lib, true)
				expOut += string(one.Bytes("out"))
				if one["class"] != "ok" || one["json"] == "ERR" {
					expOK = false
					break
				}
				expJSON = string(one.Bytes("json"))
			}
		}
		argv := sc.argv(r, prog.text, sels, oMode, "", names)
		emit(Case{ID: g + "/both", Req: CliReq(argv, stdin, useStdin, disk, ofile), Fields: c14CliFields, Group: g,
			Meta: meta(argv, "binary, all selectors (first member of the group)"), NonTrivial: c14NT,
			Oracle: func(i Resp) string {
				if w := c14Basic(i); w != "" || i["exit"] == "" {
					return w
				}
				if !expOK {
					if single && !strings.HasPrefix(string(i.Bytes("out")), expOut) {
						return fmt.Sprintf("stdout %q does not start with what the selectors print one at a time up to the failure: %q", i.Bytes("out"), expOut)
					}
					return ""
				}
				if i["exit"] != "0" {
					return "every selector alone succeeds, together the binary exits with " + i["exit"] + ": " + short(string(i.Bytes("stderr")))
				}
				want := expOut
				if oMode == "-" {
					want += expJSON
				}
				if got := string(i.Bytes("out")); got != want {
					return fmt.Sprintf("stdout %q; the selectors one at a time (each a fresh conversion of the document) give %q", got, want)
				}
				if ofile != "" && string(i.Bytes("ofile")) != expJSON {
					return fmt.Sprintf("-o wrote %q; the last selector alone leaves %q", i.Bytes("ofile"), expJSON)
				}
				return ""
			}})
		emit(Case{ID: g + "/lib", Req: RunReq(prog.text, sels, lib, oMode != ""), Fields: []string{"class", "out", "json"}, Group: g,
			Meta:       meta(nil, "library run with the same selectors"),
			GroupCheck: func(first, self Resp) string { return c14CliVsLib(first, self, oMode, 1) }})
		if !single {
			continue
		}
		// the binary with the first selector alone (no -o): a prefix; with the last selector alone:
		// a suffix, and the same -o file
		first, last := sels[0], sels[len(sels)-1]
		argvF := sc.argv(r, prog.text, []string{first}, "", "", names)
		emit(Case{ID: g + "/first-alone", Req: CliReq(argvF, stdin, useStdin, disk, ""), Fields: c14CliFields, Group: g,
			Meta: meta(argvF, "binary, the first selector alone, no -o"), Oracle: c14Basic, NonTrivial: c14NT,
			GroupCheck: func(all, self Resp) string {
				if all["exit"] == "" || self["exit"] == "" {
					return ""
				}
				if !strings.HasPrefix(string(all.Bytes("out")), string(self.Bytes("out"))) {
					return fmt.Sprintf("with all selectors stdout is %q: it does not start with what the first selector alone prints, %q", all.Bytes("out"), self.Bytes("out"))
				}
				return ""
			}})
		lastProg, lastSels, what := prog.text, []string{last}, "binary, the last selector alone"
		if !prog.fileDollar && c14InProc("{ }", []string{last}, lib, false)["class"] == "ok" && chance(r, 0.5) {
			lastProg, lastSels, what = "BEGINFILE { $ = "+last+" }\n"+prog.text, nil, "binary, BEGINFILE { $ = E } for the last selector instead of -r"
		}
		argvL := sc.argv(r, lastProg, lastSels, oMode, "", names)
		emit(Case{ID: g + "/last-alone", Req: CliReq(argvL, stdin, useStdin, disk, ofile), Fields: c14CliFields, Group: g,
			Meta: meta(argvL, what), Oracle: c14Basic, NonTrivial: c14NT,
			GroupCheck: func(all, self Resp) string {
				if all["exit"] == "" || self["exit"] == "" || !expOK {
					return ""
				}
				if all["exit"] != self["exit"] {
					return fmt.Sprintf("exit status %s with all selectors, %s with the last one alone", all["exit"], self["exit"])
				}
				if !strings.HasSuffix(string(all.Bytes("out")), string(self.Bytes("out"))) {
					return fmt.Sprintf("with all selectors stdout is %q: it does not end with what the last selector alone gives, %q", all.Bytes("out"), self.Bytes("out"))
				}
				if all["ofile"] != self["ofile"] || all["ofexists"] != self["ofexists"] {
					return fmt.Sprintf("-o wrote %q with all selectors, %q with the last one alone", all.Bytes("ofile"), self.Bytes("ofile"))
				}
				return ""
			}})
	}
}

func init() {
	register(Family{
		Name: "cli-selector-overlap", Prop: "C14",
		Rule: "the real binary with two (sometimes three) -r selectors whose results OVERLAP in a container of the same document — the same selector twice, $.items and $, $.a and $.a.b, [$.items[0]] and $.items, ... — under programs that modify $ non-idempotently ($.qty *= 10, $.n += 1 twice, push, wrapping a member in an array, in pattern, BEGINFILE and ENDFILE rules), with -o absent / - / FILE, stdin or a named file, one or two documents; compared with the model of the wrapper; one Group per scenario: library run of the same request (tie: exit, stdout, -o content = json), and for one document the binary with the first selector alone (its stdout is a prefix) and with the last selector alone — as -r E or as BEGINFILE { $ = E } — (its stdout is a suffix, the -o file identical); oracle: stdout = what library runs with ONE selector each print, concatenated, and -o = what the last one leaves (every root is a fresh conversion)",
		Gen: func(r *rand.Rand, tier string, emit func(Case)) {
			if os.Getenv("JQAWK_BIN") == "" {
				emit(Case{ID: "no-binary", Req: "cli - - - -", ImplOnly: true, Oracle: c14Basic,
					Meta: map[string]string{"problem": "env JQAWK_BIN is not set; the C14 families run the real binary"}})
				return
			}
			c14SelectorOverlap(r, tierN(tier, 240, 5000), emit)
		},
	})
}

// ---------------------------------------------------------------------------------------
// cli-degenerate-progfile: `-f FILE` behaves as the same text given inline ALSO when the text
// is degenerate: empty, one newline, blanks, a comment, a shebang line. The decision "the
// program comes from the file" must depend on -f being given, never on what the file holds.
// ---------------------------------------------------------------------------------------

var c14DegenerateTexts = []struct{ text, what string }{
	{"", "empty"}, {"", "empty"}, {"\n", "one newline"}, {"\n\n\n", "newlines"}, {" ", "one blank"}, {"\t \t", "blanks and tabs"}, {" \n \n", "blank lines"}, {"\r\n", "CR LF"},
	{"#c", "a comment without newline"}, {"# a comment\n", "a comment line"}, {"  # c é\n\n", "indented comment, blank line"}, {"#", "a lone #"}, {"#!/usr/bin/env jqawk -f\n", "a shebang line"},
	{"# one\n# two\n", "two comment lines"}, {";", "a lone semicolon (not a program)"}, {"1", "the pattern 1"}, {"$.page", "a bodyless pattern"}, {"{ }", "an empty rule"}, {"BEGIN { }", "an empty BEGIN"},
}

func c14DegenerateProgFile(r *rand.Rand, tier string, emit func(Case)) {
	data := []byte(`{"result":[{"name":"a"},{"name":"b"}],"page":1}`)
	second := []byte("[1, 2]\n")
	stdinDoc := []byte(`{"result": "from stdin", "page": 9}`)
	rounds := tierN(tier, 1, 4)
	g := 0
	for round := 0; round < rounds; round++ {
		for _, t := range c14DegenerateTexts {
			for nfiles := 0; nfiles <= 2; nfiles++ {
				for _, sel := range []string{"", "$.result", "$.page", "$"} {
					for _, oMode := range []string{"", "-", "out.json"} {
						if tier != "thorough" && (t.text != "" && !chance(r, 0.5)) {
							continue
						}
						var names []string
						var disk []CliFile
						switch nfiles {
						case 1:
							names = []string{pick(r, []string{"data.json", "data.json", "d", "1", "x.y"})}
							disk = []CliFile{{Name: names[0], Data: data}}
						case 2:
							names = []string{"data.json", "more.json"}
							disk = []CliFile{{Name: "data.json", Data: data}, {Name: "more.json", Data: second}}
						}
						var flags []string
						if sel != "" {
							flags = append(flags, c14Flag(r, "r", sel)...)
						}
						ofile := ""
						if oMode != "" {
							flags = append(flags, c14Flag(r, "o", oMode)...)
							if oMode != "-" {
								ofile = oMode
							}
						}
						// stdin: nothing (/dev/null), or a document that differs from the files
						hasStdin := nfiles == 0 || chance(r, 0.5)
						var stdin []byte
						if hasStdin {
							stdin = stdinDoc
						}
						progName := pick(r, []string{"prog.jqawk", "empty.jqawk", "p", "data.jqawk"})
						fflag := c14Flag(r, "f", progName)
						var fargv []string
						if chance(r, 0.5) {
							fargv = append(append(append([]string{}, flags...), fflag...), names...)
						} else {
							fargv = append(append(append([]string{}, fflag...), flags...), names...)
						}
						inline := append(append(append([]string{}, flags...), t.text), names...)
						if strings.HasPrefix(t.text, "-") {
							continue
						}
						grp := fmt.Sprintf("degenerate-%d", g)
						g++
						meta := func(form string, argv []string) map[string]string {
							return metaProg(t.text, "program text", fmt.Sprintf("%q (%s)", t.text, t.what), "form", form, "argv", strings.Join(argv, " ␣ "), "files", strings.Join(names, " "), "stdin", fmt.Sprint(hasStdin),
								"row", t.what, "col", fmt.Sprintf("%d files", nfiles))
						}
						gf := []string{"exit", "out", "stderr", "ofile", "ofexists"}
						emit(Case{ID: grp + "/inline", Req: CliReq(inline, stdin, hasStdin, disk, ofile), Fields: c14CliFields, Group: grp, GroupFields: gf, Meta: meta("inline (reference of the group)", inline), Oracle: c14Basic, NonTrivial: c14NT})
						fdisk := append(append([]CliFile{}, disk...), CliFile{Name: progName, Data: []byte(t.text)})
						emit(Case{ID: grp + "/file", Req: CliReq(fargv, stdin, hasStdin, fdisk, ofile), Fields: c14CliFields, Group: grp, GroupFields: gf, Meta: meta("-f FILE", fargv), Oracle: c14Basic, NonTrivial: c14NT})
						// no program argument at all is the empty program on stdin
						if t.text == "" && nfiles == 0 && round == 0 {
							emit(Case{ID: grp + "/noargs", Req: CliReq(flags, stdin, hasStdin, nil, ofile), Fields: c14CliFields, Group: grp, GroupFields: gf, Meta: meta("no program argument", flags), Oracle: c14Basic, NonTrivial: c14NT})
						}
					}
				}
			}
		}
	}
}

func init() {
	register(Family{
		Name: "cli-degenerate-progfile", Prop: "C14",
		Rule: "the real binary with a DEGENERATE program text -- empty, one newline, newlines, a blank, blanks and tabs, blank lines, CR LF, a comment with and without newline, a lone #, a shebang line, two comment lines -- and a few minimal ones (`1`, `$.page`, `{ }`, `BEGIN { }`, `;`) given inline and as -f FILE (-f FILE / -f=FILE / --f FILE, before or after the other flags, four file names), with 0 / 1 / 2 positional file arguments (also files named `1`, `d`, `x.y`), stdin /dev/null or a document that differs from the files, -r absent / $.result / $.page / $, -o absent / - / out.json; one Group per scenario: exit, stdout, stderr and the -o file of the -f run equal the inline run's (and, without files, the run with no program argument at all); both compared with the model",
		Gen: func(r *rand.Rand, tier string, emit func(Case)) {
			if os.Getenv("JQAWK_BIN") == "" {
				emit(Case{ID: "no-binary", Req: "cli - - - -", ImplOnly: true, Oracle: c14Basic,
					Meta: map[string]string{"problem": "env JQAWK_BIN is not set; the C14 families run the real binary"}})
				return
			}
			c14DegenerateProgFile(r, tier, emit)
		},
	})
}
