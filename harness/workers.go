package main

// Subprocess workers speaking the line protocol: the implementation worker
// (this binary, "implworker") and the Lean model driver (jqmodel). A worker that
// times out or dies is killed and restarted; the case is answered with
// class=timeout / class=crash, which is never a pass or a fail.

import (
	"bufio"
	"fmt"
	"io"
	"os"
	"os/exec"
	"strings"
	"sync"
	"sync/atomic"
	"time"
)

type worker struct {
	argv    []string
	env     []string
	cmd     *exec.Cmd
	stdin   io.WriteCloser
	stdout  *bufio.Reader
	timeout time.Duration
}

func (w *worker) start() error {
	w.cmd = exec.Command(w.argv[0], w.argv[1:]...)
	w.cmd.Env = append(os.Environ(), w.env...)
	w.cmd.Stderr = io.Discard
	in, err := w.cmd.StdinPipe()
	if err != nil {
		return err
	}
	out, err := w.cmd.StdoutPipe()
	if err != nil {
		return err
	}
	w.stdin = in
	w.stdout = bufio.NewReaderSize(out, 1<<20)
	return w.cmd.Start()
}

func (w *worker) stop() {
	if w.cmd != nil && w.cmd.Process != nil {
		w.cmd.Process.Kill()
		w.cmd.Wait()
	}
	w.cmd = nil
}

// ask sends one request line and returns the response line.
func (w *worker) ask(line string) string {
	if w.cmd == nil {
		if err := w.start(); err != nil {
			return "R class=crash msg=cannot_start_" + strings.ReplaceAll(err.Error(), " ", "_")
		}
	}
	type res struct {
		s   string
		err error
	}
	ch := make(chan res, 1)
	go func() {
		if _, err := io.WriteString(w.stdin, line+"\n"); err != nil {
			ch <- res{"", err}
			return
		}
		s, err := w.stdout.ReadString('\n')
		ch <- res{s, err}
	}()
	select {
	case r := <-ch:
		if r.err != nil {
			w.stop()
			return "R class=crash"
		}
		return strings.TrimSpace(r.s)
	case <-time.After(w.timeout):
		w.stop()
		return "R class=timeout"
	}
}

// pool runs requests on n workers in parallel, preserving order of results.
type pool struct {
	workers []*worker
	// maxFails > 0: once that many requests of one askAll batch ended in a
	// timeout or a crash, the rest of the batch is answered "class=aborted"
	// (a hanging implementation must not make the check run for hours)
	maxFails int32
	fails    int32
}

func newPool(n int, argv []string, env []string, timeout time.Duration) *pool {
	p := &pool{}
	for i := 0; i < n; i++ {
		p.workers = append(p.workers, &worker{argv: argv, env: env, timeout: timeout})
	}
	return p
}

func (p *pool) close() {
	for _, w := range p.workers {
		w.stop()
	}
}

func (p *pool) askAll(reqs []string) []string {
	out := make([]string, len(reqs))
	atomic.StoreInt32(&p.fails, 0)
	var wg sync.WaitGroup
	next := 0
	var mu sync.Mutex
	for _, w := range p.workers {
		wg.Add(1)
		go func(w *worker) {
			defer wg.Done()
			for {
				mu.Lock()
				i := next
				next++
				mu.Unlock()
				if i >= len(reqs) {
					return
				}
				if p.maxFails > 0 && atomic.LoadInt32(&p.fails) >= p.maxFails {
					out[i] = "R class=aborted"
					continue
				}
				out[i] = w.ask(reqs[i])
				if out[i] == "R class=timeout" || strings.HasPrefix(out[i], "R class=crash") {
					atomic.AddInt32(&p.fails, 1)
				}
			}
		}(w)
	}
	wg.Wait()
	return out
}

func modelArgv(path string) []string {
	// a large stack: the model's recursion depth follows the program's
	return []string{"bash", "-c", fmt.Sprintf("ulimit -s 1000000 2>/dev/null || ulimit -s unlimited 2>/dev/null; exec %q", path)}
}
