package main

// C07 — control flow executes statements in exactly the documented order, at
// any nesting.
//
// The main family generates random STRUCTURED programs from a small AST
// (if/else chains incl. dangling else, while, three-clause for, for-in over
// arrays / objects / strings, blocks, match statements with block bodies,
// user functions, and break / continue / return / next / exit anywhere), with
// a `print` trace after every statement.  The same AST is executed by a
// reference interpreter written in Go from the property text (c07Interp):
// its trace is the implementation-only oracle.  Programs that use a construct
// the reference does not cover ("exotic") are compared with the model only.
//
// Termination by construction: every loop variable is a fresh name that the
// body never assigns, while-loops increment first (or in the condition), the
// call graph is acyclic, for-in never changes the iterated array
// structurally, and the static worst-case iteration product is bounded.

import (
	"bytes"
	"encoding/json"
	"fmt"
	"math/rand"
	"os"
	"sort"
	"strconv"
	"strings"
)

// ---------------------------------------------------------------- values

type c07Unset struct{}

type c07Sig int

const (
	c07None c07Sig = iota
	c07Brk
	c07Cont
	c07Ret
	c07Next
	c07Exit
	c07Fail // the reference cannot decide this program (no oracle)
)

func c07Num(v interface{}) float64 {
	switch x := v.(type) {
	case float64:
		return x
	case bool:
		if x {
			return 1
		}
		return 0
	case string:
		f, err := strconv.ParseFloat(x, 64)
		if err != nil {
			return 0
		}
		return f
	}
	return 0
}

func c07Truthy(v interface{}) bool {
	switch x := v.(type) {
	case float64:
		return x != 0
	case bool:
		return x
	case string:
		return x != ""
	case []interface{}, map[string]interface{}:
		return true
	}
	return false
}

func c07Pretty(v interface{}, quote bool) string {
	switch x := v.(type) {
	case c07Unset:
		return "<unknown>"
	case nil:
		return "null"
	case bool:
		if x {
			return "true"
		}
		return "false"
	case float64:
		return strconv.FormatFloat(x, 'f', -1, 64)
	case string:
		if quote {
			return "\"" + x + "\""
		}
		return x
	case []interface{}:
		parts := make([]string, len(x))
		for i, e := range x {
			parts[i] = c07Pretty(e, true)
		}
		return "[" + strings.Join(parts, ", ") + "]"
	case map[string]interface{}:
		keys := make([]string, 0, len(x))
		for k := range x {
			keys = append(keys, k)
		}
		sort.Strings(keys)
		parts := make([]string, len(keys))
		for i, k := range keys {
			parts[i] = "\"" + k + "\": " + c07Pretty(x[k], true)
		}
		return "{" + strings.Join(parts, ", ") + "}"
	}
	return "<?>"
}

// c07Cmp: the three-way comparison of DESIGN 3.5 for scalars; ok=false when a
// container (runtime error) or an unset operand is involved.
func c07Cmp(a, b interface{}) (int, bool) {
	if _, u := a.(c07Unset); u {
		return 0, false
	}
	if _, u := b.(c07Unset); u {
		return 0, false
	}
	if a == nil && b == nil {
		return 0, true
	}
	if a == nil {
		return -1, true
	}
	if b == nil {
		return 1, true
	}
	switch a.(type) {
	case []interface{}, map[string]interface{}:
		return 0, false
	}
	switch b.(type) {
	case []interface{}, map[string]interface{}:
		return 0, false
	}
	if sa, ok := a.(string); ok {
		if sb, ok := b.(string); ok {
			return strings.Compare(sa, sb), true
		}
	}
	x, y := c07Num(a), c07Num(b)
	if x > y {
		return 1, true
	}
	if x < y {
		return -1, true
	}
	return 0, true
}

// ---------------------------------------------------------------- AST

type c07Expr struct {
	text string
	eval func(in *c07Interp) (interface{}, c07Sig) // nil: not covered by the reference
}

type c07Case struct {
	lits []int  // literal patterns (nil for an identifier pattern)
	bind string // identifier pattern
	body *c07Stmt
}

type c07Stmt struct {
	kind  string // print if while for forin block break continue return next exit assign call match raw
	id    int
	args  []*c07Expr // print arguments
	cond  *c07Expr   // if / while / for condition; return / assign / call expression; match subject; forin iterable
	body  *c07Stmt
	els   *c07Stmt
	list  []*c07Stmt
	v1    string // loop variable, assign target; match: name of the subject when it is a bare variable (bindings alias its cell)
	v2    string // second for-in variable
	form  int    // while: 0 increment first in body, 1 increment in the condition; for: 0 up, 1 down, 2 step 2
	bound *c07Expr
	cases []c07Case
	raw   string // kind raw: text of an exotic statement
	style int    // rendering variation
}

type c07Func struct {
	name   string
	params []string
	kinds  []string // "int" | "iter"
	body   *c07Stmt
	cost   int
	next   bool // may execute `next` (itself or through a callee)
}

type c07Rule struct {
	kind string // BEGIN END BEGINFILE ENDFILE main
	pat  *c07Expr
	body *c07Stmt
}

type c07Prog struct {
	funcs []*c07Func
	rules []c07Rule
}

// ---------------------------------------------------------------- rendering

func c07OpenIf(s *c07Stmt) bool {
	switch s.kind {
	case "if":
		if s.els == nil {
			return true
		}
		return c07OpenIf(s.els)
	case "for", "forin":
		return c07OpenIf(s.body)
	}
	return false
}

func c07Header(s *c07Stmt) string {
	switch s.kind {
	case "if":
		return "if (" + s.cond.text + ")"
	case "while":
		if s.form == 1 {
			return "while (" + s.v1 + "++ < " + s.bound.text + ")"
		}
		return "while (" + s.v1 + " < " + s.bound.text + ")"
	case "for":
		switch s.form {
		case 1:
			return fmt.Sprintf("for (%s = %s; %s > 0; %s--)", s.v1, s.bound.text, s.v1, s.v1)
		case 2:
			return fmt.Sprintf("for (%s = 0; %s < %s; %s += 2)", s.v1, s.v1, s.bound.text, s.v1)
		}
		post := s.v1 + "++"
		if s.style%2 == 1 {
			post = s.v1 + " = " + s.v1 + " + 1"
		}
		return fmt.Sprintf("for (%s = 0; %s < %s; %s)", s.v1, s.v1, s.bound.text, post)
	case "forin":
		if s.v2 != "" {
			return fmt.Sprintf("for (%s, %s in %s)", s.v1, s.v2, s.cond.text)
		}
		return fmt.Sprintf("for (%s in %s)", s.v1, s.cond.text)
	}
	return ""
}

// c07Body renders the body of a compound statement after its header line.
func c07Body(lines *[]string, head string, body *c07Stmt, ind string) {
	if body.kind == "block" {
		*lines = append(*lines, ind+head+" {")
		for _, s := range body.list {
			c07Render(lines, s, ind+"  ")
		}
		*lines = append(*lines, ind+"}")
		return
	}
	*lines = append(*lines, ind+head)
	c07Render(lines, body, ind+"  ")
}

func c07Render(lines *[]string, s *c07Stmt, ind string) {
	switch s.kind {
	case "print":
		parts := make([]string, len(s.args))
		for i, a := range s.args {
			parts[i] = a.text
		}
		*lines = append(*lines, ind+"print "+strings.Join(parts, ", "))
	case "break", "continue", "next", "exit":
		*lines = append(*lines, ind+s.kind)
	case "return":
		if s.cond == nil {
			*lines = append(*lines, ind+"return")
		} else {
			*lines = append(*lines, ind+"return "+s.cond.text)
		}
	case "assign":
		*lines = append(*lines, ind+s.v1+" = "+s.cond.text)
	case "store":
		*lines = append(*lines, ind+c07StoreText(s))
	case "call":
		*lines = append(*lines, ind+s.cond.text)
	case "raw":
		for _, l := range strings.Split(s.raw, "\n") {
			*lines = append(*lines, ind+l)
		}
	case "block":
		*lines = append(*lines, ind+"{")
		for _, x := range s.list {
			c07Render(lines, x, ind+"  ")
		}
		*lines = append(*lines, ind+"}")
	case "if":
		body := s.body
		if s.els != nil && body.kind != "block" && c07OpenIf(body) {
			// an unbraced then-branch ending in an else-less if would capture this
			// else: brace it (the dangling form itself is generated on purpose)
			body = &c07Stmt{kind: "block", list: []*c07Stmt{body}}
		}
		c07Body(lines, c07Header(s), body, ind)
		if s.els != nil {
			last := len(*lines) - 1
			if body.kind == "block" && s.style%2 == 0 {
				// "} else ..." on one line
				*lines = (*lines)[:last]
				c07Body(lines, "} else", s.els, ind)
			} else {
				c07Body(lines, "else", s.els, ind)
			}
		}
	case "while":
		if s.form == 1 {
			*lines = append(*lines, ind+s.v1+" = 0")
			c07Body(lines, c07Header(s), s.body, ind)
		} else {
			*lines = append(*lines, ind+s.v1+" = 0")
			// the increment is the first statement of the (always braced) body
			*lines = append(*lines, ind+c07Header(s)+" {")
			*lines = append(*lines, ind+"  "+s.v1+"++")
			for _, x := range s.body.list {
				c07Render(lines, x, ind+"  ")
			}
			*lines = append(*lines, ind+"}")
		}
	case "for", "forin":
		c07Body(lines, c07Header(s), s.body, ind)
	case "match":
		*lines = append(*lines, ind+"match ("+s.cond.text+") {")
		for _, c := range s.cases {
			pat := c.bind
			if c.lits != nil {
				ps := make([]string, len(c.lits))
				for i, l := range c.lits {
					ps[i] = fmt.Sprint(l)
				}
				pat = strings.Join(ps, ", ")
			}
			*lines = append(*lines, ind+"  "+pat+" => {")
			for _, x := range c.body.list {
				c07Render(lines, x, ind+"    ")
			}
			*lines = append(*lines, ind+"  }")
		}
		*lines = append(*lines, ind+"}")
	}
}

func (p *c07Prog) text() string {
	var lines []string
	for _, f := range p.funcs {
		lines = append(lines, "function "+f.name+"("+strings.Join(f.params, ", ")+") {")
		for _, s := range f.body.list {
			c07Render(&lines, s, "  ")
		}
		lines = append(lines, "}")
	}
	for _, r := range p.rules {
		head := ""
		switch r.kind {
		case "BEGIN", "END", "BEGINFILE", "ENDFILE":
			head = r.kind + " "
		default:
			if r.pat != nil {
				head = r.pat.text + " "
			}
		}
		lines = append(lines, head+"{")
		for _, s := range r.body.list {
			c07Render(&lines, s, "  ")
		}
		lines = append(lines, "}")
	}
	return strings.Join(lines, "\n") + "\n"
}

// ---------------------------------------------------------------- reference interpreter

type c07Cell struct{ v interface{} }

type c07Interp struct {
	frames []map[string]*c07Cell
	out    bytes.Buffer
	dollar interface{}
	index  interface{}
	retVal interface{}
	funcs  map[string]*c07Func
	steps  int
	cover  map[string]int
}

// lookup: dynamic scoping — every frame outward; a name found nowhere is
// created unset in the innermost frame.
func (in *c07Interp) lookup(name string) *c07Cell {
	for i := len(in.frames) - 1; i >= 0; i-- {
		if c, ok := in.frames[i][name]; ok {
			return c
		}
	}
	c := &c07Cell{c07Unset{}}
	in.frames[len(in.frames)-1][name] = c
	return c
}

func (in *c07Interp) tick() bool {
	in.steps++
	return in.steps > 200000
}

func (in *c07Interp) call(f *c07Func, args []interface{}) (interface{}, c07Sig) {
	frame := map[string]*c07Cell{}
	for i, p := range f.params {
		if i < len(args) {
			frame[p] = &c07Cell{args[i]}
		} else {
			frame[p] = &c07Cell{nil}
		}
	}
	in.frames = append(in.frames, frame)
	sig := in.exec(f.body)
	in.frames = in.frames[:len(in.frames)-1]
	switch sig {
	case c07Ret:
		in.cover["ret"]++
		return in.retVal, c07None
	case c07None:
		return nil, c07None
	}
	return nil, sig
}

func (in *c07Interp) exec(s *c07Stmt) c07Sig {
	if in.tick() {
		return c07Fail
	}
	switch s.kind {
	case "print":
		parts := make([]string, len(s.args))
		for i, a := range s.args {
			if a.eval == nil {
				return c07Fail
			}
			v, sig := a.eval(in)
			if sig != c07None {
				return sig
			}
			parts[i] = c07Pretty(v, false)
		}
		in.out.WriteString(strings.Join(parts, " ") + "\n")
	case "break":
		return c07Brk
	case "continue":
		return c07Cont
	case "next":
		return c07Next
	case "exit":
		return c07Exit
	case "return":
		if s.cond == nil {
			in.retVal = nil
			return c07Ret
		}
		if s.cond.eval == nil {
			return c07Fail
		}
		v, sig := s.cond.eval(in)
		if sig != c07None {
			return sig
		}
		in.retVal = v
		return c07Ret
	case "assign":
		if s.cond.eval == nil {
			return c07Fail
		}
		// the left side is evaluated (looked up / created) first
		cell := in.lookup(s.v1)
		v, sig := s.cond.eval(in)
		if sig != c07None {
			return sig
		}
		cell.v = v
	case "store":
		return in.store(s)
	case "call":
		if s.cond.eval == nil {
			return c07Fail
		}
		_, sig := s.cond.eval(in)
		return sig
	case "raw":
		return c07Fail
	case "block":
		for _, x := range s.list {
			if sig := in.exec(x); sig != c07None {
				return sig
			}
		}
	case "if":
		if s.cond.eval == nil {
			return c07Fail
		}
		v, sig := s.cond.eval(in)
		if sig != c07None {
			return sig
		}
		if c07Truthy(v) {
			return in.exec(s.body)
		} else if s.els != nil {
			return in.exec(s.els)
		}
	case "while":
		if s.bound.eval == nil {
			return c07Fail
		}
		in.lookup(s.v1).v = float64(0)
		for {
			if in.tick() {
				return c07Fail
			}
			// v1 < bound  /  v1++ < bound
			cell := in.lookup(s.v1)
			cur := c07Num(cell.v)
			if s.form == 1 {
				cell.v = cur + 1
			}
			b, sig := s.bound.eval(in)
			if sig != c07None {
				return sig
			}
			c, ok := c07Cmp(cur, b)
			if !ok {
				return c07Fail
			}
			if !(c < 0) {
				break
			}
			if s.form == 0 {
				cell := in.lookup(s.v1)
				cell.v = c07Num(cell.v) + 1
			}
			sig = in.exec(s.body)
			if sig == c07Brk {
				in.cover["brk"]++
				break
			}
			if sig == c07Cont {
				in.cover["cont"]++
				continue
			}
			if sig != c07None {
				return sig
			}
		}
	case "for":
		if s.bound.eval == nil {
			return c07Fail
		}
		// pre-expression
		cell := in.lookup(s.v1)
		if s.form == 1 {
			b, sig := s.bound.eval(in)
			if sig != c07None {
				return sig
			}
			cell.v = b
		} else {
			cell.v = float64(0)
		}
		for {
			if in.tick() {
				return c07Fail
			}
			cell := in.lookup(s.v1)
			var c int
			var ok bool
			if s.form == 1 {
				c, ok = c07Cmp(cell.v, float64(0))
				c = -c
			} else {
				b, sig := s.bound.eval(in)
				if sig != c07None {
					return sig
				}
				c, ok = c07Cmp(in.lookup(s.v1).v, b)
			}
			if !ok {
				return c07Fail
			}
			if !(c < 0) {
				break
			}
			sig := in.exec(s.body)
			if sig == c07Brk {
				in.cover["brk"]++
				break
			}
			if sig == c07Cont {
				in.cover["cont"]++
			} else if sig != c07None {
				return sig
			}
			// the post-expression runs after a completed and after a continued iteration
			cell = in.lookup(s.v1)
			switch s.form {
			case 1:
				cell.v = c07Num(cell.v) - 1
			case 2:
				cell.v = c07Num(cell.v) + 2
			default:
				cell.v = c07Num(cell.v) + 1
			}
		}
	case "forin":
		if s.cond.eval == nil {
			return c07Fail
		}
		local := in.lookup(s.v1)
		var idx *c07Cell
		if s.v2 != "" {
			idx = in.lookup(s.v2)
		}
		it, sig := s.cond.eval(in)
		if sig != c07None {
			return sig
		}
		// the positions (array), keys (object, sorted) and characters (string) are fixed when the
		// loop starts; the element of an array and the value of an object are READ WHEN THEIR TURN
		// COMES, so a store the body made to a slot not yet visited is what that pass sees
		type pair struct{ a, b func() interface{} }
		konst := func(v interface{}) func() interface{} { return func() interface{} { return v } }
		var items []pair
		switch x := it.(type) {
		case []interface{}:
			for i := range x {
				i := i
				items = append(items, pair{func() interface{} { return x[i] }, konst(float64(i))})
			}
		case map[string]interface{}:
			keys := make([]string, 0, len(x))
			for k := range x {
				keys = append(keys, k)
			}
			sort.Strings(keys)
			for _, k := range keys {
				k := k
				items = append(items, pair{konst(k), func() interface{} { return x[k] }})
			}
		case string:
			for off, r := range x {
				items = append(items, pair{konst(string(r)), konst(float64(off))})
			}
		default:
			return c07Fail
		}
		in.cover["forin"+fmt.Sprint(len(items) == 0)]++
		for _, p := range items {
			if in.tick() {
				return c07Fail
			}
			if idx != nil {
				idx.v = p.b()
			}
			local.v = p.a()
			sig := in.exec(s.body)
			if sig == c07Brk {
				in.cover["brk"]++
				break
			}
			if sig == c07Cont {
				in.cover["cont"]++
				continue
			}
			if sig != c07None {
				return sig
			}
		}
	case "match":
		if s.cond.eval == nil {
			return c07Fail
		}
		v, sig := s.cond.eval(in)
		if sig != c07None {
			return sig
		}
		for _, c := range s.cases {
			hit := false
			if c.lits == nil {
				hit = true
			} else {
				for _, l := range c.lits {
					if cmp, ok := c07Cmp(v, float64(l)); ok && cmp == 0 {
						hit = true
						break
					} else if !ok {
						if _, u := v.(c07Unset); !u {
							return c07Fail
						}
					}
				}
			}
			if hit {
				frame := map[string]*c07Cell{}
				if c.lits == nil {
					// an identifier pattern binds the subject's own cell
					if s.v1 != "" {
						frame[c.bind] = in.lookup(s.v1)
					} else {
						frame[c.bind] = &c07Cell{v}
					}
				}
				in.frames = append(in.frames, frame)
				sig := in.exec(c.body)
				in.frames = in.frames[:len(in.frames)-1]
				return sig
			}
		}
	}
	return c07None
}

// run executes the whole program over the records of the (array) root.
func (in *c07Interp) run(p *c07Prog, records []interface{}) c07Sig {
	return in.runRoots(p, [][]interface{}{records})
}

// runRoots executes the whole program over a sequence of array roots (the values of a
// stream, of several files, or the results of several root selectors): BEGIN rules,
// then per root the BEGINFILE rules, the main rules per record, the ENDFILE rules,
// then the END rules. `next` in a special rule finishes that rule; `exit` anywhere
// ends the whole run at once.
func (in *c07Interp) runRoots(p *c07Prog, roots [][]interface{}) c07Sig {
	in.frames = []map[string]*c07Cell{{}}
	in.cover = map[string]int{}
	in.funcs = map[string]*c07Func{}
	for _, f := range p.funcs {
		in.funcs[f.name] = f
	}
	special := func(kind string, dollar interface{}) c07Sig {
		for _, r := range p.rules {
			if r.kind != kind {
				continue
			}
			in.dollar = dollar
			sig := in.exec(r.body)
			if sig == c07Next {
				in.cover["next"]++
				continue
			}
			if sig == c07Exit && kind != "BEGIN" && kind != "END" {
				in.cover["exit_in_"+kind]++
			}
			if sig != c07None {
				return sig
			}
		}
		return c07None
	}
	if sig := special("BEGIN", nil); sig != c07None {
		return sig
	}
	for _, records := range roots {
		var rootVal interface{} = records
		if records == nil {
			rootVal = []interface{}{}
		}
		if sig := special("BEGINFILE", rootVal); sig != c07None {
			return sig
		}
		for i, rec := range records {
			in.dollar = rec
			in.index = float64(i)
			for _, r := range p.rules {
				if r.kind != "main" {
					continue
				}
				if r.pat != nil {
					if r.pat.eval == nil {
						return c07Fail
					}
					v, sig := r.pat.eval(in)
					if sig == c07Next {
						// next executed while the pattern is evaluated: like next in a body
						in.cover["next_in_pattern"]++
						break
					}
					if sig != c07None {
						return sig
					}
					if !c07Truthy(v) {
						continue
					}
				}
				sig := in.exec(r.body)
				if sig == c07Next {
					in.cover["next"]++
					break
				}
				if sig != c07None {
					return sig
				}
			}
		}
		if sig := special("ENDFILE", rootVal); sig != c07None {
			return sig
		}
	}
	return special("END", nil)
}

// ---------------------------------------------------------------- expression builders

func c07Lit(n int) *c07Expr {
	v := float64(n)
	return &c07Expr{fmt.Sprint(n), func(*c07Interp) (interface{}, c07Sig) { return v, c07None }}
}

func c07StrE(r *rand.Rand, s string) *c07Expr {
	l, ok := strLit(r, s)
	if !ok {
		l = `"x"`
		s = "x"
	}
	return &c07Expr{l, func(*c07Interp) (interface{}, c07Sig) { return s, c07None }}
}

func c07Var(name string) *c07Expr {
	return &c07Expr{name, func(in *c07Interp) (interface{}, c07Sig) { return in.lookup(name).v, c07None }}
}

// $.field
func c07Field(name string) *c07Expr {
	return &c07Expr{"$." + name, func(in *c07Interp) (interface{}, c07Sig) {
		switch d := in.dollar.(type) {
		case map[string]interface{}:
			if v, ok := d[name]; ok {
				return v, c07None
			}
			return nil, c07None
		case nil:
			return nil, c07None
		}
		return nil, c07Fail
	}}
}

// e.length() on an array
func c07Len(e *c07Expr) *c07Expr {
	return &c07Expr{e.text + ".length()", func(in *c07Interp) (interface{}, c07Sig) {
		v, sig := e.eval(in)
		if sig != c07None {
			return nil, sig
		}
		if a, ok := v.([]interface{}); ok {
			return float64(len(a)), c07None
		}
		return nil, c07Fail
	}}
}

// a[i] with a non-negative index: element, or null past the end
func c07Index(a, i *c07Expr) *c07Expr {
	return &c07Expr{a.text + "[" + i.text + "]", func(in *c07Interp) (interface{}, c07Sig) {
		av, sig := a.eval(in)
		if sig != c07None {
			return nil, sig
		}
		iv, sig := i.eval(in)
		if sig != c07None {
			return nil, sig
		}
		arr, ok := av.([]interface{})
		f, ok2 := iv.(float64)
		if !ok || !ok2 || f < 0 {
			return nil, c07Fail
		}
		if int(f) >= len(arr) {
			return nil, c07None
		}
		return arr[int(f)], c07None
	}}
}

func c07Bin(op string, a, b *c07Expr) *c07Expr {
	text := "(" + a.text + " " + op + " " + b.text + ")"
	if a.eval == nil || b.eval == nil {
		return &c07Expr{text, nil}
	}
	return &c07Expr{text, func(in *c07Interp) (interface{}, c07Sig) {
		x, sig := a.eval(in)
		if sig != c07None {
			return nil, sig
		}
		if op == "&&" {
			if !c07Truthy(x) {
				return false, c07None
			}
			y, sig := b.eval(in)
			if sig != c07None {
				return nil, sig
			}
			return c07Truthy(y), c07None
		}
		if op == "||" {
			if c07Truthy(x) {
				return true, c07None
			}
			y, sig := b.eval(in)
			if sig != c07None {
				return nil, sig
			}
			return c07Truthy(y), c07None
		}
		y, sig := b.eval(in)
		if sig != c07None {
			return nil, sig
		}
		switch op {
		case "+":
			_, sx := x.(string)
			_, sy := y.(string)
			if sx || sy {
				return nil, c07Fail
			}
			return c07Num(x) + c07Num(y), c07None
		case "%":
			j := int(c07Num(y))
			if j == 0 {
				return nil, c07Fail
			}
			return float64(int(c07Num(x)) % j), c07None
		}
		_, ux := x.(c07Unset)
		_, uy := y.(c07Unset)
		if ux || uy {
			return op == "<" || op == ">", c07None
		}
		c, ok := c07Cmp(x, y)
		if !ok {
			return nil, c07Fail
		}
		switch op {
		case "<":
			return c < 0, c07None
		case "<=":
			return c <= 0, c07None
		case ">":
			return c > 0, c07None
		case ">=":
			return c >= 0, c07None
		case "==":
			return c == 0, c07None
		case "!=":
			return c != 0, c07None
		}
		return nil, c07Fail
	}}
}

func c07Not(a *c07Expr) *c07Expr {
	if a.eval == nil {
		return &c07Expr{"!" + a.text, nil}
	}
	return &c07Expr{"!" + a.text, func(in *c07Interp) (interface{}, c07Sig) {
		x, sig := a.eval(in)
		if sig != c07None {
			return nil, sig
		}
		return !c07Truthy(x), c07None
	}}
}

func c07Call(f *c07Func, args []*c07Expr) *c07Expr {
	parts := make([]string, len(args))
	interp := true
	for i, a := range args {
		parts[i] = a.text
		if a.eval == nil {
			interp = false
		}
	}
	text := f.name + "(" + strings.Join(parts, ", ") + ")"
	if !interp {
		return &c07Expr{text, nil}
	}
	return &c07Expr{text, func(in *c07Interp) (interface{}, c07Sig) {
		vals := make([]interface{}, len(args))
		for i, a := range args {
			v, sig := a.eval(in)
			if sig != c07None {
				return nil, sig
			}
			vals[i] = v
		}
		return in.call(f, vals)
	}}
}

// array / object literal of scalars
func c07ArrLit(r *rand.Rand, elems []interface{}) *c07Expr {
	parts := make([]string, len(elems))
	for i, e := range elems {
		switch x := e.(type) {
		case float64:
			parts[i] = numLit(x)
		case string:
			parts[i] = mustStrLit(x)
		case bool:
			parts[i] = fmt.Sprint(x)
		default:
			parts[i] = "null"
		}
	}
	cp := append([]interface{}{}, elems...)
	return &c07Expr{"[" + strings.Join(parts, ", ") + "]", func(*c07Interp) (interface{}, c07Sig) { return cp, c07None }}
}

// c07ECase is one case of a match EXPRESSION: literal patterns or an identifier
// pattern; the body is an expression (its value is the value of the match) or a
// block (the match is null when the block completes; a jump in it passes through).
type c07ECase struct {
	lits  []int
	bind  string
	block *c07Stmt
	val   *c07Expr
}

func c07MatchE(subj *c07Expr, cases []c07ECase) *c07Expr {
	var lines []string
	lines = append(lines, "match ("+subj.text+") {")
	interp := subj.eval != nil
	for i, c := range cases {
		pat := c.bind
		if c.lits != nil {
			ps := make([]string, len(c.lits))
			for j, l := range c.lits {
				ps[j] = fmt.Sprint(l)
			}
			pat = strings.Join(ps, ", ")
		}
		if c.block != nil {
			lines = append(lines, "    "+pat+" => {")
			for _, x := range c.block.list {
				c07Render(&lines, x, "      ")
			}
			lines = append(lines, "    }")
		} else {
			if c.val.eval == nil {
				interp = false
			}
			sep := ","
			if i == len(cases)-1 {
				sep = ""
			}
			lines = append(lines, "    "+pat+" => "+c.val.text+sep)
		}
	}
	lines = append(lines, "  }")
	text := strings.Join(lines, "\n")
	if !interp {
		return &c07Expr{text, nil}
	}
	return &c07Expr{text, func(in *c07Interp) (interface{}, c07Sig) {
		v, sig := subj.eval(in)
		if sig != c07None {
			return nil, sig
		}
		for _, c := range cases {
			hit := c.lits == nil
			for _, l := range c.lits {
				cmp, ok := c07Cmp(v, float64(l))
				if !ok {
					if _, u := v.(c07Unset); !u {
						return nil, c07Fail
					}
					continue
				}
				if cmp == 0 {
					hit = true
					break
				}
			}
			if !hit {
				continue
			}
			frame := map[string]*c07Cell{}
			if c.lits == nil {
				frame[c.bind] = &c07Cell{v}
			}
			in.frames = append(in.frames, frame)
			defer func() { in.frames = in.frames[:len(in.frames)-1] }()
			in.cover["match_expr"]++
			if c.block != nil {
				if sig := in.exec(c.block); sig != c07None {
					return nil, sig
				}
				return nil, c07None
			}
			return c.val.eval(in)
		}
		return nil, c07None
	}}
}

// ---------------------------------------------------------------- generator

const c07Budget = 160 // static worst-case iteration product

type c07Gen struct {
	r       *rand.Rand
	nextID  int
	nextVar int
	nodes   int // remaining statement budget
	exotic  bool
	funcs   []*c07Func
	allVars []string
	records []interface{}
	jumps   map[string]int // generated jump statements by kind
	mayNext bool           // the unit being generated contains a reachable-looking `next`
}

type c07Ctx struct {
	depth    int
	inLoop   bool
	inFunc   bool
	inRecord bool // `$` is a record here
	mult     int
	intVars  []string
	iterVars []string
	fnIdx    int
	cost     *int
	inMatch  bool
	noNext   bool // unused now: `next` executed while a pattern is evaluated used to leak as an untyped error (repaired in 8900bea)
}

func (g *c07Gen) fresh(prefix string) string {
	g.nextVar++
	n := fmt.Sprintf("%s%d", prefix, g.nextVar)
	g.allVars = append(g.allVars, n)
	return n
}

func (g *c07Gen) trace(c c07Ctx) *c07Stmt {
	g.nextID++
	args := []*c07Expr{c07StrE(nil, fmt.Sprintf("T%d", g.nextID))}
	// show some variables: the loop variables in scope, and now and then any name
	for _, v := range c.intVars {
		if chance(g.r, 0.6) {
			args = append(args, c07Var(v))
		}
	}
	if len(g.allVars) > 0 && chance(g.r, 0.5) {
		args = append(args, c07Var(pick(g.r, g.allVars)))
	}
	if len(g.allVars) > 0 && chance(g.r, 0.2) {
		args = append(args, c07Var(pick(g.r, g.allVars)))
	}
	if c.inRecord && chance(g.r, 0.1) {
		args = append(args, &c07Expr{"$index", func(in *c07Interp) (interface{}, c07Sig) { return in.index, c07None }})
	}
	if len(args) > 5 {
		args = args[:5]
	}
	return &c07Stmt{kind: "print", id: g.nextID, args: args}
}

// intExpr: an expression whose value is a small non-negative integer
func (g *c07Gen) intExpr(c c07Ctx, d int) *c07Expr {
	k := g.r.Intn(10)
	switch {
	case k < 3 || d > 1:
		return c07Lit(g.r.Intn(5))
	case k < 6 && len(c.intVars) > 0:
		return c07Var(pick(g.r, c.intVars))
	case k < 7 && c.inRecord:
		return c07Field(pick(g.r, []string{"n", "m"}))
	case k < 8:
		return c07Bin("+", g.intExpr(c, d+1), g.intExpr(c, d+1))
	case k < 9:
		return c07Bin("%", g.intExpr(c, d+1), c07Lit(2+g.r.Intn(2)))
	case c.inRecord:
		return c07Len(c07Field("arr"))
	}
	return c07Lit(g.r.Intn(4))
}

// bound: a loop bound of value <= 4 (data-driven where possible); returns the static maximum
func (g *c07Gen) bound(c c07Ctx) (*c07Expr, int) {
	k := g.r.Intn(10)
	switch {
	case c.inRecord && k < 4:
		return c07Field(pick(g.r, []string{"n", "m"})), 4
	case c.inRecord && k < 5:
		return c07Len(c07Field(pick(g.r, []string{"arr", "flags", "empty", "nested"}))), 4
	case k < 7:
		for _, v := range c.intVars {
			if strings.HasPrefix(v, "p") { // an int parameter: callers pass small values
				return c07Var(v), 8
			}
		}
	}
	n := g.r.Intn(5)
	return c07Lit(n), n
}

func (g *c07Gen) condExpr(c c07Ctx, d int) *c07Expr {
	k := g.r.Intn(12)
	if d > 1 && k >= 8 {
		k = g.r.Intn(8)
	}
	switch {
	case k < 4:
		return c07Bin(pick(g.r, []string{"<", "<=", ">", ">=", "==", "!="}), g.intExpr(c, 0), g.intExpr(c, 1))
	case k < 6:
		return c07Bin("==", c07Bin("%", g.intExpr(c, 1), c07Lit(2)), c07Lit(g.r.Intn(2)))
	case k < 7:
		if c.inRecord {
			return c07Index(c07Field("flags"), g.intExpr(c, 1))
		}
		return g.intExpr(c, 0)
	case k < 8:
		return pick(g.r, []*c07Expr{
			{"true", func(*c07Interp) (interface{}, c07Sig) { return true, c07None }},
			{"false", func(*c07Interp) (interface{}, c07Sig) { return false, c07None }},
			{"null", func(*c07Interp) (interface{}, c07Sig) { return nil, c07None }},
			{"''", func(*c07Interp) (interface{}, c07Sig) { return "", c07None }},
			{"'0'", func(*c07Interp) (interface{}, c07Sig) { return "0", c07None }},
			{"[]", func(*c07Interp) (interface{}, c07Sig) { return []interface{}{}, c07None }},
		})
	case k < 9:
		return c07Not(g.condExpr(c, d+1))
	case k < 10:
		return c07Bin(pick(g.r, []string{"&&", "||"}), g.condExpr(c, d+1), g.condExpr(c, d+1))
	case k < 11:
		if e := g.callExpr(c); e != nil {
			return e
		}
	}
	if g.exotic && c.inRecord && chance(g.r, 0.5) {
		// a condition over arbitrary document data (kinds mix freely): model only
		return &c07Expr{pick(g.r, []string{"$.misc", "$.misc[0]", "$.str", "$.obj.a", "$.arr[1] > $.n", "$.misc == $.n", "$.str < $.arr[0]"}), nil}
	}
	return c07Bin("<", g.intExpr(c, 0), g.intExpr(c, 0))
}

// callExpr: a call of an earlier function with arguments fitting its parameter kinds
// (sometimes fewer or more than its arity); nil when no function fits the budget.
func (g *c07Gen) callExpr(c c07Ctx) *c07Expr {
	var ok []*c07Func
	for _, f := range g.funcs[:c.fnIdx] {
		if c.mult*f.cost <= c07Budget && !(c.noNext && f.next) {
			ok = append(ok, f)
		}
	}
	if len(ok) == 0 {
		return nil
	}
	return g.callOf(c, pick(g.r, ok))
}

// callOf: a call of f with arguments fitting its parameter kinds.
func (g *c07Gen) callOf(c c07Ctx, f *c07Func) *c07Expr {
	if f.next {
		g.mayNext = true
	}
	if c.mult*f.cost > *c.cost {
		*c.cost = c.mult * f.cost
	}
	var args []*c07Expr
	for _, k := range f.kinds {
		if k == "iter" {
			args = append(args, g.iterExpr(c, true))
		} else {
			args = append(args, g.intExpr(c, 1))
		}
	}
	if chance(g.r, 0.1) && len(args) > 0 && f.kinds[len(args)-1] == "int" {
		args = args[:len(args)-1] // a missing trailing int argument is null
	} else if chance(g.r, 0.1) {
		args = append(args, g.intExpr(c, 1)) // a surplus argument is ignored
	}
	return c07Call(f, args)
}

var c07LitStrings = []string{"", "ab", "a\xc3\xa9z", "\xe6\x97\xa5\xe6\x9c\xac", "x\xffy", "\xc3", "\xf0\x9f\x99\x82!", "q\xe2\x82", "\x80\x80"}

// iterExpr: something iterable (array, object, string); safe = the reference knows its value
func (g *c07Gen) iterExpr(c c07Ctx, safe bool) *c07Expr {
	k := g.r.Intn(10)
	switch {
	case c.inRecord && k < 5:
		return c07Field(pick(g.r, []string{"arr", "obj", "str", "empty", "eobj", "estr", "nested", "flags", "arr", "obj", "str"}))
	case len(c.iterVars) > 0 && k < 8:
		return c07Var(pick(g.r, c.iterVars))
	case k < 9 || !c.inRecord:
		switch g.r.Intn(3) {
		case 0:
			n := g.r.Intn(4)
			el := make([]interface{}, n)
			for i := range el {
				el[i] = pick(g.r, []interface{}{float64(1), float64(7), "s", true, nil, float64(0)})
			}
			return c07ArrLit(g.r, el)
		case 1:
			return c07StrE(g.r, pick(g.r, c07LitStrings))
		default:
			keys := []string{"b", "a", "B", "c1", "c10", "c9"}
			g.r.Shuffle(len(keys), func(i, j int) { keys[i], keys[j] = keys[j], keys[i] })
			n := g.r.Intn(4)
			m := map[string]interface{}{}
			parts := []string{}
			for i := 0; i < n; i++ {
				m[keys[i]] = float64(i)
				parts = append(parts, fmt.Sprintf("%s: %d", keys[i], i))
			}
			return &c07Expr{"{" + strings.Join(parts, ", ") + "}", func(*c07Interp) (interface{}, c07Sig) { return m, c07None }}
		}
	}
	if g.exotic && !safe && c.inRecord {
		// any document value, iterable or not (a non-iterable is a runtime error)
		return &c07Expr{pick(g.r, []string{"$.misc", "$.misc[0]", "$.n", "$.nope", "$.obj.a", "$.str.split('')", "$.nested[0]"}), nil}
	}
	return c07Field("arr")
}

func (g *c07Gen) jump(c c07Ctx) *c07Stmt {
	var kinds []string
	if c.inLoop {
		kinds = append(kinds, "break", "break", "continue", "continue")
	}
	if c.inFunc {
		kinds = append(kinds, "return", "return", "return")
	}
	kinds = append(kinds, "next")
	if chance(g.r, 0.5) {
		kinds = append(kinds, "exit")
	}
	k := pick(g.r, kinds)
	g.jumps[k]++
	if k == "next" {
		g.mayNext = true
	}
	s := &c07Stmt{kind: k}
	if k == "return" && chance(g.r, 0.7) {
		s.cond = g.intExpr(c, 0)
	}
	return s
}

// simple: a statement that is not compound
func (g *c07Gen) simple(c c07Ctx) *c07Stmt {
	switch g.r.Intn(6) {
	case 0:
		return &c07Stmt{kind: "assign", v1: "acc", cond: c07Bin("+", c07Var("acc"), g.intExpr(c, 0))}
	case 1:
		if e := g.callExpr(c); e != nil {
			if chance(g.r, 0.5) {
				return &c07Stmt{kind: "assign", v1: "res", cond: e}
			}
			return &c07Stmt{kind: "call", cond: e}
		}
	case 2:
		if chance(g.r, 0.5) {
			return g.jump(c)
		}
	}
	return g.trace(c)
}

func (g *c07Gen) block(c c07Ctx, minLen int) *c07Stmt {
	n := minLen + g.r.Intn(3)
	b := &c07Stmt{kind: "block"}
	if chance(g.r, 0.5) {
		b.list = append(b.list, g.trace(c))
	}
	for i := 0; i < n && g.nodes > 0; i++ {
		s := g.stmt(c)
		b.list = append(b.list, s)
		if s.kind != "print" {
			b.list = append(b.list, g.trace(c))
		}
	}
	if len(b.list) == 0 {
		b.list = append(b.list, g.trace(c))
	}
	return b
}

// body: the body of an if / loop: a block, or (sometimes) a single unbraced statement
func (g *c07Gen) body(c c07Ctx, allowBare bool) *c07Stmt {
	if allowBare && chance(g.r, 0.3) {
		s := g.stmt(c)
		if s.kind != "while" && s.kind != "match" && s.kind != "raw" {
			return s
		}
		return &c07Stmt{kind: "block", list: []*c07Stmt{s, g.trace(c)}}
	}
	return g.block(c, 1)
}

func (g *c07Gen) stmt(c c07Ctx) *c07Stmt {
	g.nodes--
	if c.depth >= 6 || g.nodes <= 0 {
		return g.simple(c)
	}
	c.depth++
	k := g.r.Intn(100)
	switch {
	case k < 22: // if / else
		s := &c07Stmt{kind: "if", cond: g.condExpr(c, 0), style: g.r.Intn(4)}
		if chance(g.r, 0.25) {
			// guarded jump
			s.body = g.jump(c)
			if chance(g.r, 0.3) {
				s.els = g.body(c, true)
			}
			return s
		}
		s.body = g.body(c, true)
		if chance(g.r, 0.55) {
			if chance(g.r, 0.4) {
				// else-if chain
				s.els = &c07Stmt{kind: "if", cond: g.condExpr(c, 0), body: g.body(c, true), style: g.r.Intn(4)}
				if chance(g.r, 0.6) {
					s.els.els = g.body(c, true)
				}
			} else {
				s.els = g.body(c, true)
			}
		}
		return s
	case k < 27: // dangling else: if (a) if (b) S1 else S2 — the else belongs to the inner if
		inner := &c07Stmt{kind: "if", cond: g.condExpr(c, 0), body: g.simple(c), els: g.simple(c), style: 1}
		if chance(g.r, 0.3) {
			// through a loop header: if (a) for (...) if (b) S1 else S2
			b, max := g.bound(c)
			if c.mult*max <= c07Budget && max > 0 {
				v := g.fresh("i")
				inner = &c07Stmt{kind: "for", v1: v, bound: b, body: inner}
				if c.mult*max > *c.cost {
					*c.cost = c.mult * max
				}
			}
		}
		return &c07Stmt{kind: "if", cond: g.condExpr(c, 0), body: inner, style: 1}
	case k < 40: // while
		b, max := g.bound(c)
		if max == 0 {
			max = 1
		}
		if c.mult*max > c07Budget {
			return g.simple(c)
		}
		v := g.fresh("w")
		c2 := c
		c2.inLoop, c2.mult = true, c.mult*max
		c2.intVars = append(append([]string{}, c.intVars...), v)
		if c2.mult > *c.cost {
			*c.cost = c2.mult
		}
		s := &c07Stmt{kind: "while", v1: v, bound: b, form: g.r.Intn(2)}
		if s.form == 1 {
			s.body = g.body(c2, true)
		} else {
			s.body = g.block(c2, 1)
		}
		return s
	case k < 55: // three-clause for
		b, max := g.bound(c)
		if max == 0 {
			max = 1
		}
		if c.mult*max > c07Budget {
			return g.simple(c)
		}
		v := g.fresh("i")
		c2 := c
		c2.inLoop, c2.mult = true, c.mult*max
		c2.intVars = append(append([]string{}, c.intVars...), v)
		if c2.mult > *c.cost {
			*c.cost = c2.mult
		}
		form := 0
		if chance(g.r, 0.3) {
			form = 1 + g.r.Intn(2)
		}
		return &c07Stmt{kind: "for", v1: v, bound: b, form: form, style: g.r.Intn(2), body: g.body(c2, true)}
	case k < 75: // for-in
		if c.mult*4 > c07Budget {
			return g.simple(c)
		}
		it := g.iterExpr(c, false)
		v := g.fresh("x")
		s := &c07Stmt{kind: "forin", v1: v, cond: it}
		c2 := c
		c2.inLoop, c2.mult = true, c.mult*4
		if c2.mult > *c.cost {
			*c.cost = c2.mult
		}
		c2.intVars = append([]string{}, c.intVars...)
		c2.iterVars = append([]string{}, c.iterVars...)
		if chance(g.r, 0.5) {
			s.v2 = g.fresh("y")
		}
		// what the loop variables are known to hold
		switch it.text {
		case "$.nested":
			c2.iterVars = append(c2.iterVars, v)
			if s.v2 != "" {
				c2.intVars = append(c2.intVars, s.v2)
			}
		case "$.arr", "$.flags", "$.empty", "$.str", "$.estr":
			if s.v2 != "" {
				c2.intVars = append(c2.intVars, s.v2)
			}
		default:
			if s.v2 != "" && (strings.HasPrefix(it.text, "[") || strings.HasPrefix(it.text, "\"") || strings.HasPrefix(it.text, "'")) {
				c2.intVars = append(c2.intVars, s.v2)
			}
		}
		s.body = g.body(c2, true)
		if g.exotic && chance(g.r, 0.15) && s.body.kind == "block" && (it.text == "$.arr" || it.text == "$.obj") {
			// write to an element / add a member of the very container being iterated
			// (no structural change of an array): model only
			raw := pick(g.r, []string{"$.arr[0] = 'W'", "$.arr[$.arr.length() - 1] = [1]", "$.obj.a = 'W'", "$.obj.zz = 1", "$.obj.A0 = 2"})
			s.body.list = append([]*c07Stmt{{kind: "raw", raw: raw}}, s.body.list...)
		}
		return s
	case k < 82: // plain block
		return g.block(c, 1)
	case k < 90: // match statement with block bodies
		s := &c07Stmt{kind: "match", cond: g.intExpr(c, 0)}
		n := g.r.Intn(4)
		c2 := c
		c2.inMatch = true
		for i := 0; i < n; i++ {
			cs := c07Case{}
			if chance(g.r, 0.3) {
				cs.bind = g.fresh("b")
				c3 := c2
				c3.intVars = append(append([]string{}, c2.intVars...), cs.bind)
				cs.body = g.block(c3, 1)
			} else {
				m := 1 + g.r.Intn(3)
				for j := 0; j < m; j++ {
					cs.lits = append(cs.lits, g.r.Intn(5))
				}
				cs.body = g.block(c2, 1)
			}
			s.cases = append(s.cases, cs)
		}
		return s
	case k < 94 && g.exotic:
		return g.exoticStmt(c)
	}
	return g.simple(c)
}

// exoticStmt: constructs outside the reference interpreter (model comparison only)
func (g *c07Gen) exoticStmt(c c07Ctx) *c07Stmt {
	v := g.fresh("e")
	var raws []string
	// a runtime error in a loop condition at a later iteration
	raws = append(raws, fmt.Sprintf("for (%s = 0; 6 / (2 - %s) > 0; %s++)\n  print \"E\", %s", v, v, v, v))
	// a runtime error in the pre-expression
	raws = append(raws, fmt.Sprintf("for (%s = 1 / 0; %s < 2; %s++)\n  print \"E\", %s", v, v, v, v))
	// post-expression with a side effect that prints through a call
	raws = append(raws, fmt.Sprintf("for (%s = 0; %s < 3; %s = %s + 1)\n  if (%s == 1)\n    continue\n  else\n    print \"E\", %s", v, v, v, v, v, v))
	if c.inLoop {
		// break / continue inside a match in the condition of an inner loop act on the outer loop
		raws = append(raws, fmt.Sprintf("for (%s = 0; match (%s) { 2 => { print \"EB\"\n break }\n q => true }; %s++)\n  print \"E\", %s", v, v, v, v))
		raws = append(raws, fmt.Sprintf("%s = 0\nwhile (match (%s++) { 1 => { print \"EC\"\n continue }\n 3 => false, q => true })\n  print \"E\", %s", v, v, v))
	}
	if c.inRecord {
		raws = append(raws, fmt.Sprintf("for (%s in $.misc)\n  print \"E\", %s", v, v))
		raws = append(raws, fmt.Sprintf("for (%s, %s2 in $.misc) {\n  if (%s2 == 1) continue\n  print \"E\", %s, %s2\n}", v, v, v, v, v))
		raws = append(raws, fmt.Sprintf("%s = 0\nwhile (%s < $.str.length()) {\n  print \"E\", $.str[%s]\n  %s++\n}", v, v, v, v))
	}
	return &c07Stmt{kind: "raw", raw: pick(g.r, raws)}
}

// jumpOf: a jump statement of one of the given kinds (counted like the ones of jump).
func (g *c07Gen) jumpOf(c c07Ctx, kinds ...string) *c07Stmt {
	k := pick(g.r, kinds)
	g.jumps[k]++
	if k == "next" {
		g.mayNext = true
	}
	s := &c07Stmt{kind: k}
	if k == "return" && chance(g.r, 0.7) {
		s.cond = g.intExpr(c, 0)
	}
	return s
}

// guarded: `if (cond) jump` (sometimes the bare jump)
func (g *c07Gen) guarded(c c07Ctx, kinds ...string) *c07Stmt {
	j := g.jumpOf(c, kinds...)
	if chance(g.r, 0.15) {
		return j
	}
	return &c07Stmt{kind: "if", cond: g.condExpr(c, 1), body: j, style: g.r.Intn(4)}
}

// guardFunction: a function made to be called from a rule's PATTERN: it traces,
// leaves by next / exit / return under a condition on its argument, and returns a
// truth value.
func (g *c07Gen) guardFunction(idx int) *c07Func {
	f := &c07Func{name: fmt.Sprintf("f%d", idx), cost: 1}
	p := g.fresh("p")
	f.params, f.kinds = []string{p}, []string{"int"}
	c := c07Ctx{inFunc: true, mult: 1, fnIdx: idx, cost: &f.cost, intVars: []string{p}}
	g.mayNext = false
	b := &c07Stmt{kind: "block"}
	b.list = append(b.list, g.trace(c), g.guarded(c, "next", "next", "next", "exit", "return"), g.trace(c))
	if chance(g.r, 0.4) {
		if e := g.callExpr(c); e != nil && chance(g.r, 0.5) {
			b.list = append(b.list, &c07Stmt{kind: "assign", v1: "res", cond: e}, g.trace(c)) // next through a second call level
		} else {
			b.list = append(b.list, g.guarded(c, "next", "exit", "return", "return"), g.trace(c))
		}
	}
	g.jumps["return"]++
	b.list = append(b.list, &c07Stmt{kind: "return", cond: g.condExpr(c, 1)})
	f.body = b
	f.next = g.mayNext
	return f
}

// matchPattern: a match expression used as a rule pattern; block bodies trace and
// leave by next / exit, expression bodies give the truth value.
func (g *c07Gen) matchPattern(c c07Ctx) *c07Expr {
	subj := pick(g.r, []*c07Expr{c07Field("n"), c07Field("m"), c07Bin("%", c07Field("n"), c07Lit(3)), c07Len(c07Field("arr")), c07Bin("+", c07Field("n"), c07Field("m"))})
	if chance(g.r, 0.15) {
		if e := g.callExpr(c); e != nil {
			subj = e
		}
	}
	n := 1 + g.r.Intn(3)
	var cases []c07ECase
	for i := 0; i < n; i++ {
		cs := c07ECase{}
		c2 := c
		c2.inMatch = true
		if chance(g.r, 0.35) || (i == n-1 && chance(g.r, 0.5)) {
			cs.bind = g.fresh("b")
			c2.intVars = append(append([]string{}, c.intVars...), cs.bind)
		} else {
			for j, m := 0, 1+g.r.Intn(3); j < m; j++ {
				cs.lits = append(cs.lits, g.r.Intn(5))
			}
		}
		switch k := g.r.Intn(10); {
		case k < 5:
			b := &c07Stmt{kind: "block"}
			b.list = append(b.list, g.trace(c2))
			if chance(g.r, 0.85) {
				b.list = append(b.list, g.guarded(c2, "next", "next", "next", "exit"), g.trace(c2))
			}
			cs.block = b
		case k < 8:
			cs.val = g.condExpr(c2, 1)
		default:
			cs.val = g.intExpr(c2, 0)
		}
		cases = append(cases, cs)
	}
	return c07MatchE(subj, cases)
}

// pattern: the pattern of a main rule. A third of them can execute next / exit while
// they are evaluated (a call of a function that jumps, a match expression whose block
// bodies jump), bare or inside !, &&, ||, a comparison.
func (g *c07Gen) pattern() *c07Expr {
	cost := 1
	c := c07Ctx{inRecord: true, mult: 1, fnIdx: len(g.funcs), cost: &cost}
	var e *c07Expr
	switch k := g.r.Intn(10); {
	case k < 3:
		var js []*c07Func
		for _, f := range g.funcs {
			if f.next && f.cost <= c07Budget {
				js = append(js, f)
			}
		}
		if len(js) > 0 {
			e = g.callOf(c, pick(g.r, js))
		}
	case k < 5:
		e = g.matchPattern(c)
	}
	if e == nil {
		return g.condExpr(c, 1)
	}
	g.jumps["pattern-that-may-jump"]++
	switch g.r.Intn(8) {
	case 0:
		return c07Not(e)
	case 1:
		return c07Bin(pick(g.r, []string{"&&", "||"}), g.condExpr(c, 2), e)
	case 2:
		return c07Bin(pick(g.r, []string{"&&", "||"}), e, g.condExpr(c, 2))
	}
	return e
}

func (g *c07Gen) function(idx int) *c07Func {
	f := &c07Func{name: fmt.Sprintf("f%d", idx), cost: 1}
	n := g.r.Intn(4)
	c := c07Ctx{inFunc: true, mult: 1, fnIdx: idx, cost: &f.cost}
	for i := 0; i < n; i++ {
		if chance(g.r, 0.3) {
			p := g.fresh("q")
			f.params, f.kinds = append(f.params, p), append(f.kinds, "iter")
			c.iterVars = append(c.iterVars, p)
		} else {
			p := g.fresh("p")
			f.params, f.kinds = append(f.params, p), append(f.kinds, "int")
			c.intVars = append(c.intVars, p)
		}
	}
	g.mayNext = false
	f.body = g.block(c, 2)
	f.next = g.mayNext
	if chance(g.r, 0.6) {
		g.jumps["return"]++
		f.body.list = append(f.body.list, &c07Stmt{kind: "return", cond: g.intExpr(c, 0)})
	}
	return f
}

var c07ObjKeys = []string{"a", "b", "B", "10", "9", "\xc3\xa9", "zz", "k k", "", "aa"}

func (g *c07Gen) record() string {
	r := g.r
	ints := func(n int) string {
		parts := make([]string, n)
		for i := range parts {
			parts[i] = pick(r, []string{"0", "1", "2", "3", "7", `"s"`, `"t u"`, "true", "null", "2.5"})
		}
		return "[" + strings.Join(parts, ",") + "]"
	}
	str := func() string {
		return pick(r, []string{`""`, `"ab"`, "\"a\xc3\xa9z\"", "\"\xe6\x97\xa5\xe6\x9c\xac\"", "\"x\xffy\"", "\"\xf0\x9f\x99\x82!\"", `"\ud800x"`, `"aé\n"`, "\"q\xe2\x82\"", `"abcd"`})
	}
	obj := func(n int) string {
		keys := append([]string{}, c07ObjKeys...)
		r.Shuffle(len(keys), func(i, j int) { keys[i], keys[j] = keys[j], keys[i] })
		parts := make([]string, n)
		for i := range parts {
			parts[i] = "\"" + keys[i] + "\":" + pick(r, []string{"1", "2", `"v"`, "null", "[1,2]", "false"})
		}
		return "{" + strings.Join(parts, ",") + "}"
	}
	nested := func() string {
		n := r.Intn(4)
		parts := make([]string, n)
		for i := range parts {
			switch r.Intn(3) {
			case 0:
				parts[i] = ints(r.Intn(4))
			case 1:
				parts[i] = str()
			default:
				parts[i] = obj(r.Intn(3))
			}
		}
		return "[" + strings.Join(parts, ",") + "]"
	}
	flags := func() string {
		n := r.Intn(5)
		parts := make([]string, n)
		for i := range parts {
			parts[i] = pick(r, []string{"true", "false", "0", "1", `""`, `"x"`, "null"})
		}
		return "[" + strings.Join(parts, ",") + "]"
	}
	misc := genJSON(r, defaultJSONCfg(), 1)
	return fmt.Sprintf(`{"n":%d,"m":%d,"arr":%s,"obj":%s,"str":%s,"empty":[],"eobj":{},"estr":"","nested":%s,"flags":%s,"misc":%s}`,
		r.Intn(5), r.Intn(4), ints(r.Intn(5)), obj(r.Intn(5)), str(), nested(), flags(), misc)
}

// c07Input is what a structured program runs over: one or several array roots,
// delivered as the values of one stream, as several files, or as the results of
// several root selectors over the same value.
type c07Input struct {
	files []File
	sels  []string
	roots [][]interface{} // the records of each root, in the order the driver visits them
	shape string
}

func (in c07Input) meta() string {
	var sb strings.Builder
	for _, f := range in.files {
		fmt.Fprintf(&sb, "%s=%s ", f.Name, string(f.Data))
	}
	if len(in.sels) > 0 {
		sb.WriteString("selectors: " + strings.Join(in.sels, " | "))
	}
	return sb.String()
}

func c07DecodeRecords(doc string) []interface{} {
	var root interface{}
	if err := json.Unmarshal([]byte(doc), &root); err != nil {
		panic("c07: generated document does not decode: " + err.Error())
	}
	recs, _ := root.([]interface{})
	return recs
}

// input: multi = several roots (so that something would run after an `exit` executed
// in a BEGINFILE / ENDFILE rule: further values, files, selector roots).
func (g *c07Gen) input(multi bool) c07Input {
	r := g.r
	value := func() string {
		nrec := 1 + r.Intn(3)
		if chance(r, 0.05) || (multi && chance(r, 0.1)) {
			nrec = 0
		}
		recs := make([]string, nrec)
		for i := range recs {
			recs[i] = g.record()
		}
		return "[" + strings.Join(recs, ",") + "]"
	}
	if !multi {
		doc := value()
		return c07Input{files: []File{{Name: "in.json", Data: []byte(doc)}}, roots: [][]interface{}{c07DecodeRecords(doc)}, shape: "one-value"}
	}
	var in c07Input
	names := []string{"a.json", "b.json", "c.json"}
	switch r.Intn(5) {
	case 0: // one stream of 2-3 values
		in.shape = "stream"
		var docs []string
		for i, n := 0, 2+r.Intn(2); i < n; i++ {
			d := value()
			docs = append(docs, d)
			in.roots = append(in.roots, c07DecodeRecords(d))
		}
		in.files = []File{{Name: "in.jsonl", Data: []byte(strings.Join(docs, pick(r, []string{"\n", " ", ""})))}}
	case 1: // 2-3 files of one value
		in.shape = "files"
		for i, n := 0, 2+r.Intn(2); i < n; i++ {
			d := value()
			in.files = append(in.files, File{Name: names[i], Data: []byte(d)})
			in.roots = append(in.roots, c07DecodeRecords(d))
		}
	case 2: // 2-3 selectors over one value: every root is a conversion of the same document
		in.shape = "selectors"
		d := value()
		in.files = []File{{Name: "in.json", Data: []byte(d)}}
		for i, n := 0, 2+r.Intn(2); i < n; i++ {
			in.sels = append(in.sels, "$")
			in.roots = append(in.roots, c07DecodeRecords(d))
		}
	case 3: // two files, the first with two values
		in.shape = "files-of-streams"
		for i := 0; i < 2; i++ {
			var docs []string
			for j, n := 0, 2-i; j < n; j++ {
				d := value()
				docs = append(docs, d)
				in.roots = append(in.roots, c07DecodeRecords(d))
			}
			in.files = append(in.files, File{Name: names[i], Data: []byte(strings.Join(docs, "\n"))})
		}
	default: // a stream of two values x two selectors
		in.shape = "stream-x-selectors"
		in.sels = []string{"$", "$"}
		var docs []string
		for i := 0; i < 2; i++ {
			d := value()
			docs = append(docs, d)
			in.roots = append(in.roots, c07DecodeRecords(d), c07DecodeRecords(d))
		}
		in.files = []File{{Name: "in.jsonl", Data: []byte(strings.Join(docs, "\n"))}}
	}
	return in
}

// c07Program builds one program with its input. multi: several roots and BEGINFILE /
// ENDFILE rules (with jumps of their own) besides BEGIN, the main rules and END.
func c07Program(r *rand.Rand, exotic, multi bool) (*c07Prog, *c07Gen, c07Input) {
	g := &c07Gen{r: r, exotic: exotic, nodes: 14 + r.Intn(30), jumps: map[string]int{}}
	input := g.input(multi)
	if len(input.roots) > 0 {
		g.records = input.roots[0]
	}

	p := &c07Prog{}
	nf := r.Intn(4)
	for i := 0; i < nf; i++ {
		g.nodes = 5 + r.Intn(12)
		f := g.function(i)
		g.funcs = append(g.funcs, f)
		p.funcs = append(p.funcs, f)
	}
	if chance(r, 0.45) {
		f := g.guardFunction(len(g.funcs))
		g.funcs = append(g.funcs, f)
		p.funcs = append(p.funcs, f)
	}
	cost := 1
	mk := func(kind string, inRecord bool, size int) c07Rule {
		cost = 1
		g.nodes = 4 + r.Intn(8)
		if kind == "main" && size > 1 {
			g.nodes = 10 + r.Intn(25)
		}
		c := c07Ctx{inRecord: inRecord, mult: 1, fnIdx: len(g.funcs), cost: &cost}
		if kind == "BEGINFILE" || kind == "ENDFILE" {
			c.intVars = []string{"nr"} // the number of roots entered so far: conditions (and jumps) that depend on the root
		}
		return c07Rule{kind: kind, body: g.block(c, size)}
	}
	if chance(r, 0.3) {
		p.rules = append(p.rules, mk("BEGIN", false, 1))
	}
	// 1-4 main rules; any of them may have a pattern, so that a pattern that executes
	// next / exit is followed by 0-3 further rules (with and without patterns)
	nmain := pick(r, []int{1, 2, 2, 2, 3, 3, 4})
	if multi {
		nmain = pick(r, []int{1, 1, 2, 2, 3})
	}
	big := r.Intn(nmain)
	for j := 0; j < nmain; j++ {
		size := 1
		if j == big && !multi {
			size = 2
		}
		rl := mk("main", true, size)
		if chance(r, map[bool]float64{true: 0.35, false: 0.65}[j == 0]) {
			rl.pat = g.pattern()
		}
		p.rules = append(p.rules, rl)
	}
	if chance(r, map[bool]float64{true: 0.9, false: 0.6}[multi]) {
		e := mk("END", false, 1)
		e.body.list = append(e.body.list, &c07Stmt{kind: "print", args: []*c07Expr{c07StrE(nil, "END"), c07Var("acc"), c07Var("res")}})
		p.rules = append(p.rules, e)
	}
	if chance(r, 0.15) {
		p.rules = append(p.rules, mk("END", false, 1))
	}
	if multi {
		// per-root rules at random places of the source: the first BEGINFILE rule of the source counts
		// the roots; most ENDFILE rules (and some BEGINFILE rules) carry a jump of their own
		// (exit mostly), bare or under a condition that may depend on the root number, directly in
		// the rule or inside a loop; a further rule of the same kind often follows
		var extra []c07Rule
		nbf := pick(r, []int{1, 1, 1, 2})
		for j := 0; j < nbf; j++ {
			rl := mk("BEGINFILE", false, 1)
			c := c07Ctx{mult: 1, fnIdx: len(g.funcs), cost: &cost, intVars: []string{"nr"}}
			if chance(r, 0.35) {
				rl.body.list = append(rl.body.list, g.specialJump(c), g.trace(c))
			}
			extra = append(extra, rl)
		}
		nef := pick(r, []int{1, 1, 2, 2, 3})
		for j := 0; j < nef; j++ {
			rl := mk("ENDFILE", false, 1)
			c := c07Ctx{mult: 1, fnIdx: len(g.funcs), cost: &cost, intVars: []string{"nr"}}
			if chance(r, map[bool]float64{true: 0.7, false: 0.3}[j == 0]) {
				at := r.Intn(len(rl.body.list) + 1)
				rest := append([]*c07Stmt{g.specialJump(c), g.trace(c)}, rl.body.list[at:]...)
				rl.body.list = append(rl.body.list[:at:at], rest...)
			}
			extra = append(extra, rl)
		}
		for _, rl := range extra {
			at := r.Intn(len(p.rules) + 1)
			p.rules = append(p.rules[:at:at], append([]c07Rule{rl}, p.rules[at:]...)...)
		}
		// the BEGINFILE rule that comes first in the source counts the roots (no per-root rule
		// ever sees the counter unset: an unset loop bound would compare as "less" for ever)
		for i := range p.rules {
			if p.rules[i].kind == "BEGINFILE" {
				p.rules[i].body.list = append([]*c07Stmt{{kind: "assign", v1: "nr", cond: c07Bin("+", c07Var("nr"), c07Lit(1))}}, p.rules[i].body.list...)
				break
			}
		}
	}
	return p, g, input
}

// specialJump: a jump for a BEGINFILE / ENDFILE rule: exit (mostly) or next, bare, under
// a condition, or inside a loop under a condition.
func (g *c07Gen) specialJump(c c07Ctx) *c07Stmt {
	kinds := []string{"exit", "exit", "exit", "next"}
	j := g.guarded(c, kinds...)
	// conditions on the root counter: leave at the first / second / a later root
	if chance(g.r, 0.5) {
		j = &c07Stmt{kind: "if", cond: c07Bin(pick(g.r, []string{"==", ">=", ">"}), c07Var("nr"), c07Lit(1+g.r.Intn(3))), body: g.jumpOf(c, kinds...), style: g.r.Intn(4)}
	}
	switch g.r.Intn(4) {
	case 0:
		v := g.fresh("i")
		c2 := c
		c2.inLoop = true
		return &c07Stmt{kind: "for", v1: v, bound: c07Lit(1 + g.r.Intn(3)), style: g.r.Intn(2),
			body: &c07Stmt{kind: "block", list: []*c07Stmt{g.trace(c2), j, g.trace(c2)}}}
	case 1:
		v := g.fresh("x")
		return &c07Stmt{kind: "forin", v1: v, cond: c07ArrLit(g.r, []interface{}{float64(1), float64(7)}),
			body: &c07Stmt{kind: "block", list: []*c07Stmt{j, g.trace(c)}}}
	}
	return j
}

func c07Hist(m map[string]int) string {
	keys := make([]string, 0, len(m))
	for k := range m {
		keys = append(keys, k)
	}
	sort.Strings(keys)
	parts := make([]string, len(keys))
	for i, k := range keys {
		parts[i] = fmt.Sprintf("%s=%d", k, m[k])
	}
	return strings.Join(parts, ",")
}

func c07OutOracle(want string) func(Resp) string {
	return func(i Resp) string {
		if i["class"] != "ok" {
			return "expected class ok, got " + i["class"] + " " + i["msg"]
		}
		if got := string(i.Bytes("out")); got != want {
			return fmt.Sprintf("trace differs from the reference: got %q want %q", c07Short(got), c07Short(want))
		}
		return ""
	}
}

func c07Short(s string) string {
	if len(s) > 400 {
		return s[:400] + "…"
	}
	return s
}

func init() {
	register(Family{
		Name: "structured-programs", Prop: "C07",
		Rule: "random structured programs (nesting <= 6): if/else chains incl. dangling else, while, 3-clause for, for-in over arrays/objects/strings (1 and 2 variables, multi-byte and invalid UTF-8, empty), blocks, match statements, functions, break/continue/return/next/exit anywhere, a print trace after every statement, bounds and conditions from the document; 30 % of the programs run over SEVERAL roots (2-3 values in one stream, 2-3 files, 2-3 root selectors over one value, files of streams, stream x selectors; empty arrays among them) and have 1-2 BEGINFILE and 1-3 ENDFILE rules at random places of the source, the first BEGINFILE rule counting the roots, most ENDFILE and a third of the BEGINFILE rules with a jump of their own (exit 3 : next 1; bare, under a condition on constants / the root counter, inside a for or for-in loop) followed by further statements, further rules of the same kind, further roots and an END rule; oracle: trace of a Go reference interpreter of the same AST (all non-exotic programs); non-trivial = runs (ok or runtime error) with a non-empty trace",
		Gen: func(r *rand.Rand, tier string, emit func(Case)) {
			n := tierN(tier, 3600, 60000) // quick: 3600 (4000 before the several-root programs, which cost more each)
			for i := 0; i < n; i++ {
				exotic := chance(r, 0.25)
				multi := chance(r, 0.3)
				p, g, input := c07Program(r, exotic, multi)
				text := p.text()
				c := Case{Req: RunReq(text, input.sels, input.files, false), Fields: []string{"class", "out"},
					Meta: metaProg(text, "input", input.meta(), "input_shape", input.shape, "generated_jumps", c07Hist(g.jumps))}
				in := &c07Interp{}
				sig := in.runRoots(p, input.roots)
				if sig != c07Fail {
					want := in.out.String()
					c.Oracle = c07OutOracle(want)
					c.Meta["reference"] = "yes"
					c.Meta["executed"] = c07Hist(in.cover)
					c.Meta["ended_by"] = []string{"end of program", "", "", "", "", "exit"}[sig]
					nl := strings.Count(want, "\n")
					c.Meta["trace_lines"] = []string{"0-2", "3-10", "11-50", "51+"}[map[bool]int{true: 1}[nl > 2]+map[bool]int{true: 1}[nl > 10]+map[bool]int{true: 1}[nl > 50]]
				} else {
					c.Meta["reference"] = "no (exotic construct)"
				}
				emit(c)
			}
		},
	})
	register(Family{
		Name: "long-loops", Prop: "C07",
		Rule: "15 loop templates with a closed-form expected output computed in Go (three-clause for with continue / late break / bound from the document, while with continue, while(true) left by a late break, a loop in a function called per record with a late return, for-in over arrays built by push and taken from the document, over 1- and 2-byte strings, over objects built by a loop (sorted keys, each once) and arrays filled by index, nested loops whose product is the size, loop bodies that call a function and evaluate a match) at iteration counts 10 000-10 003, 20 000, 65 535-65 537, 100 000 and one random size (thorough also 9 999, 32 768, 50 000, 131 072, 250 000, 500 000, 999 000, 1 000 000 and a random size up to 900 000; from 500 000 on without the six heaviest templates); every case is also compared with the model except where the model is too slow or out of fuel (objects above 10 003 keys, index-filled arrays above 20 000, pushed arrays above 20 000 in the quick tier and above 100 000 in the thorough tier, >= 990 000 iterations): those keep the closed-form oracle only (quick tier: also sizes 65 535 and 65 537, two thirds of the templates above 20 000 iterations, and objects except at 10 002)",
		Gen:  c07GenLongLoops,
	})
	register(Family{
		Name: "control-laws", Prop: "C07",
		Rule: "small parametric programs with a closed-form expected trace computed in Go: continue on odd i prints the evens (for: post-expression runs; while: increment first), break leaves only the innermost loop, dangling else, return leaves only the function, for-in visits every element once in order (arrays with index, objects with sorted keys, strings by runes with byte offsets), next / exit; next / exit reached while a PATTERN is evaluated (a called function, a match expression with block bodies, one inside the other, under !, &&, ||, ==, as a match subject) with 0-1 rules before and 1-3 rules after it, with and without patterns, a second jumping pattern further down: next abandons every remaining rule of the record, exit ends the run without END; exit / next executed in EVERY rule kind (BEGIN, BEGINFILE, pattern rules, ENDFILE, END; 1-2 jump rules among 5-12 tagged rules in shuffled source order) at the t-th execution of the rule, directly, under if/else, from a for / while / for-in loop, from a function, two functions deep, from loops inside a function, from a match statement body, from the block body of a match expression (assigned, or as a print argument), over 1-3 files x 1-3 values (arrays and scalars) x 0-3 root selectors: exit ends the whole run (no later rule of the kind, no further record / value / file / selector root, no END), next ends only the rule (pattern rules: the record)",
		Gen: func(r *rand.Rand, tier string, emit func(Case)) {
			n := tierN(tier, 1300, 13000)
			for i := 0; i < n; i++ {
				c07Law(r, emit)
			}
		},
	})
}

// ---------------------------------------------------------------- long-loops
//
// Loops run exactly as long as their condition (or their iterable) says, however
// many iterations that takes: no hidden iteration limit in while, the three-clause
// for, or for-in over arrays, strings and objects.

type c07Long struct {
	name     string
	prog     string
	doc      string
	want     string
	implOnly bool // the model is too slow for this size: closed-form oracle only
}

// c07StrOfLen: jqawk statements that build a string of exactly n copies of unit in `s`
// without a loop (binary decomposition).
func c07StrOfLen(n int, unit string) string {
	var sb strings.Builder
	fmt.Fprintf(&sb, "s = ''\n  p = %s\n", mustStrLit(unit))
	for n > 0 {
		if n&1 == 1 {
			sb.WriteString("  s = s + p\n")
		}
		n >>= 1
		if n > 0 {
			sb.WriteString("  p = p + p\n")
		}
	}
	return sb.String()
}

// c07LongCases: the templates for iteration count n. slowModel(kind, n) decides ImplOnly.
func c07LongCases(r *rand.Rand, n int, tier string) []c07Long {
	var cs []c07Long
	add := func(name, prog, doc, want string, implOnly bool) {
		cs = append(cs, c07Long{name, prog, doc, want, implOnly})
	}
	docN := fmt.Sprintf(`{"n": %d}`, n)
	tooLong := n >= 1000000 // the model's evaluation fuel (1 000 000) ends below this
	// 1. three-clause for: count body and post separately, continue on odd i, bound from the document
	{
		body, post := 0, 0
		i := 0
		for i = 0; i < n; post++ {
			i++
			if i%2 == 0 {
				continue
			}
			body++
		}
		add("for-continue", "{\n  body = 0; post = 0\n  for (i = 0; i < $.n; post++) { i++; if (i % 2 == 0) continue; body++ }\n  print $.n, i, body, post\n}\n",
			docN, fmt.Sprintf("%d %d %d %d\n", n, i, body, post), tooLong)
	}
	// 2. plain counting for, literal bound, in BEGIN
	add("for-count", fmt.Sprintf("BEGIN { for (i = 0; i < %d; i++) k++\n print i, k }\n", n), "", fmt.Sprintf("%d %d\n", n, n), tooLong)
	// 3. for with a break at a late iteration (or never)
	{
		b := n - 1 - r.Intn(3)
		if chance(r, 0.3) {
			b = n + 5
		}
		cnt, i := 0, 0
		for i = 0; i < n; i++ {
			if i == b {
				break
			}
			cnt++
		}
		add("for-late-break", fmt.Sprintf("BEGIN { for (i = 0; i < %d; i++) { if (i == %d) break\n c++ }\n print i, c }\n", n, b), "", fmt.Sprintf("%d %d\n", i, cnt), tooLong)
	}
	// 4. while with continue after the increment
	{
		sum, w := 0, 0
		for w < n {
			w++
			if w%3 == 0 {
				continue
			}
			sum++
		}
		add("while-continue", "{\n  w = 0\n  while (w < $.n) {\n    w++\n    if (w % 3 == 0) continue\n    t++\n  }\n  print w, t\n}\n", docN, fmt.Sprintf("%d %d\n", w, sum), tooLong)
	}
	// 5. while (true) left by a late break
	add("while-true-break", fmt.Sprintf("BEGIN { i = 0\n while (true) { i++\n if (i >= %d) break }\n print \"left\", i }\n", n), "", fmt.Sprintf("left %d\n", n), tooLong)
	// 6. the loop inside a function called per record (bounds n-1, n, n+1), return from a late iteration
	{
		var want strings.Builder
		for _, m := range []int{n - 1, n, n + 1} {
			fmt.Fprintf(&want, "%d %d\n", m, m-1)
		}
		add("for-in-function-return", "function last(m) { for (j = 0; true; j++) { if (j == m - 1) return j } }\n{ print $, last($) }\nEND { print j is unknown }\n",
			fmt.Sprintf("[%d, %d, %d]", n-1, n, n+1), want.String()+"true\n", n+1 >= 1000000)
	}
	// 7. for-in over an array built by a loop (push), element and index; continue and a late break
	{
		b := n - 1 - r.Intn(2)
		if chance(r, 0.4) {
			b = n + 1
		}
		c, odd, last := 0, 0, -1
		for j := 0; j < n; j++ {
			if j == b {
				break
			}
			c++
			last = j
			if j%2 == 1 {
				continue
			}
			odd++
		}
		slow := n > 20000 && tier != "thorough" || n > 100000
		add("forin-array-pushed", fmt.Sprintf("BEGIN {\n  a = []\n  for (i = 0; i < %d; i++) a.push(i * 2)\n  for (x, j in a) {\n    if (j == %d) break\n    c++; last = j\n    if (x != j * 2) bad++\n    if (j %% 2 == 1) continue\n    e++\n  }\n  print a.length(), c, last, e, bad is unknown\n}\n", n, b),
			"", fmt.Sprintf("%d %d %d %d true\n", n, c, last, odd), slow)
	}
	// 8. for-in over an array of the input document
	{
		var sb strings.Builder
		sb.WriteString(`{"a": [`)
		for j := 0; j < n; j++ {
			if j > 0 {
				sb.WriteByte(',')
			}
			sb.WriteString(strconv.Itoa(j % 10))
		}
		sb.WriteString("]}")
		sum := 0
		for j := 0; j < n; j++ {
			sum += j % 10
		}
		add("forin-array-document", "{ for (x, j in $.a) { c++; t += x; last = j }\n print c, t, last }\n", sb.String(), fmt.Sprintf("%d %d %d\n", n, sum, n-1), n > 200000)
	}
	// 9. for-in over a string of n characters (1-byte and 2-byte), offset variable
	{
		unit := pick(r, []string{"x", "\xc3\xa9"})
		add("forin-string", "BEGIN {\n  "+c07StrOfLen(n, unit)+"  for (ch, o in s) { c++; last = o; if (ch != "+mustStrLit(unit)+") bad++ }\n  print s.length(), c, last, bad is unknown\n}\n",
			"", fmt.Sprintf("%d %d %d true\n", n*len(unit), n, (n-1)*len(unit)), n > 500000)
	}
	// 10. for-in over an object with n keys built by a loop: every key once, in sorted (string) order
	{
		keys := make([]string, n)
		for j := range keys {
			keys[j] = strconv.Itoa(j)
		}
		sort.Strings(keys)
		add("forin-object-built", fmt.Sprintf("BEGIN {\n  o = {}\n  for (i = 0; i < %d; i++) o[i] = i\n  prev = ''\n  for (k, v in o) { c++; t += v; if (k != v + '') bad++\n if (c > 1 && !(prev < k)) unsorted++\n prev = k }\n  print o.length(), o is object, c, t, prev, bad is unknown, unsorted is unknown\n}\n", n),
			"", fmt.Sprintf("%d true %d %d %s true true\n", n, n, n*(n-1)/2, keys[n-1]), n > 10003 || tier != "thorough" && n != 10002)
		// the same statements without `o = {}`: numeric indices on an unset name create an ARRAY, filled by index
		add("forin-array-indexed", fmt.Sprintf("BEGIN {\n  for (i = 0; i < %d; i++) o[i] = i\n  for (x, j in o) { c++; t += x; if (x != j) bad++\n last = j }\n  print o.length(), o is array, c, t, last, bad is unknown\n}\n", n),
			"", fmt.Sprintf("%d true %d %d %d true\n", n, n, n*(n-1)/2, n-1), n > 20000)
	}
	// 11. nested loops whose product is n (or just above): for in for, while in for-in, with a late inner break
	{
		outer := pick(r, []int{2, 3, 7, 10, 100, 317})
		inner := (n + outer - 1) / outer
		total := outer * inner
		add("nested-for-for", fmt.Sprintf("BEGIN { for (j = 0; j < %d; j++) for (k = 0; k < %d; k++) total++\n print \"nested\", j, k, total }\n", outer, inner),
			"", fmt.Sprintf("nested %d %d %d\n", outer, inner, total), total >= 990000)
		// inner while left by break at its last iteration; outer for-in over a literal string
		o2 := 1 + r.Intn(4)
		in2 := n / o2
		add("nested-forin-while", fmt.Sprintf("BEGIN { for (ch in %s) { w = 0\n while (true) { w++; total++\n if (w == %d) break }\n outer++ }\n print outer, w, total }\n", mustStrLit(strings.Repeat("z", o2)), in2),
			"", fmt.Sprintf("%d %d %d\n", o2, in2, o2*in2), o2*in2 >= 990000)
		// inner loop long, outer short, continue in the outer loop after the inner one
		add("nested-long-inner", fmt.Sprintf("{ for (a = 0; a < 3; a++) { for (b = 0; b < $.n; b++) { if (b %% 2) continue\n even++ }\n if (a == 1) continue\n tail++ }\n print a, b, even, tail }\n"),
			docN, fmt.Sprintf("3 %d %d 2\n", n, 3*((n+1)/2)), 3*n >= 990000)
	}
	// 12. the loop body calls a function and evaluates a match (frames pushed and popped n times)
	add("for-call-match", fmt.Sprintf("function id(v) { return v }\nBEGIN { for (i = 0; i < %d; i++) { t += id(1) + match (i) { 0 => 0, q => 1 } }\n print i, t, q is unknown }\n", n),
		"", fmt.Sprintf("%d %d true\n", n, 2*n-1), n >= 300000)
	return cs
}

func c07GenLongLoops(r *rand.Rand, tier string, emit func(Case)) {
	sizes := []int{10000, 10001, 10002, 10003, 20000, 65535, 65536, 65537, 100000, 10004 + r.Intn(89000)}
	if tier == "thorough" {
		sizes = append(sizes, 9999, 32768, 50000, 131072, 250000, 500000, 999000, 1000000, 100001+r.Intn(800000))
	}
	for _, n := range sizes {
		for ci, c := range c07LongCases(r, n, tier) {
			if n >= 500000 {
				switch c.name {
				case "nested-long-inner", "for-call-match", "forin-array-pushed", "forin-object-built", "forin-array-indexed", "forin-array-document":
					continue // several seconds on the implementation: kept below the worker's time limit on a loaded machine
				}
			}
			if tier != "thorough" && n > 20000 && (ci+n)%3 != 0 {
				c.implOnly = true // quick tier: above 20 000 iterations the model is asked for every third template only
			}
			var files []File
			meta := metaProg(c.prog, "template", c.name, "iterations", fmt.Sprint(n), "row", c.name, "col", fmt.Sprint(n))
			if c.doc != "" {
				files = []File{{Name: "in.json", Data: []byte(c.doc)}}
				meta["input"] = c07Short(c.doc)
			}
			if tier != "thorough" && (n == 65535 || n == 65537) {
				c.implOnly = true // quick tier: the model is asked at 65 536 only
			}
			if c.implOnly {
				meta["model"] = "not asked (too slow at this size): closed-form oracle only"
			}
			emit(Case{Req: RunReq(c.prog, nil, files, false), Fields: []string{"class", "out"}, Meta: meta, Oracle: c07OutOracle(c.want),
				ImplOnly: c.implOnly, NonTrivial: func(i Resp) bool { return i["class"] == "ok" }})
		}
	}
}

func c07Law(r *rand.Rand, emit func(Case)) {
	n, m := r.Intn(7), r.Intn(5)
	var prog, doc string
	var want strings.Builder
	switch r.Intn(18) {
	case 9, 10, 11, 12:
		c07LawPatternJump(r, emit)
		return
	case 13, 14, 15, 16, 17:
		c07LawSpecialJump(r, emit)
		return
	case 0: // for + continue on odd
		doc = fmt.Sprintf(`{"n":%d}`, n)
		prog = "{\n  for (i = 0; i < $.n; i++) {\n    if (i % 2 == 1) continue\n    print i\n  }\n  print \"after\", i\n}\n"
		for i := 0; i < n; i += 2 {
			fmt.Fprintf(&want, "%d\n", i)
		}
		fmt.Fprintf(&want, "after %d\n", n)
	case 1: // while + continue after the increment
		doc = fmt.Sprintf(`{"n":%d}`, n)
		prog = "{\n  w = 0\n  while (w < $.n) {\n    w++\n    if (w % 2 == 1)\n      continue\n    print w\n  }\n  print \"after\", w\n}\n"
		for i := 2; i <= n; i += 2 {
			fmt.Fprintf(&want, "%d\n", i)
		}
		fmt.Fprintf(&want, "after %d\n", n)
	case 2: // break leaves only the innermost loop
		k := r.Intn(4)
		doc = fmt.Sprintf(`{"n":%d,"m":%d,"k":%d}`, n, m, k)
		inner := pick(r, []string{"for (j = 0; j < $.m; j++)", "for (j in [0, 1, 2, 3, 4])", "for (c, j in 'abcde')"})
		prog = "{\n  for (i = 0; i < $.n; i++) {\n    " + inner + " {\n      if (j == $.k) break\n      print i, j\n    }\n    print \"outer\", i\n  }\n}\n"
		lim := m
		if !strings.Contains(inner, "$.m") {
			lim = 5
		}
		for i := 0; i < n; i++ {
			for j := 0; j < lim && j != k; j++ {
				fmt.Fprintf(&want, "%d %d\n", i, j)
			}
			fmt.Fprintf(&want, "outer %d\n", i)
		}
	case 3: // dangling else
		a, b := r.Intn(2), r.Intn(2)
		doc = fmt.Sprintf(`{"a":%d,"b":%d}`, a, b)
		prog = pick(r, []string{
			"{\n  if ($.a) if ($.b) print \"then\"; else print \"else\"\n  print \"end\"\n}\n",
			"{\n  if ($.a)\n    if ($.b)\n      print \"then\"\n  else\n    print \"else\"\n  print \"end\"\n}\n",
			"{\n  if ($.a)\n    for (i = 0; i < 1; i++)\n      if ($.b)\n        print \"then\"\n      else\n        print \"else\"\n  print \"end\"\n}\n"})
		if a == 1 && b == 1 {
			want.WriteString("then\n")
		} else if a == 1 {
			want.WriteString("else\n")
		}
		want.WriteString("end\n")
	case 4: // return leaves only the function, from inside nested loops
		k := r.Intn(6)
		doc = fmt.Sprintf(`{"n":%d,"k":%d}`, n, k)
		prog = "function f(a, k) {\n  for (x in [1]) {\n    j = 0\n    while (j < 9) {\n      j++\n      if (j > k) {\n        return a * 10 + j\n      }\n    }\n  }\n  print \"never\"\n}\n{\n  for (i = 0; i < $.n; i++)\n    print i, f(i, $.k)\n  print \"end\"\n}\n"
		for i := 0; i < n; i++ {
			fmt.Fprintf(&want, "%d %d\n", i, i*10+k+1)
		}
		want.WriteString("end\n")
	case 5: // for-in over an array, element and index
		var elems, parts []string
		for i := 0; i < n; i++ {
			e := pick(r, []string{"1", "2.5", `"s"`, "true", "null", "[1]"})
			elems = append(elems, e)
			p := strings.Trim(e, `"`)
			if e == "[1]" {
				p = "[1]"
			}
			parts = append(parts, fmt.Sprintf("%s %d\n", p, i))
		}
		doc = `{"a":[` + strings.Join(elems, ",") + `]}`
		prog = "{\n  for (x, i in $.a)\n    print x, i\n  print \"end\"\n}\n"
		want.WriteString(strings.Join(parts, "") + "end\n")
	case 6: // for-in over an object: sorted keys
		keys := append([]string{}, c07ObjKeys...)
		r.Shuffle(len(keys), func(i, j int) { keys[i], keys[j] = keys[j], keys[i] })
		keys = keys[:r.Intn(len(keys))]
		var parts []string
		for i, k := range keys {
			parts = append(parts, fmt.Sprintf(`"%s":%d`, k, i))
		}
		doc = `{"o":{` + strings.Join(parts, ",") + `}}`
		prog = "{\n  for (k, v in $.o)\n    print k, v\n  print \"end\"\n}\n"
		idx := map[string]int{}
		for i, k := range keys {
			idx[k] = i
		}
		sorted := append([]string{}, keys...)
		sort.Strings(sorted)
		for _, k := range sorted {
			fmt.Fprintf(&want, "%s %d\n", k, idx[k])
		}
		want.WriteString("end\n")
	case 7: // for-in over a string literal: runes with byte offsets
		s := pick(r, c07LitStrings) + pick(r, c07LitStrings)
		doc = `{}`
		prog = "{\n  for (c, o in " + mustStrLit(s) + ")\n    print o, c\n  print \"end\"\n}\n"
		for off, c := range s {
			fmt.Fprintf(&want, "%d %s\n", off, string(c))
		}
		want.WriteString("end\n")
	default: // next skips the remaining rules of the record, exit ends the run
		k, x := r.Intn(5), r.Intn(5)
		var recs []string
		for i := 0; i < n; i++ {
			recs = append(recs, fmt.Sprint(i))
		}
		doc = "[" + strings.Join(recs, ",") + "]"
		prog = fmt.Sprintf("function g(v) { if (v == %d) next\n if (v == %d) exit\n return v }\n{ print \"a\", g($) }\n{ print \"b\", $ }\nEND { print \"end\" }\n", k, x)
		done := false
		for i := 0; i < n; i++ {
			if i == k {
				continue
			}
			if i == x {
				done = true
				break
			}
			fmt.Fprintf(&want, "a %d\nb %d\n", i, i)
		}
		if !done {
			want.WriteString("end\n")
		}
	}
	emit(Case{Req: RunReq(prog, nil, []File{{Name: "in.json", Data: []byte(doc)}}, false), Fields: []string{"class", "out"},
		Meta: metaProg(prog, "input", doc), Oracle: c07OutOracle(want.String()),
		NonTrivial: func(i Resp) bool { return i["class"] == "ok" }})
}

// c07LawSpecialJump: `exit` ends the whole run and `next` only the rule, from ANY rule
// kind and from any construct inside it. Every rule prints its tag; 1-2 "jump rules" of
// kind BEGIN / BEGINFILE / pattern / ENDFILE / END count their own executions and leave
// by exit / next at the t-th one: directly, under if / else, from a three-clause for, a
// while, a for-in, a function, two functions deep, a loop inside a function, a match
// statement body, the block body of a match expression. Something always follows the
// jump: further statements of the rule, later rules of the same kind, further records,
// further values of the stream, further files, further -r roots, END rules. The trace is
// computed in closed form from the schedule of the property.
func c07LawSpecialJump(r *rand.Rand, emit func(Case)) {
	// ---- input: 1-3 files x 1-3 values x 0-3 selectors
	type root struct {
		file string
		recs []string // the records as print shows them
	}
	render := func(v []int, isArr bool) string {
		if !isArr {
			return strconv.Itoa(v[0])
		}
		parts := make([]string, len(v))
		for i, x := range v {
			parts[i] = strconv.Itoa(x)
		}
		return "[" + strings.Join(parts, ", ") + "]"
	}
	var sels []string
	for n := pick(r, []int{0, 0, 0, 1, 2, 2, 3}); n > 0; n-- {
		sels = append(sels, pick(r, []string{"$", "$", "[$]", "[8, 9]"}))
	}
	var files []File
	var roots []root
	names := []string{"a.json", "b.json", "c.json"}
	nf := pick(r, []int{1, 1, 2, 2, 3})
	for f := 0; f < nf; f++ {
		var docs []string
		for nv := pick(r, []int{1, 1, 2, 3}); nv > 0; nv-- {
			isArr := chance(r, 0.8)
			vals := []int{r.Intn(5)}
			if isArr {
				vals = vals[:0]
				for n := r.Intn(4); n > 0; n-- {
					vals = append(vals, r.Intn(5))
				}
			}
			docs = append(docs, strings.ReplaceAll(render(vals, isArr), " ", ""))
			elems := func() []string {
				if !isArr {
					return []string{strconv.Itoa(vals[0])}
				}
				out := make([]string, len(vals))
				for i, x := range vals {
					out[i] = strconv.Itoa(x)
				}
				return out
			}
			if len(sels) == 0 {
				roots = append(roots, root{names[f], elems()})
			}
			for _, sel := range sels {
				switch sel {
				case "$":
					roots = append(roots, root{names[f], elems()})
				case "[$]":
					roots = append(roots, root{names[f], []string{render(vals, isArr)}})
				default:
					roots = append(roots, root{names[f], []string{"8", "9"}})
				}
			}
		}
		files = append(files, File{Name: names[f], Data: []byte(strings.Join(docs, pick(r, []string{"\n", " ", "\n\n"})))})
	}
	nrec := 0
	for _, ro := range roots {
		nrec += len(ro.recs)
	}

	// ---- rules
	type rule struct {
		kind  string // BEGIN BEGINFILE main ENDFILE END
		tag   string
		jump  bool
		exit  bool // else next
		t     int  // the jump happens at the t-th execution of the rule
		form  int
		count int // executions so far (simulation)
	}
	var rules []*rule
	add := func(kind string, n int) {
		for ; n > 0; n-- {
			rules = append(rules, &rule{kind: kind})
		}
	}
	add("BEGIN", r.Intn(3))
	add("BEGINFILE", 1+r.Intn(2))
	add("main", 1+r.Intn(2))
	add("ENDFILE", 1+r.Intn(3))
	add("END", 1+r.Intn(2))
	const nforms = 12
	for n := pick(r, []int{1, 1, 1, 2}); n > 0; n-- {
		kind := pick(r, []string{"BEGIN", "BEGINFILE", "BEGINFILE", "BEGINFILE", "main", "main", "ENDFILE", "ENDFILE", "ENDFILE", "ENDFILE", "END"})
		ru := &rule{kind: kind, jump: true, exit: chance(r, 0.75), form: r.Intn(nforms)}
		runs := 1
		switch kind {
		case "BEGINFILE", "ENDFILE":
			runs = len(roots)
		case "main":
			runs = nrec
		}
		ru.t = 1 + r.Intn(runs+1)
		if ru.t > runs && chance(r, 0.7) && runs > 0 {
			ru.t = 1 + r.Intn(runs) // mostly reached
		}
		rules = append(rules, ru)
	}
	r.Shuffle(len(rules), func(i, j int) { rules[i], rules[j] = rules[j], rules[i] })
	var funcs, texts []string
	for i, ru := range rules {
		ru.tag = map[string]string{"BEGIN": "B", "BEGINFILE": "BF", "main": "P", "ENDFILE": "EF", "END": "E"}[ru.kind] + strconv.Itoa(i)
		head := ru.kind + " "
		info := ""
		switch ru.kind {
		case "main":
			head = pick(r, []string{"", "", "true ", "1 "})
			info = ", $, $file"
		case "BEGINFILE", "ENDFILE":
			info = ", $file"
		}
		if !ru.jump {
			texts = append(texts, fmt.Sprintf("%s{ print \"%s\"%s }", head, ru.tag, info))
			continue
		}
		k := "k" + strconv.Itoa(i)
		j := "next"
		if ru.exit {
			j = "exit"
		}
		cond := fmt.Sprintf("%s == %d", k, ru.t)
		var st string
		switch ru.form {
		case 0:
			st = fmt.Sprintf("if (%s) %s", cond, j)
		case 1:
			st = fmt.Sprintf("if (%s != %d) {\n    print \"%s-else\"\n  } else {\n    %s\n  }", k, ru.t, ru.tag, j)
		case 2:
			st = fmt.Sprintf("for (i = 0; i < 3; i++) {\n    print \"%s-loop\", i\n    if (%s && i == 1) %s\n  }", ru.tag, cond, j)
		case 3:
			st = fmt.Sprintf("w = 0\n  while (w < 2) {\n    w++\n    print \"%s-loop\", w\n    if (%s)\n      %s\n  }", ru.tag, cond, j)
		case 4:
			st = fmt.Sprintf("for (x in [1, 2]) {\n    if (%s && x == 2) { %s }\n    print \"%s-loop\", x\n  }", cond, j, ru.tag)
		case 5:
			funcs = append(funcs, fmt.Sprintf("function stop%d(v) { if (v == %d) %s\n return v }", i, ru.t, j))
			st = fmt.Sprintf("stop%d(%s)", i, k)
		case 6:
			funcs = append(funcs, fmt.Sprintf("function outer%d(v) { return inner%d(v) + 0 }", i, i), fmt.Sprintf("function inner%d(v) { if (v == %d) { %s }\n return v }", i, ru.t, j))
			st = fmt.Sprintf("y = outer%d(%s)", i, k)
		case 7:
			funcs = append(funcs, fmt.Sprintf("function scan%d(v) { for (q in [0, 1, 2]) { while (true) { if (v == %d && q == 1) %s\n break }\n }\n return v }", i, ru.t, j))
			st = fmt.Sprintf("scan%d(%s)", i, k)
		case 8:
			st = fmt.Sprintf("match (%s) { %d => { %s }, q => { z = q } }\n", k, ru.t, j)
		case 9:
			st = fmt.Sprintf("y = match (%s) { %d => { %s }, q => q + 1 }\n", k, ru.t, j)
		case 10:
			st = fmt.Sprintf("if (%s == %d) { for (x in \"ab\") { for (i = 0; i < 2; i++) { %s } } }", k, ru.t, j)
		default:
			st = fmt.Sprintf("print \"%s-arg\", match (%s) { %d => { %s }, q => q }\n", ru.tag, k, ru.t, j)
		}
		texts = append(texts, fmt.Sprintf("%s{\n  %s++\n  print \"%s\", %s%s\n  %s\n  print \"%s-after\", %s\n}", head, k, ru.tag, k, info, strings.TrimSuffix(st, "\n"), ru.tag, k))
	}
	prog := strings.Join(append(funcs, texts...), "\n") + "\n"

	// ---- the schedule
	var want strings.Builder
	const (
		flowOK = iota
		flowNext
		flowExit
	)
	exitedIn := ""
	run := func(ru *rule, info string) int {
		if !ru.jump {
			fmt.Fprintf(&want, "%s%s\n", ru.tag, info)
			return flowOK
		}
		ru.count++
		hit := ru.count == ru.t
		fmt.Fprintf(&want, "%s %d%s\n", ru.tag, ru.count, info)
		switch ru.form {
		case 1:
			if !hit {
				fmt.Fprintf(&want, "%s-else\n", ru.tag)
			}
		case 2:
			for i := 0; i < 3; i++ {
				fmt.Fprintf(&want, "%s-loop %d\n", ru.tag, i)
				if hit && i == 1 {
					break
				}
			}
		case 3:
			for w := 1; w <= 2; w++ {
				fmt.Fprintf(&want, "%s-loop %d\n", ru.tag, w)
				if hit {
					break
				}
			}
		case 4:
			for x := 1; x <= 2; x++ {
				if hit && x == 2 {
					break
				}
				fmt.Fprintf(&want, "%s-loop %d\n", ru.tag, x)
			}
		case 11:
			if !hit {
				fmt.Fprintf(&want, "%s-arg %d\n", ru.tag, ru.count)
			}
		}
		if hit {
			if ru.exit {
				exitedIn = ru.kind
				return flowExit
			}
			return flowNext
		}
		fmt.Fprintf(&want, "%s-after %d\n", ru.tag, ru.count)
		return flowOK
	}
	special := func(kind, info string) bool {
		for _, ru := range rules {
			if ru.kind == kind && run(ru, info) == flowExit {
				return false
			}
		}
		return true
	}
	func() {
		if !special("BEGIN", "") {
			return
		}
		for _, ro := range roots {
			if !special("BEGINFILE", " "+ro.file) {
				return
			}
		records:
			for _, rec := range ro.recs {
				for _, ru := range rules {
					if ru.kind != "main" {
						continue
					}
					switch run(ru, " "+rec+" "+ro.file) {
					case flowExit:
						return
					case flowNext:
						continue records
					}
				}
			}
			if !special("ENDFILE", " "+ro.file) {
				return
			}
		}
		special("END", "")
	}()
	var jumps []string
	for _, ru := range rules {
		if ru.jump {
			jumps = append(jumps, fmt.Sprintf("%s:%s@%d/form%d", ru.tag, map[bool]string{true: "exit", false: "next"}[ru.exit], ru.t, ru.form))
		}
	}
	if exitedIn == "" {
		exitedIn = "-"
	}
	emit(Case{Req: RunReq(prog, sels, files, false), Fields: []string{"class", "out"},
		Meta: metaProg(prog, "input", c02FilesMeta(files), "selectors", strings.Join(sels, " | "), "law", "exit ends the run / next ends the rule, from every rule kind",
			"jumps", strings.Join(jumps, " "), "roots", strconv.Itoa(len(roots)), "exit_executed_in", exitedIn),
		Oracle:     c07OutOracle(want.String()),
		NonTrivial: func(i Resp) bool { return i["class"] == "ok" }})
}

// c07LawPatternJump: next / exit reached WHILE A PATTERN IS EVALUATED (a function the
// pattern calls, a match expression with a block body, both nested, under !, && and ||)
// abandons ALL remaining rules of the record (next) or ends the run (exit); 0-1 rules
// before and 1-3 rules after the pattern rule, with and without patterns of their own.
func c07LawPatternJump(r *rand.Rand, emit func(Case)) {
	n := 3 + r.Intn(5)
	k, x, par := r.Intn(n), r.Intn(n+2), r.Intn(2) // record k: next; record x: exit (k wins; x may lie outside); others match when v % 2 == par
	say := chance(r, 0.5)                          // the jump is announced by a print just before it
	sayNext, sayExit := "", ""
	if say {
		sayNext, sayExit = "print \"skip\", v\n ", "print \"stop\", v\n "
	}
	g := fmt.Sprintf("function g(v) { if (v == %d) { %snext }\n if (v == %d) { %sexit }\n return v %% 2 == %d }\n", k, sayNext, x, sayExit, par)
	mexpr := func(subject string) string {
		a, b := "next", "exit"
		if say {
			a, b = "print \"skip\", "+subject+"\n next", "print \"stop\", "+subject+"\n exit"
		}
		if k == x {
			return fmt.Sprintf("match (%s) { %d => { %s }\n q => q %% 2 == %d }", subject, k, a, par)
		}
		return fmt.Sprintf("match (%s) { %d => { %s }\n %d => { %s }\n q => q %% 2 == %d }", subject, k, a, x, b, par)
	}
	lim := r.Intn(n)
	type form struct {
		funcs, pat string
		// reached: is the jumping part evaluated for v; neg: the truth value is negated
		reached func(v int) bool
		neg     bool
		other   func(v int) bool // truth value when the jumping part is not reached
	}
	all := func(int) bool { return true }
	forms := []form{
		{g, "g($)", all, false, nil},
		{"", mexpr("$"), all, false, nil},
		{g + "function h(v) { return match (v) { 99 => 0, w => g(w) } }\n", "h($)", all, false, nil},
		{"function m(v) { return " + strings.ReplaceAll(mexpr("v"), "\n", "\n ") + " }\n", "m($)", all, false, nil},
		{g, "!g($)", all, true, nil},
		{g, fmt.Sprintf("$ >= %d && g($)", lim), func(v int) bool { return v >= lim }, false, func(int) bool { return false }},
		{g, fmt.Sprintf("$ < %d || g($)", lim), func(v int) bool { return !(v < lim) }, false, func(int) bool { return true }},
		{g, "g($) == true", all, false, nil},
		{g, "match (g($)) { true => 1, f => 0 }", all, false, nil},
	}
	f := forms[r.Intn(len(forms))]
	var rules []string
	type rl struct {
		tag  string
		cond func(v int) bool
		jump bool
	}
	var sched []rl
	pats := []struct {
		src  string
		cond func(v int) bool
	}{{"", all}, {"", all}, {"true ", all}, {"$ % 2 == 0 ", func(v int) bool { return v%2 == 0 }}, {"$ > 1 ", func(v int) bool { return v > 1 }}, {"$ < 3 ", func(v int) bool { return v < 3 }}, {"0 ", func(int) bool { return false }}}
	add := func(tag string) {
		p := pick(r, pats)
		rules = append(rules, fmt.Sprintf("%s{ print \"%s\", $ }", p.src, tag))
		sched = append(sched, rl{tag: tag, cond: p.cond})
	}
	if chance(r, 0.5) {
		add("before")
	}
	rules = append(rules, f.pat+" { print \"hit\", $ }")
	sched = append(sched, rl{tag: "hit", jump: true})
	for i, na := 0, 1+r.Intn(3); i < na; i++ {
		add(fmt.Sprintf("after%d", i+1))
	}
	if chance(r, 0.3) {
		// a second jumping pattern further down: reached only for records the first one let through
		rules = append(rules, f.pat+" { print \"hit2\", $ }")
		sched = append(sched, rl{tag: "hit2", jump: true})
		add("last")
	}
	rules = append(rules, "END { print \"end\" }")
	prog := f.funcs + strings.Join(rules, "\n") + "\n"
	var recs []string
	for i := 0; i < n; i++ {
		recs = append(recs, fmt.Sprint(i))
	}
	doc := "[" + strings.Join(recs, ",") + "]"
	var want strings.Builder
	done := false
records:
	for v := 0; v < n; v++ {
		for _, ru := range sched {
			if !ru.jump {
				if ru.cond(v) {
					fmt.Fprintf(&want, "%s %d\n", ru.tag, v)
				}
				continue
			}
			if !f.reached(v) {
				if f.other(v) {
					fmt.Fprintf(&want, "%s %d\n", ru.tag, v)
				}
				continue
			}
			if v == k {
				if say {
					fmt.Fprintf(&want, "skip %d\n", v)
				}
				continue records // every remaining rule is abandoned for this record
			}
			if v == x {
				if say {
					fmt.Fprintf(&want, "stop %d\n", v)
				}
				done = true
				break records
			}
			if (v%2 == par) != f.neg {
				fmt.Fprintf(&want, "%s %d\n", ru.tag, v)
			}
		}
	}
	if !done {
		want.WriteString("end\n")
	}
	emit(Case{Req: RunReq(prog, nil, []File{{Name: "in.json", Data: []byte(doc)}}, false), Fields: []string{"class", "out"},
		Meta: metaProg(prog, "input", doc, "law", "next/exit executed while a pattern is evaluated"), Oracle: c07OutOracle(want.String()),
		NonTrivial: func(i Resp) bool { return i["class"] == "ok" }})
}

// ---------------------------------------------------------------- forin-write-ahead
//
// for-in reads each element (array) / value (object) when its turn comes: a body
// that stores into a slot of the very container being iterated -- one not yet
// visited, the current one, or one already visited -- changes what the later passes
// are bound to, never the current binding, and never the set or order of the
// positions / keys visited (no structural change: no push / pop; a NEW key stored
// into an iterated object is not visited).  The expected trace comes from the
// reference interpreter (statement kind "store"; for-in reads live).

// c07DeepCopy copies a decoded JSON-like tree.
func c07DeepCopy(v interface{}) interface{} {
	switch x := v.(type) {
	case []interface{}:
		cp := make([]interface{}, len(x))
		for i, e := range x {
			cp[i] = c07DeepCopy(e)
		}
		return cp
	case map[string]interface{}:
		cp := make(map[string]interface{}, len(x))
		for k, e := range x {
			cp[k] = c07DeepCopy(e)
		}
		return cp
	}
	return v
}

func c07IsIdent(s string) bool {
	if s == "" || s == "length" || s == "in" || s == "is" {
		return false
	}
	for i := 0; i < len(s); i++ {
		c := s[i]
		if !(c >= 'a' && c <= 'z' || c >= 'A' && c <= 'Z' || c == '_' || (i > 0 && c >= '0' && c <= '9')) {
			return false
		}
	}
	return true
}

// c07LitText renders a tree as a jqawk literal; object members in the given random order
// (for-in and print must sort them).
func c07LitText(r *rand.Rand, v interface{}) string {
	switch x := v.(type) {
	case float64:
		return numLit(x)
	case string:
		l, _ := strLit(r, x)
		return l
	case bool:
		return fmt.Sprint(x)
	case []interface{}:
		parts := make([]string, len(x))
		for i, e := range x {
			parts[i] = c07LitText(r, e)
		}
		return "[" + strings.Join(parts, ", ") + "]"
	case map[string]interface{}:
		keys := make([]string, 0, len(x))
		for k := range x {
			keys = append(keys, k)
		}
		sort.Strings(keys)
		r.Shuffle(len(keys), func(i, j int) { keys[i], keys[j] = keys[j], keys[i] })
		parts := make([]string, len(keys))
		for i, k := range keys {
			kt := mustStrLit(k)
			if c07IsIdent(k) && chance(r, 0.5) {
				kt = k
			}
			parts[i] = kt + ": " + c07LitText(r, x[k])
		}
		return "{" + strings.Join(parts, ", ") + "}"
	}
	return "null"
}

// c07FreshLit: a literal that yields a NEW tree at every evaluation (stores into it must not
// leak into a later evaluation of the same literal).
func c07FreshLit(r *rand.Rand, v interface{}) *c07Expr {
	return &c07Expr{c07LitText(r, v), func(*c07Interp) (interface{}, c07Sig) { return c07DeepCopy(v), c07None }}
}

func c07Dollar() *c07Expr {
	return &c07Expr{"$", func(in *c07Interp) (interface{}, c07Sig) { return in.dollar, c07None }}
}

func c07KeyOf(v interface{}) (string, bool) {
	switch x := v.(type) {
	case string:
		return x, true
	case float64:
		return strconv.FormatFloat(x, 'f', -1, 64), true
	}
	return "", false
}

// c07Get: c[key] / c.name on an array (index in range, else null) or an object (missing: null).
func c07Get(c, key *c07Expr, dot string) *c07Expr {
	text := c.text + "[" + key.text + "]"
	if dot != "" {
		text = c.text + "." + dot
	}
	return &c07Expr{text, func(in *c07Interp) (interface{}, c07Sig) {
		cv, sig := c.eval(in)
		if sig != c07None {
			return nil, sig
		}
		kv, sig := key.eval(in)
		if sig != c07None {
			return nil, sig
		}
		switch x := cv.(type) {
		case []interface{}:
			f, ok := kv.(float64)
			if !ok || f < 0 || f != float64(int(f)) {
				return nil, c07Fail
			}
			if int(f) >= len(x) {
				return nil, c07None
			}
			return x[int(f)], c07None
		case map[string]interface{}:
			k, ok := c07KeyOf(kv)
			if !ok {
				return nil, c07Fail
			}
			if v, ok := x[k]; ok {
				return v, c07None
			}
			return nil, c07None
		}
		return nil, c07Fail
	}}
}

var c07StoreOps = []string{" = ", "++", " += ", "--", " -= "}

// store statement: args[0] container, bound key (raw: written as .name), form an index of
// c07StoreOps, cond the right-hand side (forms 0, 2, 4).
func c07StoreText(s *c07Stmt) string {
	target := s.args[0].text + "[" + s.bound.text + "]"
	if s.raw != "" {
		target = s.args[0].text + "." + s.raw
	}
	switch s.form {
	case 1, 3:
		if s.style%2 == 1 {
			// a prefix operator must not start the statement: after a line ending in an operand it
			// would be taken for that operand's postfix operator
			return "u = " + strings.TrimSpace(c07StoreOps[s.form]) + target
		}
		return target + c07StoreOps[s.form]
	}
	return target + c07StoreOps[s.form] + s.cond.text
}

func (in *c07Interp) store(s *c07Stmt) c07Sig {
	cv, sig := s.args[0].eval(in)
	if sig != c07None {
		return sig
	}
	kv, sig := s.bound.eval(in)
	if sig != c07None {
		return sig
	}
	var val interface{}
	if s.cond != nil {
		if s.cond.eval == nil {
			return c07Fail
		}
		val, sig = s.cond.eval(in)
		if sig != c07None {
			return sig
		}
	}
	var old interface{}
	var set func(interface{})
	switch x := cv.(type) {
	case []interface{}:
		f, ok := kv.(float64)
		if !ok || f < 0 || f != float64(int(f)) || int(f) >= len(x) {
			return c07Fail // never a structural change: the slot must exist
		}
		old, set = x[int(f)], func(v interface{}) { x[int(f)] = v }
	case map[string]interface{}:
		k, ok := c07KeyOf(kv)
		if !ok {
			return c07Fail
		}
		old, set = x[k], func(v interface{}) { x[k] = v }
	default:
		return c07Fail
	}
	switch val.(type) {
	case []interface{}, map[string]interface{}:
		return c07Fail // containers are shared, not copied: out of this family's scope
	}
	switch s.form {
	case 0:
		set(val)
	case 1:
		set(c07Num(old) + 1)
	case 3:
		set(c07Num(old) - 1)
	case 4:
		set(c07Num(old) - c07Num(val))
	case 2:
		_, so := old.(string)
		_, sv := val.(string)
		if so || sv {
			str := func(v interface{}) string {
				switch y := v.(type) {
				case string:
					return y
				case float64:
					return strconv.FormatFloat(y, 'f', -1, 64)
				}
				return ""
			}
			set(str(old) + str(val))
		} else {
			set(c07Num(old) + c07Num(val))
		}
	}
	in.cover["store"]++
	return c07None
}

type c07WA struct {
	r       *rand.Rand
	c       *c07Expr // the iterated container
	isObj   bool
	n       int      // array length
	keys    []string // object keys, sorted
	marker  bool     // elements are words and a "done" marker (else numbers)
	v1, v2  string
	counter string // arrays without index variable: position counter, incremented first in the body
	stores  map[string]int
}

func c07Print(args ...*c07Expr) *c07Stmt { return &c07Stmt{kind: "print", args: args} }
func c07Block(list ...*c07Stmt) *c07Stmt { return &c07Stmt{kind: "block", list: list} }
func c07If(cond *c07Expr, body *c07Stmt) *c07Stmt {
	return &c07Stmt{kind: "if", cond: cond, body: body}
}

// pos: the expression for "current position + d" and the guard that keeps it inside the array
func (w *c07WA) pos(d int) (*c07Expr, *c07Expr) {
	var cur *c07Expr
	if w.v2 != "" {
		cur = c07Var(w.v2)
	} else {
		cur = c07Bin("+", c07Var(w.counter), c07Lit(-1)) // the counter was incremented first
	}
	switch {
	case d > 0:
		return c07Bin("+", cur, c07Lit(d)), c07Bin("<", cur, c07Lit(w.n-d))
	case d < 0:
		return c07Bin("+", cur, c07Lit(d)), c07Bin(">=", cur, c07Lit(-d))
	}
	return cur, nil
}

func (w *c07WA) value(slot *c07Expr) (*c07Expr, int) {
	r := w.r
	if w.marker {
		switch r.Intn(4) {
		case 0:
			return c07StrE(r, "done"), 0
		case 1:
			return c07StrE(r, pick(r, []string{"open", "x", "", "later"})), 0
		case 2:
			return c07Var(w.v1), 0
		default:
			return c07StrE(r, "done"), 2 // += : appended to what is there
		}
	}
	switch r.Intn(8) {
	case 0:
		return c07Lit(r.Intn(90) + 10), 0
	case 1:
		if !w.isObj {
			return c07Var(w.v1), 0
		}
		return c07Lit(r.Intn(9)), 0
	case 2, 3: // running sum: the slot plus the current element / value
		cur := w.v1
		if w.isObj {
			if w.v2 == "" {
				return c07Bin("+", slot, c07Lit(100)), 0
			}
			cur = w.v2
		}
		return c07Bin("+", slot, c07Var(cur)), 0
	case 4:
		return nil, 1
	case 5:
		return nil, 3
	case 6:
		return c07Lit(1 + r.Intn(5)), 2
	default:
		return c07Lit(1 + r.Intn(5)), 4
	}
}

// storeStmt: one store into the iterated container, guarded so that it never leaves it
func (w *c07WA) storeStmt(c *c07Expr) *c07Stmt {
	r := w.r
	st := &c07Stmt{kind: "store", args: []*c07Expr{c}, style: r.Intn(2)}
	var guard *c07Expr
	where := ""
	if w.isObj {
		k := pick(r, w.keys)
		where = "key"
		switch {
		case chance(r, 0.12):
			st.bound = c07Var(w.v1) // the current key
			where = "current"
		case chance(r, 0.08):
			k = pick(r, []string{"zz_new", "A_new", "m_new"}) // a key the object does not have: stored, not visited
			st.bound = c07StrE(r, k)
			where = "new-key"
		default:
			st.bound = c07StrE(r, k)
			if c07IsIdent(k) && chance(r, 0.4) {
				st.raw = k
			}
		}
		if chance(r, 0.6) {
			guard = c07Bin("==", c07Var(w.v1), c07StrE(r, pick(r, w.keys)))
		}
	} else {
		switch r.Intn(6) {
		case 0, 1, 2:
			d := pick(r, []int{1, 1, 1, 2, 3})
			if d >= w.n {
				d = 1
			}
			st.bound, guard = w.pos(d)
			where = "ahead"
		case 3:
			st.bound, guard = w.pos(-1)
			where = "behind"
		case 4:
			st.bound, _ = w.pos(0)
			where = "current"
		default:
			st.bound = c07Lit(r.Intn(w.n))
			where = "fixed"
			if chance(r, 0.5) {
				cur, _ := w.pos(0)
				guard = c07Bin(pick(r, []string{"==", "<", ">="}), cur, c07Lit(r.Intn(w.n)))
			}
		}
	}
	slot := c07Get(c, st.bound, st.raw)
	st.cond, st.form = w.value(slot)
	w.stores[where]++
	if guard != nil {
		if chance(r, 0.5) {
			return c07If(guard, c07Block(st))
		}
		return c07If(guard, st)
	}
	return st
}

// loop: the for-in statement over w.c (depth 0) with a traced, storing body
func (w *c07WA) loop(tag string, depth int) *c07Stmt {
	r := w.r
	v1, v2 := w.v1, w.v2
	tr := []*c07Expr{c07StrE(r, tag), c07Var(v1)}
	if v2 != "" {
		tr = append(tr, c07Var(v2))
	}
	var body []*c07Stmt
	if w.counter != "" {
		body = append(body, &c07Stmt{kind: "assign", v1: w.counter, cond: c07Bin("+", c07Var(w.counter), c07Lit(1))})
	}
	traceFirst := chance(r, 0.7)
	if traceFirst {
		body = append(body, c07Print(tr...))
	}
	if w.marker && chance(r, 0.7) {
		// mark-and-skip: an entry marked done by an earlier pass is skipped
		val := v1
		if w.isObj {
			val = v2
		}
		if val != "" {
			body = append(body, c07If(c07Bin("==", c07Var(val), c07StrE(r, "done")), c07Block(c07Print(c07StrE(r, "skip"), c07Var(v1)), &c07Stmt{kind: "continue"})))
		}
	}
	for i, n := 0, 1+r.Intn(3); i < n; i++ {
		body = append(body, w.storeStmt(w.c))
	}
	if !traceFirst || chance(r, 0.3) {
		// the bindings of this pass are not touched by the stores
		body = append(body, c07Print(tr...))
	}
	if chance(r, 0.3) {
		body = append(body, c07Print(c07StrE(r, "now"), w.c))
	}
	if depth == 0 && chance(r, 0.15) && (w.isObj || w.v2 != "") {
		// the same container iterated again inside the pass, storing as well
		in := *w
		in.v1, in.v2 = v1+"2", ""
		if v2 != "" {
			in.v2 = v2 + "2"
		}
		if !in.isObj && in.v2 == "" {
			in.v2 = "j2"
		}
		in.counter = ""
		body = append(body, in.loop(tag+"-inner", 1))
	}
	if chance(r, 0.12) {
		cur := c07Var(v1)
		var cond *c07Expr
		if w.isObj {
			cond = c07Bin("==", cur, c07StrE(r, pick(r, w.keys)))
		} else if w.marker {
			cond = c07Bin("==", cur, c07StrE(r, "done"))
		} else {
			cond = c07Bin(">", cur, c07Lit(20+r.Intn(60)))
		}
		body = append(body, c07If(cond, &c07Stmt{kind: pick(r, []string{"break", "continue"})}), c07Print(c07StrE(r, "after"), c07Var(v1)))
	}
	return &c07Stmt{kind: "forin", cond: w.c, v1: v1, v2: v2, body: c07Block(body...)}
}

func c07GenWriteAhead(r *rand.Rand, tier string, emit func(Case)) {
	n := tierN(tier, 1600, 30000)
	for i := 0; i < n; i++ {
		w := &c07WA{r: r, stores: map[string]int{}}
		w.marker = chance(r, 0.3)
		w.isObj = chance(r, 0.45)
		elem := func() interface{} {
			if w.marker {
				return pick(r, []string{"open", "open", "open", "x", "done"})
			}
			if chance(r, 0.1) {
				return pick(r, []interface{}{nil, true, "7", float64(-3), 2.5})
			}
			return float64(r.Intn(9) + 1)
		}
		var content interface{}
		if w.isObj {
			keys := append([]string{}, "p", "q", "r", "b", "a10", "a9", "Z", "k y", "é", "10", "9")
			r.Shuffle(len(keys), func(a, b int) { keys[a], keys[b] = keys[b], keys[a] })
			keys = keys[:2+r.Intn(5)]
			m := map[string]interface{}{}
			for _, k := range keys {
				m[k] = elem()
			}
			sort.Strings(keys)
			w.keys, content = keys, m
			w.v1 = pick(r, []string{"k", "key"})
			if chance(r, 0.75) {
				w.v2 = pick(r, []string{"v", "val"})
			}
		} else {
			w.n = 2 + r.Intn(6)
			arr := make([]interface{}, w.n)
			for j := range arr {
				arr[j] = elem()
			}
			content = arr
			w.v1 = pick(r, []string{"x", "e"})
			if chance(r, 0.7) {
				w.v2 = pick(r, []string{"i", "idx"})
			} else {
				w.counter = "cnt"
			}
		}
		p := &c07Prog{}
		var files []File
		var roots [][]interface{}
		shape := pick(r, []string{"variable", "variable", "record", "record", "field", "nested-variable", "root"})
		if shape == "root" && (w.isObj || w.marker) {
			shape = "record"
		}
		var pre []*c07Stmt
		if w.counter != "" {
			pre = append(pre, &c07Stmt{kind: "assign", v1: w.counter, cond: c07Lit(0)})
		}
		end := func() *c07Stmt { return c07Print(c07StrE(r, "end"), w.c) }
		doc := func(tree interface{}) {
			b, _ := json.Marshal(tree)
			files = []File{{Name: "in.json", Data: b}}
			roots = [][]interface{}{c07DecodeRecords(string(b))}
		}
		switch shape {
		case "variable":
			name := pick(r, []string{"a", "box", "todo"})
			w.c = c07Var(name)
			list := append([]*c07Stmt{{kind: "assign", v1: name, cond: c07FreshLit(r, content)}}, pre...)
			list = append(list, w.loop("t", 0), end())
			if chance(r, 0.3) {
				// the loop runs once per record over a container rebuilt by the literal each time
				p.rules = []c07Rule{{kind: "main", body: c07Block(list...)}}
				doc([]interface{}{float64(1), float64(2)})
			} else {
				p.rules = []c07Rule{{kind: "BEGIN", body: c07Block(list...)}}
			}
		case "nested-variable":
			w.c = c07Get(c07Var("o"), c07StrE(r, "inner"), pick(r, []string{"inner", ""}))
			outer := map[string]interface{}{"inner": content, "other": float64(1)}
			list := append([]*c07Stmt{{kind: "assign", v1: "o", cond: c07FreshLit(r, outer)}}, pre...)
			list = append(list, w.loop("t", 0), end(), c07Print(c07StrE(r, "whole"), c07Var("o")))
			p.rules = []c07Rule{{kind: "BEGIN", body: c07Block(list...)}}
		case "record":
			w.c = c07Dollar()
			second := c07DeepCopy(content)
			list := append(append([]*c07Stmt{}, pre...), w.loop("t", 0), end())
			p.rules = []c07Rule{{kind: "main", body: c07Block(list...)}}
			if chance(r, 0.4) {
				p.rules = append(p.rules, c07Rule{kind: "main", body: c07Block(c07Print(c07StrE(r, "second-rule"), c07Dollar()))})
			}
			doc([]interface{}{content, second})
		case "field":
			w.c = c07Field("f")
			list := append(append([]*c07Stmt{}, pre...), w.loop("t", 0), end(), c07Print(c07StrE(r, "rec"), c07Dollar()))
			p.rules = []c07Rule{{kind: "main", body: c07Block(list...)}}
			doc([]interface{}{map[string]interface{}{"f": content, "g": float64(0)}, map[string]interface{}{"f": c07DeepCopy(content)}})
		case "root":
			// the root array itself, iterated in BEGINFILE: the records the rules then see are the stored ones
			w.c = c07Dollar()
			list := append(append([]*c07Stmt{}, pre...), w.loop("t", 0), end())
			p.rules = []c07Rule{{kind: "BEGINFILE", body: c07Block(list...)}, {kind: "main", body: c07Block(c07Print(c07StrE(r, "rec"), c07Dollar()))}}
			doc(content)
		}
		text := p.text()
		meta := metaProg(text, "shape", shape, "container", map[bool]string{true: "object", false: "array"}[w.isObj], "variables", fmt.Sprint(1+map[bool]int{true: 1}[w.v2 != ""]),
			"stores", c07Hist(w.stores), "row", shape, "col", map[bool]string{true: "object", false: "array"}[w.isObj])
		if files != nil {
			meta["input"] = string(files[0].Data)
		}
		c := Case{Req: RunReq(text, nil, files, false), Fields: []string{"class", "out"}, Meta: meta}
		in := &c07Interp{}
		if sig := in.runRoots(p, roots); sig != c07Fail {
			c.Oracle = c07OutOracle(in.out.String())
			c.Meta["reference"] = "yes"
			c.Meta["executed"] = c07Hist(in.cover)
		} else {
			c.Meta["reference"] = "no"
		}
		emit(c)
	}
}

func init() {
	register(Family{
		Name: "forin-write-ahead", Prop: "C07",
		Rule: "for-in loops whose body stores into the very container being iterated, without changing its structure: arrays (element variable, with the index variable or with a position counter) and objects (key variable, with and without the value variable; keys whose sorted order differs from the literal's order) held in a variable, nested in a variable's member, being the record `$`, a field `$.f` of the record, and the root array iterated in BEGINFILE; 1-3 stores per pass to the slot 1-3 ahead, behind, the current one, a fixed position / key, the current key and (objects) a key not present; by `c[i] = v`, `c.k = v`, `++` / `--` (prefix and postfix), `+=`, `-=`; the value a constant, the current element, or the slot plus the current element (running sum); guarded by conditions on the index / key; mark-and-skip (an earlier pass marks a later entry done; the later pass must see it and `continue`), break / continue, the same container iterated again inside a pass, a trace of the bound variables before and after the stores and of the whole container; oracle: the trace of the reference interpreter (for-in fixes positions / sorted keys at loop entry and reads each element / value when its turn comes); every program is also compared with the model",
		Gen:  c07GenWriteAhead,
	})
}

// ---------------------------------------------------------------- forin-alias-history / forin-alias-records
//
// for-in visits the keys (sorted) / elements the container has WHEN THE LOOP STARTS,
// whatever happened to the container between two loops and through whichever
// expression: containers are shared by reference (assignment, argument passing,
// for-in item binding, members of other containers, pluck), so a key added, a value
// updated, an element pushed / popped through ANY alias -- or directly -- must show
// in the next loop over every expression denoting the container, in its length and
// in its printed form.  The generator keeps a heap of containers with sharing,
// generates histories walk / change through an alias / walk again (2-4 rounds, per
// record over several records, objects kept in globals across records) and executes
// every step on its own heap as it goes: the expected trace (the keys each walk must
// visit = the sorted key set at loop start) is the implementation-only oracle.

type c07ahNode struct {
	arr bool
	m   map[string]interface{}
	a   []interface{}
}

func c07ahCopy(v interface{}) interface{} {
	n, ok := v.(*c07ahNode)
	if !ok {
		return v
	}
	cp := &c07ahNode{arr: n.arr}
	if n.arr {
		cp.a = make([]interface{}, len(n.a))
		for i, e := range n.a {
			cp.a[i] = c07ahCopy(e)
		}
	} else {
		cp.m = make(map[string]interface{}, len(n.m))
		for k, e := range n.m {
			cp.m[k] = c07ahCopy(e)
		}
	}
	return cp
}

func c07ahKeys(n *c07ahNode) []string {
	keys := make([]string, 0, len(n.m))
	for k := range n.m {
		keys = append(keys, k)
	}
	sort.Strings(keys)
	return keys
}

// c07ahPretty: what print shows (strings raw at the top, quoted inside containers; the
// strings used here need no escapes). The same text is valid JSON for the input file.
func c07ahPretty(v interface{}, top bool) string {
	switch x := v.(type) {
	case nil:
		return "null"
	case bool:
		return fmt.Sprint(x)
	case float64:
		return strconv.FormatFloat(x, 'f', -1, 64)
	case string:
		if top {
			return x
		}
		return `"` + x + `"`
	case *c07ahNode:
		if x.arr {
			parts := make([]string, len(x.a))
			for i, e := range x.a {
				parts[i] = c07ahPretty(e, false)
			}
			return "[" + strings.Join(parts, ", ") + "]"
		}
		keys := c07ahKeys(x)
		parts := make([]string, len(keys))
		for i, k := range keys {
			parts[i] = `"` + k + `": ` + c07ahPretty(x.m[k], false)
		}
		return "{" + strings.Join(parts, ", ") + "}"
	}
	return "?"
}

// c07ahLit: a jqawk literal for the tree, object members in random order
func c07ahLit(r *rand.Rand, v interface{}) string {
	switch x := v.(type) {
	case nil:
		return "null"
	case bool:
		return fmt.Sprint(x)
	case float64:
		return numLit(x)
	case string:
		l, _ := strLit(r, x)
		return l
	case *c07ahNode:
		if x.arr {
			parts := make([]string, len(x.a))
			for i, e := range x.a {
				parts[i] = c07ahLit(r, e)
			}
			return "[" + strings.Join(parts, ", ") + "]"
		}
		keys := c07ahKeys(x)
		r.Shuffle(len(keys), func(i, j int) { keys[i], keys[j] = keys[j], keys[i] })
		parts := make([]string, len(keys))
		for i, k := range keys {
			kt := mustStrLit(k)
			if c07IsIdent(k) && chance(r, 0.5) {
				kt = k
			}
			parts[i] = kt + ": " + c07ahLit(r, x.m[k])
		}
		return "{" + strings.Join(parts, ", ") + "}"
	}
	return "null"
}

type c07ahWorld struct {
	env    map[string]interface{}
	dollar interface{}
	out    strings.Builder
	fail   bool // the reference cannot decide (no oracle)
}

func (w *c07ahWorld) print(parts ...interface{}) {
	for i, p := range parts {
		if i > 0 {
			w.out.WriteByte(' ')
		}
		w.out.WriteString(c07ahPretty(p, true))
	}
	w.out.WriteByte('\n')
}

type c07ahStep struct {
	text string
	run  func(w *c07ahWorld)
}

// c07ahRef: an expression denoting a container: a variable or `$`, then members / indexes
type c07ahRef struct {
	base string
	path []interface{} // string: member, int: index
	dot  []bool        // member written .name
}

func (f c07ahRef) text() string {
	s := f.base
	for i, p := range f.path {
		switch k := p.(type) {
		case string:
			if f.dot[i] && c07IsIdent(k) {
				s += "." + k
			} else {
				s += "[" + mustStrLit(k) + "]"
			}
		case int:
			s += fmt.Sprintf("[%d]", k)
		}
	}
	return s
}

func (f c07ahRef) sub(p interface{}, dot bool) c07ahRef {
	return c07ahRef{f.base, append(append([]interface{}{}, f.path...), p), append(append([]bool{}, f.dot...), dot)}
}

func (f c07ahRef) parent() c07ahRef {
	return c07ahRef{f.base, f.path[:len(f.path)-1], f.dot[:len(f.dot)-1]}
}

func c07ahChild(v interface{}, p interface{}) interface{} {
	n, _ := v.(*c07ahNode)
	if n == nil {
		return nil
	}
	switch k := p.(type) {
	case string:
		if !n.arr {
			return n.m[k]
		}
	case int:
		if n.arr && k < len(n.a) {
			return n.a[k]
		}
	}
	return nil
}

func (f c07ahRef) get(w *c07ahWorld) interface{} {
	v := w.dollar
	if f.base != "$" {
		v = w.env[f.base]
	}
	for _, p := range f.path {
		v = c07ahChild(v, p)
	}
	return v
}

func (f c07ahRef) node(w *c07ahWorld) *c07ahNode {
	n, _ := f.get(w).(*c07ahNode)
	if n == nil {
		w.fail = true
	}
	return n
}

// set: `ref = value` (whole-value replacement)
func (f c07ahRef) set(w *c07ahWorld, val interface{}) {
	if len(f.path) == 0 {
		if f.base == "$" {
			w.fail = true
			return
		}
		w.env[f.base] = val
		return
	}
	n, _ := f.parent().get(w).(*c07ahNode)
	if n == nil {
		w.fail = true
		return
	}
	switch k := f.path[len(f.path)-1].(type) {
	case string:
		if n.arr {
			w.fail = true
			return
		}
		n.m[k] = val
	case int:
		if !n.arr || k >= len(n.a) {
			w.fail = true
			return
		}
		n.a[k] = val
	}
}

type c07ahGen struct {
	r        *rand.Rand
	gw       *c07ahWorld // generation-time heap: every step runs on it as soon as it is generated
	cur      *[]c07ahStep
	refs     []c07ahRef // every expression known to denote a container
	holders  []c07ahRef // containers made only to hold others: every child is a container
	nTag     int
	nKey     int
	nVar     int
	noDollar bool
	recKeys  []string // record members usable as keys (string / number valued in every record)
	used     map[string]int
}

func (g *c07ahGen) step(text string, run func(w *c07ahWorld)) {
	*g.cur = append(*g.cur, c07ahStep{text, run})
	run(g.gw)
}

func (g *c07ahGen) tag(p string) string {
	g.nTag++
	return fmt.Sprintf("%s%d", p, g.nTag)
}

func (g *c07ahGen) newVar(p string) string {
	g.nVar++
	return fmt.Sprintf("%s%d", p, g.nVar)
}

// newKey: a key no container has yet, sorting before / between / after the usual ones
func (g *c07ahGen) newKey() string {
	g.nKey++
	return fmt.Sprintf("%s%d", pick(g.r, []string{"A", "Z", "a", "b", "m", "z", "zz", "0", "9", "é", "k ", "_"}), g.nKey)
}

func (g *c07ahGen) scalar() interface{} {
	r := g.r
	switch r.Intn(10) {
	case 0:
		return pick(r, []string{"s", "x y", "", "done"})
	case 1:
		return pick(r, []interface{}{true, false, nil})
	}
	return float64(r.Intn(30))
}

func (g *c07ahGen) container(arr bool, min int) *c07ahNode {
	r := g.r
	n := &c07ahNode{arr: arr}
	cnt := min + r.Intn(4)
	if arr {
		for i := 0; i < cnt; i++ {
			n.a = append(n.a, g.scalar())
		}
		return n
	}
	n.m = map[string]interface{}{}
	pool := []string{"p", "q", "r", "b", "a10", "a9", "Z", "k y", "é", "10", "9", "B", "zb"}
	r.Shuffle(len(pool), func(i, j int) { pool[i], pool[j] = pool[j], pool[i] })
	for _, k := range pool[:cnt] {
		n.m[k] = g.scalar()
	}
	if chance(r, 0.2) {
		n.m["sub"] = g.container(chance(r, 0.3), 0)
	}
	return n
}

func (g *c07ahGen) aliases(x *c07ahNode) []c07ahRef {
	var al []c07ahRef
	for _, f := range g.refs {
		if g.noDollar && f.base == "$" {
			continue // END rule: there is no record
		}
		if n, _ := f.get(g.gw).(*c07ahNode); n == x {
			al = append(al, f)
		}
	}
	return al
}

func (g *c07ahGen) isHolder(f c07ahRef) bool {
	for _, h := range g.holders {
		if h.text() == f.text() {
			return true
		}
	}
	return false
}

// assign: `name = <literal>` (a new tree at every execution)
func (g *c07ahGen) assign(name string, proto *c07ahNode) c07ahRef {
	g.step(name+" = "+c07ahLit(g.r, proto), func(w *c07ahWorld) { w.env[name] = c07ahCopy(proto) })
	f := c07ahRef{base: name}
	g.refs = append(g.refs, f)
	return f
}

// mkAlias: one more expression denoting the container h denotes
func (g *c07ahGen) mkAlias(h c07ahRef) {
	r := g.r
	x, _ := h.get(g.gw).(*c07ahNode)
	if x == nil {
		return
	}
	kind := r.Intn(6)
	if kind == 4 && (len(h.path) == 0 || !func() bool { _, s := h.path[len(h.path)-1].(string); return s }()) {
		kind = 0
	}
	switch kind {
	case 0: // a second variable
		name := g.newVar(pick(r, []string{"b", "al", "same"}))
		g.step(name+" = "+h.text(), func(w *c07ahWorld) { w.env[name] = h.get(w) })
		g.refs = append(g.refs, c07ahRef{base: name})
		g.used["alias-var"]++
	case 1: // an array holding it (and a sibling of the same kind)
		name := g.newVar("hs")
		sib := g.container(x.arr, 0)
		at := r.Intn(2)
		parts := []string{c07ahLit(r, sib), c07ahLit(r, sib)}
		parts[at] = h.text()
		twice := chance(r, 0.2)
		if twice {
			parts[1-at] = h.text()
		}
		g.step(name+" = ["+strings.Join(parts, ", ")+"]", func(w *c07ahWorld) {
			n := &c07ahNode{arr: true, a: []interface{}{c07ahCopy(sib), c07ahCopy(sib)}}
			n.a[at] = h.get(w)
			if twice {
				n.a[1-at] = h.get(w)
			}
			w.env[name] = n
		})
		hf := c07ahRef{base: name}
		g.refs = append(g.refs, hf.sub(0, false), hf.sub(1, false))
		g.holders = append(g.holders, hf)
		g.used["alias-array-element"]++
	case 2: // an object holding it
		name := g.newVar("ho")
		sib := g.container(x.arr, 0)
		mine, other := "p", "q"
		if chance(r, 0.5) {
			mine, other = "q", "p"
		}
		parts := []string{mine + ": " + h.text(), mustStrLit(other) + ": " + c07ahLit(r, sib)}
		if chance(r, 0.5) {
			parts[0], parts[1] = parts[1], parts[0]
		}
		g.step(name+" = {"+strings.Join(parts, ", ")+"}", func(w *c07ahWorld) {
			w.env[name] = &c07ahNode{m: map[string]interface{}{mine: h.get(w), other: c07ahCopy(sib)}}
		})
		hf := c07ahRef{base: name}
		g.refs = append(g.refs, hf.sub(mine, chance(r, 0.5)), hf.sub(other, true))
		g.holders = append(g.holders, hf)
		g.used["alias-object-member"]++
	case 3: // nested two deep
		name := g.newVar("hh")
		g.step(name+" = {deep: ["+h.text()+"], n: 1}", func(w *c07ahWorld) {
			w.env[name] = &c07ahNode{m: map[string]interface{}{"n": float64(1), "deep": &c07ahNode{arr: true, a: []interface{}{h.get(w)}}}}
		})
		hf := c07ahRef{base: name}.sub("deep", chance(r, 0.5))
		g.refs = append(g.refs, hf.sub(0, false))
		g.holders = append(g.holders, hf)
		g.used["alias-nested"]++
	case 4: // pluck of the object that holds it: the new object shares the member
		name := g.newVar("pl")
		key := h.path[len(h.path)-1].(string)
		par := h.parent()
		g.step(name+" = "+par.text()+".pluck("+mustStrLit(key)+")", func(w *c07ahWorld) {
			w.env[name] = &c07ahNode{m: map[string]interface{}{key: c07ahChild(par.get(w), key)}}
		})
		hf := c07ahRef{base: name}
		g.refs = append(g.refs, hf.sub(key, chance(r, 0.5)))
		g.holders = append(g.holders, hf)
		g.used["alias-pluck"]++
	case 5: // pushed onto an array
		name := g.newVar("keep")
		g.step(name+" = []\n"+name+".push("+h.text()+")", func(w *c07ahWorld) {
			w.env[name] = &c07ahNode{arr: true, a: []interface{}{h.get(w)}}
		})
		hf := c07ahRef{base: name}
		g.refs = append(g.refs, hf.sub(0, false))
		g.holders = append(g.holders, hf)
		g.used["alias-pushed"]++
	}
}

// slot: the text of `c[key]` for a constant key; pre is a statement to run before
func (g *c07ahGen) slot(c string, key string) (pre, target string) {
	r := g.r
	if n, err := strconv.Atoi(key); err == nil && strconv.Itoa(n) == key && n >= 0 && chance(r, 0.6) {
		return "", fmt.Sprintf("%s[%d]", c, n)
	}
	switch {
	case c07IsIdent(key) && chance(r, 0.45):
		return "", c + "." + key
	case chance(r, 0.25):
		return "kv = " + mustStrLit(key) + "\n", c + "[kv]"
	}
	return "", c + "[" + mustStrLit(key) + "]"
}

func c07ahSet(w *c07ahWorld, cv interface{}, key string, val interface{}) {
	n, _ := cv.(*c07ahNode)
	if n == nil || n.arr {
		w.fail = true
		return
	}
	n.m[key] = val
}

func c07ahAdd(w *c07ahWorld, cv interface{}, key string, d float64) {
	n, _ := cv.(*c07ahNode)
	if n == nil || n.arr {
		w.fail = true
		return
	}
	old, present := n.m[key]
	f, isNum := old.(float64)
	if present && !isNum {
		w.fail = true
		return
	}
	n.m[key] = f + d
}

func c07ahPush(w *c07ahWorld, cv interface{}, val interface{}) {
	n, _ := cv.(*c07ahNode)
	if n == nil || !n.arr {
		w.fail = true
		return
	}
	n.a = append(n.a, val)
}

// walkNode: the trace of `for (k[, v] in n) print tag, k[, v]`
func c07ahWalkNode(w *c07ahWorld, n *c07ahNode, tag string, two bool) {
	if n.arr {
		for i, e := range n.a {
			if two {
				w.print(tag, e, float64(i))
			} else {
				w.print(tag, e)
			}
		}
		return
	}
	for _, k := range c07ahKeys(n) {
		if two {
			w.print(tag, k, n.m[k])
		} else {
			w.print(tag, k)
		}
	}
}

// walk: a for-in over h with a trace, then the container itself and / or its length
func (g *c07ahGen) walk(h c07ahRef, plain bool) {
	r := g.r
	x, _ := h.get(g.gw).(*c07ahNode)
	if x == nil {
		return
	}
	tag := g.tag("w")
	two := chance(r, 0.5)
	v1, v2 := pick(r, []string{"k", "key"}), pick(r, []string{"v", "val"})
	if x.arr {
		v1, v2 = pick(r, []string{"x", "e"}), pick(r, []string{"i", "idx"})
	}
	head := "for (" + v1 + " in " + h.text() + ")"
	pr := "print " + mustStrLit(tag) + ", " + v1
	if two {
		head = "for (" + v1 + ", " + v2 + " in " + h.text() + ")"
		pr += ", " + v2
	}
	variant := 0
	if !plain && chance(r, 0.45) {
		variant = 1 + r.Intn(5)
	}
	keys := []string{}
	if !x.arr {
		keys = c07ahKeys(x)
	}
	if variant >= 1 && variant <= 3 && (x.arr || len(keys) == 0) {
		variant = 4
	}
	al := g.aliases(x)
	if variant == 5 {
		// through the item variable of a loop over a holder
		var hs []c07ahRef
		for _, f := range al {
			if len(f.path) > 0 && g.isHolder(f.parent()) {
				hs = append(hs, f.parent())
			}
		}
		if len(hs) == 0 {
			variant = 0
		} else {
			p := pick(r, hs)
			pn, _ := p.get(g.gw).(*c07ahNode)
			outer := "for (it in " + p.text() + ")"
			if pn != nil && !pn.arr {
				outer = "for (kk, it in " + p.text() + ")"
			}
			inner := strings.Replace(head, " in "+h.text()+")", " in it)", 1)
			text := outer + " " + inner + " " + pr
			if chance(r, 0.5) {
				text = outer + " {\n" + inner + " {\n" + pr + "\n}\n}"
			}
			g.step(text, func(w *c07ahWorld) {
				pn := p.node(w)
				if pn == nil {
					return
				}
				var kids []interface{}
				if pn.arr {
					kids = append(kids, pn.a...)
				} else {
					for _, k := range c07ahKeys(pn) {
						kids = append(kids, pn.m[k])
					}
				}
				for _, kid := range kids {
					kn, _ := kid.(*c07ahNode)
					if kn == nil {
						w.fail = true
						return
					}
					c07ahWalkNode(w, kn, tag, two)
				}
			})
			g.used["walk-item"]++
		}
	}
	switch variant {
	case 0:
		text := head + " " + pr
		if chance(r, 0.3) {
			text = head + " {\n" + pr + "\n}"
		}
		g.step(text, func(w *c07ahWorld) {
			if n := h.node(w); n != nil {
				c07ahWalkNode(w, n, tag, two)
			}
		})
		g.used["walk-plain"]++
	case 1, 2, 3:
		// at one key: a new key stored through an alias (not visited by this loop), a break, or the
		// same object walked again through an alias
		at := pick(r, keys)
		via := pick(r, al)
		cond := "if (" + v1 + " == " + mustStrLit(at) + ") "
		var act string
		var do func(w *c07ahWorld) bool
		switch variant {
		case 1:
			nk, val := g.newKey(), g.scalar()
			pre, target := g.slot(via.text(), nk)
			act = cond + "{\n" + pre + target + " = " + c07ahLit(r, val) + "\n}"
			do = func(w *c07ahWorld) bool { c07ahSet(w, via.get(w), nk, val); return false }
			g.used["walk-insert"]++
		case 2:
			act = cond + "break"
			do = func(w *c07ahWorld) bool { return true }
			g.used["walk-break"]++
		default:
			itag := tag + "i"
			act = cond + "for (k2 in " + via.text() + ") print " + mustStrLit(itag) + ", k2"
			do = func(w *c07ahWorld) bool {
				if n := via.node(w); n != nil {
					c07ahWalkNode(w, n, itag, false)
				}
				return false
			}
			g.used["walk-nested"]++
		}
		g.step(head+" {\n"+pr+"\n"+act+"\n}", func(w *c07ahWorld) {
			n := h.node(w)
			if n == nil || n.arr {
				w.fail = true
				return
			}
			for _, k := range c07ahKeys(n) {
				if two {
					w.print(tag, k, n.m[k])
				} else {
					w.print(tag, k)
				}
				if k == at && do(w) {
					break
				}
			}
		})
	case 4:
		g.step("cnt = 0\n"+head+" cnt++\nprint "+mustStrLit(tag)+", cnt", func(w *c07ahWorld) {
			if n := h.node(w); n != nil {
				w.print(tag, float64(len(n.a)+len(n.m)))
			}
		})
		g.used["walk-count"]++
	}
	// the container as print and length() see it
	show := h
	if chance(r, 0.2) {
		show = pick(r, al)
	}
	otag := g.tag("o")
	switch r.Intn(3) {
	case 0:
		g.step("print "+mustStrLit(otag)+", "+show.text(), func(w *c07ahWorld) {
			if n := show.node(w); n != nil {
				w.print(otag, n)
			}
		})
	case 1:
		g.step("print "+mustStrLit(otag)+", "+show.text()+".length()", func(w *c07ahWorld) {
			if n := show.node(w); n != nil {
				w.print(otag, float64(len(n.a)+len(n.m)))
			}
		})
	default:
		g.step("print "+mustStrLit(otag)+", "+h.text()+".length(), "+show.text(), func(w *c07ahWorld) {
			n, s := h.node(w), show.node(w)
			if n != nil && s != nil {
				w.print(otag, float64(len(n.a)+len(n.m)), s)
			}
		})
	}
}

const c07ahFuncs = `function ahput(rec, key, val) { rec[key] = val }
function ahput2(r2, key2, val2) { ahput(r2, key2, val2) }
function ahbump(rec, key) { rec[key]++ }
function ahwput(rec, key) {
  for (q in rec) print "f", q
  rec[key] = true
  for (q, qv in rec) print "g", q, qv
}
function ahgrow(a, val) { a.push(val) }
function ahwpush(a, val) {
  for (q in a) print "f", q
  a.push(val)
  for (q, qi in a) print "g", q, qi
}
function ahsame(x) { return x }
`

// itemLoop: a change made through the item variable of a for-in over a container that holds
// x; do is applied to every child the guard lets through
func (g *c07ahGen) itemLoop(x *c07ahNode, body string, do func(w *c07ahWorld, child interface{})) bool {
	r := g.r
	type cand struct {
		par c07ahRef
		at  interface{}
	}
	var cs []cand
	for _, f := range g.aliases(x) {
		if len(f.path) > 0 {
			cs = append(cs, cand{f.parent(), f.path[len(f.path)-1]})
		}
	}
	if len(cs) == 0 {
		return false
	}
	c := pick(r, cs)
	pn, _ := c.par.get(g.gw).(*c07ahNode)
	if pn == nil {
		return false
	}
	guarded := !g.isHolder(c.par) || chance(r, 0.5)
	var text string
	if pn.arr {
		if guarded {
			text = fmt.Sprintf("for (it, ii in %s) if (ii == %d) %s", c.par.text(), c.at.(int), body)
		} else {
			text = fmt.Sprintf("for (it in %s) %s", c.par.text(), body)
		}
	} else {
		if guarded {
			text = fmt.Sprintf("for (kk, it in %s) if (kk == %s) %s", c.par.text(), mustStrLit(c.at.(string)), body)
		} else {
			text = fmt.Sprintf("for (kk, it in %s) {\n%s\n}", c.par.text(), body)
		}
	}
	g.step(text, func(w *c07ahWorld) {
		pn := c.par.node(w)
		if pn == nil {
			return
		}
		if guarded {
			do(w, c07ahChild(pn, c.at))
			return
		}
		var kids []interface{}
		if pn.arr {
			kids = append(kids, pn.a...)
		} else {
			for _, k := range c07ahKeys(pn) {
				kids = append(kids, pn.m[k])
			}
		}
		for _, kid := range kids {
			do(w, kid)
		}
	})
	g.used["change-item-variable"]++
	return true
}

// key: a constant new key, an existing key (value update), or a member of the record
func (g *c07ahGen) key(x *c07ahNode) (lit string, field string) {
	r := g.r
	if len(g.recKeys) > 0 && chance(r, 0.4) {
		return "", pick(r, g.recKeys)
	}
	if keys := c07ahKeys(x); len(keys) > 0 && chance(r, 0.25) {
		return pick(r, keys), ""
	}
	return g.newKey(), ""
}

func c07ahRecKey(w *c07ahWorld, field string) (string, bool) {
	return c07KeyOf(c07ahChild(w.dollar, field))
}

// mutate: one change of the container h denotes, mostly through another expression
func (g *c07ahGen) mutate(h c07ahRef) {
	r := g.r
	x, _ := h.get(g.gw).(*c07ahNode)
	if x == nil {
		return
	}
	al := g.aliases(x)
	via := h
	if chance(r, 0.85) {
		var others []c07ahRef
		for _, f := range al {
			if f.text() != h.text() {
				others = append(others, f)
			}
		}
		if len(others) > 0 {
			via = pick(r, others)
		}
	}
	vt := via.text()
	if x.arr {
		val := g.scalar()
		vl := c07ahLit(r, val)
		switch r.Intn(9) {
		case 0, 1:
			g.step(vt+".push("+vl+")", func(w *c07ahWorld) { c07ahPush(w, via.get(w), val) })
			g.used["change-push"]++
		case 2:
			fn := pick(r, []string{"ahgrow", "ahgrow", "ahwpush"})
			g.step(fn+"("+vt+", "+vl+")", func(w *c07ahWorld) {
				n := via.node(w)
				if n == nil || !n.arr {
					w.fail = true
					return
				}
				if fn == "ahwpush" {
					c07ahWalkNode(w, n, "f", false)
				}
				n.a = append(n.a, val)
				if fn == "ahwpush" {
					c07ahWalkNode(w, n, "g", true)
				}
			})
			g.used["change-function-push"]++
		case 3:
			g.step(vt+"["+vt+".length()] = "+vl, func(w *c07ahWorld) { c07ahPush(w, via.get(w), val) })
			g.used["change-append-by-index"]++
		case 4:
			m := pick(r, []string{"pop", "popfirst"})
			ptag := g.tag("p")
			g.step("u = "+vt+"."+m+"()\nprint "+mustStrLit(ptag)+", u", func(w *c07ahWorld) {
				n := via.node(w)
				if n == nil || !n.arr {
					w.fail = true
					return
				}
				if len(n.a) == 0 {
					w.print(ptag, nil)
					return
				}
				if m == "pop" {
					w.print(ptag, n.a[len(n.a)-1])
					n.a = n.a[:len(n.a)-1]
				} else {
					w.print(ptag, n.a[0])
					n.a = n.a[1:]
				}
			})
			g.used["change-"+m]++
		case 5:
			if !g.itemLoop(x, "it.push("+vl+")", func(w *c07ahWorld, c interface{}) { c07ahPush(w, c, val) }) {
				g.step(vt+".push("+vl+")", func(w *c07ahWorld) { c07ahPush(w, via.get(w), val) })
			}
		case 6:
			// index 0 exists, or (empty array) is the append position
			g.step(vt+"[0] = "+vl, func(w *c07ahWorld) {
				n := via.node(w)
				if n == nil || !n.arr {
					w.fail = true
					return
				}
				if len(n.a) == 0 {
					n.a = append(n.a, val)
				} else {
					n.a[0] = val
				}
			})
			g.used["change-element"]++
		case 7:
			g.step("ahsame("+vt+").push("+vl+")", func(w *c07ahWorld) { c07ahPush(w, via.get(w), val) })
			g.used["change-function-result"]++
		case 8:
			g.replace(h, true)
		}
		return
	}
	lit, field := g.key(x)
	keyOf := func(w *c07ahWorld) (string, bool) {
		if field == "" {
			return lit, true
		}
		k, ok := c07ahRecKey(w, field)
		if !ok {
			w.fail = true
		}
		return k, ok
	}
	pre, target, keyText := "", "", ""
	if field != "" {
		keyText = pick(r, []string{"$." + field, "$[" + mustStrLit(field) + "]"})
		target = vt + "[" + keyText + "]"
		g.used["key-from-record"]++
	} else {
		keyText = mustStrLit(lit)
		pre, target = g.slot(vt, lit)
	}
	cur, present := interface{}(nil), false
	if field == "" {
		cur, present = x.m[lit]
	} else if k, ok := c07ahRecKey(g.gw, field); ok {
		cur, present = x.m[k]
	}
	_, curNum := cur.(float64)
	countable := !present || curNum
	val := g.scalar()
	vl := c07ahLit(r, val)
	set := func(w *c07ahWorld) {
		if k, ok := keyOf(w); ok {
			c07ahSet(w, via.get(w), k, val)
		}
	}
	kind := r.Intn(12)
	if !countable && (kind == 2 || kind == 3 || kind == 6) {
		kind = 0
	}
	switch kind {
	case 0, 1:
		g.step(pre+target+" = "+vl, set)
		g.used["change-store"]++
	case 2:
		form := r.Intn(3)
		text := []string{target + "++", "u = ++" + target, target + " += 1"}[form]
		g.step(pre+text, func(w *c07ahWorld) {
			if k, ok := keyOf(w); ok {
				c07ahAdd(w, via.get(w), k, 1)
			}
		})
		g.used["change-increment"]++
	case 3:
		d := float64(2 + r.Intn(5))
		op := pick(r, []string{" += ", " -= "})
		g.step(pre+target+op+numLit(d), func(w *c07ahWorld) {
			if k, ok := keyOf(w); ok {
				if op == " -= " {
					c07ahAdd(w, via.get(w), k, -d)
				} else {
					c07ahAdd(w, via.get(w), k, d)
				}
			}
		})
		g.used["change-compound"]++
	case 4:
		// auto-creation: a new member holding a new object (one or two levels)
		nk := g.newKey()
		p1, t1 := g.slot(vt, nk)
		deep := chance(r, 0.3)
		text := p1 + t1 + ".m = " + vl
		if deep {
			text = p1 + t1 + ".mid[\"m\"] = " + vl
		}
		g.step(text, func(w *c07ahWorld) {
			n := via.node(w)
			if n == nil || n.arr {
				w.fail = true
				return
			}
			// the members on the way are created where missing (a later record finds them)
			path := []string{nk}
			if deep {
				path = append(path, "mid")
			}
			for _, k := range path {
				c, there := n.m[k]
				cn, _ := c.(*c07ahNode)
				if !there {
					cn = &c07ahNode{m: map[string]interface{}{}}
					n.m[k] = cn
				} else if cn == nil || cn.arr {
					w.fail = true
					return
				}
				n = cn
			}
			n.m["m"] = val
		})
		g.used["change-auto-create"]++
	case 5:
		fn := pick(r, []string{"ahput", "ahput2"})
		g.step(fn+"("+vt+", "+keyText+", "+vl+")", set)
		g.used["change-function-parameter"]++
	case 6:
		g.step("ahbump("+vt+", "+keyText+")", func(w *c07ahWorld) {
			if k, ok := keyOf(w); ok {
				c07ahAdd(w, via.get(w), k, 1)
			}
		})
		g.used["change-function-parameter"]++
	case 7:
		g.step("ahwput("+vt+", "+keyText+")", func(w *c07ahWorld) {
			k, ok := keyOf(w)
			n := via.node(w)
			if !ok || n == nil || n.arr {
				w.fail = true
				return
			}
			c07ahWalkNode(w, n, "f", false)
			n.m[k] = true
			c07ahWalkNode(w, n, "g", true)
		})
		g.used["change-function-walks"]++
	case 8, 9:
		if field != "" {
			keyText = pick(r, []string{"$." + field, "$[" + mustStrLit(field) + "]"})
		}
		body := "it[" + keyText + "] = " + vl
		if field == "" && c07IsIdent(lit) && chance(r, 0.5) {
			body = "it." + lit + " = " + vl
		}
		if !g.itemLoop(x, body, func(w *c07ahWorld, c interface{}) {
			if k, ok := keyOf(w); ok {
				c07ahSet(w, c, k, val)
			}
		}) {
			g.step(pre+target+" = "+vl, set)
			g.used["change-store"]++
		}
	case 10:
		t := strings.Replace(target, vt, "ahsame("+vt+")", 1)
		g.step(pre+t+" = "+vl, set)
		g.used["change-function-result"]++
	case 11:
		g.replace(h, false)
	}
}

// replace: the expression gets a whole new value; the other expressions keep the old container
func (g *c07ahGen) replace(h c07ahRef, arr bool) {
	if h.base == "$" && len(h.path) == 0 {
		return
	}
	proto := g.container(arr, 0)
	g.step(h.text()+" = "+c07ahLit(g.r, proto), func(w *c07ahWorld) { h.set(w, c07ahCopy(proto)) })
	g.used["change-replace"]++
}

// rounds: walk, change (mostly through another expression), walk the SAME expression again
func (g *c07ahGen) rounds(h c07ahRef, n int) {
	r := g.r
	for i := 0; i < n; i++ {
		x, _ := h.get(g.gw).(*c07ahNode)
		if x == nil {
			return
		}
		al := g.aliases(x)
		if len(al) == 0 {
			return
		}
		if len(al) < 2 || chance(r, 0.35) {
			g.mkAlias(pick(r, al))
			al = g.aliases(x)
		}
		hr := h
		if chance(r, 0.3) {
			hr = pick(r, al)
		}
		g.walk(hr, false)
		for j, m := 0, 1+r.Intn(2); j < m; j++ {
			g.mutate(hr)
		}
		g.walk(hr, false)
		if chance(r, 0.3) && hr.text() != h.text() {
			g.walk(h, true)
		}
	}
}

type c07ahProg struct {
	begin, main, main2, end []c07ahStep
	records                 []interface{}
}

func c07ahBody(sb *strings.Builder, head string, steps []c07ahStep) {
	sb.WriteString(head + " {\n")
	for _, s := range steps {
		for _, l := range strings.Split(strings.TrimRight(s.text, "\n"), "\n") {
			sb.WriteString("  " + l + "\n")
		}
	}
	sb.WriteString("}\n")
}

func (p *c07ahProg) text() string {
	var sb strings.Builder
	sb.WriteString(c07ahFuncs)
	if len(p.begin) > 0 {
		c07ahBody(&sb, "BEGIN", p.begin)
	}
	if len(p.main) > 0 {
		c07ahBody(&sb, "", p.main)
	}
	if len(p.main2) > 0 {
		c07ahBody(&sb, "", p.main2)
	}
	if len(p.end) > 0 {
		c07ahBody(&sb, "END", p.end)
	}
	return sb.String()
}

// expected: the whole program executed on a new heap
func (p *c07ahProg) expected() (string, bool) {
	w := &c07ahWorld{env: map[string]interface{}{}}
	run := func(steps []c07ahStep) {
		for _, s := range steps {
			s.run(w)
		}
	}
	run(p.begin)
	for _, rec := range p.records {
		w.dollar = c07ahCopy(rec)
		run(p.main)
		run(p.main2)
	}
	w.dollar = nil
	run(p.end)
	return w.out.String(), !w.fail
}

func c07ahEmit(g *c07ahGen, p *c07ahProg, shape, kind string, emit func(Case)) {
	text := p.text()
	var files []File
	meta := metaProg(text, "shape", shape, "container", kind, "row", shape, "col", kind, "steps", c07Hist(g.used))
	if p.records != nil {
		doc := c07ahPretty(&c07ahNode{arr: true, a: p.records}, false)
		files = []File{{Name: "in.json", Data: []byte(doc)}}
		meta["input"] = doc
	}
	c := Case{Req: RunReq(text, nil, files, false), Fields: []string{"class", "out"}, Meta: meta}
	if want, ok := p.expected(); ok {
		c.Oracle = c07OutOracle(want)
		c.Meta["reference"] = "yes"
	} else {
		c.Meta["reference"] = "no"
		if os.Getenv("C07AH_DEBUG") != "" {
			fmt.Fprintln(os.Stderr, "NOREF", shape, "\n"+text, meta["input"])
		}
	}
	emit(c)
}

func c07ahNew(r *rand.Rand) *c07ahGen {
	return &c07ahGen{r: r, gw: &c07ahWorld{env: map[string]interface{}{}}, used: map[string]int{}}
}

func c07ahKind(arr bool) string {
	if arr {
		return "array"
	}
	return "object"
}

// c07GenAliasHistory: one BEGIN rule, 1-2 containers in variables, 2-4 rounds each, interleaved
func c07GenAliasHistory(r *rand.Rand, tier string, emit func(Case)) {
	n := tierN(tier, 900, 15000)
	for i := 0; i < n; i++ {
		g := c07ahNew(r)
		p := &c07ahProg{}
		g.cur = &p.begin
		arr := chance(r, 0.3)
		names := []string{pick(r, []string{"o", "seen", "tbl"})}
		if arr {
			names[0] = pick(r, []string{"arr", "list"})
		}
		targets := []c07ahRef{g.assign(names[0], g.container(arr, 0))}
		if chance(r, 0.3) {
			targets = append(targets, g.assign("second", g.container(arr, 1)))
		}
		if chance(r, 0.25) {
			// the container lives in a member of another one from the start
			t := targets[0]
			g.step("box = {inner: "+t.text()+", n: 1}", func(w *c07ahWorld) {
				w.env["box"] = &c07ahNode{m: map[string]interface{}{"inner": t.get(w), "n": float64(1)}}
			})
			targets[0] = c07ahRef{base: "box"}.sub("inner", chance(r, 0.5))
			g.refs = append(g.refs, targets[0])
		}
		for j, m := 0, 2+r.Intn(3); j < m; j++ {
			g.rounds(pick(r, targets), 1)
		}
		for _, t := range targets {
			g.walk(t, true)
		}
		c07ahEmit(g, p, "begin", c07ahKind(arr), emit)
	}
}

// c07GenAliasRecords: the histories per record over 2-4 records: on `$`, on a member of `$`, on
// a container kept in a global across the records (keys taken from the record), on the previous
// record kept in a global
func c07GenAliasRecords(r *rand.Rand, tier string, emit func(Case)) {
	n := tierN(tier, 600, 10000)
	for i := 0; i < n; i++ {
		g := c07ahNew(r)
		p := &c07ahProg{}
		arr := chance(r, 0.25)
		shape := pick(r, []string{"dollar", "member", "global", "global", "previous"})
		if shape == "dollar" || shape == "previous" {
			arr = false
		}
		nrec := 2 + r.Intn(3)
		names := []string{"ann", "bob", "ann", "cy", "Bob"}
		for j := 0; j < nrec; j++ {
			var rec *c07ahNode
			switch shape {
			case "dollar", "previous":
				rec = g.container(false, 1)
				delete(rec.m, "sub")
			default:
				rec = &c07ahNode{m: map[string]interface{}{"name": pick(r, names), "id": float64(r.Intn(4)), "o": g.container(arr, 0)}}
			}
			p.records = append(p.records, rec)
		}
		g.gw.dollar = c07ahCopy(p.records[0])
		dollar := c07ahRef{base: "$"}
		switch shape {
		case "dollar":
			g.cur = &p.main
			g.refs = append(g.refs, dollar)
			g.rounds(dollar, 1+r.Intn(3))
			if chance(r, 0.4) {
				g.cur = &p.main2
				g.walk(dollar, true)
			}
		case "member":
			g.cur = &p.main
			t := dollar.sub("o", chance(r, 0.6))
			g.refs = append(g.refs, t)
			if chance(r, 0.5) {
				g.recKeys = []string{"name", "id"}
			}
			g.rounds(t, 1+r.Intn(3))
			g.step("print \"rec\", $", func(w *c07ahWorld) { w.print("rec", w.dollar) })
		case "global":
			g.cur = &p.begin
			t := g.assign(pick(r, []string{"seen", "tbl"}), g.container(arr, 0))
			for j, m := 0, r.Intn(3); j < m; j++ {
				g.mkAlias(pick(r, g.aliases(t.node(g.gw))))
			}
			if chance(r, 0.3) {
				g.walk(t, true)
			}
			g.cur = &p.main
			g.recKeys = []string{"name", "id"}
			g.rounds(t, 1+r.Intn(2))
			g.recKeys = nil
			g.cur, g.noDollar = &p.end, true
			g.walk(t, true)
		case "previous":
			g.cur = &p.begin
			t := g.assign("prev", g.container(false, 1))
			g.cur = &p.main
			g.refs = append(g.refs, dollar)
			g.rounds(t, 1)
			g.step("prev = $", func(w *c07ahWorld) { w.env["prev"] = w.dollar })
			g.rounds(pick(r, []c07ahRef{t, dollar}), 1+r.Intn(2))
			g.cur, g.noDollar = &p.end, true
			g.walk(t, true)
		}
		c07ahEmit(g, p, shape, c07ahKind(arr), emit)
	}
}

func init() {
	register(Family{
		Name: "forin-alias-history", Prop: "C07",
		Rule: "histories on shared containers in one BEGIN rule: 1-2 objects (30 %: arrays) in variables (25 %: in a member of another object), 2-4 rounds of: for-in over an expression denoting the container (1 and 2 variables; plain, counting, with a break, with a new key stored through an alias during the loop, with the same object walked again through an alias, through the item variable of a loop over a holder), print of the container and / or its length(), 1-2 changes made mostly through ANOTHER expression for the same container (a second variable, an element of an array / a member of an object / two levels deep / the member of a pluck result / pushed onto an array, a function parameter one and two calls deep, a function that walks, changes and walks again, a function result, the item variable of a for-in over the holder with and without a guard) or directly: new key by .k / [\"k\"] / [var] / [number], ++ / += / -= on a new key, auto-creation one and two levels deep, value update of an existing key, whole-value replacement; arrays: push, append by index, pop / popfirst, element update, never during a loop over that array), then the SAME expression walked again; oracle: the generator runs every step on its own heap with sharing: each walk must visit exactly the sorted keys / the elements the container has when the loop starts, print and length() agree; every program is also compared with the model",
		Gen:  c07GenAliasHistory,
	})
	register(Family{
		Name: "forin-alias-records", Prop: "C07",
		Rule: "the same histories per record over 2-4 records: on `$` itself (a second rule walks it again), on a member `$.o` (object or array; keys taken from the record), on a container made in BEGIN and kept in a global across the records together with aliases made in BEGIN (counting by `$.name` / `$.id` through an alias, walked in END), on the previous record kept in a global (`prev = $` between the rounds); oracle and model comparison as in forin-alias-history",
		Gen:  c07GenAliasRecords,
	})
}
