//go:build verif

package main

import lang "github.com/alligator/jqawk/src"

const hooksOn = true

func hookDepth(ev *lang.Evaluator) int                  { return ev.VerifFrameDepth() }
func hookDumpProgram(src string) (string, error)        { return lang.VerifDumpProgram(src) }
func hookDumpExpr(src string) (string, error)           { return lang.VerifDumpExpr(src) }
func hookTokens(src string) string                      { return lang.VerifTokens(src) }
func hookLineCol(src string, pos int) (string, int, int) { return lang.VerifLineCol(src, pos) }
