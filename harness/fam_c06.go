package main

// C06 — precedence and associativity: an expression means its fully
// parenthesised form (DESIGN.md section 3.8).
//
// Expression trees are built in a small IR and rendered three ways: with
// minimal parentheses (only where section 3.8 requires them), fully
// parenthesised, and with random redundant parentheses.  The three texts must
// print the same value (Group) and parse to the same AST once the byte
// positions are stripped from the dump (Oracle); every text is also compared
// with the model (dump / class,out).  The tokens are written in three blank
// styles: a blank between any two, none next to brackets, and none wherever
// the tokens stay the same without (-2.5.floor(), !x.k, a*-b), so that a
// prefix operator also stands directly in front of its operand.
//
// Two further families have closed-form oracles: is-after-prefix (`is` with every type name
// after every prefix operator stack, the test at every place in the stack, over operands of
// every type: the value follows from "! gives a bool, - + give a number") and many-groups
// (hundreds to thousands of parenthesised groups in one program, shallow and 150-300 deep:
// the value is the sum computed while the text is generated).

import (
	"encoding/hex"
	"fmt"
	"math"
	"math/rand"
	"regexp"
	"strconv"
	"strings"
)

// ---- IR ----------------------------------------------------------------

type c06N struct {
	k    string // atom | un | pre | post | bin | is | asg | call | mem | idx
	op   string // operator text, member name or type name
	a, b *c06N  // operand / left / base, right / index
	args []*c06N
}

// binding levels of section 3.8, larger binds tighter
const (
	c06LAsg  = 1
	c06LLog  = 2
	c06LCmp  = 3
	c06LAdd  = 4
	c06LMul  = 5
	c06LPost = 6
	c06LPre  = 7
	c06LSuf  = 8
	c06LAtom = 9
)

var c06BinLevel = map[string]int{
	"*": c06LMul, "/": c06LMul, "%": c06LMul,
	"+": c06LAdd, "-": c06LAdd,
	"==": c06LCmp, "!=": c06LCmp, "<": c06LCmp, "<=": c06LCmp, ">": c06LCmp, ">=": c06LCmp, "~": c06LCmp, "!~": c06LCmp,
	"&&": c06LLog, "||": c06LLog,
	"=": c06LAsg, "+=": c06LAsg, "-=": c06LAsg, "*=": c06LAsg, "/=": c06LAsg,
}

var c06Arith = []string{"*", "/", "%", "+", "-"}
var c06Cmp = []string{"==", "!=", "<", "<=", ">", ">="}
var c06Asg = []string{"=", "+=", "-=", "*=", "/="}

// the 15 plain binary operators followed by the 5 assignment operators
var c06SeqOps = []string{"*", "/", "%", "+", "-", "==", "!=", "<", "<=", ">", ">=", "~", "!~", "&&", "||", "=", "+=", "-=", "*=", "/="}

func c06Atom(t string) *c06N { return &c06N{k: "atom", op: t} }

func (n *c06N) level() int {
	switch n.k {
	case "atom":
		return c06LAtom
	case "un", "pre":
		return c06LPre
	case "post":
		return c06LPost
	case "bin", "asg":
		return c06BinLevel[n.op]
	case "is":
		return c06LCmp
	default: // call mem idx
		return c06LSuf
	}
}

// render modes
const (
	c06Min = iota
	c06Full
	c06Redundant
)

type c06R struct {
	mode int
	r    *rand.Rand
	p    float64 // probability of a redundant pair per node
}

// toks renders n in a context that needs binding level >= min.
func (c *c06R) toks(n *c06N, min int) []string {
	var t []string
	switch n.k {
	case "atom":
		t = []string{n.op}
	case "un":
		t = append([]string{n.op}, c.toks(n.a, c06LPre)...)
	case "pre":
		// the operand of a prefix operator is a unary-level expression
		t = append([]string{n.op}, c.toks(n.a, c06LPre)...)
	case "post":
		// postfix binds looser than prefix: its operand may be a prefix expression
		t = append(c.toks(n.a, c06LPre), n.op)
	case "bin":
		l := c06BinLevel[n.op]
		t = append(c.toks(n.a, l), n.op)
		t = append(t, c.toks(n.b, l+1)...)
	case "is":
		t = append(c.toks(n.a, c06LCmp), "is", n.op)
	case "asg":
		// right-associative; whatever is tighter than assignment stands on the left
		t = append(c.toks(n.a, c06LAsg+1), n.op)
		t = append(t, c.toks(n.b, c06LAsg)...)
	case "call":
		t = append(c.toks(n.a, c06LSuf), "(")
		for i, a := range n.args {
			if i > 0 {
				t = append(t, ",")
			}
			t = append(t, c.toks(a, c06LAsg)...)
		}
		t = append(t, ")")
	case "mem":
		t = append(c.toks(n.a, c06LSuf), ".", n.op)
	case "idx":
		t = append(c.toks(n.a, c06LSuf), "[")
		t = append(t, c.toks(n.b, c06LAsg)...)
		t = append(t, "]")
	default:
		panic("c06: node kind " + n.k)
	}
	wrap := 0
	if n.level() < min {
		wrap = 1
	}
	switch c.mode {
	case c06Full:
		if n.k != "atom" {
			wrap = 1
		}
	case c06Redundant:
		for wrap < 3 && c.r.Float64() < c.p {
			wrap++
		}
	}
	for ; wrap > 0; wrap-- {
		t = append(append([]string{"("}, t...), ")")
	}
	return t
}

// join styles: the same tokens, different blanks
const (
	c06Spaced  = iota // a single blank between any two tokens
	c06Compact        // no blanks next to brackets, dots and commas
	c06Tight          // no blank wherever the tokens stay the same without it: -2.5.floor(), !x, a*-b
)

// c06Join writes the tokens in one of the three styles (never changes the tokens).
func c06Join(t []string, style int) string {
	var sb strings.Builder
	for i, s := range t {
		if i > 0 {
			p := t[i-1]
			glue := false
			switch style {
			case c06Compact:
				switch {
				case s == ")" || s == "]" || s == "," || s == ".":
					glue = true
				case p == "(" || p == "[" || p == ".":
					glue = true
				case (s == "(" || s == "[") && (c06Wordish(p) || p == ")" || p == "]"):
					glue = true
				}
			case c06Tight:
				glue = !c06NeedsBlank(p, s)
			}
			if !glue {
				sb.WriteByte(' ')
			}
		}
		sb.WriteString(s)
	}
	return sb.String()
}

// c06NeedsBlank: would writing token s directly after token p change the token
// sequence (two words running together, two operator characters forming a
// longer operator, anything next to a slash)?
func c06NeedsBlank(p, s string) bool {
	if p == "" || s == "" {
		return true
	}
	a, b := p[len(p)-1], s[0]
	if c06IsRegexLit(p) {
		// the literal ends at its closing slash, whatever follows: /a/.length(), /a/+x, /a//2
		return c06IsRegexLit(s)
	}
	if c06IsRegexLit(s) {
		// a regex literal may stand directly after an operator character or an opening
		// bracket -- except after a slash, which would close it at once
		return a == '/' || c06Wordish(p) || a == ')' || a == ']'
	}
	if a == '/' || b == '/' || a == '#' || b == '#' {
		return true
	}
	if c06Wordish(p) && (b == '_' || b == '\'' || b == '"' || b == '$' || (b >= '0' && b <= '9') || (b >= 'a' && b <= 'z') || (b >= 'A' && b <= 'Z')) {
		return true
	}
	switch string([]byte{a, b}) {
	case "++", "+=", "--", "-=", "*=", "==", "=>", "!=", "!~", "<=", ">=", "&&", "||":
		return true
	}
	return false
}

func c06IsRegexLit(t string) bool {
	return len(t) >= 3 && t[0] == '/' && t[len(t)-1] == '/'
}

func c06Wordish(s string) bool {
	if s == "" {
		return false
	}
	c := s[len(s)-1]
	return c == '_' || c == '\'' || c == '"' || c == '$' || (c >= '0' && c <= '9') || (c >= 'a' && c <= 'z') || (c >= 'A' && c <= 'Z')
}

func c06Text(n *c06N, mode int, r *rand.Rand, style int) string {
	c := &c06R{mode: mode, r: r, p: 0.22}
	return c06Join(c.toks(n, c06LAsg), style)
}

// ---- dumps without positions ---------------------------------------------

var c06PosRe1 = regexp.MustCompile(`\((lit|id|un|bin) (\d+) \d+ `)
var c06PosRe2 = regexp.MustCompile(`\((arr|obj|match|block|print|brk|cont|next|exit|forin|idx|fn) \d+`)

// c06Shape is the outcome class and the AST dump with byte positions removed.
func c06Shape(i Resp) string {
	if i["class"] != "ok" {
		return "class=" + i["class"]
	}
	b, err := hex.DecodeString(i["dump"])
	if err != nil {
		return "undecodable dump"
	}
	s := c06PosRe1.ReplaceAllString(string(b), "($1 $2 ")
	return c06PosRe2.ReplaceAllString(s, "($1")
}

// c06Siblings gives every member of a set of texts an oracle: all must have
// the shape of the first one answered.
type c06Siblings struct {
	set   bool
	shape string
	text  string
}

func (s *c06Siblings) oracle(text string) func(Resp) string {
	return func(i Resp) string {
		sh := c06Shape(i)
		if !s.set {
			s.set, s.shape, s.text = true, sh, text
			return ""
		}
		if sh != s.shape {
			return fmt.Sprintf("AST differs between renderings of one tree: %q gives %s but %q gives %s", s.text, short(s.shape), text, short(sh))
		}
		return ""
	}
}

func c06DumpNT(i Resp) bool { return i["class"] == "ok" && i["dump"] != "" && i["dump"] != "-" }

var c06ParseFields = []string{"class", "dump", "line", "col", "src"}

// c06Chain applies a suffix chain written as text (.name  (arg, arg)  [arg], the
// arguments being atoms) to a base: ".k[0].floor()" on x is ((x.k)[0]).floor().
func c06Chain(base *c06N, spec string) *c06N {
	n := base
	for i := 0; i < len(spec); {
		switch spec[i] {
		case '.':
			j := i + 1
			for j < len(spec) && spec[j] != '.' && spec[j] != '(' && spec[j] != '[' {
				j++
			}
			n = &c06N{k: "mem", op: spec[i+1 : j], a: n}
			i = j
		case '(':
			j := i + strings.IndexByte(spec[i:], ')')
			c := &c06N{k: "call", a: n}
			if arg := spec[i+1 : j]; arg != "" {
				for _, a := range strings.Split(arg, ",") {
					c.args = append(c.args, c06Atom(strings.TrimSpace(a)))
				}
			}
			n = c
			i = j + 1
		case '[':
			j := i + strings.IndexByte(spec[i:], ']')
			n = &c06N{k: "idx", a: n, b: c06Atom(spec[i+1 : j])}
			i = j + 1
		default:
			panic("c06Chain: " + spec)
		}
	}
	return n
}

// ---- random well-kinded trees ----------------------------------------------

const c06Funcs = "function f(x) { return x * 2 + 1 }\nfunction g(x, y) { return 's' + x + y }\nfunction h(x) { cnt = cnt + 1; return x }\n"
const c06Preset = "n1 = 7; n2 = 3; n3 = 2.5; s1 = 'ab'; s2 = '10'; o = {k: 4, s: 'xy', m: {z: 9}}; arr = [5, 6, 8]; cnt = 0\n"
const c06Show = "print n1, n2, n3, s1, s2, o, arr, cnt\n"
const c06Input = `{"p": 6, "q": "b", "w": [1, 2]}`

type c06G struct {
	r   *rand.Rand
	bad bool    // allow non-assignable targets (ill-formed stream)
	rx  float64 // probability of a regex literal where an operand is wanted (0: only as the plain right operand of ~ / !~)
}

var c06RegexLits = []string{"/a/", "/^[0-9]+$/", "/b|7/", "/x?y/", "/\\d/", "/7/", "/[a-b]+1/"}

// rxOperand: a regex literal as an operand of something: bare, under a suffix chain, a
// prefix operator, or as either operand of a binary operator that binds tighter than ~
func (g *c06G) rxOperand(d int) *c06N {
	r := g.r
	re := c06Atom(pick(r, c06RegexLits))
	if d < 0 {
		d = 0
	}
	switch r.Intn(12) {
	case 0, 1:
		return re
	case 2:
		return &c06N{k: "bin", op: "+", a: re, b: g.gen(d, 's')}
	case 3:
		return &c06N{k: "bin", op: "+", a: g.gen(d, 's'), b: re}
	case 4:
		return &c06N{k: "bin", op: pick(r, c06Arith), a: re, b: g.gen(d, 'x')}
	case 5:
		return &c06N{k: "bin", op: pick(r, []string{"*", "+", "-"}), a: g.gen(d, 'x'), b: re}
	case 6:
		return c06Chain(re, pick(r, []string{".length()", "[0]", ".k", ".length().floor()", "(1)", "['k']", ".k.j"}))
	case 7:
		return &c06N{k: "un", op: pick(r, []string{"-", "+", "!"}), a: re}
	case 8:
		return &c06N{k: "bin", op: "+", a: re, b: c06Atom(pick(r, []string{"'a'", "'7'", "''", "s1", "1"}))}
	case 9:
		return &c06N{k: "bin", op: "+", a: c06Atom(pick(r, []string{"'a'", "'7'", "''", "s1"})), b: re}
	case 10:
		return &c06N{k: "bin", op: pick(r, c06Arith), a: re, b: c06Atom(pick(r, c06RegexLits))}
	default:
		return &c06N{k: "un", op: "-", a: c06Chain(re, ".length()")}
	}
}

func (g *c06G) numTarget() *c06N {
	switch g.r.Intn(8) {
	case 0, 1, 2:
		return c06Atom(pick(g.r, []string{"n1", "n2", "n3"}))
	case 3:
		return &c06N{k: "mem", op: "k", a: c06Atom("o")}
	case 4:
		return &c06N{k: "idx", a: c06Atom("arr"), b: c06Atom(pick(g.r, []string{"0", "1", "2"}))}
	case 5:
		return &c06N{k: "mem", op: "z", a: &c06N{k: "mem", op: "m", a: c06Atom("o")}}
	case 6:
		return &c06N{k: "idx", a: c06Atom("o"), b: c06Atom("'k'")}
	default:
		return c06Atom("n1")
	}
}

func (g *c06G) strTarget() *c06N {
	if g.r.Intn(4) == 0 {
		return &c06N{k: "mem", op: "s", a: c06Atom("o")}
	}
	return c06Atom(pick(g.r, []string{"s1", "s2"}))
}

func (g *c06G) target(ty byte, d int) *c06N {
	if g.bad && chance(g.r, 0.5) {
		return g.gen(d, ty)
	}
	if ty == 's' {
		return g.strTarget()
	}
	return g.numTarget()
}

// sufLit is a literal operand carrying a member / index / method suffix chain,
// with values for which "suffix first" and "prefix operator first" differ
// (floor and ceil of fractions, length of a string, ...).
func (g *c06G) sufLit(ty byte) *c06N {
	r := g.r
	switch ty {
	case 'n':
		switch r.Intn(6) {
		case 0, 1, 2:
			return c06Chain(c06Atom(pick(r, []string{"2.5", "0.5", "3.75", "10.25", "7", "0.25"})), pick(r, []string{".floor()", ".ceil()", ".round()", ".ceil().floor()"}))
		case 3:
			return c06Chain(c06Atom(pick(r, []string{"'ab'", `"-x"`, "''", "'7.5'"})), pick(r, []string{".length()", ".upper().length()", ".length().floor()"}))
		case 4:
			return c06Chain(c06Atom(pick(r, []string{"[5, 6.5]", "[2.5]", "[0.5, [1], 3]"})), pick(r, []string{"[0]", ".length()", "[0].ceil()"}))
		default:
			return c06Chain(c06Atom(pick(r, []string{"{k: 4.5}", "{k: 0.5, j: 1}"})), pick(r, []string{".k", "['k']", ".length()", ".k.floor()"}))
		}
	case 's':
		switch r.Intn(3) {
		case 0:
			return c06Chain(c06Atom(pick(r, []string{"'ab'", `"xY"`, "'7'"})), pick(r, []string{".upper()", ".lower()", "[0]", ".upper().lower()"}))
		case 1:
			return c06Chain(c06Atom("['a', 'b1']"), pick(r, []string{"[0]", "[1]", "[1].upper()"}))
		default:
			return c06Chain(c06Atom("{s: 'q'}"), pick(r, []string{".s", "['s']", ".s.upper()"}))
		}
	default:
		return c06Chain(c06Atom(pick(r, []string{"[1, 2.5]", "[]"})), pick(r, []string{".contains(1)", ".contains(2.5)"}))
	}
}

func (g *c06G) atom(ty byte) *c06N {
	r := g.r
	if g.rx > 0 && chance(r, g.rx) {
		// a regex literal where a number / string / boolean is wanted (numeric value 0, string form "", falsy)
		return g.rxOperand(0)
	}
	if chance(r, 0.12) {
		return g.sufLit(ty)
	}
	switch ty {
	case 'n':
		switch r.Intn(10) {
		case 0, 1, 2, 3:
			return c06Atom(pick(r, []string{"0", "1", "2", "3", "7", "10", "2.5", "0.5", "100", "4"}))
		case 4, 5:
			return c06Atom(pick(r, []string{"n1", "n2", "n3"}))
		case 6:
			return &c06N{k: "mem", op: "p", a: c06Atom("$")}
		default:
			return g.numTarget()
		}
	case 's':
		switch r.Intn(8) {
		case 0, 1, 2:
			return c06Atom(pick(r, []string{"'a'", "'b1'", `"xy"`, "'7'", "''", `"ab"`}))
		case 3, 4:
			return c06Atom(pick(r, []string{"s1", "s2"}))
		case 5:
			return &c06N{k: "mem", op: "q", a: c06Atom("$")}
		default:
			return g.strTarget()
		}
	default:
		return c06Atom(pick(r, []string{"true", "false", "null", "true", "false", "u"}))
	}
}

func (g *c06G) anyTy() byte {
	x := g.r.Intn(100)
	switch {
	case x < 45:
		return 'n'
	case x < 75:
		return 's'
	default:
		return 'b'
	}
}

// gen builds a tree of kind ty ('n' number, 's' string, 'b' boolean, 'x' any)
// of depth at most d.
func (g *c06G) gen(d int, ty byte) *c06N {
	r := g.r
	if ty == 'x' || chance(r, 0.08) {
		ty = g.anyTy()
	}
	if d <= 0 || chance(r, 0.18) {
		return g.atom(ty)
	}
	d--
	switch ty {
	case 'n':
		switch r.Intn(20) {
		case 0, 1:
			if chance(r, 0.35) {
				return &c06N{k: "un", op: pick(r, []string{"-", "+"}), a: g.sufLit(g.anyTy())}
			}
			return &c06N{k: "un", op: pick(r, []string{"-", "+"}), a: g.gen(d, 'x')}
		case 2, 3, 4, 5, 6:
			op := pick(r, c06Arith)
			if op == "/" || op == "%" {
				var div *c06N
				if chance(r, 0.6) {
					div = c06Atom(pick(r, []string{"2", "3", "7", "n1", "n2", "4"}))
				} else {
					div = g.gen(d, 'n')
				}
				return &c06N{k: "bin", op: op, a: g.gen(d, 'n'), b: div}
			}
			return &c06N{k: "bin", op: op, a: g.gen(d, 'n'), b: g.gen(d, 'n')}
		case 7, 8:
			return &c06N{k: "asg", op: "=", a: g.target('n', d), b: g.gen(d, 'n')}
		case 9, 10:
			op := pick(r, c06Asg[1:])
			var rhs *c06N
			if op == "/=" {
				rhs = c06Atom(pick(r, []string{"2", "4", "n2"}))
			} else {
				rhs = g.gen(d, 'n')
			}
			return &c06N{k: "asg", op: op, a: g.target('n', d), b: rhs}
		case 11:
			return &c06N{k: "post", op: pick(r, []string{"++", "--"}), a: g.target('n', d)}
		case 12:
			return &c06N{k: "pre", op: pick(r, []string{"++", "--"}), a: g.target('n', d)}
		case 13, 14:
			return &c06N{k: "call", a: c06Atom(pick(r, []string{"f", "h"})), args: []*c06N{g.gen(d, 'n')}}
		case 15:
			base := pick(r, []func() *c06N{
				func() *c06N { return g.gen(d, 's') },
				func() *c06N { return c06Atom("arr") },
				func() *c06N { return c06Atom("o") },
			})()
			return &c06N{k: "call", a: &c06N{k: "mem", op: "length", a: base}}
		case 16:
			return &c06N{k: "call", a: &c06N{k: "mem", op: pick(r, []string{"floor", "ceil", "round"}), a: g.gen(d, 'n')}}
		case 17:
			return &c06N{k: "idx", a: c06Atom("arr"), b: g.gen(d, 'n')}
		case 18:
			return &c06N{k: "call", a: c06Atom("num"), args: []*c06N{g.gen(d, 's')}}
		default:
			return &c06N{k: "bin", op: pick(r, []string{"+", "-", "*"}), a: g.gen(d, 'n'), b: g.gen(d, 'n')}
		}
	case 's':
		switch r.Intn(10) {
		case 0, 1, 2:
			return &c06N{k: "bin", op: "+", a: g.gen(d, 's'), b: g.gen(d, 'x')}
		case 3, 4:
			return &c06N{k: "bin", op: "+", a: g.gen(d, 'x'), b: g.gen(d, 's')}
		case 5:
			return &c06N{k: "asg", op: "=", a: g.target('s', d), b: g.gen(d, 's')}
		case 6:
			return &c06N{k: "asg", op: "+=", a: g.target('s', d), b: g.gen(d, 'x')}
		case 7:
			return &c06N{k: "call", a: c06Atom("g"), args: []*c06N{g.gen(d, 'x'), g.gen(d, 'x')}}
		case 8:
			return &c06N{k: "call", a: &c06N{k: "mem", op: pick(r, []string{"upper", "lower"}), a: g.gen(d, 's')}}
		default:
			return &c06N{k: "call", a: c06Atom("h"), args: []*c06N{g.gen(d, 's')}}
		}
	default:
		switch r.Intn(10) {
		case 0, 1:
			if chance(r, 0.35) {
				return &c06N{k: "un", op: "!", a: g.sufLit(g.anyTy())}
			}
			return &c06N{k: "un", op: "!", a: g.gen(d, 'x')}
		case 2, 3, 4:
			t := g.anyTy()
			u := t
			if chance(r, 0.3) {
				u = g.anyTy()
			}
			return &c06N{k: "bin", op: pick(r, c06Cmp), a: g.gen(d, t), b: g.gen(d, u)}
		case 5:
			var pat *c06N
			if g.rx > 0 && chance(r, 0.7) {
				pat = g.rxOperand(d - 1)
			} else if chance(r, 0.5) {
				pat = c06Atom(pick(r, []string{"/a/", "/^[0-9]+$/", "/b|7/", "/x?y/", "/\\d/"}))
			} else {
				pat = g.gen(d, 's')
			}
			return &c06N{k: "bin", op: pick(r, []string{"~", "!~"}), a: g.gen(d, 'x'), b: pat}
		case 6, 7, 8:
			return &c06N{k: "bin", op: pick(r, []string{"&&", "||"}), a: g.gen(d, 'x'), b: g.gen(d, 'x')}
		default:
			return &c06N{k: "is", op: pick(r, []string{"number", "string", "bool", "null", "array", "object", "unknown", "function", "regex", "banana"}), a: g.gen(d, 'x')}
		}
	}
}

func c06Ops(n *c06N, m map[string]bool) {
	if n == nil {
		return
	}
	if n.k != "atom" {
		m[n.k+n.op] = true
	}
	c06Ops(n.a, m)
	c06Ops(n.b, m)
	for _, a := range n.args {
		c06Ops(a, m)
	}
}

func c06Depth(n *c06N) int {
	if n == nil {
		return 0
	}
	d := c06Depth(n.a)
	if x := c06Depth(n.b); x > d {
		d = x
	}
	for _, a := range n.args {
		if x := c06Depth(a); x > d {
			d = x
		}
	}
	return d + 1
}

// c06EmitTree emits, for one tree, the three renderings as pexpr cases (model
// comparison + sibling oracle) and as run cases (model comparison + group).
func c06EmitTree(r *rand.Rand, emit func(Case), id string, n *c06N, ctx int, extra map[string]string) {
	style := r.Intn(3)
	texts := []string{
		c06Text(n, c06Min, r, style),
		c06Text(n, c06Full, r, style),
		c06Text(n, c06Redundant, r, style),
	}
	names := []string{"minimal", "full", "redundant"}
	sib := &c06Siblings{}
	for i, t := range texts {
		meta := map[string]string{"expression": t, "rendering": names[i], "minimal": texts[0], "full": texts[1], "depth": fmt.Sprint(c06Depth(n))}
		for k, v := range extra {
			meta[k] = v
		}
		emit(Case{ID: id + "/pexpr/" + names[i], Req: "pexpr " + hxs(t), Fields: c06ParseFields, Meta: meta,
			Oracle: sib.oracle(t), NonTrivial: c06DumpNT})
	}
	psib := &c06Siblings{}
	for i, t := range texts {
		var body string
		switch ctx {
		case 0:
			body = "r = " + t + "\nprint r\n"
		case 1:
			body = "print " + t + "\n"
		default:
			body = "if (" + t + ") print 'T'; else print 'F'\n"
		}
		prog := c06Funcs + "{\n" + c06Preset + body + c06Show + "}\n"
		files := []File{{Name: "in.json", Data: []byte(c06Input)}}
		meta := metaProg(prog, "expression", t, "rendering", names[i], "minimal", texts[0], "full", texts[1])
		emit(Case{ID: id + "/run/" + names[i], Req: RunReq(prog, nil, files, false), Fields: []string{"class", "out"}, Meta: meta,
			Group: id, GroupFields: []string{"class", "out"}})
		if i != 1 {
			// the whole program through the parser hook as well
			emit(Case{ID: id + "/parse/" + names[i], Req: "parse " + hxs(prog), Fields: c06ParseFields, Meta: meta,
				Oracle: psib.oracle(t), NonTrivial: c06DumpNT})
		}
	}
}

// ---- operator sequences: the documented grouping ---------------------------

// c06Group builds the tree section 3.8 prescribes for a0 op0 a1 op1 ... : the
// loosest operator is the root; among equally loose ones the rightmost for
// the left-associative levels, the leftmost for assignment.
func c06Group(atoms []*c06N, ops []string) *c06N {
	if len(ops) == 0 {
		return atoms[0]
	}
	low := 99
	for _, o := range ops {
		if c06BinLevel[o] < low {
			low = c06BinLevel[o]
		}
	}
	at := -1
	for i, o := range ops {
		if c06BinLevel[o] == low {
			at = i
			if low == c06LAsg {
				break
			}
		}
	}
	k := "bin"
	if low == c06LAsg {
		k = "asg"
	}
	return &c06N{k: k, op: ops[at], a: c06Group(atoms[:at+1], ops[:at]), b: c06Group(atoms[at+1:], ops[at+1:])}
}

var c06Valuations = []struct{ name, set string }{
	{"numbers", "a = 7; b = 3; c = 2; d = 5"},
	{"strings", "a = '7'; b = '3'; c = '2'; d = '5'"},
	{"mixed", "a = 10; b = '4'; c = 3; d = 'ab'"},
}

func c06EmitSeq(emit func(Case), ops []string, valuations int) {
	c06EmitSeqAtoms(emit, "seq:", []string{"a", "b", "c", "d"}, ops, valuations)
}

// c06EmitSeqAtoms: the operator sequence over the given operand texts (variables a b c d,
// or literals such as a regex literal in one of the positions)
func c06EmitSeqAtoms(emit func(Case), idp string, names []string, ops []string, valuations int) {
	atoms := make([]*c06N, len(ops)+1)
	flat := []string{names[0]}
	for i := range atoms {
		atoms[i] = c06Atom(names[i])
		if i > 0 {
			flat = append(flat, ops[i-1], names[i])
		}
	}
	plain := strings.Join(flat, " ")
	tree := c06Group(atoms, ops)
	full := c06Text(tree, c06Full, nil, c06Spaced)
	min := c06Text(tree, c06Min, nil, c06Spaced)
	id := idp + strings.Join(ops, " ")
	meta := func(t, which string) map[string]string {
		return map[string]string{"expression": t, "rendering": which, "operators": strings.Join(ops, " "), "documented grouping": full}
	}
	sib := &c06Siblings{}
	emit(Case{ID: id + "/pexpr/plain", Req: "pexpr " + hxs(plain), Fields: c06ParseFields, Meta: meta(plain, "plain"), Oracle: sib.oracle(plain), NonTrivial: c06DumpNT})
	emit(Case{ID: id + "/pexpr/full", Req: "pexpr " + hxs(full), Fields: c06ParseFields, Meta: meta(full, "full"), Oracle: sib.oracle(full), NonTrivial: c06DumpNT})
	if min != plain {
		// the renderer put parentheses into a plain operator sequence: only for a
		// non-assignable assignment target, which both forms must reject
		emit(Case{ID: id + "/pexpr/min", Req: "pexpr " + hxs(min), Fields: c06ParseFields, Meta: meta(min, "minimal of documented tree"), Oracle: sib.oracle(min), NonTrivial: c06DumpNT})
	}
	for v := 0; v < valuations && v < len(c06Valuations); v++ {
		val := c06Valuations[v]
		for i, t := range []string{plain, full} {
			prog := "BEGIN { " + val.set + "; r = " + t + "; print r, a, b, c, d }"
			m := meta(t, []string{"plain", "full"}[i])
			m["program"] = prog
			emit(Case{ID: id + "/run/" + val.name + "/" + []string{"plain", "full"}[i], Req: RunReq(prog, nil, nil, false), Fields: []string{"class", "out"}, Meta: m,
				Group: id + "/" + val.name, GroupFields: []string{"class", "out"}})
		}
	}
}

// ---- prefix operator x operand kind x suffix chain x context ---------------

// one operand kind: bases (atoms, or small trees the renderer parenthesises)
// with the suffix chains that evaluate on them; assignable = ++/-- may be
// applied when the chain ends in a member or an index (or is empty)
type c06Operand struct {
	kind       string
	bases      []*c06N
	chains     []string
	assignable bool
}

const c06PASFuncs = "function fr(x) { return x + 0.5 }\nfunction fa() { return [1.5, 'z'] }\n"
const c06PASPreset = "n1 = 7; n3 = 2.5; s1 = 'ab'; o = {k: 4.5, m: {z: 9.5}, a: [1.5]}; arr = [5, 6.5, 8]; y = 3\n"
const c06PASShow = "print n1, n3, s1, o, arr, y, r2, $\n"
const c06PASInput = `{"p": 6.5, "q": "b", "w": [1.5, 2], "h": 2.5}`

func c06Atoms(ts ...string) []*c06N {
	out := make([]*c06N, len(ts))
	for i, t := range ts {
		out[i] = c06Atom(t)
	}
	return out
}

func c06Operands() []c06Operand {
	sum := &c06N{k: "bin", op: "+", a: c06Atom("n1"), b: c06Atom("0.5")}
	cat := &c06N{k: "bin", op: "+", a: c06Atom("'a'"), b: c06Atom("s1")}
	asg := &c06N{k: "asg", op: "=", a: c06Atom("r2"), b: c06Atom("3.75")}
	neg := &c06N{k: "un", op: "-", a: c06Atom("2.5")}
	return []c06Operand{
		{"number literal", c06Atoms("2.5", "0.5", "3.75", "10.25", "7", "0", "0.25", "100"), []string{"", ".floor()", ".ceil()", ".round()", ".ceil().floor()"}, false},
		{"string literal", c06Atoms("'ab'", `"-x"`, "''", "'7.5'", `"Q"`), []string{"", ".length()", ".upper()", ".lower()", "[0]", ".length().floor()", ".upper().length()", ".split('')", ".split('').length()"}, false},
		{"array literal", c06Atoms("[5, 6.5]", "[]", "[[2.5], 'ab']"), []string{"", ".length()", "[0]", "[1]", "[0][0]", "[1].length()", ".contains(5)", ".pop()", "[0].ceil()"}, false},
		{"object literal", c06Atoms("{k: 4.5}", "{k: [1.5], j: 'x'}", "{}"), []string{"", ".k", "['k']", ".length()", ".k.floor()", ".k[0]", ".k[0].ceil()", ".j.upper()"}, false},
		{"keyword literal", c06Atoms("true", "false", "null"), []string{"", ".length()", ".k", "[0]"}, false},
		{"regex literal", c06Atoms("/a/"), []string{"", ".length()"}, false},
		{"number variable", c06Atoms("n3", "n1"), []string{"", ".floor()", ".ceil()", ".round()"}, true},
		{"string variable", c06Atoms("s1"), []string{"", ".length()", ".upper()", "[1]", ".upper().length()"}, true},
		{"array variable", c06Atoms("arr"), []string{"", "[1]", "[1].floor()", ".length()", "[0]", ".pop()", ".contains(8)"}, true},
		{"object variable", c06Atoms("o"), []string{"", ".k", ".k.floor()", ".m.z", ".m.z.ceil()", "['k']", ".m['z']", ".a[0]", ".a[0].floor()", ".a.length()", ".length()"}, true},
		{"unset variable", c06Atoms("un"), []string{"", ".k", "[0]", ".length()"}, true},
		{"function", c06Atoms("fr", "fa"), []string{"(2)", "(2).floor()", "(2.25).ceil()", "()[0]", "()[0].floor()", "().length()", "()[1].upper()"}, false},
		{"builtin", c06Atoms("num"), []string{"('2.5')", "('2.5').floor()", "('3.75').ceil()"}, false},
		{"record", c06Atoms("$"), []string{"", ".p", ".p.floor()", ".h.ceil()", ".w[0]", ".w[0].floor()", ".q.length()", ".w.length()", "['h']", "['p'].ceil()"}, true},
		{"parenthesised", []*c06N{sum, cat, asg, neg}, []string{"", ".floor()", ".ceil()", ".length()", "[0]"}, false},
	}
}

var c06Prefixes = [][]string{{}, {"-"}, {"+"}, {"!"}, {"-", "-"}, {"!", "!"}, {"-", "!"}, {"!", "-"}, {"+", "-"}, {"-", "+"}, {"++"}, {"--"}, {"-", "++"}, {"!", "--"}}

type c06Ctx struct {
	name string
	mk   func(core *c06N) *c06N
}

func c06Contexts() []c06Ctx {
	y := func() *c06N { return c06Atom("y") }
	left := func(op string) c06Ctx {
		return c06Ctx{"E " + op + " y", func(c *c06N) *c06N { return &c06N{k: "bin", op: op, a: c, b: y()} }}
	}
	right := func(op string) c06Ctx {
		return c06Ctx{"y " + op + " E", func(c *c06N) *c06N { return &c06N{k: "bin", op: op, a: y(), b: c} }}
	}
	is := func(ty string) c06Ctx {
		return c06Ctx{"E is " + ty, func(c *c06N) *c06N { return &c06N{k: "is", op: ty, a: c} }}
	}
	return []c06Ctx{
		{"E", func(c *c06N) *c06N { return c }},
		left("*"), right("*"), left("-"), right("-"), left("+"), right("+"), left("%"), right("/"),
		left("<"), right("=="), left("&&"), right("||"), right("~"),
		is("number"), is("string"), is("bool"),
		{"r2 = E", func(c *c06N) *c06N { return &c06N{k: "asg", op: "=", a: c06Atom("r2"), b: c} }},
		{"r2 += E", func(c *c06N) *c06N { return &c06N{k: "asg", op: "+=", a: c06Atom("r2"), b: c} }},
		{"y - E - y", func(c *c06N) *c06N {
			return &c06N{k: "bin", op: "-", a: &c06N{k: "bin", op: "-", a: y(), b: c}, b: y()}
		}},
		{"f(E)", func(c *c06N) *c06N { return &c06N{k: "call", a: c06Atom("fr"), args: []*c06N{c}} }},
		{"[E][0]", func(c *c06N) *c06N { return &c06N{k: "idx", a: c06Atom("arr"), b: c} }},
	}
}

// c06EmitPAS emits one prefix/operand/suffix/context tree: the minimal text in
// the three blank styles (so the prefix operator stands both directly in front
// of its operand and a blank away), the fully parenthesised text and one with
// redundant parentheses. All five must have one AST (oracle) and one value
// (group); everything is compared with the model.
func c06EmitPAS(r *rand.Rand, emit func(Case), id string, tree *c06N, extra map[string]string) {
	texts := []string{
		c06Text(tree, c06Min, r, c06Tight),
		c06Text(tree, c06Min, r, c06Spaced),
		c06Text(tree, c06Full, r, c06Tight),
		c06Text(tree, c06Redundant, r, r.Intn(3)),
		strings.ReplaceAll(c06Text(tree, c06Min, r, c06Compact), " ", "\t"),
	}
	names := []string{"minimal, no blanks", "minimal, blanks", "full", "redundant", "minimal, tabs"}
	sib := &c06Siblings{}
	seen := map[string]bool{}
	for i, t := range texts {
		if seen[t] {
			continue
		}
		seen[t] = true
		meta := map[string]string{"expression": t, "rendering": names[i], "minimal": texts[0], "full": texts[2]}
		for k, v := range extra {
			meta[k] = v
		}
		emit(Case{ID: id + "/pexpr/" + names[i], Req: "pexpr " + hxs(t), Fields: c06ParseFields, Meta: meta,
			Oracle: sib.oracle(t), NonTrivial: c06DumpNT})
		prog := c06PASFuncs + "{\n" + c06PASPreset + "r = " + t + "\nprint r\n" + c06PASShow + "}\n"
		files := []File{{Name: "in.json", Data: []byte(c06PASInput)}}
		pm := metaProg(prog, "expression", t, "rendering", names[i], "minimal", texts[0], "full", texts[2])
		for k, v := range extra {
			pm[k] = v
		}
		emit(Case{ID: id + "/run/" + names[i], Req: RunReq(prog, nil, files, false), Fields: []string{"class", "out", "line", "col"}, Meta: pm,
			Group: id, GroupFields: []string{"class", "out"}, NonTrivial: func(i Resp) bool { return i["class"] == "ok" || i["class"] == "runtime" }})
	}
}

func c06PrefixAtomSuffix(r *rand.Rand, tier string, emit func(Case)) {
	ctxs := c06Contexts()
	for _, od := range c06Operands() {
		for bi, base := range od.bases {
			for _, chain := range od.chains {
				operand := c06Chain(base, chain)
				for _, pre := range c06Prefixes {
					incr := len(pre) > 0 && (pre[len(pre)-1] == "++" || pre[len(pre)-1] == "--")
					if incr && !(od.assignable && operand.k != "call") {
						// ++ on something that is no location is a syntax error in every rendering: a few suffice
						if bi > 0 || len(pre) > 1 {
							continue
						}
					}
					core := operand
					for i := len(pre) - 1; i >= 0; i-- {
						k := "un"
						if pre[i] == "++" || pre[i] == "--" {
							k = "pre"
						}
						core = &c06N{k: k, op: pre[i], a: core}
					}
					// every context in the thorough tier; the bare expression and a sample of three otherwise
					var pickCtx []int
					if tier == "thorough" {
						for i := range ctxs {
							pickCtx = append(pickCtx, i)
						}
					} else {
						pickCtx = []int{0, 1 + r.Intn(len(ctxs)-1), 1 + r.Intn(len(ctxs)-1), 1 + r.Intn(len(ctxs)-1)}
						if len(pre) == 0 {
							pickCtx = pickCtx[:2]
						}
					}
					done := map[int]bool{}
					for _, ci := range pickCtx {
						if done[ci] {
							continue
						}
						done[ci] = true
						tree := ctxs[ci].mk(core)
						id := fmt.Sprintf("pas:%s:%s:%s", strings.Join(pre, " "), c06Text(operand, c06Min, nil, c06Tight), ctxs[ci].name)
						c06EmitPAS(r, emit, id, tree, map[string]string{"row": od.kind, "col": "prefix " + strings.Join(pre, " "), "context": ctxs[ci].name})
					}
				}
			}
		}
	}
}

// ---- regex literals as operands ---------------------------------------------

// c06RegexOperands: a regex LITERAL in every operand position -- of operator pairs and
// triples, under prefix operators and suffix chains in front of and behind every binary
// operator (in particular as the right operand of ~ / !~ followed by a tighter operator or
// a suffix), and inside random trees.  Every binary operator parses its right operand one
// level above its own, whatever the operand is.
func c06RegexOperands(r *rand.Rand, tier string, emit func(Case)) {
	plain := c06SeqOps[:15]
	// (1) operator pairs: all 20 x 20, the regex literal as first, middle and last operand
	for _, o1 := range c06SeqOps {
		for _, o2 := range c06SeqOps {
			for pos := 0; pos < 3; pos++ {
				names := []string{"a", "b", "c", "d"}
				names[pos] = pick(r, []string{"/a/", "/7/", "/^[0-9]+$/"})
				c06EmitSeqAtoms(emit, fmt.Sprintf("rxseq%d:", pos), names, []string{o1, o2}, tierN(tier, 1, 3))
			}
		}
	}
	// operator triples: ~ or !~ in one place with a regex literal to its right (all), and a sample of the rest
	var triples [][]string
	for _, o1 := range c06SeqOps {
		for _, o2 := range c06SeqOps {
			for _, o3 := range c06SeqOps {
				triples = append(triples, []string{o1, o2, o3})
			}
		}
	}
	r.Shuffle(len(triples), func(i, j int) { triples[i], triples[j] = triples[j], triples[i] })
	for i, ops := range triples[:tierN(tier, 400, 8000)] {
		pos := r.Intn(4)
		for k, o := range ops {
			if (o == "~" || o == "!~") && chance(r, 0.7) {
				pos = k + 1
			}
		}
		names := []string{"a", "b", "c", "d"}
		names[pos] = pick(r, []string{"/a/", "/7/", "/^[0-9]+$/"})
		c06EmitSeqAtoms(emit, fmt.Sprintf("rxtri%d.%d:", i, pos), names, ops, 1)
	}
	// (2) prefix x regex literal x suffix chain x context
	y := func() *c06N { return c06Atom("y") }
	ctxs := c06Contexts()
	nGeneral := len(ctxs)
	for _, m := range []string{"~", "!~"} {
		m := m
		ctxs = append(ctxs,
			c06Ctx{"y " + m + " E", func(c *c06N) *c06N { return &c06N{k: "bin", op: m, a: y(), b: c} }},
			c06Ctx{"E " + m + " y", func(c *c06N) *c06N { return &c06N{k: "bin", op: m, a: c, b: y()} }})
		for _, op := range plain {
			op := op
			ctxs = append(ctxs,
				c06Ctx{"y " + m + " E " + op + " s1", func(c *c06N) *c06N { return c06Group([]*c06N{y(), c, c06Atom("s1")}, []string{m, op}) }},
				c06Ctx{"s1 " + op + " y " + m + " E", func(c *c06N) *c06N { return c06Group([]*c06N{c06Atom("s1"), y(), c}, []string{op, m}) }},
				c06Ctx{"s1 " + op + " E " + m + " y", func(c *c06N) *c06N { return c06Group([]*c06N{c06Atom("s1"), c, y()}, []string{op, m}) }})
		}
		for _, op := range c06Asg {
			op := op
			ctxs = append(ctxs, c06Ctx{"r2 " + op + " y " + m + " E", func(c *c06N) *c06N {
				return &c06N{k: "asg", op: op, a: c06Atom("r2"), b: &c06N{k: "bin", op: m, a: y(), b: c}}
			}})
		}
	}
	prefixes := c06Prefixes
	if tier != "thorough" {
		prefixes = [][]string{{}, {"-"}, {"!"}, {"-", "!"}, {"++"}}
	}
	for bi, base := range c06Atoms("/a/", "/^[0-9]+$/", "/b|3/") {
		for _, chain := range []string{"", ".length()", "[0]", ".k", ".length().floor()", "(1)", "['k']", ".k[0]"} {
			operand := c06Chain(base, chain)
			for _, pre := range prefixes {
				if len(pre) > 0 && (pre[len(pre)-1] == "++" || pre[len(pre)-1] == "--") && (bi > 0 || chain == "(1)") {
					continue
				}
				core := operand
				for i := len(pre) - 1; i >= 0; i-- {
					k := "un"
					if pre[i] == "++" || pre[i] == "--" {
						k = "pre"
					}
					core = &c06N{k: k, op: pre[i], a: core}
				}
				for ci, cx := range ctxs {
					if tier != "thorough" {
						// every context in which the literal stands to the right of ~ / !~ with something behind
						// it for the bare and the suffixed literal; a sample of the others
						keep := ci == 0 || (ci >= nGeneral && len(pre) == 0 && (bi == 0 || chance(r, 0.15))) || chance(r, 0.04)
						if !keep {
							continue
						}
					}
					tree := cx.mk(core)
					id := fmt.Sprintf("rxpas:%s:%s:%s", strings.Join(pre, " "), c06Text(operand, c06Min, nil, c06Tight), cx.name)
					c06EmitPAS(r, emit, id, tree, map[string]string{"row": "regex literal" + chain, "col": "prefix " + strings.Join(pre, " "), "context": cx.name})
				}
			}
		}
	}
	// (3) random trees in which regex literals stand wherever an operand is wanted
	g := &c06G{r: r, rx: 0.15}
	for i, n := 0, tierN(tier, 700, 12000); i < n; i++ {
		d := 2 + r.Intn(5)
		tree := g.gen(d, 'x')
		for c06Depth(tree) < 2 || !strings.Contains(c06Text(tree, c06Min, nil, c06Spaced), "/") {
			tree = g.gen(d, 'x')
		}
		c06EmitTree(r, emit, fmt.Sprintf("rxt%d", i), tree, r.Intn(3), nil)
	}
}

// expressions that assign to / increment something that is not a location
var c06MustReject = map[string]bool{}

func init() {
	for _, t := range []string{"-x++", "!x--", "+x++", "++-x", "--!x", "++x++", "--x--", "x++ ++", "x++--", "++ ++x", "a + b = c", "a = b + c = d", "a * b += c", "a && b = c", "a = b && c = d", "1 = 2", "f() = 3", "x.y() = 2", "f()++", "(x + 1) = 2", "(x = 1) = 2", "'s' = 1", "'s'++", "[1] = 2", "[x] = [1]", "/re/ = 1", "true = 1", "null++", "x is number = 1", "-a++", "(-a)++"} {
		c06MustReject[t] = true
	}
	register(Family{
		Name: "regex-operands", Prop: "C06",
		Rule: "a regex LITERAL in every operand position: (1) all 400 ordered pairs of the 20 binary operators with the literal as first, middle and last operand, and triples (quick: 400 sampled, biased to the literal standing right of ~ / !~) -- plain text vs the documented grouping fully parenthesised; (2) 3 literals x 8 suffix chains (none, .length(), [0], .k, ['k'], .k[0], (1), .length().floor()) x prefix operator stacks x the 22 general contexts plus, for ~ and !~, `y ~ E`, `E ~ y`, `y ~ E op s1`, `s1 op y ~ E`, `s1 op E ~ y` for each of the 15 plain operators and `r2 asg y ~ E` for the 5 assignment operators (quick: every such context for the unprefixed literal, a sample otherwise), written without blanks (s~/a/.length()), with blanks, with tabs, fully parenthesised, with redundant parentheses; (3) random expression trees in which regex literals (bare, suffixed, prefixed, as either operand of + - * / %) stand wherever an operand is wanted and right of ~ / !~: one AST without positions across the renderings (oracle), one value (group), dumps and values vs model",
		Gen:  c06RegexOperands,
	})
	register(Family{
		Name: "compound-assignment", Prop: "C06",
		Rule: "`t op= e` against `t = t op (e)` for every compound operator, target form (variable, member, index, nested) and right-hand side (atoms, looser and tighter operators, another assignment): same AST without positions (oracle), same value (group), both vs model",
		Gen: func(r *rand.Rand, tier string, emit func(Case)) {
			targets := []string{"n1", "o.k", "arr[1]", "o.m.z", "o['k']", "arr[n2 - 2]", "s1"}
			rhss := []string{"2", "n2", "n2 + 1", "n2 * 2", "n2 - 1 - 1", "n2 < 3", "n2 && 0", "n3 = 4", "n3 += 1", "- n2", "n2 ++", "f(2)", "'x'", "n2 == 3 || 1", "10 / 4 / 5", "7 % 4"}
			for _, op := range []string{"+", "-", "*", "/"} {
				for _, tg := range targets {
					for _, rhs := range rhss {
						a := tg + " " + op + "= " + rhs
						b := tg + " = " + tg + " " + op + " (" + rhs + ")"
						id := "cmp:" + a
						sib := &c06Siblings{}
						for _, t := range []string{a, b} {
							m := map[string]string{"expression": t, "compound": a, "desugared": b}
							emit(Case{ID: id + "/pexpr", Req: "pexpr " + hxs(t), Fields: c06ParseFields, Meta: m, Oracle: sib.oracle(t), NonTrivial: c06DumpNT})
							prog := c06Funcs + "BEGIN {\n" + c06Preset + "r = " + t + "\nprint r\n" + c06Show + "}\n"
							emit(Case{ID: id + "/run", Req: RunReq(prog, nil, nil, false), Fields: []string{"class", "out"}, Meta: metaProg(prog, "expression", t),
								Group: id, GroupFields: []string{"class", "out"}})
						}
					}
				}
			}
		},
	})
	register(Family{
		Name: "expr-trees", Prop: "C06",
		Rule: "random well-kinded expression trees (depth 2..8: literals, preset variables, $.field, unary, all binary levels, is, assignments, ++/--, calls, members, indexes, methods) rendered with minimal / full / random redundant parentheses; pexpr and parse dumps vs model, dumps without positions equal across the three (oracle), printed values equal across the three (group) and vs model; non-trivial = parses (pexpr/parse) or prints (run)",
		Gen: func(r *rand.Rand, tier string, emit func(Case)) {
			n := tierN(tier, 2500, 30000)
			g := &c06G{r: r}
			for i := 0; i < n; i++ {
				d := 2 + r.Intn(7)
				tree := g.gen(d, 'x')
				for c06Depth(tree) < 2 {
					tree = g.gen(d, 'x')
				}
				seen := map[string]bool{}
				c06Ops(tree, seen)
				c06EmitTree(r, emit, fmt.Sprintf("t%d", i), tree, r.Intn(3), map[string]string{"node kinds": fmt.Sprint(len(seen))})
			}
		},
	})
	register(Family{
		Name: "expr-trees-bad-targets", Prop: "C06",
		Rule: "the same trees but assignment / ++ / -- targets may be arbitrary expressions (-x++, ++-x, a + b = c, f() = 1 ...): all three renderings must be rejected or accepted alike; plus hand-written malformed expressions vs model (class, position)",
		Gen: func(r *rand.Rand, tier string, emit func(Case)) {
			n := tierN(tier, 250, 4000)
			g := &c06G{r: r, bad: true}
			for i := 0; i < n; i++ {
				tree := g.gen(2+r.Intn(4), 'n')
				c06EmitTree(r, emit, fmt.Sprintf("b%d", i), tree, r.Intn(3), nil)
			}
			for _, t := range []string{"-x++", "!x--", "+x++", "++-x", "--!x", "++x++", "--x--", "x++ ++", "x++--", "++ ++x", "- -x", "-\t-x", "--x", "- --x", "-- -x", "!!x", "! -x", "-!x",
				"a + b = c", "a = b + c = d", "a * b += c", "a && b = c", "a = b && c = d", "1 = 2", "f() = 3", "x.y() = 2", "x.y = 2", "x[1] = 2", "x[1]++", "x.y--", "f()++", "(x)++", "(x) = 1", "((x.y)) += 1", "(x + 1) = 2", "(x = 1) = 2", "x = (y = 2)", "'s' = 1", "'s'++", "[1] = 2", "[x] = [1]", "{} = 1", "$ = 1", "$.a = 1", "$++", "$index = 2", "/re/ = 1", "true = 1", "null++", "x is number = 1", "x = y is number",
				"a is 3", "a is (number)", "a is number", "a is number is bool", "a is function", "a is null", "a is true", "a is is", "a is", "a is number * 2", "c + a is number * 2", "a is number + b", "a is number == true", "!a is bool", "-a is number",
				"a +", "* a", "a b", "(a", "a)", "a[1", "a.1", "a.(b)", "a ? b", "a..b", "a . b", "a.b.c", "a.b(c).d[e].f", "a(1)(2)", "a[1][2]", "a.b++", "a++.b", "a++(1)", "a++[1]", "-a.b", "-a[1]", "-a(1)", "!a.b(1)", "++a.b", "++a[1]", "++a(1)", "++a.b(1)", "++a.b[1]",
				"a = b = c", "a = b += c", "a += b = c", "a = b = c = d", "a == b == c", "a < b < c", "a - b - c", "a / b / c", "a % b % c", "a ~ b ~ c", "a && b || c", "a || b && c", "a || b || c",
				"a = -b", "a = !b", "a -= -b", "a - -b", "a - - b", "a+-b", "a-+b", "a*-b", "a/-b", "a%-b", "a<-b", "a==-b", "a&&-b", "a&&!b", "a||!b", "a~!b", "a!~!b",
				"a * b++", "a++ * b", "a * ++b", "a + b++ + c", "a+++b", "a---b", "a+++++b", "a++ + ++b", "a-- - --b", "-a++", "-(a++)", "(-a)++", "-a * b", "-(a * b)", "!a == b", "!(a == b)", "!a && b", "-a + b", "+a - b",
				"f(a = 1)", "f(a, b = 2)", "x[a = 1]", "[a = 1]", "{k: a = 1}", "(a = 1)", "f(a = 1, b += 2)", "a = [b = 1]", "a = f(b = 1)", "print", "a = match (b) { 1 => 2 } + 1", "match (a) { 1 => b = 2 }", "a + match (b) { 1 => 2 }",
			} {
				t := t
				var orc func(Resp) string
				if c06MustReject[t] {
					orc = func(i Resp) string {
						if i["class"] != "syntax" {
							return "only variables, members and index expressions are assignable; " + t + " must be a syntax error, got " + i.String()
						}
						return ""
					}
				}
				emit(Case{Req: "pexpr " + hxs(t), Fields: c06ParseFields, Meta: map[string]string{"expression": t}, Oracle: orc,
					NonTrivial: func(i Resp) bool { return i["class"] == "ok" || i["class"] == "syntax" }})
				prog := "function f(x) { return x }\nBEGIN { a = 7; b = 3; c = 2; d = 5; x = {y: 1}; r = " + t + "\nprint r, a, b, c, d, x }"
				emit(Case{Req: RunReq(prog, nil, nil, false), Fields: []string{"class", "out", "line", "col", "src"}, Meta: metaProg(prog, "expression", t),
					NonTrivial: func(i Resp) bool { return i["class"] != "" }})
			}
		},
	})
	register(Family{
		Name: "operator-pairs", Prop: "C06",
		Rule: "exhaustive: every ordered pair of the 20 binary operators (15 plain + = += -= *= /=) as `a op1 b op2 c` over assignable atoms, plain text vs the documented grouping fully parenthesised: AST without positions equal (oracle), value equal under three valuations (group), everything vs model",
		Gen: func(r *rand.Rand, tier string, emit func(Case)) {
			for _, o1 := range c06SeqOps {
				for _, o2 := range c06SeqOps {
					c06EmitSeq(emit, []string{o1, o2}, 3)
				}
			}
		},
	})
	register(Family{
		Name: "operator-triples", Prop: "C06",
		Rule: "every ordered triple of the 20 binary operators as `a op1 b op2 c op3 d` (thorough: all 8 000; quick: a 1 000 sample), plain text vs documented grouping fully parenthesised, as for the pairs",
		Gen: func(r *rand.Rand, tier string, emit func(Case)) {
			var all [][]string
			for _, o1 := range c06SeqOps {
				for _, o2 := range c06SeqOps {
					for _, o3 := range c06SeqOps {
						all = append(all, []string{o1, o2, o3})
					}
				}
			}
			vals := 3
			if tier != "thorough" {
				r.Shuffle(len(all), func(i, j int) { all[i], all[j] = all[j], all[i] })
				all = all[:1000]
				vals = 2
			}
			for _, ops := range all {
				c06EmitSeq(emit, ops, vals)
			}
		},
	})
	register(Family{
		Name: "prefix-atom-suffix", Prop: "C06",
		Rule: "exhaustive: 15 operand kinds (number / string / array / object / keyword / regex literals, number / string / array / object / unset variables, user and builtin function names, $, parenthesised sums, concatenations, assignments and negations) x the suffix chains that apply (method calls floor ceil round length upper lower split contains pop, members, indexes, calls; up to three deep; values whose floor/ceil/length differ under negation) x 14 prefix operator stacks (none, - + !, pairs of them, ++ --, - ++, ! --) x 22 contexts (bare, either side of * - + % / < == && || ~, is number/string/bool, right of = and +=, y - E - y, call argument, index; quick: bare + 3 sampled), each written with no blanks (-2.5.floor()), with blanks, with tabs, fully parenthesised and with redundant parentheses: one AST (oracle), one value (group), all vs model",
		Gen:  c06PrefixAtomSuffix,
	})
	register(Family{
		Name: "prefix-suffix-mix", Prop: "C06",
		Rule: "exhaustive: prefix operator x suffix x binary operator x side (`pre x suf op y`, `y op pre x suf`; the prefix operator a blank away from and directly in front of x), plain text vs the tree section 3.8 prescribes (prefix operand is a suffix chain; postfix ++/-- applies to the prefix expression, hence a syntax error) fully parenthesised",
		Gen: func(r *rand.Rand, tier string, emit func(Case)) {
			type suf struct {
				text string
				mk   func(*c06N) *c06N
			}
			sufs := []suf{
				{"", func(b *c06N) *c06N { return b }},
				{".k", func(b *c06N) *c06N { return &c06N{k: "mem", op: "k", a: b} }},
				{"[0]", func(b *c06N) *c06N { return &c06N{k: "idx", a: b, b: c06Atom("0")} }},
				{"(1)", func(b *c06N) *c06N { return &c06N{k: "call", a: b, args: []*c06N{c06Atom("1")}} }},
				{".k[0]", func(b *c06N) *c06N { return &c06N{k: "idx", a: &c06N{k: "mem", op: "k", a: b}, b: c06Atom("0")} }},
				{"++", func(b *c06N) *c06N { return &c06N{k: "post", op: "++", a: b} }},
				{"--", func(b *c06N) *c06N { return &c06N{k: "post", op: "--", a: b} }},
				{".k++", func(b *c06N) *c06N { return &c06N{k: "post", op: "++", a: &c06N{k: "mem", op: "k", a: b}} }},
			}
			pres := []string{"", "!", "-", "+", "++", "--"}
			bins := append([]string{""}, c06SeqOps...)
			// the variable x is chosen per suffix so that most forms evaluate
			setX := map[string]string{"": "x = 4", ".k": "x = {k: 4}", "[0]": "x = [4]", "(1)": "", ".k[0]": "x = {k: [4]}", "++": "x = 4", "--": "x = 4", ".k++": "x = {k: 4}"}
			for _, p := range pres {
				for _, s := range sufs {
					for _, b := range bins {
						for side := 0; side < 2; side++ {
							if b == "" && side == 1 {
								continue
							}
							// documented tree: suffixes first, then the prefix operator, then a
							// postfix ++/-- on top of the prefix expression
							var core *c06N
							x := c06Atom("x")
							post := strings.HasSuffix(s.text, "++") || strings.HasSuffix(s.text, "--")
							if post && p != "" {
								inner := x
								if s.text == ".k++" {
									inner = &c06N{k: "mem", op: "k", a: x}
								}
								k := "un"
								if p == "++" || p == "--" {
									k = "pre"
								}
								core = &c06N{k: "post", op: s.text[len(s.text)-2:], a: &c06N{k: k, op: p, a: inner}}
							} else {
								core = s.mk(x)
								if p != "" {
									k := "un"
									if p == "++" || p == "--" {
										k = "pre"
									}
									core = &c06N{k: k, op: p, a: core}
								}
							}
							plain := p + " x" + s.text
							glued := p + "x" + s.text // the prefix operator directly in front of its operand
							if p == "" {
								plain = "x" + s.text
							}
							tree := core
							if b != "" {
								k := "bin"
								if c06BinLevel[b] == c06LAsg {
									k = "asg"
								}
								if side == 0 {
									tree = &c06N{k: k, op: b, a: core, b: c06Atom("y")}
									plain = plain + " " + b + " y"
									glued = glued + " " + b + " y"
								} else {
									tree = &c06N{k: k, op: b, a: c06Atom("y"), b: core}
									plain = "y " + b + " " + plain
									glued = "y " + b + " " + glued
								}
							}
							full := c06Text(tree, c06Full, nil, c06Spaced)
							id := "ps:" + plain
							sib := &c06Siblings{}
							m := map[string]string{"expression": plain, "documented grouping": full}
							emit(Case{ID: id + "/pexpr/plain", Req: "pexpr " + hxs(plain), Fields: c06ParseFields, Meta: m, Oracle: sib.oracle(plain), NonTrivial: c06DumpNT})
							emit(Case{ID: id + "/pexpr/full", Req: "pexpr " + hxs(full), Fields: c06ParseFields, Meta: m, Oracle: sib.oracle(full), NonTrivial: c06DumpNT})
							texts := []string{plain, full}
							if p != "" {
								emit(Case{ID: id + "/pexpr/glued", Req: "pexpr " + hxs(glued), Fields: c06ParseFields, Meta: m, Oracle: sib.oracle(glued), NonTrivial: c06DumpNT})
								texts = append(texts, glued)
							}
							set := setX[s.text]
							for i, t := range texts {
								prog := "BEGIN { " + set + "; y = 2; r = " + t + "; print r, y\nprint x }"
								if set == "" {
									prog = "function x(v) { return v + 3 }\nBEGIN { y = 2; r = " + t + "; print r, y }"
								}
								emit(Case{ID: id + "/run/" + fmt.Sprint(i), Req: RunReq(prog, nil, nil, false), Fields: []string{"class", "out"}, Meta: metaProg(prog, "expression", t, "documented grouping", full),
									Group: id, GroupFields: []string{"class", "out"}})
							}
						}
					}
				}
			}
		},
	})
}

// ---- `is` after prefix operators ---------------------------------------------

// operands of every type; what ! and - / + make of them follows from truthiness and from the
// number the value counts as (DESIGN section 3; unary operators never fail)
type c06IsOperand struct {
	text   string
	ty     string // the one type name for which `text is <name>` holds ("" = none: a builtin function)
	truthy bool
	num    float64
}

const c06IsFuncs = "function fr(x) { return x }\n"
const c06IsPreset = "n1 = 7; z0 = 0; s1 = 'ab'; e1 = ''; d1 = '2.5'; o = {k: 4.5}; arr = [5]; e2 = []; t1 = true; f1 = false; nul = null; y = 3\n"
const c06IsInput = `{"n": 5, "z": null, "s": "ab", "t": true, "f": false, "a": [1], "o": {"k": 1}, "zero": 0}`

var c06IsOperands = []c06IsOperand{
	{"null", "null", false, 0}, {"nul", "null", false, 0}, {"$.z", "null", false, 0}, {"$.missing", "null", false, 0},
	{"fr", "function", true, 0}, {"num", "", true, 0},
	{"s1", "string", true, 0}, {"e1", "string", false, 0}, {"d1", "string", true, 2.5}, {"'7'", "string", true, 7}, {"$.s", "string", true, 0},
	{"n1", "number", true, 7}, {"z0", "number", false, 0}, {"2.5", "number", true, 2.5}, {"$.n", "number", true, 5}, {"$.zero", "number", false, 0},
	{"true", "bool", true, 1}, {"false", "bool", false, 0}, {"t1", "bool", true, 1}, {"f1", "bool", false, 0}, {"$.f", "bool", false, 0},
	{"arr", "array", true, 0}, {"e2", "array", true, 0}, {"[1, 2]", "array", true, 0}, {"$.a", "array", true, 0},
	{"o", "object", true, 0}, {"$.o", "object", true, 0}, {"$", "object", true, 0},
	{"/a/", "regex", false, 0},
	{"un", "unknown", false, 0}, {"un.k", "null", false, 0},
}

var c06IsTypes = []string{"null", "function", "string", "number", "bool", "array", "object", "regex", "unknown", "nothing"}

var c06IsPrefixes = [][]string{{}, {"!"}, {"-"}, {"+"}, {"!", "!"}, {"-", "-"}, {"!", "-"}, {"-", "!"}, {"+", "!"}, {"!", "+"}, {"!", "!", "!"}, {"-", "!", "!"}}

// c06IsValue: the value of a tree of atoms (c06IsOperands), prefix ! - + and `is`, as (type, truthy, number)
func c06IsValue(n *c06N) c06IsOperand {
	switch n.k {
	case "atom":
		for _, o := range c06IsOperands {
			if o.text == n.op {
				return o
			}
		}
		panic("c06: operand " + n.op)
	case "un":
		v := c06IsValue(n.a)
		switch n.op {
		case "!":
			b := !v.truthy
			f := 0.0
			if b {
				f = 1
			}
			return c06IsOperand{"", "bool", b, f}
		case "-":
			return c06IsOperand{"", "number", v.num != 0, -v.num}
		default:
			return c06IsOperand{"", "number", v.num != 0, v.num}
		}
	case "is":
		v := c06IsValue(n.a)
		b := v.ty == n.op && v.ty != ""
		f := 0.0
		if b {
			f = 1
		}
		return c06IsOperand{"", "bool", b, f}
	}
	panic("c06: node " + n.k)
}

func c06IsShow(v c06IsOperand) string {
	if v.ty == "bool" {
		return strconv.FormatBool(v.truthy)
	}
	if v.num == 0 && math.Signbit(v.num) {
		return "-0"
	}
	return strconv.FormatFloat(v.num, 'f', -1, 64)
}

// c06EmitIs: the renderings of one tree (as c06EmitPAS), the printed value also checked against
// the closed form when expect is not empty
func c06EmitIs(r *rand.Rand, emit func(Case), id string, tree *c06N, expect string, extra map[string]string) {
	texts := []string{
		c06Text(tree, c06Min, r, c06Tight),
		c06Text(tree, c06Min, r, c06Spaced),
		c06Text(tree, c06Full, r, c06Tight),
		c06Text(tree, c06Redundant, r, r.Intn(3)),
	}
	names := []string{"minimal, no blanks", "minimal, blanks", "full", "redundant"}
	sib := &c06Siblings{}
	seen := map[string]bool{}
	for i, t := range texts {
		if seen[t] {
			continue
		}
		seen[t] = true
		meta := map[string]string{"expression": t, "rendering": names[i], "minimal": texts[0], "full": texts[2], "expected value": expect}
		for k, v := range extra {
			meta[k] = v
		}
		emit(Case{ID: id + "/pexpr/" + names[i], Req: "pexpr " + hxs(t), Fields: c06ParseFields, Meta: meta,
			Oracle: sib.oracle(t), NonTrivial: c06DumpNT})
		prog := c06IsFuncs + "{\n" + c06IsPreset + "r = " + t + "\nprint r\nprint r is bool, r is number, un is unknown, y\n}\n"
		files := []File{{Name: "in.json", Data: []byte(c06IsInput)}}
		pm := metaProg(prog, "expression", t, "rendering", names[i], "minimal", texts[0], "full", texts[2], "expected value", expect)
		for k, v := range extra {
			pm[k] = v
		}
		var oracle func(Resp) string
		if expect != "" {
			text := t
			oracle = func(i Resp) string {
				if i["class"] != "ok" {
					return fmt.Sprintf("%s must evaluate (to %s): %s (%s)", text, expect, i["class"], i["msg"])
				}
				if got := strings.SplitN(string(i.Bytes("out")), "\n", 2)[0]; got != expect {
					return fmt.Sprintf("%s must be %s under the grouping %s, the implementation prints %s", text, expect, texts[2], got)
				}
				return ""
			}
		}
		emit(Case{ID: id + "/run/" + names[i], Req: RunReq(prog, nil, files, false), Fields: []string{"class", "out", "line", "col"}, Meta: pm,
			Group: id, GroupFields: []string{"class", "out"}, Oracle: oracle})
	}
}

func c06IsAfterPrefix(r *rand.Rand, tier string, emit func(Case)) {
	wrap := func(n *c06N, ops []string) *c06N {
		for i := len(ops) - 1; i >= 0; i-- {
			n = &c06N{k: "un", op: ops[i], a: n}
		}
		return n
	}
	ctxs := []c06Ctx{
		{"E == false", func(c *c06N) *c06N { return &c06N{k: "bin", op: "==", a: c, b: c06Atom("false")} }},
		{"true && E", func(c *c06N) *c06N { return &c06N{k: "bin", op: "&&", a: c06Atom("true"), b: c} }},
		{"y + E", func(c *c06N) *c06N { return &c06N{k: "bin", op: "+", a: c06Atom("y"), b: c} }},
		{"y * E", func(c *c06N) *c06N { return &c06N{k: "bin", op: "*", a: c06Atom("y"), b: c} }},
		{"y == E", func(c *c06N) *c06N { return &c06N{k: "bin", op: "==", a: c06Atom("y"), b: c} }},
		{"E is bool", func(c *c06N) *c06N { return &c06N{k: "is", op: "bool", a: c} }},
		{"E is null", func(c *c06N) *c06N { return &c06N{k: "is", op: "null", a: c} }},
		{"r2 = E", func(c *c06N) *c06N { return &c06N{k: "asg", op: "=", a: c06Atom("r2"), b: c} }},
	}
	for _, ty := range c06IsTypes {
		for _, pre := range c06IsPrefixes {
			// every place the type test can take in the stack: j operators stay outside it
			for j := 0; j <= len(pre); j++ {
				// operands: in the thorough tier all; else one of the type, two that differ in truthiness, three sampled
				var ops []c06IsOperand
				if tier == "thorough" {
					ops = c06IsOperands
				} else {
					seen := map[string]bool{}
					add := func(o c06IsOperand) {
						if !seen[o.text] {
							seen[o.text] = true
							ops = append(ops, o)
						}
					}
					var same []c06IsOperand
					for _, o := range c06IsOperands {
						if o.ty == ty {
							same = append(same, o)
						}
					}
					if len(same) > 0 {
						add(pick(r, same))
					}
					add(pick(r, []c06IsOperand{c06IsOperands[11], c06IsOperands[13], c06IsOperands[6], c06IsOperands[21]})) // truthy, not null
					add(pick(r, []c06IsOperand{c06IsOperands[0], c06IsOperands[2], c06IsOperands[12], c06IsOperands[17], c06IsOperands[7]}))
					for k := 0; k < 3; k++ {
						add(pick(r, c06IsOperands))
					}
				}
				for _, o := range ops {
					core := wrap(&c06N{k: "is", op: ty, a: wrap(c06Atom(o.text), pre[j:])}, pre[:j])
					id := fmt.Sprintf("is:%s:%s:%d:%s", ty, strings.Join(pre, ""), j, o.text)
					extra := map[string]string{"row": "is " + ty, "col": fmt.Sprintf("prefix %s, %d outside", strings.Join(pre, " "), j)}
					c06EmitIs(r, emit, id, core, c06IsShow(c06IsValue(core)), extra)
					if tier == "thorough" || chance(r, 0.15) {
						c := pick(r, ctxs)
						extra["context"] = c.name
						c06EmitIs(r, emit, id+":"+c.name, c.mk(core), "", extra)
					}
				}
			}
		}
	}
}

// ---- many parenthesised groups -------------------------------------------------

// c06GroupTerm: a product whose second factor needs its parentheses, nested to the given depth
// (1: a * (b + c); 2: a * (b + (c - d)); 3: a * (b + (c - (d + e)))), and its value
func c06GroupTerm(r *rand.Rand, depth int) (string, int) {
	a, b := 2+r.Intn(3), 1+r.Intn(4)
	inner, val := "", 0
	switch depth {
	case 1:
		c := 1 + r.Intn(4)
		inner, val = fmt.Sprintf("(%d + %d)", b, c), b+c
	case 2:
		c, d := 5+r.Intn(4), 1+r.Intn(4)
		inner, val = fmt.Sprintf("(%d + (%d - %d))", b, c, d), b+(c-d)
	default:
		c, d, e := 9, 1+r.Intn(3), 1+r.Intn(3)
		inner, val = fmt.Sprintf("(%d + (%d - (%d + %d)))", b, c, d, e), b+(c-(d+e))
	}
	if chance(r, 0.3) {
		return fmt.Sprintf("%s * %d", inner, a), a * val
	}
	return fmt.Sprintf("%d * %s", a, inner), a * val
}

func c06ManyGroups(r *rand.Rand, tier string, emit func(Case)) {
	emitProg := func(id, prog string, want int, what string, groups int) {
		exp := strconv.Itoa(want) + "\n"
		// the model's front end takes time quadratic in the program length (30 s for 100 kB): the
		// longest programs are decided by the closed form alone
		emit(Case{ID: id, Req: RunReq(prog, nil, nil, false), Fields: []string{"class", "out", "line", "col"}, ImplOnly: len(prog) > tierN(tier, 28000, 110000),
			Meta: map[string]string{"program": short(prog), "what": what, "parenthesised groups": strconv.Itoa(groups), "expected": strconv.Itoa(want), "row": what},
			Oracle: func(i Resp) string {
				if i["class"] != "ok" {
					return fmt.Sprintf("a program with %d parenthesised groups (%s) must run and print %d: %s (%s)", groups, what, want, i["class"], i["msg"])
				}
				if got := string(i.Bytes("out")); got != exp {
					return fmt.Sprintf("%d parenthesised groups (%s): the value must be %d, the implementation prints %q", groups, what, want, got)
				}
				return ""
			}})
	}
	counts := []int{150, 199, 200, 201, 250, 1000, 5000}
	if tier == "thorough" {
		counts = append(counts, 128, 255, 256, 257, 512, 2000, 20000)
	}
	for _, n := range counts {
		for depth := 1; depth <= 3; depth++ {
			terms := make([]string, n)
			sum := 0
			for i := range terms {
				t, v := c06GroupTerm(r, depth)
				terms[i], sum = t, sum+v
			}
			groups := n * depth
			// (1) one expression: a sum of products
			emitProg(fmt.Sprintf("groups:one-expression:%d:%d", n, depth), "BEGIN { print "+strings.Join(terms, " + ")+" }", sum, fmt.Sprintf("one sum of products, nesting depth %d", depth), groups)
			// (2) one statement per term
			var sb strings.Builder
			sb.WriteString("BEGIN {\n  x = 0\n")
			for _, t := range terms {
				sb.WriteString("  x = x + " + t + "\n")
			}
			sb.WriteString("  print x\n}\n")
			emitProg(fmt.Sprintf("groups:statements:%d:%d", n, depth), sb.String(), sum, fmt.Sprintf("one statement per group, nesting depth %d", depth), groups)
			// (3) spread over functions and rules
			sb.Reset()
			nf := 1 + r.Intn(8)
			for f := 0; f < nf; f++ {
				fmt.Fprintf(&sb, "function f%d(x) {\n", f)
				for i := f; i < n/2; i += nf {
					sb.WriteString("  x = x + " + terms[i] + "\n")
				}
				sb.WriteString("  return x\n}\n")
			}
			sb.WriteString("BEGIN { x = 0 }\n")
			for i := n / 2; i < n; i++ {
				if i%3 == 0 {
					sb.WriteString("BEGIN { x = x + " + terms[i] + " }\n")
				} else {
					sb.WriteString("BEGIN { if (" + terms[i] + " > 0) x += (" + terms[i] + ") }\n")
					groups += depth + 1
				}
			}
			sb.WriteString("BEGIN { ")
			for f := 0; f < nf; f++ {
				fmt.Fprintf(&sb, "x = f%d(x); ", f)
			}
			sb.WriteString("print x }\n")
			emitProg(fmt.Sprintf("groups:functions-and-rules:%d:%d", n, depth), sb.String(), sum, fmt.Sprintf("groups spread over functions, rules and conditions, nesting depth %d", depth), groups)
		}
		// (4) call arguments, array literals and index expressions between the groups
		{
			var sb strings.Builder
			sb.WriteString("function id(v) { return v }\nBEGIN {\n  x = 0; a = [1, 2, 3]\n")
			sum := 0
			for i := 0; i < n; i++ {
				t, v := c06GroupTerm(r, 1)
				// every statement holds a call, an array literal, an index and groups
				switch i % 3 {
				case 0:
					sb.WriteString("  x = x + id([(" + t + ")][(1 - 1)])\n")
				case 1:
					sb.WriteString("  x = x + [id(" + t + "), 0][0] + a[(1 + 1)] * 0\n")
				default:
					sb.WriteString("  x = (x + id([" + t + "])[0])\n")
				}
				sum += v
			}
			sb.WriteString("  print x\n}\n")
			emitProg(fmt.Sprintf("groups:with-calls-and-brackets:%d", n), sb.String(), sum, "groups next to calls, array literals and indexes", 2*n)
		}
	}
	// (5) deep nesting
	deep := []int{150, 199, 200, 201, 250, 300}
	if tier == "thorough" {
		deep = append(deep, 100, 128, 255, 256, 257, 400, 600)
	}
	for _, d := range deep {
		// ((((1 + 1) + 1) + 1) ...)
		emitProg(fmt.Sprintf("groups:deep-left:%d", d), "BEGIN { print "+strings.Repeat("(", d)+"1"+strings.Repeat(" + 1)", d)+" }", d+1, "left-nested groups", d)
		// 10 - (10 - (10 - ... 3))
		v := 3
		for i := 0; i < d; i++ {
			v = 10 - v
		}
		emitProg(fmt.Sprintf("groups:deep-right:%d", d), "BEGIN { print "+strings.Repeat("10 - (", d)+"3"+strings.Repeat(")", d)+" }", v, "right-nested groups", d)
		// redundant pairs around one atom, then more groups after it
		emitProg(fmt.Sprintf("groups:deep-redundant:%d", d), "BEGIN { x = "+strings.Repeat("(", d)+"7"+strings.Repeat(")", d)+"\n  print x * (1 + 1) }", 14, "redundant pairs around one atom, then one more group", d+1)
		// deep groups inside array literals and call arguments
		emitProg(fmt.Sprintf("groups:deep-in-array:%d", d), "BEGIN { a = ["+strings.Repeat("(", d)+"1"+strings.Repeat(" + 1)", d)+", 2 * (3 + 4)]\n  print a[0] + a[1] }", d+1+14, "left-nested groups inside an array literal", d+1)
		// d nested array literals, then groups (brackets are counted by a nesting guard too)
		emitProg(fmt.Sprintf("groups:nested-arrays:%d", d), "BEGIN { a = "+strings.Repeat("[", d)+"5"+strings.Repeat("]", d)+"\n  b = [[(1 + 2)], [(3 + 4)]]\n  print a.length() + b[0][0] * (b[1][0] + 1) }", 1+3*8, "nested array literals, then groups", 3)
	}
	// (6) many programs' worth of groups in sequence in one process: a counter that survived a parse
	for k := 0; k < tierN(tier, 3, 10); k++ {
		var reqs []string
		var last string
		want := 0
		for j := 0; j < 4; j++ {
			terms := make([]string, 120)
			sum := 0
			for i := range terms {
				t, v := c06GroupTerm(r, 1)
				terms[i], sum = t, sum+v
			}
			last = RunReq("BEGIN { print "+strings.Join(terms, " + ")+" }", nil, nil, false)
			want = sum
			reqs = append(reqs, last)
		}
		exp := strconv.Itoa(want) + "\n"
		emit(Case{ID: fmt.Sprintf("groups:four-programs:%d", k), Req: "seq " + strings.Join(reqs, "|"), ModelReq: last, Fields: []string{"class", "out"},
			Meta: map[string]string{"what": "four programs of 120 groups each, one after the other in one process", "row": "four programs in one process"},
			Oracle: func(i Resp) string {
				if i["class"] != "ok" || string(i.Bytes("out")) != exp {
					return fmt.Sprintf("the fourth program of 120 groups must print %d: %s %q", want, i["class"], string(i.Bytes("out")))
				}
				return ""
			}})
	}
}

func init() {
	register(Family{
		Name: "is-after-prefix", Prop: "C06",
		Rule: "the type test `is` with every type name (null function string number bool array object regex unknown, and a name that is no type) after every prefix operator stack (none, ! - +, !! -- !- -! +! !+ !!! -!!) with the test at every place in the stack (`!x is T` = `(!x) is T`, `!(x is T)`, `-(!x is T)`, ...), over operands of every type (literals, variables, members of $, missing members, user and builtin functions, a regex literal, an unset variable; truthy and falsy, zero and non-zero), so that the groupings differ in value; each tree written minimally with and without blanks, fully parenthesised and with redundant parentheses: one AST (oracle), one value (group), value = closed form computed from the tree (oracle: ! gives a bool, - + give a number, `is` compares the type), all vs model; a sample inside a larger expression (== && + * is =)",
		Gen:  c06IsAfterPrefix,
	})
	register(Family{
		Name: "many-groups", Prop: "C06",
		Rule: "programs with MANY parenthesised groups: 150 / 199 / 200 / 201 / 250 / 1000 / 5000 products `a * (b + c)` (nesting depth 1-3, every pair of parentheses needed) summed in one expression, one per statement, spread over functions, rules and if-conditions, next to calls, array literals and indexes; nesting 150-300 deep to the left, to the right, redundant pairs around one atom, inside array literals, nested array literals; four programs in a row in one process; the value must equal the closed form (oracle) and the model's",
		Gen:  c06ManyGroups,
	})
}

// ---- statement headers followed by unbraced bodies ---------------------------------------------
//
// A parenthesised header (`if (…)`, `while (…)`, `for (…;…;…)`, `for (x in …)`, `for (x, i in …)`,
// `match (…)`) ends at its `)`, and `else` ends at the word: the statement that follows starts a
// NEW expression even when its first token also has an infix or postfix meaning (`++ -- - + ( [ /`).
// Oracle (implementation only): `HEADER BODY` and `HEADER { BODY }` give the same AST once the one
// block node is taken out (parse), and the same output (run).

type c06HdrBodyT struct {
	text  string
	class string // first token class: incr decr minus plus group array regex not dollar string literal keyword ident block match
	needs string // "", "loop" (break/continue), "fn" (return)
	infix bool   // the first token also has an infix/postfix meaning
}

var c06HdrParseBodies = []c06HdrBodyT{
	{"++y", "incr", "", true}, {"++y.k", "incr", "", true}, {"++y[0]", "incr", "", true},
	{"--y", "decr", "", true}, {"--o.k", "decr", "", true},
	{"-y", "minus", "", true}, {"-y.k + 1", "minus", "", true}, {"-1", "minus", "", true}, {"- y * 2", "minus", "", true}, {"-f(y)", "minus", "", true},
	{"+y", "plus", "", true}, {"+1", "plus", "", true}, {"+f(y).k", "plus", "", true},
	{"(o).k = 2", "group", "", true}, {"(f)(1)", "group", "", true}, {"(y)++", "group", "", true}, {"(y)", "group", "", true},
	{"(y + 1) * 2", "group", "", true}, {"((y)).k", "group", "", true}, {"(o).k += 1", "group", "", true}, {"(y) = 3", "group", "", true}, {"(o)[0] = (1)", "group", "", true},
	{"[1,2].length()", "array", "", true}, {"[y][0]", "array", "", true}, {"[]", "array", "", true}, {"[y, z].push(1)", "array", "", true}, {"[[1]][0][0]", "array", "", true},
	{"/re/ ~ s", "regex", "", true}, {"/a+/", "regex", "", true}, {"/x/ ~ s && y", "regex", "", true},
	{"!y", "not", "", false}, {"!!y", "not", "", false}, {"!(y)", "not", "", false},
	{"$", "dollar", "", false}, {"$.a = 1", "dollar", "", false}, {"$[0]", "dollar", "", false}, {"$index", "dollar", "", false}, {"$.a.b", "dollar", "", false},
	{"\"str\"", "string", "", false}, {"'s'.length()", "string", "", false}, {"\"a\" + y", "string", "", false},
	{"1", "literal", "", false}, {"1.5.floor()", "literal", "", false}, {"true", "literal", "", false}, {"null", "literal", "", false},
	{"print y", "keyword", "", false}, {"print", "keyword", "", false}, {"print -y", "keyword", "", false}, {"print (y), z", "keyword", "", false},
	{"return", "keyword", "fn", false}, {"return y", "keyword", "fn", false}, {"return -y", "keyword", "fn", false}, {"return (y)", "keyword", "fn", false},
	{"next", "keyword", "", false}, {"exit", "keyword", "", false}, {"break", "keyword", "loop", false}, {"continue", "keyword", "loop", false},
	{"y = 1", "ident", "", false}, {"y", "ident", "", false}, {"f(1)", "ident", "", false}, {"y++", "ident", "", false}, {"y.k = 2", "ident", "", false},
	{"y += 1", "ident", "", false}, {"y[0]", "ident", "", false}, {"y.push(1)", "ident", "", false}, {"y--", "ident", "", false},
	{"{ y }", "block", "", false}, {"{ }", "block", "", false}, {"{ ++y }", "block", "", false}, {"{ -y\n (z) }", "block", "", false},
	{"match (y) { 1 => 2 }", "match", "", false}, {"match (y) { 1, 2 => -y, 3 => { ++y } }", "match", "", false},
}

var c06HdrParseExprs = []string{
	"x", "x", "f(x)", "f()", "o.k", "x.length()", "((x))", "(x)", "x + 1", "x < 3", "x && y", "(x) + (y)", "x * (y + 1)", "(x++)", "x--", "(x)--",
	"a[0]", "a[(i)]", "!x", "-x", "x is number", "[1,2]", "\"s\"", "/re/ ~ s", "x = y", "(x = y)", "$", "$.a", "f((x))", "match (x) { 1 => 2 }",
	"(x).k", "x.f((1))", "(((x) - 1))", "x ~ /a)/", "'('", "f(x)(y)", "a[0][(1)]", "-(x)", "(x) is number",
}

// c06HdrHeader writes one header of the given kind; the condition expressions come from exprs.
// kinds: if while for3 forin forin2 else. ws = 0: `if (E)`, 1: `if(E)`, 2: `if ( E )`.
func c06HdrHeader(r *rand.Rand, kind string, exprs []string, ws int) string {
	e := pick(r, exprs)
	open, cl := " (", ")"
	switch ws {
	case 1:
		open = "("
	case 2:
		open, cl = " ( ", " )"
	}
	switch kind {
	case "if":
		return "if" + open + e + cl
	case "while":
		return "while" + open + e + cl
	case "for3":
		pre := pick(r, []string{"i = 0", "(i = 0)", "i = (0)", "i", "i = f(0)"})
		cond := pick(r, []string{"i < 3", "(i < 3)", "i < (3)", e, "i < f(3)"})
		post := pick(r, []string{"i++", "(i++)", "i += 1", "i = (i + 1)", "++i", "(i)++", "i = f(i)", "i--"})
		return "for" + open + pre + "; " + cond + "; " + post + cl
	case "forin":
		return "for" + open + pick(r, []string{"v", "x"}) + " in " + pick(r, []string{"a", "(a)", "f(a)", "o.k", "[1, 2]", "a[0]", "((a))", "o.f()", e}) + cl
	case "forin2":
		return "for" + open + pick(r, []string{"v, j", "x,i", "v ,j"}) + " in " + pick(r, []string{"a", "(a)", "f(a)", "o.k", "[1, 2]", "a[0]", "((a))", "o.f()", e}) + cl
	case "else":
		then := pick(r, []string{"z = 1 ", "z = 1\n", "{ z = 1 } ", "{ z = 1 }\n", "print z; ", "print z\n", "(z) ", "z++ ", "++z\n  ", "f(z) ", "-z\n", "[z] "})
		return "if" + open + e + cl + " " + then + "else"
	}
	return "if (x)"
}

// c06HdrUnwrap removes the block node that starts at byte offset off from a raw AST dump.
func c06HdrUnwrap(dump string, off int) (string, bool) {
	key := fmt.Sprintf("(block %d", off)
	at := -1
	for from := 0; ; {
		i := strings.Index(dump[from:], key)
		if i < 0 {
			break
		}
		i += from
		end := i + len(key)
		if end < len(dump) && (dump[end] == ' ' || dump[end] == ')') {
			at = i
			break
		}
		from = end
	}
	if at < 0 {
		return "", false
	}
	depth, end := 0, -1
	for j := at; j < len(dump); j++ {
		if dump[j] == '(' {
			depth++
		} else if dump[j] == ')' {
			depth--
			if depth == 0 {
				end = j
				break
			}
		}
	}
	if end < 0 {
		return "", false
	}
	inner := strings.TrimPrefix(dump[at+len(key):end], " ")
	return dump[:at] + inner + dump[end+1:], true
}

func c06HdrStrip(s string) string {
	s = c06PosRe1.ReplaceAllString(s, "($1 $2 ")
	return c06PosRe2.ReplaceAllString(s, "($1")
}

// c06HdrBracedCheck: first = the answer for `HEADER { BODY }` (the `{` at byte offset off),
// self = the answer for `HEADER BODY`.
func c06HdrBracedCheck(off int, braced, text string) func(first, self Resp) string {
	return func(first, self Resp) string {
		if first["class"] != "ok" || self["class"] != "ok" {
			if first["class"] != self["class"] {
				return fmt.Sprintf("%q is answered %s (%s) but with the body in braces, %q, %s (%s)", text, self["class"], self["msg"], braced, first["class"], first["msg"])
			}
			return ""
		}
		un, ok := c06HdrUnwrap(string(first.Bytes("dump")), off)
		if !ok {
			return fmt.Sprintf("the AST of %q has no block at byte %d: %s", braced, off, short(string(first.Bytes("dump"))))
		}
		want, got := c06HdrStrip(un), c06HdrStrip(string(self.Bytes("dump")))
		if want != got {
			return fmt.Sprintf("the header does not end at its `)`: %q parses to %s but %q, the same with the body in braces, to %s without the block node", text, short(got), braced, short(want))
		}
		return ""
	}
}

var c06HdrKinds = []string{"if", "while", "for3", "forin", "forin2", "else"}

// separators between the header and the body
var c06HdrSeps = []string{" ", "\n    ", "", "\n\n", " \n\t"}

// c06HdrWrap puts a statement into a program: a BEGIN rule, a main rule, a rule with a pattern or
// a function; before/after are whole statements.
func c06HdrWrap(r *rand.Rand, needs string, before, stmt, after string) (prefix, suffix string) {
	pre := ""
	if before != "" {
		pre = before + "\n  "
	}
	post := ""
	if after != "" {
		post = "\n  " + after
	}
	if needs == "fn" || (needs == "" && chance(r, 0.15)) {
		return "function g(y, z) {\n  " + pre, post + "\n}\nBEGIN { g(1, 2) }\n"
	}
	switch r.Intn(3) {
	case 0:
		return "BEGIN {\n  " + pre, post + "\n}\n"
	case 1:
		return "{ " + pre, post + " }\n"
	}
	return "$.a > 1 {\n  " + pre, post + "\n}\nEND { print y }\n"
}

func c06HdrParseOne(r *rand.Rand, emit func(Case), id, kind string, header string, b c06HdrBodyT, row string) {
	needs := b.needs
	if needs == "loop" && (kind == "if" || kind == "else") {
		// break / continue need a loop around
		header = pick(r, []string{"while (q) ", "for (k in a) "}) + header
		needs = ""
	} else if needs == "loop" {
		needs = ""
	}
	before := pick(r, []string{"", "", "q = 1", "print q", "q = (1)", "q = f(1)"})
	// what follows on the next line must not start with a token that continues the body's expression
	after := pick(r, []string{"", "", "print z", "z = 2", "if (z) print", "return2 = 1", "z++", "{ z }", "next", "while (z) z--"})
	pfx, sfx := c06HdrWrap(r, needs, before, "", after)
	bracedText := pfx + header + " { " + b.text + " }" + sfx
	off := len(pfx) + len(header) + 1
	group := "hdr:" + id
	meta := func(text, variant string) map[string]string {
		return map[string]string{"program": text, "header": header, "body": b.text, "body starts with": b.class, "variant": variant, "row": row}
	}
	emit(Case{ID: id + "/braced", Req: "parse " + hxs(bracedText), Fields: c06ParseFields, Meta: meta(bracedText, "braced"), Group: group, NonTrivial: c06DumpNT})
	seps := []string{" ", "\n    ", pick(r, c06HdrSeps)}
	if kind == "else" && seps[2] == "" {
		seps[2] = " "
	}
	for si, sep := range seps {
		if si == 2 && (sep == seps[0] || sep == seps[1]) {
			continue
		}
		if sep == "" && c06Wordish(b.text[:1]) && kind == "else" {
			continue
		}
		text := pfx + header + sep + b.text + sfx
		emit(Case{ID: fmt.Sprintf("%s/sep%d", id, si), Req: "parse " + hxs(text), Fields: c06ParseFields, Meta: meta(text, fmt.Sprintf("separator %q", sep)),
			Group: group, GroupCheck: c06HdrBracedCheck(off, bracedText, text), NonTrivial: c06DumpNT})
	}
	// the statement after the body separated by `;` (only where the body does not end in `}`), and
	// lines after the body that start with the same kind of token (decided by the model alone)
	if !strings.HasSuffix(b.text, "}") && chance(r, 0.5) {
		text := pfx + header + " " + b.text + "; " + pick(r, c06HdrParseBodies[:48]).text + sfx
		emit(Case{ID: id + "/semi", Req: "parse " + hxs(text), Fields: c06ParseFields, Meta: meta(text, "body; statement"), NonTrivial: c06DumpNT})
	}
	if chance(r, 0.3) {
		text := pfx + header + " " + b.text + "\n  " + pick(r, c06HdrParseBodies[:48]).text + sfx
		emit(Case{ID: id + "/nextline", Req: "parse " + hxs(text), Fields: c06ParseFields, Meta: meta(text, "body, then a line starting with an operator-like token"), NonTrivial: c06DumpNT})
	}
}

func c06HdrBodiesParse(r *rand.Rand, tier string, emit func(Case)) {
	n := 0
	// the ill-formed stream: a parenthesis dropped or doubled, the body missing, `;` for a body, an
	// else without its if or after `;`, a match without its `{`: class and position vs the model
	for rep := 0; rep < tierN(tier, 1, 5); rep++ {
		for _, b := range c06HdrParseBodies {
			if b.needs != "" {
				continue
			}
			for _, kind := range []string{pick(r, c06HdrKinds), pick(r, c06HdrKinds[:5])} {
				n++
				h := c06HdrHeader(r, kind, c06HdrParseExprs, r.Intn(3))
				sep := pick(r, c06HdrSeps[:2])
				var stmt, how string
				switch r.Intn(10) {
				case 0:
					stmt, how = strings.Replace(h, "(", "", 1)+sep+b.text, "first `(` dropped"
				case 1:
					i := strings.LastIndex(h, ")")
					stmt, how = h[:i]+h[i+1:]+sep+b.text, "last `)` dropped"
				case 2:
					stmt, how = h+")"+sep+b.text, "`)` doubled"
				case 3:
					stmt, how = h+pick(r, []string{";", " ;", "\n  ;"})+sep+b.text, "`;` for a body"
				case 4:
					stmt, how = h, "no body"
				case 5:
					stmt, how = "else"+sep+b.text, "else without if"
				case 6:
					stmt, how = h+sep+b.text+pick(r, []string{"; else ", ";\n  else "})+pick(r, c06HdrParseBodies[:48]).text, "else after `;`"
				case 7:
					stmt, how = "match (x)"+sep+b.text, "match without `{`"
				case 8:
					stmt, how = strings.Replace(h, "(", "((", 1)+sep+b.text, "`(` doubled"
				default:
					stmt, how = h+sep+b.text+sep+pick(r, []string{")", "else", "}", "in a", "=> 1"}), "stray token after the body"
				}
				pfx, sfx := c06HdrWrap(r, "", pick(r, []string{"", "q = 1"}), "", pick(r, []string{"", "print z"}))
				text := pfx + stmt + sfx
				emit(Case{ID: fmt.Sprintf("hp:%d/bad", n), Req: "parse " + hxs(text), Fields: c06ParseFields,
					Meta: map[string]string{"program": text, "header": h, "body": b.text, "body starts with": b.class, "variant": how, "row": "ill-formed: " + how}})
			}
		}
	}
	// every header kind with every body
	for rep := 0; rep < tierN(tier, 1, 6); rep++ {
		for _, kind := range c06HdrKinds {
			for _, b := range c06HdrParseBodies {
				n++
				c06HdrParseOne(r, emit, fmt.Sprintf("hp:%d", n), kind, c06HdrHeader(r, kind, c06HdrParseExprs, r.Intn(3)), b, kind+" / "+b.class)
			}
		}
	}
	// every header expression in front of the operator-like bodies
	for rep := 0; rep < tierN(tier, 1, 4); rep++ {
		for _, e := range c06HdrParseExprs {
			for _, kind := range []string{"if", "while", "else", "forin", "for3"} {
				n++
				b := pick(r, c06HdrParseBodies[:30])
				c06HdrParseOne(r, emit, fmt.Sprintf("hp:%d", n), kind, c06HdrHeader(r, kind, []string{e}, r.Intn(3)), b, "header expression / "+kind)
			}
		}
	}
	// nested headers: header header body, if-else chains with unbraced bodies
	for k := 0; k < tierN(tier, 400, 4000); k++ {
		n++
		b := pick(r, c06HdrParseBodies)
		depth := 1 + r.Intn(3)
		inner := b.text
		needs := b.needs
		for d := 0; d < depth; d++ {
			kind := pick(r, c06HdrKinds)
			if needs == "loop" && (kind != "if" && kind != "else") {
				needs = ""
			}
			h := c06HdrHeader(r, kind, c06HdrParseExprs, r.Intn(3))
			sep := pick(r, []string{" ", " ", "\n      ", ""})
			if sep == "" && kind == "else" {
				sep = " "
			}
			inner = h + sep + inner
			if kind == "if" && chance(r, 0.4) {
				eb := pick(r, c06HdrParseBodies)
				if eb.needs == "" {
					inner += pick(r, []string{" else ", "\n    else ", "\n    else\n      "}) + eb.text
				}
			}
		}
		if needs == "loop" {
			inner = "while (q) " + inner
		}
		nb := c06HdrBodyT{text: inner, class: "nested header", needs: needs}
		if needs == "loop" {
			nb.needs = ""
		}
		kind := pick(r, c06HdrKinds)
		c06HdrParseOne(r, emit, fmt.Sprintf("hp:%d", n), kind, c06HdrHeader(r, kind, c06HdrParseExprs, r.Intn(3)), nb, fmt.Sprintf("nested headers, %d deep", depth+1))
	}
	// match: the token after `)` is `{` (same line, next line, no blank); a match as a statement
	// followed by lines that start with every kind of token
	for k := 0; k < tierN(tier, 300, 2500); k++ {
		n++
		e := pick(r, c06HdrParseExprs)
		sep := pick(r, []string{" ", " ", "", "\n  ", " \n"})
		arms := pick(r, []string{"1 => 2", "1, 2 => -y, 3 => { ++y }", "'a' => (y), x => [y]", "1 => --y", "(1) => (2)", "1 => 2,"})
		m := pick(r, []string{"match (", "match(", "match ( "}) + e + ")" + sep + "{ " + arms + " }"
		b := pick(r, c06HdrParseBodies)
		var stmt string
		switch r.Intn(5) {
		case 0:
			stmt = m + "\n  " + b.text
		case 1:
			stmt = "r = " + m + "\n  " + b.text
		case 2:
			stmt = "if (q) " + m + "\n  " + b.text
		case 3:
			stmt = "if (" + m + ")" + pick(r, c06HdrSeps) + b.text
		default:
			stmt = "r = " + m + pick(r, []string{" + 1", ".k", "[0]", " is number", ""}) + "\n  print r"
			b.needs = ""
		}
		needs := b.needs
		if needs == "loop" {
			stmt = "while (q) { " + stmt + " }"
			needs = ""
		}
		pfx, sfx := c06HdrWrap(r, needs, "", "", pick(r, []string{"", "print z"}))
		text := pfx + stmt + sfx
		emit(Case{ID: fmt.Sprintf("hp:%d/match", n), Req: "parse " + hxs(text), Fields: c06ParseFields, NonTrivial: c06DumpNT,
			Meta: map[string]string{"program": text, "body": b.text, "body starts with": b.class, "row": "match header"}})
	}
}

// ---- executed: header + unbraced body over a fixed state ------------------------------------------

const c06HdrRunInput = `{"a": 7, "k": [1, 2]}` + "\n"

const c06HdrRunFuncs = "function f(v) { c = c + 1; return v }\nfunction dec() { n = n - 1; return n }\n"
const c06HdrRunInit = "  n = 3; y = 5; z = 0; c = 0; o = {k: 1}; a = [1, 2, 3]; w = [4, 5]; s = 'abc'; b = 1; t = 0; u = 0\n"
const c06HdrRunShow = "n, y, z, c, o.k, a.length(), w.length(), b, t, u, i"

// bodies that leave the loop variables n, i, x, j, w alone
var c06HdrRunBodies = []c06HdrBodyT{
	{"++y", "incr", "", true}, {"++o.k", "incr", "", true}, {"++a[0]", "incr", "", true},
	{"--y", "decr", "", true}, {"--o.k", "decr", "", true},
	{"-y", "minus", "", true}, {"-f(y)", "minus", "", true}, {"-y + f(1)", "minus", "", true},
	{"+y", "plus", "", true}, {"+f(y)", "plus", "", true},
	{"(o).k = 2", "group", "", true}, {"(f)(1)", "group", "", true}, {"(y)++", "group", "", true}, {"(y)", "group", "", true}, {"(y) = 9", "group", "", true},
	{"(o).k += 5", "group", "", true}, {"(y + f(1)) * 2", "group", "", true}, {"((z)) = f(4)", "group", "", true}, {"(a)[1] = 8", "group", "", true},
	{"[1,2].length()", "array", "", true}, {"[f(1), 2].length()", "array", "", true}, {"[a][0].push(4)", "array", "", true}, {"[y][0]", "array", "", true},
	{"/b/ ~ s", "regex", "", true}, {"/b/ ~ f(s)", "regex", "", true},
	{"!y", "not", "", false}, {"!f(1)", "not", "", false},
	{"$", "dollar", "", false}, {"$.a = 1", "dollar", "", false}, {"$.a += 1", "dollar", "", false}, {"$.k.push(3)", "dollar", "", false},
	{"\"str\"", "string", "", false}, {"'s'.length()", "string", "", false},
	{"1", "literal", "", false}, {"true", "literal", "", false},
	{"print y", "keyword", "", false}, {"print", "keyword", "", false}, {"print -y", "keyword", "", false}, {"print (y), z", "keyword", "", false}, {"print [y][0]", "keyword", "", false},
	{"return", "keyword", "fn", false}, {"return -y", "keyword", "fn", false}, {"return (y)", "keyword", "fn", false}, {"return [y]", "keyword", "fn", false},
	{"next", "keyword", "", false}, {"exit", "keyword", "", false}, {"break", "keyword", "loop", false}, {"continue", "keyword", "loop", false},
	{"y = 1", "ident", "", false}, {"y", "ident", "", false}, {"f(1)", "ident", "", false}, {"y++", "ident", "", false}, {"a.push(1)", "ident", "", false}, {"y -= 2", "ident", "", false},
	{"{ ++y }", "block", "", false}, {"{ y = 1; z = 2 }", "block", "", false}, {"{ -y; (z) = 3 }", "block", "", false},
	{"match (y) { 5 => f(1) }", "match", "", false}, {"match (y) { 5 => ++z, 6 => --z }", "match", "", false},
	{"if (b) ++y", "nested header", "", false}, {"if (z) ++y\n    else --y", "nested header", "", false}, {"if (b) if (z) ++y else --y", "nested header", "", false},
	{"while (u < 2) ++u", "nested header", "", false}, {"while (u++ < 2) --y", "nested header", "", false}, {"for (m = 0; m < 2; m++) ++y", "nested header", "", false},
	{"for (v in a) z += v", "nested header", "", false}, {"for (v, m in a) -f(m)", "nested header", "", false}, {"for (v in [1, 2]) (o).k += v", "nested header", "", false},
	{"if (b) (o).k = 4", "nested header", "", false}, {"if (z) -y else (f)(2)", "nested header", "", false}, {"while (u++ < 3) if (u > 1) break", "nested header", "", false},
}

// conditions, true and false in the initial state
var c06HdrRunConds = []string{
	"b", "z", "f(b)", "f(z)", "o.k", "o.k - 1", "((b))", "(z)", "b + 1", "y - 5", "y > 3", "y * (z + 1)", "z * (y + 1)", "(b) && (y)", "a.length()", "a[0]", "a[(0)]",
	"!z", "!b", "s ~ /b/", "(t++)", "(++t)", "t++ < 1", "t++", "f((b))", "$.a", "($)", "y is number", "(y is string)", "'abc'", "''", "-z", "-(b)", "[z][0]", "(o).k",
	"match (y) { 5 => 1 }", "match (y) { 5 => 0 }", "z = b", "(z = 0)",
}

// loop headers that end whatever the body does to y, z, c, o, a, s, b, t, u, $
var c06HdrRunWhile = []string{"n-- > 0", "(n--)", "f(n--)", "(n--) > 0", "n-- > (0)", "dec()", "(dec())", "dec() > 0", "f(dec())", "n-- && b", "(n -= 1) > 0", "n--"}
var c06HdrRunFor3 = []string{
	"i = 0; i < 3; i++", "i = 0; i < 3; i += 1", "i = 3; i; i--", "i = 0; (i < 3); (i++)", "(i = 0); i < (3); i = (i + 1)", "i = 0; f(i) < 3; f(i++)",
	"i = 0; i < w.length(); ++i", "i = 2; i >= 0; --i", "i = f(0); i < 2; (i)++", "i = 0; i < 2; i = f(i + 1)",
}
var c06HdrRunIn = []string{"w", "(w)", "[4, 5]", "f(w)", "((w))", "[w][0]", "[[4], [5, 6]][1]", "$.k", "($.k)"}

// decrement bodies for the loops whose condition only tests n
var c06HdrRunDecBodies = []c06HdrBodyT{
	{"--n", "decr", "", true}, {"n--", "ident", "", false}, {"(n)--", "group", "", true}, {"n -= 1", "ident", "", false}, {"n = n - 1", "ident", "", false}, {"{ --n }", "block", "", false},
	{"-dec()", "minus", "", true}, {"+dec()", "plus", "", true}, {"(dec)()", "group", "", true}, {"(dec())", "group", "", true}, {"[dec()].length()", "array", "", true},
	{"!dec()", "not", "", false}, {"'' + dec()", "string", "", false}, {"print dec()", "keyword", "", false}, {"dec()", "ident", "", false}, {"/b/ ~ dec()", "regex", "", true},
	{"$.a = dec()", "dollar", "", false}, {"(n) = n - 1", "group", "", true}, {"(n) -= 1", "group", "", true}, {"--n\n", "decr", "", true},
	{"if (n) --n", "nested header", "", false}, {"if (z) ++y else --n", "nested header", "", false}, {"match (n) { 0 => 0, n => --n }", "match", "", false},
}
var c06HdrRunDecConds = []string{"n", "(n)", "n > 0", "((n))", "f(n)", "n > (0)", "(n) > 0", "n && b", "[n][0]", "!!n", "(n > 0)", "n is number && n", "!(n == 0)", "n * (1 + 1)"}

func c06HdrRunOne(r *rand.Rand, emit func(Case), id, header string, b c06HdrBodyT, inLoop bool, row string) {
	inFn := b.needs == "fn" || chance(r, 0.15)
	if b.needs == "loop" && !inLoop {
		header = "while (u++ < 2) " + header
	}
	mk := func(stmt string) string {
		var sb strings.Builder
		sb.WriteString(c06HdrRunFuncs)
		if inFn {
			sb.WriteString("function h() {\n  " + stmt + "\n  print 'in h', " + c06HdrRunShow + "\n  return 'h'\n}\n")
			sb.WriteString("{\n" + c06HdrRunInit + "  print h()\n")
		} else {
			sb.WriteString("{\n" + c06HdrRunInit + "  " + stmt + "\n")
		}
		sb.WriteString("  print 'after', " + c06HdrRunShow + ", $.a, $.k.length()\n}\nEND { print 'end', " + c06HdrRunShow + " }\n")
		return sb.String()
	}
	files := []File{{Name: "in.json", Data: []byte(c06HdrRunInput)}}
	group := "hdrrun:" + id
	braced := mk(header + " { " + b.text + " }")
	fields := []string{"class", "out", "line", "col"}
	meta := func(prog, variant string) map[string]string {
		return map[string]string{"program": prog, "header": header, "body": b.text, "body starts with": b.class, "variant": variant, "row": row}
	}
	emit(Case{ID: id + "/braced", Req: RunReq(braced, nil, files, false), Fields: fields, Meta: meta(braced, "braced"), Group: group})
	seps := []string{" ", "\n    "}
	if !strings.HasSuffix(header, "else") && chance(r, 0.3) {
		seps = append(seps, "")
	}
	for si, sep := range seps {
		prog := mk(header + sep + b.text)
		emit(Case{ID: fmt.Sprintf("%s/sep%d", id, si), Req: RunReq(prog, nil, files, false), Fields: fields, Meta: meta(prog, fmt.Sprintf("separator %q", sep)),
			Group: group, GroupFields: []string{"class", "out"}})
	}
	if !strings.HasSuffix(strings.TrimSpace(b.text), "}") && chance(r, 0.3) {
		// `;` and a second statement of the same kind after the body
		prog := mk(header + " " + strings.TrimSpace(b.text) + "; " + pick(r, c06HdrRunBodies[:35]).text)
		emit(Case{ID: id + "/semi", Req: RunReq(prog, nil, files, false), Fields: fields, Meta: meta(prog, "body; statement")})
	}
}

func c06HdrBodiesRun(r *rand.Rand, tier string, emit func(Case)) {
	n := 0
	header := func(kind string) (string, bool) {
		ws := r.Intn(3)
		open, cl := " (", ")"
		switch ws {
		case 1:
			open = "("
		case 2:
			open, cl = " ( ", " )"
		}
		switch kind {
		case "if":
			return "if" + open + pick(r, c06HdrRunConds) + cl, false
		case "while":
			return "while" + open + pick(r, c06HdrRunWhile) + cl, true
		case "for3":
			return "for" + open + pick(r, c06HdrRunFor3) + cl, true
		case "forin":
			return "for" + open + "x in " + pick(r, c06HdrRunIn) + cl, true
		case "forin2":
			return "for" + open + pick(r, []string{"x, j", "x,j"}) + " in " + pick(r, c06HdrRunIn) + cl, true
		}
		then := pick(r, []string{"z = 7 ", "z = 7\n  ", "{ z = 7 } ", "{ z = 7 }\n  ", "print 'then'; ", "print 'then'\n  ", "(z) = 7 ", "++z\n  ", "f(z) ", "-z\n  ", "[z] "})
		return "if" + open + pick(r, c06HdrRunConds) + cl + " " + then + "else", false
	}
	for rep := 0; rep < tierN(tier, 1, 6); rep++ {
		for _, kind := range c06HdrKinds {
			for _, b := range c06HdrRunBodies {
				n++
				h, loop := header(kind)
				c06HdrRunOne(r, emit, fmt.Sprintf("hr:%d", n), h, b, loop, kind+" / "+b.class)
			}
		}
		// every condition in front of an operator-like body
		for _, e := range c06HdrRunConds {
			for _, h := range []string{"if (" + e + ")", "if (!(" + e + ")) t = 5 else", "if(" + e + ")"} {
				n++
				c06HdrRunOne(r, emit, fmt.Sprintf("hr:%d", n), h, pick(r, c06HdrRunBodies[:25]), false, "condition shapes")
			}
		}
		// loops that only test n, with every way of writing the decrement as the body
		for _, e := range c06HdrRunDecConds {
			for _, b := range c06HdrRunDecBodies {
				if chance(r, 0.5) {
					continue
				}
				n++
				h := pick(r, []string{"while (", "while(", "while ( ", "for (i = 0; ", "for (i = (0); "}) + e
				if strings.HasPrefix(h, "for") {
					h += pick(r, []string{"; i++)", "; (i++))", "; i = (i + 1))"})
				} else {
					h += ")"
				}
				c06HdrRunOne(r, emit, fmt.Sprintf("hr:%d", n), h, b, true, "loop tests n / body decrements")
			}
		}
		// nested headers
		for k := 0; k < 150; k++ {
			n++
			h1, l1 := header(pick(r, c06HdrKinds))
			h2, l2 := header(pick(r, []string{"if", "if", "else", "forin", "forin2"}))
			c06HdrRunOne(r, emit, fmt.Sprintf("hr:%d", n), h1+pick(r, []string{" ", "\n    "})+h2, pick(r, c06HdrRunBodies), l1 || l2, "two headers")
		}
		// a match statement, then a line starting with each kind of token (model decides)
		for _, b := range c06HdrRunBodies {
			if b.needs != "" {
				continue
			}
			n++
			m := pick(r, []string{"match (y) { 5 => f(1) }", "match (y) { 5 => f(10), 6 => 2 }", "r = match (y) { 5 => 10 }", "match (f(y)) { 4 => 1 }", "if (b) match (y) { 5 => ++z }"})
			prog := c06HdrRunFuncs + "{\n" + c06HdrRunInit + "  " + m + pick(r, []string{"\n  ", "\n\n  "}) + b.text + "\n  print 'after', r, " + c06HdrRunShow + "\n}\n"
			files := []File{{Name: "in.json", Data: []byte(c06HdrRunInput)}}
			emit(Case{ID: fmt.Sprintf("hr:%d/match", n), Req: RunReq(prog, nil, files, false), Fields: []string{"class", "out", "line", "col"},
				Meta: map[string]string{"program": prog, "body": b.text, "body starts with": b.class, "row": "match statement, then a line"}})
		}
	}
}

// programs with the output worked out by hand
var c06HdrKnown = [][2]string{
	{"n = 3; while (n) --n; print n", "0\n"},
	{"n = 3; while (n) { --n } print n", "0\n"},
	{"x = 1; if (x) ++y; print x, y", "1 1\n"},
	{"x = 0; if (x) ++y; print x, y", "0 <unknown>\n"},
	{"o = {k: 1}; f = 7; if (f) (o).k = 2; print o.k", "2\n"},
	{"y = 4; if (1) -y; print y", "4\n"},
	{"y = 4; if (1) +y; print y", "4\n"},
	{"n = 3; while (n) (n)--; print n", "0\n"},
	{"n = 3; while (n > 0)\n --n\n print n", "0\n"},
	{"for (i = 0; i < 3; i++) ++y; print i, y", "3 3\n"},
	{"for (x in [1, 2]) --y; print y", "-2\n"},
	{"o = {k: 0}; for (x, i in [5, 6]) (o).k = x + i; print o.k", "7\n"},
	{"if (0) y = 1 else ++y; print y", "1\n"},
	{"if (0) y = 1\n else\n --y\n print y", "-1\n"},
	{"y = 1; if (y) [y].length(); print y", "1\n"},
	{"s = 'b'; y = 2; if (y) /b/ ~ s; print y", "2\n"},
	{"if (1) if (0) ++x else --x; print x", "-1\n"},
	{"b = 2; if (1) while (b) --b; print b", "0\n"},
	{"y = 3; if (y) !y; print y", "3\n"},
	{"x = 2; y = 1; if ((x)) --y; print x, y", "2 0\n"},
	{"x = 2; y = 1; if (x - 2) --y; print x, y", "2 1\n"},
	{"x = 2; y = 1; while (x--) ++y; print x, y", "-1 3\n"},
	{"x = 2; y = 1; while ((x--)) -y; print x, y", "-1 1\n"},
	{"a = [1]; if (a) [2][0]; print a.length()", "1\n"},
	{"n = 2; if (n) print -n; print n", "-2\n2\n"},
	{"z = match (1) { 1 => 5 }\n print z", "5\n"},
	{"y = 1; z = match (1) { 1 => 5 }\n -y\n print z, y", "4 1\n"},
	{"x = 1; if (x)\n ++y\n print x, y", "1 1\n"},
	{"x = 0; if (x)\n ++y\n print x, y", "0 <unknown>\n"},
	{"x = 0; if (x)\n\n (y) = 2\n print x, y", "0 <unknown>\n"},
	{"for (x in [1, 2])\n --y\n print y", "-2\n"},
	{"for (i = 0; i < 2; i++)\n (o) = i\n print o", "1\n"},
	{"n = 2; while (n)\n [n--]\n print n", "0\n"},
}

func c06HdrBodiesKnown(r *rand.Rand, tier string, emit func(Case)) {
	for i, kv := range c06HdrKnown {
		for j, wrap := range [][2]string{{"BEGIN { ", " }\n"}, {"BEGIN {\n  ", "\n}\n"}, {"function g() { ", " }\nBEGIN { g() }\n"}} {
			prog, want := wrap[0]+kv[0]+wrap[1], kv[1]
			emit(Case{ID: fmt.Sprintf("hk:%d:%d", i, j), Req: RunReq(prog, nil, nil, false), Fields: []string{"class", "out", "line", "col"},
				Meta: map[string]string{"program": prog, "expected": want, "row": "known output"},
				Oracle: func(i Resp) string {
					if i["class"] != "ok" || string(i.Bytes("out")) != want {
						return fmt.Sprintf("%q must print %q: %s %q (%s)", prog, want, i["class"], string(i.Bytes("out")), i["msg"])
					}
					return ""
				}})
		}
	}
}

func init() {
	register(Family{
		Name: "header-bodies-parse", Prop: "C06",
		Rule: "a parenthesised statement header ends at its `)` (and `else` at the word): if / while / for(;;) / for (x in) / for (x, i in) / else / match headers over ~40 header expressions (identifier, call, member, nested groups, binary, a group or postfix operator last, a `)` inside a string or regex) and three blank styles, followed by an UNBRACED body starting with every kind of token, in particular those that also have an infix or postfix meaning (++ -- - + ( [ /), and ! $ strings literals keywords identifiers blocks match; body on the same line, on the next line, without a blank; nested headers and dangling else; `;` + statement and operator-like lines after the body; AST vs model, and (oracle) AST of `HEADER BODY` = AST of `HEADER { BODY }` without the block node",
		Gen:  c06HdrBodiesParse,
	})
	register(Family{
		Name: "header-bodies-run", Prop: "C06",
		Rule: "the same headers and unbraced bodies executed over a fixed state (counters, an object, arrays, $) with the whole state printed afterwards: conditions true and false, loops that end by their own header whatever the body is, loops that only test n with the decrement written as every kind of body (--n, (n)--, -dec(), (dec)(), [dec()], ...), two headers in a row, a match statement followed by each kind of line; output vs model, and (group) output of `HEADER BODY` = output of `HEADER { BODY }`; a table of programs with the output worked out by hand (oracle)",
		Gen: func(r *rand.Rand, tier string, emit func(Case)) {
			c06HdrBodiesKnown(r, tier, emit)
			c06HdrBodiesRun(r, tier, emit)
		},
	})
}
