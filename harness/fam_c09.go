package main

// C09 — assignment changes exactly the addressed location; reads never change
// the input; scalars are copied, arrays and objects shared.
//
// The first half of this file is an IDEAL INTERPRETER for the small part of
// jqawk that C09 and C15 talk about (values with reference semantics, member /
// index access, assignment with auto-creation and padding, ++/--, compound
// assignment, the array methods). It is written from the property texts and
// DESIGN.md section 3 — not from the Go code — and is used (a) to steer the
// generators (they know the state, so most statements are meaningful) and (b)
// as an implementation-only oracle: the expected output of every generated
// program is computed here and compared with what the real interpreter prints.
// fam_c15.go uses it too.

import (
	"encoding/json"
	"fmt"
	"math"
	"math/rand"
	"sort"
	"strconv"
	"strings"
)

// ---------------------------------------------------------------- values

type c09Val struct {
	k    byte // n number, s string, b bool, z null, u unset, a array, o object, f bound method
	n    float64
	s    string
	b    bool
	a    *c09Arr
	o    *c09Obj
	recv *c09Cell // bound method: receiver cell; s = method name
}
type c09Cell struct{ v c09Val }
type c09Arr struct{ e []*c09Cell }
type c09Obj struct{ m map[string]*c09Cell }

func c09N(f float64) c09Val { return c09Val{k: 'n', n: f} }
func c09S(s string) c09Val  { return c09Val{k: 's', s: s} }
func c09B(b bool) c09Val    { return c09Val{k: 'b', b: b} }

var c09Null = c09Val{k: 'z'}
var c09Unset = c09Val{k: 'u'}

func c09NewArr(vs ...c09Val) c09Val {
	a := &c09Arr{}
	for _, v := range vs {
		a.e = append(a.e, &c09Cell{v})
	}
	return c09Val{k: 'a', a: a}
}
func c09NewObj() c09Val { return c09Val{k: 'o', o: &c09Obj{m: map[string]*c09Cell{}}} }

func c09Fmt(f float64) string { return strconv.FormatFloat(f, 'f', -1, 64) }

// string form (concatenation, object keys)
func (v c09Val) str() string {
	switch v.k {
	case 's':
		return v.s
	case 'n':
		return c09Fmt(v.n)
	}
	return ""
}

// numeric coercion
func (v c09Val) num() float64 {
	switch v.k {
	case 'n':
		return v.n
	case 'b':
		if v.b {
			return 1
		}
		return 0
	case 's':
		f, err := strconv.ParseFloat(v.s, 64)
		if err != nil {
			return 0
		}
		return f
	}
	return 0
}

func (v c09Val) truthy() bool {
	switch v.k {
	case 'b':
		return v.b
	case 'n':
		return v.n != 0
	case 's':
		return v.s != ""
	case 'a', 'o', 'f':
		return true
	}
	return false
}

func c09Same(a, b c09Val) bool {
	if a.k != b.k {
		return false
	}
	if a.k == 'a' {
		return a.a == b.a
	}
	if a.k == 'o' {
		return a.o == b.o
	}
	return false
}

func (o *c09Obj) keys() []string {
	ks := make([]string, 0, len(o.m))
	for k := range o.m {
		ks = append(ks, k)
	}
	sort.Strings(ks)
	return ks
}

// c09Pretty is the rendering of print (strings bare at top level, quoted inside
// containers, object keys sorted, a container inside itself as a marker).
func c09Pretty(v c09Val, quote bool) string { return c09pretty(v, nil, quote, false) }

func c09pretty(v c09Val, roots []c09Val, quote, check bool) string {
	if check {
		for _, r := range roots {
			if c09Same(r, v) {
				return "<circular reference>"
			}
		}
	}
	switch v.k {
	case 's':
		if quote {
			return `"` + v.s + `"`
		}
		return v.s
	case 'n':
		return c09Fmt(v.n)
	case 'b':
		if v.b {
			return "true"
		}
		return "false"
	case 'z':
		return "null"
	case 'u':
		return "<unknown>"
	case 'f':
		return "<nativefunction>"
	case 'a':
		var sb strings.Builder
		sb.WriteByte('[')
		nr := append(append([]c09Val{}, roots...), v)
		for i, c := range v.a.e {
			if i > 0 {
				sb.WriteString(", ")
			}
			sb.WriteString(c09pretty(c.v, nr, true, true))
		}
		sb.WriteByte(']')
		return sb.String()
	case 'o':
		var sb strings.Builder
		sb.WriteByte('{')
		nr := append(append([]c09Val{}, roots...), v)
		for i, k := range v.o.keys() {
			if i > 0 {
				sb.WriteString(", ")
			}
			sb.WriteString(`"` + k + `": `)
			sb.WriteString(c09pretty(v.o.m[k].v, nr, true, true))
		}
		sb.WriteByte('}')
		return sb.String()
	}
	return "?"
}

type c09Err struct{ msg string }

func (e *c09Err) Error() string { return e.msg }
func c09E(f string, a ...interface{}) error {
	return &c09Err{fmt.Sprintf(f, a...)}
}

func c09ToGo(v c09Val, roots []c09Val, check bool) (interface{}, error) {
	if check {
		for _, r := range roots {
			if c09Same(r, v) {
				return nil, c09E("circular reference")
			}
		}
	}
	switch v.k {
	case 's':
		return v.s, nil
	case 'n':
		return v.n, nil
	case 'b':
		return v.b, nil
	case 'z', 'u':
		return nil, nil
	case 'a':
		nr := append(append([]c09Val{}, roots...), v)
		out := make([]interface{}, 0, len(v.a.e))
		for _, c := range v.a.e {
			x, err := c09ToGo(c.v, nr, true)
			if err != nil {
				return nil, err
			}
			out = append(out, x)
		}
		return out, nil
	case 'o':
		nr := append(append([]c09Val{}, roots...), v)
		out := map[string]interface{}{}
		for k, c := range v.o.m {
			x, err := c09ToGo(c.v, nr, true)
			if err != nil {
				return nil, err
			}
			out[k] = x
		}
		return out, nil
	}
	return nil, c09E("cannot be converted")
}

// c09JSON is what json(v) and -o write: Go's encoding/json, two-space indent.
func c09JSON(v c09Val) (string, error) {
	g, err := c09ToGo(v, nil, false)
	if err != nil {
		return "", err
	}
	b, err := json.MarshalIndent(g, "", "  ")
	if err != nil {
		return "", c09E("%s", err.Error())
	}
	return string(b), nil
}

func c09Decode(doc string) c09Val {
	var g interface{}
	if err := json.Unmarshal([]byte(doc), &g); err != nil {
		panic("c09Decode: bad document " + doc)
	}
	return c09FromGo(g)
}

// c09FromGo converts a decoded JSON document.
func c09FromGo(x interface{}) c09Val {
	switch t := x.(type) {
	case nil:
		return c09Null
	case bool:
		return c09B(t)
	case float64:
		return c09N(t)
	case string:
		return c09S(t)
	case []interface{}:
		a := c09NewArr()
		for _, y := range t {
			a.a.e = append(a.a.e, &c09Cell{c09FromGo(y)})
		}
		return a
	case map[string]interface{}:
		o := c09NewObj()
		for k, y := range t {
			o.o.m[k] = &c09Cell{c09FromGo(y)}
		}
		return o
	}
	panic("c09FromGo")
}

// three-way comparison of DESIGN 3.5 (callers handle unset)
func c09Compare(a, b c09Val) (int, error) {
	switch {
	case a.k == 'z' && b.k == 'z':
		return 0, nil
	case a.k == 'z':
		return -1, nil
	case b.k == 'z':
		return 1, nil
	}
	if a.k == 'a' || a.k == 'o' || b.k == 'a' || b.k == 'o' {
		return 0, c09E("cannot compare")
	}
	if a.k == 's' && b.k == 's' {
		return strings.Compare(a.s, b.s), nil
	}
	x, y := a.num(), b.num()
	if x > y {
		return 1, nil
	} else if x < y {
		return -1, nil
	}
	return 0, nil
}

// ---------------------------------------------------------------- expressions

type c09Expr interface{ text() string }

type c09Lit struct {
	v c09Val
	t string
}
type c09Var struct{ name string } // "$" is the rule root
type c09Idx struct {
	base c09Expr
	key  c09Expr
	dot  bool // written .name (key is a string literal)
}
type c09ArrLit struct{ items []c09Expr }
type c09ObjLit struct {
	keys []string
	vals []c09Expr
}
type c09Asg struct{ lhs, rhs c09Expr }
type c09Cmp struct { // lhs op= rhs
	lhs c09Expr
	op  string
	rhs c09Expr
}
type c09Inc struct {
	lhs    c09Expr
	op     string // ++ or --
	prefix bool
}
type c09Call struct { // method call recv.name(args) or user function name(args) when recv == nil
	recv c09Expr
	name string
	args []c09Expr
}
type c09Bin struct {
	op   string
	l, r c09Expr
}
type c09Par struct{ e c09Expr }

func (e *c09Lit) text() string { return e.t }
func (e *c09Var) text() string { return e.name }
func (e *c09Idx) text() string {
	if e.dot {
		return e.base.text() + "." + e.key.(*c09Lit).v.s
	}
	return e.base.text() + "[" + e.key.text() + "]"
}
func c09Join(es []c09Expr) string {
	p := make([]string, len(es))
	for i, e := range es {
		p[i] = e.text()
	}
	return strings.Join(p, ", ")
}
func (e *c09ArrLit) text() string { return "[" + c09Join(e.items) + "]" }
func (e *c09ObjLit) text() string {
	p := make([]string, len(e.keys))
	for i, k := range e.keys {
		p[i] = k + ": " + e.vals[i].text()
	}
	return "{" + strings.Join(p, ", ") + "}"
}
func (e *c09Asg) text() string { return e.lhs.text() + " = " + e.rhs.text() }
func (e *c09Cmp) text() string { return e.lhs.text() + " " + e.op + "= " + e.rhs.text() }
func (e *c09Inc) text() string {
	if e.prefix {
		return e.op + e.lhs.text()
	}
	return e.lhs.text() + e.op
}
func (e *c09Call) text() string {
	if e.recv == nil {
		return e.name + "(" + c09Join(e.args) + ")"
	}
	return e.recv.text() + "." + e.name + "(" + c09Join(e.args) + ")"
}
func (e *c09Bin) text() string { return e.l.text() + " " + e.op + " " + e.r.text() }
func (e *c09Par) text() string { return "(" + e.e.text() + ")" }

// literal constructors
func c09NumLit(f float64) *c09Lit {
	t := c09Fmt(math.Abs(f))
	if f < 0 || (f == 0 && math.Signbit(f)) {
		t = "-" + t
	}
	return &c09Lit{c09N(f), t}
}
func c09StrLit(s string) *c09Lit { return &c09Lit{c09S(s), mustStrLit(s)} }
func c09BoolLit(b bool) *c09Lit {
	if b {
		return &c09Lit{c09B(true), "true"}
	}
	return &c09Lit{c09B(false), "false"}
}
func c09NullLit() *c09Lit                { return &c09Lit{c09Null, "null"} }
func c09V(name string) *c09Var           { return &c09Var{name} }
func c09Dot(b c09Expr, k string) *c09Idx { return &c09Idx{b, &c09Lit{c09S(k), mustStrLit(k)}, true} }
func c09At(b c09Expr, k c09Expr) *c09Idx { return &c09Idx{b, k, false} }

// ---------------------------------------------------------------- statements

type c09Stmt struct {
	kind  string // print expr forin match ret block
	exprs []c09Expr
	v, iv string     // for-in variable and index variable; match binding name
	body  []*c09Stmt // for-in / match body / block
}

func c09Print(es ...c09Expr) *c09Stmt { return &c09Stmt{kind: "print", exprs: es} }
func c09Do(e c09Expr) *c09Stmt        { return &c09Stmt{kind: "expr", exprs: []c09Expr{e}} }

func (s *c09Stmt) text() string {
	switch s.kind {
	case "print":
		return "print " + c09Join(s.exprs)
	case "expr":
		return s.exprs[0].text()
	case "ret":
		return "return " + s.exprs[0].text()
	case "forin":
		h := s.v
		if s.iv != "" {
			h += ", " + s.iv
		}
		return "for (" + h + " in " + s.exprs[0].text() + ") {\n" + c09Body(s.body, "    ") + "  }"
	case "match":
		// a newline must follow the closing brace of a match expression
		return "match (" + s.exprs[0].text() + ") { " + s.v + " => {\n" + c09Body(s.body, "    ") + "  } }\n"
	}
	return "?"
}

func c09Body(ss []*c09Stmt, ind string) string {
	var sb strings.Builder
	for _, s := range ss {
		sb.WriteString(ind + s.text() + "\n")
	}
	return sb.String()
}

type c09Func struct {
	name   string
	params []string
	body   []*c09Stmt
}

func (f *c09Func) text() string {
	return "function " + f.name + "(" + strings.Join(f.params, ", ") + ") {\n" + c09Body(f.body, "  ") + "}\n"
}

// ---------------------------------------------------------------- interpreter

// a location: what evaluating an expression yields
type c09Loc struct {
	kind   byte     // c live or temporary cell; m missing member (null that remembers parent and key); f bound method; h character of a string
	cell   *c09Cell // always set (for m / h / f a temporary holding the value)
	parent *c09Loc
	key    c09Val // n or s
}

type c09Frame struct {
	vars   map[string]*c09Cell
	parent *c09Frame
	depth  int
}

type c09Interp struct {
	top   *c09Frame
	root  *c09Cell
	funcs map[string]*c09Func
	out   strings.Builder
	retV  c09Val
	steps int
	// lateStrIdx counts stores through an index of a STRING whose base had become a container by
	// the time of the store (`s[1.5] = s = {}`): the key used is the index as truncated when the
	// string was read. The Lean model keeps the untruncated number there (Value.lean getMember,
	// string branch, vs src/value.go:300-303 `fIndex := float64(index)`); reported, and until
	// the model is repaired the families that can produce the construct do not ask the model
	// about a program that executes it.
	lateStrIdx int
}

var c09ErrReturn = &c09Err{"return"}
var c09ErrUnsupported = &c09Err{"unsupported"}

func c09NewInterp(funcs ...*c09Func) *c09Interp {
	in := &c09Interp{top: &c09Frame{vars: map[string]*c09Cell{}}, funcs: map[string]*c09Func{}}
	for _, f := range funcs {
		in.funcs[f.name] = f
	}
	return in
}

func (in *c09Interp) lookup(name string) *c09Cell {
	for f := in.top; f != nil; f = f.parent {
		if c, ok := f.vars[name]; ok {
			return c
		}
	}
	c := &c09Cell{c09Unset}
	in.top.vars[name] = c
	return c
}

func c09Temp(v c09Val) *c09Loc { return &c09Loc{kind: 'c', cell: &c09Cell{v}} }

var c09ArrMethods = map[string]bool{"length": true, "push": true, "pop": true, "popfirst": true, "contains": true, "sort": true}
var c09ObjMethods = map[string]bool{"length": true, "pluck": true}
var c09StrMethods = map[string]bool{"length": true, "split": true, "lower": true, "upper": true}
var c09NumMethods = map[string]bool{"floor": true, "ceil": true, "round": true}

func c09Missing(base *c09Loc, key c09Val) *c09Loc {
	k := key
	if k.k != 'n' {
		k = c09S(key.str())
	}
	return &c09Loc{kind: 'm', cell: &c09Cell{c09Null}, parent: base, key: k}
}

func c09Proto(base *c09Loc, tbl map[string]bool, key c09Val) (*c09Loc, error) {
	if key.k != 'n' && key.k != 's' {
		return nil, c09E("objects can only be indexed with numbers or strings")
	}
	name := key.str()
	if tbl[name] {
		return &c09Loc{kind: 'f', cell: &c09Cell{c09Val{k: 'f', s: name, recv: base.cell}}, parent: base, key: c09S(name)}, nil
	}
	return c09Missing(base, key), nil
}

// array index resolution: truncation, negative from the end; ok=false before the start
func c09Resolve(n int, f float64) (int, bool) {
	i := int(f)
	if i < 0 {
		i += n
		if i < 0 {
			return 0, false
		}
	}
	return i, true
}

// member is the read side of a[k] / a.name (DESIGN 3.7): never changes a container
func (in *c09Interp) member(base *c09Loc, key c09Val) (*c09Loc, error) {
	if base.cell.v.k == 'u' {
		// nothing is set here yet: no member to find, and a read changes nothing; the unset
		// value becomes a container only when the member is assigned to (materialize)
		return c09Missing(base, key), nil
	}
	bv := base.cell.v
	switch bv.k {
	case 'a':
		if key.k != 'n' {
			return c09Proto(base, c09ArrMethods, key)
		}
		i, ok := c09Resolve(len(bv.a.e), key.n)
		if !ok {
			return nil, c09E("index out of range")
		}
		if i >= len(bv.a.e) {
			return c09Missing(base, key), nil
		}
		return &c09Loc{kind: 'c', cell: bv.a.e[i]}, nil
	case 'o':
		if key.k != 'n' && key.k != 's' {
			return nil, c09E("objects can only be indexed with numbers or strings")
		}
		if c, ok := bv.o.m[key.str()]; ok {
			if c.v.k == 'f' {
				panic("method stored in object")
			}
			return &c09Loc{kind: 'c', cell: c}, nil
		}
		return c09Proto(base, c09ObjMethods, key)
	case 's':
		if key.k != 'n' {
			return c09Proto(base, c09StrMethods, key)
		}
		i := int(key.n)
		ch := c09Null
		if i >= 0 && i < len(bv.s) {
			ch = c09S(string(rune(bv.s[i]))) // one byte, re-encoded from Latin-1
		}
		return &c09Loc{kind: 'h', cell: &c09Cell{ch}, parent: base, key: c09N(float64(i))}, nil
	case 'n':
		return c09Proto(base, c09NumMethods, key)
	}
	return c09Missing(base, key), nil
}

// setMember stores cell as member key of a container value (the write side)
func c09SetMember(cv c09Val, key c09Val, cell *c09Cell) (*c09Cell, error) {
	switch cv.k {
	case 'a':
		if key.k != 'n' {
			return nil, c09E("array indices must be numbers")
		}
		i, ok := c09Resolve(len(cv.a.e), key.n)
		if !ok {
			return nil, c09E("index out of range")
		}
		if i >= len(cv.a.e) {
			if i > 1024*1024 {
				return nil, c09E("index too large")
			}
			for len(cv.a.e) <= i {
				cv.a.e = append(cv.a.e, &c09Cell{c09Null})
			}
		}
		cv.a.e[i].v = cell.v
		return cv.a.e[i], nil
	case 'o':
		cv.o.m[key.str()] = cell
		return cell, nil
	}
	return nil, c09E("cannot set member on a scalar")
}

// materialize creates the member a missing location stands for (and, before
// it, every missing container on the way: an object for a string key, an array
// for a numeric one) and returns its cell
func (in *c09Interp) materialize(l *c09Loc) (*c09Cell, error) {
	p := l.parent
	var container c09Val
	switch p.kind {
	case 'm':
		pc, err := in.materialize(p)
		if err != nil {
			return nil, err
		}
		if l.key.k == 's' {
			pc.v = c09NewObj()
		} else {
			pc.v = c09NewArr()
		}
		container = pc.v
	case 'h':
		// a member of the null found past the end of a string. the store looks at what the base
		// of that index holds NOW: a string cannot be stored into; if the right-hand side has
		// meanwhile turned the base into a container (`s[5][0] = s = {}`), the index (truncated
		// to an integer when the string was read) is created there like any missing member
		base := p.parent.cell.v
		if p.cell.v.k != 'z' || (base.k != 'a' && base.k != 'o') {
			return nil, c09E("cannot set member on a string")
		}
		pc, err := c09SetMember(base, p.key, &c09Cell{c09Null})
		if err != nil {
			return nil, err
		}
		in.lateStrIdx++
		if l.key.k == 's' {
			pc.v = c09NewObj()
		} else {
			pc.v = c09NewArr()
		}
		container = pc.v
	default:
		if p.cell.v.k == 'u' {
			// an unset value becomes an array for a numeric key, an object otherwise
			if l.key.k == 'n' {
				p.cell.v = c09NewArr()
			} else {
				p.cell.v = c09NewObj()
			}
		}
		container = p.cell.v
		if container.k == 'z' {
			return nil, c09E("could not create this object")
		}
	}
	return c09SetMember(container, l.key, &c09Cell{c09Null})
}

func c09CopyVal(v c09Val) (c09Val, error) {
	if v.k == 'f' {
		return v, c09E("cannot copy a function")
	}
	return v, nil // scalars are values, containers are pointers: a Go struct copy is the copy-vs-share rule
}

// assign stores the value found in src at the time of the store (operands are
// cells read at use, DESIGN 4.7) into the location l
func (in *c09Interp) assign(l *c09Loc, src *c09Cell) (*c09Cell, error) {
	cell := l.cell
	switch l.kind {
	case 'm':
		c, err := in.materialize(l)
		if err != nil {
			return nil, err
		}
		cell = c
	case 'f':
		// a method name: the store goes to the receiver (an own key on objects, an error elsewhere)
		c, err := c09SetMember(l.parent.cell.v, l.key, &c09Cell{c09Null})
		if err != nil {
			return nil, err
		}
		cell = c
	case 'h':
		// a character position of a string. the store looks at what the base holds NOW: if the
		// right-hand side has meanwhile turned the base into a container (`b[2] = b = [..]`),
		// it sets that member; a string cannot be stored into
		if k := l.parent.cell.v.k; k != 'a' && k != 'o' {
			return nil, c09E("cannot set member on a string")
		}
		c, err := c09SetMember(l.parent.cell.v, l.key, &c09Cell{c09Null})
		if err != nil {
			return nil, err
		}
		in.lateStrIdx++
		cell = c
	}
	w, err := c09CopyVal(src.v)
	if err != nil {
		return nil, err
	}
	cell.v = w
	return cell, nil
}

func (in *c09Interp) evalList(es []c09Expr) ([]c09Val, error) {
	var out []c09Val
	for _, e := range es {
		l, err := in.eval(e)
		if err != nil {
			return nil, err
		}
		w, err := c09CopyVal(l.cell.v)
		if err != nil {
			return nil, err
		}
		out = append(out, w)
	}
	return out, nil
}

func (in *c09Interp) eval(e c09Expr) (*c09Loc, error) {
	in.steps++
	switch x := e.(type) {
	case *c09Lit:
		return c09Temp(x.v), nil
	case *c09Par:
		return in.eval(x.e)
	case *c09Var:
		if x.name == "$" {
			return &c09Loc{kind: 'c', cell: in.root}, nil
		}
		return &c09Loc{kind: 'c', cell: in.lookup(x.name)}, nil
	case *c09ArrLit:
		vs, err := in.evalList(x.items)
		if err != nil {
			return nil, err
		}
		return c09Temp(c09NewArr(vs...)), nil
	case *c09ObjLit:
		o := c09NewObj()
		for i, k := range x.keys {
			l, err := in.eval(x.vals[i])
			if err != nil {
				return nil, err
			}
			w, err := c09CopyVal(l.cell.v)
			if err != nil {
				return nil, err
			}
			o.o.m[k] = &c09Cell{w}
		}
		return c09Temp(o), nil
	case *c09Idx:
		b, err := in.eval(x.base)
		if err != nil {
			return nil, err
		}
		k, err := in.eval(x.key)
		if err != nil {
			return nil, err
		}
		return in.member(b, k.cell.v)
	case *c09Asg:
		l, err := in.eval(x.lhs)
		if err != nil {
			return nil, err
		}
		r, err := in.eval(x.rhs)
		if err != nil {
			return nil, err
		}
		c, err := in.assign(l, r.cell)
		if err != nil {
			return nil, err
		}
		return &c09Loc{kind: 'c', cell: c}, nil
	case *c09Cmp:
		return in.eval(&c09Asg{x.lhs, &c09Bin{x.op, x.lhs, x.rhs}})
	case *c09Inc:
		l, err := in.eval(x.lhs)
		if err != nil {
			return nil, err
		}
		old := l.cell.v.num()
		nv := old + 1
		if x.op == "--" {
			nv = old - 1
		}
		c, err := in.assign(l, &c09Cell{c09N(nv)})
		if err != nil {
			return nil, err
		}
		if x.prefix {
			return c09Temp(c.v), nil
		}
		return c09Temp(c09N(old)), nil
	case *c09Bin:
		return in.evalBin(x)
	case *c09Call:
		if x.recv == nil {
			return in.callUser(x)
		}
		fn, err := in.eval(c09Dot(x.recv, x.name))
		if err != nil {
			return nil, err
		}
		args, err := in.evalList(x.args)
		if err != nil {
			return nil, err
		}
		if fn.cell.v.k != 'f' {
			return nil, c09E("attempted to call a non-function")
		}
		v, err := c09Method(fn.cell.v.s, fn.cell.v.recv.v, args)
		if err != nil {
			return nil, err
		}
		return c09Temp(v), nil
	}
	panic(fmt.Sprintf("c09 eval: %T", e))
}

func (in *c09Interp) evalBin(x *c09Bin) (*c09Loc, error) {
	l, err := in.eval(x.l)
	if err != nil {
		return nil, err
	}
	switch x.op {
	case "&&":
		if !l.cell.v.truthy() {
			return c09Temp(c09B(false)), nil
		}
		r, err := in.eval(x.r)
		if err != nil {
			return nil, err
		}
		return c09Temp(c09B(r.cell.v.truthy())), nil
	case "||":
		if l.cell.v.truthy() {
			return c09Temp(c09B(true)), nil
		}
		r, err := in.eval(x.r)
		if err != nil {
			return nil, err
		}
		return c09Temp(c09B(r.cell.v.truthy())), nil
	}
	r, err := in.eval(x.r)
	if err != nil {
		return nil, err
	}
	a, b := l.cell.v, r.cell.v // values are read when the operator is applied
	switch x.op {
	case "+":
		if a.k == 's' || b.k == 's' {
			return c09Temp(c09S(a.str() + b.str())), nil
		}
		return c09Temp(c09N(a.num() + b.num())), nil
	case "-":
		return c09Temp(c09N(a.num() - b.num())), nil
	case "*":
		return c09Temp(c09N(a.num() * b.num())), nil
	case "/":
		if b.num() == 0 {
			return nil, c09E("divide by zero")
		}
		return c09Temp(c09N(a.num() / b.num())), nil
	case "==", "!=", "<", "<=", ">", ">=":
		if a.k == 'u' || b.k == 'u' {
			return c09Temp(c09B(x.op == "<" || x.op == ">")), nil
		}
		c, err := c09Compare(a, b)
		if err != nil {
			return nil, err
		}
		var res bool
		switch x.op {
		case "==":
			res = c == 0
		case "!=":
			res = c != 0
		case "<":
			res = c < 0
		case "<=":
			res = c <= 0
		case ">":
			res = c > 0
		case ">=":
			res = c >= 0
		}
		return c09Temp(c09B(res)), nil
	}
	panic("c09 bin op " + x.op)
}

func (in *c09Interp) callUser(x *c09Call) (*c09Loc, error) {
	f := in.funcs[x.name]
	if f == nil && x.name != "num" {
		panic("c09: unknown function " + x.name)
	}
	args, err := in.evalList(x.args)
	if err != nil {
		return nil, err
	}
	if f == nil {
		// the builtin num(): numbers are truncated, numeric strings parsed, anything else is null
		if len(args) != 1 {
			return nil, c09E("expected 1 argument(s)")
		}
		switch args[0].k {
		case 'n':
			if math.IsNaN(args[0].n) || math.Abs(args[0].n) >= 1<<63 {
				panic("c09: num() of a number outside the integer range is not defined by the ideal interpreter")
			}
			return c09Temp(c09N(math.Trunc(args[0].n) + 0)), nil
		case 's':
			if v, err := strconv.ParseFloat(args[0].s, 64); err == nil {
				return c09Temp(c09N(v)), nil
			}
		}
		return c09Temp(c09Null), nil
	}
	saved := in.top
	in.top = &c09Frame{vars: map[string]*c09Cell{}, parent: saved, depth: saved.depth + 1}
	defer func() { in.top = saved }()
	for i, p := range f.params {
		if i < len(args) {
			in.top.vars[p] = &c09Cell{args[i]}
		} else {
			in.top.vars[p] = &c09Cell{c09Null}
		}
	}
	err = in.execAll(f.body)
	if err == c09ErrReturn {
		return c09Temp(in.retV), nil
	}
	if err != nil {
		return nil, err
	}
	return c09Temp(c09Null), nil
}

// c09Method: the array methods as operations on an ideal list (C15), and length of strings / objects
func c09Method(name string, this c09Val, args []c09Val) (c09Val, error) {
	argc := func(n int) error {
		if len(args) != n {
			return c09E("expected %d argument(s)", n)
		}
		return nil
	}
	if name == "length" {
		switch this.k {
		case 'a':
			return c09N(float64(len(this.a.e))), nil
		case 'o':
			return c09N(float64(len(this.o.m))), nil
		case 's':
			return c09N(float64(len(this.s))), nil
		}
		return c09N(0), nil
	}
	if !c09ArrMethods[name] {
		panic("c09Method: " + name + " is not part of the ideal interpreter")
	}
	if this.k != 'a' {
		return c09Null, nil // a method detached from its array answers null
	}
	l := this.a
	switch name {
	case "push":
		if err := argc(1); err != nil {
			return c09Null, err
		}
		l.e = append(l.e, &c09Cell{args[0]})
		return this, nil
	case "pop":
		if err := argc(0); err != nil {
			return c09Null, err
		}
		if len(l.e) == 0 {
			return c09Null, nil
		}
		v := l.e[len(l.e)-1].v
		l.e = l.e[:len(l.e)-1]
		return v, nil
	case "popfirst":
		if err := argc(0); err != nil {
			return c09Null, err
		}
		if len(l.e) == 0 {
			return c09Null, nil
		}
		v := l.e[0].v
		l.e = l.e[1:]
		return v, nil
	case "contains":
		if err := argc(1); err != nil {
			return c09Null, err
		}
		for _, c := range l.e {
			if args[0].k == 'u' || c.v.k == 'u' {
				continue
			}
			r, err := c09Compare(args[0], c.v)
			if err != nil {
				return c09Null, err
			}
			if r == 0 {
				return c09B(true), nil
			}
		}
		return c09B(false), nil
	case "sort":
		onlyNum := true
		for _, c := range l.e {
			if c.v.k != 'n' {
				onlyNum = false
			}
		}
		cp := make([]c09Val, len(l.e))
		for i, c := range l.e {
			cp[i] = c.v
		}
		// insertion sort: stable by construction
		less := func(a, b c09Val) bool {
			if onlyNum {
				// NaN sorts before every number, -0 equals +0
				if math.IsNaN(a.n) {
					return !math.IsNaN(b.n)
				}
				return a.n < b.n
			}
			return a.str() < b.str()
		}
		for i := 1; i < len(cp); i++ {
			for j := i; j > 0 && less(cp[j], cp[j-1]); j-- {
				cp[j], cp[j-1] = cp[j-1], cp[j]
			}
		}
		return c09NewArr(cp...), nil
	}
	panic("c09Method")
}

func (in *c09Interp) execAll(ss []*c09Stmt) error {
	for _, s := range ss {
		if err := in.exec(s); err != nil {
			return err
		}
	}
	return nil
}

func (in *c09Interp) exec(s *c09Stmt) error {
	switch s.kind {
	case "print":
		// every argument is evaluated before anything is rendered (a later argument's side effect shows in an earlier one)
		var locs []*c09Loc
		for _, e := range s.exprs {
			l, err := in.eval(e)
			if err != nil {
				return err
			}
			locs = append(locs, l)
		}
		parts := make([]string, len(locs))
		for i, l := range locs {
			parts[i] = c09Pretty(l.cell.v, false)
		}
		in.out.WriteString(strings.Join(parts, " ") + "\n")
		return nil
	case "expr":
		_, err := in.eval(s.exprs[0])
		return err
	case "ret":
		l, err := in.eval(s.exprs[0])
		if err != nil {
			return err
		}
		in.retV = l.cell.v
		return c09ErrReturn
	case "block":
		return in.execAll(s.body)
	case "forin":
		loc := in.lookup(s.v)
		var iloc *c09Cell
		if s.iv != "" {
			iloc = in.lookup(s.iv)
		}
		it, err := in.eval(s.exprs[0])
		if err != nil {
			return err
		}
		switch it.cell.v.k {
		case 'a':
			items := append([]*c09Cell{}, it.cell.v.a.e...)
			for i, c := range items {
				if iloc != nil {
					iloc.v = c09N(float64(i))
				}
				loc.v = c.v
				if err := in.execAll(s.body); err != nil {
					return err
				}
			}
		case 'o':
			o := it.cell.v.o
			for _, k := range o.keys() {
				if iloc != nil {
					iloc.v = o.m[k].v
				}
				loc.v = c09S(k)
				if err := in.execAll(s.body); err != nil {
					return err
				}
			}
		case 's':
			// the characters of a string, with their byte offsets
			for off, ch := range it.cell.v.s {
				if iloc != nil {
					iloc.v = c09N(float64(off))
				}
				loc.v = c09S(string(ch))
				if err := in.execAll(s.body); err != nil {
					return err
				}
			}
		default:
			return c09E("not iterable")
		}
		return nil
	case "match":
		l, err := in.eval(s.exprs[0])
		if err != nil {
			return err
		}
		if l.kind != 'c' {
			// binding a missing member: outside what the ideal interpreter defines
			return c09ErrUnsupported
		}
		saved := in.top
		in.top = &c09Frame{vars: map[string]*c09Cell{s.v: l.cell}, parent: saved, depth: saved.depth + 1}
		defer func() { in.top = saved }()
		return in.execAll(s.body)
	}
	panic("c09 exec " + s.kind)
}

// ---------------------------------------------------------------- programs

type c09Prog struct {
	funcs []*c09Func
	body  []*c09Stmt // the body of the single pattern-less rule
}

func (p *c09Prog) text() string {
	var sb strings.Builder
	for _, f := range p.funcs {
		sb.WriteString(f.text())
	}
	sb.WriteString("{\n" + c09Body(p.body, "  ") + "}\n")
	return sb.String()
}

// c09Run computes what the program must print on the document (object root: the
// rule runs once with $ = root; array root: once per element with $ = element),
// the outcome class and what -o writes.
func c09Run(p *c09Prog, doc string) (class, out, js string) {
	var g interface{}
	if err := json.Unmarshal([]byte(doc), &g); err != nil {
		panic("c09Run: bad document " + doc)
	}
	in := c09NewInterp(p.funcs...)
	root := &c09Cell{c09FromGo(g)}
	cells := []*c09Cell{root}
	if root.v.k == 'a' {
		cells = append([]*c09Cell{}, root.v.a.e...)
	}
	for _, c := range cells {
		in.root = c
		if err := in.execAll(p.body); err != nil {
			if err == c09ErrUnsupported {
				return "unsupported", "", ""
			}
			return "runtime", in.out.String(), ""
		}
	}
	j, err := c09JSON(root.v)
	if err != nil {
		return "ok", in.out.String(), "ERR"
	}
	return "ok", in.out.String(), j
}

// c09IdealOracle compares the implementation's answer with the ideal interpreter's
func c09IdealOracle(class, out, js string, withJSON bool) func(Resp) string {
	if class == "unsupported" {
		return nil
	}
	return func(i Resp) string {
		if i["class"] != class {
			return fmt.Sprintf("ideal interpreter: class %s expected, implementation says %s (msg %s)", class, i["class"], i["msg"])
		}
		if got := string(i.Bytes("out")); got != out {
			return fmt.Sprintf("output differs from the ideal interpreter: %s", c09FirstDiff(got, out))
		}
		if withJSON && class == "ok" {
			got := string(i.Bytes("json"))
			if js == "ERR" {
				if i["json"] != "ERR" {
					return "ideal interpreter: -o must fail (circular / unsupported value)"
				}
			} else if got != js {
				return fmt.Sprintf("-o differs from the ideal interpreter: %s", c09FirstDiff(got, js))
			}
		}
		return ""
	}
}

func c09FirstDiff(got, want string) string {
	gl, wl := strings.Split(got, "\n"), strings.Split(want, "\n")
	for i := 0; i < len(gl) || i < len(wl); i++ {
		g, w := "<none>", "<none>"
		if i < len(gl) {
			g = gl[i]
		}
		if i < len(wl) {
			w = wl[i]
		}
		if g != w {
			ctx := ""
			for j := i - 1; j >= 0 && !strings.HasPrefix(gl[j], "@@"); j-- {
				ctx = gl[j]
			}
			_ = ctx
			mark := ""
			for j := i; j >= 0; j-- {
				if j < len(wl) && strings.HasPrefix(wl[j], "@@") {
					mark = wl[j]
					break
				}
			}
			return fmt.Sprintf("line %d (after marker %s): got %q, want %q", i+1, mark, g, w)
		}
	}
	return "?"
}

var c09Helpers = []*c09Func{
	{"setm", []string{"o", "k", "v"}, []*c09Stmt{c09Do(&c09Asg{c09At(c09V("o"), c09V("k")), c09V("v")})}},
	{"setv", []string{"x", "v"}, []*c09Stmt{c09Do(&c09Asg{c09V("x"), c09V("v")}), {kind: "ret", exprs: []c09Expr{c09V("x")}}}},
	{"inc", []string{"x"}, []*c09Stmt{c09Do(&c09Inc{c09V("x"), "++", false}), {kind: "ret", exprs: []c09Expr{c09V("x")}}}},
	{"psh", []string{"l", "v"}, []*c09Stmt{c09Do(&c09Call{c09V("l"), "push", []c09Expr{c09V("v")}}), {kind: "ret", exprs: []c09Expr{&c09Call{c09V("l"), "length", nil}}}}},
}

var c09Names = []string{"x", "y", "z", "k", "list", "n", "s", "o"}
var c09VarNames = []string{"a", "b", "c", "d"}

// c09GenDoc: a JSON document over a small key pool so that random paths hit existing members
func c09GenDoc(r *rand.Rand, depth int, forceObj bool) string {
	k := r.Intn(10)
	if forceObj {
		k = 9
	}
	if depth >= 3 && k >= 6 {
		k = r.Intn(6)
	}
	switch k {
	case 0:
		return "null"
	case 1:
		return pick(r, []string{"true", "false"})
	case 2, 3:
		return pick(r, []string{"0", "1", "2", "7", "-3", "2.5", "10", "1e3", "0.1", "-0"})
	case 4, 5:
		return jsonString(pick(r, []string{"", "s", "abc", "10", "é", "a b", "x"}))
	case 6, 7:
		n := r.Intn(5)
		parts := make([]string, n)
		for i := range parts {
			parts[i] = c09GenDoc(r, depth+1, false)
		}
		return "[" + strings.Join(parts, ", ") + "]"
	default:
		n := r.Intn(5)
		if forceObj {
			n = 2 + r.Intn(5)
		}
		keys := append([]string{}, c09Names...)
		keys = append(keys, "length", "10", "1")
		r.Shuffle(len(keys), func(i, j int) { keys[i], keys[j] = keys[j], keys[i] })
		parts := make([]string, n)
		for i := range parts {
			parts[i] = jsonString(keys[i]) + ": " + c09GenDoc(r, depth+1, false)
		}
		return "{" + strings.Join(parts, ", ") + "}"
	}
}

func c09ScalarLit(r *rand.Rand) c09Expr {
	switch r.Intn(10) {
	case 0, 1, 2, 3:
		return c09NumLit(pick(r, []float64{0, 1, 2, 5, 7, 100, 2.5, 0.5}))
	case 4:
		return &c09Par{c09NumLit(pick(r, []float64{-1, -3, -2.5}))}
	case 5, 6, 7:
		return c09StrLit(pick(r, []string{"", "s", "t", "10", "é", "a b", "3.5"}))
	case 8:
		return c09BoolLit(chance(r, 0.5))
	}
	return c09NullLit()
}

type c09Gen struct {
	r     *rand.Rand
	in    *c09Interp // scratch interpreter holding the state reached so far
	fresh int
	errOK float64 // probability with which a choice that must fail is allowed
}

// peek at a member without touching anything
func c09Peek(v c09Val, exists bool, key c09Val) (c09Val, bool) {
	if !exists {
		return c09Null, false
	}
	switch v.k {
	case 'a':
		if key.k != 'n' {
			return c09Null, false
		}
		i, ok := c09Resolve(len(v.a.e), key.n)
		if !ok || i >= len(v.a.e) {
			return c09Null, false
		}
		return v.a.e[i].v, true
	case 'o':
		if c, ok := v.o.m[key.str()]; ok {
			return c.v, true
		}
	}
	return c09Null, false
}

// a key expression for one path step, chosen by looking at the value the path has reached
func (g *c09Gen) genKey(cur c09Val, exists bool) (c09Expr, bool) {
	r := g.r
	strKey := func(k string) (c09Expr, bool) {
		ident := true
		for i := 0; i < len(k); i++ {
			c := k[i]
			if !(c >= 'a' && c <= 'z' || c >= 'A' && c <= 'Z' || c == '_' || (i > 0 && c >= '0' && c <= '9')) {
				ident = false
			}
		}
		if ident && k != "" && chance(r, 0.7) {
			return &c09Lit{c09S(k), mustStrLit(k)}, true
		}
		return c09StrLit(k), false
	}
	numKey := func(f float64) (c09Expr, bool) {
		if f >= 0 && f == math.Trunc(f) && chance(r, 0.08) {
			// an index computed by an expression
			return &c09Bin{"+", c09NumLit(f), c09NumLit(0)}, false
		}
		return c09NumLit(f), false
	}
	if exists && cur.k == 'o' {
		keys := cur.o.keys()
		x := r.Float64()
		switch {
		case x < 0.55 && len(keys) > 0:
			k := pick(r, keys)
			if _, err := strconv.ParseFloat(k, 64); err == nil && chance(r, 0.5) {
				f, _ := strconv.ParseFloat(k, 64)
				if c09Fmt(f) == k {
					return numKey(f) // o[10] is member "10"
				}
			}
			return strKey(k)
		case x < 0.85:
			return strKey(pick(r, c09Names))
		case x < 0.95:
			return numKey(pick(r, []float64{0, 1, 1.5, 10, -1}))
		default:
			return strKey(pick(r, []string{"length", "pluck"}))
		}
	}
	if exists && cur.k == 'a' {
		n := len(cur.a.e)
		x := r.Float64()
		switch {
		case x < 0.35 && n > 0:
			return numKey(float64(r.Intn(n)))
		case x < 0.47:
			return numKey(float64(n))
		case x < 0.57:
			return numKey(float64(n + 1 + r.Intn(3)))
		case x < 0.72 && n > 0:
			return numKey(float64(-1 - r.Intn(n)))
		case x < 0.82 && n > 0:
			return numKey(float64(r.Intn(n)) + pick(r, []float64{0.9, 0.5, 0.1}))
		case x < 0.85:
			return numKey(pick(r, []float64{-0.5, -0.9}))
		case x < 0.88 && n > 0:
			return numKey(-float64(r.Intn(n)) - 1.5 + 0.5*float64(r.Intn(2)))
		case x < 0.88+0.06*g.errOK:
			return numKey(float64(-n - 1 - r.Intn(2)))
		case x < 0.88+0.10*g.errOK:
			return strKey(pick(r, []string{"x", "length", "push", "0"}))
		default:
			return numKey(float64(r.Intn(n + 2)))
		}
	}
	// missing, unset, or a scalar: any key
	if chance(r, 0.6) {
		return strKey(pick(r, c09Names))
	}
	return numKey(pick(r, []float64{0, 0, 1, 2, 3, 1.5}))
}

// genPath: base and 0..maxDepth steps; wantKind restricts where the path may end
// ('a' an existing array, 'o' an existing object, 'n' an existing number, 'c' an existing container, 0 anything)
func (g *c09Gen) genPath(minDepth, maxDepth int, wantKind byte) c09Expr {
	r := g.r
	for try := 0; try < 40; try++ {
		var base c09Expr
		var cur c09Val
		exists := true
		x := r.Float64()
		switch {
		case x < 0.42:
			base, cur = c09V("$"), g.in.root.v
		case x < 0.94 || wantKind != 0:
			name := pick(r, c09VarNames)
			base, cur = c09V(name), g.in.lookup(name).v
		default:
			g.fresh++
			base, cur = c09V(fmt.Sprintf("u%d", g.fresh)), c09Unset
		}
		e := base
		depth := minDepth + r.Intn(maxDepth-minDepth+1)
		for d := 0; d < depth; d++ {
			scalar := exists && cur.k != 'a' && cur.k != 'o' && cur.k != 'u'
			if scalar && !chance(r, 0.12*g.errOK) {
				break
			}
			k, dot := g.genKey(cur, exists)
			kv := g.constVal(k)
			if exists && cur.k == 'u' {
				exists = false
			}
			cur, exists = c09Peek(cur, exists, kv)
			e = &c09Idx{e, k, dot}
			if d+1 >= minDepth && wantKind != 0 && exists && c09KindOK(cur, wantKind) && chance(r, 0.6) {
				break
			}
		}
		if wantKind == 0 {
			if _, isVar := e.(*c09Var); isVar && minDepth > 0 {
				continue
			}
			return e
		}
		if exists && c09KindOK(cur, wantKind) {
			return e
		}
	}
	if wantKind == 0 {
		return c09Dot(c09V("$"), "x")
	}
	return nil
}

func c09KindOK(v c09Val, want byte) bool {
	if want == 'c' {
		return v.k == 'a' || v.k == 'o'
	}
	return v.k == want
}

// the value of a constant key expression
func (g *c09Gen) constVal(e c09Expr) c09Val {
	switch x := e.(type) {
	case *c09Lit:
		return x.v
	case *c09Bin:
		return c09N(g.constVal(x.l).n + g.constVal(x.r).n)
	}
	panic("c09 constVal")
}

func (g *c09Gen) genRHS() c09Expr {
	r := g.r
	x := r.Float64()
	switch {
	case x < 0.5:
		return c09ScalarLit(r)
	case x < 0.7:
		switch r.Intn(7) {
		case 0:
			return &c09ArrLit{}
		case 1:
			return &c09ObjLit{}
		case 2:
			return &c09ArrLit{[]c09Expr{c09ScalarLit(r), c09ScalarLit(r)}}
		case 3:
			return &c09ObjLit{[]string{pick(r, c09Names)}, []c09Expr{c09ScalarLit(r)}}
		case 4:
			return &c09ArrLit{[]c09Expr{c09V(pick(r, c09VarNames)), c09ScalarLit(r)}}
		case 5:
			return &c09ObjLit{[]string{"x", "list"}, []c09Expr{c09ScalarLit(r), &c09ArrLit{[]c09Expr{c09ScalarLit(r)}}}}
		default:
			return &c09ObjLit{[]string{pick(r, c09Names)}, []c09Expr{c09V(pick(r, c09VarNames))}}
		}
	case x < 0.85:
		return c09V(pick(r, c09VarNames))
	default:
		return g.genPath(1, 3, 0)
	}
}

// genStmt: one statement (possibly printing its result) chosen with the state in view
func (g *c09Gen) genStmt() []*c09Stmt {
	r := g.r
	x := r.Float64()
	one := func(e c09Expr) []*c09Stmt { return []*c09Stmt{c09Do(e)} }
	switch {
	case x < 0.30:
		return one(&c09Asg{g.genPath(0, 4, 0), g.genRHS()})
	case x < 0.33:
		// chained assignment, right-associative
		return one(&c09Asg{g.genPath(0, 3, 0), &c09Asg{g.genPath(0, 3, 0), g.genRHS()}})
	case x < 0.36:
		// the value of an assignment
		return []*c09Stmt{c09Print(c09StrLit("r"), &c09Par{&c09Asg{g.genPath(0, 3, 0), g.genRHS()}})}
	case x < 0.48:
		var p c09Expr
		if chance(r, 0.6) {
			p = g.genPath(0, 4, 'n')
		}
		if p == nil {
			p = g.genPath(0, 4, 0)
		}
		op := pick(r, []string{"+", "+", "-", "*", "/"})
		var rhs c09Expr = c09ScalarLit(r)
		if chance(r, 0.2) {
			rhs = g.genPath(0, 2, 0)
		}
		if op == "/" && !chance(r, g.errOK*0.3) {
			rhs = c09NumLit(pick(r, []float64{2, 4, 0.5}))
		}
		return one(&c09Cmp{p, op, rhs})
	case x < 0.60:
		var p c09Expr
		if chance(r, 0.6) {
			p = g.genPath(0, 4, 'n')
		}
		if p == nil {
			p = g.genPath(0, 4, 0)
		}
		return []*c09Stmt{c09Print(c09StrLit("r"), &c09Inc{p, pick(r, []string{"++", "--"}), chance(r, 0.5)})}
	case x < 0.70:
		p := g.genPath(0, 3, 'a')
		if p == nil {
			return g.genStmt()
		}
		switch r.Intn(4) {
		case 0, 1:
			return one(&c09Call{p, "push", []c09Expr{g.genRHS()}})
		case 2:
			return []*c09Stmt{c09Print(c09StrLit("r"), &c09Call{p, "pop", nil})}
		default:
			return []*c09Stmt{c09Print(c09StrLit("r"), &c09Call{p, "popfirst", nil})}
		}
	case x < 0.78:
		// a parameter: containers shared with the caller, scalars copied
		switch r.Intn(4) {
		case 0:
			p := g.genPath(0, 3, 'c')
			if p == nil {
				return g.genStmt()
			}
			cur, _ := g.in.eval(p)
			k, _ := g.genKey(cur.cell.v, true)
			return one(&c09Call{nil, "setm", []c09Expr{p, k, g.genRHS()}})
		case 1:
			return []*c09Stmt{c09Print(c09StrLit("r"), &c09Call{nil, "setv", []c09Expr{g.genPath(0, 3, 0), g.genRHS()}})}
		case 2:
			return []*c09Stmt{c09Print(c09StrLit("r"), &c09Call{nil, "inc", []c09Expr{g.genPath(0, 3, 0)}})}
		default:
			p := g.genPath(0, 3, 'a')
			if p == nil {
				return g.genStmt()
			}
			return []*c09Stmt{c09Print(c09StrLit("r"), &c09Call{nil, "psh", []c09Expr{p, g.genRHS()}})}
		}
	case x < 0.85:
		// a for-in variable: a raw copy of the element (containers shared)
		p := g.genPath(0, 3, 'a')
		if p == nil {
			return g.genStmt()
		}
		l, _ := g.in.eval(p)
		allObj, allArr := len(l.cell.v.a.e) > 0, len(l.cell.v.a.e) > 0
		for _, c := range l.cell.v.a.e {
			if c.v.k != 'o' {
				allObj = false
			}
			if c.v.k != 'a' || c.v.a == l.cell.v.a {
				allArr = false
			}
		}
		var body []*c09Stmt
		switch {
		case allObj && chance(r, 0.8):
			body = []*c09Stmt{c09Do(&c09Asg{c09Dot(c09V("e"), pick(r, c09Names)), g.genRHS()})}
		case allArr && chance(r, 0.8):
			if chance(r, 0.5) {
				body = []*c09Stmt{c09Do(&c09Asg{c09At(c09V("e"), c09NumLit(float64(r.Intn(3)))), c09ScalarLit(r)})}
			} else {
				body = []*c09Stmt{c09Do(&c09Call{c09V("e"), "push", []c09Expr{c09ScalarLit(r)}})}
			}
		case chance(r, 0.5):
			body = []*c09Stmt{c09Do(&c09Asg{c09V("e"), c09ScalarLit(r)})}
		default:
			// element write (not structural) through the iterated path itself
			return []*c09Stmt{{kind: "forin", v: "e", iv: "i", exprs: []c09Expr{p}, body: []*c09Stmt{c09Do(&c09Asg{c09At(p, c09V("i")), &c09ArrLit{[]c09Expr{c09V("e"), c09V("i")}}})}}}
		}
		return []*c09Stmt{{kind: "forin", v: "e", exprs: []c09Expr{p}, body: body}}
	case x < 0.92:
		// a match binding is the subject's own cell
		p := g.genPath(0, 3, pick(r, []byte{'c', 'n', 'a', 'o'}))
		if p == nil {
			return g.genStmt()
		}
		l, _ := g.in.eval(p)
		var body c09Expr
		switch {
		case l.cell.v.k == 'o' && chance(r, 0.7):
			body = &c09Asg{c09Dot(c09V("p"), pick(r, c09Names)), g.genRHS()}
		case l.cell.v.k == 'a' && chance(r, 0.7):
			body = &c09Asg{c09At(c09V("p"), c09NumLit(float64(r.Intn(len(l.cell.v.a.e)+2)))), g.genRHS()}
		case l.cell.v.k == 'n' && chance(r, 0.5):
			body = &c09Inc{c09V("p"), "++", chance(r, 0.5)}
		default:
			body = &c09Asg{c09V("p"), g.genRHS()}
		}
		return []*c09Stmt{{kind: "match", v: "p", exprs: []c09Expr{p}, body: []*c09Stmt{c09Do(body)}}}
	default:
		// a read, in range or not: nothing may change
		return []*c09Stmt{c09Print(c09StrLit("r"), g.genPath(1, 4, 0))}
	}
}

func c09DumpStmts(k int) []*c09Stmt {
	vars := []c09Expr{}
	for _, n := range c09VarNames {
		vars = append(vars, c09V(n))
	}
	vars = append(vars, c09V("e"))
	return []*c09Stmt{c09Print(c09StrLit(fmt.Sprintf("@@%d", k))), c09Print(c09V("$")), c09Print(&c09ArrLit{vars})}
}

// c09GenProgram: initial variables (with aliases), then statements, the whole state dumped after each
func c09GenProgram(r *rand.Rand, doc string, nStmts int, errOK float64) *c09Prog {
	var gdoc interface{}
	json.Unmarshal([]byte(doc), &gdoc)
	g := &c09Gen{r: r, in: c09NewInterp(c09Helpers...), errOK: errOK}
	root := &c09Cell{c09FromGo(gdoc)}
	g.in.root = root
	if root.v.k == 'a' {
		if len(root.v.a.e) == 0 {
			panic("c09GenProgram: empty array root")
		}
		g.in.root = root.v.a.e[0]
	}
	p := &c09Prog{funcs: c09Helpers}
	add := func(ss ...*c09Stmt) bool {
		for _, s := range ss {
			p.body = append(p.body, s)
			if err := g.in.exec(s); err != nil {
				return false
			}
		}
		return true
	}
	for _, name := range c09VarNames {
		x := r.Float64()
		var rhs c09Expr
		switch {
		case x < 0.15:
			continue // stays unset
		case x < 0.40:
			rhs = c09ScalarLit(r)
		case x < 0.55:
			rhs = &c09ArrLit{[]c09Expr{c09ScalarLit(r), c09ScalarLit(r), c09ScalarLit(r)}[:r.Intn(4)]}
		case x < 0.68:
			rhs = &c09ObjLit{[]string{"x", "y", "list"}[:r.Intn(4)], []c09Expr{c09ScalarLit(r), &c09ObjLit{[]string{"k"}, []c09Expr{c09ScalarLit(r)}}, &c09ArrLit{[]c09Expr{c09ScalarLit(r), c09ScalarLit(r)}}}}
			rhs.(*c09ObjLit).vals = rhs.(*c09ObjLit).vals[:len(rhs.(*c09ObjLit).keys)]
		case x < 0.80:
			rhs = c09V(pick(r, c09VarNames)) // an alias (or a copy, for scalars)
		case x < 0.90:
			rhs = &c09ArrLit{[]c09Expr{&c09ObjLit{[]string{"x"}, []c09Expr{c09ScalarLit(r)}}, &c09ObjLit{[]string{"y"}, []c09Expr{c09ScalarLit(r)}}}}
		default:
			rhs = g.genPath(0, 2, 0) // an alias into the document
		}
		if !add(c09Do(&c09Asg{c09V(name), rhs})) {
			return p
		}
	}
	if !add(c09DumpStmts(0)...) {
		return p
	}
	for k := 1; k <= nStmts; k++ {
		if !add(g.genStmt()...) {
			return p
		}
		if !add(c09DumpStmts(k)...) {
			return p
		}
	}
	return p
}

func c09NT(i Resp) bool { return i["class"] == "ok" || i["class"] == "runtime" }

func init() {
	register(Family{
		Name: "assign-seq-ideal", Prop: "C09",
		Rule: "statement sequences chosen with the current state in view (assignment / compound / ++ -- / push pop popfirst / parameter, for-in and match aliases / reads) over a document and variables a..e with aliases; $ and every variable dumped after each statement, -o requested; oracle: an ideal interpreter written from the property computes the whole expected output and -o; non-trivial = distinct program ending ok or in a runtime error",
		Gen: func(r *rand.Rand, tier string, emit func(Case)) {
			n := tierN(tier, 4000, 60000)
			for i := 0; i < n; i++ {
				doc := c09GenDoc(r, 0, true)
				if chance(r, 0.12) {
					// array root: the rule runs once per element, $ is the element
					doc = "[" + doc
					for k := r.Intn(2); k > 0; k-- {
						doc += ", " + c09GenDoc(r, 0, true)
					}
					doc += "]"
				}
				ns := 1 + r.Intn(tierN(tier, 8, 14))
				p := c09GenProgram(r, doc, ns, pick(r, []float64{0, 0.3, 1}))
				class, out, js := c09Run(p, doc)
				prog := p.text()
				emit(Case{Req: RunReq(prog, nil, []File{{Name: "in.json", Data: []byte(doc)}}, true),
					Fields: []string{"class", "out", "json"}, Meta: metaProg(prog, "input", doc, "ideal_class", class),
					Oracle: c09IdealOracle(class, out, js, true), NonTrivial: c09NT})
			}
		},
	})
}

// ---------------------------------------------------------------- read-only programs

// c09ReadExpr: an expression without assignment or mutating method over a path into the document
func c09ReadExpr(g *c09Gen) string {
	r := g.r
	p := g.genPath(1, 4, 0)
	l, err := g.in.eval(p) // reads only: the scratch state never changes
	kind := byte('z')
	if err == nil {
		kind = l.cell.v.k
	}
	P := p.text()
	if chance(r, 0.25) {
		return P
	}
	if chance(r, 0.6) {
		switch kind {
		case 'a':
			return P + pick(r, []string{".length()", ".contains(1)", ".contains('s')", ".sort()", ".sort().length()", "[0]", "[-1]", "[99]", ".contains(" + P + ".length())"})
		case 'o':
			return P + pick(r, []string{".length()", ".pluck('x', 'y')", ".pluck('nope')", ".pluck('x').x", ".x", "['y']", ".nope.deeper.still"})
		case 's':
			return P + pick(r, []string{".length()", ".split('')", ".split('a')", ".upper()", ".lower()", "[0]", "[7]", "[-1]", " + 'x'", " ~ 'a'", ".split('').length()"})
		case 'n':
			return P + pick(r, []string{".floor()", ".ceil()", ".round()", " + 1", " * 2", " - 0.5", " / 4", " % 3", " < 3", " == 1"})
		}
	}
	q := g.genPath(1, 3, 0).text()
	return pick(r, []string{
		"-" + P, "!" + P, "+" + P, P + " == null", P + " is array", P + " is object", P + " is unknown", P + " && " + q, P + " || " + q,
		P + " + " + q, "json(" + P + ")", "num(" + P + ")", P + " != " + q, "[" + P + ", " + q + "]", "{k: " + P + "}",
		P + ".length()", P + "[0]", P + "[5]", P + "[-1]", P + ".x", "rd(" + P + ", 9)", "rd(" + P + ", 'x')", "rd(" + P + ", -1)",
		"match (" + P + ") { 1 => 'one', [x] => x, [x, y] => y, 's' => 'str', q => q }",
		"match (" + P + ") { [x, y, z] => [z, y, x], [] => 'empty', null => 'null' }",
	})
}

func c09ReadStmt(g *c09Gen) string {
	r := g.r
	switch r.Intn(8) {
	case 0, 1, 2:
		return "print " + c09ReadExpr(g)
	case 3:
		return "print " + c09ReadExpr(g) + ", " + c09ReadExpr(g)
	case 4:
		e := c09ReadExpr(g)
		if strings.HasPrefix(e, "match") {
			return "print " + e
		}
		return pick(r, []string{"v", "w"}) + " = " + e + "; print v, w"
	case 5:
		p := g.genPath(0, 3, pick(r, []byte{'a', 'o', 'c'}))
		if p == nil {
			return "print " + c09ReadExpr(g)
		}
		if chance(r, 0.5) {
			return "for (it in " + p.text() + ") { print it }"
		}
		return "for (it, ix in " + p.text() + ") { print ix, it, " + p.text() + "[ix] }"
	case 6:
		return "if (" + c09ReadExpr(g) + ") { print 't' } else { print 'f' }"
	default:
		return "n = 0; for (i = -1; i < 4; i++) { if (" + g.genPath(0, 3, 0).text() + "[i] != null) { n++ } }\n  print n"
	}
}

func c09SameJSON(a, b []byte) (bool, error) {
	var x, y interface{}
	if err := json.Unmarshal(a, &x); err != nil {
		return false, err
	}
	if err := json.Unmarshal(b, &y); err != nil {
		return false, err
	}
	ja, _ := json.Marshal(x)
	jb, _ := json.Marshal(y)
	return string(ja) == string(jb), nil
}

// ---------------------------------------------------------------- sharing

type c09ShareCase struct {
	prog   string
	scalar string // "" for containers; else the rendering that the A lines must keep
}

var c09ArrMuts = []string{"X[0] = V", "X[X.length()] = V", "X[9] = 1", "X.push(V)", "X.pop()", "X.popfirst()", "X[-1] = V", "X[0]++", "X[1] += 2", "X[1.9] = V", "X.push(X.length())", "X[0] = [V]", "X[-1]--", "x = --X[-1]"}
var c09ObjMuts = []string{"X.k = V", "X.fresh = V", "X['k'] = V", "X.k++", "X.deep.er = V", "X[1.5] = V", "X.k += 1", "X.n.m[2] = V", "X.list.push(V)", "X.length = V"}

func c09ShareGen(r *rand.Rand) c09ShareCase {
	val := func() string {
		return pick(r, []string{"1", "7", "'s'", "'t u'", "true", "null", "2.5", "[8, 9]", "{z: 1}"})
	}
	mut := func(isArr bool, x string) string {
		m := pick(r, c09ObjMuts)
		if isArr {
			m = pick(r, c09ArrMuts)
		}
		return strings.ReplaceAll(strings.ReplaceAll(m, "X", x), "V", val())
	}
	if chance(r, 0.3) {
		// scalars are copied
		s := pick(r, []struct{ lit, show string }{{"5", "5"}, {"'abc'", "abc"}, {"true", "true"}, {"2.5", "2.5"}, {"null", "null"}, {"'10'", "10"}, {"0", "0"}})
		form := r.Intn(9)
		pre, changes, funcs := "", []string{}, ""
		chg := func(x string) []string {
			return []string{x + " = 6", x + "++", x + " += 1", x + " = " + x + " + 'x'", x + "--", x + " *= 3", x + " = [1]"}
		}
		switch form {
		case 0:
			pre, changes = "b = a", chg("b")
		case 1:
			pre, changes = "c = [a, a]", append(chg("c[0]"), chg("c[1]")...)
		case 2:
			pre, changes = "d = {k: a}", chg("d.k")
		case 3:
			funcs = "function f(p) { p = 9; p++; p += 1; return p }\n"
			pre, changes = "print f(a)", []string{"print f(a)"}
		case 4:
			pre, changes = "w = [a]", []string{"for (e in w) { e++ }", "for (e in w) { e = 9 }", "for (e in [a]) { e += 1 }"}
		case 5:
			pre, changes = "$.q = a", chg("$.q")
		case 6:
			// the other direction: the copy keeps the old value
			pre, changes = "c = [a]; d = {k: a}; b = a; $.q = a; print 'K', b, c, d, $.q", []string{}
			body := pre + "\n  a = 77\n  print 'K', b, c, d, $.q\n  a++\n  print 'K', b, c, d, $.q"
			prog := "{\n  a = " + s.lit + "\n  " + body + "\n}\n"
			return c09ShareCase{prog: prog, scalar: "K"}
		case 7:
			pre, changes = "l = []; l.push(a); l.push(a)", append(chg("l[0]"), "l.pop()")
		default:
			funcs = "function id(x) { return x }\n"
			pre, changes = "b = id(a)", chg("b")
		}
		var sb strings.Builder
		sb.WriteString(funcs + "{\n  a = " + s.lit + "\n  " + pre + "\n  print 'A', a\n")
		for k := 1 + r.Intn(4); k > 0; k-- {
			sb.WriteString("  " + pick(r, changes) + "\n  print 'A', a\n")
		}
		sb.WriteString("}\n")
		return c09ShareCase{prog: sb.String(), scalar: "A " + s.show}
	}
	isArr := chance(r, 0.55)
	init := pick(r, []string{"{k: 1, list: [1]}", "{k: 's', n: {m: [0]}}", "{}", "{k: 2, x: {y: 1}}"})
	if isArr {
		init = pick(r, []string{"[1, 2, 3]", "[5]", "['p', 'q']", "[1, [2], {k: 3}]", "[0, 0, 0, 0]"})
	}
	funcs, setup := "", ""
	names := []string{"a"}
	// via: how a mutation M(x) is applied through a special alias (a parameter, a for-in variable, a match binding)
	var via []func(k int, m func(x string) string) string
	switch r.Intn(10) {
	case 0:
		setup, names = "b = a", []string{"a", "b"}
	case 1:
		setup, names = "c = [a, 7]; d = {k: a}", []string{"a", "c[0]", "d.k"}
	case 2:
		setup, names = "$.q = a", []string{"a", "$.q"}
	case 3:
		if isArr {
			setup, names = "$.list = "+init+"; a = $.list", []string{"a", "$.list"}
		} else {
			setup, names = "$.o = "+init+"; a = $.o", []string{"a", "$.o"}
		}
	case 4:
		setup, names = "b = a", []string{"a", "b"}
		via = append(via, func(k int, m func(string) string) string {
			funcs += fmt.Sprintf("function mut%d(p, q) { %s }\n", k, m(pick(r, []string{"p", "q"})))
			return fmt.Sprintf("mut%d(%s, %s)", k, pick(r, names), pick(r, names))
		})
	case 5:
		setup, names = "w = [a]", []string{"a", "w[0]"}
		via = append(via, func(k int, m func(string) string) string { return "for (e in w) { " + m("e") + " }" },
			func(k int, m func(string) string) string {
				return "for (e in [a, 1]) {\n    if (e is number) { break }\n    " + m("e") + "\n  }"
			})
	case 6:
		setup, names = "b = a", []string{"a", "b"}
		via = append(via, func(k int, m func(string) string) string { return "match (a) { p => { " + m("p") + " } }\n" },
			func(k int, m func(string) string) string { return "match ([b, 1]) { [p, _] => { " + m("p") + " } }\n" })
	case 7:
		setup, names = "b = a; c = b", []string{"a", "b", "c"}
	case 8:
		funcs = "function id(x) { return x }\n"
		setup, names = "b = id(a); c = [b]", []string{"a", "b", "c[0]"}
	default:
		setup, names = "l = []; l.push(a); l.push(a); o = {}; o.m = l[1]", []string{"a", "l[0]", "l[1]", "o.m"}
	}
	var sb strings.Builder
	sb.WriteString("{\n  a = " + init + "\n  " + setup + "\n")
	show := func() {
		sb.WriteString("  print '--'\n")
		for _, n := range names {
			sb.WriteString("  print " + n + "\n")
		}
	}
	show()
	for k := 2 + r.Intn(5); k > 0; k-- {
		if len(via) > 0 && chance(r, 0.6) {
			sb.WriteString("  " + pick(r, via)(k, func(x string) string { return mut(isArr, x) }) + "\n")
		} else {
			sb.WriteString("  " + mut(isArr, pick(r, names)) + "\n")
		}
		show()
	}
	sb.WriteString("}\n")
	return c09ShareCase{prog: funcs + sb.String()}
}

func c09ShareOracle(c c09ShareCase) func(Resp) string {
	return func(i Resp) string {
		if i["class"] != "ok" && i["class"] != "runtime" {
			return "class " + i["class"]
		}
		lines := strings.Split(strings.TrimSuffix(string(i.Bytes("out")), "\n"), "\n")
		if c.scalar == "K" {
			first := ""
			for _, l := range lines {
				if strings.HasPrefix(l, "K ") {
					if first == "" {
						first = l
					} else if l != first {
						return fmt.Sprintf("a copy of a scalar changed when the original was assigned: %q then %q", first, l)
					}
				}
			}
			return ""
		}
		if c.scalar != "" {
			for _, l := range lines {
				if strings.HasPrefix(l, "A ") && l != c.scalar {
					return fmt.Sprintf("scalar changed through a copy: a prints %q, expected %q", l, c.scalar)
				}
			}
			return ""
		}
		var block []string
		check := func(complete bool) string {
			for _, l := range block {
				if l != block[0] {
					return fmt.Sprintf("references to one container show different contents: %q vs %q", block[0], l)
				}
			}
			return ""
		}
		for _, l := range lines {
			if l == "--" {
				if w := check(true); w != "" {
					return w
				}
				block = nil
				continue
			}
			block = append(block, l)
		}
		return check(false)
	}
}

// ---------------------------------------------------------------- sharing-positions
//
// Every expression form that can hand out an EXISTING cell (a variable, a
// parenthesised variable, an assignment / chained / compound assignment, ++/--,
// a match expression yielding a variable or a member, a match binding, member /
// index chains, document members, functions returning a parameter / a global / a
// member, results of pluck / sort / push / pop) in every position that STORES a
// value (array and object literal elements at any depth, call and method
// arguments, right sides of assignments to variables / members / indices /
// document paths, chained assignments, return values, match bodies, for-in
// variables, sort / pluck results).  Then the stored copy and the origin are
// mutated in turn.  A scalar must never change through the other name; a
// container must show the same contents through both.

type c09Src struct {
	text    string // the expression; P2 = a second literal of the payload's kind
	origin  string // the name whose cell the expression hands out
	scalar  bool   // only meaningful for scalar payloads (the expression coerces)
	local   bool   // creates its origin name where it is evaluated (not usable inside a helper function)
	needFns string
}

var c09Srcs = []c09Src{
	{text: "a", origin: "a"}, {text: "(a)", origin: "a"}, {text: "((a))", origin: "a"},
	{text: "a = P2", origin: "a"}, {text: "(a = P2)", origin: "a"}, {text: "z = a", origin: "z", local: true}, {text: "z = y = a", origin: "z", local: true},
	{text: "z = y = P2", origin: "y", local: true}, {text: "o.m = P2", origin: "o.m"}, {text: "l[0] = a", origin: "l[0]"}, {text: "$.f = P2", origin: "$.f"},
	{text: "a += 1", origin: "a", scalar: true}, {text: "a -= 1", origin: "a", scalar: true}, {text: "o.m *= 2", origin: "o.m", scalar: true}, {text: "l[0] /= 2", origin: "l[0]", scalar: true},
	{text: "++a", origin: "a", scalar: true}, {text: "a++", origin: "a", scalar: true}, {text: "--o.m", origin: "o.m", scalar: true}, {text: "l[0]--", origin: "l[0]", scalar: true}, {text: "++$.f", origin: "$.f", scalar: true},
	{text: "match (1) { _ => a }", origin: "a"}, {text: "match (1) { 2 => 0, _ => o.m }", origin: "o.m"}, {text: "match (a) { v => v }", origin: "a"},
	{text: "match (l) { [v] => v }", origin: "l[0]"}, {text: "match (1) { _ => match (2) { _ => l[0] } }", origin: "l[0]"}, {text: "match (1) { _ => (a = P2) }", origin: "a"},
	{text: "match (o.m) { v => v }", origin: "o.m"}, {text: "match (1) { _ => $.f }", origin: "$.f"},
	{text: "$.f", origin: "$.f"}, {text: "o.m", origin: "o.m"}, {text: "o['m']", origin: "o.m"}, {text: "l[0]", origin: "l[0]"}, {text: "l[-1]", origin: "l[0]"}, {text: "oo.p.q", origin: "oo.p.q"},
	{text: "oo['p'].q", origin: "oo.p.q"}, {text: "(o).m", origin: "o.m"}, {text: "(oo.p).q", origin: "oo.p.q"}, {text: "$['f']", origin: "$.f"},
	{text: "id(a)", origin: "a"}, {text: "getg()", origin: "g"}, {text: "geto()", origin: "o.m"}, {text: "first(l)", origin: "l[0]"}, {text: "id(id(o.m))", origin: "o.m"},
	{text: "[a][0]", origin: "a"}, {text: "{k: a}.k", origin: "a"}, {text: "[a].pop()", origin: "a"}, {text: "o.pluck('m').m", origin: "o.m"}, {text: "l.sort()[0]", origin: "l[0]"},
	{text: "l.push(0)[0]", origin: "l[0]"}, {text: "[o.m].popfirst()", origin: "o.m"}, {text: "oo.p.pluck('q').q", origin: "oo.p.q"},
}

type c09Dst struct {
	store string // statements with SRC; "" when the position is a wrapper (kind != "")
	t     string // the name of the stored copy
	kind  string // "" plain | "fn" (T is a parameter: everything happens in the function) | "forin" | "ret" (SRC evaluated in a helper) | "alias" (aliasing is the documented behaviour: model comparison only)
}

var c09Dsts = []c09Dst{
	{store: "t = [SRC, 0]", t: "t[0]"}, {store: "t = [0, [SRC]]", t: "t[1][0]"}, {store: "t = [0, SRC]", t: "t[-1]"}, {store: "t = {k: SRC}", t: "t.k"}, {store: "t = {k: {j: SRC}}", t: "t.k.j"},
	{store: "t = {k: [0, SRC]}", t: "t.k[1]"}, {store: "t = [{j: SRC}]", t: "t[0].j"},
	{store: "t = []\n  t.push(SRC)", t: "t[0]"}, {store: "t = [0].push(SRC)", t: "t[1]"}, {store: "t = {k: []}\n  t.k.push(SRC)", t: "t.k[0]"},
	{store: "t = SRC", t: "t"}, {store: "t.k = SRC", t: "t.k"}, {store: "t[0] = SRC", t: "t[0]"}, {store: "t[2] = SRC", t: "t[2]"}, {store: "$.t = SRC", t: "$.t"}, {store: "$.deep.t[1] = SRC", t: "$.deep.t[1]"},
	{store: "t = u2 = SRC", t: "t"}, {store: "t = (SRC)", t: "t"}, {store: "t = id(SRC)", t: "t"}, {store: "t = [id(SRC)]", t: "t[0]"}, {store: "t = second(0, SRC)", t: "t"},
	{store: "t = match (SRC) { v => [v] }", t: "t[0]"}, {store: "t = match (1) { _ => SRC }", t: "t"}, {store: "t = [match (1) { _ => SRC }]", t: "t[0]"}, {store: "t = {k: match (1) { _ => SRC }}", t: "t.k"},
	{store: "t = [match (SRC) { v => v }]", t: "t[0]"}, {store: "t = [0]\n  t.push(match (1) { _ => SRC })", t: "t[1]"}, {store: "t = id(match (1) { _ => SRC })", t: "t"},
	{store: "t = [SRC].sort()", t: "t[0]"}, {store: "t = {k: SRC}.pluck('k')", t: "t.k"}, {store: "t = [[SRC]].pop()", t: "t[0]"},
	{t: "t", kind: "ret"}, {t: "t[0]", kind: "ret"},
	{t: "p", kind: "fn"}, {t: "q", kind: "fn"},
	{t: "e", kind: "forin"}, {t: "e2", kind: "forin"},
	{t: "v", kind: "alias"},
}

const c09ShareFuncs = "function id(x) { return x }\nfunction second(x, y) { return y }\nfunction getg() { return g }\nfunction geto() { return o.m }\nfunction first(x) { return x[0] }\n"

type c09Payload struct {
	lit, lit2 string
	kind      byte // s scalar, a array, o object
}

var c09Payloads = []c09Payload{
	{"5", "8", 's'}, {"'abc'", "'de'", 's'}, {"true", "false", 's'}, {"2.5", "7.5", 's'}, {"null", "null", 's'}, {"0", "1", 's'}, {"'10'", "'20'", 's'}, {"(-3)", "4", 's'},
	{"[1, 2, 3]", "[4, 5, 6]", 'a'}, {"[[1], 2]", "[[3], 4]", 'a'}, {"[5]", "[6]", 'a'},
	{"{k: 1, list: [1]}", "{k: 2, list: [2]}", 'o'}, {"{}", "{k: 0}", 'o'},
}

var c09ScalarMuts = []string{"X = 6", "X++", "X += 1", "w = --X", "X = X + 'x'", "X *= 3", "X = [1]", "X -= 2", "X /= 2", "w = ++X", "X--", "X = null", "X = 'new'"}

// c09SharePos builds one program. ok=false when the combination makes no sense.
func c09SharePos(r *rand.Rand, src c09Src, dst c09Dst, pl c09Payload) (prog string, mode string, ok bool) {
	if src.scalar && pl.kind != 's' {
		return "", "", false
	}
	inMatchBody := strings.Contains(dst.store, "_ => SRC")
	if src.local && (dst.kind == "ret" || inMatchBody) {
		return "", "", false // the origin name would be created in the helper's / the match's frame and vanish with it
	}
	srcText := strings.ReplaceAll(src.text, "P2", pl.lit2)
	if inMatchBody && strings.HasPrefix(srcText, "{") {
		srcText = "(" + srcText + ")" // a case body starting with { is a block
	}
	origin, t := src.origin, dst.t
	val := func() string { return pick(r, []string{"1", "7", "'s'", "true", "null", "2.5", "[8, 9]", "{z: 1}"}) }
	mut := func(x string) string {
		var m string
		switch pl.kind {
		case 's':
			m = pick(r, c09ScalarMuts)
		case 'a':
			m = pick(r, []string{"X[0] = V", "X.push(V)", "X.pop()", "X[-1] = V", "X[0]++", "X[1] += 2", "X[3] = V", "X.popfirst()", "X[0] = [V]"})
		default:
			m = pick(r, []string{"X.k = V", "X.fresh = V", "X.k++", "X.deep.er = V", "X.list.push(V)", "X['k'] = V", "X.k += 1"})
		}
		return strings.ReplaceAll(strings.ReplaceAll(m, "X", x), "V", val())
	}
	// the observation / mutation script, run where both names are visible
	var body strings.Builder
	n1, n2 := 1+r.Intn(3), 1+r.Intn(3)
	if pl.kind == 's' {
		mode = "scalar"
		body.WriteString("  print 'A', " + origin + "\n")
		for i := 0; i < n1; i++ {
			body.WriteString("  " + mut(t) + "\n  print 'A', " + origin + "\n")
		}
		body.WriteString("  print 'K', " + t + "\n")
		for i := 0; i < n2; i++ {
			body.WriteString("  " + mut(origin) + "\n  print 'K', " + t + "\n")
		}
	} else {
		mode = "container"
		show := "  print '--'\n  print " + origin + "\n  print " + t + "\n"
		body.WriteString(show)
		for i := 0; i < n1+n2; i++ {
			body.WriteString("  " + mut(pick(r, []string{origin, t})) + "\n" + show)
		}
	}
	setup := fmt.Sprintf("  a = %s\n  g = %s\n  o = {m: %s}\n  l = [%s]\n  oo = {p: {q: %s}}\n  $.f = %s\n", pl.lit, pl.lit, pl.lit, pl.lit, pl.lit, pl.lit)
	funcs := c09ShareFuncs
	var main string
	switch dst.kind {
	case "":
		main = setup + "  " + strings.ReplaceAll(dst.store, "SRC", srcText) + "\n" + body.String()
	case "ret":
		funcs += "function ret() { return " + srcText + " }\n"
		st := "t = ret()"
		if t == "t[0]" {
			st = "t = [ret()]"
		}
		main = setup + "  " + st + "\n" + body.String()
	case "fn":
		call := "mutp(" + srcText + ", 0)"
		if t == "q" {
			call = "mutp(0, " + srcText + ")"
		}
		funcs += "function mutp(p, q) {\n" + body.String() + "}\n"
		main = setup + "  " + call + "\n"
	case "forin":
		head := "for (e in [" + srcText + "])"
		if t == "e2" {
			head = "for (k2, e2 in {k: " + srcText + "})"
		}
		main = setup + "  " + head + " {\n" + body.String() + "  }\n"
	case "alias":
		// a match binding IS the subject's cell: assignments to it reach the origin (documented); the model decides
		mode = "alias"
		main = setup + "  match (" + srcText + ") { v => {\n" + body.String() + "  } }\n  print 'after', " + origin + "\n"
	}
	return funcs + "{\n" + main + "}\n", mode, true
}

func c09SharePosOracle(mode string) func(Resp) string {
	return func(i Resp) string {
		if i["class"] != "ok" && i["class"] != "runtime" {
			return "class " + i["class"] + " " + i["msg"]
		}
		if mode == "alias" {
			return ""
		}
		lines := strings.Split(strings.TrimSuffix(string(i.Bytes("out")), "\n"), "\n")
		if mode == "scalar" {
			firstA, firstK := "", ""
			for _, l := range lines {
				switch {
				case strings.HasPrefix(l, "A "):
					if firstA == "" {
						firstA = l
					} else if l != firstA {
						return fmt.Sprintf("a scalar changed when the value stored from it was mutated: the origin printed %q, then %q", firstA, l)
					}
				case strings.HasPrefix(l, "K "):
					if firstK == "" {
						firstK = l
					} else if l != firstK {
						return fmt.Sprintf("a stored scalar changed when its origin was mutated: the copy printed %q, then %q", firstK, l)
					}
				}
			}
			return ""
		}
		for k := 0; k+2 < len(lines); k++ {
			if lines[k] == "--" && lines[k+1] != "--" && lines[k+2] != "--" && lines[k+1] != lines[k+2] {
				return fmt.Sprintf("two references to one container show different contents: %q vs %q", lines[k+1], lines[k+2])
			}
		}
		return ""
	}
}

func c09GenSharePos(r *rand.Rand, tier string, emit func(Case)) {
	one := func(src c09Src, dst c09Dst, pl c09Payload) {
		prog, mode, ok := c09SharePos(r, src, dst, pl)
		if !ok {
			return
		}
		emit(Case{Req: RunReq(prog, nil, []File{{Name: "in.json", Data: []byte(`{"keep": [1, {"k": 2}]}`)}}, true),
			Fields: []string{"class", "out", "json"}, Oracle: c09SharePosOracle(mode), NonTrivial: c09NT,
			Meta: metaProg(prog, "source-form", src.text, "position", strings.ReplaceAll(dst.store, "\n  ", "; ")+dst.kind, "stored-as", dst.t, "payload", pl.lit, "mode", mode,
				"row", src.text, "col", strings.ReplaceAll(dst.store, "\n  ", "; ")+dst.kind+" "+dst.t)})
	}
	scalars, conts := c09Payloads[:8], c09Payloads[8:]
	for _, src := range c09Srcs {
		for _, dst := range c09Dsts {
			// every source form x position: a scalar and a container payload (thorough: three each)
			for k := 0; k < tierN(tier, 1, 3); k++ {
				one(src, dst, pick(r, scalars))
				one(src, dst, pick(r, conts))
			}
		}
	}
	for i, n := 0, tierN(tier, 2500, 40000); i < n; i++ {
		one(pick(r, c09Srcs), pick(r, c09Dsts), pick(r, c09Payloads))
	}
}

// ---------------------------------------------------------------- update-aliases
//
// ++ / -- / compound assignment / assignment applied to names that hold a COPY of
// a number (string, bool, null) living elsewhere: for-in loop variables of every
// loop form over variables and over the document, members of the results of
// container-returning methods, parameters, match bindings of literal subjects;
// and assignments whose target index / key shares a variable with a
// side-effecting right-hand side.  The place the copy was taken from must keep
// its value; the target is the one addressed BEFORE the right side ran.

type c09Upd struct {
	name  string
	prog  string // the rule body
	funcs string
	doc   string
	// oracle: "A" = every line starting with "A " is identical; "want" = exact output
	want string
}

var c09UpdOps = []string{"X++", "X--", "w = ++X", "w = --X", "X += 1", "X -= 1", "X *= 2", "X /= 2", "X = X + 1", "X = 9", "X = X + 'z'", "X = null", "X += X", "X = [X]"}

func c09UpdCase(r *rand.Rand) c09Upd {
	op := func(x string) string { return strings.ReplaceAll(pick(r, c09UpdOps), "X", x) }
	ops := func(xs ...string) string {
		var b strings.Builder
		for i, n := 0, 1+r.Intn(3); i < n; i++ {
			b.WriteString("    " + op(pick(r, xs)) + "\n")
		}
		return b.String()
	}
	arrLit := pick(r, []string{"[1, 2, 3]", "[0, -1.5, 7]", "['a', 'b']", "[true, null, 3]", "[5]", "[10, '10', 0.5, null]"})
	objLit := pick(r, []string{"{a: 1, b: 2}", "{k: 0, j: -2.5}", "{x: 's', y: true, z: null}", "{only: 4}"})
	strLit := pick(r, []string{"'abc'", "'789'", "'x'", "'a\xc3\xa9z'"})
	docArr := pick(r, []string{`[1, 2, 3]`, `[0.5, "s", null, true]`, `[7]`})
	docObj := pick(r, []string{`{"a": 1, "b": 2}`, `{"n": 0, "list": [1, 2], "o": {"k": 5}}`, `{"k": "v", "z": null}`})
	switch r.Intn(16) {
	case 0: // for-in over an array variable, element (and index) variable updated
		two := chance(r, 0.5)
		head, vars := "for (x in c)", []string{"x"}
		if two {
			head, vars = "for (x, i in c)", []string{"x", "i"}
		}
		return c09Upd{name: "forin-array-var", prog: "  c = " + arrLit + "\n  print 'A', c\n  " + head + " {\n" + ops(vars...) + "    print 'X', " + strings.Join(vars, ", ") + "\n    print 'A', c\n  }\n  print 'A', c\n"}
	case 1: // for-in over an object variable: key and value variables
		two := chance(r, 0.6)
		head, vars := "for (k in c)", []string{"k"}
		if two {
			head, vars = "for (k, v in c)", []string{"k", "v"}
		}
		return c09Upd{name: "forin-object-var", prog: "  c = " + objLit + "\n  print 'A', c\n  " + head + " {\n" + ops(vars...) + "    print 'X', " + strings.Join(vars, ", ") + "\n    print 'A', c\n  }\n  print 'A', c\n"}
	case 2: // for-in over a string: character and offset variables
		two := chance(r, 0.6)
		head, vars := "for (ch in c)", []string{"ch"}
		if two {
			head, vars = "for (ch, off in c)", []string{"ch", "off"}
		}
		return c09Upd{name: "forin-string-var", prog: "  c = " + strLit + "\n  print 'A', c\n  " + head + " {\n" + ops(vars...) + "    print 'X', " + strings.Join(vars, ", ") + "\n    print 'A', c\n  }\n  print 'A', c\n"}
	case 3: // for-in over the document root / a member of it (array)
		c, doc := "$", docArr
		if chance(r, 0.5) {
			c, doc = "$.list", `{"list": `+docArr+`, "n": 1}`
		}
		head, vars := "for (x in "+c+")", []string{"x"}
		if chance(r, 0.5) {
			head, vars = "for (x, i in "+c+")", []string{"x", "i"}
		}
		return c09Upd{name: "forin-array-document", doc: "[" + doc + "]", prog: "  print 'A', $\n  " + head + " {\n" + ops(vars...) + "    print 'X', " + strings.Join(vars, ", ") + "\n    print 'A', $\n  }\n  print 'A', $\n"}
	case 4: // for-in over the document root / a member (object)
		c, doc := "$", docObj
		if chance(r, 0.4) {
			c, doc = "$.o", `{"o": `+docObj+`, "n": 1}`
		}
		head, vars := "for (k in "+c+")", []string{"k"}
		if chance(r, 0.7) {
			head, vars = "for (k, v in "+c+")", []string{"k", "v"}
		}
		return c09Upd{name: "forin-object-document", doc: doc, prog: "  print 'A', $\n  " + head + " {\n    if (v is array || v is object) continue\n" + ops(vars...) + "    print 'X', " + strings.Join(vars, ", ") + "\n    print 'A', $\n  }\n  print 'A', $\n"}
	case 5: // nested for-in: inner loop variable over an element of the outer container
		return c09Upd{name: "forin-nested", prog: "  c = [[1, 2], [3]]\n  print 'A', c\n  for (row in c) {\n    for (x, i in row) {\n" + ops("x", "i") + "      print 'X', x, i\n    }\n    print 'A', c\n  }\n  print 'A', c\n"}
	case 6: // members of a plucked object
		return c09Upd{name: "pluck-result", prog: "  c = {k: 1, j: 2.5, s: 'q'}\n  print 'A', c\n  t = c.pluck('k', 'j', 's', 'none')\n" + ops("t.k", "t.j", "t.s", "t.none") + "  print 'X', t\n  print 'A', c\n"}
	case 7: // elements of a sorted copy, of split, of a popped / pushed value
		return c09Upd{name: "sort-result", prog: "  c = " + pick(r, []string{"[3, 1, 2]", "[0.5, -1]", "['b', 'a']"}) + "\n  print 'A', c\n  t = c.sort()\n" + ops("t[0]", "t[1]", "t[-1]") + "  print 'X', t\n  print 'A', c\n  v = [c[0]].pop()\n" + ops("v") + "  print 'A', c\n"}
	case 8: // parameters: every update inside the callee
		arg := pick(r, []string{"a", "c[0]", "o.k", "$.n", "c[-1]", "(a)", "a = 4", "o['k']"})
		return c09Upd{name: "parameter", doc: `{"n": 3}`, funcs: "function upd(p, q) {\n" + ops("p", "q") + "  return p\n}\n",
			prog: "  a = 1\n  c = [2, 3]\n  o = {k: 5}\n  print 'A', c, o, $\n  r1 = upd(" + arg + ", " + arg + ")\n  print 'X', r1\n  print 'A', c, o, $\n  a0 = a\n  print 'B', a0\n  r2 = upd(a, a)\n  print 'B', a\n"}
	case 9: // match bindings whose subject is an array LITERAL (its elements are copies)
		return c09Upd{name: "match-literal-subject", prog: "  a = 1\n  o = {k: 2}\n  c = [3]\n  print 'A', a, o, c\n  match ([a, o.k, c[0]]) { [u, v, w] => {\n" + ops("u", "v", "w") + "    print 'X', u, v, w\n  } }\n  print 'A', a, o, c\n"}
	case 10: // the value handed out by a match expression / a function, then updated
		src := pick(r, []string{"match (1) { _ => a }", "match (a) { v => v }", "id(a)", "geta()", "match (1) { _ => o.k }", "first(c)"})
		return c09Upd{name: "result-then-update", funcs: "function id(x) { return x }\nfunction geta() { return a }\nfunction first(x) { return x[0] }\n",
			prog: "  a = 1\n  o = {k: 1}\n  c = [1]\n  print 'A', a, o, c\n  t = " + src + "\n" + ops("t") + "  print 'X', t\n  print 'A', a, o, c\n  u = [" + src + "]\n" + ops("u[0]") + "  print 'A', a, o, c\n"}
	case 11: // the copy taken BEFORE the origin is updated keeps its value
		return c09Upd{name: "origin-updated", prog: "  a = " + pick(r, []string{"1", "2.5", "'s'", "0"}) + "\n  c = [a]\n  o = {k: a}\n  b = a\n  for (x in [a]) { keep = x }\n  print 'A', c, o, b, keep\n" + ops("a") + "  print 'A', c, o, b, keep\n" + ops("a") + "  print 'A', c, o, b, keep\n"}
	default: // the target is addressed before the right-hand side runs
		i0 := r.Intn(3)
		type snip struct{ code, want string }
		pad := func(n int, last string) string { // [null x n, last]
			parts := make([]string, n+1)
			for i := range parts {
				parts[i] = "null"
			}
			parts[n] = last
			return "[" + strings.Join(parts, ", ") + "]"
		}
		snips := []snip{
			{fmt.Sprintf("i = %d; a[i] = i++; print i, a", i0), fmt.Sprintf("%d %s\n", i0+1, pad(i0, fmt.Sprint(i0)))},
			{fmt.Sprintf("i = %d; a = []; a[i] = ++i; print i, a", i0), fmt.Sprintf("%d %s\n", i0+1, pad(i0, fmt.Sprint(i0+1)))},
			{fmt.Sprintf("i = %d; a = []; a[i] = i--; print i, a", i0), fmt.Sprintf("%d %s\n", i0-1, pad(i0, fmt.Sprint(i0)))},
			{fmt.Sprintf("n = %d; a = []; a[n] = n = n + 1; print n, a", i0), fmt.Sprintf("%d %s\n", i0+1, pad(i0, fmt.Sprint(i0+1)))},
			{fmt.Sprintf("i = %d; a = []; a[i++] = i; print i, a", i0), fmt.Sprintf("%d %s\n", i0+1, pad(i0, fmt.Sprint(i0+1)))},
			{fmt.Sprintf("i = %d; a = []; a[i] = [i++, i++]; print i, a", i0), fmt.Sprintf("%d %s\n", i0+2, pad(i0, fmt.Sprintf("[%d, %d]", i0, i0+1)))},
			{fmt.Sprintf("i = %d; o = {}; o[i] = i++; print i, o", i0), fmt.Sprintf("%d {\"%d\": %d}\n", i0+1, i0, i0)},
			{fmt.Sprintf("i = %d; o = {}; o.k[i] = i++; print i, o", i0), fmt.Sprintf("%d {\"k\": %s}\n", i0+1, pad(i0, fmt.Sprint(i0)))},
			{fmt.Sprintf("i = %d; a = []; a[i][0] = i++; print i, a", i0), fmt.Sprintf("%d %s\n", i0+1, pad(i0, fmt.Sprintf("[%d]", i0)))},
			{"k = 'x'; o = {}; o[k] = (k = 'z'); print k, o", "z {\"x\": \"z\"}\n"},
			{"k = 'p'; o = {}; o[k] = k = k + 'q'; print k, o", "pq {\"p\": \"pq\"}\n"},
			{"i = 1; a = [5, 6, 7]; a[i] = i--; print i, a", "0 [5, 1, 7]\n"},
			{"i = 0; a = [5, 6]; a[i] += i++; print i, a", "1 [5, 6]\n"},
			{"i = 2; a = []; a[i] = i -= 2; print i, a", "0 [null, null, 0]\n"},
			{"i = 0; a = []; a[i] = bump(); print i, a", "1 [1]\n"},
			{"i = 0; o = {}; o[i] = bump(); o[i] = bump(); print i, o", "2 {\"0\": 1, \"1\": 2}\n"},
			{fmt.Sprintf("i = %d; $.list[i] = i++; print i, $.list", i0), fmt.Sprintf("%d %s\n", i0+1, pad(i0, fmt.Sprint(i0)))},
			{fmt.Sprintf("i = %d; a = []; for (x in [1, 2]) { a[i] = i++ }\n  print i, a", i0), fmt.Sprintf("%d %s\n", i0+2, strings.TrimSuffix(pad(i0, fmt.Sprint(i0)), "]")+fmt.Sprintf(", %d]", i0+1))},
		}
		sn := pick(r, snips)
		return c09Upd{name: "target-before-rhs", funcs: "function bump() { i = i + 1\n return i }\n", doc: `{"n": 1}`, prog: "  " + sn.code + "\n", want: sn.want}
	}
}

func c09UpdOracle(u c09Upd) func(Resp) string {
	return func(i Resp) string {
		if i["class"] != "ok" && i["class"] != "runtime" {
			return "class " + i["class"] + " " + i["msg"]
		}
		out := string(i.Bytes("out"))
		if u.want != "" {
			if i["class"] != "ok" || out != u.want {
				return fmt.Sprintf("an assignment must store into the location addressed before its right-hand side ran: got class %s out %q, want %q", i["class"], out, u.want)
			}
			return ""
		}
		first := map[byte]string{}
		for _, l := range strings.Split(out, "\n") {
			if len(l) > 2 && (l[0] == 'A' || l[0] == 'B') && l[1] == ' ' {
				if f, ok := first[l[0]]; !ok {
					first[l[0]] = l
				} else if f != l {
					return fmt.Sprintf("updating a copy changed the place it was copied from (or the other way round): %q, later %q", f, l)
				}
			}
		}
		return ""
	}
}

func c09GenUpdates(r *rand.Rand, tier string, emit func(Case)) {
	for i, n := 0, tierN(tier, 4000, 50000); i < n; i++ {
		u := c09UpdCase(r)
		doc := u.doc
		if doc == "" {
			doc = `{"keep": [1, {"k": 2}]}`
		}
		prog := u.funcs + "{\n" + u.prog + "}\n"
		emit(Case{Req: RunReq(prog, nil, []File{{Name: "in.json", Data: []byte(doc)}}, true), Fields: []string{"class", "out", "json"},
			Oracle: c09UpdOracle(u), NonTrivial: c09NT, Meta: metaProg(prog, "input", doc, "template", u.name, "row", u.name)})
	}
}

// ---------------------------------------------------------------- failing stores

var c09FailingStores = []struct{ setup, store, doc string }{
	{"x = 5", "x.y = 1", ""}, {"x = 's'", "x.y = 1", ""}, {"x = true", "x.y = 1", ""}, {"x = null", "x.y = 1", ""},
	{"x = 5", "x[0] = 1", ""}, {"x = null", "x[0] = 1", ""}, {"x = false", "x['k'] = 1", ""}, {"x = 5", "x.y.z = 1", ""},
	{"x = 5", "x.floor = 1", ""}, {"x = 2.5", "x.y++", ""}, {"x = 5", "x.y += 1", ""}, {"x = 's'", "x = ++x.y", ""},
	{"", "$.n.y = 1", `{"n": 7}`}, {"", "$.s.y = 1", `{"s": "str"}`}, {"", "$.z.y = 1", `{"z": null}`}, {"", "$.t.y = 1", `{"t": true}`},
	{"", "$.l[0].y = 1", `{"l": [null]}`}, {"", "$.l[0][1] = 1", `{"l": [3]}`}, {"", "$.a.b.c.d = 1", `{"a": {"b": 1}}`},
	{"s = 'abc'", "s[0] = 'x'", ""}, {"s = 'abc'", "s[5] = 'x'", ""}, {"s = 'abc'", "s[-1] = 'x'", ""}, {"s = ''", "s[0] = 'x'", ""},
	{"s = 'abc'", "s[0]++", ""}, {"s = 'abc'", "s[1] += 'x'", ""}, {"s = 'abc'", "s[0][0] = 'x'", ""}, {"s = 'abc'", "s[0].k = 'x'", ""},
	{"s = 'abc'", "s.length = 1", ""}, {"s = 'abc'", "s.nope = 1", ""}, {"", "$.s[0] = 1", `{"s": "str"}`}, {"", "$.s[9] = 1", `{"s": "str"}`},
	{"a = [1, 2]", "a.length = 1", ""}, {"a = [1, 2]", "a.push = 1", ""}, {"a = [1, 2]", "a.foo = 1", ""}, {"a = [1, 2]", "a['x'] = 1", ""},
	{"a = [1, 2]", "a['0'] = 1", ""}, {"a = [1, 2]", "a.length++", ""}, {"a = [1, 2]", "a.x.y = 1", ""}, {"a = []", "a['k'] = 1", ""},
	{"a = [1, 2]", "a[-3] = 1", ""}, {"a = []", "a[-1] = 1", ""}, {"a = [1, 2]", "a[-3.5]++", ""}, {"a = [1, 2]", "print a[-9]", ""},
	{"a = [1, 2]", "a[-3].k = 1", ""}, {"a = [[1]]", "a[0][-2] = 1", ""}, {"", "$.l[-4] = 0", `{"l": [1, 2, 3]}`}, {"", "$.q[-1] = 0", `{}`},
	{"a = [1, 2]", "a[2000000] = 1", ""}, {"", "$.l[1048577] = 1", `{"l": []}`},
	{"a = [1, 2]", "a[true] = 1", ""}, {"a = [1, 2]", "a[null] = 1", ""}, {"o = {}", "o[[1]] = 1", ""}, {"o = {}", "o[{}] = 1", ""}, {"o = {}", "o[null] = 1", ""},
	{"function f() { return 1 }", "x = f", ""}, {"a = [1]", "x = a.push", ""}, {"a = [1]", "a[0] = printf", ""}, {"o = {}", "o.k = json", ""}, {"a = [1]", "a.push(num)", ""},
	{"x = 1", "x /= 0", ""}, {"o = {k: 1}", "o.k /= 0", ""},
}

// ---------------------------------------------------------------- wild: beyond the ideal interpreter

var c09WildSnips = []string{
	"match ($.M) { p => { p.c = 1; print $; p.d = 2 } }\n",
	"match ($.M.N) { p => { p = V } }\n",
	"match (a[7]) { p => { p = V; print a } }\n",
	"match (o.fresh) { p => { p++ } }\n",
	"match (u1.k) { p => { p[2] = V } }\n",
	"$.o[true] = V", "$.zz[true] = V", "print a[null]", "print a[[1]]", "print o[{}]", "o[false] = V", "$.M[null].k = V",
	"i = 0; a[i++] = i", "i = 0; a[i++] += 5; print i", "a[a.length()] = V", "a[a.pop()] = V", "a[a.push(9).length()] = V", "o[a.popfirst()] = V",
	"$ = V", "$ = a", "$.self = $", "a[1] = a", "o.me = o; print o", "$.M = o; o.back = $.M",
	"a[num('nan')] = V", "print a[num('nan')]", "print a[num('inf')]", "a[num('-inf')] = V", "print a[1000000000000000000000]", "a[0.99999999999999999] = V", "print a[-0]", "a[-0] = V",
	"for (ch, ix in 'héy') { print ix, ch }", "for (k, v in o) { o[k] = [v] }", "for (k in $) { print k, $[k] }", "for (e in a) { e = V }\n  print e",
	"x = y = z = [1]; x.push(2); y[0] = V; print x, y, z", "x = (y = 5) + 1; print x, y", "print (a[0] = V), a", "print a[0] = V", "x = a[0] = o.k = V",
	"print 'abc'[1].length(), 'abc'[0][0], 'abc'[5], 'é'[0], 'é'[1]", "s = 'xyz'; print s[1], s[-1], s[1.9], s[3]",
	"a.length++", "o.length++; print o", "o.pluck = V; print o", "o.length = V; print o.length", "print o.length()",
	"$.p.q.r += 1", "u2.v.w++", "x = ++u3[3]", "u4[2][1] -= 1", "print u5[0]; print u5", "print u6.x; print u6", "print u7[0].y[1]; print u7", "u8['0'] = V; print u8", "u9[1.5] = V; print u9",
	"function g1() { a = V; o.k = V }\n", "function g2(a) { a[0] = V; a = 5; return a }\n", "print g2(a), a", "g1()",
	"function g3() { return lo }\nfunction g4(lo) { lo = V; return g3() }\n", "print g4(1)",
	"a[1.5] = V", "a[-1.5] = V", "a[-0.5] = V", "o[1.5] = V", "o[-0] = V", "o[10] = V; print o['10']", "o['1e1'] = V; print o[10]", "o[0.1 + 0.2] = V",
	"a[2] = a[0]; a[2] = V", "o.c = a; o.c[0] = V", "a[3] = o; a[3].k = V", "$.M = a; a.push(V)", "b = $.M; b.x = V", "b = $.L; b[5] = V", "b = $.L; b.pop(); b.pop(); b.pop()",
	"print a++, a", "print ++o, o", "print a--", "x = 'abc'; print x++, x", "x = '41'; print ++x", "x = null; print x--, x", "print u10++, u10", "print --$.fresh, $.fresh++",
	"a += 1; print a", "o += 's'; print o", "a[0] += a[1]", "o.k *= o.k", "o.k += 's'", "o.str = 'a'; o.str += 1; o.str += null", "a[0] -= 's'", "o.nope -= 1", "a[5] *= 2",
}

func c09WildProgram(r *rand.Rand) (string, string) {
	val := func() string {
		return pick(r, []string{"1", "7", "'s'", "true", "null", "2.5", "[8, 9]", "{z: 1}", "a", "o", "a[0]", "o.k", "$.M", "$.L[0]"})
	}
	doc := pick(r, []string{`{"M": {}, "L": [1, 2, 3]}`, `{"M": {"N": {"c": 0}}, "L": []}`, `{"M": null, "L": [[1], {"k": 2}], "o": {}}`, `{"L": [1], "x": "s"}`, `[{"M": {}, "L": [1]}, {"M": {"c": 5}, "L": [2, 3]}]`})
	var funcs, body strings.Builder
	body.WriteString("  a = " + pick(r, []string{"[1, 2, 3]", "[]", "[[1], [2]]", "['x', 'y']", "$.L"}) + "\n")
	body.WriteString("  o = " + pick(r, []string{"{k: 1}", "{}", "{k: [1], j: {i: 0}}", "$.M"}) + "\n")
	n := 1 + r.Intn(4)
	for k := 0; k < n; k++ {
		s := pick(r, c09WildSnips)
		for strings.Contains(s, "V") {
			s = strings.Replace(s, "V", val(), 1)
		}
		if strings.HasPrefix(s, "function") {
			funcs.WriteString(s)
			continue
		}
		body.WriteString("  " + s + "\n")
		body.WriteString(fmt.Sprintf("  print '@@%d'\n  print $\n  print [a, o]\n", k))
	}
	return funcs.String() + "{\n" + body.String() + "}\n", doc
}

func init() {
	register(Family{
		Name: "read-only", Prop: "C09",
		Rule: "programs made only of reads (member/index reads incl. out-of-range, negative and on missing/scalar bases, operators, non-mutating methods, comparisons, for-in, match, reads through parameters) over random documents; oracle: -o re-parsed equals the input re-parsed; non-trivial = run ends ok with output",
		Gen: func(r *rand.Rand, tier string, emit func(Case)) {
			n := tierN(tier, 3000, 40000)
			for i := 0; i < n; i++ {
				doc := c09GenDoc(r, 0, true)
				if chance(r, 0.15) {
					doc = "[" + doc + ", " + c09GenDoc(r, 0, true) + "]"
				}
				var gdoc interface{}
				json.Unmarshal([]byte(doc), &gdoc)
				g := &c09Gen{r: r, in: c09NewInterp(), errOK: 0.5}
				root := &c09Cell{c09FromGo(gdoc)}
				g.in.root = root
				if root.v.k == 'a' {
					g.in.root = root.v.a.e[0]
				}
				var sb strings.Builder
				sb.WriteString("function rd(o, k) { return o[k] }\n{\n")
				for k := 1 + r.Intn(6); k > 0; k-- {
					sb.WriteString("  " + c09ReadStmt(g) + "\n")
				}
				sb.WriteString("}\n")
				prog, docB := sb.String(), []byte(doc)
				emit(Case{Req: RunReq(prog, nil, []File{{Name: "in.json", Data: docB}}, true),
					Fields: []string{"class", "out", "json"}, Meta: metaProg(prog, "input", doc),
					Oracle: func(i Resp) string {
						if i["class"] != "ok" {
							if i["class"] != "runtime" {
								return "class " + i["class"]
							}
							return ""
						}
						same, err := c09SameJSON(i.Bytes("json"), docB)
						if err != nil {
							return "-o is not valid JSON: " + err.Error()
						}
						if !same {
							return "a program that only reads changed the document: -o = " + short(string(i.Bytes("json")))
						}
						return ""
					},
					NonTrivial: func(i Resp) bool { return i["class"] == "ok" && i["out"] != "-" }})
			}
		},
	})
	register(Family{
		Name: "sharing", Prop: "C09",
		Rule: "alias patterns (b = a, elements of several containers, document members, parameters, for-in variables, match bindings, return values, chains) then 2-6 mutations (element/member write, push, pop, popfirst, auto-fill, ++, compound) through random references, all references printed after each; oracle: every reference to a container shows the same contents, a scalar never changes through a copy; non-trivial = distinct program ending ok",
		Gen: func(r *rand.Rand, tier string, emit func(Case)) {
			n := tierN(tier, 2500, 30000)
			for i := 0; i < n; i++ {
				c := c09ShareGen(r)
				emit(Case{Req: RunReq(c.prog, nil, []File{{Name: "in.json", Data: []byte(`{"keep": [1, {"k": 2}]}`)}}, true),
					Fields: []string{"class", "out", "json"}, Meta: metaProg(c.prog, "scalar", c.scalar),
					Oracle: c09ShareOracle(c), NonTrivial: func(i Resp) bool { return i["class"] == "ok" }})
			}
		},
	})
	register(Family{
		Name: "sharing-positions", Prop: "C09",
		Rule: "50 expression forms that hand out an existing cell (variable, parenthesised, assignment / chained / compound assignment, ++/--, match expressions yielding a variable / member / assignment, match bindings, member and index chains, document members, functions returning a parameter / global / member, results of pluck / sort / push / pop / popfirst) x 38 storing positions (array and object literal elements at depth 1-2, push arguments, right sides of assignments to variables / members / indices / document paths, chained assignment, call arguments and return values, match bodies inside literals / push / call arguments, sort / pluck results, helper return values, parameters, for-in variables over a literal, match bindings) x scalar and container payloads: every pair once per payload class plus random triples; then 1-3 mutations through the stored copy and 1-3 through the origin, both printed after each. Oracle (implementation only): a scalar origin never changes when the copy is mutated and vice versa; both references to a container print the same contents; (match bindings alias their subject by design: model comparison only); every case compared with the model on class, out and the -o document",
		Gen:  c09GenSharePos,
	})
	register(Family{
		Name: "update-aliases", Prop: "C09",
		Rule: "1-3 updates (postfix / prefix ++ --, += -= *= /=, x = x + 1, rebinding to a number / string / null / array) of names that hold a copy of a value living elsewhere: loop variables of every for-in form (array element and index, object key and value, string character and offset; nested) over variables and over the document root and its members, members of pluck results, elements of sort results and popped values, parameters (arguments: variables, elements, members, document members, assignments), bindings of a match on an array literal, values handed out by match expressions and functions, copies taken before the origin is updated; the origin (container, document) is printed before and after every update. Plus 18 assignments whose target index / key shares a variable with a side-effecting right-hand side (a[i] = i++, a[i] = ++i, a[i++] = i, o[k] = (k = 'z'), a[n] = n = n + 1, a[i] = [i++, i++], o.k[i] = i++, a[i][0] = i++, $.list[i] = i++, a[i] = bump(), ...) at start values 0-2. Oracle (implementation only): the origin prints the same before and after; the side-effect assignments print the closed-form result (target addressed before the right side ran); model comparison on class, out and the -o document",
		Gen:  c09GenUpdates,
	})
	register(Family{
		Name: "failing-stores", Prop: "C09",
		Rule: "enumerated stores that must fail (member on a scalar, index on a string, method names and string keys on arrays, index before the start, beyond the fill limit, keys of a non-key kind, function values, division by zero in a compound), each in a BEGIN or main rule, bare / after another store / inside a function; oracle: runtime error, the marker before is printed, the one after is not; non-trivial = runtime error",
		Gen: func(r *rand.Rand, tier string, emit func(Case)) {
			for _, fs := range c09FailingStores {
				for variant := 0; variant < 3; variant++ {
					doc := fs.doc
					if doc == "" {
						doc = `{"n": 1}`
					}
					setup := fs.setup
					funcs := ""
					if strings.HasPrefix(setup, "function") {
						funcs, setup = setup+"\n", ""
					}
					store := fs.store
					switch variant {
					case 1:
						store = "keep = [1]; keep[3] = 2; " + store
					case 2:
						funcs += "function doit() { " + store + " }\n"
						store = "doit()"
					}
					if variant == 2 && strings.Contains(fs.store, "$") {
						continue
					}
					prog := funcs + "{\n  " + setup + "\n  print 'before'\n  " + store + "\n  print 'after'\n}\n"
					emit(Case{Req: RunReq(prog, nil, []File{{Name: "in.json", Data: []byte(doc)}}, true),
						Fields: []string{"class", "out", "json"}, Meta: metaProg(prog, "input", doc),
						Oracle: func(i Resp) string {
							if i["class"] != "runtime" {
								return "this store must be a runtime error, got class " + i["class"] + " out " + string(i.Bytes("out"))
							}
							if string(i.Bytes("out")) != "before\n" {
								return "output must be exactly the marker before the store: " + string(i.Bytes("out"))
							}
							return ""
						},
						NonTrivial: func(i Resp) bool { return i["class"] == "runtime" }})
				}
			}
		},
	})
	register(Family{
		Name: "assign-wild", Prop: "C09",
		Rule: "1-4 snippets from a list of corners outside the ideal interpreter (match bindings of missing members, keys of odd kinds and with side effects, $ reassigned, cycles, NaN/huge indices, for-in over strings and objects, dynamic scoping, ++/-- and compound assignment on every kind and on missing targets, unset bases) over 5 documents, state dumped after each; compared with the model; oracle: ok or runtime error only; non-trivial = distinct program ending ok or runtime",
		Gen: func(r *rand.Rand, tier string, emit func(Case)) {
			n := tierN(tier, 2500, 30000)
			for i := 0; i < n; i++ {
				prog, doc := c09WildProgram(r)
				emit(Case{Req: RunReq(prog, nil, []File{{Name: "in.json", Data: []byte(doc)}}, true),
					Fields: []string{"class", "out", "json"}, Meta: metaProg(prog, "input", doc),
					Oracle: func(i Resp) string {
						if i["class"] != "ok" && i["class"] != "runtime" {
							return "class " + i["class"] + " " + i["msg"]
						}
						return ""
					}, NonTrivial: c09NT})
			}
		},
	})
}

// ---------------------------------------------------------------- several root selectors
//
// Every -r selector is evaluated on a conversion of the decoded value of its own
// (src/evaluator.go EvalProgram -> EvalExpression -> NewValue), so the roots of two
// selectors never share a container, however much the selected parts overlap: what the
// rules write under one root changes exactly the addressed location of THAT root, and
// every later root starts from the document as it was read.

type c09Step struct {
	key   string
	idx   int
	isIdx bool
}

func c09SelText(steps []c09Step) string {
	var sb strings.Builder
	sb.WriteString("$")
	for _, s := range steps {
		if s.isIdx {
			fmt.Fprintf(&sb, "[%d]", s.idx)
		} else {
			sb.WriteString("." + s.key)
		}
	}
	return sb.String()
}

// c09Walk follows a selector path in a converted document; a missing member is null.
func c09Walk(v c09Val, steps []c09Step) c09Val {
	for _, s := range steps {
		switch {
		case s.isIdx && v.k == 'a' && s.idx < len(v.a.e):
			v = v.a.e[s.idx].v
		case !s.isIdx && v.k == 'o' && v.o.m[s.key] != nil:
			v = v.o.m[s.key].v
		default:
			return c09Null
		}
	}
	return v
}

var c09IdentKey = map[string]bool{"x": true, "y": true, "z": true, "k": true, "list": true, "n": true, "s": true, "o": true}

// c09SelPaths: the selector paths (depth <= 3) into a converted document, each with the
// kind of value it selects.
func c09SelPaths(v c09Val, prefix []c09Step, depth int, out *[][]c09Step) {
	*out = append(*out, append([]c09Step{}, prefix...))
	if depth >= 3 {
		return
	}
	switch v.k {
	case 'o':
		for _, k := range v.o.keys() {
			if c09IdentKey[k] {
				c09SelPaths(v.o.m[k].v, append(prefix, c09Step{key: k}), depth+1, out)
			}
		}
	case 'a':
		for i := 0; i < len(v.a.e) && i < 3; i++ {
			c09SelPaths(v.a.e[i].v, append(prefix, c09Step{idx: i, isIdx: true}), depth+1, out)
		}
	}
}

// c09SelChoice: 2-3 overlapping selectors: the same path twice or three times, a path and
// a prefix of it (either order), a path and the whole document, a path between two copies
// of another one.
func c09SelChoice(r *rand.Rand, doc c09Val) (sels [][]c09Step, shape string) {
	var all, containers [][]c09Step
	c09SelPaths(doc, nil, 0, &all)
	for _, p := range all {
		if v := c09Walk(doc, p); (v.k == 'o' && len(v.o.m) > 0) || (v.k == 'a' && len(v.a.e) > 0) {
			containers = append(containers, p)
		}
	}
	first := pick(r, containers) // the document itself is one of them
	if chance(r, 0.1) {
		first = pick(r, all) // a scalar or an empty container as the first root
	}
	prefixOf := func(p []c09Step) []c09Step { return p[:r.Intn(len(p)+1)] }
	var ext [][]c09Step // paths that extend first
	for _, p := range all {
		if len(p) > len(first) && c09SelText(p[:len(first)]) == c09SelText(first) {
			ext = append(ext, p)
		}
	}
	switch k := r.Intn(10); {
	case k < 3:
		return [][]c09Step{first, first}, "same-twice"
	case k < 4:
		return [][]c09Step{first, first, first}, "same-three-times"
	case k < 6:
		return [][]c09Step{first, prefixOf(first)}, "path-then-prefix"
	case k < 8 && len(ext) > 0:
		e := pick(r, ext)
		if chance(r, 0.5) {
			return [][]c09Step{first, e}, "path-then-extension"
		}
		return [][]c09Step{first, e, first}, "path-extension-path"
	case k < 9:
		return [][]c09Step{first, nil, first}, "path-document-path"
	}
	return [][]c09Step{first, pick(r, all)}, "path-then-any"
}

// c09RunSels: what the single-rule program must print when the document is read once and
// the rule driver visits the roots selected by sels in order (globals persist from root to
// root, every root is a fresh conversion of the document), and what -o writes (the last root).
func c09RunSels(p *c09Prog, doc string, sels [][]c09Step) (class, out, js string, lateStrIdx bool) {
	in := c09NewInterp(p.funcs...)
	var root *c09Cell
	for _, sel := range sels {
		root = &c09Cell{c09Walk(c09Decode(doc), sel)}
		cells := []*c09Cell{root}
		if root.v.k == 'a' {
			cells = append([]*c09Cell{}, root.v.a.e...)
		}
		for _, c := range cells {
			in.root = c
			if err := in.execAll(p.body); err != nil {
				if err == c09ErrUnsupported {
					return "unsupported", "", "", false
				}
				return "runtime", in.out.String(), "", in.lateStrIdx > 0
			}
		}
	}
	j, err := c09JSON(root.v)
	if err != nil {
		return "ok", in.out.String(), "ERR", in.lateStrIdx > 0
	}
	return "ok", in.out.String(), j, in.lateStrIdx > 0
}

// ---- selector-overlap: rule programs with BEGINFILE / pattern / ENDFILE / END rules over
// documents with fixed member names, compared with single-selector runs

func c09OverlapDoc(r *rand.Rand) string {
	a := pick(r, []string{`{"n": 1, "t": [1, 2]}`, `{"n": 5, "t": [], "u": {"v": [0]}}`, `[{"n": 1}, {"n": 2, "t": ["x"]}]`, `[[1, 2], [3]]`, `{"n": 2.5, "t": [{"n": 7}], "u": {"v": []}}`})
	xs := pick(r, []string{`[1, 2]`, `[1, 2, 3]`, `[]`, `[0.5, "s", null, true]`, `[[1], [2, 3]]`, `[10]`})
	items := pick(r, []string{`[{"id": 1}, {"id": 2}]`, `[{"id": 1, "tags": ["a"]}, {"id": 2, "tags": []}, {"id": 3}]`, `[]`, `[{"id": 1, "sub": {"k": [1]}}]`, `[{"id": 4, "tags": ["x", "y"]}]`})
	parts := []string{`"a": ` + a, `"xs": ` + xs, `"items": ` + items, `"s": "str"`, `"k": 5`}
	r.Shuffle(len(parts), func(i, j int) { parts[i], parts[j] = parts[j], parts[i] })
	return "{" + strings.Join(parts, ", ") + "}"
}

var c09OverlapSelSets = [][]string{
	{"$.a", "$.a"}, {"$.xs", "$.xs"}, {"$.items", "$.items"}, {"$", "$"}, {"$.a", "$.a", "$.a"}, {"$.items", "$.items", "$.items"},
	{"$.items", "$"}, {"$", "$.items"}, {"$.a", "$"}, {"$", "$.a"}, {"$.xs", "$"}, {"$", "$.xs"},
	{"$.a", "$.a[0]"}, {"$.a[0]", "$.a"}, {"$.a", "$.a.t"}, {"$.a.t", "$.a"}, {"$.a.u", "$.a.u.v", "$.a"},
	{"$.items", "$.items[0]"}, {"$.items[0]", "$.items"}, {"$.items[0].tags", "$.items"}, {"$.items", "$.items[1].tags", "$.items[1]"},
	{"$.xs", "$.xs[0]"}, {"$.xs[0]", "$.xs"}, {"$.xs", "$", "$.xs"}, {"$.items", "$", "$.items"}, {"$.a", "$.items", "$.a"},
	{"[$.a, $.a]", "$.a"}, {"$.a", "[$.a, $.a]"}, {"{x: $.a, y: $.items}", "$"}, {"$", "{x: $.a, y: $.items}"}, {"[$, $.xs]", "$.xs"},
	{"$.items", "[$.items[0]]"}, {"$.k", "$.k"}, {"$.missing", "$", "$.missing"}, {"$.s", "$"},
}

// writes at the root (BEGINFILE / ENDFILE: $ is the selected root)
var c09OverlapRootWrites = []string{
	`if ($ is object) $.n = 99`, `if ($ is object) $.extra.deep = true`, `if ($ is object && $.t is array) $.t.push("bf")`,
	`if ($ is array && $.length() > 0) $[0] = "bf0"`, `if ($ is array) $.push("bfpush")`, `if ($ is object && $.a is object) $.a.n++`,
	`if ($ is object && $.a is object) $.a.n += 10`, `$ = {fresh: 1}`, `$ = [7, 8]`, `if ($ is array) $.pop()`,
	`if ($ is object && $.items is array) $.items.push({id: 0})`, `if ($ is object && $.xs is array) $.xs[0] = "x0"`,
	`if ($ is object && $.items is array && $.items.length() > 0) $.items[0].id = 777`, `if ($ is array && $[0] is object) $[0].mark = "bf"`,
	`if ($ is array && $[0] is array) $[0].push("deep")`, `if ($ is object) $.n -= 1`, `if ($ is number) $ *= 3`, `if ($ is object && $.x is object) $.x.n = "viaX"`,
	`if ($ is array && $[1] is object) $[1].n = "second"`, `if ($ is object && $.u is object) $.u.v[2] = "pad"`,
}

// pattern rules ($ is an element of an array root, or the root)
var c09OverlapRecWrites = []string{
	`$ is number { $ = $ * 2 }`, `$ is number { $ += 5 }`, `$ is number { $++ }`, `$ is number { --$ }`, `$ is object { $.seen = true }`, `$ is object { $.id++ }`, `$ is object { $.id += 10 }`,
	`$ is object && $.tags is array { $.tags.push("p") }`, `$ is object { $.n = 10; $.t[1] = "w" }`, `$ is array { $[0] = "w"; $.push(1) }`,
	`$ is string { $ = $ + "!" }`, `$ is object && $.a is object { $.a.n -= 1 }`, `{ $ = 0 }`, `$ is object { $ = {replaced: true} }`,
	`$ is object && $.items is array { $.items.pop() }`, `$ is object && $.xs is array { $.xs[0] += 100; $.xs.push(4) }`,
	`$ is object { t = $.a; if (t is object) t.viaTemp = 1 }`, `$ is object && $.sub is object { $.sub.k.push(2); $.sub.j.i = 0 }`,
	`$ is object && $.items is array { for (it in $.items) { if (it is object) it.looped = 1 } }`, `$ is null { $ = "was-null" }`,
	`$ is object && $.u is object { $.u.v.push(1); $.u.w = [] }`, `$ is array { $.pop() }`, `$ is object { $.n *= 2 }`, `$ is object && $.t is array { $.t[0] = {}; $.t[0].k = 1 }`,
	`$ is object && $.x is object { $.x.n++ }`, `$ is array && $[0] is object { $[0].n = "inner" }`,
}

func c09OverlapProgram(r *rand.Rand) string {
	rules := []string{`BEGINFILE { print "#root"; print "bf", $ }`}
	saved := chance(r, 0.5)
	if saved {
		// a reference to the FIRST root kept until END: what later roots write must not show in it
		rules = append(rules, `BEGINFILE { if (saved is unknown) saved = $ }`)
	}
	for n := pick(r, []int{0, 0, 1, 1, 2}); n > 0; n-- {
		rules = append(rules, "BEGINFILE { "+pick(r, c09OverlapRootWrites)+" }")
	}
	if chance(r, 0.3) {
		rules = append(rules, `BEGINFILE { print "bf2", $ }`)
	}
	rules = append(rules, `{ print "in", $ }`)
	for n := pick(r, []int{1, 1, 2, 2, 3}); n > 0; n-- {
		rules = append(rules, pick(r, c09OverlapRecWrites))
	}
	rules = append(rules, `{ print "out", $ }`)
	if chance(r, 0.25) {
		rules = append(rules, "ENDFILE { "+pick(r, c09OverlapRootWrites)+" }")
	}
	rules = append(rules, `ENDFILE { print "ef", $ }`)
	if saved {
		rules = append(rules, `END { print "#end"; print "end", $, saved }`)
	} else if chance(r, 0.5) {
		rules = append(rules, `END { print "#end"; print "end", $ }`)
	}
	return strings.Join(rules, "\n") + "\n"
}

// what the END rule printed
func c09EndPart(i Resp) string {
	out := string(i.Bytes("out"))
	if at := strings.Index(out, "#end\n"); at >= 0 {
		return out[at:]
	}
	return ""
}

// the output of a run before END, cut at the marker every root starts with
func c09Segs(i Resp) []string {
	out := string(i.Bytes("out"))
	if at := strings.Index(out, "#end\n"); at >= 0 {
		out = out[:at] // what the END rule prints belongs to no root
	}
	segs := strings.Split(out, "#root\n")
	return segs[1:]
}

func c09GenOverlap(r *rand.Rand, tier string, emit func(Case)) {
	n := tierN(tier, 1500, 25000)
	for i := 0; i < n; i++ {
		sels := pick(r, c09OverlapSelSets)
		m := len(sels)
		prog := c09OverlapProgram(r)
		var files []File
		nv := 0
		for f, nf := 0, pick(r, []int{1, 1, 1, 1, 2}); f < nf; f++ {
			var docs []string
			for v := pick(r, []int{1, 1, 1, 2}); v > 0; v-- {
				docs = append(docs, c09OverlapDoc(r))
				nv++
			}
			files = append(files, File{Name: []string{"a.json", "b.json"}[f], Data: []byte(strings.Join(docs, "\n"))})
		}
		input := c02FilesMeta(files)
		group := fmt.Sprintf("overlap%d", i)
		allSame := true
		for _, s := range sels {
			if s != sels[0] {
				allSame = false
			}
		}
		emit(Case{Req: RunReq(prog, sels, files, true), Fields: []string{"class", "out", "json"},
			Meta:  metaProg(prog, "input", input, "selectors", strings.Join(sels, " | ")),
			Group: group, NonTrivial: c09NT,
			Oracle: func(i Resp) string {
				if i["class"] != "ok" && i["class"] != "runtime" {
					return "class " + i["class"] + " " + i["msg"]
				}
				if !allSame {
					return ""
				}
				// the same selector several times: every root is the document as read, so all roots of one value print the same
				segs := c09Segs(i)
				for v := 0; v*m < len(segs); v++ {
					for k := 1; k < m && v*m+k < len(segs); k++ {
						if v*m+k == len(segs)-1 && i["class"] != "ok" {
							break // cut short by the error
						}
						if segs[v*m+k] != segs[v*m] {
							return fmt.Sprintf("selector %s given %d times: root %d of value %d does not start from the document as read: it prints %q, the first root printed %q", sels[0], m, k+1, v+1, segs[v*m+k], segs[v*m])
						}
					}
				}
				return ""
			}})
		// one run per distinct selector alone: root k of every value behaves exactly as in that run
		done := map[string]bool{}
		for _, s := range sels {
			if done[s] {
				continue
			}
			done[s] = true
			var ks []int
			for k, t := range sels {
				if t == s {
					ks = append(ks, k)
				}
			}
			sel := s
			emit(Case{Req: RunReq(prog, []string{sel}, files, true), Fields: []string{"class", "out", "json"},
				Meta:  metaProg(prog, "input", input, "selectors", sel, "role", "the single-selector run the run with "+strings.Join(sels, " | ")+" is compared with"),
				Group: group, NonTrivial: c09NT,
				GroupCheck: func(first, self Resp) string {
					M, S := c09Segs(first), c09Segs(self)
					for v := 0; v < len(S); v++ {
						for _, k := range ks {
							mi := v*m + k
							if mi >= len(M) {
								continue
							}
							if M[mi] != S[v] {
								return fmt.Sprintf("with selectors %s, root %d (%s) of value %d prints %q; alone, -r %s prints %q there: the root did not start from the document as read (or a write went somewhere else)",
									strings.Join(sels, " | "), k+1, sel, v+1, M[mi], sel, S[v])
							}
						}
					}
					if self["class"] != "ok" && first["class"] == "ok" {
						return fmt.Sprintf("-r %s alone fails (%s) but the run with %s succeeds", sel, self["class"], strings.Join(sels, " | "))
					}
					if self["class"] == "ok" && first["class"] == "ok" {
						if len(M) != nv*m || len(S) != nv {
							return fmt.Sprintf("%d values x %d selectors: %d roots visited, alone %d", nv, m, len(M), len(S))
						}
						if ks[0] == 0 && c09EndPart(first) != c09EndPart(self) {
							return fmt.Sprintf("END shows the first root (%s, kept in a variable) as %q; in the run with that selector alone it shows %q: a later root wrote into it", sel, c09EndPart(first), c09EndPart(self))
						}
						if ks[len(ks)-1] == m-1 && first["json"] != self["json"] {
							return fmt.Sprintf("-o after the last root (%s) differs from -o of the run with that selector alone: %q vs %q", sel, string(first.Bytes("json")), string(self.Bytes("json")))
						}
					}
					return ""
				}})
		}
	}
}

func init() {
	register(Family{
		Name: "selector-roots-ideal", Prop: "C09",
		Rule: "the statement sequences of assign-seq-ideal (assignment / compound / ++ -- / push pop popfirst / parameter, for-in and match aliases / reads, variables aliasing into the document, state dumped after each statement) run with 2-3 OVERLAPPING root selectors over one document: the same path twice or three times, a path and a prefix of it, a path and an extension of it, a path / the whole document / the path again, a path and any other; paths of depth 0-3 through members and indices; the program is generated with the first root in view; -o requested; oracle: the ideal interpreter run over the roots in order, every root a fresh conversion of the document as read, variables persisting from root to root (a variable may keep an alias into an EARLIER root), -o = the last root; compared with the model on class, out and the -o document",
		Gen: func(r *rand.Rand, tier string, emit func(Case)) {
			n := tierN(tier, 2500, 40000)
			for i := 0; i < n; i++ {
				doc := c09GenDoc(r, 0, true)
				sels, shape := c09SelChoice(r, c09Decode(doc))
				firstRoot := c09Walk(c09Decode(doc), sels[0])
				firstDoc, err := c09JSON(firstRoot)
				if err != nil || (firstRoot.k == 'a' && len(firstRoot.a.e) == 0) {
					firstDoc = doc
					sels[0] = nil
					if len(sels) == 3 {
						sels[2] = nil
					}
				}
				ns := 1 + r.Intn(tierN(tier, 6, 10))
				p := c09GenProgram(r, firstDoc, ns, pick(r, []float64{0, 0, 0.3}))
				class, out, js, late := c09RunSels(p, doc, sels)
				prog := p.text()
				texts := make([]string, len(sels))
				for k, s := range sels {
					texts[k] = c09SelText(s)
				}
				c := Case{Req: RunReq(prog, texts, []File{{Name: "in.json", Data: []byte(doc)}}, true),
					Fields: []string{"class", "out", "json"}, Meta: metaProg(prog, "input", doc, "selectors", strings.Join(texts, " | "), "shape", shape, "ideal_class", class),
					Oracle: c09IdealOracle(class, out, js, true), NonTrivial: c09NT}
				if late && c.Oracle != nil {
					c.ImplOnly = true // see c09Interp.lateStrIdx: a known inaccuracy of the model; the ideal interpreter decides
					c.Meta["model"] = "not asked: store through a string index whose base became a container (model keeps the untruncated index)"
				}
				emit(c)
			}
		},
	})
	register(Family{
		Name: "selector-overlap", Prop: "C09",
		Rule: "35 sets of 2-3 overlapping root selectors (the same selector 2-3 times; $.items and $; $.a and $.a[0] / $.a.t; a member between two copies of another; constructed roots [$.a, $.a], {x: $.a, y: $.items} next to their parts; scalar and missing roots) over documents with members a / xs / items / s / k of varying shape, 1-2 files x 1-2 values; programs: a BEGINFILE rule printing a root marker and $, 0-2 BEGINFILE writes at the root ($-paths, $ =, op=, ++, push / pop, auto-created members, element writes), pattern rules printing $ before and after 1-3 writes to the record ($ = / op= / ++ / -- on scalar records, member and deep member writes, push / pop, writes through a temporary and a for-in variable, replacing the record), ENDFILE (sometimes writing, always printing $), END (half of the programs keep a reference to the FIRST root in a variable and print it in END), -o requested; oracle (implementation only): root k of every value prints exactly what the run with selector k ALONE prints there, END prints the kept first root exactly as in the run with the first selector alone, -o equals -o of the last selector alone, the same selector given several times prints the same for every root; compared with the model on class, out and the -o document",
		Gen:  c09GenOverlap,
	})
}
