package main

// C08 — calls bind by position and value; completed calls and matches leave
// no residue.
//
// Families (every one also compared with the model on class, out, depth):
//   call-binding        arity 0-4 x 0-6 arguments x every expression position; exact oracle
//   value-vs-reference  scalars by value, containers shared, rebinding detaches; exact oracle (small simulation)
//   dynamic-scoping     random call / match / assign / print programs over a small pool of CLASHING
//                       names; oracle: the C07 reference interpreter (frames, dynamic lookup)
//   return-recursion    return from inside loops / ifs / match bodies, no return, stale return slot,
//                       factorial, fibonacci, mutual recursion, depth-1000 list walk; exact oracles
//   next-exit-depth     next / exit executed k calls (and match bodies) deep, from rule bodies and patterns
//   match-exit-paths    match bodies left by normal completion / next / exit / break / continue / return / error,
//                       in every place, short inputs and thousands of records; oracle: unbound names, depth 0,
//                       history independence per record
//   argument-links      missing members / characters / unset variables as arguments to callees that update the
//                       parameter; the caller's containers and the document never change
//   long-history        10 000 (quick) / 200 000 (thorough) records through rules that call and match;
//                       oracle: class ok, depth 0, END summary as simulated in Go
//   argument-snapshots  argument lists in which a LATER argument has a side effect on the variable, member or
//                       element an EARLIER argument reads; user functions: exact oracle (each argument is the value
//                       it had when it was evaluated, left to right); printf / methods / array and object literals /
//                       print lists: model comparison only (the property speaks about calls of user functions)
//   argument-recursion  call sites with 2-4 arguments of which a non-first (or any) argument recurses through the
//                       SAME call site (comb(n, rec(n - 1)), Ackermann's shape, mutual recursion), evaluated for several
//                       records; exact values from Go, the same record gives the same line whatever ran before
//   match-failed-array-case  an array pattern that binds names and then fails on a later element, followed by an
//                       alternative / case whose body reads and assigns an OUTER variable of the same name (global,
//                       parameter, loop variable); exact output from Go and the -o document unchanged
//   depth-limit-boundary    one evaluation needing exactly D live frames, every D in 4090..4100, 17 recursion shapes (direct,
//                       mutual, through match bodies, in argument / condition / match-subject position), in BEGIN / rule
//                       body / pattern / END, directly and under 1-3 outer frames; exact value or the exact push site
//                       at which the limit strikes (replay of the pushes in Go)
//   depth-limit-sequences   several at-limit evaluations in one run (no frame may be left behind), then one over the limit

import (
	"fmt"
	"math/rand"
	"sort"
	"strconv"
	"strings"
)

// ---------------------------------------------------------------- call-binding

type c08Arg struct {
	text  string // jqawk text
	shown string // how the bound parameter prints (top level)
	side  string // output produced while the argument is evaluated
}

var c08Args = []c08Arg{
	{"1", "1", ""}, {"2.5", "2.5", ""}, {`"s"`, "s", ""}, {"'x y'", "x y", ""}, {"true", "true", ""}, {"false", "false", ""},
	{"null", "null", ""}, {"[1, 2]", "[1, 2]", ""}, {"{a: 1}", `{"a": 1}`, ""}, {"u", "<unknown>", ""},
	{"side(3)", "3", "S 3\n"}, {"side('q')", "q", "S q\n"}, {"(-4)", "-4", ""}, {"[]", "[]", ""}, {"(1 + 1)", "2", ""},
}

type c08Ret struct {
	stmt   string // the return statement of f ("" = none)
	shown  string // printed at top level
	quoted string // printed inside a container
	truthy bool
	kind   string // num str null
}

var c08Rets = []c08Ret{
	{"return 1", "1", "1", true, "num"},
	{`return "r"`, "r", `"r"`, true, "str"},
	{"", "null", "null", false, "null"},
	{"return", "null", "null", false, "null"},
}

type c08Pos struct {
	name string
	prog string // program around CALL (functions f, side, id are prepended)
	doc  string
	only string // restrict to a return kind ("" = all)
	want func(co string, rt c08Ret) string
}

func c08Positions() []c08Pos {
	return []c08Pos{
		{"print", "BEGIN { print CALL }", "", "", func(co string, rt c08Ret) string { return co + rt.shown + "\n" }},
		{"operand", "BEGIN { x = CALL + 1; print x }", "", "", func(co string, rt c08Ret) string {
			return co + map[string]string{"num": "2", "str": "r1", "null": "1"}[rt.kind] + "\n"
		}},
		{"right-operand", "BEGIN { x = 10 - CALL; print x }", "", "", func(co string, rt c08Ret) string {
			return co + map[string]string{"num": "9", "str": "10", "null": "10"}[rt.kind] + "\n"
		}},
		{"argument-user", "BEGIN { print id(CALL) }", "", "", func(co string, rt c08Ret) string { return co + rt.shown + "\n" }},
		{"argument-builtin", "BEGIN { printf(\"%v|\\n\", CALL) }", "", "", func(co string, rt c08Ret) string { return co + rt.shown + "|\n" }},
		{"if-condition", "BEGIN { if (CALL) print \"T\"; else print \"E\" }", "", "", func(co string, rt c08Ret) string {
			if rt.truthy {
				return co + "T\n"
			}
			return co + "E\n"
		}},
		{"while-condition", "BEGIN { k = 0\n while (k < 2 && CALL) k++\n print k }", "", "", func(co string, rt c08Ret) string {
			if rt.truthy {
				return co + co + "2\n"
			}
			return co + "0\n"
		}},
		{"rule-pattern", "CALL { print \"body\", $ }", "[5]", "", func(co string, rt c08Ret) string {
			if rt.truthy {
				return co + "body 5\n"
			}
			return co
		}},
		{"rule-body", "{ print $, CALL }", "[5, 6]", "", func(co string, rt c08Ret) string {
			return co + "5 " + rt.shown + "\n" + co + "6 " + rt.shown + "\n"
		}},
		{"end-rule", "END { print CALL }", "[5]", "", func(co string, rt c08Ret) string { return co + rt.shown + "\n" }},
		{"print-list", "BEGIN { print \"a\", CALL, \"b\" }", "", "", func(co string, rt c08Ret) string { return co + "a " + rt.shown + " b\n" }},
		{"index", "BEGIN { arr = [10, 20, 30]; print arr[CALL] }", "", "num", func(co string, rt c08Ret) string { return co + "20\n" }},
		{"match-subject", "BEGIN { print match (CALL) { 1 => \"one\", \"r\" => \"str\", null => \"nul\" } }", "", "", func(co string, rt c08Ret) string {
			return co + map[string]string{"num": "one", "str": "str", "null": "nul"}[rt.kind] + "\n"
		}},
		{"match-body", "BEGIN { print match (2) { 1 => 0, 2 => CALL } }", "", "", func(co string, rt c08Ret) string { return co + rt.shown + "\n" }},
		{"match-block-body", "BEGIN { print match (2) { 2 => { v = CALL } }, v is unknown }", "", "", func(co string, rt c08Ret) string { return co + "null true\n" }},
		{"array-item", "BEGIN { print [CALL, 2] }", "", "", func(co string, rt c08Ret) string { return co + "[" + rt.quoted + ", 2]\n" }},
		{"object-value", "BEGIN { print {k: CALL} }", "", "", func(co string, rt c08Ret) string { return co + "{\"k\": " + rt.quoted + "}\n" }},
		{"assignment", "BEGIN { v = CALL; print v }", "", "", func(co string, rt c08Ret) string { return co + rt.shown + "\n" }},
		{"method-argument", "BEGIN { a = []; a.push(CALL); print a }", "", "", func(co string, rt c08Ret) string { return co + "[" + rt.quoted + "]\n" }},
		{"unary-minus", "BEGIN { print -CALL }", "", "", func(co string, rt c08Ret) string {
			return co + map[string]string{"num": "-1", "str": "-0", "null": "-0"}[rt.kind] + "\n"
		}},
		{"not", "BEGIN { print !CALL }", "", "", func(co string, rt c08Ret) string { return co + fmt.Sprint(!rt.truthy) + "\n" }},
		{"return-expression", "function w() { return CALL }\nBEGIN { print w() }", "", "", func(co string, rt c08Ret) string { return co + rt.shown + "\n" }},
		{"for-clauses", "BEGIN { for (i = CALL; i < 3; i = i + CALL) print i }", "", "num", func(co string, rt c08Ret) string {
			return co + "1\n" + co + "2\n" + co
		}},
		{"comparison", "BEGIN { print CALL == 1, CALL is null }", "", "", func(co string, rt c08Ret) string {
			// "r" == 1 is numeric (0 vs 1)
			return co + co + fmt.Sprint(rt.kind == "num") + " " + fmt.Sprint(rt.kind == "null") + "\n"
		}},
		{"logical-right", "BEGIN { print true && CALL, false && CALL, false || CALL }", "", "", func(co string, rt c08Ret) string {
			return co + co + fmt.Sprint(rt.truthy) + " false " + fmt.Sprint(rt.truthy) + "\n"
		}},
		{"forin-body", "BEGIN { for (x in [1, 2]) y = CALL\n print y }", "", "", func(co string, rt c08Ret) string { return co + co + rt.shown + "\n" }},
	}
}

func c08OutOracle(want string, wantClass string) func(Resp) string {
	return func(i Resp) string {
		if i["class"] != wantClass {
			return "expected class " + wantClass + ", got " + i["class"] + " " + i["msg"]
		}
		if wantClass == "ok" && i["depth"] != "0" {
			return "frame depth after the run is " + i["depth"] + ", expected 0"
		}
		if got := string(i.Bytes("out")); got != want {
			return fmt.Sprintf("output differs from the expectation: got %q want %q", c07Short(got), c07Short(want))
		}
		return ""
	}
}

var c08Fields = []string{"class", "out", "depth"}

func c08CallBinding(r *rand.Rand, emit func(Case)) {
	c08CallBindingNamed(r, "f", nil, "", "", emit)
}

// c08CallBindingNamed: the call-binding case for a function called `name` whose parameters are
// drawn from paramPool (nil: p1 p2 ...); probe / probeOut: a first BEGIN rule printing an
// expression that uses the builtin or method of the same name (or another builtin), and its line.
func c08CallBindingNamed(r *rand.Rand, name string, paramPool []string, probe, probeOut string, emit func(Case)) {
	var pos c08Pos
	for {
		pos = pick(r, c08Positions())
		if name == "printf" && strings.Contains(pos.prog, "printf") {
			continue // this position prints through the builtin
		}
		break
	}
	arity, argc := r.Intn(5), r.Intn(7)
	var rt c08Ret
	for {
		rt = pick(r, c08Rets)
		if pos.only == "" || pos.only == rt.kind {
			break
		}
	}
	params := make([]string, arity)
	if paramPool != nil {
		perm := r.Perm(len(paramPool))
		for i := range params {
			params[i] = paramPool[perm[i]]
		}
	} else {
		for i := range params {
			params[i] = fmt.Sprintf("p%d", i+1)
		}
	}
	args := make([]c08Arg, argc)
	texts := make([]string, argc)
	co := ""
	for i := range args {
		args[i] = pick(r, c08Args)
		texts[i] = args[i].text
		co += args[i].side // every argument is evaluated, left to right, surplus ones too
	}
	line := "F"
	for i := 0; i < arity; i++ {
		if i < argc {
			line += " " + args[i].shown
		} else {
			line += " null" // a missing argument is null
		}
	}
	co += line + "\n"
	body := "print " + strings.Join(append([]string{`"F"`}, params...), ", ")
	if rt.stmt != "" {
		body += "\n  " + rt.stmt
	}
	call := name + "(" + strings.Join(texts, ", ") + ")"
	prog := "function side(v) { print \"S\", v\n return v }\nfunction id(x) { return x }\nfunction " + name + "(" + strings.Join(params, ", ") + ") {\n  " + body + "\n}\n"
	want := pos.want(co, rt)
	if probe != "" {
		prog += "BEGIN { print " + probe + " }\n"
		want = probeOut + "\n" + want
	}
	prog += strings.ReplaceAll(pos.prog, "CALL", call) + "\n"
	var files []File
	if pos.doc != "" {
		files = []File{{Name: "in.json", Data: []byte(pos.doc)}}
	}
	meta := metaProg(prog, "position", pos.name, "arity/argc", fmt.Sprintf("%d/%d", arity, argc), "input", pos.doc)
	if name != "f" {
		meta["function-name"] = name
		meta["row"] = name
		meta["col"] = fmt.Sprintf("arity %d", arity)
	}
	emit(Case{Req: RunReq(prog, nil, files, false), Fields: c08Fields,
		Meta:       meta,
		Oracle:     c08OutOracle(want, "ok"),
		NonTrivial: func(i Resp) bool { return i["class"] == "ok" }})
}

// ---------------------------------------------------------------- call-binding-names
//
// The name of a user function is a plain identifier: whatever else is called like it (a
// builtin, a method of the prototypes, a type name of `is`, a word that only looks like a
// keyword), the call binds ITS parameters and runs ITS body.  The function table is installed
// in the root frame after the builtins.

type c08FnName struct {
	name     string
	kind     string // builtin method type lookalike
	probe    string // an expression that uses the other thing of the same name (or another builtin)
	probeOut string
}

func c08FnNames() []c08FnName {
	ns := []c08FnName{
		{"num", "builtin", "json('a'), 'ab'.length()", `"a" 2`}, {"json", "builtin", "num('12') + 1, [1].length()", "13 1"}, {"printf", "builtin", "num('4'), json(true)", "4 true"},
		{"length", "method", "'abc'.length(), [1, 2].length(), {a: 1}.length()", "3 2 1"}, {"push", "method", "[1].push(2)", "[1, 2]"}, {"pop", "method", "[1, 2].pop()", "2"},
		{"popfirst", "method", "[1, 2].popfirst()", "1"}, {"contains", "method", "[1].contains(1)", "true"}, {"sort", "method", "[2, 1].sort()", "[1, 2]"},
		{"pluck", "method", "{a: 1, b: 2}.pluck('a')", `{"a": 1}`}, {"split", "method", "'a,b'.split(',')", `["a", "b"]`}, {"lower", "method", "'AB'.lower()", "ab"},
		{"upper", "method", "'ab'.upper()", "AB"}, {"floor", "method", "(2.5).floor()", "2"}, {"ceil", "method", "(2.5).ceil()", "3"}, {"round", "method", "(2.5).round()", "3"},
	}
	for _, t := range []string{"string", "number", "bool", "array", "object", "regex", "unknown"} {
		ns = append(ns, c08FnName{t, "type", "1 is " + t + ", 'a' is " + t, map[string]string{"string": "false true", "number": "true false"}[t]})
	}
	for i := range ns {
		if ns[i].probeOut == "" {
			ns[i].probeOut = "false false"
		}
	}
	for _, l := range []string{"begin", "Begin", "end", "End", "beginfile", "endfile", "Function", "functions", "returns", "Return", "iff", "If", "elsewhere", "whiles", "fors", "inn", "iss", "matches", "Match",
		"print1", "prints", "printf2", "nexts", "Next", "exits", "breaks", "continues", "True", "nulls", "falsey", "NULL", "index", "file", "_f", "f_", "__", "number2", "Num", "JSON", "nativefunction", "nil"} {
		ns = append(ns, c08FnName{l, "lookalike", "num('1'), json(null)", "1 null"})
	}
	return ns
}

func c08NameTemplates(r *rand.Rand, n c08FnName, emit func(Case)) {
	N := n.name
	other := "num"
	otherCall, otherOut := "num('3')", "3"
	if N == "num" {
		other, otherCall, otherOut = "json", "json(3)", "3"
	}
	_ = other
	type tmpl struct{ what, prog, want, class string }
	ts := []tmpl{
		{"parameter of another function named like it", "function N(a) { return a + 1 }\nfunction g(N) { return N }\nBEGIN { print g(5), N(1) }\n", "5 2\n", "ok"},
		{"parameter named like it holds a number: calling it fails", "function N(a) { return a + 1 }\nfunction g(N) { return N(1) }\nBEGIN { print \"pre\"; print g(5); print \"post\" }\n", "pre\n", "runtime"},
		{"defined after its use", "BEGIN { print N(2), N(2, 9), N() }\nfunction N(a) { if (a is null) return \"none\"; return a * 3 }\n", "6 6 none\n", "ok"},
		{"recursive", "function N(d) { if (d == 0) return \"leaf\"; return \"(\" + N(d - 1) + \")\" }\nBEGIN { print N(2) }\n", "((leaf))\n", "ok"},
		{"counts its calls in a global", "function N(a) { calls++; return a }\nBEGIN { calls = 0; N(\"x\"); N(\"y\", 2, 3); N(); print calls }\n", "3\n", "ok"},
		{"no parameters, called with a format and arguments", "function N() { return \"mine\" }\nBEGIN { print N(\"%v|\\n\", 1), N() }\n", "mine mine\n", "ok"},
		{"second optional parameter", "function N(s, dflt) { if (s ~ /^[0-9]+$/) return +s; return dflt }\n{ print N($.n), N($.n, -1) }\n", "4 4\nnull -1\n", "ok"},
		{"calls the other builtin inside", "function N(x) { return \"<\" + " + otherCall + " + x + \">\" }\nBEGIN { print N(1), N('q') }\n", "<" + otherOut + "1> <" + otherOut + "q>\n", "ok"},
		{"is function", "function N(a) { return a }\nBEGIN { print N is function, N(1) is function, N is unknown }\n", "true false false\n", "ok"},
		{"called from a rule pattern, a match body and an argument list", "function N(a, b) { return a + b }\nN($.n, 1) > 0 { print \"hit\", match (1) { 1 => N(1, 2) }, [N(2, 2)], N(N(1, 1), N(1)) }\n", "hit 3 [4] 3\n", "ok"},
		// what the model decides (no closed-form expectation)
		{"global assigned over the function", "function N(a) { return a + 1 }\nBEGIN { print N(1); N = 5; print N, N is number; print N(1); print \"post\" }\n", "", ""},
		{"variable named like it, no function defined", "BEGIN { N = 3; print N, N is number; N++; print N; print N(1); print \"post\" }\n", "", ""},
		{"parameter named like it, then the name is used again outside", "function g(N) { print N; N = N + 1; return N }\nBEGIN { print g(1); print N is unknown, N is function; print " + n.probe + " }\n", "", ""},
		{"match binding named like it", "function g() { return match (4) { N => N + 1 } }\nBEGIN { print g(); print N is unknown; print " + n.probe + " }\n", "", ""},
		{"for-in variable named like it inside a function", "function g() { for (N in [1, 2]) print N\n return N }\nBEGIN { print g(); print N is unknown; print " + n.probe + " }\n", "", ""},
		{"for-in variable named like it in a rule", "BEGIN { for (N, i in [7, 8]) print N, i\n print N; print N(1); print \"post\" }\n", "", ""},
		{"two functions, one per name, calling each other", "function N(x) { if (x > 2) return x; return helper(x + 1) }\nfunction helper(x) { return N(x * 2) }\nBEGIN { print N(0), N(5) }\n", "", ""},
		{"not defined by the program", "BEGIN { print \"pre\"; print N is unknown, N is function; print N(1); print \"post\" }\n", "", ""},
		{"defined twice", "function N(a) { return \"first\" }\nfunction N(a, b) { return \"second\" }\nBEGIN { print N(1) }\n", "", ""},
	}
	for _, t := range ts {
		prog := strings.ReplaceAll(t.prog, "N(", N+"(")
		prog = strings.ReplaceAll(prog, "(N)", "("+N+")")
		prog = strings.ReplaceAll(prog, " N ", " "+N+" ")
		prog = strings.ReplaceAll(prog, " N,", " "+N+",")
		prog = strings.ReplaceAll(prog, " N;", " "+N+";")
		prog = strings.ReplaceAll(prog, " N\n", " "+N+"\n")
		prog = strings.ReplaceAll(prog, " N++", " "+N+"++")
		var files []File
		if strings.Contains(prog, "$.n") {
			files = []File{{Name: "in.json", Data: []byte(`[{"n":"4"},{"n":"x"}]`)}}
		}
		c := Case{Req: RunReq(prog, nil, files, false), Fields: c08Fields,
			Meta:       metaProg(prog, "function-name", N, "name-kind", n.kind, "what", t.what, "row", n.kind, "col", t.what),
			NonTrivial: func(i Resp) bool { return i["class"] == "ok" || i["class"] == "runtime" }}
		if t.class != "" {
			c.Oracle = c08OutOracle(t.want, t.class)
		}
		emit(c)
	}
}

func c08GenNames(r *rand.Rand, tier string, emit func(Case)) {
	names := c08FnNames()
	var pool []string
	for _, n := range names {
		if n.kind != "lookalike" {
			pool = append(pool, n.name)
		}
	}
	for _, n := range names {
		c08NameTemplates(r, n, emit)
		per := tierN(tier, 25, 400)
		if n.kind == "builtin" {
			per *= 6
		} else if n.kind == "lookalike" {
			per /= 3
		}
		for i := 0; i < per; i++ {
			// the parameters: ordinary names, or names of builtins / methods / types holding the arguments
			var params []string
			if chance(r, 0.5) {
				params = pool
			}
			c08CallBindingNamed(r, n.name, params, n.probe, n.probeOut, emit)
		}
	}
	// an ordinary function whose PARAMETERS are named like builtins / methods / types
	for i, m := 0, tierN(tier, 300, 4000); i < m; i++ {
		c08CallBindingNamed(r, "f", pool, "num('1'), json(null), 'ab'.length()", "1 null 2", emit)
	}
}

// ---------------------------------------------------------------- value-vs-reference

type c08Arr struct{ items []interface{} }
type c08Obj struct{ m map[string]interface{} }

func c08Pretty(v interface{}, quote bool) string {
	switch x := v.(type) {
	case *c08Arr:
		parts := make([]string, len(x.items))
		for i, e := range x.items {
			parts[i] = c08Pretty(e, true)
		}
		return "[" + strings.Join(parts, ", ") + "]"
	case *c08Obj:
		keys := make([]string, 0, len(x.m))
		for k := range x.m {
			keys = append(keys, k)
		}
		sort.Strings(keys)
		parts := make([]string, len(keys))
		for i, k := range keys {
			parts[i] = "\"" + k + "\": " + c08Pretty(x.m[k], true)
		}
		return "{" + strings.Join(parts, ", ") + "}"
	}
	return c07Pretty(v, quote)
}

func c08ValueRef(r *rand.Rand, emit func(Case)) {
	type start struct {
		lit string
		mk  func() interface{}
	}
	starts := []start{
		{"5", func() interface{} { return float64(5) }},
		{`"s"`, func() interface{} { return "s" }},
		{"true", func() interface{} { return true }},
		{"null", func() interface{} { return nil }},
		{"[1, 2]", func() interface{} { return &c08Arr{[]interface{}{float64(1), float64(2)}} }},
		{"[]", func() interface{} { return &c08Arr{nil} }},
		{"{a: 1}", func() interface{} { return &c08Obj{m: map[string]interface{}{"a": float64(1)}} }},
		{"[[1], 2]", func() interface{} { return &c08Arr{[]interface{}{&c08Arr{[]interface{}{float64(1)}}, float64(2)}} }},
		{"{o: {z: 0}}", func() interface{} {
			return &c08Obj{m: map[string]interface{}{"o": &c08Obj{m: map[string]interface{}{"z": float64(0)}}}}
		}},
		{"", func() interface{} { return c07Unset{} }}, // v is never assigned
	}
	st := pick(r, starts)
	v := st.mk()
	p := v // scalars are copied, containers shared: same Go pointer
	var ops []string
	n := 1 + r.Intn(3)
	for i := 0; i < n; i++ {
		var cands []func()
		cands = append(cands, func() { ops = append(ops, "p = 99"); p = float64(99) })
		cands = append(cands, func() { ops = append(ops, "p = [8]"); p = &c08Arr{[]interface{}{float64(8)}} })
		cands = append(cands, func() { ops = append(ops, "p = {n: 0}"); p = &c08Obj{m: map[string]interface{}{"n": float64(0)}} })
		switch x := p.(type) {
		case *c08Arr:
			cands = append(cands, func() { ops = append(ops, "p.push(5)"); x.items = append(x.items, float64(5)) })
			cands = append(cands, func() { ops = append(ops, "p.push(5)"); x.items = append(x.items, float64(5)) })
			if len(x.items) > 0 {
				cands = append(cands, func() { ops = append(ops, "p[0] = 6"); x.items[0] = float64(6) })
				cands = append(cands, func() { ops = append(ops, "p.pop()"); x.items = x.items[:len(x.items)-1] })
				if in, ok := x.items[0].(*c08Arr); ok {
					cands = append(cands, func() { ops = append(ops, "p[0].push(3)"); in.items = append(in.items, float64(3)) })
					cands = append(cands, func() { ops = append(ops, "q = p[0]\n  q.push(4)"); in.items = append(in.items, float64(4)) })
				}
			}
		case *c08Obj:
			cands = append(cands, func() { ops = append(ops, "p.k = 7"); x.m["k"] = float64(7) })
			cands = append(cands, func() { ops = append(ops, "p.a = 'A'"); x.m["a"] = "A" })
			if in, ok := x.m["o"].(*c08Obj); ok {
				cands = append(cands, func() { ops = append(ops, "p.o.z = 1"); in.m["z"] = float64(1) })
			}
		case float64:
			cands = append(cands, func() { ops = append(ops, "p++"); p = x + 1 })
			cands = append(cands, func() { ops = append(ops, "p += 2"); p = x + 2 })
		case string:
			cands = append(cands, func() { ops = append(ops, "p = p + '!'"); p = x + "!" })
		case c07Unset:
			// the parameter cell becomes a container; the caller's variable stays unset
			cands = append(cands, func() { ops = append(ops, "p[0] = 1"); p = &c08Arr{[]interface{}{float64(1)}} })
			cands = append(cands, func() { ops = append(ops, "p.k = 1"); p = &c08Obj{m: map[string]interface{}{"k": float64(1)}} })
		}
		pick(r, cands)()
	}
	set := ""
	ref := "v" // the argument expression: a variable, or a member / element holding the value
	if st.lit != "" {
		set = "v = " + st.lit + "\n  "
		switch r.Intn(6) {
		case 0:
			set, ref = "h = {v: "+st.lit+"}\n  ", "h.v"
		case 1:
			set, ref = "h = [0, "+st.lit+"]\n  ", "h[1]"
		case 2:
			set, ref = "h = {o: {v: "+st.lit+"}}\n  ", "h.o[\"v\"]"
		}
	}
	two := chance(r, 0.25)
	var prog, want string
	if two {
		// the same variable passed twice: both parameters see a shared container
		prog = "function f(p, p2) {\n  " + strings.Join(ops, "\n  ") + "\n  print \"in\", p, p2\n}\nBEGIN {\n  " + set + "f(" + ref + ", " + ref + ")\n  print \"out\", " + ref + ", p is unknown\n}\n"
		want = "in " + c08Pretty(p, false) + " " + c08Pretty(v, false) + "\nout " + c08Pretty(v, false) + " true\n"
	} else {
		prog = "function f(p) {\n  " + strings.Join(ops, "\n  ") + "\n  print \"in\", p\n  return p\n}\nBEGIN {\n  " + set + "w = f(" + ref + ")\n  print \"out\", " + ref + ", w, p is unknown\n}\n"
		want = "in " + c08Pretty(p, false) + "\nout " + c08Pretty(v, false) + " " + c08Pretty(p, false) + " true\n"
	}
	emit(Case{Req: RunReq(prog, nil, nil, false), Fields: c08Fields,
		Meta: metaProg(prog, "start", st.lit, "argument", ref), Oracle: c08OutOracle(want, "ok"),
		NonTrivial: func(i Resp) bool { return i["class"] == "ok" }})
}

// ---------------------------------------------------------------- dynamic-scoping (C07 AST + reference)

var c08Names = []string{"a", "b", "c", "t"}

type c08Scope struct {
	r     *rand.Rand
	funcs []*c07Func
	id    int
	nodes int
}

func (g *c08Scope) show(tag string) *c07Stmt {
	g.id++
	args := []*c07Expr{c07StrE(nil, fmt.Sprintf("%s%d", tag, g.id))}
	for _, n := range c08Names {
		if chance(g.r, 0.7) {
			args = append(args, c07Var(n))
		}
	}
	return &c07Stmt{kind: "print", args: args}
}

func (g *c08Scope) expr(d int) *c07Expr {
	switch k := g.r.Intn(6); {
	case k < 2 || d > 1:
		return c07Lit(g.r.Intn(4))
	case k < 4:
		return c07Var(pick(g.r, c08Names))
	default:
		return c07Bin("+", g.expr(d+1), g.expr(d+1))
	}
}

func (g *c08Scope) call(fnIdx int) *c07Expr {
	if fnIdx == 0 {
		return nil
	}
	f := g.funcs[g.r.Intn(fnIdx)]
	n := g.r.Intn(len(f.params) + 2)
	args := make([]*c07Expr, n)
	for i := range args {
		args[i] = g.expr(1)
	}
	return c07Call(f, args)
}

func (g *c08Scope) stmts(fnIdx int, depth int, inFunc bool) []*c07Stmt {
	var out []*c07Stmt
	n := 2 + g.r.Intn(4)
	for i := 0; i < n && g.nodes > 0; i++ {
		g.nodes--
		switch k := g.r.Intn(10); {
		case k < 3:
			out = append(out, &c07Stmt{kind: "assign", v1: pick(g.r, c08Names), cond: g.expr(0)})
		case k < 6:
			if e := g.call(fnIdx); e != nil {
				if chance(g.r, 0.5) {
					out = append(out, &c07Stmt{kind: "assign", v1: pick(g.r, c08Names), cond: e})
				} else {
					out = append(out, &c07Stmt{kind: "call", cond: e})
				}
			}
		case k < 8 && depth < 3:
			// match with an identifier pattern binding one of the pool names; the subject is a
			// bare variable (the binding aliases it) or an expression
			s := &c07Stmt{kind: "match"}
			if chance(g.r, 0.5) {
				s.v1 = pick(g.r, c08Names)
				s.cond = c07Var(s.v1)
			} else {
				s.cond = g.expr(0)
				for _, n := range c08Names {
					if s.cond.text == n { // a bare variable after all: the binding aliases it
						s.v1 = n
					}
				}
			}
			if chance(g.r, 0.4) {
				s.cases = append(s.cases, c07Case{lits: []int{g.r.Intn(3)}, body: &c07Stmt{kind: "block", list: g.stmts(fnIdx, depth+1, inFunc)}})
			}
			s.cases = append(s.cases, c07Case{bind: pick(g.r, c08Names), body: &c07Stmt{kind: "block", list: g.stmts(fnIdx, depth+1, inFunc)}})
			out = append(out, s)
		case k < 9 && depth < 3:
			s := &c07Stmt{kind: "if", cond: c07Bin(pick(g.r, []string{"<", "==", ">"}), g.expr(1), g.expr(1)),
				body: &c07Stmt{kind: "block", list: g.stmts(fnIdx, depth+1, inFunc)}}
			if chance(g.r, 0.5) {
				s.els = &c07Stmt{kind: "block", list: g.stmts(fnIdx, depth+1, inFunc)}
			}
			out = append(out, s)
		default:
			if inFunc && chance(g.r, 0.5) {
				out = append(out, &c07Stmt{kind: "return", cond: g.expr(0)})
			}
		}
		out = append(out, g.show("s"))
	}
	if len(out) == 0 {
		out = append(out, g.show("s"))
	}
	return out
}

func c08Scoping(r *rand.Rand, emit func(Case)) {
	g := &c08Scope{r: r}
	p := &c07Prog{}
	nf := 1 + r.Intn(4)
	for i := 0; i < nf; i++ {
		f := &c07Func{name: fmt.Sprintf("f%d", i), cost: 1}
		names := append([]string{}, c08Names...)
		r.Shuffle(len(names), func(i, j int) { names[i], names[j] = names[j], names[i] })
		f.params = names[:r.Intn(4)]
		for range f.params {
			f.kinds = append(f.kinds, "int")
		}
		g.nodes = 3 + r.Intn(6)
		f.body = &c07Stmt{kind: "block", list: append([]*c07Stmt{g.show("f")}, g.stmts(i, 0, true)...)}
		g.funcs = append(g.funcs, f)
		p.funcs = append(p.funcs, f)
	}
	g.nodes = 6 + r.Intn(10)
	body := &c07Stmt{kind: "block", list: g.stmts(nf, 0, false)}
	// afterwards: which names are still unset
	var unk []*c07Expr
	unk = append(unk, c07StrE(nil, "unset:"))
	for _, n := range c08Names {
		name := n
		unk = append(unk, &c07Expr{name + " is unknown", func(in *c07Interp) (interface{}, c07Sig) {
			_, u := in.lookup(name).v.(c07Unset)
			return u, c07None
		}})
	}
	body.list = append(body.list, &c07Stmt{kind: "print", args: unk})
	p.rules = append(p.rules, c07Rule{kind: "BEGIN", body: body})
	if chance(r, 0.5) {
		p.rules = append(p.rules, c07Rule{kind: "END", body: &c07Stmt{kind: "block", list: []*c07Stmt{g.show("e")}}})
	}
	text := p.text()
	c := Case{Req: RunReq(text, nil, nil, false), Fields: c08Fields, Meta: metaProg(text)}
	in := &c07Interp{}
	if sig := in.run(p, nil); sig == c07None {
		c.Oracle = c08OutOracle(in.out.String(), "ok")
	}
	emit(c)
}

// ---------------------------------------------------------------- return paths and recursion

func c08Num(f float64) string { return strconv.FormatFloat(f, 'f', -1, 64) }

func c08ReturnRecursion(r *rand.Rand, emit func(Case)) {
	var prog, doc, want string
	wantClass := "ok"
	switch r.Intn(13) {
	case 0: // return from inside for-in + if + match block body
		n, k := r.Intn(6), r.Intn(6)
		var el []string
		vals := make([]int, n)
		for i := range vals {
			vals[i] = r.Intn(6)
			el = append(el, fmt.Sprint(vals[i]))
		}
		doc = "[[" + strings.Join(el, ",") + "]]"
		prog = fmt.Sprintf("function find(a, k) {\n  for (x, i in a) {\n    if (x > k) {\n      match (i) {\n        0 => { return \"first\" }\n        j => { return j }\n      }\n      print \"unreachable\"\n    }\n  }\n}\n{ print find($, %d), x is unknown, j is unknown }\n", k)
		res := "null"
		for i, v := range vals {
			if v > k {
				res = fmt.Sprint(i)
				if i == 0 {
					res = "first"
				}
				break
			}
		}
		want = res + " true true\n"
	case 1: // return from a while inside a while; the return value is that of the executed return
		a, b := 1+r.Intn(4), 1+r.Intn(4)
		prog = fmt.Sprintf("function g(a, b) {\n  i = 0\n  while (i < 9) {\n    i++\n    j = 0\n    while (j < 9) {\n      j++\n      if (i == a && j == b) return i * 10 + j\n    }\n  }\n  return -1\n}\nBEGIN { print g(%d, %d), g(20, 1), i is unknown }\n", a, b)
		want = fmt.Sprintf("%d -1 true\n", a*10+b)
	case 2: // no return / bare return / stale return slot
		prog = "function five() { return 5 }\nfunction none() { five() }\nfunction bare() { five()\n return }\nfunction late() { x = five()\n if (false) return 1 }\nBEGIN { print five(), none(), bare(), late(), five() }\n"
		want = "5 null null null 5\n"
	case 3: // factorial
		n := r.Intn(22)
		prog = fmt.Sprintf("function fact(n) { if (n <= 1) return 1\n return n * fact(n - 1) }\nBEGIN { print fact(%d) }\n", n)
		f := 1.0
		for i := 2; i <= n; i++ {
			f = float64(i) * f
		}
		want = c08Num(f) + "\n"
	case 4: // fibonacci (two recursive calls per level)
		n := r.Intn(17)
		prog = fmt.Sprintf("function fib(n) { if (n < 2) return n\n return fib(n - 1) + fib(n - 2) }\nBEGIN { print fib(%d), n is unknown }\n", n)
		a, b := 0, 1
		for i := 0; i < n; i++ {
			a, b = b, a+b
		}
		want = fmt.Sprintf("%d true\n", a)
	case 5: // mutual recursion
		n := r.Intn(300)
		prog = fmt.Sprintf("function ev(n) { if (n == 0) return true\n return od(n - 1) }\nfunction od(n) { if (n == 0) return false\n return ev(n - 1) }\nBEGIN { print ev(%d), od(%d) }\n", n, n)
		want = fmt.Sprintf("%v %v\n", n%2 == 0, n%2 == 1)
	case 6: // depth-1000 list walk over a nested document
		depth := []int{0, 1, 2, 999, 1000, 1001, 1500}[r.Intn(7)]
		var sb strings.Builder
		sum := 0
		for i := 0; i < depth; i++ {
			fmt.Fprintf(&sb, `{"v":%d,"nx":`, i%10)
			sum += i % 10
		}
		sb.WriteString("null")
		sb.WriteString(strings.Repeat("}", depth))
		doc = "[" + sb.String() + "]"
		prog = "function len(l) { if (l is null) return 0\n return 1 + len(l.nx) }\nfunction sum(l, acc) { if (l is null) return acc\n return sum(l.nx, acc + l.v) }\n{ print len($), sum($, 0), l is unknown }\n"
		want = fmt.Sprintf("%d %d true\n", depth, sum)
	case 7: // recursion through a match body (expression body) and through a block body
		n := r.Intn(400)
		prog = fmt.Sprintf("function f(n) { return match (n) { 0 => 0, x => 1 + f(x - 1) } }\nfunction g(n) { match (n) { 0 => { return 0 }\n x => { return 2 + g(x - 1) } } }\nBEGIN { print f(%d), g(%d), x is unknown }\n", n, n)
		want = fmt.Sprintf("%d %d true\n", n, 2*n)
	case 8: // the documented example: a name first created in a callee vanishes
		prog = "function f() { t = 1\n return t }\nBEGIN { print f(), t is unknown }\n"
		want = "1 true\n"
	case 9: // callee reads and assigns the caller's locals; parameters shadow
		prog = "function g() { return a }\nfunction f(a) { return g() }\nfunction set() { z = z + 1 }\nfunction sh(z) { z = 100\n return z }\nBEGIN { z = 1; set(); set(); print f(7), z, sh(5), z, a is unknown }\n"
		want = "7 3 100 3 true\n"
	case 10: // match-bound names are invisible after the case; a binding shadows
		prog = "BEGIN { x = 1\n r = match (5) { x => x + 1 }\n print r, x\n match ([1, 2]) { [p, q] => { w = p + q } }\n print p is unknown, q is unknown, w is unknown }\n"
		want = "6 1\ntrue true true\n"
	case 11: // a caller's local created in a function is visible to its callees, and gone afterwards
		prog = "function inner() { loc = loc + 1\n return loc }\nfunction outer() { loc = 10\n inner()\n return inner() }\nBEGIN { print outer(), inner()\n print loc is unknown, inner()\n print loc }\n"
		// (the `loc is unknown` test itself creates loc in the root frame: the next inner() then finds and keeps it)
		want = "12 1\ntrue 1\n1\n"
	default: // Ackermann (deeply nested small recursion)
		m, n := r.Intn(3), r.Intn(4)
		prog = fmt.Sprintf("function ack(m, n) { if (m == 0) return n + 1\n if (n == 0) return ack(m - 1, 1)\n return ack(m - 1, ack(m, n - 1)) }\nBEGIN { print ack(%d, %d) }\n", m, n)
		var ack func(m, n int) int
		ack = func(m, n int) int {
			if m == 0 {
				return n + 1
			}
			if n == 0 {
				return ack(m-1, 1)
			}
			return ack(m-1, ack(m, n-1))
		}
		want = fmt.Sprintf("%d\n", ack(m, n))
	}
	var files []File
	if doc != "" {
		files = []File{{Name: "in.json", Data: []byte(doc)}}
	}
	d := doc
	if len(d) > 300 {
		d = d[:300] + "…"
	}
	emit(Case{Req: RunReq(prog, nil, files, false), Fields: c08Fields,
		Meta: metaProg(prog, "input", d), Oracle: c08OutOracle(want, wantClass),
		NonTrivial: func(i Resp) bool { return i["class"] == "ok" }})
}

// ---------------------------------------------------------------- next / exit at depth

func c08NextExit(r *rand.Rand, emit func(Case)) {
	n := 1 + r.Intn(8)
	depth := r.Intn(6)
	k, x := r.Intn(8), r.Intn(8)
	where := r.Intn(4)
	// chain d0 -> d1 -> ... -> leaf; every second level goes through a match body
	var sb strings.Builder
	for i := 0; i < depth; i++ {
		callee := fmt.Sprintf("d%d", i+1)
		if i == depth-1 {
			callee = "leaf"
		}
		switch r.Intn(3) {
		case 0:
			fmt.Fprintf(&sb, "function d%d(v) { return %s(v) }\n", i, callee)
		case 1:
			fmt.Fprintf(&sb, "function d%d(v) { return match (v) { w => %s(w) } }\n", i, callee)
		default:
			fmt.Fprintf(&sb, "function d%d(v) { match (v) { w => { for (q in [1]) { return %s(w) } } } }\n", i, callee)
		}
	}
	entry := "d0"
	if depth == 0 {
		entry = "leaf"
	}
	fmt.Fprintf(&sb, "function leaf(v) { if (v == %d) next\n if (v == %d) exit\n return v }\n", k, x)
	var want strings.Builder
	switch where {
	case 0: // in a rule body
		sb.WriteString("{ print \"a\", " + entry + "($) }\n{ print \"b\", $ }\n")
	case 1: // in a rule pattern
		sb.WriteString(entry + "($) >= 0 { print \"a\", $ }\n{ print \"b\", $ }\n")
	case 2: // in an argument of print, after output-producing arguments were evaluated
		sb.WriteString("function say(v) { print \"say\", v\n return v }\n{ print say($), " + entry + "($) }\n{ print \"b\", $ }\n")
	default: // inside a loop inside the rule
		sb.WriteString("{ for (i = 0; i < 2; i++) { print \"a\", i, " + entry + "($) } }\n{ print \"b\", $ }\n")
	}
	sb.WriteString("END { print \"end\", v is unknown, w is unknown }\n")
	var recs []string
	done := false
	for i := 0; i < n; i++ {
		recs = append(recs, fmt.Sprint(i))
		if done {
			continue
		}
		if where == 2 {
			fmt.Fprintf(&want, "say %d\n", i)
		}
		if i == k {
			continue
		}
		if i == x {
			done = true
			continue
		}
		switch where {
		case 0, 1:
			fmt.Fprintf(&want, "a %d\nb %d\n", i, i)
		case 2:
			fmt.Fprintf(&want, "%d %d\nb %d\n", i, i, i)
		default:
			fmt.Fprintf(&want, "a 0 %d\na 1 %d\nb %d\n", i, i, i)
		}
	}
	if !done {
		want.WriteString("end true true\n")
	}
	prog := sb.String()
	doc := "[" + strings.Join(recs, ",") + "]"
	emit(Case{Req: RunReq(prog, nil, []File{{Name: "in.json", Data: []byte(doc)}}, false), Fields: c08Fields,
		Meta: metaProg(prog, "input", doc), Oracle: c08OutOracle(want.String(), "ok"),
		NonTrivial: func(i Resp) bool { return i["class"] == "ok" }})
}

// ---------------------------------------------------------------- long histories

func c08Long(r *rand.Rand, n int, variant int, implOnly bool, emit func(Case)) {
	var prog, want string
	var doc strings.Builder
	wantClass := "ok"
	switch variant {
	case 0:
		m1 := 2 + r.Intn(9)
		prog = fmt.Sprintf("function add(a, b) { return a + b }\nfunction skip(v) { if (v %% %d == 0) next\n return v }\nfunction cls(v) { return match (v %% 3) { 0 => \"z\", 1 => { return \"o\" }, x => x } }\n"+
			"{ n = add(n, 1) }\n{ v = skip($) }\n{ s = add(s, match ($ %% 2) { 0 => $, y => { t = t + 1 } }) }\n{ c = cls($); k = k + (c == \"o\") }\nEND { print n, s, t is unknown, k, y is unknown, a is unknown }\n", m1)
		doc.WriteByte('[')
		s, k := 0.0, 0
		for i := 0; i < n; i++ {
			if i > 0 {
				doc.WriteByte(',')
			}
			doc.WriteString(strconv.Itoa(i))
			if i%m1 == 0 {
				continue
			}
			if i%2 == 0 {
				s += float64(i)
			}
			if i%3 == 1 {
				k++
			}
		}
		doc.WriteByte(']')
		want = fmt.Sprintf("%d %s true %d true true\n", n, c08Num(s), k)
	case 1:
		// records are pairs; a pattern with a match, a recursive function, array patterns
		d := 3 + r.Intn(20)
		prog = fmt.Sprintf("function down(d) { if (d == 0) return 0\n return 1 + down(d - 1) }\nfunction pick(v) { return match (v) { [a, 0] => { return a }, [a, b] => a + b, x => x } }\n"+
			"match ($[1]) { 0 => false, q => true } { total = total + down($[0] %% %d) }\n{ m = m + pick($) }\nEND { print total, m, a is unknown, q is unknown, d is unknown }\n", d)
		doc.WriteByte('[')
		total, m := 0.0, 0.0
		for i := 0; i < n; i++ {
			if i > 0 {
				doc.WriteByte(',')
			}
			fmt.Fprintf(&doc, "[%d,%d]", i, i%7)
			if i%7 != 0 {
				total += float64(i % d)
				m += float64(i + i%7)
			} else {
				m += float64(i)
			}
		}
		doc.WriteByte(']')
		want = fmt.Sprintf("%s %s true true true\n", c08Num(total), c08Num(m))
	case 2:
		// exit 30 calls deep after many completed deep calls; END must not run, depth must be 0
		stop := n - 1 - r.Intn(n/4+1)
		dd := 30
		if n > 50000 {
			dd = 8 // 200 000 x 31 nested calls takes the model ~40 s; keep it well inside its time limit
		}
		prog = fmt.Sprintf("function deep(d, v) { if (d == 0) { if (v == %d) exit\n return v }\n return deep(d - 1, v) }\n{ last = deep(%d, $) }\n$ %% %d == 0 { print last }\nEND { print \"never\" }\n", stop, dd, n/4+1)
		doc.WriteByte('[')
		var w strings.Builder
		for i := 0; i < n; i++ {
			if i > 0 {
				doc.WriteByte(',')
			}
			doc.WriteString(strconv.Itoa(i))
			if i < stop && i%(n/4+1) == 0 {
				fmt.Fprintf(&w, "%d\n", i)
			}
		}
		doc.WriteByte(']')
		want = w.String()
	case 3:
		// after n completed calls and matches, recursion 4000 deep still works ...
		prog = "function f(n) { if (n <= 1) return 1\n return 1 + f(n - 1) }\nfunction g(v) { return match (v) { x => { return x } } }\n{ c = c + g(1) + match ($) { y => 0 } }\nEND { print c\n print f(4000) }\n"
		doc.WriteString("[" + strings.TrimSuffix(strings.Repeat("1,", n), ",") + "]")
		want = fmt.Sprintf("%d\n4000\n", n)
	default:
		// ... while genuinely nested recursion beyond the limit is a runtime error (output kept)
		prog = "function f(n) { if (n <= 1) return 1\n return 1 + f(n - 1) }\nfunction g(v) { return match (v) { x => { return x } } }\n{ c = c + g(1) + match ($) { y => 0 } }\nEND { print c\n print f(4097) }\n"
		doc.WriteString("[" + strings.TrimSuffix(strings.Repeat("1,", n), ",") + "]")
		want = fmt.Sprintf("%d\n", n)
		wantClass = "runtime"
	}
	base := c08OutOracle(want, wantClass)
	emit(Case{Req: RunReq(prog, nil, []File{{Name: "in.json", Data: []byte(doc.String())}}, false), Fields: c08Fields,
		Meta: metaProg(prog, "input", fmt.Sprintf("array of %d records", n), "variant", fmt.Sprint(variant)),
		Oracle: func(i Resp) string {
			if wantClass == "ok" && strings.Contains(i["msg"], "call_depth") {
				return "call depth limit hit by completed (not nested) calls: " + i["msg"]
			}
			return base(i)
		},
		ImplOnly:   implOnly,
		NonTrivial: func(i Resp) bool { return i["class"] == wantClass }})
}

// ---------------------------------------------------------------- argument-snapshots
//
// Arguments are evaluated left to right and each one is COPIED when it is evaluated
// (src/evaluator.go evalExprList(..., true)): scalars are snapshots, containers are
// shared. So what a later argument does to the caller's variable cannot change an
// earlier argument — except through a container both refer to.

type c08Snap struct {
	i float64
	s string
	b bool
	x interface{} // unset at the start
	a *c08Arr     // numbers
	g *c08Obj     // {n: number}
}

type c08SArg struct {
	text string
	on   string // the variable it reads / changes: i s b x a g
	eff  bool   // has a side effect
	ok   func(st *c08Snap) bool
	eval func(st *c08Snap) interface{}
}

func c08SnapArgs() []c08SArg {
	num := func(v interface{}) float64 { return c07Num(v) }
	gn := func(st *c08Snap) float64 { return num(st.g.m["n"]) }
	a0num := func(st *c08Snap) bool {
		if len(st.a.items) == 0 {
			return false
		}
		_, ok := st.a.items[0].(float64)
		return ok
	}
	elem := func(k int) func(st *c08Snap) interface{} {
		return func(st *c08Snap) interface{} {
			if k < len(st.a.items) {
				return st.a.items[k]
			}
			return nil
		}
	}
	return []c08SArg{
		// readers
		{text: "i", on: "i", eval: func(st *c08Snap) interface{} { return st.i }},
		{text: "(i)", on: "i", eval: func(st *c08Snap) interface{} { return st.i }},
		{text: "i + 0", on: "i", eval: func(st *c08Snap) interface{} { return st.i }},
		{text: "s", on: "s", eval: func(st *c08Snap) interface{} { return st.s }},
		{text: "(s)", on: "s", eval: func(st *c08Snap) interface{} { return st.s }},
		{text: "s + '.'", on: "s", eval: func(st *c08Snap) interface{} { return st.s + "." }},
		{text: "b", on: "b", eval: func(st *c08Snap) interface{} { return st.b }},
		{text: "x", on: "x", eval: func(st *c08Snap) interface{} { return st.x }},
		{text: "g.n", on: "g", eval: func(st *c08Snap) interface{} { return gn(st) }},
		{text: "g[\"n\"]", on: "g", eval: func(st *c08Snap) interface{} { return gn(st) }},
		{text: "g", on: "g", eval: func(st *c08Snap) interface{} { return st.g }},
		{text: "a[0]", on: "a", eval: elem(0)},
		{text: "a[1]", on: "a", eval: elem(1)},
		{text: "a.length()", on: "a", eval: func(st *c08Snap) interface{} { return float64(len(st.a.items)) }},
		{text: "a", on: "a", eval: func(st *c08Snap) interface{} { return st.a }},
		// side effects
		{text: "i++", on: "i", eff: true, eval: func(st *c08Snap) interface{} { st.i++; return st.i - 1 }},
		{text: "++i", on: "i", eff: true, eval: func(st *c08Snap) interface{} { st.i++; return st.i }},
		{text: "i--", on: "i", eff: true, eval: func(st *c08Snap) interface{} { st.i--; return st.i + 1 }},
		{text: "i = 7", on: "i", eff: true, eval: func(st *c08Snap) interface{} { st.i = 7; return st.i }},
		{text: "(i = 70)", on: "i", eff: true, eval: func(st *c08Snap) interface{} { st.i = 70; return st.i }},
		{text: "i += 5", on: "i", eff: true, eval: func(st *c08Snap) interface{} { st.i += 5; return st.i }},
		{text: "seti(9)", on: "i", eff: true, eval: func(st *c08Snap) interface{} { st.i = 9; return st.i }},
		{text: "id(i++)", on: "i", eff: true, eval: func(st *c08Snap) interface{} { st.i++; return st.i - 1 }},
		{text: "s = \"new\"", on: "s", eff: true, eval: func(st *c08Snap) interface{} { st.s = "new"; return st.s }},
		{text: "s = s + \"!\"", on: "s", eff: true, eval: func(st *c08Snap) interface{} { st.s += "!"; return st.s }},
		{text: "sets(\"z\")", on: "s", eff: true, eval: func(st *c08Snap) interface{} { st.s = "z"; return st.s }},
		{text: "b = !b", on: "b", eff: true, eval: func(st *c08Snap) interface{} { st.b = !st.b; return st.b }},
		{text: "x = 3", on: "x", eff: true, eval: func(st *c08Snap) interface{} { st.x = float64(3); return st.x }},
		{text: "(x = [1])", on: "x", eff: true, eval: func(st *c08Snap) interface{} {
			st.x = &c08Arr{[]interface{}{float64(1)}}
			return st.x
		}},
		{text: "x = \"X\"", on: "x", eff: true, eval: func(st *c08Snap) interface{} { st.x = "X"; return st.x }},
		{text: "bump()", on: "g", eff: true, eval: func(st *c08Snap) interface{} { st.g.m["n"] = gn(st) + 10; return gn(st) }},
		{text: "g.n++", on: "g", eff: true, eval: func(st *c08Snap) interface{} { st.g.m["n"] = gn(st) + 1; return gn(st) - 1 }},
		{text: "g.n = 0", on: "g", eff: true, eval: func(st *c08Snap) interface{} { st.g.m["n"] = float64(0); return float64(0) }},
		{text: "g.n += 2", on: "g", eff: true, eval: func(st *c08Snap) interface{} { st.g.m["n"] = gn(st) + 2; return gn(st) }},
		{text: "g = {n: 5}", on: "g", eff: true, eval: func(st *c08Snap) interface{} {
			st.g = &c08Obj{m: map[string]interface{}{"n": float64(5)}}
			return st.g
		}},
		{text: "a.pop()", on: "a", eff: true, eval: func(st *c08Snap) interface{} {
			if len(st.a.items) == 0 {
				return nil
			}
			v := st.a.items[len(st.a.items)-1]
			st.a.items = st.a.items[:len(st.a.items)-1]
			return v
		}},
		{text: "a.popfirst()", on: "a", eff: true, eval: func(st *c08Snap) interface{} {
			if len(st.a.items) == 0 {
				return nil
			}
			v := st.a.items[0]
			st.a.items = st.a.items[1:]
			return v
		}},
		{text: "a[0] = 5", on: "a", eff: true, ok: func(st *c08Snap) bool { return len(st.a.items) > 0 }, eval: func(st *c08Snap) interface{} {
			st.a.items[0] = float64(5)
			return float64(5)
		}},
		{text: "a[0]++", on: "a", eff: true, ok: a0num, eval: func(st *c08Snap) interface{} {
			v := num(st.a.items[0])
			st.a.items[0] = v + 1
			return v
		}},
		{text: "a.push(99)", on: "a", eff: true, eval: func(st *c08Snap) interface{} {
			st.a.items = append(st.a.items, float64(99))
			return st.a
		}},
		{text: "a = [7]", on: "a", eff: true, eval: func(st *c08Snap) interface{} {
			st.a = &c08Arr{[]interface{}{float64(7)}}
			return st.a
		}},
	}
}

const c08SnapFuncs = "function id(v) { return v }\nfunction seti(v) { i = v\n return v }\nfunction sets(v) { s = v\n return v }\nfunction bump() { g.n = g.n + 10\n return g.n }\n"

// c08SnapList draws 2-5 arguments; at least one reader is followed by a side effect on the same variable.
func c08SnapList(r *rand.Rand, st *c08Snap) (texts []string, vals []interface{}) {
	pool := c08SnapArgs()
	n := 2 + r.Intn(4)
	on := pick(r, []string{"i", "i", "s", "g", "g", "a", "a", "x", "b"})
	rd, ef := r.Intn(n-1), 0
	ef = rd + 1 + r.Intn(n-1-rd)
	for k := 0; k < n; k++ {
		var c c08SArg
		for tries := 0; ; tries++ {
			c = pick(r, pool)
			if c.ok != nil && !c.ok(st) {
				continue
			}
			if tries < 200 {
				if k == rd && (c.eff || c.on != on) {
					continue
				}
				if k == ef && (!c.eff || c.on != on) {
					continue
				}
			}
			break
		}
		texts = append(texts, c.text)
		vals = append(vals, c.eval(st))
	}
	return
}

func c08SnapCase(r *rand.Rand, emit func(Case)) {
	st := &c08Snap{i: 1, s: "old", b: true, x: c07Unset{}, a: &c08Arr{[]interface{}{float64(10), float64(20), float64(30)}}, g: &c08Obj{m: map[string]interface{}{"n": float64(1)}}}
	init := "i = 1; s = \"old\"; b = true; a = [10, 20, 30]; g = {n: 1}"
	after := "print \"after\", i, s, b, x, a, g"
	texts, vals := c08SnapList(r, st)
	list := strings.Join(texts, ", ")
	afterLine := func() string {
		return "after " + c08Pretty(st.i, false) + " " + st.s + " " + fmt.Sprint(st.b) + " " + c08Pretty(st.x, false) + " " + c08Pretty(st.a, false) + " " + c08Pretty(st.g, false) + "\n"
	}
	ctx := r.Intn(100)
	var stmt, want, context string
	exact := true
	switch {
	case ctx < 60:
		// a user function: parameters by position, surplus arguments evaluated and dropped, missing ones null
		arity := pick(r, []int{len(texts), len(texts), len(texts), len(texts) - 1, len(texts) + 1})
		params := make([]string, arity)
		line := "F"
		for k := range params {
			params[k] = fmt.Sprintf("p%d", k+1)
			if k < len(vals) {
				line += " " + c08Pretty(vals[k], false)
			} else {
				line += " null"
			}
		}
		fn := "function f(" + strings.Join(params, ", ") + ") { print " + strings.Join(append([]string{`"F"`}, params...), ", ")
		ret := ""
		switch r.Intn(4) {
		case 0:
			context = "user-call statement"
			stmt = "f(" + list + ")"
		case 1:
			context = "user-call assigned"
			fn += "\n return p1"
			stmt = "r = f(" + list + ")\n print \"r\", r"
			ret = "r " + c08Pretty(vals[0], false) + "\n"
			if arity == 0 {
				ret = "r <unknown>\n"
			}
		case 2:
			context = "user-call in print"
			fn += "\n return \"v\""
			stmt = "print \"got\", f(" + list + ")"
			ret = "got v\n"
		default:
			context = "user-call nested"
			fn += "\n return p1"
			stmt = "print \"got\", id(f(" + list + "))"
			ret = "got " + c08Pretty(vals[0], false) + "\n"
			if arity == 0 {
				ret = "got <unknown>\n"
			}
		}
		fn += " }\n"
		want = line + "\n" + ret
		stmt = "\x00" + fn + "\x00" + stmt
	case ctx < 70:
		context = "printf"
		exact = false
		stmt = "printf(\"" + strings.TrimSuffix(strings.Repeat("%v|", len(texts)), "|") + "\\n\", " + list + ")"
	case ctx < 78:
		context = "array literal"
		exact = false
		stmt = "r = [" + list + "]\n print r"
	case ctx < 86:
		context = "object literal"
		exact = false
		parts := make([]string, len(texts))
		for k, t := range texts {
			parts[k] = fmt.Sprintf("k%d: %s", k+1, t)
		}
		stmt = "r = {" + strings.Join(parts, ", ") + "}\n print r"
	case ctx < 94:
		context = "print list"
		exact = false
		stmt = "print " + list
	default:
		context = "method receiver and argument"
		exact = false
		stmt = pick(r, []string{"r = a.push(a.pop())\n print r", "r = a.push(a.length())\n print r", "print a.contains(a.popfirst())", "print s.split(s = \",\")", "s = \"a,b\"; print s.split((s = \"a\"))",
			"print a.push(a = [1])", "print g.pluck(g = {n: 2, m: 3})", "print i.floor(i = 2.5)", "print s.upper(s = \"low\")", "r = []; r.push(i); r.push(i++); r.push(i); print r"})
	}
	fn := ""
	if strings.HasPrefix(stmt, "\x00") {
		parts := strings.SplitN(stmt[1:], "\x00", 2)
		fn, stmt = parts[0], parts[1]
	}
	var prog string
	wrap := r.Intn(4)
	switch wrap {
	case 0: // the variables are locals of a function (the helpers reach them by dynamic scoping)
		prog = c08SnapFuncs + fn + "function run() {\n " + init + "\n " + stmt + "\n " + after + "\n}\nBEGIN { run() }\n"
	case 1: // in a rule body over one record
		prog = c08SnapFuncs + fn + "{\n " + init + "\n " + stmt + "\n " + after + "\n}\n"
	default:
		prog = c08SnapFuncs + fn + "BEGIN {\n " + init + "\n " + stmt + "\n " + after + "\n}\n"
	}
	var files []File
	if wrap == 1 {
		files = []File{{Name: "in.json", Data: []byte("[0]")}}
	}
	c := Case{Req: RunReq(prog, nil, files, false), Fields: c08Fields,
		Meta: metaProg(prog, "context", context, "arguments", list, "row", context)}
	if exact {
		want += afterLine()
		c.Meta["expected"] = want
		c.Oracle = c08OutOracle(want, "ok")
		c.NonTrivial = func(i Resp) bool { return i["class"] == "ok" }
	}
	emit(c)
}

// ---------------------------------------------------------------- match-exit-paths
//
// A match statement / expression whose selected body is LEFT BY EVERY EXIT PATH
// (normal completion of a block or an expression body, next, exit, break,
// continue, return, a runtime error; directly, through a nested match, or through
// a function called from an expression body), at rule level, in rule patterns,
// in BEGIN / END / BEGINFILE / ENDFILE, inside loops, inside functions and nested
// in each other.  Afterwards the pattern-bound names must be unbound again, the
// frame depth must be 0, and doing it thousands of times must not change anything.

type c08Exit struct {
	name     string
	stmt     string // the statement that leaves a block body
	sig      string // the statement inside the signalling function of expression bodies ("" = cannot leave an expression body that way)
	needLoop bool
	needFn   bool
	ends     string // "" | "run" (exit) | "error"
}

var c08Exits = []c08Exit{
	{"normal", "print \"stay\"", "v = v", false, false, ""},
	{"next", "next", "next", false, false, ""},
	{"exit", "exit", "exit", false, false, "run"},
	{"break", "break", "", true, false, ""},
	{"continue", "continue", "", true, false, ""},
	{"return-value", "return 1000", "", false, true, ""},
	{"return-bare", "return", "", false, true, ""},
	{"runtime-error", "zz = [] < 1", "zz = [] < 1", false, false, "error"},
}

const c08Unb = "print \"unb\", n is unknown, m is unknown, p is unknown, q is unknown"

// c08UnitForms: name -> builder(V subject text, trig func(name) condition text, exit) -> statements ("" = not applicable)
type c08UnitForm struct {
	name  string
	build func(v string, trig func(string) string, e c08Exit, k int) string
}

func c08Body(name string, trig func(string) string, e c08Exit) string {
	return fmt.Sprintf("print \"in\", %s\n if (%s) %s\n print \"done\", %s", name, trig(name), e.stmt, name)
}

var c08UnitForms = []c08UnitForm{
	{"stmt-block", func(v string, trig func(string) string, e c08Exit, k int) string {
		return fmt.Sprintf("match (%s) { 99 => { print \"no\" }\n n => { %s } }", v, c08Body("n", trig, e))
	}},
	{"assign-block", func(v string, trig func(string) string, e c08Exit, k int) string {
		return fmt.Sprintf("r = match (%s) { n => { %s } }\nprint \"r\", r", v, c08Body("n", trig, e))
	}},
	{"expr-body-call", func(v string, trig func(string) string, e c08Exit, k int) string {
		if e.sig == "" {
			return ""
		}
		return fmt.Sprintf("r = match (%s) { 99 => 0, n => sig(n) + 1 }\nprint \"r\", r", v)
	}},
	{"expr-body-call-array", func(v string, trig func(string) string, e c08Exit, k int) string {
		if e.sig == "" {
			return ""
		}
		return fmt.Sprintf("print \"r\", match ([%s, [7]]) { [p, [q]] => sig(p) + q }", v)
	}},
	{"array-pattern", func(v string, trig func(string) string, e c08Exit, k int) string {
		return fmt.Sprintf("match ([%s, 7]) { [p, 8] => { print \"no\" }\n [p, q] => { %s } }", v, c08Body("p", trig, e))
	}},
	{"nested-block", func(v string, trig func(string) string, e c08Exit, k int) string {
		return fmt.Sprintf("match (%s) { n => { print \"outer\", n\n match (n + 10) { m => { print \"inner\", m\n if (%s) %s\n print \"inner-done\" } }\n print \"outer-done\", m is unknown } }", v, trig("n"), e.stmt)
	}},
	{"nested-expr", func(v string, trig func(string) string, e c08Exit, k int) string {
		return fmt.Sprintf("r = match (%s) { n => match (n) { m => { %s } } }\nprint \"r\", r", v, c08Body("m", trig, e))
	}},
	{"nested-three", func(v string, trig func(string) string, e c08Exit, k int) string {
		return fmt.Sprintf("match (%s) { n => { match ([n]) { [p] => { match (p) { q => { %s } }\n print \"mid\", q is unknown } }\n print \"out\", p is unknown } }", v, c08Body("q", trig, e))
	}},
	{"print-arg", func(v string, trig func(string) string, e c08Exit, k int) string {
		return fmt.Sprintf("print \"v\", match (%s) { n => { %s } }, \"tail\"", v, c08Body("n", trig, e))
	}},
	{"condition", func(v string, trig func(string) string, e c08Exit, k int) string {
		return fmt.Sprintf("if (match (%s) { n => { %s } } == null) print \"cond\"", v, c08Body("n", trig, e))
	}},
	{"literal-case", func(v string, trig func(string) string, e c08Exit, k int) string {
		if k < 0 {
			return ""
		}
		return fmt.Sprintf("match (%s) { %d => { print \"lit\"\n %s\n print \"lit-done\" }\n n => { print \"other\", n } }", v, k, e.stmt)
	}},
	{"bare-exit-body", func(v string, trig func(string) string, e c08Exit, k int) string {
		// the whole body is the exit statement; the trigger is a literal pattern
		if k < 0 {
			return ""
		}
		return fmt.Sprintf("match (%s) { %d => { %s }\n n => { print \"other\", n } }", v, k, e.stmt)
	}},
	{"two-in-a-row", func(v string, trig func(string) string, e c08Exit, k int) string {
		return fmt.Sprintf("match (%s) { n => { %s } }\nmatch ([%s]) { [m] => { print \"second-match\", m, n is unknown } }", v, c08Body("n", trig, e), v)
	}},
	{"in-array-literal", func(v string, trig func(string) string, e c08Exit, k int) string {
		return fmt.Sprintf("r = [1, match (%s) { n => { %s } }, 3]\nprint \"r\", r", v, c08Body("n", trig, e))
	}},
	{"as-argument", func(v string, trig func(string) string, e c08Exit, k int) string {
		return fmt.Sprintf("r = idv(match (%s) { n => { %s } })\nprint \"r\", r", v, c08Body("n", trig, e))
	}},
}

var c08Places = []string{"rule", "rule-if", "pattern", "loop-for", "loop-while", "loop-forin", "loop-nested", "function", "function-loop", "function-in-pattern", "function-in-loop",
	"BEGIN", "END", "BEGINFILE", "ENDFILE"}

func c08PlaceHasLoop(place string) bool {
	return strings.HasPrefix(place, "loop-") || place == "function-loop"
}
func c08PlaceHasFn(place string) bool {
	return strings.HasPrefix(place, "function") && place != "function-in-loop" || place == "function-in-loop"
}

// c08ExitProgram builds one program. unit(v) gives the unit statements for subject v.
// Returns "" when the combination is not well-scoped (break outside a loop ...).
func c08ExitProgram(place string, form c08UnitForm, e c08Exit, k int, trig func(string) string) string {
	if e.needLoop && (!c08PlaceHasLoop(place)) {
		return ""
	}
	if e.needFn && !strings.HasPrefix(place, "function") {
		return ""
	}
	unit := func(v string) string { return form.build(v, trig, e, k) }
	if unit("$") == "" {
		return ""
	}
	head := "function idv(v) { return v }\nfunction sig(v) { if (" + trig("v") + ") " + e.sig + "\n return v }\n"
	if e.sig == "" {
		head = "function idv(v) { return v }\n"
	}
	second := "{ print \"second\", $\n " + c08Unb + " }\nEND { print \"END\"\n " + c08Unb + " }\n"
	switch place {
	case "rule":
		return head + "{ print \"pre\", $\n " + unit("$") + "\n print \"post\", $\n " + c08Unb + " }\n" + second
	case "rule-if":
		return head + "{ print \"pre\", $\n if ($ >= 0) {\n " + unit("$") + "\n print \"in-if\" }\n else print \"neg\"\n print \"post\", $\n " + c08Unb + " }\n" + second
	case "pattern":
		if strings.Contains(unit("$"), "\nprint \"r\"") || !strings.HasPrefix(unit("$"), "match") || form.name == "two-in-a-row" {
			return ""
		}
		return head + "{ print \"pre\", $ }\n" + unit("$") + " == null { print \"body\", $\n " + c08Unb + " }\n" + second
	case "loop-for":
		return head + "{ print \"pre\", $\n for (i = 0; i < 3; i++) { print \"it\", i\n " + unit("$ + i") + "\n print \"it-end\", i }\n print \"post\", i\n " + c08Unb + " }\n" + second
	case "loop-while":
		return head + "{ print \"pre\", $\n w = 0\n while (w < 3) { w++\n " + unit("$ + w - 1") + "\n print \"w-end\", w }\n print \"post\", w\n " + c08Unb + " }\n" + second
	case "loop-forin":
		return head + "{ print \"pre\", $\n for (x, xi in [$, $ + 1, $ + 2]) { print \"x\", xi\n " + unit("x") + "\n print \"x-end\", xi }\n print \"post\", xi\n " + c08Unb + " }\n" + second
	case "loop-nested":
		return head + "{ print \"pre\", $\n for (i = 0; i < 2; i++) { for (ch, j in \"ab\") { print \"it\", i, j\n " + unit("$ + i + j") + "\n print \"it-end\", i, j }\n print \"outer-end\", i }\n print \"post\", i, j\n " + c08Unb + " }\n" + second
	case "function":
		return head + "function fn(v) { print \"fn\", v\n " + unit("v") + "\n print \"fn-done\", v\n " + c08Unb + "\n return v + 100 }\n{ print \"pre\", $\n w = fn($)\n print \"post\", w\n " + c08Unb + " }\n" + second
	case "function-loop":
		return head + "function fn(v) { for (i = 0; i < 3; i++) { print \"fn-it\", i\n " + unit("v + i") + "\n print \"fn-it-end\", i }\n print \"fn-done\", v, i\n return v + 100 }\n{ print \"pre\", $\n w = fn($)\n print \"post\", w\n " + c08Unb + " }\n" + second
	case "function-in-pattern":
		return head + "function fn(v) { print \"fn\", v\n " + unit("v") + "\n print \"fn-done\", v\n return v + 100 }\n{ print \"pre\", $ }\nfn($) >= 0 { print \"body\", $\n " + c08Unb + " }\n" + second
	case "function-in-loop":
		return head + "function fn(v) { print \"fn\", v\n " + unit("v") + "\n print \"fn-done\", v\n return v + 100 }\n{ print \"pre\", $\n for (i = 0; i < 3; i++) { w = fn($ + i)\n print \"w\", w }\n print \"post\", i\n " + c08Unb + " }\n" + second
	case "BEGIN", "END", "BEGINFILE", "ENDFILE":
		kk := k
		if kk < 0 {
			kk = 1
		}
		return head + fmt.Sprintf("%s { print \"pre\", %d\n %s\n print \"post-a\"\n %s }\n%s { print \"pre\", %d\n %s\n print \"post-b\"\n %s }\n%s { print \"third\"\n %s }\n{ print \"rule\", $\n %s }\nEND { print \"END\"\n %s }\n",
			place, kk+1, unit(fmt.Sprint(kk+1)), c08Unb, place, kk, unit(fmt.Sprint(kk)), c08Unb, place, c08Unb, c08Unb, c08Unb)
	}
	return ""
}

// c08ExitOracle: class as expected, depth 0, every "unb" line all true, and the output
// block of a record depends only on the record's value (blocks start with "pre <value>").
func c08ExitOracle(e c08Exit, mayTrigger bool) func(Resp) string {
	return func(i Resp) string {
		cl := i["class"]
		switch {
		case cl == "runtime" && strings.Contains(i["msg"], "call_depth"):
			return "call depth limit hit although no calls or matches are nested deeper than 4: " + i["msg"]
		case e.ends == "error" && mayTrigger && (cl == "runtime" || cl == "ok"):
			// the error of the match body, if the trigger value was reached (the model comparison decides which)
		case cl != "ok":
			return "expected class ok, got " + cl + " " + i["msg"]
		}
		if cl == "ok" && i["depth"] != "0" {
			return "frame depth after the run is " + i["depth"] + ", expected 0"
		}
		out := string(i.Bytes("out"))
		if k := strings.Index(out, "END\n"); k >= 0 && (k == 0 || out[k-1] == '\n') {
			for _, l := range strings.Split(out[k:], "\n") {
				if strings.HasPrefix(l, "unb ") && l != "unb true true true true" {
					return "in END a name bound by a match pattern is still visible: " + l
				}
			}
			out = out[:k]
		}
		blocks := map[string]string{}
		var cur, key string
		flush := func() string {
			if key == "" {
				return ""
			}
			if prev, ok := blocks[key]; ok && prev != cur {
				return fmt.Sprintf("the output for a record depends on the history: record %q gave %q earlier and %q later", key, c07Short(prev), c07Short(cur))
			}
			blocks[key] = cur
			return ""
		}
		lines := strings.SplitAfter(out, "\n")
		for li, l := range lines {
			if strings.HasPrefix(l, "unb ") && strings.TrimSpace(l) != "unb true true true true" {
				return fmt.Sprintf("a name bound by a match pattern is still visible after the match (output line %d): %s", li+1, strings.TrimSpace(l))
			}
			if strings.HasPrefix(l, "pre ") {
				if w := flush(); w != "" {
					return w
				}
				cur, key = "", l
			}
			cur += l
		}
		if cl == "ok" && e.ends == "" {
			// the last block is complete too
			if w := flush(); w != "" {
				return w
			}
		}
		return ""
	}
}

func c08ExitCase(place string, form c08UnitForm, e c08Exit, k int, recs []int, long bool, emit func(Case)) bool {
	trig := func(name string) string { return fmt.Sprintf("%s == %d", name, k) }
	prog := c08ExitProgram(place, form, e, k, trig)
	if prog == "" {
		return false
	}
	parts := make([]string, len(recs))
	for i, v := range recs {
		parts[i] = strconv.Itoa(v)
	}
	doc := "[" + strings.Join(parts, ",") + "]"
	in := doc
	if len(in) > 120 {
		in = fmt.Sprintf("array of %d records: %s…", len(recs), doc[:100])
	}
	wantClass := "ok"
	if e.ends == "error" {
		wantClass = "runtime"
	}
	emit(Case{Req: RunReq(prog, nil, []File{{Name: "in.json", Data: []byte(doc)}}, false), Fields: c08Fields,
		Meta:       metaProg(prog, "input", in, "place", place, "match-form", form.name, "exit-path", e.name, "trigger-value", fmt.Sprint(k), "row", e.name, "col", place),
		Oracle:     c08ExitOracle(e, true),
		NonTrivial: func(i Resp) bool { return i["class"] == wantClass || i["class"] == "ok" }})
	return true
}

func c08GenExitPaths(r *rand.Rand, tier string, emit func(Case)) {
	// short inputs: every place x unit form x exit path, trigger on one of the values the unit sees (or never)
	for _, place := range c08Places {
		for _, form := range c08UnitForms {
			for _, e := range c08Exits {
				reps := tierN(tier, 2, 6)
				for i := 0; i < reps; i++ {
					k := r.Intn(4)
					if i == reps-1 && chance(r, 0.3) {
						k = -1 // never triggered: only normal completion
					}
					var recs []int
					for j, n := 0, 2+r.Intn(7); j < n; j++ {
						recs = append(recs, r.Intn(3))
					}
					c08ExitCase(place, form, e, k, recs, false, emit)
				}
			}
		}
	}
	// long histories: the exit path taken at every record (or every second one) of a long input.
	// quick: one input of just over 4096 records per place x exit path (every record takes the path)
	// and a dozen of 10 000 records; thorough: every size
	long := func(place string, e c08Exit, n, period int) {
		form := pick(r, c08UnitForms)
		k := r.Intn(period)
		recs := make([]int, n)
		for i := range recs {
			recs[i] = i % period
		}
		if e.ends != "" {
			// exit and the runtime error end the run: all records complete normally, the last one triggers
			for i := range recs {
				recs[i] = 0
			}
			k = 1
			recs[n-1] = 1
		}
		for tries := 0; tries < 20 && !c08ExitCase(place, form, e, k, recs, true, emit); tries++ {
			form = pick(r, c08UnitForms)
		}
	}
	for _, place := range c08Places[:11] {
		for _, e := range c08Exits {
			if tier == "thorough" {
				for _, n := range []int{4095, 4096, 4097, 5000, 10000, 20000, 50000} {
					long(place, e, n, 1+r.Intn(2))
				}
				continue
			}
			long(place, e, pick(r, []int{4097, 4098, 4100, 4500}), 1)
			if chance(r, 0.15) {
				long(place, e, 10000, 2)
			}
		}
	}
}

// ---------------------------------------------------------------- argument-links
//
// Arguments that are not plain values: a MISSING member / index / nested chain
// (a null that remembers where it would be created), a character of a string, a
// past-the-end character, an unset variable, a method value.  The callee assigns
// to its parameter, ++ / compound-assigns it, passes it on, binds it in a match,
// stores it; the caller's containers and the document must not change.

var c08LinkArgs = []string{"$.nick", "$[9]", "$.a.b.c", "$.name.x", "$.tags[5]", "$.tags[-9 + 9 + 7]", "o.x", "o.n.zz", "o.x.y.z", "o['x']", "o[5]", "arr[9]", "arr[1][5]", "arr[9][9]", "arr[2]",
	"s[1]", "s[9]", "s[0]", "s.x", "u", "(o.x)", "match (1) { _ => o.x }", "match (o.x) { v => v }", "[o.x][0]", "{k: arr[9]}.k", "idl(o.x)", "o.n.m.deep", "$.name[0]", "$.name[7]", "arr[1].k",
	"arr.push", "o.length", "s.upper"}

type c08Callee struct{ name, def string }

var c08LinkCallees = []c08Callee{
	{"set", "function set(p) { p = 'n/a'\n return p }"},
	{"dflt", "function dflt(p) { if (p == null) { p = 'd' }\n return p }"},
	{"inc", "function inc(p) { p++\n return p }"},
	{"pre", "function pre(p) { q = ++p\n return q }"},
	{"dec", "function dec(p) { p--\n w = --p\n return p }"},
	{"plus", "function plus(p) { p += 1\n return p }"},
	{"times", "function times(p) { p *= 2\n p -= 1\n p /= 2\n return p }"},
	{"pass", "function set(p) { p = 'n/a'\n return p }\nfunction pass(p) { return set(p) }"},
	{"pass2", "function inc(p) { p++\n return p }\nfunction pass2(p) { x = inc(p)\n p = x\n return inc(p) }"},
	{"bind", "function bind(p) { match (p) { v => { v = 5 } }\n return p }"},
	{"bindarr", "function bindarr(p) { match ([p, 1]) { [v, w] => { v = 5\n w = v } }\n return p }"},
	{"copyset", "function copyset(p) { q = p\n q = 1\n p = q + 1\n return q }"},
	{"loop", "function loop(p) { for (i = 0; i < 2; i++) p += 1\n return p }"},
	{"forin", "function forin(p) { for (e in [p]) { e = 1 }\n for (e in [1, 2]) { p = e }\n return p }"},
	{"store", "function store(p) { keep = [p, {k: p}]\n keep[0] = 3\n keep[1].k = 4\n p = keep[0]\n return keep }"},
	{"second", "function second(x, p) { p = x\n x = 'x'\n return p }"},
	{"member", "function member(p) { p.k = 1\n return p }"},
	{"index", "function index(p) { p[0] = 1\n return p }"},
	{"ret", "function ret(p) { return p }"},
	{"swap", "function swap(p, q) { t = p\n p = q\n q = t\n return [p, q] }"},
}

const c08LinkShow = "print 'A', o, arr, s, u is unknown, $"

func c08LinkCase(r *rand.Rand, emit func(Case)) {
	doc := pick(r, []string{`{"name": "bob"}`, `{"name": "bob", "tags": ["x", "y"], "a": {"z": 1}}`, `{"name": "", "a": null, "tags": []}`})
	root := doc
	if chance(r, 0.5) {
		root = "[" + doc + "]"
	}
	n := 1 + r.Intn(3)
	defs := map[string]bool{}
	var funcs []string
	var body strings.Builder
	body.WriteString("  o = {a: 1, n: {m: 2}}\n  arr = [1, [2]]\n  s = 'ab'\n  " + c08LinkShow + "\n")
	var desc []string
	for k := 0; k < n; k++ {
		c := pick(r, c08LinkCallees)
		if (c.name == "member" || c.name == "index") && !chance(r, 0.3) {
			c = pick(r, c08LinkCallees[:16]) // these two fail on a null parameter: keep them rare
		}
		if !defs[c.name] {
			defs[c.name] = true
			funcs = append(funcs, c.def)
		}
		arg := pick(r, c08LinkArgs)
		if strings.Contains(arg, "push") || strings.Contains(arg, ".length") || strings.Contains(arg, ".upper") {
			if !chance(r, 0.2) {
				arg = pick(r, c08LinkArgs[:30])
			}
		}
		call := c.name + "(" + arg + ")"
		switch c.name {
		case "second":
			call = "second(" + pick(r, c08LinkArgs[:30]) + ", " + arg + ")"
		case "swap":
			call = "swap(" + arg + ", " + pick(r, c08LinkArgs[:30]) + ")"
		}
		desc = append(desc, call)
		switch r.Intn(4) {
		case 0:
			body.WriteString("  print 'R', " + call + "\n")
		case 1:
			body.WriteString("  r = " + call + "\n  r = 7\n  print 'R', r\n")
		case 2:
			body.WriteString("  r = [" + call + ", " + call + "]\n  print 'R', r\n")
		default:
			body.WriteString("  got = []\n  got.push(" + call + ")\n  got[0] = 9\n  print 'R', got\n")
		}
		body.WriteString("  " + c08LinkShow + "\n")
	}
	// the set of function texts may define `set` / `inc` twice (pass, pass2 bring their own): dedupe by line
	seen := map[string]bool{}
	var fl []string
	for _, f := range funcs {
		for _, part := range strings.Split(f, "\nfunction ") {
			if !strings.HasPrefix(part, "function ") {
				part = "function " + part
			}
			name := part[:strings.Index(part, "(")]
			if !seen[name] {
				seen[name] = true
				fl = append(fl, part)
			}
		}
	}
	prog := "function idl(x) { return x }\n" + strings.Join(fl, "\n") + "\n{\n" + body.String() + "}\nEND { print 'E', o, arr, s }\n"
	docB := []byte(root)
	emit(Case{Req: RunReq(prog, nil, []File{{Name: "in.json", Data: docB}}, true), Fields: []string{"class", "out", "depth", "json"},
		Meta: metaProg(prog, "input", root, "calls", strings.Join(desc, " ; "), "row", strings.SplitN(desc[0], "(", 2)[0]),
		Oracle: func(i Resp) string {
			if i["class"] != "ok" && i["class"] != "runtime" {
				return "class " + i["class"] + " " + i["msg"]
			}
			first := ""
			for _, l := range strings.Split(string(i.Bytes("out")), "\n") {
				if strings.HasPrefix(l, "A ") {
					if first == "" {
						first = l
					} else if l != first {
						return fmt.Sprintf("a callee working on its parameter changed the caller's data: before %q, after %q", first, l)
					}
				}
			}
			if i["class"] == "ok" {
				if i["depth"] != "0" {
					return "frame depth after the run is " + i["depth"]
				}
				same, err := c09SameJSON(i.Bytes("json"), docB)
				if err != nil {
					return "-o is not valid JSON: " + err.Error()
				}
				if !same {
					return "a callee working on its parameter changed the input document: -o = " + short(string(i.Bytes("json")))
				}
			}
			return ""
		},
		NonTrivial: func(i Resp) bool { return i["class"] == "ok" || i["class"] == "runtime" }})
}

func init() {
	register(Family{
		Name: "argument-links", Prop: "C08",
		Rule: "1-3 calls whose argument is a missing member / index / nested chain of a variable's object or array or of the document ($.nick, $[9], $.a.b.c, o.x.y.z, arr[9][9]), a character or past-the-end character of a string, an unset variable, such a value handed on by a match expression / literal / function, or a method value, to one of 20 callees that assign the parameter, default it when null, ++ / -- / compound-assign it, pass it on to another callee, bind it in a match, copy it, store it in containers, swap two parameters, or set a member / index on it; the result is printed, reassigned, put in a literal or pushed and overwritten; the caller's containers and the document are printed before and after each call. Oracle (implementation only): those prints never change, depth 0, and the -o document equals the input; model comparison on class, out, depth and the -o document",
		Gen: func(r *rand.Rand, tier string, emit func(Case)) {
			for i, n := 0, tierN(tier, 3000, 40000); i < n; i++ {
				c08LinkCase(r, emit)
			}
		},
	})
	register(Family{
		Name: "match-exit-paths", Prop: "C08",
		Rule: "a match statement or expression (15 forms: block body, assigned, expression body calling a signalling function, array patterns, nested in each other two and three deep, as print argument, condition, array element, call argument, literal case, body that is only the exit statement, two in a row) whose selected body is left by each of 8 exit paths (normal completion, next, exit, break, continue, return with and without value, runtime error) when the bound value equals a trigger value, placed at rule level, under an if, in a rule pattern, in for / while / for-in / nested loops, in a function (called from a rule body, a pattern, a loop; with the loop inside the function), and in BEGIN / END / BEGINFILE / ENDFILE; every well-scoped combination on short inputs, plus long inputs where the exit path is taken at every (second) record (quick: 4097-4500 records for every place x exit path and some of 10 000; thorough: 4095-50 000); after the match every record prints `n is unknown` for all pattern names. Oracle (implementation only): expected class, depth 0, every name unbound again, no call-depth error, and the output block of a record is a function of the record's value alone (history independence); model comparison on class, out, depth",
		Gen:  c08GenExitPaths,
	})
	register(Family{
		Name: "call-binding", Prop: "C08",
		Rule: "function of arity 0-4 called with 0-6 arguments (scalars, containers, unset, side-effecting calls) in one of 27 expression positions (operands, arguments, conditions, rule patterns, print lists, index, match subject/bodies, literals, method arguments, for clauses, return expressions); four return shapes; oracle: exact expected output (arguments evaluated left to right incl. surplus, parameters by position, missing = null, value of the executed return else null), depth 0",
		Gen: func(r *rand.Rand, tier string, emit func(Case)) {
			for i, n := 0, tierN(tier, 3000, 40000); i < n; i++ {
				c08CallBinding(r, emit)
			}
		},
	})
	register(Family{
		Name: "call-binding-names", Prop: "C08",
		Rule: "the call-binding cases (arity 0-4 x 0-6 arguments x 27 expression positions x 4 return shapes, exact expected output) for user functions whose NAME is that of a builtin (num json printf; 6x the share), of a method of the array / object / string / number prototypes (length push pop popfirst contains sort pluck split lower upper floor ceil round), of a type name of `is` (string number bool array object regex unknown) or a keyword look-alike (begin End functions returns iff inn matches print1 nexts True nulls index file ...), half of them with PARAMETERS named like builtins / methods / types, plus ordinary functions with such parameters; a first BEGIN rule prints an expression using the builtin / method / type test of the same name or another builtin (they keep working); 19 templates per name: parameter of another function and match / for-in variable named like it, defined after its use, recursive (the property text's `json` example), counting calls in a global, zero parameters called like printf, optional second parameter over a document, calling another builtin inside, `is function`, called from pattern / match body / argument list (10 with exact oracle), and global assigned over the function, variable named like it without a function, the name not defined, defined twice, mutual recursion (model decides); oracle: exact expected output -- the call binds the user function's parameters and runs its body whatever else bears the name; every program is also compared with the model",
		Gen:  c08GenNames,
	})
	register(Family{
		Name: "value-vs-reference", Prop: "C08",
		Rule: "callee applies 1-3 random operations to its parameter (assign, ++, rebind to a new container, push/pop, element and member writes, nested container writes, same variable passed twice); the argument is a variable or (half of the non-unset starts) a member / element / nested member holding the value; oracle: exact output from a small sharing simulation (scalars by value, containers shared until rebound, parameter invisible after the call)",
		Gen: func(r *rand.Rand, tier string, emit func(Case)) {
			for i, n := 0, tierN(tier, 1500, 20000); i < n; i++ {
				c08ValueRef(r, emit)
			}
		},
	})
	register(Family{
		Name: "dynamic-scoping", Prop: "C08",
		Rule: "random programs of assignments, calls (0 to arity+1 arguments), matches with identifier patterns (subject a bare variable: alias, or an expression) and ifs over the deliberately clashing names a b c t, in up to 4 functions whose parameters are drawn from the same names; a print of all names after every statement and `is unknown` of each at the end; oracle: trace of the C07 reference interpreter (dynamic lookup through all frames, creation in the innermost frame, frames dropped after calls and match bodies)",
		Gen: func(r *rand.Rand, tier string, emit func(Case)) {
			for i, n := 0, tierN(tier, 3000, 40000); i < n; i++ {
				c08Scoping(r, emit)
			}
		},
	})
	register(Family{
		Name: "return-recursion", Prop: "C08",
		Rule: "parametric templates with closed-form expectations: return from nested for-in/if/match block and from nested whiles, no return / bare return / stale return slot, factorial, fibonacci, mutual recursion, depth 0-1500 list walks over a nested document, recursion through match bodies, Ackermann, and the dynamic-scoping examples of the property text",
		Gen: func(r *rand.Rand, tier string, emit func(Case)) {
			for i, n := 0, tierN(tier, 600, 6000); i < n; i++ {
				c08ReturnRecursion(r, emit)
			}
		},
	})
	register(Family{
		Name: "next-exit-depth", Prop: "C08",
		Rule: "next and exit executed 0-5 calls deep (levels through plain calls, match expression bodies, match block bodies inside for-in) from a rule body, a rule pattern, a print argument list and a loop, over 1-8 records followed by a second rule and END; oracle: exact output, class ok, depth 0, callee names unset in END",
		Gen: func(r *rand.Rand, tier string, emit func(Case)) {
			for i, n := 0, tierN(tier, 1200, 12000); i < n; i++ {
				c08NextExit(r, emit)
			}
		},
	})
	register(Family{
		Name: "argument-snapshots", Prop: "C08",
		Rule: "argument lists of 2-5 expressions over the caller's variables i, s, b, x (unset), a (array), g (object) in which a later argument has a side effect (i++, ++i, i = 7, i += 5, a global assigned inside a called function, s = ..., g.n++, bump(), g = {..}, a.pop(), a.popfirst(), a[0] = 5, a[0]++, a.push(99), a = [7], x = 3, (x = [1])) on what an earlier argument reads (i, (i), s, g.n, g[\"n\"], a[0], a[1], a.length(), x, b, and the containers a, g themselves); the variables are globals, locals of a function, or set in a rule body; 60 %: a user function of matching, smaller or larger arity, as a statement, assigned, in a print list, nested in another call — oracle (implementation only): every parameter prints the value its argument had WHEN IT WAS EVALUATED (scalars are snapshots, containers are shared and show later changes, a rebound variable leaves the earlier argument on the old container), the variables afterwards show every side effect once, depth 0; 40 %: the same lists as printf arguments, array literal items, object literal values, print-list items, and method receiver/argument pairs — compared with the model only (the property speaks about calls of user functions)",
		Gen: func(r *rand.Rand, tier string, emit func(Case)) {
			for i, n := 0, tierN(tier, 3000, 40000); i < n; i++ {
				c08SnapCase(r, emit)
			}
		},
	})
	register(Family{
		Name: "long-history", Prop: "C08",
		Rule: "an array root of 10 000 (quick) / 50 000 and 200 000 (thorough) records through rules that call functions (incl. recursion, next inside a function, exit 30 calls deep) and evaluate match expressions with expression and block bodies, in rule bodies and patterns; END prints a summary; oracle: summary as simulated in Go, class ok, depth 0, no call-depth error; plus: 4000-deep recursion still works after the history and 4097-deep is a runtime error with the prior output kept",
		Gen: func(r *rand.Rand, tier string, emit func(Case)) {
			sizes := []int{10000}
			if tier == "thorough" {
				sizes = []int{10000, 50000, 200000}
			}
			for _, n := range sizes {
				for v := 0; v < 5; v++ {
					c08Long(r, n, v, false, emit)
				}
			}
			// short histories around the old failure point (4096 completed calls / matches)
			for _, n := range []int{4095, 4096, 4097, 5000} {
				for v := 0; v < 5; v++ {
					c08Long(r, n, v, false, emit)
				}
			}
		},
	})
}

// ---------------------------------------------------------------- argument-recursion

// A call site with two or more arguments, one (or two) of which recurse(s) through the SAME call
// site, evaluated for several records. The value is position-sensitive, so that an outer call
// that binds what an inner call evaluated shows.

// an integer expression over n and the other parameters q1..q3 (env[0] = n)
type c08RExpr struct {
	text string
	f    func(env []int) int
}

func c08RSimple(r *rand.Rand, names []string) c08RExpr {
	i := r.Intn(len(names))
	nm := names[i]
	switch r.Intn(6) {
	case 0:
		return c08RExpr{nm, func(e []int) int { return e[i] }}
	case 1:
		return c08RExpr{nm + " + 1", func(e []int) int { return e[i] + 1 }}
	case 2:
		return c08RExpr{nm + " * 2 % 1000", func(e []int) int { return e[i] * 2 % 1000 }}
	case 3:
		k := 2 + r.Intn(8)
		return c08RExpr{strconv.Itoa(k), func(e []int) int { return k }}
	case 4:
		j := r.Intn(len(names))
		return c08RExpr{"(" + nm + " + " + names[j] + ") % 1000", func(e []int) int { return (e[i] + e[j]) % 1000 }}
	}
	return c08RExpr{"n", func(e []int) int { return e[0] }}
}

var c08RWeights = []int{1, 2, 3, 5}

// c08RecCombine: rec(n) = comb(.., rec(n - 1), ..) -- the witness's shape. Returns the program
// text up to the rules and the function computing rec. In string mode comb joins its parameters
// with commas, so that the result spells out which argument was bound where.
func c08RecCombine(r *rand.Rand) (decl, fname, desc string, eval func(n int) string, maxN int) {
	arity := 2 + r.Intn(3)
	// the positions of the recursive argument(s)
	recAt := map[int]bool{r.Intn(arity): true}
	if chance(r, 0.6) {
		recAt = map[int]bool{1 + r.Intn(arity-1): true} // mostly not the first
	}
	if chance(r, 0.2) {
		recAt[r.Intn(arity)] = true
	}
	maxN = 6
	if len(recAt) > 1 {
		maxN = 4
	}
	strMode := chance(r, 0.4)
	params := []string{"a", "b", "c", "d"}[:arity]
	args := make([]c08RExpr, arity)
	var texts, pos []string
	for i := range args {
		if recAt[i] {
			texts = append(texts, "rec(n - 1)")
			pos = append(pos, strconv.Itoa(i))
			continue
		}
		args[i] = c08RSimple(r, []string{"n"})
		texts = append(texts, args[i].text)
	}
	var body string
	if strMode {
		body = "return " + strings.Join(params, ` + "," + `)
	} else {
		var ps []string
		for i, p := range params {
			ps = append(ps, fmt.Sprintf("%s * %d", p, c08RWeights[i]))
		}
		body = "return " + strings.Join(ps, " + ")
	}
	base := 1 + r.Intn(3)
	guard := pick(r, []string{"if (n <= 0) return %d\n  ", "if (n <= 0) { return %d }\n  "})
	decl = fmt.Sprintf("function comb(%s) { %s }\nfunction rec(n) {\n  "+guard+"return comb(%s)\n}\n", strings.Join(params, ", "), body, base, strings.Join(texts, ", "))
	var num func(n int) int
	var str func(n int) string
	num = func(n int) int {
		if n <= 0 {
			return base
		}
		s := 0
		for i := range args {
			v := 0
			if recAt[i] {
				v = num(n - 1)
			} else {
				v = args[i].f([]int{n})
			}
			s += v * c08RWeights[i]
		}
		return s
	}
	str = func(n int) string {
		if n <= 0 {
			return strconv.Itoa(base)
		}
		parts := make([]string, arity)
		for i := range args {
			if recAt[i] {
				parts[i] = str(n - 1)
			} else {
				parts[i] = strconv.Itoa(args[i].f([]int{n}))
			}
		}
		return strings.Join(parts, ",")
	}
	eval = func(n int) string {
		if strMode {
			return str(n)
		}
		return strconv.Itoa(num(n))
	}
	return decl, "rec", fmt.Sprintf("comb/%d, rec(n - 1) at position %s", arity, strings.Join(pos, "+")), eval, maxN
}

// c08RecSelf: sr(n, q..) = sr(n - 1, .., sr(n - 2, ..), ..) -- the outer call site is re-entered
// while one of its own arguments is evaluated (Ackermann's shape)
func c08RecSelf(r *rand.Rand) (decl, fname, desc string, eval func(n int) string, maxN int) {
	arity := 2 + r.Intn(3)
	names := []string{"n", "q1", "q2", "q3"}[:arity]
	at := 1 + r.Intn(arity-1)
	outer := make([]c08RExpr, arity)
	inner := make([]c08RExpr, arity)
	var ot, it []string
	for i := 1; i < arity; i++ {
		outer[i] = c08RSimple(r, names)
		inner[i] = c08RSimple(r, names)
	}
	for i := 1; i < arity; i++ {
		it = append(it, inner[i].text)
	}
	for i := 1; i < arity; i++ {
		if i == at {
			ot = append(ot, "sr(n - 2, "+strings.Join(it, ", ")+")")
		} else {
			ot = append(ot, outer[i].text)
		}
	}
	var bs []string
	for i := 1; i < arity; i++ {
		bs = append(bs, fmt.Sprintf("%s * %d", names[i], c08RWeights[i]))
	}
	decl = fmt.Sprintf("function sr(%s) {\n  if (n <= 0) return (%s) %% 1000\n  return sr(n - 1, %s)\n}\n", strings.Join(names, ", "), strings.Join(bs, " + "), strings.Join(ot, ", "))
	var f func(env []int) int
	f = func(env []int) int {
		if env[0] <= 0 {
			s := 0
			for i := 1; i < arity; i++ {
				s += env[i] * c08RWeights[i]
			}
			return s % 1000
		}
		next := make([]int, arity)
		next[0] = env[0] - 1
		for i := 1; i < arity; i++ {
			if i == at {
				in := make([]int, arity)
				in[0] = env[0] - 2
				for j := 1; j < arity; j++ {
					in[j] = inner[j].f(env)
				}
				next[i] = f(in)
			} else {
				next[i] = outer[i].f(env)
			}
		}
		return f(next)
	}
	start := []int{0, 1 + r.Intn(3), 2 + r.Intn(3), 1 + r.Intn(4)}[:arity]
	var st []string
	for _, v := range start[1:] {
		st = append(st, strconv.Itoa(v))
	}
	decl += fmt.Sprintf("function top(n) { return sr(n, %s) }\n", strings.Join(st, ", "))
	eval = func(n int) string {
		env := append([]int{n}, start[1:]...)
		return strconv.Itoa(f(env))
	}
	return decl, "top", fmt.Sprintf("self-recursive sr/%d, inner call at position %d", arity, at), eval, 6
}

// c08RecMutual: a(n, x) = b(x, a(n - 1, ..)) through a second function that calls back
func c08RecMutual(r *rand.Rand) (decl, fname, desc string, eval func(n int) string, maxN int) {
	e1, e2 := c08RSimple(r, []string{"n", "x"}), c08RSimple(r, []string{"n", "x"})
	swap := chance(r, 0.5)
	call := fmt.Sprintf("pb(%s, pa(n - 1, %s), n)", e1.text, e2.text)
	if swap {
		call = fmt.Sprintf("pb(pa(n - 1, %s), %s, n)", e2.text, e1.text)
	}
	decl = fmt.Sprintf("function pa(n, x) {\n  if (n <= 0) return x\n  return %s\n}\nfunction pb(u, v, n) {\n  if (n %% 2 == 0) return pa(0, u * 2 + v * 3)\n  return u * 5 + v * 7\n}\nfunction top(n) { return pa(n, 1) }\n", call)
	var pa func(n, x int) int
	pb := func(u, v, n int) int {
		if n%2 == 0 {
			return u*2 + v*3
		}
		return u*5 + v*7
	}
	pa = func(n, x int) int {
		if n <= 0 {
			return x
		}
		env := []int{n, x}
		in := pa(n-1, e2.f(env))
		if swap {
			return pb(in, e1.f(env), n)
		}
		return pb(e1.f(env), in, n)
	}
	return decl, "top", "mutual recursion pa -> pb(.., pa(..), ..)", func(n int) string { return strconv.Itoa(pa(n, 1)) }, 6
}

func c08ArgRecursion(r *rand.Rand, emit func(Case)) {
	var decl, fname, desc string
	var eval func(int) string
	var maxN int
	switch k := r.Intn(10); {
	case k < 5:
		decl, fname, desc, eval, maxN = c08RecCombine(r)
	case k < 8:
		decl, fname, desc, eval, maxN = c08RecSelf(r)
	default:
		decl, fname, desc, eval, maxN = c08RecMutual(r)
	}
	nrec := 2 + r.Intn(7)
	recs := make([]string, nrec)
	var want strings.Builder
	var ns []int
	for i := range recs {
		n := r.Intn(maxN + 1)
		if i > 0 && chance(r, 0.3) {
			n = ns[r.Intn(len(ns))] // the same depth again
		}
		ns = append(ns, n)
		recs[i] = strconv.Itoa(n)
	}
	var rules string
	switch r.Intn(4) {
	case 0:
		rules = fmt.Sprintf("{ print \"R\", $, %s($) }\n", fname)
		for _, n := range ns {
			fmt.Fprintf(&want, "R %d %s\n", n, eval(n))
		}
	case 1:
		// twice per record, the second through a variable
		rules = fmt.Sprintf("{ v = %s($); print \"R\", $, v, %s($) }\n", fname, fname)
		for _, n := range ns {
			fmt.Fprintf(&want, "R %d %s %s\n", n, eval(n), eval(n))
		}
	case 2:
		// in the pattern and in the body
		rules = fmt.Sprintf("%s($) != null { print \"R\", $, %s($) }\n", fname, fname)
		for _, n := range ns {
			fmt.Fprintf(&want, "R %d %s\n", n, eval(n))
		}
	default:
		// all in BEGIN, from a loop over an array literal
		rules = fmt.Sprintf("BEGIN { for (k in [%s]) print \"R\", k, %s(k) }\n", strings.Join(recs, ", "), fname)
		for _, n := range ns {
			fmt.Fprintf(&want, "R %d %s\n", n, eval(n))
		}
	}
	k := r.Intn(maxN + 1)
	rules += fmt.Sprintf("END { print \"E\", %s(%d), %s(%d) }\n", fname, k, fname, k)
	fmt.Fprintf(&want, "E %s %s\n", eval(k), eval(k))
	prog := decl + rules
	doc := "[" + strings.Join(recs, ",") + "]"
	exact := c08OutOracle(want.String(), "ok")
	emit(Case{Req: RunReq(prog, nil, []File{{Name: "in.json", Data: []byte(doc)}}, false), Fields: c08Fields,
		Meta: metaProg(prog, "input", doc, "shape", desc, "row", strings.SplitN(desc, ",", 2)[0]),
		Oracle: func(i Resp) string {
			// history independence first: the same record value must print the same line
			seen := map[string]string{}
			for _, l := range strings.Split(string(i.Bytes("out")), "\n") {
				f := strings.SplitN(l, " ", 3)
				if len(f) == 3 && f[0] == "R" {
					if prev, ok := seen[f[1]]; ok && prev != f[2] {
						return fmt.Sprintf("%s(%s) gave %s for an earlier record and %s for a later one: a finished call left something behind at the call site", fname, f[1], prev, f[2])
					}
					seen[f[1]] = f[2]
				}
			}
			return exact(i)
		}})
}

func init() {
	register(Family{
		Name: "argument-recursion", Prop: "C08",
		Rule: "a call site with 2-4 arguments of which one (sometimes two), in every position, recurses through the SAME call site: rec(n) = comb(.., rec(n - 1), ..) with a position-weighted sum or a comma-joined string as comb; a self-recursive sr(n, q..) = sr(n - 1, .., sr(n - 2, ..), ..) (Ackermann's shape); mutual recursion pa -> pb(.., pa(..), ..); depth 0-6; evaluated for 2-8 records (rule body, twice per record, in pattern and body, from a BEGIN loop) with repeated depths, and twice in END. Oracle (implementation only): the value computed in Go with arguments bound by position, the same record value gives the same line whatever was called before, depth 0; model comparison on class, out, depth",
		Gen: func(r *rand.Rand, tier string, emit func(Case)) {
			// the witness of the seeded change
			prog := "function add(a, b) { return a + b }\nfunction sum(n) {\n  if (n == 0) return 0\n  return add(n, sum(n - 1))\n}\n{ print sum($) }\n"
			emit(Case{Req: RunReq(prog, nil, []File{{Name: "in.json", Data: []byte("[3, 3, 4, 4, 1]")}}, false), Fields: c08Fields,
				Meta: metaProg(prog, "input", "[3, 3, 4, 4, 1]"), Oracle: c08OutOracle("6\n6\n10\n10\n1\n", "ok")})
			prog = "function ack(m, n) {\n  if (m == 0) return n + 1\n  if (n == 0) return ack(m - 1, 1)\n  return ack(m - 1, ack(m, n - 1))\n}\n{ print ack($[0], $[1]) }\n"
			emit(Case{Req: RunReq(prog, nil, []File{{Name: "in.json", Data: []byte("[[2,2],[1,3],[2,2],[2,3],[0,0],[2,1]]")}}, false), Fields: c08Fields,
				Meta: metaProg(prog, "input", "[[2,2],[1,3],[2,2],[2,3],[0,0],[2,1]]"), Oracle: c08OutOracle("7\n5\n7\n9\n1\n5\n", "ok")})
			for i, n := 0, tierN(tier, 2500, 40000); i < n; i++ {
				c08ArgRecursion(r, emit)
			}
		},
	})
}

// ---------------------------------------------------------------- match-failed-array-case

// An array pattern that binds names from its first elements and then FAILS on a later element
// (same length as the subject), followed by an alternative or a case that matches and whose body
// reads / assigns an OUTER variable of the same name (a global, a parameter, a loop variable).

type c08MBind struct{ name string }

func c08MPatText(p any) string {
	switch x := p.(type) {
	case c08MBind:
		return x.name
	case int:
		return strconv.Itoa(x)
	case string:
		return `"` + x + `"`
	case []any:
		parts := make([]string, len(x))
		for i, e := range x {
			parts[i] = c08MPatText(e)
		}
		return "[" + strings.Join(parts, ", ") + "]"
	}
	return "?"
}

func c08MJSON(v any) string {
	switch x := v.(type) {
	case int:
		return strconv.Itoa(x)
	case string:
		return `"` + x + `"`
	case []any:
		parts := make([]string, len(x))
		for i, e := range x {
			parts[i] = c08MJSON(e)
		}
		return "[" + strings.Join(parts, ",") + "]"
	}
	return "null"
}

// c08MShow: how print shows the value at top level
func c08MShow(v any) string {
	switch x := v.(type) {
	case string:
		return x
	case []any:
		parts := make([]string, len(x))
		for i, e := range x {
			parts[i] = c08MJSON(e)
		}
		return "[" + strings.Join(parts, ", ") + "]"
	}
	return c08MJSON(v)
}

// c08MMatch: does the pattern match the value, and what does it bind
func c08MMatch(p any, v any, b map[string]any) bool {
	switch x := p.(type) {
	case c08MBind:
		b[x.name] = v
		return true
	case int:
		n, ok := v.(int)
		return ok && n == x
	case string:
		s, ok := v.(string)
		return ok && s == x
	case []any:
		a, ok := v.([]any)
		if !ok || len(a) != len(x) {
			return false
		}
		for i := range x {
			if !c08MMatch(x[i], a[i], b) {
				return false
			}
		}
		return true
	}
	return false
}

type c08MBody struct {
	text string
	run  func(n, m *int, out *strings.Builder)
}

var c08MBodies = []c08MBody{
	{"{ n = n + 1 }", func(n, m *int, o *strings.Builder) { *n++ }},
	{"{ n += 10; print \"B\", n }", func(n, m *int, o *strings.Builder) { *n += 10; fmt.Fprintf(o, "B %d\n", *n) }},
	{"{ n++ }", func(n, m *int, o *strings.Builder) { *n++ }},
	{"{ print \"B\", n, m }", func(n, m *int, o *strings.Builder) { fmt.Fprintf(o, "B %d %d\n", *n, *m) }},
	{"{ m = n; n = n * 2 }", func(n, m *int, o *strings.Builder) { *m = *n; *n *= 2 }},
	{"{ m = m + n }", func(n, m *int, o *strings.Builder) { *m += *n }},
	{"{ m++; n = m }", func(n, m *int, o *strings.Builder) { *m++; *n = *m }},
	{"{ if (n > 0) { n = n + 3 } else { n = 1 } }", func(n, m *int, o *strings.Builder) {
		if *n > 0 {
			*n += 3
		} else {
			*n = 1
		}
	}},
}

func c08MatchFailed(r *rand.Rand, emit func(Case)) {
	shape := r.Intn(4) // 0: [k, s]; 1: [k, j, s]; 2: [[k, j], s]; 3: [k, [j, s]]
	var pat any
	lastLit := pick(r, []string{"x", "x", "w"})
	switch shape {
	case 0:
		pat = []any{c08MBind{"n"}, lastLit}
	case 1:
		mid := any(c08MBind{"m"})
		if chance(r, 0.3) {
			mid = 7
		}
		pat = []any{c08MBind{"n"}, mid, lastLit}
	case 2:
		pat = []any{[]any{c08MBind{"n"}, c08MBind{"m"}}, lastLit}
	default:
		pat = []any{c08MBind{"n"}, []any{c08MBind{"m"}, lastLit}}
	}
	mkRec := func() any {
		s := pick(r, []string{"x", "y", "z", "x", "w"})
		k, j := 1+r.Intn(9), pick(r, []int{7, 7, 2, 3})
		if chance(r, 0.12) {
			return pick(r, []any{3, "s", []any{1}, []any{1, 2, 3, 4}, []any{}}) // no array / another length
		}
		switch shape {
		case 0:
			if chance(r, 0.15) {
				return []any{k, j} // fails on the type of the last element
			}
			return []any{k, s}
		case 1:
			return []any{k, j, s}
		case 2:
			return []any{[]any{k, j}, s}
		}
		return []any{k, []any{j, s}}
	}
	nrec := 2 + r.Intn(5)
	recs := make([]any, nrec)
	for i := range recs {
		recs[i] = mkRec()
	}
	// the second alternative / case
	body := pick(r, c08MBodies)
	exprArm := chance(r, 0.2) // `=> n + 1`, its value printed
	second := r.Intn(5)
	// 4: ONE case `[n, "x"], other => B` whose body only reads: n is the element when the array alternative matched, else the outer n
	if second == 4 {
		exprArm = false
		body = pick(r, []c08MBody{c08MBodies[3], {"{ print \"B\", n }", func(n, m *int, o *strings.Builder) { fmt.Fprintf(o, "B %d\n", *n) }}})
	}
	// 0: other => B; 1: a second array alternative in the first case, then other => B; 2: [a, b..] => B, _ => B; 3: null, other => B
	// (a number or string literal compared with an array subject is a runtime error)
	var alt2 any
	if second == 1 {
		alt2 = []any{c08MBind{"n"}, "z"}
		switch shape {
		case 1:
			alt2 = []any{c08MBind{"n"}, c08MBind{"m"}, "z"}
		case 2:
			alt2 = []any{[]any{c08MBind{"n"}, c08MBind{"m"}}, "z"}
		case 3:
			alt2 = []any{c08MBind{"n"}, []any{c08MBind{"m"}, "z"}}
		}
	}
	var generic any // pattern with other names, same shape
	switch shape {
	case 0:
		generic = []any{c08MBind{"a"}, c08MBind{"b"}}
	case 1:
		generic = []any{c08MBind{"a"}, c08MBind{"b"}, c08MBind{"c"}}
	case 2:
		generic = []any{[]any{c08MBind{"a"}, c08MBind{"b"}}, c08MBind{"c"}}
	default:
		generic = []any{c08MBind{"a"}, []any{c08MBind{"b"}, c08MBind{"c"}}}
	}
	arm := body.text
	if exprArm {
		arm = "n * 100 + m"
	}
	first := c08MPatText(pat)
	if alt2 != nil {
		first += ", " + c08MPatText(alt2)
	}
	firstArm := "{ print \"M\", n, m }"
	if exprArm {
		firstArm = "[n, m]"
	}
	var cases []string
	if second == 4 {
		cases = append(cases, first+", other => "+arm)
	} else {
		cases = append(cases, first+" => "+firstArm)
	}
	switch second {
	case 4:
	case 0, 1:
		cases = append(cases, "other => "+arm)
	case 2:
		cases = append(cases, c08MPatText(generic)+" => "+arm, "_ => "+arm)
	default:
		cases = append(cases, "null, other => "+arm)
	}
	outer := r.Intn(4) // 0 global, 1 parameter, 2 for loop variable, 3 for-in loop variable
	subjKind := r.Intn(2)
	if outer == 1 {
		subjKind = 2
	}
	subj := []string{"$", "$.p", "rec"}[subjKind]
	// a block arm ends its case; an expression arm must be followed by a comma (a `[` on the next line would index it)
	sep := "\n      "
	if exprArm {
		sep = ", "
	}
	m := "match (" + subj + ") {\n      " + strings.Join(cases, sep) + "\n    }"
	stmt := m
	if exprArm {
		stmt = "v = " + m + "\n    print \"V\", v"
	}
	var prog string
	switch outer {
	case 0:
		prog = "BEGIN { n = 5; m = 100 }\n{\n    " + stmt + "\n    print \"A\", n, m\n}\nEND { print \"E\", n, m }\n"
	case 1:
		call := pick(r, []string{"f($index + 10, 20, $)", "f($index + 10, 20, $.p)"})
		if strings.HasSuffix(call, "$.p)") {
			subjKind = 1 // the records are wrapped
		} else {
			subjKind = 0
		}
		prog = "function f(n, m, rec) {\n    " + stmt + "\n    return [n, m]\n}\n{ print \"A\", " + call + " }\nEND { print \"E\", n is unknown, m is unknown }\n"
	case 2:
		prog = "BEGIN { m = 100 }\n{\n  for (n = 0; n < 2; n++) {\n    " + stmt + "\n    print \"A\", n, m\n  }\n}\nEND { print \"E\", m }\n"
	default:
		prog = "BEGIN { m = 100 }\n{\n  for (n in [7, 8]) {\n    " + stmt + "\n    print \"A\", n, m\n  }\n}\nEND { print \"E\", m }\n"
	}
	// the expectation
	var out strings.Builder
	gn, gm := 5, 100
	if outer >= 2 {
		gn = 0
	}
	runMatch := func(rec any, n, m *int) {
		b := map[string]any{}
		hit := c08MMatch(pat, rec, b)
		if !hit && alt2 != nil {
			b = map[string]any{}
			hit = c08MMatch(alt2, rec, b)
		}
		if hit && second == 4 {
			// the one body, with the pattern's names bound (they shadow the outer ones; the body only reads)
			bn, bm := b["n"].(int), *m
			if v, ok := b["m"]; ok {
				bm = v.(int)
			}
			body.run(&bn, &bm, &out)
			return
		}
		if hit {
			// the bound names shadow the outer ones inside this body only
			bm := any(*m)
			if v, ok := b["m"]; ok {
				bm = v
			}
			if exprArm {
				fmt.Fprintf(&out, "V [%s, %s]\n", c08MJSON(b["n"]), c08MJSON(bm))
			} else {
				fmt.Fprintf(&out, "M %s %s\n", c08MShow(b["n"]), c08MShow(bm))
			}
			return
		}
		if exprArm {
			fmt.Fprintf(&out, "V %d\n", *n*100+*m)
			return
		}
		body.run(n, m, &out)
	}
	for i, rec := range recs {
		switch outer {
		case 0:
			runMatch(rec, &gn, &gm)
			fmt.Fprintf(&out, "A %d %d\n", gn, gm)
		case 1:
			pn, pm := i+10, 20
			runMatch(rec, &pn, &pm)
			fmt.Fprintf(&out, "A [%d, %d]\n", pn, pm)
		case 2:
			for gn = 0; gn < 2; gn++ {
				runMatch(rec, &gn, &gm)
				fmt.Fprintf(&out, "A %d %d\n", gn, gm)
			}
		default:
			for _, v := range []int{7, 8} {
				gn = v
				runMatch(rec, &gn, &gm)
				fmt.Fprintf(&out, "A %d %d\n", gn, gm)
			}
		}
	}
	switch outer {
	case 0:
		fmt.Fprintf(&out, "E %d %d\n", gn, gm)
	case 1:
		out.WriteString("E true true\n")
	default:
		fmt.Fprintf(&out, "E %d\n", gm)
	}
	parts := make([]string, len(recs))
	for i, rec := range recs {
		parts[i] = c08MJSON(rec)
		if subjKind == 1 {
			parts[i] = `{"p":` + parts[i] + `,"q":1}`
		}
	}
	doc := []byte("[" + strings.Join(parts, ",") + "]")
	exact := c08OutOracle(out.String(), "ok")
	emit(Case{Req: RunReq(prog, nil, []File{{Name: "in.json", Data: doc}}, true), Fields: []string{"class", "out", "depth", "json"},
		Meta: metaProg(prog, "input", string(doc), "row", []string{"global", "parameter", "for variable", "for-in variable"}[outer]),
		Oracle: func(i Resp) string {
			if w := exact(i); w != "" {
				return w
			}
			same, err := c09SameJSON(i.Bytes("json"), doc)
			if err != nil {
				return "-o is not valid JSON: " + err.Error()
			}
			if !same {
				return "the program never assigns to the document, yet -o differs from the input (a name bound by a case that did not match was still bound): " + short(string(i.Bytes("json")))
			}
			return ""
		}})
}

func init() {
	register(Family{
		Name: "match-failed-array-case", Prop: "C08",
		Rule: "a match whose FIRST case is an array pattern ([n, \"x\"], [n, m, \"x\"], [n, 7, \"x\"], [[n, m], \"x\"], [n, [m, \"x\"]]) that binds n (and m) from its first elements and fails on a LATER element of a subject of the same length and shape, followed by a second array alternative in the same case, an identifier case, a `null, other` case or an array pattern with other names plus `_` (or the array pattern and an identifier as alternatives of ONE case with a reading body), whose body (8 block bodies, or an expression arm) reads and assigns the OUTER n and m: globals set in BEGIN, parameters of the enclosing function, the variable of a for loop, the variable of a for-in loop; subject $, $.p or a parameter; 2-6 records (matching, failing on the last element's value or type, not arrays, other lengths); after every match the outer variables are printed, END prints them again. Oracle (implementation only): the exact output computed in Go (names bound by a pattern exist only in the body of the case that matched), depth 0, and the -o document equals the input; model comparison on class, out, depth and the -o document",
		Gen: func(r *rand.Rand, tier string, emit func(Case)) {
			prog := "BEGIN { n = 0 }\n{\n  match ($) {\n    [n, \"x\"] => { print \"x-record\", n }\n    other => { n = n + 1 }\n  }\n}\nEND { print \"others:\", n }\n"
			doc := []byte(`[[5,"y"],[6,"x"],[7,"z"],3]`)
			emit(Case{Req: RunReq(prog, nil, []File{{Name: "in.json", Data: doc}}, true), Fields: []string{"class", "out", "depth", "json"},
				Meta: metaProg(prog, "input", string(doc)), Oracle: c08OutOracle("x-record 6\nothers: 3\n", "ok")})
			for i, n := 0, tierN(tier, 3000, 40000); i < n; i++ {
				c08MatchFailed(r, emit)
			}
		},
	})
}

// ---------------------------------------------------------------- depth-limit-boundary
//
// Frames are counted exactly: the rule level (BEGIN, patterns, rule bodies, END) runs in the root frame
// (depth 0), every call of a user function and every selected match body pushes exactly one frame that
// is dropped when the call / body is left, and a push is refused exactly when it would make the depth
// exceed 4096. The generator knows, per recursion shape, which push sites are live at which moment, and
// computes the expectation (value, or the site at which the limit strikes) by replaying the pushes.

const c08dlLimit = 4096

// c08dlShape is a recursion f(n) -> ... -> f(0). Level k (k = 0 for the entry call) runs f (or, in a
// mutual recursion, the k-th function of the cycle) with argument n-k. Site names refer to @site@
// markers in decl; every list is indexed by level modulo its length.
type c08dlShape struct {
	name string
	decl string
	pc   [][]string // frames a level with argument > 0 pushes and keeps while the recursive call runs (match bodies)
	rc   []string   // the recursive call site of a level
	ac   [][]string // frames pushed and dropped after the recursive call returned, inside pc
	bpc  [][]string // frames the base level (argument 0) pushes and keeps ...
	bc   [][]string // ... while it pushes and drops these
	val  func(n int) string
}

func c08dlNum(n int) string { return strconv.Itoa(n) }

func c08dlShapes() []c08dlShape {
	m := [][]string{{"m"}}
	return []c08dlShape{
		{name: "direct", decl: "function f(n) { if (n > 0) { return 1 + @r@f(n - 1) } return 0 }\n",
			rc: []string{"r"}, val: c08dlNum},
		{name: "direct-tail", decl: "function f(n) {\n  if (n > 0) {\n    return @r@f(n - 1)\n  }\n  return \"bottom\"\n}\n",
			rc: []string{"r"}, val: func(int) string { return "bottom" }},
		{name: "mutual-2", decl: "function f(n) { if (n > 0) { return 1 + @g@g(n - 1) } return 0 }\nfunction g(n) { if (n > 0) { return 1 + @f@f(n - 1) } return 0 }\n",
			rc: []string{"g", "f"}, val: c08dlNum},
		{name: "mutual-3", decl: "function f(n) { if (n > 0) { return 1 + @g@g(n - 1) } return 0 }\nfunction g(n) { if (n > 0) { return 1 + @h@h(n - 1) } return 0 }\nfunction h(n) { if (n > 0) { return 1 + @f@f(n - 1) } return 0 }\n",
			rc: []string{"g", "h", "f"}, val: c08dlNum},
		{name: "match-expr", decl: "function f(n) { return @m@match (n) { 0 => 0, _ => 1 + @r@f(n - 1) } }\n",
			pc: m, rc: []string{"r"}, bpc: m, val: c08dlNum},
		{name: "match-expr-guarded", decl: "function f(n) { if (n == 0) { return 0 }\n  return @m@match (n) { k => 1 + @r@f(k - 1) } }\n",
			pc: m, rc: []string{"r"}, val: c08dlNum},
		{name: "match-block", decl: "function f(n) {\n  @m@match (n) { 0 => { return 0 }, k => { return 1 + @r@f(k - 1) } }\n}\n",
			pc: m, rc: []string{"r"}, bpc: m, val: c08dlNum},
		{name: "match-mutual", decl: "function f(n) { return @m@match (n) { 0 => 0, _ => 1 + @g@g(n - 1) } }\nfunction g(n) { if (n > 0) { return 1 + @f@f(n - 1) } return 0 }\n",
			pc: [][]string{{"m"}, nil}, rc: []string{"g", "f"}, bpc: [][]string{{"m"}, nil}, val: c08dlNum},
		{name: "match-subject", decl: "function f(n) { if (n == 0) { return 0 }\n  return @m@match (@r@f(n - 1)) { v => v + 1 } }\n",
			rc: []string{"r"}, ac: m, val: c08dlNum},
		{name: "argument", decl: "function pick(a, b) { return b }\nfunction f(n) { if (n > 0) { return @i@pick(0, @r@f(n - 1)) + 1 } return 0 }\n",
			rc: []string{"r"}, ac: [][]string{{"i"}}, val: c08dlNum},
		{name: "argument-base", decl: "function id(v) { return v }\nfunction f(n) { if (n > 0) { return @i@id(@r@f(n - 1)) + 1 } return @j@id(0) }\n",
			rc: []string{"r"}, ac: [][]string{{"i"}}, bc: [][]string{{"j"}}, val: c08dlNum},
		{name: "argument-mutual", decl: "function id(v) { return v }\nfunction f(n) { if (n > 0) { return @i@id(@g@g(n - 1)) + 1 } return 0 }\nfunction g(n) { if (n > 0) { return @j@id(@f@f(n - 1)) + 1 } return 0 }\n",
			rc: []string{"g", "f"}, ac: [][]string{{"i"}, {"j"}}, val: c08dlNum},
		{name: "argument-in-match", decl: "function id(v) { return v }\nfunction f(n) { return @m@match (n) { 0 => @j@id(0), k => @i@id(@r@f(k - 1)) + 1 } }\n",
			pc: m, rc: []string{"r"}, ac: [][]string{{"i"}}, bpc: m, bc: [][]string{{"j"}}, val: c08dlNum},
		{name: "condition-and", decl: "function f(n) { if (n > 0 && @r@f(n - 1) >= 0) { return n } return 0 }\n",
			rc: []string{"r"}, val: c08dlNum},
		{name: "condition-or", decl: "function f(n) { return n == 0 || @r@f(n - 1) }\n",
			rc: []string{"r"}, val: func(int) string { return "true" }},
		{name: "condition-while", decl: "function f(n) { while (n > 0 && @r@f(n - 1) == n - 1) { return n } return 0 }\n",
			rc: []string{"r"}, val: c08dlNum},
		{name: "array-item", decl: "function f(n) { if (n > 0) { return [7, @r@f(n - 1)][1] + 1 } return 0 }\n",
			rc: []string{"r"}, val: c08dlNum},
	}
}

// c08dlSim replays pushes and pops against a limit.
type c08dlSim struct {
	limit, depth, max int
	refused           string // the site whose push was refused
}

func (s *c08dlSim) push(site string) bool {
	if s.depth+1 > s.limit {
		s.refused = site
		return false
	}
	s.depth++
	if s.depth > s.max {
		s.max = s.depth
	}
	return true
}

func c08dlAt(l [][]string, k int) []string {
	if len(l) == 0 {
		return nil
	}
	return l[k%len(l)]
}

// level replays level k with argument n; the level's own frame has been pushed by the caller.
func (sh *c08dlShape) level(s *c08dlSim, k, n int) bool {
	if n == 0 {
		keep := c08dlAt(sh.bpc, k)
		for _, x := range keep {
			if !s.push(x) {
				return false
			}
		}
		for _, x := range c08dlAt(sh.bc, k) {
			if !s.push(x) {
				return false
			}
			s.depth--
		}
		s.depth -= len(keep)
		return true
	}
	keep := c08dlAt(sh.pc, k)
	for _, x := range keep {
		if !s.push(x) {
			return false
		}
	}
	if !s.push(sh.rc[k%len(sh.rc)]) || !sh.level(s, k+1, n-1) {
		return false
	}
	s.depth--
	for _, x := range c08dlAt(sh.ac, k) {
		if !s.push(x) {
			return false
		}
		s.depth--
	}
	s.depth -= len(keep)
	return true
}

// entry replays one evaluation of the entry expression (outer frames, then f(n)) from depth 0.
func (sh *c08dlShape) entry(s *c08dlSim, outer []string, n int) bool {
	for _, x := range outer {
		if !s.push(x) {
			return false
		}
	}
	if !s.push("e") || !sh.level(s, 0, n) {
		return false
	}
	s.depth -= len(outer) + 1
	return true
}

// need: the number of frames that are live at the deepest moment of one evaluation.
func (sh *c08dlShape) need(outer []string, n int) int {
	s := &c08dlSim{limit: 1 << 30}
	sh.entry(s, outer, n)
	return s.max
}

// c08dlOuter builds the entry expression under the outer frames `kinds` ('c' a wrapper function, 'm' a
// match body); it returns the expression text for argument text arg, the wrapper declarations and the
// outer push sites from the outside in.
func c08dlOuter(kinds string, arg string) (expr string, decls string, sites []string) {
	var build func(i int, arg string) string
	build = func(i int, arg string) string {
		if i == len(kinds) {
			return "@e@f(" + arg + ")"
		}
		site := fmt.Sprintf("w%d", i)
		if kinds[i] == 'm' {
			site = fmt.Sprintf("o%d", i)
			sites = append(sites, site)
			return "@" + site + "@match (0) { _ => " + build(i+1, arg) + " }"
		}
		sites = append(sites, site)
		inner := build(i+1, "x")
		decls += fmt.Sprintf("function w%d(x) { return %s }\n", i, inner)
		return fmt.Sprintf("@%s@w%d(%s)", site, i, arg)
	}
	expr = build(0, arg) // sites are collected in push order: each before descending

	return expr, decls, sites
}

// c08dlStrip removes the @site@ markers and returns the 1-based line and 0-based column of each.
func c08dlStrip(src string) (string, map[string][2]int) {
	var b strings.Builder
	pos := map[string][2]int{}
	line, col := 1, 0
	for i := 0; i < len(src); i++ {
		if src[i] == '@' {
			j := strings.IndexByte(src[i+1:], '@')
			pos[src[i+1:i+1+j]] = [2]int{line, col}
			i += j + 1
			continue
		}
		b.WriteByte(src[i])
		if src[i] == '\n' {
			line, col = line+1, 0
		} else {
			col++
		}
	}
	return b.String(), pos
}

var c08dlFields = []string{"class", "out", "depth", "line", "col"}

var c08dlPlaces = []string{"begin", "rule", "pattern", "end"}

// c08dlCase: the entry expression is evaluated once per element of ns, in the given place, under the
// given outer frames. In "begin" and "end" the arguments are literals (one print each), in "rule" and
// "pattern" they are the records.
func c08dlCase(sh c08dlShape, place string, kinds string, ns []int, what string, emit func(Case)) {
	arg := "$"
	if place == "begin" || place == "end" {
		arg = "ARG"
	}
	expr, wdecls, outer := c08dlOuter(kinds, arg)
	var body strings.Builder
	body.WriteString(sh.decl)
	body.WriteString(wdecls)
	var recs []string
	for _, n := range ns {
		recs = append(recs, strconv.Itoa(n))
	}
	doc := "[" + strings.Join(recs, ", ") + "]"
	sim := &c08dlSim{limit: c08dlLimit}
	var want strings.Builder
	ok := true
	evalAll := func(before func(n int) string, after func(n int) string) {
		for _, n := range ns {
			want.WriteString(before(n))
			if !sh.entry(sim, outer, n) {
				ok = false
				return
			}
			want.WriteString(after(n))
		}
	}
	switch place {
	case "begin", "end":
		if place == "begin" {
			body.WriteString("BEGIN {\n  print \"s\"\n")
			want.WriteString("s\n")
			doc = ""
		} else {
			doc = "[1, 2, 3]"
			body.WriteString("{ c++ }\nEND {\n  print \"e\", c\n")
			want.WriteString("e 3\n")
		}
		// one marker set only: the first evaluation carries the markers, the others are plain copies;
		// the limit can only strike in the LAST one (the generator puts the over-limit depth last), so
		// mark the last
		for i, n := range ns {
			e := strings.ReplaceAll(expr, "ARG", strconv.Itoa(n))
			if i != len(ns)-1 {
				e, _ = c08dlStrip(e)
			}
			fmt.Fprintf(&body, "  print \"v\", %s\n", e)
		}
		body.WriteString("  print \"t\"\n}\n")
		evalAll(func(int) string { return "" }, func(n int) string { return "v " + sh.val(n) + "\n" })
		if ok {
			want.WriteString("t\n")
		}
	case "rule":
		fmt.Fprintf(&body, "{\n  print \"r\", $\n  print \"v\", %s\n  print \"t\"\n}\nEND { print \"end\" }\n", expr)
		evalAll(func(n int) string { return fmt.Sprintf("r %d\n", n) }, func(n int) string { return "v " + sh.val(n) + "\nt\n" })
		if ok {
			want.WriteString("end\n")
		}
	case "pattern":
		fmt.Fprintf(&body, "(v = %s) || true { print \"p\", $, v }\nEND { print \"end\" }\n", expr)
		evalAll(func(int) string { return "" }, func(n int) string { return fmt.Sprintf("p %d %s\n", n, sh.val(n)) })
		if ok {
			want.WriteString("end\n")
		}
	}
	prog, pos := c08dlStrip(body.String())
	var files []File
	if doc != "" {
		files = []File{{Name: "in.json", Data: []byte(doc)}}
	}
	wantOut, wantClass := want.String(), "ok"
	var at [2]int
	if !ok {
		wantClass = "runtime"
		at = pos[sim.refused]
	}
	needs := make([]string, len(ns))
	for i, n := range ns {
		needs[i] = strconv.Itoa(sh.need(outer, n))
	}
	base := c08OutOracle(wantOut, wantClass)
	emit(Case{Req: RunReq(prog, nil, files, false), Fields: c08dlFields,
		Meta: metaProg(prog, "input", doc, "shape", sh.name, "place", place, "outer-frames", kinds, "arguments", strings.Join(recs, " "),
			"frames-needed", strings.Join(needs, " "), "what", what, "expected", wantClass, "row", sh.name, "col", place+"/"+strconv.Itoa(len(kinds))),
		Oracle: func(i Resp) string {
			if i["class"] == "runtime" && wantClass == "ok" {
				return fmt.Sprintf("runtime error (%s) although no evaluation needs more than %d frames (frames needed: %s): a nesting within the limit was refused, or a finished call / match body left a frame behind",
					i["msg"], c08dlLimit, strings.Join(needs, " "))
			}
			if i["class"] == "ok" && wantClass == "runtime" {
				return fmt.Sprintf("the run succeeded although the last evaluation nests %s frames (limit %d)", needs[len(needs)-1], c08dlLimit)
			}
			if s := base(i); s != "" {
				return s
			}
			if wantClass == "runtime" && (i["line"] != strconv.Itoa(at[0]) || i["col"] != strconv.Itoa(at[1])) {
				return fmt.Sprintf("the limit struck at line %s col %s, expected at site %s (line %d col %d): the frame that exceeds the limit is push number %d",
					i["line"], i["col"], sim.refused, at[0], at[1], c08dlLimit+1)
			}
			return ""
		}})
}

// c08dlSolve finds an argument n and outer frames (as close to the wanted number as possible) such that
// one evaluation needs exactly d frames.
func c08dlSolve(r *rand.Rand, sh c08dlShape, d, w int) (kinds string, n int, ok bool) {
	for _, ww := range []int{w, w + 1, w - 1, w + 2, w - 2} {
		if ww < 0 || ww > 3 {
			continue
		}
		k := make([]byte, ww)
		for i := range k {
			k[i] = "cm"[r.Intn(2)]
		}
		_, _, outer := c08dlOuter(string(k), "x")
		// need is monotone in n: the smallest n that needs at least d frames
		lo, hi := 0, d
		for lo < hi {
			mid := (lo + hi) / 2
			if sh.need(outer, mid) >= d {
				hi = mid
			} else {
				lo = mid + 1
			}
		}
		if sh.need(outer, lo) == d {
			return string(k), lo, true
		}
	}
	return "", 0, false
}

func c08dlGenBoundary(r *rand.Rand, tier string, emit func(Case)) {
	shapes := c08dlShapes()
	one := func(sh c08dlShape, d, w, rot int) {
		kinds, n, ok := c08dlSolve(r, sh, d, w)
		if !ok {
			return
		}
		place := c08dlPlaces[(rot+r.Intn(2))%len(c08dlPlaces)]
		c08dlCase(sh, place, kinds, []int{n}, fmt.Sprintf("one evaluation needing %d frames", d), emit)
	}
	if tier != "thorough" {
		// a 4096-deep evaluation costs ~0.1 s on either side (a global function is looked up through all
		// live frames), so the quick tier takes the boundary pair for every shape, directly and under
		// outer frames, and every other depth for three shapes in rotation (every shape comes up)
		for si, sh := range shapes {
			for d := c08dlLimit; d <= c08dlLimit+1; d++ {
				one(sh, d, 0, si+d)
				one(sh, d, 1+r.Intn(3), si+d+1)
			}
		}
		perm := r.Perm(len(shapes))
		k := 0
		for d := c08dlLimit - 6; d <= c08dlLimit+4; d++ {
			if d == c08dlLimit || d == c08dlLimit+1 {
				continue
			}
			for j := 0; j < 3; j++ {
				w := 0
				if k%2 == 1 {
					w = 1 + r.Intn(3)
				}
				one(shapes[perm[k%len(perm)]], d, w, k)
				k++
			}
		}
		return
	}
	for round := 0; round < 2; round++ {
		for si, sh := range shapes {
			for d := c08dlLimit - 6; d <= c08dlLimit+4; d++ {
				one(sh, d, 0, si+d+round)
				one(sh, d, 1+r.Intn(3), si+d+round+1)
			}
		}
	}
}

// Several evaluations in one run: sequences of at-limit (and near-limit) depths, which all succeed only
// if every finished evaluation leaves the depth where it was, optionally ended by an over-limit one.
func c08dlGenSequences(r *rand.Rand, tier string, emit func(Case)) {
	shapes := c08dlShapes()
	for i, total := 0, tierN(tier, 8, 120); i < total; i++ {
		sh := shapes[r.Intn(len(shapes))]
		kinds, top, ok := c08dlSolve(r, sh, c08dlLimit, r.Intn(4))
		if !ok {
			continue
		}
		_, _, outer := c08dlOuter(kinds, "x")
		per := (sh.need(outer, 16) - sh.need(outer, 10)) / 6
		// the largest argument that fits
		for sh.need(outer, top+1) <= c08dlLimit {
			top++
		}
		var ns []int
		for j, k := 0, 2+r.Intn(3); j < k; j++ {
			switch r.Intn(6) {
			case 0:
				ns = append(ns, r.Intn(5))
			case 1:
				ns = append(ns, top-1-r.Intn(3))
			case 2:
				ns = append(ns, top-(c08dlLimit/2)/per)
			default:
				ns = append(ns, top)
			}
		}
		what := "at-limit evaluations in a row"
		if i%3 != 0 {
			ns = append(ns, top+1+r.Intn(3)*r.Intn(2))
			what += ", then one over the limit"
		} else {
			ns = append(ns, top)
		}
		place := c08dlPlaces[r.Intn(len(c08dlPlaces))]
		c08dlCase(sh, place, kinds, ns, what, emit)
	}
}

func init() {
	register(Family{
		Name: "depth-limit-boundary", Prop: "C08",
		Rule: "one evaluation of a recursion that needs exactly D live frames, for EVERY D in 4090..4100 (limit 4096; the rule level is depth 0, each user call and each selected match body is one frame), for 17 recursion shapes (direct, tail, mutual over 2 and 3 functions, through a match expression body with and without a match at the base, through a match block body, mutual with a match in one function, in a match subject, in argument position of a second call incl. at the base / mutual / inside a match body, as && / || / while-condition operand, as an array item), evaluated in BEGIN, a rule body, a rule pattern or END, once directly and once under 1-3 outer frames (wrapper functions and match bodies in random order); oracle (implementation only): class ok, the closed-form value and depth 0 iff D <= 4096, else a runtime error with exactly the output before the evaluation and reported at the push site that the replay of the pushes says is number 4097; model comparison on class, out, depth, line, col",
		Gen:  c08dlGenBoundary,
	})
	register(Family{
		Name: "depth-limit-sequences", Prop: "C08",
		Rule: "3-6 evaluations in ONE run (records of a rule body / pattern, or prints of BEGIN / END) of one of the 17 recursion shapes under 0-3 outer frames: mostly the deepest argument that fits (exactly 4096 frames, or 4095 for two-frame shapes), mixed with shallow, half-depth and one-to-three-less arguments in random order, ended by another at-limit evaluation or by one that is 1-3 levels over the limit; oracle (implementation only): every fitting evaluation succeeds with the closed-form value (a frame left behind by any earlier one would make a later at-limit one fail), depth 0 at the end, and the over-limit one is a runtime error at the computed push site with all earlier output kept; model comparison on class, out, depth, line, col",
		Gen:  c08dlGenSequences,
	})
}
