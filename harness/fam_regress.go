package main

// Past failures: the minimized witness of every defect this machinery found in
// jqawk while it was built (DESIGN section 7, KNOWN_FINDINGS.txt "fixed:" lines),
// kept as a corpus that runs in every tier of the property concerned. Each case is
// compared with the model on class and output and must end in one of the four
// reported outcome classes.

import "math/rand"

type regressCase struct {
	prop  string
	id    string
	prog  string
	sels  []string
	input string
}

var regressCorpus = []regressCase{
	{"C01", "D01-begin-next", `BEGIN { next }`, nil, `[1]`},
	{"C01", "D02-selector-exit", `{ print }`, []string{`match (1) { 1 => { exit } }`}, `[1,2]`},
	{"C01", "D42-push-reassigned-receiver", `BEGIN { a = [1]; a.push(a = 5); print a }`, nil, `[]`},
	{"C01", "D44-next-in-pattern", "match (1) { 1 => { next } } { print \"x\" }\n{ print \"y\" }", nil, `[1,2]`},
	{"C01", "D44-next-in-pattern-function", "function f() { next }\nf() { print 1 }\n{ print 2 }", nil, `[1,2]`},
	{"C01", "D49-forin-object-reassigned-scalar", "{ for (k, v in $) { $ = 5\ncontinue } }", nil, `{"a":1,"b":2}`},
	{"C01", "D49-forin-object-reassigned-object", "{ for (k, v in $) { print k, v; $ = {z: 1} } print $ }", nil, `{"a":1,"b":2}`},
	{"C01", "D49-forin-variable-reassigned", "BEGIN { o = {a: 1, b: 2}; for (k, v in o) { print k, v; o = \"s\" } print o }", nil, `[]`},
	{"C07", "D49-forin-object-reassigned", "{ for (k, v in $) { print k, v; $ = 5 } print $ }", nil, `{"a":1,"b":2}`},
	{"C07", "forin-array-reassigned", "{ for (x, i in $) { print i, x; $ = 5 } print $ }", nil, `[1,2,3]`},
	{"C07", "forin-string-reassigned", "BEGIN { s = \"abc\"; for (c, i in s) { print i, c; s = 5 } print s }", nil, `[]`},
	{"C09", "D48-read-vivifies-unset-in-document", `{ $.a = x; print $; y = $.a.b; print $ }`, nil, `{"k":1}`},
	{"C09", "D48-read-vivifies-unset-variable", `BEGIN { y = x.b; print x, x is unknown; z = w[0]; print w }`, nil, `[]`},
	{"C09", "D46-store-through-missing-member-binding", `BEGIN { o = {}; match (o.list[2]) { p => { p.x = 1; p.y = 2 } } print o }`, nil, `[]`},
	{"C09", "D11-read-past-end", `{ x = $[5]; print $ }`, nil, `[[1,2]]`},
	{"C14", "D45-selector-missing-member-root", `{ $ = [$, "seen"] }`, []string{`$[0]`}, `[]`},
	{"C15", "D39-contains-unset", `BEGIN { print [0].contains(u), [u].contains(0) }`, nil, `[]`},
	{"C19", "D43-unset-subject-literal", `BEGIN { print match (u) { 0 => "zero", _ => "other" } }`, nil, `[]`},
	{"C19", "D23-failed-array-alternative", `{ print match ($) { [1, 2], [3, x] => "hit", _ => "miss" } }`, nil, `[[3,4]]`},
	{"C11", "D41-store-into-string-character", `BEGIN { s = "abc"; print "before"; s[0] = "x"; print "after", s }`, nil, `[]`},
	{"C12", "D40-lexer-error-after-semicolon", "BEGIN { x = 1; @ }", nil, `[]`},
}

func init() {
	byProp := map[string][]regressCase{}
	for _, c := range regressCorpus {
		byProp[c.prop] = append(byProp[c.prop], c)
	}
	for prop, cases := range byProp {
		cases := cases
		fields := []string{"class", "out"}
		if prop == "C12" || prop == "C11" {
			fields = []string{"class", "out", "line", "col"}
		}
		register(Family{
			Name: "past-failures",
			Prop: prop,
			Rule: "the minimized witnesses of the defects found in jqawk while the machinery was built (fixed in /repo); each is compared with the model and must end in success, a syntax error, a runtime error or a JSON error; every case counts as non-trivial",
			Gen: func(r *rand.Rand, tier string, emit func(Case)) {
				for _, c := range cases {
					for _, wantJSON := range []bool{false, true} {
						f := fields
						if wantJSON {
							f = append(append([]string{}, fields...), "json")
						}
						emit(Case{ID: c.id, Req: RunReq(c.prog, c.sels, []File{{Name: "in.json", Data: []byte(c.input)}}, wantJSON),
							Fields: f, Oracle: c01ClassOracle, NonTrivial: c01Any,
							Meta: map[string]string{"id": c.id, "program": c.prog, "input": c.input, "row": c.id}})
					}
				}
			},
		})
	}
}
