package main

// C15 — array methods behave like an ideal list under every sequence of
// operations. The ideal list (and the rest of the little language around it) is
// the ideal interpreter of fam_c09.go: push appends and returns the array,
// pop/popfirst remove and return the last/first element or null, a[-k] counts
// from the end, an index before the start is an error, contains agrees with ==
// element by element, sort is a stable sorted copy.

import (
	"fmt"
	"math/rand"
	"strings"
)

type c15Arr struct{ names []c09Expr } // every way the program can name this array; names[0] is the home

var c15NaN = &c09Call{nil, "num", []c09Expr{c09StrLit("nan")}}

// an element value: mode 0 numbers and strings, 1 every scalar, 2 also unset and nested containers
func c15Elem(r *rand.Rand, mode int) c09Expr {
	x := r.Float64()
	switch {
	case mode >= 2 && x < 0.06:
		return c09V("un") // a variable that is never assigned
	case mode >= 2 && x < 0.16:
		return pick(r, []c09Expr{&c09ArrLit{}, &c09ArrLit{[]c09Expr{c09NumLit(1)}}, &c09ObjLit{[]string{"k"}, []c09Expr{c09NumLit(1)}}, &c09ObjLit{},
			&c09ArrLit{[]c09Expr{c09StrLit("n"), &c09ArrLit{[]c09Expr{c09NumLit(2)}}}}})
	case mode >= 1 && x < 0.24:
		return pick(r, []c09Expr{c09BoolLit(true), c09BoolLit(false), c09NullLit(), c09NullLit()})
	case mode >= 1 && x < 0.32:
		return pick(r, []c09Expr{c09NumLit(7.25), c15NaN, c09NumLit(0.1), c09NumLit(2.5), &c09Par{c09NumLit(-2.5)}, &c09Par{c09NumLit(c15NegZero())}})
	case x < 0.65:
		return c09NumLit(pick(r, []float64{0, 1, 2, 3, 5, 9, 10, 10, 2, 100, 1}))
	default:
		return c09StrLit(pick(r, []string{"a", "b", "B", "10", "9", "2", "1", "", " 1", "ab", "é", "abc", "1e1"}))
	}
}

func c15NegZero() float64 { z := 0.0; return -z }

func c15List(r *rand.Rand, mode int) *c09ArrLit {
	n := r.Intn(5)
	l := &c09ArrLit{}
	for i := 0; i < n; i++ {
		l.items = append(l.items, c15Elem(r, mode))
	}
	return l
}

// JSON text of a literal list (only for mode-0/1 elements that JSON can express)
func c15JSONList(r *rand.Rand) string {
	n := r.Intn(5)
	parts := make([]string, n)
	for i := range parts {
		parts[i] = pick(r, []string{"0", "1", "2", "10", "9", "2.5", "-0", `"a"`, `"b"`, `"B"`, `"10"`, `"9"`, `""`, `"é"`, "true", "null", "1e1"})
	}
	return "[" + strings.Join(parts, ", ") + "]"
}

type c15Gen struct {
	r    *rand.Rand
	g    *c09Gen
	arrs []c15Arr
	mode int
	body []*c09Stmt
	dead bool // the program has ended in an error
}

func (c *c15Gen) add(ss ...*c09Stmt) {
	for _, s := range ss {
		if c.dead {
			return
		}
		c.body = append(c.body, s)
		if err := c.g.in.exec(s); err != nil {
			c.dead = true
		}
	}
}

// setup: the document, where the arrays live, and their aliases
func c15Setup(r *rand.Rand, mode int) (*c15Gen, string) {
	c := &c15Gen{r: r, mode: mode, g: &c09Gen{r: r, in: c09NewInterp(c09Helpers...)}}
	shape := r.Intn(20)
	doc := "{}"
	type home struct {
		name c09Expr
		init *c09Stmt
	}
	var homes []home
	varHome := func(v string) home {
		return home{c09V(v), c09Do(&c09Asg{c09V(v), c15List(r, mode)})}
	}
	switch {
	case shape < 3:
		doc = "[" + c15JSONList(r) + "]"
		homes = []home{{c09V("$"), nil}}
	case shape < 5:
		doc = "[[" + c15JSONList(r) + `, "x"]]`
		homes = []home{{c09At(c09V("$"), c09NumLit(0)), nil}}
	default:
		doc = `{"list": ` + c15JSONList(r) + `, "o": {"items": ` + c15JSONList(r) + `}, "m": [` + c15JSONList(r) + `, 5]}`
		homes = []home{{c09Dot(c09V("$"), "list"), nil}, {c09Dot(c09Dot(c09V("$"), "o"), "items"), nil}, {c09At(c09Dot(c09V("$"), "m"), c09NumLit(0)), nil}}
	}
	homes = append(homes, varHome("a"), varHome("a2"),
		home{c09Dot(c09V("ob"), "items"), c09Do(&c09Asg{c09V("ob"), &c09ObjLit{[]string{"items", "n"}, []c09Expr{c15List(r, mode), c09NumLit(1)}}})},
		home{c09At(c09V("w"), c09NumLit(0)), c09Do(&c09Asg{c09V("w"), &c09ArrLit{[]c09Expr{c15List(r, mode), c09NumLit(5)}}})},
		home{c09At(c09V("w2"), c09NumLit(-1)), c09Do(&c09Asg{c09V("w2"), &c09ArrLit{[]c09Expr{c09StrLit("x"), c15List(r, mode)}}})})
	r.Shuffle(len(homes), func(i, j int) { homes[i], homes[j] = homes[j], homes[i] })
	n := 1 + r.Intn(3)
	root := &c09Cell{c09Decode(doc)}
	c.g.in.root = root
	if root.v.k == 'a' {
		c.g.in.root = root.v.a.e[0]
	}
	for i := 0; i < n; i++ {
		h := homes[i]
		if h.init != nil {
			c.add(h.init)
		}
		arr := c15Arr{names: []c09Expr{h.name}}
		if chance(r, 0.45) {
			v := fmt.Sprintf("b%d", i)
			c.add(c09Do(&c09Asg{c09V(v), h.name})) // an alias in a variable
			arr.names = append(arr.names, c09V(v))
		}
		if chance(r, 0.2) {
			v := fmt.Sprintf("h%d", i)
			c.add(c09Do(&c09Asg{c09V(v), &c09ObjLit{[]string{"r"}, []c09Expr{h.name}}})) // an alias as a member of another container
			arr.names = append(arr.names, c09Dot(c09V(v), "r"))
		}
		c.arrs = append(c.arrs, arr)
	}
	return c, doc
}

func (c *c15Gen) name(i int) c09Expr {
	a := c.arrs[i]
	if chance(c.r, 0.6) {
		return a.names[0]
	}
	return pick(c.r, a.names)
}

func (c *c15Gen) length(i int) int {
	l, err := c.g.in.eval(c.arrs[i].names[0])
	if err != nil || l.cell.v.k != 'a' {
		return 0
	}
	return len(l.cell.v.a.e)
}

func (c *c15Gen) hasContainer(i int) bool {
	l, err := c.g.in.eval(c.arrs[i].names[0])
	if err != nil || l.cell.v.k != 'a' {
		return false
	}
	for _, e := range l.cell.v.a.e {
		if e.v.k == 'a' || e.v.k == 'o' {
			return true
		}
	}
	return false
}

func (c *c15Gen) index(n int, errOK bool) c09Expr {
	r := c.r
	x := r.Float64()
	switch {
	case x < 0.4 && n > 0:
		return c09NumLit(float64(r.Intn(n)))
	case x < 0.5:
		return c09NumLit(float64(n))
	case x < 0.56:
		return c09NumLit(float64(n + 1 + r.Intn(2)))
	case x < 0.8 && n > 0:
		return c09NumLit(float64(-1 - r.Intn(n)))
	case x < 0.88 && n > 0:
		return c09NumLit(float64(r.Intn(n)) + 0.5)
	case x < 0.92 && errOK:
		return c09NumLit(float64(-n - 1))
	}
	return c09NumLit(float64(r.Intn(n + 1)))
}

// one operation, printing its result, followed by every array and its length
func (c *c15Gen) step(k int, errOK bool) {
	r := c.r
	i := r.Intn(len(c.arrs))
	j := r.Intn(len(c.arrs))
	N, M := c.name(i), c.name(j)
	n := c.length(i)
	tag := c09StrLit(fmt.Sprintf("#%d", k))
	call := func(recv c09Expr, m string, args ...c09Expr) *c09Call { return &c09Call{recv, m, args} }
	V := c15Elem(r, c.mode)
	x := r.Float64()
	if n > 8 && x < 0.5 {
		x = 0.2 + 0.12*r.Float64() // keep the arrays small: pop / popfirst
	}
	switch {
	case x < 0.2:
		c.add(c09Print(tag, call(N, "push", V)))
	case x < 0.27:
		c.add(c09Print(tag, call(N, "pop")))
	case x < 0.34:
		c.add(c09Print(tag, call(N, "popfirst")))
	case x < 0.44:
		c.add(c09Print(tag, c09At(N, c.index(n, errOK))))
	case x < 0.54:
		c.add(c09Do(&c09Asg{c09At(N, c.index(n, errOK)), V}))
	case x < 0.59:
		c.add(c09Print(tag, call(N, "length")))
	case x < 0.67:
		if c.hasContainer(i) && !(errOK && chance(r, 0.3)) {
			c.add(c09Print(tag, call(N, "length")))
		} else {
			arg := V
			if n > 0 && chance(r, 0.4) {
				arg = c09At(N, c.index(n, false)) // something that is in there (unless it is unset)
			}
			c.add(c09Print(tag, call(N, "contains", arg)))
		}
	case x < 0.73:
		if chance(r, 0.5) {
			c.add(c09Print(tag, call(N, "sort")))
		} else {
			// the sorted copy is a new array
			c.add(c09Do(&c09Asg{c09V("t"), call(N, "sort")}), c09Do(call(c09V("t"), "push", c09StrLit("t"))), c09Print(tag, c09V("t")))
		}
	case x < 0.90:
		// method calls nested in arguments
		var e c09Expr
		switch r.Intn(13) {
		case 0:
			e = call(N, "push", call(M, "push", V))
		case 1:
			e = call(N, "push", call(N, "pop"))
		case 2:
			e = call(N, "push", call(M, "pop"))
		case 3:
			e = call(N, "contains", call(M, "length"))
		case 4:
			e = call(N, "push", call(N, "length"))
		case 5:
			e = call(N, "push", call(M, "popfirst"))
		case 6:
			e = call(N, "push", call(M, "contains", V))
		case 7:
			e = call(N, "push", call(call(M, "push", V), "length"))
		case 8:
			e = call(N, "push", call(M, "sort"))
		case 9:
			e = c09At(N, &c09Bin{"-", call(call(N, "push", V), "length"), c09NumLit(1)})
		case 10:
			e = &c09Asg{c09At(N, call(M, "length")), call(M, "pop")}
		case 11:
			e = call(call(N, "push", V), "push", call(M, "popfirst"))
		default:
			e = call(N, "push", call(N, "push", call(M, "length")))
			if c.mode < 2 {
				e = call(N, "push", call(call(N, "push", call(M, "length")), "length"))
			}
		}
		c.add(c09Print(tag, e))
	case x < 0.94:
		// through a parameter
		c.add(c09Print(tag, &c09Call{nil, "psh", []c09Expr{N, V}}))
	case x < 0.97:
		// through a match binding
		c.add(&c09Stmt{kind: "match", v: "q", exprs: []c09Expr{N}, body: []*c09Stmt{c09Print(tag, call(c09V("q"), pick(r, []string{"pop", "popfirst", "length"})))}})
	default:
		// through a for-in variable over a holder array (the holder itself is not changed)
		c.add(c09Do(&c09Asg{c09V("hold"), &c09ArrLit{[]c09Expr{N}}}),
			&c09Stmt{kind: "forin", v: "it", exprs: []c09Expr{c09V("hold")}, body: []*c09Stmt{c09Print(tag, call(c09V("it"), "push", V))}})
	}
	for ai := range c.arrs {
		nm := c.arrs[ai].names[0]
		if chance(r, 0.3) {
			nm = pick(r, c.arrs[ai].names)
		}
		c.add(c09Print(nm, call(nm, "length")))
	}
}

func c15Sequence(r *rand.Rand, mode, steps int, errOK bool) (*c09Prog, string) {
	c, doc := c15Setup(r, mode)
	for k := 1; k <= steps && !c.dead; k++ {
		c.step(k, errOK && k > steps/2)
	}
	return &c09Prog{funcs: c09Helpers, body: c.body}, doc
}

func c15Emit(emit func(Case), p *c09Prog, doc string, extra ...string) {
	class, out, _ := c09Run(p, doc)
	prog := p.text()
	emit(Case{Req: RunReq(prog, nil, []File{{Name: "in.json", Data: []byte(doc)}}, false),
		Fields: []string{"class", "out"}, Meta: metaProg(prog, append([]string{"input", doc, "ideal_class", class}, extra...)...),
		Oracle: c09IdealOracle(class, out, "", false), NonTrivial: c09NT})
}

func init() {
	register(Family{
		Name: "ops-ideal", Prop: "C15",
		Rule: "operation sequences (push pop popfirst index read/write incl. negative, past the end and fractional, length contains sort, calls nested in arguments, calls through parameters / match bindings / for-in variables) on 1-3 arrays living in variables, the document ($.list, $.o.items, $.m[0], $ itself, $[0]) and other containers, named through aliases; three element modes (numbers+strings / every scalar incl. -0 NaN null bool / also unset and nested containers); result, every array and its length printed after each step; oracle: ideal lists (fam_c09.go interpreter) predict the whole output; non-trivial = distinct sequence ending ok or in a runtime error",
		Gen: func(r *rand.Rand, tier string, emit func(Case)) {
			n := tierN(tier, 2500, 25000)
			for i := 0; i < n; i++ {
				steps := 3 + r.Intn(38)
				if tier == "thorough" && i%1000 == 0 {
					steps = 500 + r.Intn(1500)
				}
				mode := r.Intn(3)
				p, doc := c15Sequence(r, mode, steps, chance(r, 0.3))
				c15Emit(emit, p, doc, "mode", fmt.Sprint(mode), "steps", fmt.Sprint(steps))
			}
		},
	})
}

// ---------------------------------------------------------------- sort / contains / nesting / arity

func c15ValuePool() []c09Expr {
	return []c09Expr{
		c09NumLit(0), c09NumLit(c15NegZero()), c09NumLit(1), c09NumLit(2), c09NumLit(10), c09NumLit(9), c09NumLit(2.5), &c09Par{c09NumLit(-3)}, c09NumLit(0.1), c15NaN,
		&c09Call{nil, "num", []c09Expr{c09StrLit("inf")}}, c09NumLit(100),
		c09StrLit(""), c09StrLit("a"), c09StrLit("b"), c09StrLit("B"), c09StrLit("10"), c09StrLit("9"), c09StrLit("1"), c09StrLit("2"), c09StrLit(" 1"), c09StrLit("1e1"), c09StrLit("0"),
		c09StrLit("-0"), c09StrLit("abc"), c09StrLit("é"), c09StrLit("true"), c09StrLit("null"), c09StrLit("nan"),
		c09BoolLit(true), c09BoolLit(false), c09NullLit(), c09V("un"),
		&c09ArrLit{}, &c09ArrLit{[]c09Expr{c09NumLit(1)}}, &c09ObjLit{}, &c09ObjLit{[]string{"k"}, []c09Expr{c09NumLit(1)}},
	}
}

var c15SortLists = [][]c09Expr{
	{c09StrLit("b"), c09StrLit("a"), c09StrLit("B")},
	{c09NumLit(10), c09StrLit("9"), c09NumLit(2)},
	{c09NumLit(2), c09NumLit(10), c09NumLit(1)},
	{c09StrLit("1"), c09NumLit(1), c09StrLit("1"), c09NumLit(1)},
	{c09NumLit(1), c09StrLit("1")},
	{c09NumLit(0), c09NumLit(c15NegZero()), c09NumLit(0)},
	{c09NumLit(c15NegZero()), c09NumLit(0)},
	{c09NumLit(3), c15NaN, c09NumLit(1), c15NaN},
	{c09BoolLit(true), c09NullLit(), c09BoolLit(false), &c09ArrLit{[]c09Expr{c09NumLit(1)}}, &c09ObjLit{}, c09StrLit("")},
	{c09StrLit("b"), c09BoolLit(true), c09StrLit("a"), c09NullLit()},
	{c09NumLit(2), c09NullLit(), c09NumLit(1)},
	{c09NumLit(2), c09V("un"), c09NumLit(1)},
	{c09NumLit(10), c09NumLit(9), c09NumLit(100), c09NumLit(1)},
	{c09StrLit("10"), c09StrLit("9"), c09StrLit("100"), c09StrLit("1")},
	{c09NumLit(2.5), c09NumLit(2), &c09Par{c09NumLit(-3)}, c09NumLit(0.1)},
	{c09StrLit("é"), c09StrLit("z"), c09StrLit("Z"), c09StrLit("")},
	{},
	{c09NumLit(1)},
	{&c09ArrLit{[]c09Expr{c09NumLit(2)}}, &c09ArrLit{[]c09Expr{c09NumLit(1)}}},
}

func c15SortProg(list []c09Expr) *c09Prog {
	a := c09V("a")
	call := func(recv c09Expr, m string, args ...c09Expr) *c09Call { return &c09Call{recv, m, args} }
	body := []*c09Stmt{
		c09Do(&c09Asg{a, &c09ArrLit{list}}),
		c09Do(&c09Asg{c09V("s"), call(a, "sort")}),
		c09Print(c09V("s"), call(c09V("s"), "length")),
		c09Print(a, call(a, "length")),                   // the original is untouched
		c09Do(call(c09V("s"), "push", c09StrLit("new"))), // and the copy is a different array
		c09Print(c09V("s"), a),
		c09Print(call(call(a, "sort"), "sort"), call(call(a, "sort"), "length")),
	}
	return &c09Prog{body: body}
}

// contains(v) against == element by element: two programs that must print the same
func c15ContainsPair(list []c09Expr, v c09Expr) (string, string) {
	lit := (&c09ArrLit{list}).text()
	p1 := "{\n  a = " + lit + "\n  print a.contains(" + v.text() + ")\n}\n"
	p2 := "{\n  a = " + lit + "\n  r = false\n  for (i = 0; i < " + fmt.Sprint(len(list)) + "; i++) {\n    if (a[i] == " + v.text() + ") {\n      r = true\n      break\n    }\n  }\n  print r\n}\n"
	return p1, p2
}

func init() {
	register(Family{
		Name: "sort-contains", Prop: "C15",
		Rule: "sort on 19 hand-picked lists (equal keys with distinguishable identity, numbers vs numeric strings, -0/0, NaN, empty string forms, unset, nested) and on random lists of 0-7 pool values of every kind: sorted copy, its length, original untouched, copy independent, idempotence; contains(v) for every pool value v on random lists, paired with a loop applying == to each element in order (both programs must print the same or both fail); oracle: ideal interpreter + pair agreement",
		Gen: func(r *rand.Rand, tier string, emit func(Case)) {
			pool := c15ValuePool()
			for _, l := range c15SortLists {
				c15Emit(emit, c15SortProg(l), "{}")
			}
			n := tierN(tier, 800, 10000)
			for i := 0; i < n; i++ {
				k := r.Intn(8)
				var l []c09Expr
				sub := pool
				switch r.Intn(4) {
				case 0:
					sub = pool[:12] // numbers only
				case 1:
					sub = pool[:29] // numbers and strings
				}
				for j := 0; j < k; j++ {
					l = append(l, pick(r, sub))
				}
				c15Emit(emit, c15SortProg(l), "{}")
			}
			m := tierN(tier, 1500, 15000)
			for i := 0; i < m; i++ {
				k := r.Intn(5)
				var l []c09Expr
				sub := pool
				if chance(r, 0.6) {
					sub = pool[:33] // no containers: no error
				}
				for j := 0; j < k; j++ {
					l = append(l, pick(r, sub))
				}
				v := pick(r, pool)
				if k > 0 && chance(r, 0.3) {
					v = l[r.Intn(k)]
				}
				p1, p2 := c15ContainsPair(l, v)
				g := fmt.Sprintf("contains-%d", i)
				in := c09NewInterp()
				in.root = &c09Cell{c09NewObj()}
				want, werr := c09Method("contains", func() c09Val {
					vs, _ := in.evalList(l)
					return c09NewArr(vs...)
				}(), func() []c09Val { vs, _ := in.evalList([]c09Expr{v}); return vs }())
				wantOut, wantClass := "", "runtime"
				if werr == nil {
					wantOut, wantClass = c09Pretty(want, false)+"\n", "ok"
				}
				for _, p := range []string{p1, p2} {
					emit(Case{Req: RunReq(p, nil, []File{{Name: "in.json", Data: []byte("{}")}}, false), Fields: []string{"class", "out"},
						Meta: metaProg(p), Group: g, GroupFields: []string{"class", "out"},
						Oracle: func(i Resp) string {
							if i["class"] != wantClass || (wantClass == "ok" && string(i.Bytes("out")) != wantOut) {
								return fmt.Sprintf("contains / == per element: expected %s %q, got %s %q", wantClass, wantOut, i["class"], string(i.Bytes("out")))
							}
							return ""
						}, NonTrivial: c09NT})
				}
			}
		},
	})
	register(Family{
		Name: "nesting-arity", Prop: "C15",
		Rule: "every pair of array methods nested as a.M1(b.M2(..)) and a.M1(a.M2(..)) for two arrays (distinct, aliased or the same), three-deep nestings, chained calls on returned arrays, and every method with 0-3 arguments; a, b printed before and after; oracle: ideal interpreter (each call acts on the array it was invoked on; argument counts checked as documented)",
		Gen: func(r *rand.Rand, tier string, emit func(Case)) {
			call := func(recv c09Expr, m string, args ...c09Expr) *c09Call { return &c09Call{recv, m, args} }
			a, b := c09V("a"), c09V("b")
			inner := func(x c09Expr) []c09Expr {
				return []c09Expr{call(x, "push", c09NumLit(1)), call(x, "pop"), call(x, "popfirst"), call(x, "length"), call(x, "contains", c09NumLit(2)), call(x, "sort"),
					c09At(x, c09NumLit(0)), c09At(x, c09NumLit(-1)), call(call(x, "push", c09NumLit(7)), "length"), call(call(x, "sort"), "pop")}
			}
			setups := [][]*c09Stmt{
				{c09Do(&c09Asg{a, &c09ArrLit{[]c09Expr{c09NumLit(3), c09NumLit(2)}}}), c09Do(&c09Asg{b, &c09ArrLit{[]c09Expr{c09NumLit(2), c09NumLit(9), c09NumLit(4)}}})},
				{c09Do(&c09Asg{a, &c09ArrLit{[]c09Expr{c09NumLit(3), c09NumLit(2)}}}), c09Do(&c09Asg{b, a})},
				{c09Do(&c09Asg{a, &c09ArrLit{}}), c09Do(&c09Asg{b, &c09ArrLit{}})},
				{c09Do(&c09Asg{a, c09Dot(c09V("$"), "list")}), c09Do(&c09Asg{b, c09At(c09Dot(c09V("$"), "m"), c09NumLit(0))})},
			}
			doc := `{"list": [5, 2], "m": [[2, "x"], 1]}`
			show := c09Print(a, call(a, "length"), b, call(b, "length"), c09Dot(c09V("$"), "list"), c09Dot(c09V("$"), "m"))
			for _, st := range setups {
				for _, in1 := range append(inner(b), inner(a)...) {
					for _, outer := range []func(c09Expr) c09Expr{
						func(x c09Expr) c09Expr { return call(a, "push", x) },
						func(x c09Expr) c09Expr { return call(a, "contains", x) },
						func(x c09Expr) c09Expr { return c09At(a, x) },
						func(x c09Expr) c09Expr { return &c09Asg{c09At(a, c09NumLit(1)), x} },
						func(x c09Expr) c09Expr { return call(a, "push", call(b, "push", x)) },
						func(x c09Expr) c09Expr {
							return call(call(a, "push", x), "push", call(b, "length"))
						},
					} {
						body := append(append([]*c09Stmt{}, st...), show, c09Print(c09StrLit("r"), outer(in1)), show)
						c15Emit(emit, &c09Prog{body: body}, doc)
					}
				}
			}
			// arity: every method with 0..3 arguments
			args := []c09Expr{c09NumLit(2), c09StrLit("x"), c09NullLit()}
			for _, m := range []string{"length", "push", "pop", "popfirst", "contains", "sort", "nosuch"} {
				for k := 0; k <= 3; k++ {
					for _, st := range setups[:2] {
						body := append(append([]*c09Stmt{}, st...), show, c09Print(c09StrLit("r"), call(a, m, args[:k]...)), show)
						if m == "nosuch" {
							// a.nosuch is null: calling it is a runtime error
							prog := (&c09Prog{body: body}).text()
							emit(Case{Req: RunReq(prog, nil, []File{{Name: "in.json", Data: []byte(doc)}}, false), Fields: []string{"class", "out"}, Meta: metaProg(prog),
								Oracle: func(i Resp) string {
									if i["class"] != "runtime" {
										return "calling a missing method must be a runtime error"
									}
									return ""
								}, NonTrivial: c09NT})
							continue
						}
						c15Emit(emit, &c09Prog{body: body}, doc)
					}
				}
			}
		},
	})
}
