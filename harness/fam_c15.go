package main

// C15 — array methods behave like an ideal list under every sequence of
// operations. The ideal list (and the rest of the little language around it) is
// the ideal interpreter of fam_c09.go: push appends and returns the array,
// pop/popfirst remove and return the last/first element or null, a[-k] counts
// from the end, an index before the start is an error, contains agrees with ==
// element by element, sort is a stable sorted copy.

import (
	"fmt"
	"math/rand"
	"strings"
)

type c15Arr struct{ names []c09Expr } // every way the program can name this array; names[0] is the home

var c15NaN = &c09Call{nil, "num", []c09Expr{c09StrLit("nan")}}

// an element value: mode 0 numbers and strings, 1 every scalar, 2 also unset and nested containers
func c15Elem(r *rand.Rand, mode int) c09Expr {
	x := r.Float64()
	switch {
	case mode >= 2 && x < 0.06:
		return c09V("un") // a variable that is never assigned
	case mode >= 2 && x < 0.16:
		return pick(r, []c09Expr{&c09ArrLit{}, &c09ArrLit{[]c09Expr{c09NumLit(1)}}, &c09ObjLit{[]string{"k"}, []c09Expr{c09NumLit(1)}}, &c09ObjLit{},
			&c09ArrLit{[]c09Expr{c09StrLit("n"), &c09ArrLit{[]c09Expr{c09NumLit(2)}}}}})
	case mode >= 1 && x < 0.24:
		return pick(r, []c09Expr{c09BoolLit(true), c09BoolLit(false), c09NullLit(), c09NullLit()})
	case mode >= 1 && x < 0.32:
		return pick(r, []c09Expr{c09NumLit(7.25), c15NaN, c09NumLit(0.1), c09NumLit(2.5), &c09Par{c09NumLit(-2.5)}, &c09Par{c09NumLit(c15NegZero())}})
	case x < 0.65:
		return c09NumLit(pick(r, []float64{0, 1, 2, 3, 5, 9, 10, 10, 2, 100, 1}))
	default:
		return c09StrLit(pick(r, []string{"a", "b", "B", "10", "9", "2", "1", "", " 1", "ab", "é", "abc", "1e1"}))
	}
}

func c15NegZero() float64 { z := 0.0; return -z }

func c15List(r *rand.Rand, mode int) *c09ArrLit {
	n := r.Intn(5)
	l := &c09ArrLit{}
	for i := 0; i < n; i++ {
		l.items = append(l.items, c15Elem(r, mode))
	}
	return l
}

// JSON text of a literal list (only for mode-0/1 elements that JSON can express)
func c15JSONList(r *rand.Rand) string {
	n := r.Intn(5)
	parts := make([]string, n)
	for i := range parts {
		parts[i] = pick(r, []string{"0", "1", "2", "10", "9", "2.5", "-0", `"a"`, `"b"`, `"B"`, `"10"`, `"9"`, `""`, `"é"`, "true", "null", "1e1"})
	}
	return "[" + strings.Join(parts, ", ") + "]"
}

type c15Gen struct {
	r    *rand.Rand
	g    *c09Gen
	arrs []c15Arr
	mode int
	body []*c09Stmt
	dead bool // the program has ended in an error
}

func (c *c15Gen) add(ss ...*c09Stmt) {
	for _, s := range ss {
		if c.dead {
			return
		}
		c.body = append(c.body, s)
		if err := c.g.in.exec(s); err != nil {
			c.dead = true
		}
	}
}

// setup: the document, where the arrays live, and their aliases
func c15Setup(r *rand.Rand, mode int) (*c15Gen, string) {
	c := &c15Gen{r: r, mode: mode, g: &c09Gen{r: r, in: c09NewInterp(c09Helpers...)}}
	shape := r.Intn(20)
	doc := "{}"
	type home struct {
		name c09Expr
		init *c09Stmt
	}
	var homes []home
	varHome := func(v string) home {
		return home{c09V(v), c09Do(&c09Asg{c09V(v), c15List(r, mode)})}
	}
	switch {
	case shape < 3:
		doc = "[" + c15JSONList(r) + "]"
		homes = []home{{c09V("$"), nil}}
	case shape < 5:
		doc = "[[" + c15JSONList(r) + `, "x"]]`
		homes = []home{{c09At(c09V("$"), c09NumLit(0)), nil}}
	default:
		doc = `{"list": ` + c15JSONList(r) + `, "o": {"items": ` + c15JSONList(r) + `}, "m": [` + c15JSONList(r) + `, 5]}`
		homes = []home{{c09Dot(c09V("$"), "list"), nil}, {c09Dot(c09Dot(c09V("$"), "o"), "items"), nil}, {c09At(c09Dot(c09V("$"), "m"), c09NumLit(0)), nil}}
	}
	homes = append(homes, varHome("a"), varHome("a2"),
		home{c09Dot(c09V("ob"), "items"), c09Do(&c09Asg{c09V("ob"), &c09ObjLit{[]string{"items", "n"}, []c09Expr{c15List(r, mode), c09NumLit(1)}}})},
		home{c09At(c09V("w"), c09NumLit(0)), c09Do(&c09Asg{c09V("w"), &c09ArrLit{[]c09Expr{c15List(r, mode), c09NumLit(5)}}})},
		home{c09At(c09V("w2"), c09NumLit(-1)), c09Do(&c09Asg{c09V("w2"), &c09ArrLit{[]c09Expr{c09StrLit("x"), c15List(r, mode)}}})})
	r.Shuffle(len(homes), func(i, j int) { homes[i], homes[j] = homes[j], homes[i] })
	n := 1 + r.Intn(3)
	root := &c09Cell{c09Decode(doc)}
	c.g.in.root = root
	if root.v.k == 'a' {
		c.g.in.root = root.v.a.e[0]
	}
	for i := 0; i < n; i++ {
		h := homes[i]
		if h.init != nil {
			c.add(h.init)
		}
		arr := c15Arr{names: []c09Expr{h.name}}
		if chance(r, 0.45) {
			v := fmt.Sprintf("b%d", i)
			c.add(c09Do(&c09Asg{c09V(v), h.name})) // an alias in a variable
			arr.names = append(arr.names, c09V(v))
		}
		if chance(r, 0.2) {
			v := fmt.Sprintf("h%d", i)
			c.add(c09Do(&c09Asg{c09V(v), &c09ObjLit{[]string{"r"}, []c09Expr{h.name}}})) // an alias as a member of another container
			arr.names = append(arr.names, c09Dot(c09V(v), "r"))
		}
		c.arrs = append(c.arrs, arr)
	}
	return c, doc
}

func (c *c15Gen) name(i int) c09Expr {
	a := c.arrs[i]
	if chance(c.r, 0.6) {
		return a.names[0]
	}
	return pick(c.r, a.names)
}

func (c *c15Gen) length(i int) int {
	l, err := c.g.in.eval(c.arrs[i].names[0])
	if err != nil || l.cell.v.k != 'a' {
		return 0
	}
	return len(l.cell.v.a.e)
}

func (c *c15Gen) hasContainer(i int) bool {
	l, err := c.g.in.eval(c.arrs[i].names[0])
	if err != nil || l.cell.v.k != 'a' {
		return false
	}
	for _, e := range l.cell.v.a.e {
		if e.v.k == 'a' || e.v.k == 'o' {
			return true
		}
	}
	return false
}

func (c *c15Gen) index(n int, errOK bool) c09Expr {
	r := c.r
	x := r.Float64()
	switch {
	case x < 0.4 && n > 0:
		return c09NumLit(float64(r.Intn(n)))
	case x < 0.5:
		return c09NumLit(float64(n))
	case x < 0.56:
		return c09NumLit(float64(n + 1 + r.Intn(2)))
	case x < 0.8 && n > 0:
		return c09NumLit(float64(-1 - r.Intn(n)))
	case x < 0.88 && n > 0:
		return c09NumLit(float64(r.Intn(n)) + 0.5)
	case x < 0.92 && errOK:
		return c09NumLit(float64(-n - 1))
	}
	return c09NumLit(float64(r.Intn(n + 1)))
}

// one operation, printing its result, followed by every array and its length
func (c *c15Gen) step(k int, errOK bool) {
	r := c.r
	i := r.Intn(len(c.arrs))
	j := r.Intn(len(c.arrs))
	N, M := c.name(i), c.name(j)
	n := c.length(i)
	tag := c09StrLit(fmt.Sprintf("#%d", k))
	call := func(recv c09Expr, m string, args ...c09Expr) *c09Call { return &c09Call{recv, m, args} }
	V := c15Elem(r, c.mode)
	x := r.Float64()
	if n > 8 && x < 0.5 {
		x = 0.2 + 0.12*r.Float64() // keep the arrays small: pop / popfirst
	}
	switch {
	case x < 0.2:
		c.add(c09Print(tag, call(N, "push", V)))
	case x < 0.27:
		c.add(c09Print(tag, call(N, "pop")))
	case x < 0.34:
		c.add(c09Print(tag, call(N, "popfirst")))
	case x < 0.44:
		c.add(c09Print(tag, c09At(N, c.index(n, errOK))))
	case x < 0.54:
		c.add(c09Do(&c09Asg{c09At(N, c.index(n, errOK)), V}))
	case x < 0.59:
		c.add(c09Print(tag, call(N, "length")))
	case x < 0.67:
		if c.hasContainer(i) && !(errOK && chance(r, 0.3)) {
			c.add(c09Print(tag, call(N, "length")))
		} else {
			arg := V
			if n > 0 && chance(r, 0.4) {
				arg = c09At(N, c.index(n, false)) // something that is in there (unless it is unset)
			}
			c.add(c09Print(tag, call(N, "contains", arg)))
		}
	case x < 0.73:
		if chance(r, 0.5) {
			c.add(c09Print(tag, call(N, "sort")))
		} else {
			// the sorted copy is a new array
			c.add(c09Do(&c09Asg{c09V("t"), call(N, "sort")}), c09Do(call(c09V("t"), "push", c09StrLit("t"))), c09Print(tag, c09V("t")))
		}
	case x < 0.90:
		// method calls nested in arguments
		var e c09Expr
		switch r.Intn(13) {
		case 0:
			e = call(N, "push", call(M, "push", V))
		case 1:
			e = call(N, "push", call(N, "pop"))
		case 2:
			e = call(N, "push", call(M, "pop"))
		case 3:
			e = call(N, "contains", call(M, "length"))
		case 4:
			e = call(N, "push", call(N, "length"))
		case 5:
			e = call(N, "push", call(M, "popfirst"))
		case 6:
			e = call(N, "push", call(M, "contains", V))
		case 7:
			e = call(N, "push", call(call(M, "push", V), "length"))
		case 8:
			e = call(N, "push", call(M, "sort"))
		case 9:
			e = c09At(N, &c09Bin{"-", call(call(N, "push", V), "length"), c09NumLit(1)})
		case 10:
			e = &c09Asg{c09At(N, call(M, "length")), call(M, "pop")}
		case 11:
			e = call(call(N, "push", V), "push", call(M, "popfirst"))
		default:
			e = call(N, "push", call(N, "push", call(M, "length")))
			if c.mode < 2 {
				e = call(N, "push", call(call(N, "push", call(M, "length")), "length"))
			}
		}
		c.add(c09Print(tag, e))
	case x < 0.94:
		// through a parameter
		c.add(c09Print(tag, &c09Call{nil, "psh", []c09Expr{N, V}}))
	case x < 0.97:
		// through a match binding
		c.add(&c09Stmt{kind: "match", v: "q", exprs: []c09Expr{N}, body: []*c09Stmt{c09Print(tag, call(c09V("q"), pick(r, []string{"pop", "popfirst", "length"})))}})
	default:
		// through a for-in variable over a holder array (the holder itself is not changed)
		c.add(c09Do(&c09Asg{c09V("hold"), &c09ArrLit{[]c09Expr{N}}}),
			&c09Stmt{kind: "forin", v: "it", exprs: []c09Expr{c09V("hold")}, body: []*c09Stmt{c09Print(tag, call(c09V("it"), "push", V))}})
	}
	for ai := range c.arrs {
		nm := c.arrs[ai].names[0]
		if chance(r, 0.3) {
			nm = pick(r, c.arrs[ai].names)
		}
		c.add(c09Print(nm, call(nm, "length")))
	}
}

func c15Sequence(r *rand.Rand, mode, steps int, errOK bool) (*c09Prog, string) {
	c, doc := c15Setup(r, mode)
	for k := 1; k <= steps && !c.dead; k++ {
		c.step(k, errOK && k > steps/2)
	}
	return &c09Prog{funcs: c09Helpers, body: c.body}, doc
}

func c15Emit(emit func(Case), p *c09Prog, doc string, extra ...string) {
	class, out, _ := c09Run(p, doc)
	prog := p.text()
	emit(Case{Req: RunReq(prog, nil, []File{{Name: "in.json", Data: []byte(doc)}}, false),
		Fields: []string{"class", "out"}, Meta: metaProg(prog, append([]string{"input", doc, "ideal_class", class}, extra...)...),
		Oracle: c09IdealOracle(class, out, "", false), NonTrivial: c09NT})
}

func init() {
	register(Family{
		Name: "ops-ideal", Prop: "C15",
		Rule: "operation sequences (push pop popfirst index read/write incl. negative, past the end and fractional, length contains sort, calls nested in arguments, calls through parameters / match bindings / for-in variables) on 1-3 arrays living in variables, the document ($.list, $.o.items, $.m[0], $ itself, $[0]) and other containers, named through aliases; three element modes (numbers+strings / every scalar incl. -0 NaN null bool / also unset and nested containers); result, every array and its length printed after each step; oracle: ideal lists (fam_c09.go interpreter) predict the whole output; non-trivial = distinct sequence ending ok or in a runtime error",
		Gen: func(r *rand.Rand, tier string, emit func(Case)) {
			n := tierN(tier, 2500, 25000)
			for i := 0; i < n; i++ {
				steps := 3 + r.Intn(38)
				if tier == "thorough" && i%1000 == 0 {
					steps = 500 + r.Intn(1500)
				}
				mode := r.Intn(3)
				p, doc := c15Sequence(r, mode, steps, chance(r, 0.3))
				c15Emit(emit, p, doc, "mode", fmt.Sprint(mode), "steps", fmt.Sprint(steps))
			}
		},
	})
}

// ---------------------------------------------------------------- sort / contains / nesting / arity

func c15ValuePool() []c09Expr {
	return []c09Expr{
		c09NumLit(0), c09NumLit(c15NegZero()), c09NumLit(1), c09NumLit(2), c09NumLit(10), c09NumLit(9), c09NumLit(2.5), &c09Par{c09NumLit(-3)}, c09NumLit(0.1), c15NaN,
		&c09Call{nil, "num", []c09Expr{c09StrLit("inf")}}, c09NumLit(100),
		c09StrLit(""), c09StrLit("a"), c09StrLit("b"), c09StrLit("B"), c09StrLit("10"), c09StrLit("9"), c09StrLit("1"), c09StrLit("2"), c09StrLit(" 1"), c09StrLit("1e1"), c09StrLit("0"),
		c09StrLit("-0"), c09StrLit("abc"), c09StrLit("é"), c09StrLit("true"), c09StrLit("null"), c09StrLit("nan"),
		c09BoolLit(true), c09BoolLit(false), c09NullLit(), c09V("un"),
		&c09ArrLit{}, &c09ArrLit{[]c09Expr{c09NumLit(1)}}, &c09ObjLit{}, &c09ObjLit{[]string{"k"}, []c09Expr{c09NumLit(1)}},
	}
}

var c15SortLists = [][]c09Expr{
	{c09StrLit("b"), c09StrLit("a"), c09StrLit("B")},
	{c09NumLit(10), c09StrLit("9"), c09NumLit(2)},
	{c09NumLit(2), c09NumLit(10), c09NumLit(1)},
	{c09StrLit("1"), c09NumLit(1), c09StrLit("1"), c09NumLit(1)},
	{c09NumLit(1), c09StrLit("1")},
	{c09NumLit(0), c09NumLit(c15NegZero()), c09NumLit(0)},
	{c09NumLit(c15NegZero()), c09NumLit(0)},
	{c09NumLit(3), c15NaN, c09NumLit(1), c15NaN},
	{c09BoolLit(true), c09NullLit(), c09BoolLit(false), &c09ArrLit{[]c09Expr{c09NumLit(1)}}, &c09ObjLit{}, c09StrLit("")},
	{c09StrLit("b"), c09BoolLit(true), c09StrLit("a"), c09NullLit()},
	{c09NumLit(2), c09NullLit(), c09NumLit(1)},
	{c09NumLit(2), c09V("un"), c09NumLit(1)},
	{c09NumLit(10), c09NumLit(9), c09NumLit(100), c09NumLit(1)},
	{c09StrLit("10"), c09StrLit("9"), c09StrLit("100"), c09StrLit("1")},
	{c09NumLit(2.5), c09NumLit(2), &c09Par{c09NumLit(-3)}, c09NumLit(0.1)},
	{c09StrLit("é"), c09StrLit("z"), c09StrLit("Z"), c09StrLit("")},
	{},
	{c09NumLit(1)},
	{&c09ArrLit{[]c09Expr{c09NumLit(2)}}, &c09ArrLit{[]c09Expr{c09NumLit(1)}}},
}

func c15SortProg(list []c09Expr) *c09Prog {
	a := c09V("a")
	call := func(recv c09Expr, m string, args ...c09Expr) *c09Call { return &c09Call{recv, m, args} }
	body := []*c09Stmt{
		c09Do(&c09Asg{a, &c09ArrLit{list}}),
		c09Do(&c09Asg{c09V("s"), call(a, "sort")}),
		c09Print(c09V("s"), call(c09V("s"), "length")),
		c09Print(a, call(a, "length")),                   // the original is untouched
		c09Do(call(c09V("s"), "push", c09StrLit("new"))), // and the copy is a different array
		c09Print(c09V("s"), a),
		c09Print(call(call(a, "sort"), "sort"), call(call(a, "sort"), "length")),
	}
	return &c09Prog{body: body}
}

// contains(v) against == element by element: two programs that must print the same
func c15ContainsPair(list []c09Expr, v c09Expr) (string, string) {
	lit := (&c09ArrLit{list}).text()
	p1 := "{\n  a = " + lit + "\n  print a.contains(" + v.text() + ")\n}\n"
	p2 := "{\n  a = " + lit + "\n  r = false\n  for (i = 0; i < " + fmt.Sprint(len(list)) + "; i++) {\n    if (a[i] == " + v.text() + ") {\n      r = true\n      break\n    }\n  }\n  print r\n}\n"
	return p1, p2
}

func init() {
	register(Family{
		Name: "sort-contains", Prop: "C15",
		Rule: "sort on 19 hand-picked lists (equal keys with distinguishable identity, numbers vs numeric strings, -0/0, NaN, empty string forms, unset, nested) and on random lists of 0-7 pool values of every kind: sorted copy, its length, original untouched, copy independent, idempotence; contains(v) for every pool value v on random lists, paired with a loop applying == to each element in order (both programs must print the same or both fail); oracle: ideal interpreter + pair agreement",
		Gen: func(r *rand.Rand, tier string, emit func(Case)) {
			pool := c15ValuePool()
			for _, l := range c15SortLists {
				c15Emit(emit, c15SortProg(l), "{}")
			}
			n := tierN(tier, 800, 10000)
			for i := 0; i < n; i++ {
				k := r.Intn(8)
				var l []c09Expr
				sub := pool
				switch r.Intn(4) {
				case 0:
					sub = pool[:12] // numbers only
				case 1:
					sub = pool[:29] // numbers and strings
				}
				for j := 0; j < k; j++ {
					l = append(l, pick(r, sub))
				}
				c15Emit(emit, c15SortProg(l), "{}")
			}
			m := tierN(tier, 1500, 15000)
			for i := 0; i < m; i++ {
				k := r.Intn(5)
				var l []c09Expr
				sub := pool
				if chance(r, 0.6) {
					sub = pool[:33] // no containers: no error
				}
				for j := 0; j < k; j++ {
					l = append(l, pick(r, sub))
				}
				v := pick(r, pool)
				if k > 0 && chance(r, 0.3) {
					v = l[r.Intn(k)]
				}
				p1, p2 := c15ContainsPair(l, v)
				g := fmt.Sprintf("contains-%d", i)
				in := c09NewInterp()
				in.root = &c09Cell{c09NewObj()}
				want, werr := c09Method("contains", func() c09Val {
					vs, _ := in.evalList(l)
					return c09NewArr(vs...)
				}(), func() []c09Val { vs, _ := in.evalList([]c09Expr{v}); return vs }())
				wantOut, wantClass := "", "runtime"
				if werr == nil {
					wantOut, wantClass = c09Pretty(want, false)+"\n", "ok"
				}
				for _, p := range []string{p1, p2} {
					emit(Case{Req: RunReq(p, nil, []File{{Name: "in.json", Data: []byte("{}")}}, false), Fields: []string{"class", "out"},
						Meta: metaProg(p), Group: g, GroupFields: []string{"class", "out"},
						Oracle: func(i Resp) string {
							if i["class"] != wantClass || (wantClass == "ok" && string(i.Bytes("out")) != wantOut) {
								return fmt.Sprintf("contains / == per element: expected %s %q, got %s %q", wantClass, wantOut, i["class"], string(i.Bytes("out")))
							}
							return ""
						}, NonTrivial: c09NT})
				}
			}
		},
	})
	register(Family{
		Name: "nesting-arity", Prop: "C15",
		Rule: "every pair of array methods nested as a.M1(b.M2(..)) and a.M1(a.M2(..)) for two arrays (distinct, aliased or the same), three-deep nestings, chained calls on returned arrays, and every method with 0-3 arguments; a, b printed before and after; oracle: ideal interpreter (each call acts on the array it was invoked on; argument counts checked as documented)",
		Gen: func(r *rand.Rand, tier string, emit func(Case)) {
			call := func(recv c09Expr, m string, args ...c09Expr) *c09Call { return &c09Call{recv, m, args} }
			a, b := c09V("a"), c09V("b")
			inner := func(x c09Expr) []c09Expr {
				return []c09Expr{call(x, "push", c09NumLit(1)), call(x, "pop"), call(x, "popfirst"), call(x, "length"), call(x, "contains", c09NumLit(2)), call(x, "sort"),
					c09At(x, c09NumLit(0)), c09At(x, c09NumLit(-1)), call(call(x, "push", c09NumLit(7)), "length"), call(call(x, "sort"), "pop")}
			}
			setups := [][]*c09Stmt{
				{c09Do(&c09Asg{a, &c09ArrLit{[]c09Expr{c09NumLit(3), c09NumLit(2)}}}), c09Do(&c09Asg{b, &c09ArrLit{[]c09Expr{c09NumLit(2), c09NumLit(9), c09NumLit(4)}}})},
				{c09Do(&c09Asg{a, &c09ArrLit{[]c09Expr{c09NumLit(3), c09NumLit(2)}}}), c09Do(&c09Asg{b, a})},
				{c09Do(&c09Asg{a, &c09ArrLit{}}), c09Do(&c09Asg{b, &c09ArrLit{}})},
				{c09Do(&c09Asg{a, c09Dot(c09V("$"), "list")}), c09Do(&c09Asg{b, c09At(c09Dot(c09V("$"), "m"), c09NumLit(0))})},
			}
			doc := `{"list": [5, 2], "m": [[2, "x"], 1]}`
			show := c09Print(a, call(a, "length"), b, call(b, "length"), c09Dot(c09V("$"), "list"), c09Dot(c09V("$"), "m"))
			for _, st := range setups {
				for _, in1 := range append(inner(b), inner(a)...) {
					for _, outer := range []func(c09Expr) c09Expr{
						func(x c09Expr) c09Expr { return call(a, "push", x) },
						func(x c09Expr) c09Expr { return call(a, "contains", x) },
						func(x c09Expr) c09Expr { return c09At(a, x) },
						func(x c09Expr) c09Expr { return &c09Asg{c09At(a, c09NumLit(1)), x} },
						func(x c09Expr) c09Expr { return call(a, "push", call(b, "push", x)) },
						func(x c09Expr) c09Expr {
							return call(call(a, "push", x), "push", call(b, "length"))
						},
					} {
						body := append(append([]*c09Stmt{}, st...), show, c09Print(c09StrLit("r"), outer(in1)), show)
						c15Emit(emit, &c09Prog{body: body}, doc)
					}
				}
			}
			// arity: every method with 0..3 arguments
			args := []c09Expr{c09NumLit(2), c09StrLit("x"), c09NullLit()}
			for _, m := range []string{"length", "push", "pop", "popfirst", "contains", "sort", "nosuch"} {
				for k := 0; k <= 3; k++ {
					for _, st := range setups[:2] {
						body := append(append([]*c09Stmt{}, st...), show, c09Print(c09StrLit("r"), call(a, m, args[:k]...)), show)
						if m == "nosuch" {
							// a.nosuch is null: calling it is a runtime error
							prog := (&c09Prog{body: body}).text()
							emit(Case{Req: RunReq(prog, nil, []File{{Name: "in.json", Data: []byte(doc)}}, false), Fields: []string{"class", "out"}, Meta: metaProg(prog),
								Oracle: func(i Resp) string {
									if i["class"] != "runtime" {
										return "calling a missing method must be a runtime error"
									}
									return ""
								}, NonTrivial: c09NT})
							continue
						}
						c15Emit(emit, &c09Prog{body: body}, doc)
					}
				}
			}
		},
	})
}

// ---------------------------------------------------------------- recursion: one call site, several receivers
//
// The same syntactic call site `x.m(...)` active several times at once with
// different receivers: recursive (also mutually recursive) functions whose
// body contains `acc.push(<expression that recursively calls the function with
// another array>)`, the same with contains, chained pushes, receivers that are
// themselves results of the recursion, pushes into sorted copies and loops
// around the site; pop / popfirst / sort / length / [0] applied to what the
// recursion returns.  A small evaluator over ideal lists (c09Val, c09Method)
// predicts the whole output.

type c15X struct {
	k    string // num str var bin arr meth call idx asg raw
	f    float64
	s    string // variable / method / function name, operator, string text
	a, b *c15X
	args []*c15X
}

func c15Num(f float64) *c15X { return &c15X{k: "num", f: f} }
func c15Var(n string) *c15X  { return &c15X{k: "var", s: n} }
func c15Str(s string) *c15X  { return &c15X{k: "str", s: s} }
func c15Bin(op string, a, b *c15X) *c15X {
	return &c15X{k: "bin", s: op, a: a, b: b}
}
func c15Meth(recv *c15X, m string, args ...*c15X) *c15X {
	return &c15X{k: "meth", s: m, a: recv, args: args}
}
func c15CallF(f string, args ...*c15X) *c15X { return &c15X{k: "call", s: f, args: args} }
func c15ArrX(items ...*c15X) *c15X           { return &c15X{k: "arr", args: items} }
func c15Idx(a *c15X, i float64) *c15X        { return &c15X{k: "idx", a: a, b: c15Num(i)} }

func (e *c15X) text() string {
	list := func(es []*c15X) string {
		p := make([]string, len(es))
		for i, x := range es {
			p[i] = x.text()
		}
		return strings.Join(p, ", ")
	}
	switch e.k {
	case "num":
		return numLit(e.f)
	case "str":
		return mustStrLit(e.s)
	case "var":
		return e.s
	case "bin":
		return "(" + e.a.text() + " " + e.s + " " + e.b.text() + ")"
	case "arr":
		return "[" + list(e.args) + "]"
	case "meth":
		return e.a.text() + "." + e.s + "(" + list(e.args) + ")"
	case "call":
		return e.s + "(" + list(e.args) + ")"
	case "idx":
		return e.a.text() + "[" + e.b.text() + "]"
	case "asg":
		return e.s + " = " + e.a.text()
	case "raw":
		return e.s
	}
	panic("c15X " + e.k)
}

type c15S struct {
	k          string // ifret do ret print forin
	e          *c15X  // condition (ifret), expression (do, ret), iterable (forin)
	ret        *c15X
	args       []*c15X
	v          string
	body       []*c15S
	thenB, elB []*c15S
}

func c15Stmts(ss []*c15S, ind string) string {
	var sb strings.Builder
	for _, s := range ss {
		switch s.k {
		case "ifret":
			sb.WriteString(ind + "if " + s.e.text() + " { return " + s.ret.text() + " }\n")
		case "do":
			sb.WriteString(ind + s.e.text() + "\n")
		case "ret":
			sb.WriteString(ind + "return " + s.e.text() + "\n")
		case "print":
			p := make([]string, len(s.args))
			for i, x := range s.args {
				p[i] = x.text()
			}
			sb.WriteString(ind + "print " + strings.Join(p, ", ") + "\n")
		case "forin":
			sb.WriteString(ind + "for (" + s.v + " in " + s.e.text() + ") {\n" + c15Stmts(s.body, ind+"  ") + ind + "}\n")
		}
	}
	return sb.String()
}

type c15F struct {
	name   string
	params []string
	body   []*c15S
}

type c15Rec struct {
	funcs   map[string]*c15F
	globals map[string]*c09Cell
	frames  []map[string]*c09Cell
	out     strings.Builder
	calls   int
	retV    c09Val
}

var c15ErrRet = &c09Err{"return"}
var c15ErrBudget = &c09Err{"budget"}

func (in *c15Rec) cell(name string) *c09Cell {
	if len(in.frames) > 0 {
		if c, ok := in.frames[len(in.frames)-1][name]; ok {
			return c
		}
	}
	// dynamic scoping: the callers' frames, innermost first, then the globals
	for i := len(in.frames) - 2; i >= 0; i-- {
		if c, ok := in.frames[i][name]; ok {
			return c
		}
	}
	c, ok := in.globals[name]
	if !ok {
		c = &c09Cell{c09Unset}
		in.globals[name] = c
	}
	return c
}

func (in *c15Rec) eval(e *c15X) (c09Val, error) {
	switch e.k {
	case "num":
		return c09N(e.f), nil
	case "str":
		return c09S(e.s), nil
	case "var":
		return in.cell(e.s).v, nil
	case "bin":
		a, err := in.eval(e.a)
		if err != nil {
			return c09Null, err
		}
		b, err := in.eval(e.b)
		if err != nil {
			return c09Null, err
		}
		switch e.s {
		case "-":
			return c09N(a.num() - b.num()), nil
		case "*":
			return c09N(a.num() * b.num()), nil
		case "+":
			if a.k == 's' || b.k == 's' {
				return c09S(a.str() + b.str()), nil
			}
			return c09N(a.num() + b.num()), nil
		case "==":
			c, err := c09Compare(a, b)
			return c09B(c == 0), err
		}
		panic("c15 bin " + e.s)
	case "arr":
		vs := make([]c09Val, len(e.args))
		for i, x := range e.args {
			v, err := in.eval(x)
			if err != nil {
				return c09Null, err
			}
			vs[i] = v
		}
		return c09NewArr(vs...), nil
	case "meth":
		recv, err := in.eval(e.a)
		if err != nil {
			return c09Null, err
		}
		if recv.k != 'a' {
			return c09Null, c09E("method %s on a value that is not an array", e.s)
		}
		args := make([]c09Val, len(e.args))
		for i, x := range e.args {
			v, err := in.eval(x)
			if err != nil {
				return c09Null, err
			}
			args[i] = v
		}
		return c09Method(e.s, recv, args)
	case "idx":
		base, err := in.eval(e.a)
		if err != nil {
			return c09Null, err
		}
		if base.k != 'a' {
			return c09Null, c09E("index on a value that is not an array")
		}
		iv, err := in.eval(e.b)
		if err != nil {
			return c09Null, err
		}
		i, ok := c09Resolve(len(base.a.e), iv.num())
		if !ok {
			return c09Null, c09E("index before the start")
		}
		if i < len(base.a.e) {
			return base.a.e[i].v, nil
		}
		return c09Null, nil
	case "asg":
		v, err := in.eval(e.a)
		if err != nil {
			return c09Null, err
		}
		in.cell(e.s).v = v
		return v, nil
	case "raw":
		// $.name
		return in.globals["$"].v.o.m[e.s[2:]].v, nil
	case "call":
		f := in.funcs[e.s]
		args := make([]c09Val, len(e.args))
		for i, x := range e.args {
			v, err := in.eval(x)
			if err != nil {
				return c09Null, err
			}
			args[i] = v
		}
		in.calls++
		if in.calls > 600 || in.out.Len() > 10000 {
			return c09Null, c15ErrBudget
		}
		fr := map[string]*c09Cell{}
		for i, p := range f.params {
			if i < len(args) {
				fr[p] = &c09Cell{args[i]}
			} else {
				fr[p] = &c09Cell{c09Null}
			}
		}
		in.frames = append(in.frames, fr)
		err := in.exec(f.body)
		in.frames = in.frames[:len(in.frames)-1]
		if err == c15ErrRet {
			return in.retV, nil
		}
		return c09Null, err
	}
	panic("c15 eval " + e.k)
}

// c15Small: does rendering v visit at most *budget nodes (an array reachable along many paths is visited once per path)?
func c15Small(v c09Val, roots []c09Val, budget *int) bool {
	*budget--
	if *budget < 0 {
		return false
	}
	if v.k != 'a' {
		return true
	}
	for _, r := range roots {
		if c09Same(r, v) {
			return true
		}
	}
	nr := append(append([]c09Val{}, roots...), v)
	for _, c := range v.a.e {
		if !c15Small(c.v, nr, budget) {
			return false
		}
	}
	return true
}

func (in *c15Rec) exec(ss []*c15S) error {
	for _, s := range ss {
		switch s.k {
		case "ifret":
			c, err := in.eval(s.e)
			if err != nil {
				return err
			}
			if c.truthy() {
				v, err := in.eval(s.ret)
				if err != nil {
					return err
				}
				in.retV = v
				return c15ErrRet
			}
		case "do":
			if _, err := in.eval(s.e); err != nil {
				return err
			}
		case "ret":
			v, err := in.eval(s.e)
			if err != nil {
				return err
			}
			in.retV = v
			return c15ErrRet
		case "print":
			parts := make([]string, len(s.args))
			vals := make([]c09Val, len(s.args))
			for i, x := range s.args {
				v, err := in.eval(x)
				if err != nil {
					return err
				}
				vals[i] = v
			}
			for i, v := range vals {
				// shared sub-arrays are rendered once per path: keep the tree small
				budget := 500
				if !c15Small(v, nil, &budget) {
					return c15ErrBudget
				}
				parts[i] = c09Pretty(v, false)
			}
			in.out.WriteString(strings.Join(parts, " ") + "\n")
		case "forin":
			it, err := in.eval(s.e)
			if err != nil {
				return err
			}
			if it.k != 'a' {
				return c09E("not iterable")
			}
			loc := in.cell(s.v)
			for _, c := range append([]*c09Cell{}, it.a.e...) {
				loc.v = c.v
				if err := in.exec(s.body); err != nil {
					return err
				}
			}
		}
	}
	return nil
}

const c15RecDoc = `{"g": [7, 8], "pool": [[1], [2, 2], [], [4], [5, 5, 5], [6], [7]]}`

// c15RecProgram builds one random recursive program; ok=false when its run would be too long
func c15RecProgram(r *rand.Rand, depth int) (text, class, out string, ok bool) {
	acc, n := c15Var("acc"), c15Var("n")
	nf := 1
	if chance(r, 0.3) {
		nf = 2
	}
	names := []string{"build", "walk"}[:nf]
	branching := 0
	rec := func(self int) *c15X {
		callee := names[self]
		if nf == 2 && chance(r, 0.7) {
			callee = names[1-self]
		}
		var other *c15X
		switch r.Intn(11) {
		case 0, 1:
			other = c15ArrX(c15Bin("*", n, c15Num(10)))
		case 2:
			other = c15ArrX()
		case 3:
			other = c15ArrX(n, c15Meth(acc, "length"))
		case 4:
			other = c15Var("g1")
		case 5, 6:
			other = &c15X{k: "idx", a: c15Var("pool"), b: n}
		case 7:
			other = c15Meth(acc, "sort")
		case 8:
			other = c15ArrX(acc)
		case 9:
			other = acc
		default:
			other = c15ArrX(c15Num(float64(r.Intn(5))), c15Num(float64(r.Intn(5))))
		}
		branching++
		return c15CallF(callee, other, c15Bin("-", n, c15Num(1)))
	}
	wrap := func(x *c15X) *c15X {
		switch r.Intn(12) {
		case 0, 1, 2:
			return c15Meth(x, "length")
		case 3:
			return c15Idx(x, 0)
		case 4:
			return c15Meth(x, "pop")
		case 5:
			return c15Meth(x, "popfirst")
		case 6:
			return c15Meth(x, "contains", n)
		case 7:
			return c15Meth(c15Meth(x, "sort"), "length")
		case 8, 9:
			return x
		case 10:
			return c15Meth(c15Meth(x, "push", n), "length")
		default:
			return c15Meth(x, "sort")
		}
	}
	num := func(x *c15X) *c15X { // a number out of the recursion's result (contains compares it with the elements)
		if chance(r, 0.3) {
			return c15Meth(c15Meth(x, "push", n), "length")
		}
		return c15Meth(x, "length")
	}
	funcs := map[string]*c15F{}
	var order []*c15F
	for fi, name := range names {
		f := &c15F{name: name, params: []string{"acc", "n", "x"}}
		base := acc
		if chance(r, 0.15) {
			base = c15ArrX(n)
		}
		f.body = append(f.body, &c15S{k: "ifret", e: c15Bin("==", n, c15Num(0)), ret: base})
		if chance(r, 0.3) {
			f.body = append(f.body, &c15S{k: "print", args: []*c15X{c15Str("in " + name), n, acc}})
		}
		nSites := 1 + r.Intn(2)
		for si := 0; si < nSites; si++ {
			kind := r.Intn(12)
			if si == 0 && kind > 8 && chance(r, 0.7) {
				kind = 0 // the plain seeded shape most of the time
			}
			switch kind {
			case 0, 1, 2, 3:
				f.body = append(f.body, &c15S{k: "do", e: c15Meth(acc, "push", wrap(rec(fi)))})
			case 4:
				f.body = append(f.body, &c15S{k: "print", args: []*c15X{c15Str("c"), n, c15Meth(acc, "contains", num(rec(fi)))}})
			case 5:
				f.body = append(f.body, &c15S{k: "do", e: c15Meth(c15Meth(acc, "push", wrap(rec(fi))), "push", wrap(rec(fi)))})
			case 6:
				f.body = append(f.body, &c15S{k: "do", e: c15Meth(rec(fi), "push", c15Meth(acc, "length"))})
			case 7:
				f.body = append(f.body, &c15S{k: "forin", v: "x", e: c15ArrX(c15Num(1), c15Num(2)), body: []*c15S{{k: "do", e: c15Meth(acc, "push", wrap(rec(fi)))}}})
				branching++
			case 8:
				f.body = append(f.body, &c15S{k: "do", e: c15Meth(c15Meth(acc, "sort"), "push", wrap(rec(fi)))})
			case 9:
				f.body = append(f.body, &c15S{k: "do", e: c15Meth(acc, "push", c15Bin("+", num(rec(fi)), num(rec(fi))))})
			case 10:
				f.body = append(f.body, &c15S{k: "do", e: c15Meth(c15Var("g1"), "push", wrap(rec(fi)))})
			default:
				f.body = append(f.body, &c15S{k: "print", args: []*c15X{c15Str("l"), n, c15Meth(c15Meth(acc, "push", wrap(rec(fi))), "length"), c15Meth(acc, "length")}})
			}
			if chance(r, 0.25) {
				f.body = append(f.body, &c15S{k: "do", e: c15Meth(acc, "push", n)})
			}
		}
		if chance(r, 0.4) {
			f.body = append(f.body, &c15S{k: "print", args: []*c15X{c15Str("out " + name), n, acc, c15Meth(acc, "length")}})
		}
		f.body = append(f.body, &c15S{k: "ret", e: acc})
		funcs[name] = f
		order = append(order, f)
	}
	var initArr *c15X
	switch r.Intn(4) {
	case 0:
		initArr = c15ArrX()
	case 1:
		initArr = c15ArrX(c15Num(100))
	case 2:
		initArr = c15Var("g1")
	default:
		initArr = c15ArrX(c15Num(3), c15Num(1), c15Num(2))
	}
	main := []*c15S{
		{k: "do", e: &c15X{k: "asg", s: "g1", a: &c15X{k: "raw", s: "$.g"}}},
		{k: "do", e: &c15X{k: "asg", s: "pool", a: &c15X{k: "raw", s: "$.pool"}}},
		{k: "print", args: []*c15X{c15Str("r"), c15CallF(names[0], initArr, c15Num(float64(depth)))}},
		{k: "print", args: []*c15X{c15Str("g"), c15Var("g1"), c15Var("pool")}},
		{k: "print", args: []*c15X{c15Str("again"), c15CallF(names[nf-1], c15ArrX(), c15Num(float64(depth-1)))}},
		{k: "print", args: []*c15X{c15Str("g"), c15Var("g1"), c15Var("pool")}},
	}
	var sb strings.Builder
	for _, f := range order {
		sb.WriteString("function " + f.name + "(" + strings.Join(f.params, ", ") + ") {\n" + c15Stmts(f.body, "  ") + "}\n")
	}
	sb.WriteString("{\n" + c15Stmts(main, "  ") + "}\n")
	in := &c15Rec{funcs: funcs, globals: map[string]*c09Cell{}}
	root := c09Decode(c15RecDoc)
	in.globals["$"] = &c09Cell{root}
	err := in.exec(main)
	if err == c15ErrBudget {
		return "", "", "", false
	}
	class = "ok"
	if err != nil {
		class = "runtime"
	}
	return sb.String(), class, in.out.String(), true
}

// ---------------------------------------------------------------- long histories
//
// Arrays of 60-5000 elements (from the document, from a literal, built by
// pushes, a sorted copy, living in another container) popped / popfirst-ed
// down to empty in phases, with pushes interleaved around the quarter and half
// marks of the capacities 64 128 256 1024 4096; the k-th removal must return
// the element the ideal list gives and leave its length, first and last
// element -- printed at every step (short arrays) or at sampled steps and at
// every step near a mark (long ones); sums over the whole array between phases.

type c15Hist struct {
	sb   strings.Builder // program body
	out  strings.Builder // expected output
	list []float64
	next float64 // next fresh value to push
	name string  // how the program names the array
}

func (h *c15Hist) show(tag string, v string) {
	if len(h.list) > 0 {
		fmt.Fprintf(&h.out, "%s %s %d %s %s\n", tag, v, len(h.list), c09Fmt(h.list[0]), c09Fmt(h.list[len(h.list)-1]))
	} else {
		fmt.Fprintf(&h.out, "%s %s 0\n", tag, v)
	}
}

// remove: count removals by pop / popfirst, shown when (step % every == 0) or the length is within 2 of a mark
func (h *c15Hist) remove(m string, count, every int) {
	fmt.Fprintf(&h.sb, "  for (i = 0; i < %d; i++) { v = %s.%s(); n = %s.length(); if (i %% %d == 0 || near(n)) show(\"%s\", v, %s) }\n", count, h.name, m, h.name, every, m, h.name)
	for i := 0; i < count; i++ {
		v := "null"
		if len(h.list) > 0 {
			if m == "pop" {
				v = c09Fmt(h.list[len(h.list)-1])
				h.list = h.list[:len(h.list)-1]
			} else {
				v = c09Fmt(h.list[0])
				h.list = h.list[1:]
			}
		}
		if i%every == 0 || c15Near(len(h.list)) {
			h.show(m, v)
		}
	}
}

func (h *c15Hist) push(count int) {
	fmt.Fprintf(&h.sb, "  for (i = 0; i < %d; i++) { %s.push(%s + i) }\n  show(\"push\", %d, %s)\n", count, h.name, c09Fmt(h.next), count, h.name)
	for i := 0; i < count; i++ {
		h.list = append(h.list, h.next+float64(i))
	}
	h.next += float64(count)
	h.show("push", fmt.Sprint(count))
}

func (h *c15Hist) sum() {
	fmt.Fprintf(&h.sb, "  s = 0; for (e in %s) { s += e }\n  print \"sum\", s, %s.length()\n", h.name, h.name)
	t := 0.0
	for _, x := range h.list {
		t += x
	}
	fmt.Fprintf(&h.out, "sum %s %d\n", c09Fmt(t), len(h.list))
}

var c15Marks = []int{16, 32, 64, 128, 256, 512, 1024, 2048, 4096}

func c15Near(n int) bool {
	for _, m := range c15Marks {
		if n >= m-2 && n <= m+2 {
			return true
		}
	}
	return n <= 2
}

const c15HistFuncs = "function near(n) {\n  for (m in [16, 32, 64, 128, 256, 512, 1024, 2048, 4096]) { if (n >= m - 2 && n <= m + 2) { return true } }\n  return n <= 2\n}\n" +
	"function show(t, v, a) {\n  if (a.length() > 0) { print t, v, a.length(), a[0], a[-1] } else { print t, v, 0 }\n}\n"

func c15HistProgram(r *rand.Rand, n int) (prog, doc, want string) {
	h := &c15Hist{next: 100000}
	vals := make([]float64, n)
	txt := make([]string, n)
	for i := range vals {
		vals[i] = float64(i + 1)
		if chance(r, 0.1) {
			vals[i] += 0.5
		}
		txt[i] = c09Fmt(vals[i])
	}
	h.list = append([]float64{}, vals...)
	doc = "{}"
	var setup string
	h.name = "a"
	switch r.Intn(7) {
	case 0: // the document's own array, named in full each time
		doc = `{"items": [` + strings.Join(txt, ", ") + `]}`
		h.name = "$.items"
	case 1: // the document's array through a variable
		doc = `{"o": {"items": [` + strings.Join(txt, ",") + `]}}`
		setup = "  a = $.o.items\n"
	case 2: // a literal
		setup = "  a = [" + strings.Join(txt, ", ") + "]\n"
	case 3: // built by pushes
		all := true
		for i, v := range vals {
			if v != float64(i+1) {
				all = false
			}
		}
		if all {
			setup = fmt.Sprintf("  a = []\n  for (i = 1; i <= %d; i++) { a.push(i) }\n", n)
		} else {
			setup = "  src = [" + strings.Join(txt, ", ") + "]\n  a = []\n  for (e in src) { a.push(e) }\n"
		}
	case 4: // a sorted copy (of a reversed literal)
		rev := make([]string, n)
		for i := range txt {
			rev[n-1-i] = txt[i]
		}
		setup = "  a = [" + strings.Join(rev, ", ") + "].sort()\n"
	case 5: // inside another container
		setup = "  h = {list: [" + strings.Join(txt, ", ") + "]}\n"
		h.name = "h.list"
	default: // built by an index store past the end, then filled
		setup = fmt.Sprintf("  a = []\n  a[%d] = 0\n  for (i = 0; i < %d; i++) { a[i] = i + 1 }\n", n-1, n)
		for i := range h.list {
			h.list[i] = float64(i + 1)
		}
	}
	h.sb.WriteString(setup)
	every := 1
	if n > 300 {
		every = 5 + r.Intn(40)
	}
	// the marks the array will cross on its way down, largest first
	var marks []int
	for _, c := range []int{4096, 1024, 256, 128, 64} {
		for _, m := range []int{c / 2, c / 4} {
			if m < n {
				marks = append(marks, m)
			}
		}
	}
	h.show("start", "0")
	fmt.Fprintf(&h.sb, "  show(\"start\", 0, %s)\n", h.name)
	if chance(r, 0.5) {
		// pushes onto the array as it came (a literal's / document's backing storage is exactly full)
		h.push(1 + r.Intn(4))
	}
	if chance(r, 0.5) {
		h.sum()
	}
	for _, m := range marks {
		if len(h.list) <= m {
			continue
		}
		meth := pick(r, []string{"pop", "pop", "pop", "popfirst"})
		// down to just above the mark, a few pushes, then across it
		above := m + r.Intn(4)
		if d := len(h.list) - above; d > 0 {
			h.remove(meth, d, every)
		}
		if chance(r, 0.6) {
			h.push(r.Intn(6))
		}
		if chance(r, 0.3) {
			h.sum()
		}
		h.remove(pick(r, []string{"pop", "pop", "popfirst"}), len(h.list)-m+1+r.Intn(3), 1)
		if chance(r, 0.3) {
			h.push(1 + r.Intn(2*m))
		}
	}
	h.sum()
	h.remove(pick(r, []string{"pop", "pop", "popfirst"}), len(h.list)+2, every) // to empty and beyond
	if chance(r, 0.6) {
		// grow again from empty and take everything off once more
		k := 65 + r.Intn(80)
		h.push(k)
		h.remove("pop", k/2, 1)
		h.sum()
		h.remove(pick(r, []string{"pop", "popfirst"}), len(h.list)+1, 1)
	}
	return c15HistFuncs + "{\n" + h.sb.String() + "}\n", doc, h.out.String()
}

func init() {
	register(Family{
		Name: "recursive-call-sites", Prop: "C15",
		Rule: "the same syntactic call site `x.m(...)` active several times at once with different receivers: recursive and mutually recursive functions (depth 2-6) whose body holds `acc.push(<expression that calls the function again with another array>)`, the same under contains, chained pushes, a + of two recursions, a loop around the site, a push into a sorted copy, into a global array, and with the receiver itself being the recursion's result; the other array is a fresh literal, a global from the document, an element of a global pool, a sorted copy, [acc] or acc itself; the inner result is used as is or through length [0] pop popfirst contains sort push; every level may print; oracle (implementation only): an evaluator over ideal lists predicts class and the whole output; also compared with the model",
		Gen: func(r *rand.Rand, tier string, emit func(Case)) {
			n := tierN(tier, 1500, 25000)
			for i := 0; i < n; i++ {
				depth := 2 + r.Intn(5)
				text, class, out, ok := c15RecProgram(r, depth)
				for !ok {
					if depth > 2 {
						depth--
					}
					text, class, out, ok = c15RecProgram(r, depth)
				}
				emit(Case{Req: RunReq(text, nil, []File{{Name: "in.json", Data: []byte(c15RecDoc)}}, false), Fields: []string{"class", "out"},
					Meta:   metaProg(text, "input", c15RecDoc, "depth", fmt.Sprint(depth), "ideal_class", class, "row", fmt.Sprintf("depth %d", depth)),
					Oracle: c09IdealOracle(class, out, "", false), NonTrivial: c09NT})
			}
		},
	})
	register(Family{
		Name: "long-histories", Prop: "C15",
		Rule: "arrays of 60-5000 elements (the document's own array named in full or through a variable, a literal, built by pushes, a sorted copy, inside another container, filled after an index store past the end) taken apart by pop / popfirst in phases down to empty and two steps beyond, with 0-5 pushes just above and larger bursts just below each quarter and half mark of the capacities 64 128 256 1024 4096, then grown again from empty and emptied once more; the removed value, length, first and last element are printed at every step (arrays up to 300) or every 5th-45th step and at every step within 2 of a power of two, sums over the whole array between phases; oracle (implementation only): the ideal list predicts the whole output; also compared with the model",
		Gen: func(r *rand.Rand, tier string, emit func(Case)) {
			sizes := []int{60, 63, 64, 65, 66, 70, 100, 127, 128, 129, 130, 200, 255, 256, 257, 300}
			big := []int{511, 512, 513, 1000, 1023, 1024, 1025, 1100, 2048, 2049, 3000, 4095, 4096, 4097, 5000}
			n := tierN(tier, 110, 1500)
			for i := 0; i < n; i++ {
				size := pick(r, sizes)
				if chance(r, 0.3) {
					size = 60 + r.Intn(260)
				}
				if i%6 == 5 {
					size = pick(r, big)
					if chance(r, 0.3) {
						size = 500 + r.Intn(4500)
					}
				}
				prog, doc, want := c15HistProgram(r, size)
				emit(Case{Req: RunReq(prog, nil, []File{{Name: "in.json", Data: []byte(doc)}}, false), Fields: []string{"class", "out"},
					Meta:   metaProg(short(prog), "size", fmt.Sprint(size)),
					Oracle: c09IdealOracle("ok", want, "", false), NonTrivial: c09NT})
			}
		},
	})
}
