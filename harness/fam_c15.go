package main

// C15 — array methods behave like an ideal list under every sequence of
// operations. The ideal list (and the rest of the little language around it) is
// the ideal interpreter of fam_c09.go: push appends and returns the array,
// pop/popfirst remove and return the last/first element or null, a[-k] counts
// from the end, an index before the start is an error, contains agrees with ==
// element by element, sort is a stable sorted copy.

import (
	"fmt"
	"math"
	"math/rand"
	"os"
	"strconv"
	"strings"
)

type c15Arr struct{ names []c09Expr } // every way the program can name this array; names[0] is the home

var c15NaN = &c09Call{nil, "num", []c09Expr{c09StrLit("nan")}}

// an element value: mode 0 numbers and strings, 1 every scalar, 2 also unset and nested containers
func c15Elem(r *rand.Rand, mode int) c09Expr {
	x := r.Float64()
	switch {
	case mode >= 2 && x < 0.06:
		return c09V("un") // a variable that is never assigned
	case mode >= 2 && x < 0.16:
		return pick(r, []c09Expr{&c09ArrLit{}, &c09ArrLit{[]c09Expr{c09NumLit(1)}}, &c09ObjLit{[]string{"k"}, []c09Expr{c09NumLit(1)}}, &c09ObjLit{},
			&c09ArrLit{[]c09Expr{c09StrLit("n"), &c09ArrLit{[]c09Expr{c09NumLit(2)}}}}})
	case mode >= 1 && x < 0.24:
		return pick(r, []c09Expr{c09BoolLit(true), c09BoolLit(false), c09NullLit(), c09NullLit()})
	case mode >= 1 && x < 0.32:
		return pick(r, []c09Expr{c09NumLit(7.25), c15NaN, c09NumLit(0.1), c09NumLit(2.5), &c09Par{c09NumLit(-2.5)}, &c09Par{c09NumLit(c15NegZero())}})
	case x < 0.65:
		return c09NumLit(pick(r, []float64{0, 1, 2, 3, 5, 9, 10, 10, 2, 100, 1}))
	default:
		return c09StrLit(pick(r, []string{"a", "b", "B", "10", "9", "2", "1", "", " 1", "ab", "é", "abc", "1e1"}))
	}
}

func c15NegZero() float64 { z := 0.0; return -z }

func c15List(r *rand.Rand, mode int) *c09ArrLit {
	n := r.Intn(5)
	l := &c09ArrLit{}
	for i := 0; i < n; i++ {
		l.items = append(l.items, c15Elem(r, mode))
	}
	return l
}

// JSON text of a literal list (only for mode-0/1 elements that JSON can express)
func c15JSONList(r *rand.Rand) string {
	n := r.Intn(5)
	parts := make([]string, n)
	for i := range parts {
		parts[i] = pick(r, []string{"0", "1", "2", "10", "9", "2.5", "-0", `"a"`, `"b"`, `"B"`, `"10"`, `"9"`, `""`, `"é"`, "true", "null", "1e1"})
	}
	return "[" + strings.Join(parts, ", ") + "]"
}

type c15Gen struct {
	r    *rand.Rand
	g    *c09Gen
	arrs []c15Arr
	mode int
	body []*c09Stmt
	dead bool // the program has ended in an error
}

func (c *c15Gen) add(ss ...*c09Stmt) {
	for _, s := range ss {
		if c.dead {
			return
		}
		c.body = append(c.body, s)
		if err := c.g.in.exec(s); err != nil {
			c.dead = true
		}
	}
}

// setup: the document, where the arrays live, and their aliases
func c15Setup(r *rand.Rand, mode int) (*c15Gen, string) {
	c := &c15Gen{r: r, mode: mode, g: &c09Gen{r: r, in: c09NewInterp(c09Helpers...)}}
	shape := r.Intn(20)
	doc := "{}"
	type home struct {
		name c09Expr
		init *c09Stmt
	}
	var homes []home
	varHome := func(v string) home {
		return home{c09V(v), c09Do(&c09Asg{c09V(v), c15List(r, mode)})}
	}
	switch {
	case shape < 3:
		doc = "[" + c15JSONList(r) + "]"
		homes = []home{{c09V("$"), nil}}
	case shape < 5:
		doc = "[[" + c15JSONList(r) + `, "x"]]`
		homes = []home{{c09At(c09V("$"), c09NumLit(0)), nil}}
	default:
		doc = `{"list": ` + c15JSONList(r) + `, "o": {"items": ` + c15JSONList(r) + `}, "m": [` + c15JSONList(r) + `, 5]}`
		homes = []home{{c09Dot(c09V("$"), "list"), nil}, {c09Dot(c09Dot(c09V("$"), "o"), "items"), nil}, {c09At(c09Dot(c09V("$"), "m"), c09NumLit(0)), nil}}
	}
	homes = append(homes, varHome("a"), varHome("a2"),
		home{c09Dot(c09V("ob"), "items"), c09Do(&c09Asg{c09V("ob"), &c09ObjLit{[]string{"items", "n"}, []c09Expr{c15List(r, mode), c09NumLit(1)}}})},
		home{c09At(c09V("w"), c09NumLit(0)), c09Do(&c09Asg{c09V("w"), &c09ArrLit{[]c09Expr{c15List(r, mode), c09NumLit(5)}}})},
		home{c09At(c09V("w2"), c09NumLit(-1)), c09Do(&c09Asg{c09V("w2"), &c09ArrLit{[]c09Expr{c09StrLit("x"), c15List(r, mode)}}})})
	r.Shuffle(len(homes), func(i, j int) { homes[i], homes[j] = homes[j], homes[i] })
	n := 1 + r.Intn(3)
	root := &c09Cell{c09Decode(doc)}
	c.g.in.root = root
	if root.v.k == 'a' {
		c.g.in.root = root.v.a.e[0]
	}
	for i := 0; i < n; i++ {
		h := homes[i]
		if h.init != nil {
			c.add(h.init)
		}
		arr := c15Arr{names: []c09Expr{h.name}}
		if chance(r, 0.45) {
			v := fmt.Sprintf("b%d", i)
			c.add(c09Do(&c09Asg{c09V(v), h.name})) // an alias in a variable
			arr.names = append(arr.names, c09V(v))
		}
		if chance(r, 0.2) {
			v := fmt.Sprintf("h%d", i)
			c.add(c09Do(&c09Asg{c09V(v), &c09ObjLit{[]string{"r"}, []c09Expr{h.name}}})) // an alias as a member of another container
			arr.names = append(arr.names, c09Dot(c09V(v), "r"))
		}
		c.arrs = append(c.arrs, arr)
	}
	return c, doc
}

func (c *c15Gen) name(i int) c09Expr {
	a := c.arrs[i]
	if chance(c.r, 0.6) {
		return a.names[0]
	}
	return pick(c.r, a.names)
}

func (c *c15Gen) length(i int) int {
	l, err := c.g.in.eval(c.arrs[i].names[0])
	if err != nil || l.cell.v.k != 'a' {
		return 0
	}
	return len(l.cell.v.a.e)
}

func (c *c15Gen) hasContainer(i int) bool {
	l, err := c.g.in.eval(c.arrs[i].names[0])
	if err != nil || l.cell.v.k != 'a' {
		return false
	}
	for _, e := range l.cell.v.a.e {
		if e.v.k == 'a' || e.v.k == 'o' {
			return true
		}
	}
	return false
}

func (c *c15Gen) index(n int, errOK bool) c09Expr {
	r := c.r
	x := r.Float64()
	switch {
	case x < 0.4 && n > 0:
		return c09NumLit(float64(r.Intn(n)))
	case x < 0.5:
		return c09NumLit(float64(n))
	case x < 0.56:
		return c09NumLit(float64(n + 1 + r.Intn(2)))
	case x < 0.8 && n > 0:
		return c09NumLit(float64(-1 - r.Intn(n)))
	case x < 0.88 && n > 0:
		return c09NumLit(float64(r.Intn(n)) + 0.5)
	case x < 0.92 && errOK:
		return c09NumLit(float64(-n - 1))
	}
	return c09NumLit(float64(r.Intn(n + 1)))
}

// one operation, printing its result, followed by every array and its length
func (c *c15Gen) step(k int, errOK bool) {
	r := c.r
	i := r.Intn(len(c.arrs))
	j := r.Intn(len(c.arrs))
	N, M := c.name(i), c.name(j)
	n := c.length(i)
	tag := c09StrLit(fmt.Sprintf("#%d", k))
	call := func(recv c09Expr, m string, args ...c09Expr) *c09Call { return &c09Call{recv, m, args} }
	V := c15Elem(r, c.mode)
	x := r.Float64()
	if n > 8 && x < 0.5 {
		x = 0.2 + 0.12*r.Float64() // keep the arrays small: pop / popfirst
	}
	switch {
	case x < 0.2:
		c.add(c09Print(tag, call(N, "push", V)))
	case x < 0.27:
		c.add(c09Print(tag, call(N, "pop")))
	case x < 0.34:
		c.add(c09Print(tag, call(N, "popfirst")))
	case x < 0.44:
		c.add(c09Print(tag, c09At(N, c.index(n, errOK))))
	case x < 0.54:
		c.add(c09Do(&c09Asg{c09At(N, c.index(n, errOK)), V}))
	case x < 0.59:
		c.add(c09Print(tag, call(N, "length")))
	case x < 0.67:
		if c.hasContainer(i) && !(errOK && chance(r, 0.3)) {
			c.add(c09Print(tag, call(N, "length")))
		} else {
			arg := V
			if n > 0 && chance(r, 0.4) {
				arg = c09At(N, c.index(n, false)) // something that is in there (unless it is unset)
			}
			c.add(c09Print(tag, call(N, "contains", arg)))
		}
	case x < 0.73:
		if chance(r, 0.5) {
			c.add(c09Print(tag, call(N, "sort")))
		} else {
			// the sorted copy is a new array
			c.add(c09Do(&c09Asg{c09V("t"), call(N, "sort")}), c09Do(call(c09V("t"), "push", c09StrLit("t"))), c09Print(tag, c09V("t")))
		}
	case x < 0.90:
		// method calls nested in arguments
		var e c09Expr
		switch r.Intn(13) {
		case 0:
			e = call(N, "push", call(M, "push", V))
		case 1:
			e = call(N, "push", call(N, "pop"))
		case 2:
			e = call(N, "push", call(M, "pop"))
		case 3:
			e = call(N, "contains", call(M, "length"))
		case 4:
			e = call(N, "push", call(N, "length"))
		case 5:
			e = call(N, "push", call(M, "popfirst"))
		case 6:
			e = call(N, "push", call(M, "contains", V))
		case 7:
			e = call(N, "push", call(call(M, "push", V), "length"))
		case 8:
			e = call(N, "push", call(M, "sort"))
		case 9:
			e = c09At(N, &c09Bin{"-", call(call(N, "push", V), "length"), c09NumLit(1)})
		case 10:
			e = &c09Asg{c09At(N, call(M, "length")), call(M, "pop")}
		case 11:
			e = call(call(N, "push", V), "push", call(M, "popfirst"))
		default:
			e = call(N, "push", call(N, "push", call(M, "length")))
			if c.mode < 2 {
				e = call(N, "push", call(call(N, "push", call(M, "length")), "length"))
			}
		}
		c.add(c09Print(tag, e))
	case x < 0.94:
		// through a parameter
		c.add(c09Print(tag, &c09Call{nil, "psh", []c09Expr{N, V}}))
	case x < 0.97:
		// through a match binding
		c.add(&c09Stmt{kind: "match", v: "q", exprs: []c09Expr{N}, body: []*c09Stmt{c09Print(tag, call(c09V("q"), pick(r, []string{"pop", "popfirst", "length"})))}})
	default:
		// through a for-in variable over a holder array (the holder itself is not changed)
		c.add(c09Do(&c09Asg{c09V("hold"), &c09ArrLit{[]c09Expr{N}}}),
			&c09Stmt{kind: "forin", v: "it", exprs: []c09Expr{c09V("hold")}, body: []*c09Stmt{c09Print(tag, call(c09V("it"), "push", V))}})
	}
	for ai := range c.arrs {
		nm := c.arrs[ai].names[0]
		if chance(r, 0.3) {
			nm = pick(r, c.arrs[ai].names)
		}
		c.add(c09Print(nm, call(nm, "length")))
	}
}

func c15Sequence(r *rand.Rand, mode, steps int, errOK bool) (*c09Prog, string) {
	c, doc := c15Setup(r, mode)
	for k := 1; k <= steps && !c.dead; k++ {
		c.step(k, errOK && k > steps/2)
	}
	return &c09Prog{funcs: c09Helpers, body: c.body}, doc
}

func c15Emit(emit func(Case), p *c09Prog, doc string, extra ...string) {
	class, out, _ := c09Run(p, doc)
	prog := p.text()
	emit(Case{Req: RunReq(prog, nil, []File{{Name: "in.json", Data: []byte(doc)}}, false),
		Fields: []string{"class", "out"}, Meta: metaProg(prog, append([]string{"input", doc, "ideal_class", class}, extra...)...),
		Oracle: c09IdealOracle(class, out, "", false), NonTrivial: c09NT})
}

func init() {
	register(Family{
		Name: "ops-ideal", Prop: "C15",
		Rule: "operation sequences (push pop popfirst index read/write incl. negative, past the end and fractional, length contains sort, calls nested in arguments, calls through parameters / match bindings / for-in variables) on 1-3 arrays living in variables, the document ($.list, $.o.items, $.m[0], $ itself, $[0]) and other containers, named through aliases; three element modes (numbers+strings / every scalar incl. -0 NaN null bool / also unset and nested containers); result, every array and its length printed after each step; oracle: ideal lists (fam_c09.go interpreter) predict the whole output; non-trivial = distinct sequence ending ok or in a runtime error",
		Gen: func(r *rand.Rand, tier string, emit func(Case)) {
			n := tierN(tier, 2500, 25000)
			for i := 0; i < n; i++ {
				steps := 3 + r.Intn(38)
				if tier == "thorough" && i%1000 == 0 {
					steps = 500 + r.Intn(1500)
				}
				mode := r.Intn(3)
				p, doc := c15Sequence(r, mode, steps, chance(r, 0.3))
				c15Emit(emit, p, doc, "mode", fmt.Sprint(mode), "steps", fmt.Sprint(steps))
			}
		},
	})
}

// ---------------------------------------------------------------- sort / contains / nesting / arity

func c15ValuePool() []c09Expr {
	return []c09Expr{
		c09NumLit(0), c09NumLit(c15NegZero()), c09NumLit(1), c09NumLit(2), c09NumLit(10), c09NumLit(9), c09NumLit(2.5), &c09Par{c09NumLit(-3)}, c09NumLit(0.1), c15NaN,
		&c09Call{nil, "num", []c09Expr{c09StrLit("inf")}}, c09NumLit(100),
		c09StrLit(""), c09StrLit("a"), c09StrLit("b"), c09StrLit("B"), c09StrLit("10"), c09StrLit("9"), c09StrLit("1"), c09StrLit("2"), c09StrLit(" 1"), c09StrLit("1e1"), c09StrLit("0"),
		c09StrLit("-0"), c09StrLit("abc"), c09StrLit("é"), c09StrLit("true"), c09StrLit("null"), c09StrLit("nan"),
		c09BoolLit(true), c09BoolLit(false), c09NullLit(), c09V("un"),
		&c09ArrLit{}, &c09ArrLit{[]c09Expr{c09NumLit(1)}}, &c09ObjLit{}, &c09ObjLit{[]string{"k"}, []c09Expr{c09NumLit(1)}},
	}
}

var c15SortLists = [][]c09Expr{
	{c09StrLit("b"), c09StrLit("a"), c09StrLit("B")},
	{c09NumLit(10), c09StrLit("9"), c09NumLit(2)},
	{c09NumLit(2), c09NumLit(10), c09NumLit(1)},
	{c09StrLit("1"), c09NumLit(1), c09StrLit("1"), c09NumLit(1)},
	{c09NumLit(1), c09StrLit("1")},
	{c09NumLit(0), c09NumLit(c15NegZero()), c09NumLit(0)},
	{c09NumLit(c15NegZero()), c09NumLit(0)},
	{c09NumLit(3), c15NaN, c09NumLit(1), c15NaN},
	{c09BoolLit(true), c09NullLit(), c09BoolLit(false), &c09ArrLit{[]c09Expr{c09NumLit(1)}}, &c09ObjLit{}, c09StrLit("")},
	{c09StrLit("b"), c09BoolLit(true), c09StrLit("a"), c09NullLit()},
	{c09NumLit(2), c09NullLit(), c09NumLit(1)},
	{c09NumLit(2), c09V("un"), c09NumLit(1)},
	{c09NumLit(10), c09NumLit(9), c09NumLit(100), c09NumLit(1)},
	{c09StrLit("10"), c09StrLit("9"), c09StrLit("100"), c09StrLit("1")},
	{c09NumLit(2.5), c09NumLit(2), &c09Par{c09NumLit(-3)}, c09NumLit(0.1)},
	{c09StrLit("é"), c09StrLit("z"), c09StrLit("Z"), c09StrLit("")},
	{},
	{c09NumLit(1)},
	{&c09ArrLit{[]c09Expr{c09NumLit(2)}}, &c09ArrLit{[]c09Expr{c09NumLit(1)}}},
}

func c15SortProg(list []c09Expr) *c09Prog {
	a := c09V("a")
	call := func(recv c09Expr, m string, args ...c09Expr) *c09Call { return &c09Call{recv, m, args} }
	body := []*c09Stmt{
		c09Do(&c09Asg{a, &c09ArrLit{list}}),
		c09Do(&c09Asg{c09V("s"), call(a, "sort")}),
		c09Print(c09V("s"), call(c09V("s"), "length")),
		c09Print(a, call(a, "length")),                   // the original is untouched
		c09Do(call(c09V("s"), "push", c09StrLit("new"))), // and the copy is a different array
		c09Print(c09V("s"), a),
		c09Print(call(call(a, "sort"), "sort"), call(call(a, "sort"), "length")),
	}
	return &c09Prog{body: body}
}

// contains(v) against == element by element: two programs that must print the same
func c15ContainsPair(list []c09Expr, v c09Expr) (string, string) {
	lit := (&c09ArrLit{list}).text()
	p1 := "{\n  a = " + lit + "\n  print a.contains(" + v.text() + ")\n}\n"
	p2 := "{\n  a = " + lit + "\n  r = false\n  for (i = 0; i < " + fmt.Sprint(len(list)) + "; i++) {\n    if (a[i] == " + v.text() + ") {\n      r = true\n      break\n    }\n  }\n  print r\n}\n"
	return p1, p2
}

func init() {
	register(Family{
		Name: "sort-contains", Prop: "C15",
		Rule: "sort on 19 hand-picked lists (equal keys with distinguishable identity, numbers vs numeric strings, -0/0, NaN, empty string forms, unset, nested) and on random lists of 0-7 pool values of every kind: sorted copy, its length, original untouched, copy independent, idempotence; contains(v) for every pool value v on random lists, paired with a loop applying == to each element in order (both programs must print the same or both fail); oracle: ideal interpreter + pair agreement",
		Gen: func(r *rand.Rand, tier string, emit func(Case)) {
			pool := c15ValuePool()
			for _, l := range c15SortLists {
				c15Emit(emit, c15SortProg(l), "{}")
			}
			n := tierN(tier, 800, 10000)
			for i := 0; i < n; i++ {
				k := r.Intn(8)
				var l []c09Expr
				sub := pool
				switch r.Intn(4) {
				case 0:
					sub = pool[:12] // numbers only
				case 1:
					sub = pool[:29] // numbers and strings
				}
				for j := 0; j < k; j++ {
					l = append(l, pick(r, sub))
				}
				c15Emit(emit, c15SortProg(l), "{}")
			}
			m := tierN(tier, 1500, 15000)
			for i := 0; i < m; i++ {
				k := r.Intn(5)
				var l []c09Expr
				sub := pool
				if chance(r, 0.6) {
					sub = pool[:33] // no containers: no error
				}
				for j := 0; j < k; j++ {
					l = append(l, pick(r, sub))
				}
				v := pick(r, pool)
				if k > 0 && chance(r, 0.3) {
					v = l[r.Intn(k)]
				}
				p1, p2 := c15ContainsPair(l, v)
				g := fmt.Sprintf("contains-%d", i)
				in := c09NewInterp()
				in.root = &c09Cell{c09NewObj()}
				want, werr := c09Method("contains", func() c09Val {
					vs, _ := in.evalList(l)
					return c09NewArr(vs...)
				}(), func() []c09Val { vs, _ := in.evalList([]c09Expr{v}); return vs }())
				wantOut, wantClass := "", "runtime"
				if werr == nil {
					wantOut, wantClass = c09Pretty(want, false)+"\n", "ok"
				}
				for _, p := range []string{p1, p2} {
					emit(Case{Req: RunReq(p, nil, []File{{Name: "in.json", Data: []byte("{}")}}, false), Fields: []string{"class", "out"},
						Meta: metaProg(p), Group: g, GroupFields: []string{"class", "out"},
						Oracle: func(i Resp) string {
							if i["class"] != wantClass || (wantClass == "ok" && string(i.Bytes("out")) != wantOut) {
								return fmt.Sprintf("contains / == per element: expected %s %q, got %s %q", wantClass, wantOut, i["class"], string(i.Bytes("out")))
							}
							return ""
						}, NonTrivial: c09NT})
				}
			}
		},
	})
	register(Family{
		Name: "nesting-arity", Prop: "C15",
		Rule: "every pair of array methods nested as a.M1(b.M2(..)) and a.M1(a.M2(..)) for two arrays (distinct, aliased or the same), three-deep nestings, chained calls on returned arrays, and every method with 0-3 arguments; a, b printed before and after; oracle: ideal interpreter (each call acts on the array it was invoked on; argument counts checked as documented)",
		Gen: func(r *rand.Rand, tier string, emit func(Case)) {
			call := func(recv c09Expr, m string, args ...c09Expr) *c09Call { return &c09Call{recv, m, args} }
			a, b := c09V("a"), c09V("b")
			inner := func(x c09Expr) []c09Expr {
				return []c09Expr{call(x, "push", c09NumLit(1)), call(x, "pop"), call(x, "popfirst"), call(x, "length"), call(x, "contains", c09NumLit(2)), call(x, "sort"),
					c09At(x, c09NumLit(0)), c09At(x, c09NumLit(-1)), call(call(x, "push", c09NumLit(7)), "length"), call(call(x, "sort"), "pop")}
			}
			setups := [][]*c09Stmt{
				{c09Do(&c09Asg{a, &c09ArrLit{[]c09Expr{c09NumLit(3), c09NumLit(2)}}}), c09Do(&c09Asg{b, &c09ArrLit{[]c09Expr{c09NumLit(2), c09NumLit(9), c09NumLit(4)}}})},
				{c09Do(&c09Asg{a, &c09ArrLit{[]c09Expr{c09NumLit(3), c09NumLit(2)}}}), c09Do(&c09Asg{b, a})},
				{c09Do(&c09Asg{a, &c09ArrLit{}}), c09Do(&c09Asg{b, &c09ArrLit{}})},
				{c09Do(&c09Asg{a, c09Dot(c09V("$"), "list")}), c09Do(&c09Asg{b, c09At(c09Dot(c09V("$"), "m"), c09NumLit(0))})},
			}
			doc := `{"list": [5, 2], "m": [[2, "x"], 1]}`
			show := c09Print(a, call(a, "length"), b, call(b, "length"), c09Dot(c09V("$"), "list"), c09Dot(c09V("$"), "m"))
			for _, st := range setups {
				for _, in1 := range append(inner(b), inner(a)...) {
					for _, outer := range []func(c09Expr) c09Expr{
						func(x c09Expr) c09Expr { return call(a, "push", x) },
						func(x c09Expr) c09Expr { return call(a, "contains", x) },
						func(x c09Expr) c09Expr { return c09At(a, x) },
						func(x c09Expr) c09Expr { return &c09Asg{c09At(a, c09NumLit(1)), x} },
						func(x c09Expr) c09Expr { return call(a, "push", call(b, "push", x)) },
						func(x c09Expr) c09Expr {
							return call(call(a, "push", x), "push", call(b, "length"))
						},
					} {
						body := append(append([]*c09Stmt{}, st...), show, c09Print(c09StrLit("r"), outer(in1)), show)
						c15Emit(emit, &c09Prog{body: body}, doc)
					}
				}
			}
			// arity: every method with 0..3 arguments
			args := []c09Expr{c09NumLit(2), c09StrLit("x"), c09NullLit()}
			for _, m := range []string{"length", "push", "pop", "popfirst", "contains", "sort", "nosuch"} {
				for k := 0; k <= 3; k++ {
					for _, st := range setups[:2] {
						body := append(append([]*c09Stmt{}, st...), show, c09Print(c09StrLit("r"), call(a, m, args[:k]...)), show)
						if m == "nosuch" {
							// a.nosuch is null: calling it is a runtime error
							prog := (&c09Prog{body: body}).text()
							emit(Case{Req: RunReq(prog, nil, []File{{Name: "in.json", Data: []byte(doc)}}, false), Fields: []string{"class", "out"}, Meta: metaProg(prog),
								Oracle: func(i Resp) string {
									if i["class"] != "runtime" {
										return "calling a missing method must be a runtime error"
									}
									return ""
								}, NonTrivial: c09NT})
							continue
						}
						c15Emit(emit, &c09Prog{body: body}, doc)
					}
				}
			}
		},
	})
}

// ---------------------------------------------------------------- recursion: one call site, several receivers
//
// The same syntactic call site `x.m(...)` active several times at once with
// different receivers: recursive (also mutually recursive) functions whose
// body contains `acc.push(<expression that recursively calls the function with
// another array>)`, the same with contains, chained pushes, receivers that are
// themselves results of the recursion, pushes into sorted copies and loops
// around the site; pop / popfirst / sort / length / [0] applied to what the
// recursion returns.  A small evaluator over ideal lists (c09Val, c09Method)
// predicts the whole output.

type c15X struct {
	k    string // num str var bin arr meth call idx asg raw
	f    float64
	s    string // variable / method / function name, operator, string text
	a, b *c15X
	args []*c15X
}

func c15Num(f float64) *c15X { return &c15X{k: "num", f: f} }
func c15Var(n string) *c15X  { return &c15X{k: "var", s: n} }
func c15Str(s string) *c15X  { return &c15X{k: "str", s: s} }
func c15Bin(op string, a, b *c15X) *c15X {
	return &c15X{k: "bin", s: op, a: a, b: b}
}
func c15Meth(recv *c15X, m string, args ...*c15X) *c15X {
	return &c15X{k: "meth", s: m, a: recv, args: args}
}
func c15CallF(f string, args ...*c15X) *c15X { return &c15X{k: "call", s: f, args: args} }
func c15ArrX(items ...*c15X) *c15X           { return &c15X{k: "arr", args: items} }
func c15Idx(a *c15X, i float64) *c15X        { return &c15X{k: "idx", a: a, b: c15Num(i)} }

func (e *c15X) text() string {
	list := func(es []*c15X) string {
		p := make([]string, len(es))
		for i, x := range es {
			p[i] = x.text()
		}
		return strings.Join(p, ", ")
	}
	switch e.k {
	case "num":
		return numLit(e.f)
	case "str":
		return mustStrLit(e.s)
	case "var":
		return e.s
	case "bin":
		return "(" + e.a.text() + " " + e.s + " " + e.b.text() + ")"
	case "arr":
		return "[" + list(e.args) + "]"
	case "meth":
		return e.a.text() + "." + e.s + "(" + list(e.args) + ")"
	case "call":
		return e.s + "(" + list(e.args) + ")"
	case "idx":
		return e.a.text() + "[" + e.b.text() + "]"
	case "asg":
		return e.s + " = " + e.a.text()
	case "raw":
		return e.s
	}
	panic("c15X " + e.k)
}

type c15S struct {
	k          string // ifret do ret print forin
	e          *c15X  // condition (ifret), expression (do, ret), iterable (forin)
	ret        *c15X
	args       []*c15X
	v          string
	body       []*c15S
	thenB, elB []*c15S
}

func c15Stmts(ss []*c15S, ind string) string {
	var sb strings.Builder
	for _, s := range ss {
		switch s.k {
		case "ifret":
			sb.WriteString(ind + "if " + s.e.text() + " { return " + s.ret.text() + " }\n")
		case "do":
			sb.WriteString(ind + s.e.text() + "\n")
		case "ret":
			sb.WriteString(ind + "return " + s.e.text() + "\n")
		case "print":
			p := make([]string, len(s.args))
			for i, x := range s.args {
				p[i] = x.text()
			}
			sb.WriteString(ind + "print " + strings.Join(p, ", ") + "\n")
		case "forin":
			sb.WriteString(ind + "for (" + s.v + " in " + s.e.text() + ") {\n" + c15Stmts(s.body, ind+"  ") + ind + "}\n")
		}
	}
	return sb.String()
}

type c15F struct {
	name   string
	params []string
	body   []*c15S
}

type c15Rec struct {
	funcs   map[string]*c15F
	globals map[string]*c09Cell
	frames  []map[string]*c09Cell
	out     strings.Builder
	calls   int
	retV    c09Val
}

var c15ErrRet = &c09Err{"return"}
var c15ErrBudget = &c09Err{"budget"}

func (in *c15Rec) cell(name string) *c09Cell {
	if len(in.frames) > 0 {
		if c, ok := in.frames[len(in.frames)-1][name]; ok {
			return c
		}
	}
	// dynamic scoping: the callers' frames, innermost first, then the globals
	for i := len(in.frames) - 2; i >= 0; i-- {
		if c, ok := in.frames[i][name]; ok {
			return c
		}
	}
	c, ok := in.globals[name]
	if !ok {
		c = &c09Cell{c09Unset}
		in.globals[name] = c
	}
	return c
}

func (in *c15Rec) eval(e *c15X) (c09Val, error) {
	switch e.k {
	case "num":
		return c09N(e.f), nil
	case "str":
		return c09S(e.s), nil
	case "var":
		return in.cell(e.s).v, nil
	case "bin":
		a, err := in.eval(e.a)
		if err != nil {
			return c09Null, err
		}
		b, err := in.eval(e.b)
		if err != nil {
			return c09Null, err
		}
		switch e.s {
		case "-":
			return c09N(a.num() - b.num()), nil
		case "*":
			return c09N(a.num() * b.num()), nil
		case "+":
			if a.k == 's' || b.k == 's' {
				return c09S(a.str() + b.str()), nil
			}
			return c09N(a.num() + b.num()), nil
		case "==":
			c, err := c09Compare(a, b)
			return c09B(c == 0), err
		}
		panic("c15 bin " + e.s)
	case "arr":
		vs := make([]c09Val, len(e.args))
		for i, x := range e.args {
			v, err := in.eval(x)
			if err != nil {
				return c09Null, err
			}
			vs[i] = v
		}
		return c09NewArr(vs...), nil
	case "meth":
		recv, err := in.eval(e.a)
		if err != nil {
			return c09Null, err
		}
		if recv.k != 'a' {
			return c09Null, c09E("method %s on a value that is not an array", e.s)
		}
		args := make([]c09Val, len(e.args))
		for i, x := range e.args {
			v, err := in.eval(x)
			if err != nil {
				return c09Null, err
			}
			args[i] = v
		}
		return c09Method(e.s, recv, args)
	case "idx":
		base, err := in.eval(e.a)
		if err != nil {
			return c09Null, err
		}
		if base.k != 'a' {
			return c09Null, c09E("index on a value that is not an array")
		}
		iv, err := in.eval(e.b)
		if err != nil {
			return c09Null, err
		}
		i, ok := c09Resolve(len(base.a.e), iv.num())
		if !ok {
			return c09Null, c09E("index before the start")
		}
		if i < len(base.a.e) {
			return base.a.e[i].v, nil
		}
		return c09Null, nil
	case "asg":
		v, err := in.eval(e.a)
		if err != nil {
			return c09Null, err
		}
		in.cell(e.s).v = v
		return v, nil
	case "raw":
		// $.name
		return in.globals["$"].v.o.m[e.s[2:]].v, nil
	case "call":
		f := in.funcs[e.s]
		args := make([]c09Val, len(e.args))
		for i, x := range e.args {
			v, err := in.eval(x)
			if err != nil {
				return c09Null, err
			}
			args[i] = v
		}
		in.calls++
		if in.calls > 600 || in.out.Len() > 10000 {
			return c09Null, c15ErrBudget
		}
		fr := map[string]*c09Cell{}
		for i, p := range f.params {
			if i < len(args) {
				fr[p] = &c09Cell{args[i]}
			} else {
				fr[p] = &c09Cell{c09Null}
			}
		}
		in.frames = append(in.frames, fr)
		err := in.exec(f.body)
		in.frames = in.frames[:len(in.frames)-1]
		if err == c15ErrRet {
			return in.retV, nil
		}
		return c09Null, err
	}
	panic("c15 eval " + e.k)
}

// c15Small: does rendering v visit at most *budget nodes (an array reachable along many paths is visited once per path)?
func c15Small(v c09Val, roots []c09Val, budget *int) bool {
	*budget--
	if *budget < 0 {
		return false
	}
	if v.k != 'a' {
		return true
	}
	for _, r := range roots {
		if c09Same(r, v) {
			return true
		}
	}
	nr := append(append([]c09Val{}, roots...), v)
	for _, c := range v.a.e {
		if !c15Small(c.v, nr, budget) {
			return false
		}
	}
	return true
}

func (in *c15Rec) exec(ss []*c15S) error {
	for _, s := range ss {
		switch s.k {
		case "ifret":
			c, err := in.eval(s.e)
			if err != nil {
				return err
			}
			if c.truthy() {
				v, err := in.eval(s.ret)
				if err != nil {
					return err
				}
				in.retV = v
				return c15ErrRet
			}
		case "do":
			if _, err := in.eval(s.e); err != nil {
				return err
			}
		case "ret":
			v, err := in.eval(s.e)
			if err != nil {
				return err
			}
			in.retV = v
			return c15ErrRet
		case "print":
			parts := make([]string, len(s.args))
			vals := make([]c09Val, len(s.args))
			for i, x := range s.args {
				v, err := in.eval(x)
				if err != nil {
					return err
				}
				vals[i] = v
			}
			for i, v := range vals {
				// shared sub-arrays are rendered once per path: keep the tree small
				budget := 500
				if !c15Small(v, nil, &budget) {
					return c15ErrBudget
				}
				parts[i] = c09Pretty(v, false)
			}
			in.out.WriteString(strings.Join(parts, " ") + "\n")
		case "forin":
			it, err := in.eval(s.e)
			if err != nil {
				return err
			}
			if it.k != 'a' {
				return c09E("not iterable")
			}
			loc := in.cell(s.v)
			for _, c := range append([]*c09Cell{}, it.a.e...) {
				loc.v = c.v
				if err := in.exec(s.body); err != nil {
					return err
				}
			}
		}
	}
	return nil
}

const c15RecDoc = `{"g": [7, 8], "pool": [[1], [2, 2], [], [4], [5, 5, 5], [6], [7]]}`

// c15RecProgram builds one random recursive program; ok=false when its run would be too long
func c15RecProgram(r *rand.Rand, depth int) (text, class, out string, ok bool) {
	acc, n := c15Var("acc"), c15Var("n")
	nf := 1
	if chance(r, 0.3) {
		nf = 2
	}
	names := []string{"build", "walk"}[:nf]
	branching := 0
	rec := func(self int) *c15X {
		callee := names[self]
		if nf == 2 && chance(r, 0.7) {
			callee = names[1-self]
		}
		var other *c15X
		switch r.Intn(11) {
		case 0, 1:
			other = c15ArrX(c15Bin("*", n, c15Num(10)))
		case 2:
			other = c15ArrX()
		case 3:
			other = c15ArrX(n, c15Meth(acc, "length"))
		case 4:
			other = c15Var("g1")
		case 5, 6:
			other = &c15X{k: "idx", a: c15Var("pool"), b: n}
		case 7:
			other = c15Meth(acc, "sort")
		case 8:
			other = c15ArrX(acc)
		case 9:
			other = acc
		default:
			other = c15ArrX(c15Num(float64(r.Intn(5))), c15Num(float64(r.Intn(5))))
		}
		branching++
		return c15CallF(callee, other, c15Bin("-", n, c15Num(1)))
	}
	wrap := func(x *c15X) *c15X {
		switch r.Intn(12) {
		case 0, 1, 2:
			return c15Meth(x, "length")
		case 3:
			return c15Idx(x, 0)
		case 4:
			return c15Meth(x, "pop")
		case 5:
			return c15Meth(x, "popfirst")
		case 6:
			return c15Meth(x, "contains", n)
		case 7:
			return c15Meth(c15Meth(x, "sort"), "length")
		case 8, 9:
			return x
		case 10:
			return c15Meth(c15Meth(x, "push", n), "length")
		default:
			return c15Meth(x, "sort")
		}
	}
	num := func(x *c15X) *c15X { // a number out of the recursion's result (contains compares it with the elements)
		if chance(r, 0.3) {
			return c15Meth(c15Meth(x, "push", n), "length")
		}
		return c15Meth(x, "length")
	}
	funcs := map[string]*c15F{}
	var order []*c15F
	for fi, name := range names {
		f := &c15F{name: name, params: []string{"acc", "n", "x"}}
		base := acc
		if chance(r, 0.15) {
			base = c15ArrX(n)
		}
		f.body = append(f.body, &c15S{k: "ifret", e: c15Bin("==", n, c15Num(0)), ret: base})
		if chance(r, 0.3) {
			f.body = append(f.body, &c15S{k: "print", args: []*c15X{c15Str("in " + name), n, acc}})
		}
		nSites := 1 + r.Intn(2)
		for si := 0; si < nSites; si++ {
			kind := r.Intn(12)
			if si == 0 && kind > 8 && chance(r, 0.7) {
				kind = 0 // the plain seeded shape most of the time
			}
			switch kind {
			case 0, 1, 2, 3:
				f.body = append(f.body, &c15S{k: "do", e: c15Meth(acc, "push", wrap(rec(fi)))})
			case 4:
				f.body = append(f.body, &c15S{k: "print", args: []*c15X{c15Str("c"), n, c15Meth(acc, "contains", num(rec(fi)))}})
			case 5:
				f.body = append(f.body, &c15S{k: "do", e: c15Meth(c15Meth(acc, "push", wrap(rec(fi))), "push", wrap(rec(fi)))})
			case 6:
				f.body = append(f.body, &c15S{k: "do", e: c15Meth(rec(fi), "push", c15Meth(acc, "length"))})
			case 7:
				f.body = append(f.body, &c15S{k: "forin", v: "x", e: c15ArrX(c15Num(1), c15Num(2)), body: []*c15S{{k: "do", e: c15Meth(acc, "push", wrap(rec(fi)))}}})
				branching++
			case 8:
				f.body = append(f.body, &c15S{k: "do", e: c15Meth(c15Meth(acc, "sort"), "push", wrap(rec(fi)))})
			case 9:
				f.body = append(f.body, &c15S{k: "do", e: c15Meth(acc, "push", c15Bin("+", num(rec(fi)), num(rec(fi))))})
			case 10:
				f.body = append(f.body, &c15S{k: "do", e: c15Meth(c15Var("g1"), "push", wrap(rec(fi)))})
			default:
				f.body = append(f.body, &c15S{k: "print", args: []*c15X{c15Str("l"), n, c15Meth(c15Meth(acc, "push", wrap(rec(fi))), "length"), c15Meth(acc, "length")}})
			}
			if chance(r, 0.25) {
				f.body = append(f.body, &c15S{k: "do", e: c15Meth(acc, "push", n)})
			}
		}
		if chance(r, 0.4) {
			f.body = append(f.body, &c15S{k: "print", args: []*c15X{c15Str("out " + name), n, acc, c15Meth(acc, "length")}})
		}
		f.body = append(f.body, &c15S{k: "ret", e: acc})
		funcs[name] = f
		order = append(order, f)
	}
	var initArr *c15X
	switch r.Intn(4) {
	case 0:
		initArr = c15ArrX()
	case 1:
		initArr = c15ArrX(c15Num(100))
	case 2:
		initArr = c15Var("g1")
	default:
		initArr = c15ArrX(c15Num(3), c15Num(1), c15Num(2))
	}
	main := []*c15S{
		{k: "do", e: &c15X{k: "asg", s: "g1", a: &c15X{k: "raw", s: "$.g"}}},
		{k: "do", e: &c15X{k: "asg", s: "pool", a: &c15X{k: "raw", s: "$.pool"}}},
		{k: "print", args: []*c15X{c15Str("r"), c15CallF(names[0], initArr, c15Num(float64(depth)))}},
		{k: "print", args: []*c15X{c15Str("g"), c15Var("g1"), c15Var("pool")}},
		{k: "print", args: []*c15X{c15Str("again"), c15CallF(names[nf-1], c15ArrX(), c15Num(float64(depth-1)))}},
		{k: "print", args: []*c15X{c15Str("g"), c15Var("g1"), c15Var("pool")}},
	}
	var sb strings.Builder
	for _, f := range order {
		sb.WriteString("function " + f.name + "(" + strings.Join(f.params, ", ") + ") {\n" + c15Stmts(f.body, "  ") + "}\n")
	}
	sb.WriteString("{\n" + c15Stmts(main, "  ") + "}\n")
	in := &c15Rec{funcs: funcs, globals: map[string]*c09Cell{}}
	root := c09Decode(c15RecDoc)
	in.globals["$"] = &c09Cell{root}
	err := in.exec(main)
	if err == c15ErrBudget {
		return "", "", "", false
	}
	class = "ok"
	if err != nil {
		class = "runtime"
	}
	return sb.String(), class, in.out.String(), true
}

// ---------------------------------------------------------------- long histories
//
// Arrays of 60-5000 elements (from the document, from a literal, built by
// pushes, a sorted copy, living in another container) popped / popfirst-ed
// down to empty in phases, with pushes interleaved around the quarter and half
// marks of the capacities 64 128 256 1024 4096; the k-th removal must return
// the element the ideal list gives and leave its length, first and last
// element -- printed at every step (short arrays) or at sampled steps and at
// every step near a mark (long ones); sums over the whole array between phases.

type c15Hist struct {
	sb   strings.Builder // program body
	out  strings.Builder // expected output
	list []float64
	next float64 // next fresh value to push
	name string  // how the program names the array
}

func (h *c15Hist) show(tag string, v string) {
	if len(h.list) > 0 {
		fmt.Fprintf(&h.out, "%s %s %d %s %s\n", tag, v, len(h.list), c09Fmt(h.list[0]), c09Fmt(h.list[len(h.list)-1]))
	} else {
		fmt.Fprintf(&h.out, "%s %s 0\n", tag, v)
	}
}

// remove: count removals by pop / popfirst, shown when (step % every == 0) or the length is within 2 of a mark
func (h *c15Hist) remove(m string, count, every int) {
	fmt.Fprintf(&h.sb, "  for (i = 0; i < %d; i++) { v = %s.%s(); n = %s.length(); if (i %% %d == 0 || near(n)) show(\"%s\", v, %s) }\n", count, h.name, m, h.name, every, m, h.name)
	for i := 0; i < count; i++ {
		v := "null"
		if len(h.list) > 0 {
			if m == "pop" {
				v = c09Fmt(h.list[len(h.list)-1])
				h.list = h.list[:len(h.list)-1]
			} else {
				v = c09Fmt(h.list[0])
				h.list = h.list[1:]
			}
		}
		if i%every == 0 || c15Near(len(h.list)) {
			h.show(m, v)
		}
	}
}

func (h *c15Hist) push(count int) {
	fmt.Fprintf(&h.sb, "  for (i = 0; i < %d; i++) { %s.push(%s + i) }\n  show(\"push\", %d, %s)\n", count, h.name, c09Fmt(h.next), count, h.name)
	for i := 0; i < count; i++ {
		h.list = append(h.list, h.next+float64(i))
	}
	h.next += float64(count)
	h.show("push", fmt.Sprint(count))
}

func (h *c15Hist) sum() {
	fmt.Fprintf(&h.sb, "  s = 0; for (e in %s) { s += e }\n  print \"sum\", s, %s.length()\n", h.name, h.name)
	t := 0.0
	for _, x := range h.list {
		t += x
	}
	fmt.Fprintf(&h.out, "sum %s %d\n", c09Fmt(t), len(h.list))
}

var c15Marks = []int{16, 32, 64, 128, 256, 512, 1024, 2048, 4096}

func c15Near(n int) bool {
	for _, m := range c15Marks {
		if n >= m-2 && n <= m+2 {
			return true
		}
	}
	return n <= 2
}

const c15HistFuncs = "function near(n) {\n  for (m in [16, 32, 64, 128, 256, 512, 1024, 2048, 4096]) { if (n >= m - 2 && n <= m + 2) { return true } }\n  return n <= 2\n}\n" +
	"function show(t, v, a) {\n  if (a.length() > 0) { print t, v, a.length(), a[0], a[-1] } else { print t, v, 0 }\n}\n"

func c15HistProgram(r *rand.Rand, n int) (prog, doc, want string) {
	h := &c15Hist{next: 100000}
	vals := make([]float64, n)
	txt := make([]string, n)
	for i := range vals {
		vals[i] = float64(i + 1)
		if chance(r, 0.1) {
			vals[i] += 0.5
		}
		txt[i] = c09Fmt(vals[i])
	}
	h.list = append([]float64{}, vals...)
	doc = "{}"
	var setup string
	h.name = "a"
	switch r.Intn(7) {
	case 0: // the document's own array, named in full each time
		doc = `{"items": [` + strings.Join(txt, ", ") + `]}`
		h.name = "$.items"
	case 1: // the document's array through a variable
		doc = `{"o": {"items": [` + strings.Join(txt, ",") + `]}}`
		setup = "  a = $.o.items\n"
	case 2: // a literal
		setup = "  a = [" + strings.Join(txt, ", ") + "]\n"
	case 3: // built by pushes
		all := true
		for i, v := range vals {
			if v != float64(i+1) {
				all = false
			}
		}
		if all {
			setup = fmt.Sprintf("  a = []\n  for (i = 1; i <= %d; i++) { a.push(i) }\n", n)
		} else {
			setup = "  src = [" + strings.Join(txt, ", ") + "]\n  a = []\n  for (e in src) { a.push(e) }\n"
		}
	case 4: // a sorted copy (of a reversed literal)
		rev := make([]string, n)
		for i := range txt {
			rev[n-1-i] = txt[i]
		}
		setup = "  a = [" + strings.Join(rev, ", ") + "].sort()\n"
	case 5: // inside another container
		setup = "  h = {list: [" + strings.Join(txt, ", ") + "]}\n"
		h.name = "h.list"
	default: // built by an index store past the end, then filled
		setup = fmt.Sprintf("  a = []\n  a[%d] = 0\n  for (i = 0; i < %d; i++) { a[i] = i + 1 }\n", n-1, n)
		for i := range h.list {
			h.list[i] = float64(i + 1)
		}
	}
	h.sb.WriteString(setup)
	every := 1
	if n > 300 {
		every = 5 + r.Intn(40)
	}
	// the marks the array will cross on its way down, largest first
	var marks []int
	for _, c := range []int{4096, 1024, 256, 128, 64} {
		for _, m := range []int{c / 2, c / 4} {
			if m < n {
				marks = append(marks, m)
			}
		}
	}
	h.show("start", "0")
	fmt.Fprintf(&h.sb, "  show(\"start\", 0, %s)\n", h.name)
	if chance(r, 0.5) {
		// pushes onto the array as it came (a literal's / document's backing storage is exactly full)
		h.push(1 + r.Intn(4))
	}
	if chance(r, 0.5) {
		h.sum()
	}
	for _, m := range marks {
		if len(h.list) <= m {
			continue
		}
		meth := pick(r, []string{"pop", "pop", "pop", "popfirst"})
		// down to just above the mark, a few pushes, then across it
		above := m + r.Intn(4)
		if d := len(h.list) - above; d > 0 {
			h.remove(meth, d, every)
		}
		if chance(r, 0.6) {
			h.push(r.Intn(6))
		}
		if chance(r, 0.3) {
			h.sum()
		}
		h.remove(pick(r, []string{"pop", "pop", "popfirst"}), len(h.list)-m+1+r.Intn(3), 1)
		if chance(r, 0.3) {
			h.push(1 + r.Intn(2*m))
		}
	}
	h.sum()
	h.remove(pick(r, []string{"pop", "pop", "popfirst"}), len(h.list)+2, every) // to empty and beyond
	if chance(r, 0.6) {
		// grow again from empty and take everything off once more
		k := 65 + r.Intn(80)
		h.push(k)
		h.remove("pop", k/2, 1)
		h.sum()
		h.remove(pick(r, []string{"pop", "popfirst"}), len(h.list)+1, 1)
	}
	return c15HistFuncs + "{\n" + h.sb.String() + "}\n", doc, h.out.String()
}

func init() {
	register(Family{
		Name: "recursive-call-sites", Prop: "C15",
		Rule: "the same syntactic call site `x.m(...)` active several times at once with different receivers: recursive and mutually recursive functions (depth 2-6) whose body holds `acc.push(<expression that calls the function again with another array>)`, the same under contains, chained pushes, a + of two recursions, a loop around the site, a push into a sorted copy, into a global array, and with the receiver itself being the recursion's result; the other array is a fresh literal, a global from the document, an element of a global pool, a sorted copy, [acc] or acc itself; the inner result is used as is or through length [0] pop popfirst contains sort push; every level may print; oracle (implementation only): an evaluator over ideal lists predicts class and the whole output; also compared with the model",
		Gen: func(r *rand.Rand, tier string, emit func(Case)) {
			n := tierN(tier, 1500, 25000)
			for i := 0; i < n; i++ {
				depth := 2 + r.Intn(5)
				text, class, out, ok := c15RecProgram(r, depth)
				for !ok {
					if depth > 2 {
						depth--
					}
					text, class, out, ok = c15RecProgram(r, depth)
				}
				emit(Case{Req: RunReq(text, nil, []File{{Name: "in.json", Data: []byte(c15RecDoc)}}, false), Fields: []string{"class", "out"},
					Meta:   metaProg(text, "input", c15RecDoc, "depth", fmt.Sprint(depth), "ideal_class", class, "row", fmt.Sprintf("depth %d", depth)),
					Oracle: c09IdealOracle(class, out, "", false), NonTrivial: c09NT})
			}
		},
	})
	register(Family{
		Name: "long-histories", Prop: "C15",
		Rule: "arrays of 60-5000 elements (the document's own array named in full or through a variable, a literal, built by pushes, a sorted copy, inside another container, filled after an index store past the end) taken apart by pop / popfirst in phases down to empty and two steps beyond, with 0-5 pushes just above and larger bursts just below each quarter and half mark of the capacities 64 128 256 1024 4096, then grown again from empty and emptied once more; the removed value, length, first and last element are printed at every step (arrays up to 300) or every 5th-45th step and at every step within 2 of a power of two, sums over the whole array between phases; oracle (implementation only): the ideal list predicts the whole output; also compared with the model",
		Gen: func(r *rand.Rand, tier string, emit func(Case)) {
			sizes := []int{60, 63, 64, 65, 66, 70, 100, 127, 128, 129, 130, 200, 255, 256, 257, 300}
			big := []int{511, 512, 513, 1000, 1023, 1024, 1025, 1100, 2048, 2049, 3000, 4095, 4096, 4097, 5000}
			n := tierN(tier, 110, 1500)
			for i := 0; i < n; i++ {
				size := pick(r, sizes)
				if chance(r, 0.3) {
					size = 60 + r.Intn(260)
				}
				if i%6 == 5 {
					size = pick(r, big)
					if chance(r, 0.3) {
						size = 500 + r.Intn(4500)
					}
				}
				prog, doc, want := c15HistProgram(r, size)
				emit(Case{Req: RunReq(prog, nil, []File{{Name: "in.json", Data: []byte(doc)}}, false), Fields: []string{"class", "out"},
					Meta:   metaProg(short(prog), "size", fmt.Sprint(size)),
					Oracle: c09IdealOracle("ok", want, "", false), NonTrivial: c09NT})
			}
		},
	})
}

// ---------------------------------------------------------------- every syntactic form of a method call
//
// A method is a member of its receiver: it can be reached with the dot, with an
// index whose key is a string literal, a variable, a concatenation, a function
// result, an element of an array, a member of an object or the result of an
// assignment, with parentheses around the receiver or around the member
// expression, and through a match binding holding the bound method. In every
// form the call must act on the array it was invoked on. The renderer below
// writes a program of the ideal interpreter (fam_c09.go) with every method call
// in one of these forms; the ideal semantics do not depend on the form.

var c15FormNames = []string{"R.m(A)", `R["m"](A)`, "R[kvar](A)", `R["m1" + "m2"](A)`, `R[nm("m")](A)`, "(R).m(A)", "(R.m)(A)", `(R["m"])(A)`, "R[ks[i]](A)", "R[kn.m](A)",
	`R[kv = "m"](A)`, "(match (R.m) { mth => mth(A) })", `((R))['m'](A)`}

const c15FormMatch = 11

// c15Aux collects what the text of the forms needs in front of the program
type c15Aux struct {
	kvars []string // method names held by a variable k<name>
	names []string // method names in the array ks and the object kn
	useNm bool     // function nm(x) { return x }
	useKs bool
	useKn bool
}

func c15Add(list *[]string, s string) int {
	for i, x := range *list {
		if x == s {
			return i
		}
	}
	*list = append(*list, s)
	return len(*list) - 1
}

func c15Quote(r *rand.Rand, s string) string {
	if r != nil && chance(r, 0.4) {
		return "'" + s + "'"
	}
	return `"` + s + `"`
}

// c15FormText writes the call of method m on receiver text R with argument text A in the given form
func c15FormText(r *rand.Rand, aux *c15Aux, form int, R, m, A string) string {
	switch form {
	case 0:
		return R + "." + m + "(" + A + ")"
	case 1:
		return R + "[" + c15Quote(r, m) + "](" + A + ")"
	case 2:
		c15Add(&aux.kvars, m)
		return R + "[k" + m + "](" + A + ")"
	case 3:
		cut := 0
		if r != nil {
			cut = r.Intn(len(m) + 1)
		} else {
			cut = len(m) / 2
		}
		return R + "[" + c15Quote(r, m[:cut]) + " + " + c15Quote(r, m[cut:]) + "](" + A + ")"
	case 4:
		aux.useNm = true
		return R + "[nm(" + c15Quote(r, m) + ")](" + A + ")"
	case 5:
		return "(" + R + ")." + m + "(" + A + ")"
	case 6:
		return "(" + R + "." + m + ")(" + A + ")"
	case 7:
		return "(" + R + "[" + c15Quote(r, m) + "])(" + A + ")"
	case 8:
		aux.useKs = true
		return R + "[ks[" + fmt.Sprint(c15Add(&aux.names, m)) + "]](" + A + ")"
	case 9:
		aux.useKn = true
		c15Add(&aux.names, m)
		return R + "[kn." + m + "](" + A + ")"
	case 10:
		return R + "[kv = " + c15Quote(r, m) + "](" + A + ")"
	case c15FormMatch:
		return "(match (" + R + "." + m + ") { mth => mth(" + A + ") })"
	case 12:
		return "((" + R + "))['" + m + "'](" + A + ")"
	}
	panic("c15FormText")
}

// prelude: the statements (one per line, indented) that define what the forms refer to
func (aux *c15Aux) prelude(ind string) string {
	var sb strings.Builder
	for _, m := range aux.kvars {
		sb.WriteString(ind + "k" + m + " = \"" + m + "\"\n")
	}
	if aux.useKs {
		q := make([]string, len(aux.names))
		for i, m := range aux.names {
			q[i] = `"` + m + `"`
		}
		sb.WriteString(ind + "ks = [" + strings.Join(q, ", ") + "]\n")
	}
	if aux.useKn {
		q := make([]string, len(aux.names))
		for i, m := range aux.names {
			q[i] = m + `: "` + m + `"`
		}
		sb.WriteString(ind + "kn = {" + strings.Join(q, ", ") + "}\n")
	}
	return sb.String()
}

func (aux *c15Aux) funcs() string {
	if aux.useNm {
		return "function nm(x) { return x }\n"
	}
	return ""
}

type c15Render struct {
	r     *rand.Rand
	rate  float64 // share of method calls written in another form than recv.name(args)
	brk   float64 // share of .name member reads written ["name"]
	fixed int     // >= 0: every method call (of the statements in only, when set) in this form
	only  map[*c09Stmt]bool
	on    bool
	aux   c15Aux
	count map[int]int
}

func c15NewRender(r *rand.Rand, rate, brk float64) *c15Render {
	return &c15Render{r: r, rate: rate, brk: brk, fixed: -1, on: true, count: map[int]int{}}
}

// does evaluating e store into a variable or member (then it must not move into a match body,
// where a name used for the first time would be created in the body's frame)?
func c15HasStore(es []c09Expr) bool {
	for _, e := range es {
		switch x := e.(type) {
		case *c09Asg, *c09Cmp, *c09Inc:
			return true
		case *c09Par:
			if c15HasStore([]c09Expr{x.e}) {
				return true
			}
		case *c09Idx:
			if c15HasStore([]c09Expr{x.base, x.key}) {
				return true
			}
		case *c09ArrLit:
			if c15HasStore(x.items) {
				return true
			}
		case *c09ObjLit:
			if c15HasStore(x.vals) {
				return true
			}
		case *c09Bin:
			if c15HasStore([]c09Expr{x.l, x.r}) {
				return true
			}
		case *c09Call:
			if x.recv == nil {
				return true // a user function: its body may store
			}
			if c15HasStore(append([]c09Expr{x.recv}, x.args...)) {
				return true
			}
		}
	}
	return false
}

func (rd *c15Render) list(es []c09Expr) string {
	p := make([]string, len(es))
	for i, e := range es {
		p[i] = rd.expr(e)
	}
	return strings.Join(p, ", ")
}

func (rd *c15Render) expr(e c09Expr) string {
	switch x := e.(type) {
	case *c09Lit:
		return x.t
	case *c09Var:
		return x.name
	case *c09Par:
		return "(" + rd.expr(x.e) + ")"
	case *c09Idx:
		base := rd.expr(x.base)
		if x.dot {
			name := x.key.(*c09Lit).v.s
			if rd.on && rd.brk > 0 && chance(rd.r, rd.brk) {
				return base + "[" + c15Quote(rd.r, name) + "]"
			}
			return base + "." + name
		}
		return base + "[" + rd.expr(x.key) + "]"
	case *c09ArrLit:
		return "[" + rd.list(x.items) + "]"
	case *c09ObjLit:
		p := make([]string, len(x.keys))
		for i, k := range x.keys {
			p[i] = k + ": " + rd.expr(x.vals[i])
		}
		return "{" + strings.Join(p, ", ") + "}"
	case *c09Asg:
		return rd.expr(x.lhs) + " = " + rd.expr(x.rhs)
	case *c09Cmp:
		return rd.expr(x.lhs) + " " + x.op + "= " + rd.expr(x.rhs)
	case *c09Inc:
		if x.prefix {
			return x.op + rd.expr(x.lhs)
		}
		return rd.expr(x.lhs) + x.op
	case *c09Bin:
		return rd.expr(x.l) + " " + x.op + " " + rd.expr(x.r)
	case *c09Call:
		if x.recv == nil {
			return x.name + "(" + rd.list(x.args) + ")"
		}
		form := 0
		if rd.on {
			if rd.fixed >= 0 {
				form = rd.fixed
			} else if rd.rate > 0 && chance(rd.r, rd.rate) {
				form = 1 + rd.r.Intn(len(c15FormNames)-1)
			}
		}
		if form == c15FormMatch && c15HasStore(x.args) {
			form = 6
		}
		rd.count[form]++
		R := rd.expr(x.recv)
		return c15FormText(rd.r, &rd.aux, form, R, x.name, rd.list(x.args))
	}
	panic(fmt.Sprintf("c15Render: %T", e))
}

func (rd *c15Render) stmt(s *c09Stmt, ind string) string {
	switch s.kind {
	case "print":
		return "print " + rd.list(s.exprs)
	case "expr":
		t := rd.expr(s.exprs[0])
		if strings.HasPrefix(t, "(") {
			// a line that starts with ( would continue the statement before it as a call
			t = "zz = " + t
		}
		return t
	case "ret":
		return "return " + rd.expr(s.exprs[0])
	case "forin":
		h := s.v
		if s.iv != "" {
			h += ", " + s.iv
		}
		return "for (" + h + " in " + rd.expr(s.exprs[0]) + ") {\n" + rd.body(s.body, ind+"  ") + ind + "}"
	case "match":
		return "match (" + rd.expr(s.exprs[0]) + ") { " + s.v + " => {\n" + rd.body(s.body, ind+"  ") + ind + "} }\n"
	}
	panic("c15Render stmt " + s.kind)
}

func (rd *c15Render) body(ss []*c09Stmt, ind string) string {
	var sb strings.Builder
	for _, s := range ss {
		sb.WriteString(ind + rd.stmt(s, ind) + "\n")
	}
	return sb.String()
}

func (rd *c15Render) prog(p *c09Prog) string {
	var fs strings.Builder
	for _, f := range p.funcs {
		fs.WriteString("function " + f.name + "(" + strings.Join(f.params, ", ") + ") {\n" + rd.body(f.body, "  ") + "}\n")
	}
	var sb strings.Builder
	for _, s := range p.body {
		if rd.only != nil {
			rd.on = rd.only[s]
		}
		sb.WriteString("  " + rd.stmt(s, "  ") + "\n")
	}
	return fs.String() + rd.aux.funcs() + "{\n" + rd.aux.prelude("  ") + sb.String() + "}\n"
}

func (rd *c15Render) formStats() string {
	var p []string
	for f := range c15FormNames {
		if rd.count[f] > 0 {
			p = append(p, fmt.Sprintf("%d:%d", f, rd.count[f]))
		}
	}
	return strings.Join(p, " ")
}

// c15EmitR: like c15Emit, the program text written by the renderer
func c15EmitR(emit func(Case), p *c09Prog, doc string, rd *c15Render, extra ...string) {
	class, out, _ := c09Run(p, doc)
	prog := rd.prog(p)
	emit(Case{Req: RunReq(prog, nil, []File{{Name: "in.json", Data: []byte(doc)}}, false),
		Fields: []string{"class", "out"}, Meta: metaProg(prog, append([]string{"input", doc, "ideal_class", class, "forms", rd.formStats()}, extra...)...),
		Oracle: c09IdealOracle(class, out, "", false), NonTrivial: c09NT})
}

// the systematic part: every array method x every form x every place an array can live in
func c15FormMatrix(emit func(Case)) {
	call := func(recv c09Expr, m string, args ...c09Expr) *c09Call { return &c09Call{recv, m, args} }
	lst := func() *c09ArrLit { return &c09ArrLit{[]c09Expr{c09NumLit(3), c09NumLit(1), c09NumLit(2)}} }
	doc := `{"list": [3, 1, 2], "o": {"items": [5, 4]}, "m": [[7, "x"], 1]}`
	type place struct {
		recv  c09Expr
		setup []*c09Stmt
		shown []c09Expr // what to print before and after
	}
	a, b := c09V("a"), c09V("b")
	places := []place{
		{a, []*c09Stmt{c09Do(&c09Asg{a, lst()})}, []c09Expr{a}},
		{b, []*c09Stmt{c09Do(&c09Asg{a, lst()}), c09Do(&c09Asg{b, a})}, []c09Expr{a, b}},
		{c09Dot(c09V("$"), "list"), nil, []c09Expr{c09V("$")}},
		{c09Dot(c09Dot(c09V("$"), "o"), "items"), nil, []c09Expr{c09V("$")}},
		{c09At(c09Dot(c09V("$"), "m"), c09NumLit(0)), nil, []c09Expr{c09V("$")}},
		{c09Dot(c09V("ob"), "items"), []*c09Stmt{c09Do(&c09Asg{c09V("ob"), &c09ObjLit{[]string{"items", "n"}, []c09Expr{lst(), c09NumLit(1)}}})}, []c09Expr{c09V("ob")}},
		{c09At(c09V("w"), c09NumLit(-1)), []*c09Stmt{c09Do(&c09Asg{c09V("w"), &c09ArrLit{[]c09Expr{c09StrLit("x"), lst()}}})}, []c09Expr{c09V("w")}},
		{c09At(c09Dot(c09V("ob"), "rows"), c09NumLit(1)), []*c09Stmt{c09Do(&c09Asg{c09V("ob"), &c09ObjLit{[]string{"rows"}, []c09Expr{&c09ArrLit{[]c09Expr{&c09ArrLit{}, lst()}}}}})}, []c09Expr{c09V("ob")}},
	}
	other := c09V("z")
	probes := func(R c09Expr) []c09Expr {
		return []c09Expr{
			call(R, "length"), call(R, "push", c09NumLit(9)), call(R, "pop"), call(R, "popfirst"), call(R, "contains", c09NumLit(1)), call(R, "contains", c09NumLit(8)), call(R, "sort"),
			call(R, "push", call(R, "popfirst")), call(call(R, "push", c09NumLit(4)), "length"), call(other, "push", call(R, "pop")), call(R, "push", call(other, "length")),
			call(call(R, "sort"), "pop"), call(R, "push", call(R, "length")), c09At(R, &c09Bin{"-", call(R, "length"), c09NumLit(1)}),
		}
	}
	for _, pl := range places {
		// a bound method is not a value that can be stored or passed: copying it is an error, the array stays as it is
		for _, bad := range []c09Expr{&c09Asg{c09V("m"), c09Dot(pl.recv, "push")}, &c09Asg{c09V("m"), c09At(pl.recv, c09StrLit("pop"))}, &c09Call{nil, "psh", []c09Expr{other, c09Dot(pl.recv, "pop")}},
			&c09ArrLit{[]c09Expr{c09Dot(pl.recv, "length")}}, &c09ObjLit{[]string{"k"}, []c09Expr{c09At(pl.recv, c09StrLit("sort"))}}} {
			show := append(append([]c09Expr{}, pl.shown...), call(pl.recv, "length"), other)
			body := append(append([]*c09Stmt{c09Do(&c09Asg{other, &c09ArrLit{[]c09Expr{c09StrLit("o")}}})}, pl.setup...), c09Print(show...), c09Print(c09StrLit("r"), bad), c09Print(show...))
			c15EmitR(emit, &c09Prog{funcs: c09Helpers, body: body}, doc, c15NewRender(nil, 0, 0), "row", "method value stored / passed")
		}
		for _, pr := range probes(pl.recv) {
			for form := range c15FormNames {
				var show []c09Expr
				for _, s := range pl.shown {
					show = append(show, s)
				}
				show = append(show, call(pl.recv, "length"), other)
				probe := c09Print(c09StrLit("r"), pr)
				body := append(append([]*c09Stmt{c09Do(&c09Asg{other, &c09ArrLit{[]c09Expr{c09StrLit("o")}}})}, pl.setup...), c09Print(show...), probe, c09Print(show...))
				// once more as an expression statement
				stmt := c09Do(pr)
				body = append(body, stmt, c09Print(show...))
				rd := c15NewRender(nil, 0, 0)
				rd.fixed = form
				rd.only = map[*c09Stmt]bool{probe: true, stmt: true}
				c15EmitR(emit, &c09Prog{body: body}, doc, rd, "row", c15FormNames[form])
			}
		}
	}
}

// ---------------------------------------------------------------- pushed values are copies
//
// What push appends (and what contains looks for) is the VALUE of the argument
// expression, whatever that expression is: a member read that found nothing
// (past the end of another array, a key an object does not have, a member of a
// variable that was never set, of a literal), a character of a string (also
// past its end), an element or member that exists, the result of an assignment
// or of ++, a variable. Afterwards a write to exactly the pushed element
// changes that element of that array and nothing else, and a write to the
// place the value came from does not change the array.

type c15Pushed struct {
	arr  int     // which array got the value
	src  c09Expr // where the value came from, when that is a place that can be assigned to
	kind string
}

func (c *c15Gen) extras() []*c09Stmt {
	return []*c09Stmt{
		c09Do(&c09Asg{c09V("bq"), &c09ArrLit{[]c09Expr{c15Elem(c.r, 1), c15Elem(c.r, 0)}}}),
		c09Do(&c09Asg{c09V("oq"), &c09ObjLit{[]string{"k", "n"}, []c09Expr{c15Elem(c.r, 1), c09NumLit(1)}}}),
		c09Do(&c09Asg{c09V("sq"), c09StrLit(pick(c.r, []string{"hey", "a", "", "xyz"}))}),
		c09Do(&c09Asg{c09V("xq"), c09NumLit(3)}),
	}
}

var c15ExtraNames = []c09Expr{c09V("bq"), c09V("oq"), c09V("uq"), c09V("sq"), c09V("xq"), c09V("u2")}

// an argument expression whose value comes with bookkeeping in the implementation
func (c *c15Gen) specialArg(i, j int, errOK bool) (arg c09Expr, src c09Expr, kind string) {
	r := c.r
	N, M := c.name(i), c.name(j)
	n, m := c.length(i), c.length(j)
	bq, oq, uq, sq, xq := c09V("bq"), c09V("oq"), c09V("uq"), c09V("sq"), c09V("xq")
	V := c15Elem(r, c.mode)
	num := func(k int) c09Expr { return c09NumLit(float64(k)) }
	for {
		switch r.Intn(16) {
		case 0: // past the end of another array
			if chance(r, 0.5) {
				e := c09At(bq, num(2+r.Intn(3)))
				return e, e, "past the end of an array"
			}
			e := c09At(M, num(m+r.Intn(3)))
			if i == j {
				e = c09At(N, num(n+1+r.Intn(2)))
			}
			return e, e, "past the end of an array"
		case 1: // a key the object does not have
			e := pick(r, []c09Expr{c09Dot(oq, "missing"), c09At(oq, c09StrLit("nokey")), c09At(oq, num(3)), c09Dot(c09V("$"), "nothing")})
			return e, e, "missing member of an object"
		case 2: // a member of something that was never set
			e := pick(r, []c09Expr{c09Dot(uq, "k"), c09At(uq, num(2)), c09Dot(c09V("u2"), "deep")})
			return e, e, "member of an unset variable"
		case 3: // a missing member of a missing member
			e := pick(r, []c09Expr{c09Dot(c09Dot(oq, "p"), "q"), c09At(c09Dot(oq, "p"), num(1)), c09Dot(c09At(bq, num(5)), "k"), c09At(c09Dot(uq, "k"), num(0))})
			return e, e, "missing member of a missing member"
		case 4: // a character of a string, also past the end
			e := c09At(sq, pick(r, []c09Expr{num(0), num(1), num(9), c09NumLit(0.5), num(-1)}))
			return e, c09V("sq"), "character of a string"
		case 5:
			e := pick(r, []c09Expr{c09At(c09StrLit("xyz"), num(1)), c09At(c09StrLit(""), num(0)), c09At(&c09ArrLit{[]c09Expr{num(1), num(2)}}, num(5)), c09Dot(&c09ObjLit{}, "k"),
				c09At(&c09ArrLit{[]c09Expr{num(1), num(2)}}, num(1)), c09Dot(&c09ObjLit{[]string{"k"}, []c09Expr{V}}, "k")})
			return e, nil, "member of a literal"
		case 6: // an element that exists
			if m == 0 {
				continue
			}
			e := c09At(M, pick(r, []c09Expr{num(r.Intn(m)), num(-1), num(-1 - r.Intn(m))}))
			return e, e, "existing element"
		case 7:
			e := pick(r, []c09Expr{c09Dot(oq, "k"), c09Dot(oq, "n"), c09At(bq, num(0)), c09At(bq, num(-1))})
			return e, e, "existing member"
		case 8: // the result of an assignment
			lhs := pick(r, []c09Expr{xq, c09Dot(oq, "n"), c09Dot(oq, "fresh"), c09At(bq, num(1)), c09At(bq, num(3)), c09Dot(uq, "k"), c09V("yq")})
			return &c09Asg{lhs, V}, lhs, "result of an assignment"
		case 9:
			lhs := pick(r, []c09Expr{xq, c09Dot(oq, "n"), c09At(bq, num(0)), c09At(bq, num(4)), c09Dot(oq, "cnt")})
			return pick(r, []c09Expr{&c09Inc{lhs, "++", false}, &c09Inc{lhs, "--", true}, &c09Cmp{lhs, "+", num(2)}, &c09Par{&c09Asg{lhs, V}}}), lhs, "result of ++ / op="
		case 10:
			return xq, xq, "variable"
		case 11: // a method value: cannot be copied
			if !errOK {
				continue
			}
			return pick(r, []c09Expr{c09Dot(N, "pop"), c09Dot(M, "length"), c09Dot(sq, "upper"), c09At(N, c09StrLit("push"))}), nil, "method value"
		case 12: // missing member reached with the index form of a name
			e := pick(r, []c09Expr{c09At(oq, c09StrLit("missing")), c09At(N, c09StrLit("nosuch")), c09Dot(M, "nomethod"), c09Dot(sq, "nomethod"), c09Dot(xq, "nomethod")})
			return e, nil, "a name that is no method"
		case 13: // the value of a call
			return pick(r, []c09Expr{&c09Call{M, "pop", nil}, &c09Call{bq, "popfirst", nil}, &c09Call{bq, "length", nil}, &c09Call{M, "sort", nil}}), nil, "result of a call"
		default:
			return V, nil, "plain value"
		}
	}
}

func (c *c15Gen) showAll() {
	r := c.r
	for ai := range c.arrs {
		nm := c.arrs[ai].names[0]
		if chance(r, 0.3) {
			nm = pick(r, c.arrs[ai].names)
		}
		c.add(c09Print(nm, &c09Call{nm, "length", nil}))
	}
	c.add(c09Print(append([]c09Expr{c09StrLit("x")}, c15ExtraNames...)...))
}

// stepPushed: a push / contains of a special argument, or a write that follows one up
func (c *c15Gen) stepPushed(k int, last *c15Pushed, errOK bool) *c15Pushed {
	r := c.r
	tag := c09StrLit(fmt.Sprintf("#%d", k))
	call := func(recv c09Expr, m string, args ...c09Expr) *c09Call { return &c09Call{recv, m, args} }
	V := c15Elem(r, c.mode)
	num := func(k int) c09Expr { return c09NumLit(float64(k)) }
	x := r.Float64()
	if last == nil && x < 0.55 {
		x = 0.6
	}
	var next *c15Pushed
	switch {
	case x < 0.35:
		// a write to exactly the pushed element
		N := c.name(last.arr)
		n := c.length(last.arr)
		at := pick(r, []c09Expr{num(n - 1), num(-1), num(-1), c09NumLit(float64(n) - 0.5)})
		if n == 0 {
			at = num(0)
		}
		el := c09At(N, at)
		var e c09Expr
		switch r.Intn(9) {
		case 0, 1, 2:
			e = &c09Asg{el, V}
		case 3:
			e = &c09Inc{el, pick(r, []string{"++", "--"}), chance(r, 0.5)}
		case 4:
			e = &c09Cmp{el, pick(r, []string{"+", "-", "*"}), num(2)}
		case 5:
			e = &c09Asg{el, &c09ArrLit{[]c09Expr{V}}}
		case 6:
			e = &c09Asg{el, el}
		case 7:
			if errOK {
				e = &c09Asg{pick(r, []c09Expr{c09Dot(el, "k"), c09At(el, num(0))}), V} // a member of the element: creates a container in an unset element only
			} else {
				e = &c09Asg{el, c09StrLit("set")}
			}
		default:
			e = &c09Asg{el, call(N, "length")}
		}
		c.add(c09Print(tag, e))
		if chance(r, 0.6) {
			next = last
		}
	case x < 0.55:
		// a write to the place the value came from
		if last.src == nil {
			c.add(c09Print(tag, call(c.name(last.arr), "length")))
			break
		}
		var e c09Expr
		switch r.Intn(5) {
		case 0, 1:
			e = &c09Asg{last.src, V}
		case 2:
			e = &c09Inc{last.src, "++", chance(r, 0.5)}
		case 3:
			e = &c09Cmp{last.src, "+", c09StrLit("z")}
		default:
			e = &c09Asg{last.src, &c09ArrLit{[]c09Expr{V}}}
		}
		c.add(c09Print(tag, e))
		if chance(r, 0.5) {
			next = last
		}
	case x < 0.85:
		i, j := r.Intn(len(c.arrs)), r.Intn(len(c.arrs))
		arg, src, kind := c.specialArg(i, j, errOK)
		N := c.name(i)
		switch r.Intn(8) {
		case 0:
			c.add(c09Do(call(N, "push", arg)))
		case 1:
			c.add(c09Print(tag, call(call(N, "push", arg), "length")))
		case 2:
			// twice: two arrays (or one array twice) get the value of the same expression
			c.add(c09Print(tag, call(N, "push", arg), call(c.name(j), "push", arg)))
		case 3:
			c.add(c09Print(tag, &c09Call{nil, "psh", []c09Expr{N, arg}}))
		default:
			c.add(c09Print(tag, call(N, "push", arg)))
		}
		next = &c15Pushed{arr: i, src: src, kind: kind}
	case x < 0.92:
		i, j := r.Intn(len(c.arrs)), r.Intn(len(c.arrs))
		if c.hasContainer(i) && !errOK {
			c.add(c09Print(tag, call(c.name(i), "length")))
			break
		}
		arg, _, _ := c.specialArg(i, j, errOK)
		c.add(c09Print(tag, call(c.name(i), "contains", arg)))
		next = last
	default:
		// the sorted copy has elements of its own
		i := r.Intn(len(c.arrs))
		N := c.name(i)
		n := c.length(i)
		t := c09V("t")
		c.add(c09Do(&c09Asg{t, call(N, "sort")}))
		if n > 0 {
			if chance(r, 0.5) {
				c.add(c09Do(&c09Asg{c09At(t, num(r.Intn(n))), V}), c09Do(&c09Inc{c09At(t, num(-1)), "++", false}))
			} else {
				c.add(c09Do(&c09Asg{c09At(N, num(r.Intn(n))), V}), c09Do(&c09Inc{c09At(N, num(-1)), "++", false}))
			}
		}
		c.add(c09Print(tag, t))
		next = last
	}
	c.showAll()
	return next
}

func c15PushedSequence(r *rand.Rand, mode, steps int, errOK bool) (*c09Prog, string, map[string]int) {
	c, doc := c15Setup(r, mode)
	c.add(c.extras()...)
	kinds := map[string]int{}
	var last *c15Pushed
	for k := 1; k <= steps && !c.dead; k++ {
		last = c.stepPushed(k, last, errOK && k > steps/2)
		if last != nil {
			kinds[last.kind]++
		}
	}
	return &c09Prog{funcs: c09Helpers, body: c.body}, doc, kinds
}

func init() {
	register(Family{
		Name: "call-forms", Prop: "C15",
		Rule: "every array method reached in every syntactic form: R.m(A), R[\"m\"](A) in either quote, R[k](A) with k a variable, a concatenation, a function result, an array element, an object member, the result of an assignment; (R).m(A), (R.m)(A), (R[\"m\"])(A), ((R))['m'](A), and through a match binding holding the bound method. Systematic part: 13 forms x 14 probes (each method, calls nested in arguments of both forms, chained, on a sorted copy) x 8 places (variable, alias, $.list, $.o.items, $.m[0], ob.items, w[-1], ob.rows[1]), as a print argument and as an expression statement, the place printed before and after. Random part: the operation sequences of ops-ideal (1-3 arrays in variables / the document / containers, aliases, nested calls, calls through parameters, match bindings, for-in variables) with 35 % or all method calls in a random form and 0-30 % of the .name member reads written [\"name\"]; oracle: the ideal lists of fam_c09.go predict the whole output whatever the form; also compared with the model; non-trivial = distinct program ending ok or in a runtime error",
		Gen: func(r *rand.Rand, tier string, emit func(Case)) {
			c15FormMatrix(emit)
			n := tierN(tier, 1200, 15000)
			for i := 0; i < n; i++ {
				steps := 3 + r.Intn(30)
				mode := r.Intn(3)
				p, doc := c15Sequence(r, mode, steps, chance(r, 0.3))
				rd := c15NewRender(r, pick(r, []float64{0.35, 1}), pick(r, []float64{0, 0.3}))
				c15EmitR(emit, p, doc, rd, "mode", fmt.Sprint(mode), "steps", fmt.Sprint(steps))
			}
		},
	})
	register(Family{
		Name: "pushed-values", Prop: "C15",
		Rule: "push / contains with arguments whose value comes from a member read that found nothing (past the end of another or the same array, a key an object lacks, a member of a never-set variable, a missing member of a missing member, of a literal), a string character (inside, past the end, fractional or negative index), an existing element / member, the result of an assignment, ++, --, op=, a variable, a call, a method value (error), a name that is no method; directly, chained, twice in one statement, through a parameter; followed (35 %) by writes to exactly the pushed element (a[n-1] = v, a[-1] = v, ++ -- += on it, a member of it, itself) and (20 %) to the place the value came from (= ++ += a new container), contains of such arguments, element writes into a sorted copy / the original after sort; 1-3 arrays (variables, document, containers, aliases), every array with its length and bq oq uq sq xq u2 printed after each step; 30 % of the programs with method calls in random syntactic forms; oracle: ideal interpreter (a pushed value is a copy: later writes reach exactly one place); also compared with the model",
		Gen: func(r *rand.Rand, tier string, emit func(Case)) {
			n := tierN(tier, 1500, 15000)
			for i := 0; i < n; i++ {
				steps := 2 + r.Intn(14)
				mode := r.Intn(3)
				p, doc, kinds := c15PushedSequence(r, mode, steps, chance(r, 0.3))
				rate := 0.0
				if chance(r, 0.3) {
					rate = 0.5
				}
				ks := make([]string, 0, len(kinds))
				for k := range kinds {
					ks = append(ks, k)
				}
				c15EmitR(emit, p, doc, c15NewRender(r, rate, 0), "mode", fmt.Sprint(mode), "steps", fmt.Sprint(steps), "kinds", fmt.Sprint(len(ks)))
			}
		},
	})
}

// ---------------------------------------------------------------- stores whose right-hand side changes the array being written

// c15StoreFuncs: user functions that act on the HOME name of array i (a global variable, a
// member of the document, a member of another container) from inside a call frame
func c15StoreFuncs(c *c15Gen) []*c09Func {
	var fs []*c09Func
	call := func(recv c09Expr, m string, args ...c09Expr) *c09Call { return &c09Call{recv, m, args} }
	ret := func(e c09Expr) *c09Stmt { return &c09Stmt{kind: "ret", exprs: []c09Expr{e}} }
	for i, a := range c.arrs {
		H := a.names[0]
		fs = append(fs,
			&c09Func{fmt.Sprintf("grow%d", i), []string{"x"}, []*c09Stmt{c09Do(call(H, "push", c09V("x"))), ret(call(H, "length"))}},
			&c09Func{fmt.Sprintf("grow2x%d", i), []string{"x"}, []*c09Stmt{c09Do(call(H, "push", c09V("x"))), c09Do(call(H, "push", c09V("x"))), ret(call(H, "length"))}},
			&c09Func{fmt.Sprintf("drop%d", i), nil, []*c09Stmt{ret(call(H, "pop"))}},
			&c09Func{fmt.Sprintf("dropf%d", i), nil, []*c09Stmt{c09Do(call(H, "popfirst")), ret(call(H, "length"))}},
			&c09Func{fmt.Sprintf("srt%d", i), nil, []*c09Stmt{ret(call(call(H, "sort"), "length"))}},
			&c09Func{fmt.Sprintf("swap%d", i), []string{"x"}, []*c09Stmt{c09Do(call(H, "pop")), c09Do(call(H, "push", c09V("x"))), ret(c09V("x"))}},
			&c09Func{fmt.Sprintf("fill%d", i), []string{"k", "x"}, []*c09Stmt{c09Do(&c09Asg{c09At(H, c09V("k")), c09V("x")}), ret(call(H, "length"))}},
		)
	}
	for _, f := range fs {
		c.g.in.funcs[f.name] = f
	}
	return fs
}

// c15StoreRHS: a right-hand side that pushes onto / pops from / sorts / writes into array i
// (through the name M, or through a user function naming the array's home), or leaves it alone
func (c *c15Gen) storeRHS(i int, M c09Expr, n int) (c09Expr, string) {
	r := c.r
	call := func(recv c09Expr, m string, args ...c09Expr) *c09Call { return &c09Call{recv, m, args} }
	fn := func(name string, args ...c09Expr) *c09Call { return &c09Call{nil, fmt.Sprintf("%s%d", name, i), args} }
	V, W := c15Elem(r, c.mode), c15Elem(r, 0)
	switch r.Intn(22) {
	case 0:
		return call(call(M, "push", V), "length"), "push.length"
	case 1:
		return call(call(call(M, "push", V), "push", W), "length"), "push.push.length"
	case 2:
		return call(call(call(M, "push", V), "push", W), "pop"), "push.push.pop"
	case 3:
		return call(M, "push", V), "push (the array into itself)"
	case 4:
		return call(M, "pop"), "pop"
	case 5:
		return call(M, "popfirst"), "popfirst"
	case 6:
		return call(call(M, "sort"), "length"), "sort.length"
	case 7:
		return call(M, "sort"), "sort"
	case 8:
		return fn("grow", V), "f:push"
	case 9:
		return fn("grow2x", V), "f:push push"
	case 10:
		return fn("drop"), "f:pop"
	case 11:
		return fn("dropf"), "f:popfirst"
	case 12:
		return fn("srt"), "f:sort"
	case 13:
		return fn("swap", V), "f:pop push"
	case 14:
		return &c09Call{nil, "psh", []c09Expr{M, V}}, "param:push"
	case 15:
		return &c09Bin{"+", call(call(M, "push", V), "length"), fn("grow", W)}, "push + f:push"
	case 16:
		return &c09Asg{c09At(M, c09NumLit(float64(n+r.Intn(3)))), V}, "inner store past the end"
	case 17:
		return fn("fill", c09NumLit(float64(n+r.Intn(3))), V), "f:store past the end"
	case 18:
		return &c09Bin{"+", call(M, "pop"), call(call(M, "push", V), "length")}, "pop + push.length"
	case 19:
		return &c09ArrLit{[]c09Expr{call(call(M, "push", V), "length"), call(M, "length")}}, "[push.length, length]"
	case 20:
		return call(call(M, "push", call(M, "pop")), "length"), "push(pop).length"
	}
	return V, "plain"
}

// one store N[k] = RHS with k at / past / just before the end (as the array is when the target is
// evaluated), then every array with its length
func (c *c15Gen) stepStore(k int, errOK bool, kinds map[string]int) {
	r := c.r
	i := r.Intn(len(c.arrs))
	N, M := c.name(i), c.name(i)
	n := c.length(i)
	var idx float64
	switch x := r.Float64(); {
	case x < 0.40:
		idx = float64(n)
	case x < 0.60:
		idx = float64(n + 1)
	case x < 0.70:
		idx = float64(n + 2 + r.Intn(2))
	case x < 0.80 && n > 0:
		idx = float64(n - 1)
	case x < 0.88 && n > 0:
		idx = -1
	case x < 0.92 && n > 0:
		idx = float64(-n)
	case x < 0.95 && errOK:
		idx = float64(-n - 1)
	case x < 0.97:
		idx = float64(n) + 0.5
	default:
		idx = float64(r.Intn(n + 1))
	}
	rhs, kind := c.storeRHS(i, M, n)
	kinds[kind]++
	tag := c09StrLit(fmt.Sprintf("#%d", k))
	var K c09Expr = c09NumLit(idx)
	if idx < 0 {
		K = &c09Par{c09NumLit(idx)}
	}
	if idx >= 0 && chance(r, 0.15) {
		// the index itself computed from the array before the right-hand side runs
		K = &c09Bin{"+", &c09Call{M, "length", nil}, c09NumLit(idx - float64(n))}
	}
	asg := &c09Asg{c09At(N, K), rhs}
	switch x := r.Float64(); {
	case x < 0.5:
		c.add(c09Do(asg))
	case x < 0.8:
		c.add(c09Print(tag, asg)) // the value of the assignment expression
	case x < 0.9:
		// the target named through a match binding
		c.add(&c09Stmt{kind: "match", v: "q", exprs: []c09Expr{N}, body: []*c09Stmt{c09Do(&c09Asg{c09At(c09V("q"), K), rhs})}})
	default:
		// op= : the target is read, the right-hand side runs, then the store
		c.add(c09Do(&c09Cmp{c09At(N, K), pick(r, []string{"+", "-"}), rhs}))
	}
	for ai := range c.arrs {
		nm := c.arrs[ai].names[0]
		if chance(r, 0.3) {
			nm = pick(r, c.arrs[ai].names)
		}
		c.add(c09Print(nm, &c09Call{nm, "length", nil}))
	}
}

func c15StoreSequence(r *rand.Rand, mode, steps int, errOK bool) (*c09Prog, string, map[string]int) {
	c, doc := c15Setup(r, mode)
	fs := c15StoreFuncs(c)
	kinds := map[string]int{}
	for k := 1; k <= steps && !c.dead; k++ {
		if chance(r, 0.8) {
			c.stepStore(k, errOK && k > steps/2, kinds)
		} else {
			c.step(k, false)
		}
	}
	return &c09Prog{funcs: append(append([]*c09Func{}, c09Helpers...), fs...), body: c.body}, doc, kinds
}

// the fixed matrix: every kind of target x index relative to the end x right-hand side, the
// expected output written out from the property's ideal list (the element addressed is the one
// the index names WHEN THE STORE HAPPENS, i.e. after the right-hand side has run)
func c15StoreMatrix(emit func(Case)) {
	type tgt struct{ setup, T, doc string }
	tgts := []tgt{
		{"a = [1, 2]", "a", "{}"},
		{"a = [1, 2]; b = a", "b", "{}"},
		{"b = [1, 2]; a = b", "b", "{}"},
		{"", "$.q", `{"q": [1, 2]}`},
		{"", "$.o.items", `{"o": {"items": [1, 2]}}`},
		{"", "$.m[0]", `{"m": [[1, 2], 5]}`},
		{"a = $.q", "a", `{"q": [1, 2]}`},
		{"ob = {items: [1, 2]}", "ob.items", "{}"},
		{"w = ['x', [1, 2]]", "w[-1]", "{}"},
		{"ob = {items: [1, 2]}; a = ob.items", "a", "{}"},
	}
	// right-hand sides over the receiver R (the target's own name or the other alias); result
	// list computed on an ideal list below
	type rhs struct {
		text string
		run  func(l []string) ([]string, string) // the list after the right-hand side ran, and its value
	}
	itoa := func(n int) string { return fmt.Sprint(n) }
	rhss := []rhs{
		{"R.push(9).length()", func(l []string) ([]string, string) { l = append(l, "9"); return l, itoa(len(l)) }},
		{"R.push(8).push(9).length()", func(l []string) ([]string, string) { l = append(l, "8", "9"); return l, itoa(len(l)) }},
		{"R.push(8).push(9).push(7).pop()", func(l []string) ([]string, string) { l = append(l, "8", "9"); return l, "7" }},
		{"grow(9)", func(l []string) ([]string, string) { l = append(l, "9"); return l, itoa(len(l)) }},
		{"grow2(9)", func(l []string) ([]string, string) { l = append(l, "9", "9"); return l, itoa(len(l)) }},
		{"psh(R, 9)", func(l []string) ([]string, string) { l = append(l, "9"); return l, itoa(len(l)) }},
		{"R.pop()", func(l []string) ([]string, string) { return l[:len(l)-1], l[len(l)-1] }},
		{"R.popfirst()", func(l []string) ([]string, string) { return l[1:], l[0] }},
		{"shrink()", func(l []string) ([]string, string) { return l[:len(l)-1], l[len(l)-1] }},
		{"R.sort().length()", func(l []string) ([]string, string) { return l, itoa(len(l)) }},
		{"R.push(9).sort().pop()", func(l []string) ([]string, string) { l = append(l, "9"); return l, "9" }},
		{"7", func(l []string) ([]string, string) { return l, "7" }},
	}
	for ti, t := range tgts {
		other := t.T
		if t.T == "b" {
			other = "a"
		}
		for _, off := range []int{0, 1, 2, 3} { // index = length + off - 0 at the time the target is evaluated
			for ri, rh := range rhss {
				for which, R := range []string{t.T, other} {
					if which == 1 && (other == t.T || ri%2 == 1) {
						continue
					}
					idx := 2 + off
					list, val := rh.run([]string{"1", "2"})
					list = append([]string{}, list...)
					for len(list) <= idx {
						list = append(list, "null")
					}
					list[idx] = val
					want := "[" + strings.Join(list, ", ") + "] " + itoa(len(list)) + "\n"
					funcs := "function grow(x) { " + t.T + ".push(x); return " + t.T + ".length() }\n" +
						"function grow2(x) { " + t.T + ".push(x); " + t.T + ".push(x); return " + t.T + ".length() }\n" +
						"function shrink() { return " + t.T + ".pop() }\n" +
						"function psh(l, v) { l.push(v); return l.length() }\n"
					setup := t.setup
					if setup != "" {
						setup += "; "
					}
					prog := funcs + "{ " + setup + t.T + "[" + itoa(idx) + "] = " + strings.ReplaceAll(rh.text, "R", R) + "; print " + other + ", " + t.T + ".length() }\n"
					w := want
					emit(Case{ID: fmt.Sprintf("m%d.%d.%d.%s", ti, off, ri, R), Req: RunReq(prog, nil, []File{{Name: "in.json", Data: []byte(t.doc)}}, false),
						Fields: []string{"class", "out"}, Meta: metaProg(prog, "input", t.doc, "want", w, "row", rh.text, "col", fmt.Sprintf("%s[len+%d]", t.T, off)), NonTrivial: c09NT,
						Oracle: func(i Resp) string {
							if i["class"] != "ok" {
								return "ideal list: the store must succeed, implementation says " + i["class"] + " (" + i["msg"] + ")"
							}
							if got := string(i.Bytes("out")); got != w {
								return fmt.Sprintf("ideal list (the index is resolved when the store happens, after the right-hand side ran): want %q, got %q", w, got)
							}
							return ""
						}})
				}
			}
		}
	}
}

func init() {
	register(Family{
		Name: "store-after-rhs", Prop: "C15",
		Rule: "index writes N[k] = RHS whose right-hand side changes the very array being written: k at the end / 1-3 past it / the last element / -1 / -length / before the start / fractional (relative to the length when the target is evaluated, also computed as M.length()+d), RHS pushing (push.length, chained pushes, the array into itself), popping (pop, popfirst, push then pop), sorting, storing past the end itself, through nested method calls on any alias, through user functions acting on the array's home name (a global, $.list, $.o.items, $.m[0], ob.items, w[0]: grow grow2x drop dropf srt swap fill) and through a parameter (psh); the store as a statement, as a printed assignment value, through a match binding, as op=; mixed with the ordinary operations of ops-ideal; every array with its length after each step. Systematic part: 10 kinds of target (variable, alias either way, $.q, $.o.items, $.m[0], alias of a document member, object member, w[-1], alias of an object member) x 4 offsets x 12 right-hand sides x receiver named by the target / the other alias, expected text written out from an ideal list with the index resolved when the store happens; oracle: ideal list (closed form / fam_c09.go interpreter); also compared with the model; non-trivial = distinct program ending ok or in a runtime error",
		Gen: func(r *rand.Rand, tier string, emit func(Case)) {
			c15StoreMatrix(emit)
			n := tierN(tier, 900, 9000)
			for i := 0; i < n; i++ {
				steps := 1 + r.Intn(10)
				mode := r.Intn(3)
				p, doc, kinds := c15StoreSequence(r, mode, steps, chance(r, 0.3))
				c15Emit(emit, p, doc, "mode", fmt.Sprint(mode), "steps", fmt.Sprint(steps), "rhs_kinds", fmt.Sprint(len(kinds)))
			}
		},
	})
}

// ---------------------------------------------------------------- extreme indices
//
// "a[-k] addresses the k-th element from the end and an index before the start is an
// error": for EVERY index value, also the ones whose conversion to a Go int leaves the
// range in which the usual arithmetic on indices is safe (-2^63, whose negation is
// itself; NaN, the infinities and everything beyond +-2^63, which int(f) turns into
// -2^63 on amd64; +-2^31 / 2^32 / 2^53 / 2^62; -0 and fractional indices, which truncate
// toward zero). The expected text is written out from an ideal list with the index
// resolved as k = int(f); k < 0 => k += length; k < 0 => error.

// Go's int(f) on amd64 (CVTTSD2SQ): truncation; NaN and everything out of range give -2^63
func c15GoInt(f float64) int64 {
	if f != f || f >= 9223372036854775808.0 || f < -9223372036854775808.0 {
		return math.MinInt64
	}
	return int64(f)
}

// an index value: f = mul*length + off (mul = 0: an absolute value), with further ways to
// write exactly that value down (alt: program text, altDoc: JSON number text read through $.i)
type c15IxSpec struct {
	mul     int
	off     float64
	extreme bool // int(f) is -2^63 or near the ends of the int range
	alt     []string
	altDoc  []string
}

// one way to write an index value down
type c15Ix struct {
	text string  // the index expression
	f    float64 // its value
	doc  string  // JSON number text of member "i" of the document when the expression reads $.i
	form string
}

func c15FmtF(f float64) string { return strconv.FormatFloat(f, 'f', -1, 64) }
func c15FmtG(f float64) string { return strconv.FormatFloat(f, 'g', -1, 64) }

// a literal for f (unary minus applied to a digits(.digits)? literal); "" when there is none
func c15Lit(f float64) string {
	if f != f || math.IsInf(f, 0) {
		return ""
	}
	s := c15FmtF(math.Abs(f))
	if len(s) > 330 {
		return ""
	}
	if math.Signbit(f) {
		return "-" + s
	}
	return s
}

// the value of a jqawk numeric literal / numeric string
func c15Parse(s string) float64 {
	f, err := strconv.ParseFloat(s, 64)
	if err != nil && !math.IsInf(f, 0) {
		panic("c15Parse: " + s)
	}
	return f
}

// every way the family writes the value of spec down, for an array named A of length n
func c15IxForms(sp c15IxSpec, A string, n int) []c15Ix {
	var out []c15Ix
	if sp.mul != 0 {
		base, text := float64(n), A+".length()"
		if sp.mul < 0 {
			base, text = -base, "-"+A+".length()"
		}
		f := base + sp.off
		switch {
		case sp.off > 0:
			text += " + " + c15Lit(sp.off)
		case sp.off < 0:
			text += " - " + c15Lit(-sp.off)
		}
		out = append(out, c15Ix{text: text, f: f, form: "length"})
		if l := c15Lit(f); l != "" {
			out = append(out, c15Ix{text: l, f: f, form: "lit"})
			out = append(out, c15Ix{text: "$.i", f: f, doc: c15FmtG(f), form: "doc-g"})
		}
		return out
	}
	f := sp.off
	nan, inf := f != f, math.IsInf(f, 0)
	if l := c15Lit(f); l != "" {
		out = append(out, c15Ix{text: l, f: f, form: "lit"},
			c15Ix{text: "0 + " + l, f: f, form: "computed"},
			c15Ix{text: l + " * 1", f: f, form: "computed"},
			c15Ix{text: l + " / 1", f: f, form: "computed"},
			c15Ix{text: "$.i", f: f, doc: c15FmtG(f), form: "doc-g"})
		if len(l) < 40 {
			out = append(out, c15Ix{text: "$.i", f: f, doc: c15FmtF(f), form: "doc-f"})
		}
	}
	var names []string
	switch {
	case nan:
		names = []string{"nan", "NaN"}
		out = append(out, c15Ix{text: `-"nan"`, f: f, form: "negstr"}, c15Ix{text: `num("inf") - num("inf")`, f: f, form: "computed"}, c15Ix{text: `0 * num("-inf")`, f: f, form: "computed"})
	case inf && f > 0:
		names = []string{"inf", "+Inf", "Infinity"}
		out = append(out, c15Ix{text: `-"-inf"`, f: f, form: "negstr"}, c15Ix{text: `num("1e308") * 10`, f: f, form: "computed"})
	case inf:
		names = []string{"-inf", "-Inf", "-Infinity"}
		out = append(out, c15Ix{text: `-"inf"`, f: f, form: "negstr"}, c15Ix{text: `-num("1e308") * 10`, f: f, form: "computed"})
	default:
		names = []string{c15FmtG(f)}
		out = append(out, c15Ix{text: `-"` + c15FmtG(-f) + `"`, f: f, form: "negstr"})
	}
	for _, nm := range names {
		out = append(out, c15Ix{text: `num("` + nm + `")`, f: f, form: "num"}, c15Ix{text: `+"` + nm + `"`, f: f, form: "plusstr"})
	}
	for _, a := range sp.alt {
		out = append(out, c15Ix{text: a, f: f, form: "alt"})
	}
	for _, d := range sp.altDoc {
		out = append(out, c15Ix{text: "$.i", f: f, doc: d, form: "doc-alt"})
	}
	return out
}

func c15IxSpecs() []c15IxSpec {
	p63 := 9223372036854775808.0
	abs := func(extreme bool, fs ...float64) []c15IxSpec {
		var l []c15IxSpec
		for _, f := range fs {
			l = append(l, c15IxSpec{off: f, extreme: extreme})
		}
		return l
	}
	specs := []c15IxSpec{
		{off: -p63, extreme: true,
			alt:    []string{"-9223372036854775807 - 1", "0 - 9223372036854775808", "-4611686018427387904 * 2", "-9223372036854775809", "-9223372036854775808.5", "-(9223372036854775807)", "-2147483648 * 4294967296"},
			altDoc: []string{"-9223372036854775809", "-9.223372036854775808e18", "-9223372036854775808.0", "-9223372036854775808.9", "-9223372036854775807", "-92233720368547758080E-1"}},
		{off: p63, extreme: true,
			alt:    []string{"4611686018427387904 * 2", "9223372036854775807", "9223372036854775807 + 1", "2147483648 * 4294967296"},
			altDoc: []string{"9223372036854775807", "9.223372036854775808E+18", "9223372036854775808.0"}},
		{off: -1e19, extreme: true, alt: []string{"-10000000000 * 1000000000", "-9223372036854775808 - 776627963145224192"}, altDoc: []string{"-1e19", "-1E+19", "-10000000000000000000.0"}},
		{off: 1e19, extreme: true, alt: []string{"10000000000 * 1000000000"}, altDoc: []string{"1e19"}},
		{off: -1e300, extreme: true, altDoc: []string{"-1e300", "-1.0E300"}},
		{off: 1e300, extreme: true, altDoc: []string{"1e300"}},
	}
	specs = append(specs, abs(true, -p63-2048, p63+2048, -math.MaxFloat64, math.MaxFloat64, math.Inf(-1), math.Inf(1), math.NaN(),
		-p63+1024, p63-1024, -p63+2048, -p63/2, p63/2, -18446744073709551616.0, 18446744073709551616.0, -18446744073709551615.0)...)
	specs = append(specs, abs(false, -9007199254740992, 9007199254740992, -9007199254740993, -4294967296, 4294967296, -4294967297, 4294967297, -4294967295, 4294967295,
		-2147483648, 2147483648, -2147483649, 2147483647, -65537, 1048577, -1048577,
		c15NegZero(), 0, 5e-324, -5e-324, 0.5, -0.5, -0.999999, 0.999, 1, -1, -1.5, 1.5, 2, -2, 2.9, -2.9, 3, -3, -3.9, 4, -4, -4.5, 5, -5, 7, -7)...)
	for _, off := range []float64{0, -1, 1, -0.5, -1.5, 0.5, -2, -p63} {
		specs = append(specs, c15IxSpec{mul: -1, off: off, extreme: off == -p63})
	}
	for _, off := range []float64{0, -1, 1, 2, 0.5, -0.5, p63} {
		specs = append(specs, c15IxSpec{mul: 1, off: off, extreme: off == p63})
	}
	return specs
}

// a history that leaves an array behind: the initial elements and the operations applied to it
type c15IxHist struct {
	init []int
	ops  []string // "push <v>", "pop", "popfirst"
}

var c15IxHists = []c15IxHist{
	{nil, nil},
	{[]int{11}, nil},
	{[]int{11, 22, 33}, nil},
	{[]int{11, 22, 33}, []string{"push 44", "popfirst"}},
	{[]int{11}, []string{"pop"}},
	{[]int{11}, []string{"popfirst"}},
	{nil, []string{"push 11"}},
	{[]int{11, 22, 33, 44, 55}, []string{"pop", "popfirst"}},
	{[]int{11, 22}, []string{"popfirst", "popfirst", "push 33"}},
	{nil, []string{"pop", "push 11", "push 22", "push 33"}},
	{[]int{11, 22, 33}, []string{"popfirst", "popfirst", "popfirst", "popfirst"}},
}

func c15IxRandomHist(r *rand.Rand) c15IxHist {
	var h c15IxHist
	for i, n := 0, r.Intn(5); i < n; i++ {
		h.init = append(h.init, 11*(i+1))
	}
	for i, n := 0, r.Intn(9); i < n; i++ {
		switch r.Intn(4) {
		case 0, 1:
			h.ops = append(h.ops, fmt.Sprintf("push %d", 60+i))
		case 2:
			h.ops = append(h.ops, "pop")
		default:
			h.ops = append(h.ops, "popfirst")
		}
	}
	return h
}

func (h c15IxHist) result() []int {
	l := append([]int{}, h.init...)
	for _, op := range h.ops {
		switch {
		case op == "pop":
			if len(l) > 0 {
				l = l[:len(l)-1]
			}
		case op == "popfirst":
			if len(l) > 0 {
				l = l[1:]
			}
		default:
			v, _ := strconv.Atoi(strings.TrimPrefix(op, "push "))
			l = append(l, v)
		}
	}
	return l
}

func c15IntList(l []int) string {
	parts := make([]string, len(l))
	for i, v := range l {
		parts[i] = strconv.Itoa(v)
	}
	return "[" + strings.Join(parts, ", ") + "]"
}

var c15IxOps = []string{"read", "param", "var", "write", "wprint", "pwrite", "cadd", "cmul", "incr", "csub", "pushread", "contains", "readm", "cond", "jsonf", "mcall", "member", "nested"}

const c15IxLocs = 7

const c15IxFuncs = "function g(v, i) { return v[i] }\nfunction st(v, i) { v[i] = 7 }\n"

// c15IxProgram writes the program for one operation on the array a history leaves at
// location loc, the index written as ix and carried to the brackets in way wrap, and the
// outcome an ideal list gives: class, output ("?" = not predicted, the model decides) and
// whether the error (if any) is "before the start".
func c15IxProgram(h c15IxHist, loc int, sp c15IxSpec, pickForm func(n int) int, wrap int, op string) (prog, doc, class, out string, before bool, ix c15Ix) {
	lit := c15IntList(h.init)
	list, items, m := "[1]", "[1]", "[1]"
	var setup []string
	A, F := "a", "a"
	switch loc {
	case 0:
		setup = append(setup, "a = "+lit)
	case 1:
		list, A, F = lit, "$.list", "$.list"
	case 2:
		items, A, F = lit, "$.o.items", "$.o.items"
	case 3:
		setup = append(setup, "w = ["+lit+", 5]")
		A, F = "w[0]", "w[0]"
	case 4:
		setup = append(setup, "a = "+lit, "h = {r: a}")
		A, F = "h.r", "a"
	case 5:
		m, A, F = lit, "$.m[0]", "$.m[-2]"
	default:
		list = lit
		setup = append(setup, "b = $.list")
		A, F = "b", "$.list"
	}
	for _, o := range h.ops {
		if strings.HasPrefix(o, "push ") {
			setup = append(setup, A+".push("+strings.TrimPrefix(o, "push ")+")")
		} else {
			setup = append(setup, A+"."+o+"()")
		}
	}
	l := h.result()
	n := len(l)
	forms := c15IxForms(sp, A, n)
	ix = forms[pickForm(len(forms))%len(forms)]
	I := ix.text
	var pre []string
	switch wrap {
	case 1:
		pre, I = []string{"n = " + ix.text}, "n"
	case 2:
		pre, I = []string{"q = {k: " + ix.text + "}"}, "q.k"
	case 3:
		pre, I = []string{"q = [0, " + ix.text + "]"}, "q[-1]"
	case 4:
		I = "(" + ix.text + ")"
	}
	var body []string
	switch op {
	case "read":
		body = []string{`print "R", ` + A + "[" + I + "]"}
	case "param":
		body = []string{`print "R", g(` + A + ", " + I + ")"}
	case "var":
		body = []string{"x = " + A + "[" + I + "]", `print "R", x`}
	case "write":
		body = []string{A + "[" + I + "] = 7"}
	case "wprint":
		body = []string{`print "R", (` + A + "[" + I + "] = 7)"}
	case "pwrite":
		body = []string{"st(" + A + ", " + I + ")"}
	case "cadd":
		body = []string{A + "[" + I + "] += 5"}
	case "incr":
		body = []string{A + "[" + I + "]++"}
	case "csub":
		body = []string{A + "[" + I + "] -= 5"}
	case "cmul":
		body = []string{A + "[" + I + "] *= 2"}
	case "jsonf":
		body = []string{`print "R", json(` + A + "[" + I + "])"}
	case "mcall":
		body = []string{`print "R", ` + A + "[" + I + "].floor()"}
	case "pushread":
		body = []string{`print "R", ` + A + ".push(" + A + "[" + I + "])"}
	case "contains":
		body = []string{`print "R", ` + A + ".contains(" + A + "[" + I + "])"}
	case "readm":
		body = []string{`print "R", ` + A + "[" + I + "].x"}
	case "cond":
		body = []string{"if (" + A + "[" + I + `]) { print "R", "t" } else { print "R", "f" }`}
	case "member":
		body = []string{A + "[" + I + "].x = 1"}
	case "nested":
		body = []string{A + "[" + I + "][0] = 1"}
	}
	lines := append(append(append(append([]string{}, setup...), `print "s"`), pre...), body...)
	lines = append(lines, `print "e", `+F+", "+F+".length()")
	prog = c15IxFuncs + "{\n  " + strings.Join(lines, "\n  ") + "\n}\n"
	di := "0"
	if ix.doc != "" {
		di = ix.doc
	}
	doc = `{"i": ` + di + `, "list": ` + list + `, "o": {"items": ` + items + `}, "m": [` + m + `, 5]}`

	// the ideal list
	k := c15GoInt(ix.f)
	if k < 0 {
		k += int64(n)
	}
	if k < 0 {
		return prog, doc, "runtime", "s\n", true, ix
	}
	el := make([]string, n)
	for i, v := range l {
		el[i] = strconv.Itoa(v)
	}
	show := func() string { return "[" + strings.Join(el, ", ") + "] " + strconv.Itoa(len(el)) }
	in := k < int64(n)
	res := ""
	store := func(val func(old int) int) bool {
		if k > 1024*1024 {
			return false
		}
		old := 0
		if in {
			old = l[k]
		}
		for int64(len(el)) <= k {
			el = append(el, "null")
		}
		el[k] = strconv.Itoa(val(old))
		return true
	}
	switch op {
	case "read", "param", "var":
		res = "null"
		if in {
			res = el[k]
		}
	case "readm":
		res = "null"
	case "cond":
		res = "f"
		if in {
			res = "t"
		}
	case "contains":
		res = "false"
		if in {
			res = "true"
		}
	case "pushread":
		if in {
			el = append(el, el[k])
		} else {
			el = append(el, "null")
		}
		res = "[" + strings.Join(el, ", ") + "]"
	case "write", "pwrite", "wprint":
		if !store(func(int) int { return 7 }) {
			return prog, doc, "runtime", "s\n", false, ix
		}
		if op == "wprint" {
			res = "7"
		}
	case "cadd":
		if !store(func(o int) int { return o + 5 }) {
			return prog, doc, "runtime", "s\n", false, ix
		}
	case "incr":
		if !store(func(o int) int { return o + 1 }) {
			return prog, doc, "runtime", "s\n", false, ix
		}
	case "csub":
		if !store(func(o int) int { return o - 5 }) {
			return prog, doc, "runtime", "s\n", false, ix
		}
	case "cmul":
		if !store(func(o int) int { return o * 2 }) {
			return prog, doc, "runtime", "s\n", false, ix
		}
	case "jsonf", "mcall":
		if !in {
			return prog, doc, "?", "?", false, ix // json / a method of a missing element: the model decides
		}
		res = el[k]
	default: // member, nested: a member of a number / of a new element: the model decides
		if k > 1024*1024 {
			return prog, doc, "runtime", "s\n", false, ix
		}
		return prog, doc, "?", "?", false, ix
	}
	out = "s\n"
	if res != "" {
		out += "R " + res + "\n"
	}
	out += "e " + show() + "\n"
	return prog, doc, "ok", out, false, ix
}

// the oracle of an extreme-index case: never a panic; the class and output of the ideal
// list; an index before the start is reported as "index out of range"
func c15IxOracle(class, out string, before bool) func(Resp) string {
	return func(i Resp) string {
		if i["class"] == "panic" {
			return "the interpreter panicked instead of reporting a runtime error: " + short(i["msg"])
		}
		if class == "?" {
			return ""
		}
		if i["class"] != class {
			return fmt.Sprintf("ideal list: class %s expected, implementation says %s (msg %s)", class, i["class"], i["msg"])
		}
		if got := string(i.Bytes("out")); got != out {
			return fmt.Sprintf("output differs from the ideal list: %s", c09FirstDiff(got, out))
		}
		if before && !strings.Contains(i["msg"], "index_out_of_range") {
			return "an index before the start must be reported as 'index out of range', got: " + i["msg"]
		}
		return ""
	}
}

var c15IxFields = []string{"class", "out", "line", "col"}

func c15IxEmit(emit func(Case), h c15IxHist, loc int, sp c15IxSpec, pickForm func(int) int, wrap int, op string, stats map[string]int) {
	prog, doc, class, out, before, ix := c15IxProgram(h, loc, sp, pickForm, wrap, op)
	row := "in-range"
	switch {
	case c15GoInt(ix.f) == math.MinInt64:
		row = "int(f)=-2^63"
	case sp.extreme:
		row = "near the int limits"
	case before:
		row = "before the start"
	}
	stats[ix.form]++
	emit(Case{Req: RunReq(prog, nil, []File{{Name: "in.json", Data: []byte(doc)}}, false), Fields: c15IxFields,
		Meta:   metaProg(prog, "input", doc, "index", c15FmtG(ix.f), "form", ix.form, "op", op, "ideal_class", class, "row", row, "col", op),
		Oracle: c15IxOracle(class, out, before), NonTrivial: c09NT})
}

// index reads and writes on strings: never an error for a read (a character or null), always one for a write
func c15IxStringEmit(emit func(Case), r *rand.Rand, s string, sp c15IxSpec, pickForm func(int) int, op string) {
	S, doc := "s", `{"i": 0, "s": `+jsonString(s)+`}`
	setup := "s = \"" + s + "\""
	if chance(r, 0.4) {
		S, setup = "$.s", `t = "t"`
	}
	forms := c15IxForms(sp, S, len(s))
	ix := forms[pickForm(len(forms))%len(forms)]
	if ix.doc != "" {
		doc = `{"i": ` + ix.doc + `, "s": ` + jsonString(s) + `}`
	}
	var body, class, out string
	k := c15GoInt(ix.f)
	switch op {
	case "sread":
		body = `print "R", ` + S + "[" + ix.text + "]"
		res := "null"
		if k >= 0 && k < int64(len(s)) {
			res = s[k : k+1]
		}
		class, out = "ok", "s\nR "+res+"\ne "+s+"\n"
	case "sreadvar":
		body = "n = " + ix.text + "\n  c = " + S + "[n]\n  print \"R\", c, c.length()"
		res := "null"
		if k >= 0 && k < int64(len(s)) {
			res = s[k:k+1] + " 1"
			class, out = "ok", "s\nR "+res+"\ne "+s+"\n"
		} else {
			class, out = "?", "?" // a method of null: the model decides
		}
	default: // swrite
		body = S + "[" + ix.text + "] = 1"
		class, out = "runtime", "s\n"
	}
	prog := "{\n  " + setup + "\n  print \"s\"\n  " + body + "\n  print \"e\", " + S + "\n}\n"
	emit(Case{Req: RunReq(prog, nil, []File{{Name: "in.json", Data: []byte(doc)}}, false), Fields: c15IxFields,
		Meta:   metaProg(prog, "input", doc, "index", c15FmtG(ix.f), "form", ix.form, "op", op, "ideal_class", class, "row", "string", "col", op),
		Oracle: c15IxOracle(class, out, false), NonTrivial: c09NT})
}

// the index inside a root selector ($.list[i] given on the command line): before the start =
// the same runtime error, else the element (or null past the end) is the one record
func c15IxSelEmit(emit func(Case), l []int, sp c15IxSpec, pickForm func(int) int) {
	forms := c15IxForms(sp, "$.list", len(l))
	ix := forms[pickForm(len(forms))%len(forms)]
	di := "0"
	if ix.doc != "" {
		di = ix.doc
	}
	doc := `{"i": ` + di + `, "list": ` + c15IntList(l) + `}`
	sel := "$.list[" + ix.text + "]"
	prog := "{ print \"r\", $ }\nEND { print \"end\" }\n"
	k := c15GoInt(ix.f)
	if k < 0 {
		k += int64(len(l))
	}
	class, out := "ok", "r null\nend\n"
	switch {
	case k < 0:
		class, out = "runtime", ""
	case k < int64(len(l)):
		out = "r " + strconv.Itoa(l[k]) + "\nend\n"
	}
	emit(Case{Req: RunReq(prog, []string{sel}, []File{{Name: "in.json", Data: []byte(doc)}}, false), Fields: c15IxFields,
		Meta:   metaProg(prog, "selector", sel, "input", doc, "index", c15FmtG(ix.f), "form", ix.form, "op", "selector", "ideal_class", class, "row", "selector", "col", "selector"),
		Oracle: c15IxOracle(class, out, k < 0), NonTrivial: c09NT})
}

// through the real binary: an index before the start ends the run with exit status 1 and
// jqawk's own diagnostic, never with a Go panic (exit status 2 and a goroutine trace)
func c15IxCli(emit func(Case), h c15IxHist, loc int, sp c15IxSpec, pickForm func(int) int, wrap int, op string) {
	prog, doc, class, out, before, ix := c15IxProgram(h, loc, sp, pickForm, wrap, op)
	emit(Case{Req: CliReq([]string{prog, "in.json"}, nil, false, []CliFile{{Name: "in.json", Data: []byte(doc)}}, ""), Fields: c14CliFields, NonTrivial: c14NT,
		Meta: metaProg(prog, "input", doc, "index", c15FmtG(ix.f), "form", ix.form, "op", op, "ideal_class", class, "row", "binary", "col", op),
		Oracle: func(i Resp) string {
			if w := c14Basic(i); w != "" {
				return w
			}
			if i["exit"] == "" || class == "?" {
				return ""
			}
			want := "0"
			if class == "runtime" {
				want = "1"
			}
			if i["exit"] != want {
				return fmt.Sprintf("ideal list: exit status %s expected, the binary ended with %s: %s", want, i["exit"], short(string(i.Bytes("stderr"))))
			}
			if got := string(i.Bytes("out")); got != out {
				return fmt.Sprintf("output differs from the ideal list: %s", c09FirstDiff(got, out))
			}
			if before && !strings.Contains(string(i.Bytes("stderr")), "index out of range") {
				return "an index before the start must be reported as 'index out of range', stderr: " + short(string(i.Bytes("stderr")))
			}
			return ""
		}})
}

func init() {
	register(Family{
		Name: "extreme-indices", Prop: "C15",
		Rule: "one index operation (read, read through a parameter / into a variable, write, printed write, write through a parameter, +=, -=, *=, ++, push(a[i]), contains(a[i]), a[i].x, if (a[i]), json(a[i]), a[i].floor(), a[i].x = 1, a[i][0] = 1) on the array that a push/pop/popfirst history leaves behind (11 fixed histories ending in lengths 0, 1, 3 incl. re-sliced and emptied backing arrays, and random ones) at 7 locations (variable, $.list, $.o.items, w[0], object member alias, $.m[0], variable alias of a document member), with the index drawn from: -2^63, 2^63, +-1e19, +-1e300, +-MaxFloat64, +-Inf, NaN, +-2^63+-2048, +-2^64, +-2^62, +-2^53, +-2^32+-1, +-2^31+-1, 1048577, -0, 0, +-5e-324, fractional and small integers either side of zero, and values relative to the length (-len, -len-1, -len+1, -len-0.5, -len-1.5, len, len+-1, len+-0.5, -len-2^63, len+2^63); each value written as a literal, computed (0 + x, x * 1, x / 1, -9223372036854775807 - 1, 0 - 2^63, -2^62 * 2, products, inf - inf, 1e308 * 10, -a.length() - 1), read from the document ($.i, several JSON spellings incl. ones that round to -2^63), num(\"...\") (inf/nan spellings), -\"...\" and +\"...\"; carried to the brackets directly, through a variable, an object member, an array element, parentheses; the same on strings of length 0, 1, 3 (read: a character or null, write: an error); the index inside a root selector $.list[i]; a sample through the real binary (exit status 1 with the 'index out of range' diagnostic, never a panic / exit status 2). Oracle: an ideal list with k = int(f) (Go on amd64: truncation, NaN / out of range = -2^63), k < 0 => k += len, k < 0 => 'index out of range' runtime error after the output so far, never class panic; also compared with the model (class, out, line, col); matrix row = kind of index, column = operation; non-trivial = distinct program ending ok or in a runtime error",
		Gen: func(r *rand.Rand, tier string, emit func(Case)) {
			specs := c15IxSpecs()
			stats := map[string]int{}
			random := func(n int) int { return r.Intn(n) }
			thorough := tier == "thorough"
			for si, sp := range specs {
				hists := append([]c15IxHist{}, c15IxHists...)
				for i, n := 0, tierN(tier, 2, 8); i < n; i++ {
					hists = append(hists, c15IxRandomHist(r))
				}
				for _, h := range hists {
					for _, op := range c15IxOps {
						// quick: every operation for the values at the int limits, a sample for the others
						if !thorough && !chance(r, map[bool]float64{true: 0.55, false: 0.25}[sp.extreme]) {
							continue
						}
						c15IxEmit(emit, h, r.Intn(c15IxLocs), sp, random, r.Intn(5), op, stats)
					}
				}
				// every way of writing the value down (thorough: with every operation)
				nf := len(c15IxForms(sp, "a", 3))
				for fi := 0; fi < nf; fi++ {
					fi := fi
					fixed := func(int) int { return fi }
					ops := []string{pick(r, c15IxOps), pick(r, []string{"read", "write"})}
					if thorough {
						ops = c15IxOps
					}
					for _, op := range ops {
						c15IxEmit(emit, pick(r, hists), r.Intn(c15IxLocs), sp, fixed, r.Intn(5), op, stats)
					}
				}
				for _, s := range []string{"", "a", "abc"} {
					for _, op := range []string{"sread", "sreadvar", "swrite"} {
						if thorough || sp.extreme || chance(r, 0.4) {
							c15IxStringEmit(emit, r, s, sp, random, op)
						}
					}
				}
				for _, l := range [][]int{nil, {11}, {11, 22, 33}} {
					if thorough || sp.extreme || chance(r, 0.4) {
						c15IxSelEmit(emit, l, sp, random)
					}
				}
				if os.Getenv("JQAWK_BIN") != "" && (sp.extreme || thorough || si%6 == 0) {
					for _, op := range []string{"read", "write"} {
						c15IxCli(emit, pick(r, hists), r.Intn(c15IxLocs), sp, random, r.Intn(5), op)
					}
				}
			}
		},
	})
}
