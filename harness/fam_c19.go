package main

// C19 — match selects the first matching case, binds pattern names, and yields
// its value.
//
// Families (all compared with the model on class, out):
//   literal-cases        subjects of every kind x 0-5 cases of 1-3 literal alternatives; oracle: reference
//                        matcher in Go (literal == per DESIGN 3.5, errors only when reached)
//   structured-patterns  subjects (scalars, arrays of length 0-4 with nesting, objects, unset elements) x
//                        cases of literals / identifiers / nested array patterns / not-allowed patterns,
//                        bodies that print the bindings or assign to one; oracle: reference matcher with
//                        binding paths
//   literal-vs-eq        `S == L` and `match (S) { L => true, zz => false }` agree (or both fail)
//   match-laws           fixed small programs from the property text with their expected output
//   subject-side-effects subjects with a side effect (i++, assignments, calls that count / trace / push, nested
//                        matches) x cases whose selected one is the 1st .. last or none, the earlier patterns
//                        matching what a re-evaluation of the subject would yield; oracle: a reference that
//                        evaluates the subject exactly once per match
//   recursive-bindings   recursive functions whose case body uses its bindings AFTER re-entering the same match
//                        (tree folds, recursion on numbers, mutual recursion, array patterns with 1-4 names), depth 0-50
//   binding-names        pattern names of every lexical shape ($k $1x $index $print _ length unknown, bytes >= 0x80, 500-byte
//                        names) that mean nothing / a global / a parameter / $index / an enclosing binding outside the case,
//                        read (directly, through a called function, after a nested rebinding, as n[0] n.a n.length() n + 1) and
//                        written (= ++ += *= -=, as a for-in loop or index variable, directly or in a called function);
//                        what is not a name (keywords, a$b, 1x) is a syntax error; oracle: reference with a three-level environment

import (
	"fmt"
	"math"
	"math/rand"
	"sort"
	"strconv"
	"strings"
)

// ---------------------------------------------------------------- reference values

// kinds: N S B Z U A O R F ; arrays: []interface{}, objects: map[string]interface{}
type c19Unset struct{}
type c19Regex struct{ s string }
type c19Fn struct{}

func c19IsContainer(v interface{}) bool {
	switch v.(type) {
	case []interface{}, map[string]interface{}:
		return true
	}
	return false
}

func c19Num(v interface{}) float64 {
	switch x := v.(type) {
	case float64:
		return x
	case string:
		f, err := strconv.ParseFloat(x, 64)
		if err != nil {
			return 0
		}
		return f
	case bool:
		if x {
			return 1
		}
	}
	return 0
}

// c19Eq: does `subject == literal` hold (DESIGN 3.5); err = runtime error
func c19Eq(subj, lit interface{}) (eq bool, err bool) {
	if _, u := subj.(c19Unset); u {
		return false, false
	}
	if subj == nil && lit == nil {
		return true, false
	}
	if subj == nil || lit == nil {
		return false, false
	}
	if c19IsContainer(subj) || c19IsContainer(lit) {
		return false, true
	}
	if a, ok := subj.(string); ok {
		if b, ok := lit.(string); ok {
			return a == b, false
		}
	}
	x, y := c19Num(subj), c19Num(lit)
	return !(x > y) && !(x < y), false
}

func c19Pretty(v interface{}, quote bool) string {
	switch x := v.(type) {
	case c19Unset:
		return "<unknown>"
	case c19Regex:
		return "<regex>"
	case c19Fn:
		return "<function>"
	case nil:
		return "null"
	case bool:
		return fmt.Sprint(x)
	case float64:
		return strconv.FormatFloat(x, 'f', -1, 64)
	case string:
		if quote {
			return "\"" + x + "\""
		}
		return x
	case []interface{}:
		parts := make([]string, len(x))
		for i, e := range x {
			parts[i] = c19Pretty(e, true)
		}
		return "[" + strings.Join(parts, ", ") + "]"
	case map[string]interface{}:
		keys := make([]string, 0, len(x))
		for k := range x {
			keys = append(keys, k)
		}
		sort.Strings(keys)
		parts := make([]string, len(keys))
		for i, k := range keys {
			parts[i] = "\"" + k + "\": " + c19Pretty(x[k], true)
		}
		return "{" + strings.Join(parts, ", ") + "}"
	}
	return "<?>"
}

// c19Expr renders a value as a jqawk expression (ok=false if it cannot be written)
func c19Expr(v interface{}) (string, bool) {
	switch x := v.(type) {
	case c19Unset:
		return "u", true
	case nil:
		return "null", true
	case bool:
		return fmt.Sprint(x), true
	case float64:
		if math.IsNaN(x) {
			return "num('nan')", true
		}
		if math.IsInf(x, 1) {
			return "num('inf')", true
		}
		if x == math.Trunc(x) && math.Abs(x) < 1e15 || x == 2.5 || x == 0.5 {
			return numLit(x), true
		}
		return "", false
	case string:
		l, ok := strLit(nil, x)
		return l, ok
	case []interface{}:
		parts := make([]string, len(x))
		for i, e := range x {
			p, ok := c19Expr(e)
			if !ok {
				return "", false
			}
			parts[i] = p
		}
		return "[" + strings.Join(parts, ", ") + "]", true
	case map[string]interface{}:
		keys := make([]string, 0, len(x))
		for k := range x {
			keys = append(keys, k)
		}
		sort.Strings(keys)
		parts := make([]string, len(keys))
		for i, k := range keys {
			p, ok := c19Expr(x[k])
			if !ok {
				return "", false
			}
			parts[i] = k + ": " + p
		}
		return "{" + strings.Join(parts, ", ") + "}", true
	}
	return "", false
}

// ---------------------------------------------------------------- literal patterns

type c19Lit struct {
	text string
	val  interface{}
	bad  bool // evaluating the literal is a runtime error (bad escape)
}

var c19Lits = []c19Lit{
	{"0", float64(0), false}, {"1", float64(1), false}, {"2.5", 2.5, false}, {"10", float64(10), false}, {"1000", float64(1000), false},
	{"01", float64(1), false}, {"1.0", float64(1), false}, {"2", float64(2), false},
	{`""`, "", false}, {`"1"`, "1", false}, {`'1'`, "1", false}, {`"abc"`, "abc", false}, {`'1.0'`, "1.0", false}, {`" 1"`, " 1", false},
	{`"A"`, "A", false}, {`"a"`, "a", false}, {"\"\xc3\xa9\"", "\xc3\xa9", false}, {`"e"`, "e", false}, {`"\n"`, "\n", false}, {`"a\\b"`, `a\b`, false},
	{`"true"`, "true", false}, {`"null"`, "null", false}, {`"10"`, "10", false}, {`"0x10"`, "0x10", false}, {`"1e3"`, "1e3", false}, {`"nan"`, "nan", false},
	{"true", true, false}, {"false", false, false}, {"null", nil, false},
	{"/a/", c19Regex{"a"}, false},
	{`"\q"`, nil, true},
}

type c19Subj struct {
	text string
	val  interface{}
	json string // the value as a JSON text when it can come from the document
}

func c19Subjects() []c19Subj {
	return []c19Subj{
		{"0", float64(0), "0"}, {"1", float64(1), "1"}, {"2.5", 2.5, "2.5"}, {"(-1)", float64(-1), "-1"}, {"10", float64(10), "10"}, {"1000", float64(1000), "1e3"},
		{"num('nan')", math.NaN(), ""}, {"num('inf')", math.Inf(1), ""}, {"(0 - 0.0)", float64(0), "-0"}, {"2", float64(2), "2.0"},
		{`""`, "", `""`}, {`"1"`, "1", `"1"`}, {`"abc"`, "abc", `"abc"`}, {`"1.0"`, "1.0", `"1.0"`}, {`" 1"`, " 1", `" 1"`}, {`"10"`, "10", `"10"`},
		{`"true"`, "true", `"true"`}, {`"null"`, "null", `"null"`}, {"\"\xc3\xa9\"", "\xc3\xa9", "\"\xc3\xa9\""}, {`"e"`, "e", `"e"`}, {`"A"`, "A", `"A"`}, {`"a"`, "a", `"a"`},
		{`"\n"`, "\n", `"\n"`}, {`"a\\b"`, `a\b`, `"a\\b"`}, {`"1e3"`, "1e3", `"1e3"`}, {`"0x10"`, "0x10", `"0x10"`}, {`"nan"`, "nan", `"nan"`},
		{"true", true, "true"}, {"false", false, "false"}, {"null", nil, "null"}, {"u", c19Unset{}, ""},
		{"[]", []interface{}{}, "[]"}, {"[1]", []interface{}{float64(1)}, "[1]"}, {"[1, 2]", []interface{}{float64(1), float64(2)}, "[1,2]"},
		{"[[1], 2]", []interface{}{[]interface{}{float64(1)}, float64(2)}, "[[1],2]"}, {"[null]", []interface{}{nil}, "[null]"},
		{"{}", map[string]interface{}{}, "{}"}, {"{a: 1}", map[string]interface{}{"a": float64(1)}, `{"a":1}`},
		{"/a/", c19Regex{"a"}, ""}, {"f", c19Fn{}, ""}, {"printf", c19Fn{}, ""},
	}
}

func c19LiteralCases(r *rand.Rand, subjects []c19Subj, emit func(Case)) {
	s := pick(r, subjects)
	ncase := r.Intn(6)
	type kase struct {
		lits  []c19Lit
		block bool
		fail  bool // the body divides by zero: a runtime error, but only when this case is selected
	}
	cases := make([]kase, ncase)
	for i := range cases {
		m := 1 + r.Intn(3)
		for j := 0; j < m; j++ {
			var l c19Lit
			switch {
			case chance(r, 0.35):
				// a literal likely to equal the subject
				l = pick(r, c19Lits)
				for tries := 0; tries < 8; tries++ {
					if eq, err := c19Eq(s.val, l.val); eq && !err && !l.bad {
						break
					}
					l = pick(r, c19Lits)
				}
			case chance(r, 0.04):
				l = c19Lits[len(c19Lits)-1] // bad escape
			default:
				l = pick(r, c19Lits[:len(c19Lits)-1])
			}
			cases[i].lits = append(cases[i].lits, l)
		}
		cases[i].block = chance(r, 0.4)
		cases[i].fail = chance(r, 0.12)
	}
	// reference: first case, in source order, one of whose alternatives (in order) equals the subject
	selected, failed := -1, false
outer:
	for i, c := range cases {
		for _, l := range c.lits {
			if l.bad {
				failed = true // the literal is evaluated before anything else
				break outer
			}
			eq, err := c19Eq(s.val, l.val)
			if err {
				failed = true
				break outer
			}
			if eq {
				selected = i
				break outer
			}
		}
	}
	var sb strings.Builder
	sb.WriteString("function f() { return 1 }\n")
	subj := s.text
	var files []File
	if s.json != "" && chance(r, 0.4) {
		files = []File{{Name: "in.json", Data: []byte(`{"s": ` + s.json + `}`)}}
		subj = "$.s"
		sb.WriteString("{\n")
	} else {
		sb.WriteString("BEGIN {\n")
	}
	if _, isFn := s.val.(c19Fn); !isFn && chance(r, 0.3) && subj != "u" {
		// through a variable (a function value cannot be stored)
		sb.WriteString("  sv = " + subj + "\n")
		subj = "sv"
	}
	sb.WriteString("  r = match (" + subj + ") {\n")
	for i, c := range cases {
		texts := make([]string, len(c.lits))
		for j, l := range c.lits {
			texts[j] = l.text
		}
		switch {
		case c.block && c.fail:
			fmt.Fprintf(&sb, "    %s => { print \"b%d\"\n      zz = 1 / 0 }", strings.Join(texts, ", "), i)
		case c.block:
			fmt.Fprintf(&sb, "    %s => { print \"b%d\" }", strings.Join(texts, ", "), i)
		case c.fail:
			fmt.Fprintf(&sb, "    %s => 1 / 0", strings.Join(texts, ", "))
		default:
			fmt.Fprintf(&sb, "    %s => \"v%d\"", strings.Join(texts, ", "), i)
		}
		if i < len(cases)-1 && (!c.block || chance(r, 0.5)) {
			sb.WriteString(",")
		}
		sb.WriteString("\n")
	}
	sb.WriteString("  }\n  print \"r\", r\n}\n")
	prog := sb.String()
	want, wantClass := "r null\n", "ok"
	switch {
	case failed:
		want, wantClass = "", "runtime"
	case selected >= 0 && cases[selected].fail && cases[selected].block:
		want, wantClass = fmt.Sprintf("b%d\n", selected), "runtime"
	case selected >= 0 && cases[selected].fail:
		want, wantClass = "", "runtime"
	case selected >= 0 && cases[selected].block:
		want = fmt.Sprintf("b%d\nr null\n", selected)
	case selected >= 0:
		want = fmt.Sprintf("r v%d\n", selected)
	}
	emit(Case{Req: RunReq(prog, nil, files, false), Fields: []string{"class", "out"},
		Meta:       metaProg(prog, "subject", s.text, "expected", fmt.Sprintf("case %d, class %s", selected, wantClass)),
		Oracle:     c19Oracle(want, wantClass),
		NonTrivial: func(i Resp) bool { return i["class"] == "ok" || i["class"] == "runtime" }})
}

func c19Oracle(want, wantClass string) func(Resp) string {
	return func(i Resp) string {
		if i["class"] != wantClass {
			return "expected class " + wantClass + ", got " + i["class"] + " " + i["msg"]
		}
		if got := string(i.Bytes("out")); got != want {
			return fmt.Sprintf("output differs from the reference matcher: got %q want %q", got, want)
		}
		return ""
	}
}

// ---------------------------------------------------------------- structured patterns

type c19Pat struct {
	kind  string // lit ident arr bad
	lit   c19Lit
	name  string
	items []*c19Pat
	text  string // bad: the text of a pattern that is not allowed
}

func (p *c19Pat) render() string {
	switch p.kind {
	case "lit":
		return p.lit.text
	case "ident":
		return p.name
	case "arr":
		parts := make([]string, len(p.items))
		for i, it := range p.items {
			parts[i] = it.render()
		}
		return "[" + strings.Join(parts, ", ") + "]"
	}
	return p.text
}

func (p *c19Pat) names(acc map[string]bool) {
	if p.kind == "ident" {
		acc[p.name] = true
	}
	for _, it := range p.items {
		it.names(acc)
	}
}

// c19Match: the reference pattern matcher. bindings: name -> path into the subject.
// outcome: 1 match, 0 no match, -1 runtime error
func c19Match(p *c19Pat, v interface{}, path []int, b map[string][]int) int {
	switch p.kind {
	case "lit":
		if p.lit.bad {
			return -1
		}
		eq, err := c19Eq(v, p.lit.val)
		if err {
			return -1
		}
		if eq {
			return 1
		}
		return 0
	case "ident":
		b[p.name] = append([]int{}, path...)
		return 1
	case "arr":
		arr, ok := v.([]interface{})
		if !ok || len(arr) != len(p.items) {
			return 0
		}
		for i, it := range p.items {
			if res := c19Match(it, arr[i], append(path, i), b); res != 1 {
				return res
			}
		}
		return 1
	}
	return -1 // not allowed in match expressions
}

func c19At(v interface{}, path []int) interface{} {
	for _, i := range path {
		v = v.([]interface{})[i]
	}
	return v
}

func c19Replace(v interface{}, path []int, nv interface{}) interface{} {
	if len(path) == 0 {
		return nv
	}
	arr := append([]interface{}{}, v.([]interface{})...)
	arr[path[0]] = c19Replace(arr[path[0]], path[1:], nv)
	return arr
}

type c19Gen struct {
	r     *rand.Rand
	nname int
	// structured-patterns: identifier patterns are also drawn from c19OddNames, the
	// program's globals, (wrapped) the parameters of the enclosing function and (fnOK:
	// in a case with a single alternative) the names of functions and builtins
	pool    bool
	wrapped bool
	fnOK    bool
}

type c19Native struct{}

// names nothing is bound to outside a case: the conventional catch-all, underscores,
// single letters, keyword lookalikes
var c19OddNames = []string{"_", "_", "_", "__", "_x", "x_", "_1", "a", "b", "k", "n", "v", "z", "nextval", "iffy", "exits", "inx", "truey", "nulls", "matchx", "printx", "returns", "function_", "iss", "BEGINx", "elsee", "unknownx", "breaker", "is_"}

// names that mean something outside the case: what a read finds there
func c19Outer(wrapped bool) map[string]interface{} {
	m := map[string]interface{}{"gl": "G", "gn": float64(42), "f": c19Fn{}, "printf": c19Native{}, "json": c19Native{}, "num": c19Native{}}
	if wrapped {
		m["pa"] = "A"
		m["pb"] = float64(7)
	}
	return m
}

func c19PrettyOuter(v interface{}) string {
	if _, ok := v.(c19Native); ok {
		return "<nativefunction>"
	}
	return c19Pretty(v, false)
}

func (g *c19Gen) value(depth int) interface{} {
	k := g.r.Intn(12)
	if depth >= 2 && k >= 7 {
		k = g.r.Intn(7)
	}
	switch {
	case k < 3:
		return pick(g.r, []interface{}{float64(0), float64(1), float64(2), 2.5, float64(10), float64(-3)})
	case k < 5:
		return pick(g.r, []interface{}{"", "1", "a", "abc", "x y", "10"})
	case k < 6:
		return pick(g.r, []interface{}{true, false})
	case k < 7:
		return nil
	case k < 11:
		n := g.r.Intn(5)
		a := make([]interface{}, n)
		for i := range a {
			a[i] = g.value(depth + 1)
		}
		return a
	}
	if chance(g.r, 0.5) {
		return map[string]interface{}{}
	}
	return map[string]interface{}{"a": g.value(depth + 1)}
}

var c19BadPats = []string{"zz + 1", "{a: 1}", "f(1)", "-1", "!zz", "zz.b", "(1 + 1)", "zz[0]", "zz = 1"}

func (g *c19Gen) litFor(v interface{}) (c19Lit, bool) {
	switch x := v.(type) {
	case nil:
		return c19Lit{"null", nil, false}, true
	case bool:
		return c19Lit{fmt.Sprint(x), x, false}, true
	case float64:
		if x >= 0 {
			return c19Lit{numLit(x), x, false}, true
		}
	case string:
		l, ok := strLit(g.r, x)
		return c19Lit{l, x, false}, ok
	}
	return c19Lit{}, false
}

// pattern derived from the value so that it matches, then perturbed with some probability
func (g *c19Gen) pattern(v interface{}, depth int, pNoise float64) *c19Pat {
	if chance(g.r, pNoise*0.1) {
		return &c19Pat{kind: "bad", text: pick(g.r, c19BadPats)}
	}
	if chance(g.r, pNoise) {
		// unrelated pattern
		k := g.r.Intn(3)
		if k == 0 && c19IsContainer(v) && chance(g.r, 0.8) {
			k = 1 // a literal against a container is a runtime error: keep those rarer
		}
		switch k {
		case 0:
			return &c19Pat{kind: "lit", lit: pick(g.r, c19Lits[:len(c19Lits)-1])}
		case 1:
			n := g.r.Intn(4)
			p := &c19Pat{kind: "arr"}
			for i := 0; i < n; i++ {
				p.items = append(p.items, g.pattern(nil, depth+1, 1))
			}
			return p
		}
	}
	ident := func() *c19Pat {
		if g.pool && chance(g.r, 0.45) {
			names := append([]string{}, c19OddNames...)
			names = append(names, "gl", "gn", "gl", "gn")
			if g.wrapped {
				names = append(names, "pa", "pb", "pa", "pb")
			}
			if g.fnOK {
				names = append(names, "f", "f", "printf", "printf", "json", "num")
			}
			return &c19Pat{kind: "ident", name: pick(g.r, names)}
		}
		g.nname++
		name := fmt.Sprintf("x%d", g.nname)
		if g.nname > 1 && chance(g.r, 0.12) {
			name = fmt.Sprintf("x%d", 1+g.r.Intn(g.nname-1)) // a duplicate name: the later binding wins
		}
		return &c19Pat{kind: "ident", name: name}
	}
	if arr, ok := v.([]interface{}); ok && depth < 3 && chance(g.r, 0.75) {
		p := &c19Pat{kind: "arr"}
		for _, e := range arr {
			p.items = append(p.items, g.pattern(e, depth+1, pNoise*0.5))
		}
		if chance(g.r, pNoise) { // wrong length
			if len(p.items) > 0 && chance(g.r, 0.5) {
				p.items = p.items[:len(p.items)-1]
			} else {
				p.items = append(p.items, ident())
			}
		}
		return p
	}
	if l, ok := g.litFor(v); ok && chance(g.r, 0.5) {
		return &c19Pat{kind: "lit", lit: l}
	}
	return ident()
}

func c19Structured(r *rand.Rand, emit func(Case)) {
	g := &c19Gen{r: r, pool: true, wrapped: chance(r, 0.3)}
	outer := c19Outer(g.wrapped)
	subj := g.value(0)
	if chance(r, 0.06) {
		subj = c19Unset{}
	} else if chance(r, 0.06) {
		subj = []interface{}{c19Unset{}, float64(1)} // an array literal keeps an unset element unset
	}
	stext, ok := c19Expr(subj)
	if !ok {
		return
	}
	ncase := r.Intn(6)
	type kase struct {
		pats   []*c19Pat
		block  bool
		assign string
		show   []string
		all    bool // expression body: an array of every name instead of the last name
	}
	var cases []kase
	target := r.Intn(ncase + 1) // the case meant to match (ncase: none); earlier ones are perturbed heavily
	for i := 0; i < ncase; i++ {
		var k kase
		noise := []float64{0.05, 0.3, 0.7, 1}[r.Intn(4)]
		if i < target {
			noise = []float64{0.6, 0.8, 1}[r.Intn(3)]
		} else if i == target {
			noise = 0.05
		}
		m := 1 + r.Intn(3)
		// a name of ANOTHER alternative is read from outside the case; function values
		// cannot be copied into r, so their names only appear where every name is bound
		g.fnOK = m == 1
		for j := 0; j < m; j++ {
			k.pats = append(k.pats, g.pattern(subj, 0, noise))
		}
		names := map[string]bool{}
		for _, p := range k.pats {
			p.names(names)
		}
		for n := range names {
			k.show = append(k.show, n)
		}
		sort.Strings(k.show)
		k.block = chance(r, 0.5)
		k.all = len(k.show) > 1 && chance(r, 0.6)
		if k.block && len(k.show) > 0 && chance(r, 0.4) {
			k.assign = pick(r, k.show)
		}
		cases = append(cases, k)
	}
	// the reference
	selected, failed := -1, false
	var bind map[string][]int
outer:
	for i, k := range cases {
		for _, p := range k.pats {
			b := map[string][]int{}
			switch c19Match(p, subj, nil, b) {
			case -1:
				failed = true
				break outer
			case 1:
				selected, bind = i, b
				break outer
			}
		}
	}
	inDoc := false
	var files []File
	var sb strings.Builder
	sb.WriteString("function f(a) { return a }\n")
	head, tail := "BEGIN {\n", "}\n"
	if js, ok := c19JSON(subj); ok && chance(r, 0.35) {
		inDoc = true
		files = []File{{Name: "in.json", Data: []byte(`{"s": ` + js + `}`)}}
		head = "{\n"
	}
	if g.wrapped {
		// the match sits in a function whose parameters are pattern names too
		tail = "}\n" + head + "  gl = \"G\"; gn = 42\n  w(\"A\", 7)\n}\n"
		head = "function w(pa, pb) {\n"
	} else {
		head += "  gl = \"G\"; gn = 42\n"
	}
	sb.WriteString(head)
	if inDoc {
		sb.WriteString("  s = $.s\n")
	} else if _, u := subj.(c19Unset); u {
		stext = "s"
	} else {
		sb.WriteString("  s = " + stext + "\n")
	}
	sb.WriteString("  r = match (s) {\n")
	allNames := map[string]bool{}
	for i, k := range cases {
		texts := make([]string, len(k.pats))
		for j, p := range k.pats {
			texts[j] = p.render()
		}
		for _, n := range k.show {
			allNames[n] = true
		}
		if k.block {
			fmt.Fprintf(&sb, "    %s => {\n      print %s\n", strings.Join(texts, ", "), strings.Join(append([]string{fmt.Sprintf("\"b%d\"", i)}, k.show...), ", "))
			if k.assign != "" {
				fmt.Fprintf(&sb, "      %s = \"W\"\n", k.assign)
			}
			sb.WriteString("    }")
		} else if k.all {
			fmt.Fprintf(&sb, "    %s => [%s]", strings.Join(texts, ", "), strings.Join(k.show, ", "))
		} else if len(k.show) > 0 {
			fmt.Fprintf(&sb, "    %s => %s", strings.Join(texts, ", "), k.show[len(k.show)-1])
		} else {
			fmt.Fprintf(&sb, "    %s => \"v%d\"", strings.Join(texts, ", "), i)
		}
		if i < len(cases)-1 && (!k.block || chance(r, 0.5)) {
			sb.WriteString(",")
		}
		sb.WriteString("\n")
	}
	sb.WriteString("  }\n  print \"r\", r\n  print \"s\", s\n")
	var nl []string
	for n := range allNames {
		nl = append(nl, n)
	}
	sort.Strings(nl)
	if len(nl) > 0 {
		// after the match every name is what it was outside: unbound, or the global /
		// parameter / function / builtin of that name
		parts := make([]string, len(nl))
		for i, n := range nl {
			if _, has := outer[n]; has {
				parts[i] = n
			} else {
				parts[i] = n + " is unknown"
			}
		}
		sb.WriteString("  print " + strings.Join(parts, ", ") + "\n")
	}
	sb.WriteString(tail)
	prog := sb.String()

	var want strings.Builder
	wantClass := "ok"
	after := subj
	switch {
	case failed:
		wantClass = "runtime"
	case selected < 0:
		want.WriteString("r null\n")
	default:
		k := cases[selected]
		val := func(n string) interface{} {
			if p, ok := bind[n]; ok {
				return c19At(subj, p)
			}
			if v, has := outer[n]; has {
				return v // a name of another alternative that means something outside the case
			}
			return c19Unset{} // a name of another alternative: created unset in the match frame
		}
		if k.block {
			line := fmt.Sprintf("b%d", selected)
			for _, n := range k.show {
				line += " " + c19Pretty(val(n), false)
			}
			want.WriteString(line + "\nr null\n")
			if k.assign != "" {
				if p, ok := bind[k.assign]; ok {
					after = c19Replace(subj, p, "W") // the name is the subject's (element's) own cell
				} else if _, has := outer[k.assign]; has {
					outer[k.assign] = "W" // not bound by the alternative that matched: the outer variable is assigned
				}
			}
		} else if k.all {
			vs := make([]interface{}, len(k.show))
			for i, n := range k.show {
				vs[i] = val(n)
			}
			want.WriteString("r " + c19Pretty(vs, false) + "\n")
		} else if len(k.show) > 0 {
			want.WriteString("r " + c19Pretty(val(k.show[len(k.show)-1]), false) + "\n")
		} else {
			fmt.Fprintf(&want, "r v%d\n", selected)
		}
	}
	if !failed {
		want.WriteString("s " + c19Pretty(after, false) + "\n")
		if len(nl) > 0 {
			parts := make([]string, len(nl))
			for i, n := range nl {
				parts[i] = "true"
				if v, has := outer[n]; has {
					parts[i] = c19PrettyOuter(v)
				}
			}
			want.WriteString(strings.Join(parts, " ") + "\n")
		}
	}
	emit(Case{Req: RunReq(prog, nil, files, false), Fields: []string{"class", "out"},
		Meta:       metaProg(prog, "subject", stext, "expected", fmt.Sprintf("case %d of %d, class %s", selected, ncase, wantClass)),
		Oracle:     c19Oracle(want.String(), wantClass),
		NonTrivial: func(i Resp) bool { return i["class"] == "ok" || i["class"] == "runtime" }})
}

func c19JSON(v interface{}) (string, bool) {
	switch x := v.(type) {
	case nil:
		return "null", true
	case bool:
		return fmt.Sprint(x), true
	case float64:
		if math.IsNaN(x) || math.IsInf(x, 0) {
			return "", false
		}
		return strconv.FormatFloat(x, 'g', -1, 64), true
	case string:
		return jsonString(x), true
	case []interface{}:
		parts := make([]string, len(x))
		for i, e := range x {
			p, ok := c19JSON(e)
			if !ok {
				return "", false
			}
			parts[i] = p
		}
		return "[" + strings.Join(parts, ",") + "]", true
	case map[string]interface{}:
		var parts []string
		for k, e := range x {
			p, ok := c19JSON(e)
			if !ok {
				return "", false
			}
			parts = append(parts, jsonString(k)+":"+p)
		}
		sort.Strings(parts)
		return "{" + strings.Join(parts, ",") + "}", true
	}
	return "", false
}

// ---------------------------------------------------------------- subjects with side effects

// the program state the side-effecting subjects work on
type c19St struct {
	i, x, cnt, k float64
	s            string
	arr, lg      []interface{}
	out          strings.Builder // what the program has printed so far
}

func (st *c19St) clone() *c19St {
	c := &c19St{i: st.i, x: st.x, cnt: st.cnt, k: st.k, s: st.s}
	c.arr = append([]interface{}{}, st.arr...)
	c.lg = append([]interface{}{}, st.lg...)
	c.out.WriteString(st.out.String())
	return c
}

func (st *c19St) show() string {
	return fmt.Sprintf("st %s %s %s %s %s %s %s\n", c19Pretty(st.i, false), c19Pretty(st.x, false), c19Pretty(st.cnt, false), c19Pretty(st.k, false),
		st.s, c19Pretty(st.arr, false), c19Pretty(st.lg, false))
}

const c19SEFuncs = "function bump() { cnt = cnt + 1; return cnt }\n" +
	"function tr(v) { print \"eval\", v\n return v }\n" +
	"function psh(v) { lg.push(v); return v }\n"
const c19SEShow = "print \"st\", i, x, cnt, k, s, arr, lg\n"

// a subject expression and what ONE evaluation of it does to the state and yields
type c19SESubj struct {
	text string
	eval func(st *c19St) interface{}
}

func (st *c19St) bump() float64 { st.cnt++; return st.cnt }
func (st *c19St) tr(v interface{}) interface{} {
	st.out.WriteString("eval " + c19Pretty(v, false) + "\n")
	return v
}

func c19SESubject(r *rand.Rand) c19SESubj {
	type cv struct {
		text string
		val  interface{}
	}
	consts := []cv{{"0", float64(0)}, {"1", float64(1)}, {"2.5", 2.5}, {`"a"`, "a"}, {`"1"`, "1"}, {"null", nil}, {"true", true},
		{"[1, 2]", []interface{}{float64(1), float64(2)}}, {"[]", []interface{}{}}, {`[[0], "b"]`, []interface{}{[]interface{}{float64(0)}, "b"}}}
	c := pick(r, consts)
	q := []interface{}{float64(5), float64(6), float64(7)}
	inner := func(v float64) interface{} {
		switch v {
		case 0:
			return "a"
		case 1:
			return "b"
		}
		return "c"
	}
	all := []c19SESubj{
		{"i++", func(st *c19St) interface{} { st.i++; return st.i - 1 }},
		{"++i", func(st *c19St) interface{} { st.i++; return st.i }},
		{"i--", func(st *c19St) interface{} { st.i--; return st.i + 1 }},
		{"--i", func(st *c19St) interface{} { st.i--; return st.i }},
		{"i = i + 1", func(st *c19St) interface{} { st.i++; return st.i }},
		{"x += 1", func(st *c19St) interface{} { st.x++; return st.x }},
		{"x -= 2", func(st *c19St) interface{} { st.x -= 2; return st.x }},
		{"x *= 2", func(st *c19St) interface{} { st.x *= 2; return st.x }},
		{"x = x + i++", func(st *c19St) interface{} { st.x += st.i; st.i++; return st.x }},
		{"bump()", func(st *c19St) interface{} { return st.bump() }},
		{"bump() + bump()", func(st *c19St) interface{} { a := st.bump(); return a + st.bump() }},
		{"tr(" + c.text + ")", func(st *c19St) interface{} { return st.tr(c.val) }},
		{"psh(" + c.text + ")", func(st *c19St) interface{} { st.lg = append(st.lg, c.val); return c.val }},
		{"tr(i++)", func(st *c19St) interface{} { st.i++; return st.tr(st.i - 1) }},
		{"tr(bump())", func(st *c19St) interface{} { return st.tr(st.bump()) }},
		{"psh(tr(++i))", func(st *c19St) interface{} { st.i++; st.tr(st.i); st.lg = append(st.lg, st.i); return st.i }},
		{"[i++, i++]", func(st *c19St) interface{} { st.i += 2; return []interface{}{st.i - 2, st.i - 1} }},
		{"[bump(), " + c.text + "]", func(st *c19St) interface{} { return []interface{}{st.bump(), c.val} }},
		{"[tr(1), [i++]]", func(st *c19St) interface{} {
			st.tr(float64(1))
			st.i++
			return []interface{}{float64(1), []interface{}{st.i - 1}}
		}},
		{"q[k++]", func(st *c19St) interface{} {
			st.k++
			if int(st.k-1) < len(q) {
				return q[int(st.k-1)]
			}
			return nil
		}},
		{"[q[k++], 0]", func(st *c19St) interface{} {
			st.k++
			if int(st.k-1) < len(q) {
				return []interface{}{q[int(st.k-1)], float64(0)}
			}
			return []interface{}{nil, float64(0)}
		}},
		{"arr.pop()", func(st *c19St) interface{} {
			if len(st.arr) == 0 {
				return nil
			}
			v := st.arr[len(st.arr)-1]
			st.arr = st.arr[:len(st.arr)-1]
			return v
		}},
		{"arr.popfirst()", func(st *c19St) interface{} {
			if len(st.arr) == 0 {
				return nil
			}
			v := st.arr[0]
			st.arr = append([]interface{}{}, st.arr[1:]...)
			return v
		}},
		{"s = s + \"x\"", func(st *c19St) interface{} { st.s += "x"; return st.s }},
		{"match (i++) { 0 => \"a\", 1 => \"b\", z => \"c\" }", func(st *c19St) interface{} { st.i++; return inner(st.i - 1) }},
		{"match (tr(i)) { 0 => bump(), z => z + bump() }", func(st *c19St) interface{} {
			st.tr(st.i)
			if st.i == 0 {
				return st.bump()
			}
			return st.i + st.bump()
		}},
		{"match ([i++, bump()]) { [0, c] => c, [a, c] => { i = i + 10 } }", func(st *c19St) interface{} {
			st.i++
			c := st.bump()
			if st.i-1 == 0 {
				return c
			}
			st.i += 10
			return nil
		}},
	}
	return pick(r, all)
}

// patFor: a pattern that matches v (literals where v can be written as one and
// lits is wanted, else names)
func (g *c19Gen) patFor(v interface{}, lits float64, depth int) *c19Pat {
	if arr, ok := v.([]interface{}); ok && depth < 3 && chance(g.r, 0.5+lits/2) {
		p := &c19Pat{kind: "arr"}
		for _, e := range arr {
			p.items = append(p.items, g.patFor(e, lits, depth+1))
		}
		return p
	}
	if l, ok := g.litFor(v); ok && chance(g.r, lits) {
		return &c19Pat{kind: "lit", lit: l}
	}
	g.nname++
	return &c19Pat{kind: "ident", name: fmt.Sprintf("p%d", g.nname)}
}

// noMatch: a pattern that does not match v and does not fail on it, preferably
// one that matches what the subject would yield if it were evaluated again
func (g *c19Gen) noMatch(v interface{}, decoys []interface{}) *c19Pat {
	for tries := 0; tries < 30; tries++ {
		var p *c19Pat
		switch g.r.Intn(6) {
		case 0, 1, 2:
			p = g.patFor(pick(g.r, decoys), 1, 0)
		case 3:
			switch x := v.(type) {
			case float64:
				p = g.patFor(x+float64(1+g.r.Intn(3)), 1, 0)
			case []interface{}:
				p = g.patFor(append(append([]interface{}{}, x...), nil), 0.5, 0) // one element too many
			default:
				p = &c19Pat{kind: "lit", lit: pick(g.r, c19Lits[:len(c19Lits)-2])}
			}
		case 4:
			p = &c19Pat{kind: "lit", lit: pick(g.r, c19Lits[:len(c19Lits)-2])}
		default:
			p = &c19Pat{kind: "arr"}
			for n := g.r.Intn(3); n > 0; n-- {
				p.items = append(p.items, g.patFor(pick(g.r, decoys), 0.5, 1))
			}
		}
		if c19Match(p, v, nil, map[string][]int{}) == 0 {
			return p
		}
	}
	p := &c19Pat{kind: "arr"} // five elements: longer than any subject of this family
	for n := 0; n < 5; n++ {
		p.items = append(p.items, g.patFor(nil, 0, 1))
	}
	return p
}

func c19SideEffects(r *rand.Rand, emit func(Case)) {
	g := &c19Gen{r: r}
	st := &c19St{i: pick(r, []float64{0, 0, 1, 2, 5}), x: pick(r, []float64{0, 1, 3}), cnt: pick(r, []float64{0, 0, 1}), k: pick(r, []float64{0, 0, 1}),
		s: pick(r, []string{"", "a"}), arr: []interface{}{float64(1), float64(2), float64(3), "z"}[:1+r.Intn(4)], lg: []interface{}{}}
	init := fmt.Sprintf("i = %v; x = %v; cnt = %v; k = %v; s = %s; arr = %s; lg = []; q = [5, 6, 7]\n", st.i, st.x, st.cnt, st.k, mustStrLit(st.s), c19Pretty(st.arr, true))
	subj := c19SESubject(r)
	// the value of the one evaluation, and what a second and a third evaluation would give
	s1 := st.clone()
	v := subj.eval(s1)
	s2 := s1.clone()
	d1 := subj.eval(s2)
	d2 := subj.eval(s2.clone())
	decoys := []interface{}{d1, d1, d2}
	if chance(r, 0.3) {
		decoys = append(decoys, subj.eval(st.clone())) // the value itself: forces other ways of not matching
	}

	type kase struct {
		pats  []*c19Pat
		body  int // 0 constant, 1 the state, 2 a bound name, 3 block printing state and names, 4 a call with a side effect
		show  []string
		never bool // holds a pattern that is not allowed / fails when tried: placed after the selected case only
	}
	ncase := r.Intn(6)
	target := ncase // == ncase: no case matches
	if ncase > 0 && chance(r, 0.8) {
		target = r.Intn(ncase)
	}
	cases := make([]kase, ncase)
	for j := range cases {
		k := &cases[j]
		m := 1 + r.Intn(3)
		hit := -1
		if j == target {
			hit = r.Intn(m)
		}
		for a := 0; a < m; a++ {
			switch {
			case a == hit:
				k.pats = append(k.pats, g.patFor(v, 0.7, 0))
			case j > target && chance(r, 0.5):
				// after the selected case anything goes: never looked at
				switch r.Intn(4) {
				case 0:
					k.pats = append(k.pats, &c19Pat{kind: "bad", text: pick(r, c19BadPats)})
					k.never = true
				case 1:
					k.pats = append(k.pats, &c19Pat{kind: "lit", lit: c19Lits[len(c19Lits)-1]})
					k.never = true
				default:
					k.pats = append(k.pats, g.patFor(pick(r, []interface{}{v, d1, d2}), 0.6, 0))
				}
			default:
				k.pats = append(k.pats, g.noMatch(v, decoys))
			}
		}
		names := map[string]bool{}
		for _, p := range k.pats {
			p.names(names)
		}
		for n := range names {
			k.show = append(k.show, n)
		}
		sort.Strings(k.show)
		k.body = r.Intn(5)
		if k.body == 2 && len(k.show) == 0 {
			k.body = 1
		}
	}

	// program text
	var sb strings.Builder
	sb.WriteString(c19SEFuncs)
	var mt strings.Builder
	mt.WriteString("match (" + subj.text + ") {\n")
	for j, k := range cases {
		texts := make([]string, len(k.pats))
		for a, p := range k.pats {
			texts[a] = p.render()
		}
		head := "    " + strings.Join(texts, ", ") + " => "
		switch k.body {
		case 0:
			fmt.Fprintf(&mt, "%s\"v%d\"", head, j)
		case 1:
			mt.WriteString(head + "[i, x, cnt, k]")
		case 2:
			mt.WriteString(head + k.show[len(k.show)-1])
		case 3:
			fmt.Fprintf(&mt, "%s{ print %s }", head, strings.Join(append([]string{fmt.Sprintf("\"b%d\"", j), "i", "x", "cnt", "k"}, k.show...), ", "))
		default:
			mt.WriteString(head + "bump()")
		}
		if j < len(cases)-1 && (k.body != 3 || chance(r, 0.5)) {
			mt.WriteString(",")
		}
		mt.WriteString("\n")
	}
	mt.WriteString("  }\n")
	nrec := 1
	where := r.Intn(4)
	var files []File
	switch where {
	case 0: // directly in BEGIN
		sb.WriteString("BEGIN {\n  " + init + "  r = " + mt.String() + "  print \"r\", r\n  " + c19SEShow + "}\n")
	case 1: // inside a function
		sb.WriteString("function sel() {\n  return " + mt.String() + "}\nBEGIN {\n  " + init + "  r = sel()\n  print \"r\", r\n  " + c19SEShow + "}\n")
	case 2: // as a statement of its own
		sb.WriteString("BEGIN {\n  " + init + "  " + mt.String() + "  " + c19SEShow + "}\n")
	default: // once per record, the state carrying over
		nrec = 2 + r.Intn(3)
		files = []File{{Name: "in.json", Data: []byte("[" + strings.TrimSuffix(strings.Repeat("0,", nrec), ",") + "]")}}
		sb.WriteString("BEGIN { " + strings.TrimSuffix(init, "\n") + " }\n{\n  r = " + mt.String() + "  print \"r\", r\n  " + c19SEShow + "}\n")
	}
	prog := sb.String()

	// the reference: per evaluation of the match ONE evaluation of the subject, then the first case, in
	// source order, one of whose alternatives (in order) matches that value
	cur := st.clone()
	wantClass := "ok"
	firstSel := -2
	for rec := 0; rec < nrec && wantClass == "ok"; rec++ {
		val := subj.eval(cur)
		selected := -1
		var bind map[string][]int
	sel:
		for j, k := range cases {
			for _, p := range k.pats {
				b := map[string][]int{}
				switch c19Match(p, val, nil, b) {
				case -1:
					wantClass = "runtime"
					break sel
				case 1:
					selected, bind = j, b
					break sel
				}
			}
		}
		if rec == 0 {
			firstSel = selected
		}
		if wantClass != "ok" {
			break
		}
		var res interface{}
		if selected >= 0 {
			k := cases[selected]
			name := func(n string) interface{} {
				if p, ok := bind[n]; ok {
					return c19At(val, p)
				}
				return c19Unset{}
			}
			switch k.body {
			case 0:
				res = fmt.Sprintf("v%d", selected)
			case 1:
				res = []interface{}{cur.i, cur.x, cur.cnt, cur.k}
			case 2:
				res = name(k.show[len(k.show)-1])
			case 3:
				line := fmt.Sprintf("b%d %s %s %s %s", selected, c19Pretty(cur.i, false), c19Pretty(cur.x, false), c19Pretty(cur.cnt, false), c19Pretty(cur.k, false))
				for _, n := range k.show {
					line += " " + c19Pretty(name(n), false)
				}
				cur.out.WriteString(line + "\n")
			default:
				res = cur.bump()
			}
		}
		if where != 2 {
			cur.out.WriteString("r " + c19Pretty(res, false) + "\n")
		}
		cur.out.WriteString(cur.show())
	}
	want := cur.out.String()
	base := c19Oracle(want, wantClass)
	emit(Case{Req: RunReq(prog, nil, files, false), Fields: []string{"class", "out"},
		Meta: metaProg(prog, "subject", subj.text, "row", "subject "+subj.text, "col", fmt.Sprintf("selected %s of %d", c19Ordinal(firstSel, ncase), ncase),
			"expected", fmt.Sprintf("first evaluation: value %s, case %d of %d; class %s", c19Pretty(v, true), firstSel, ncase, wantClass)),
		Oracle: func(i Resp) string {
			if w := base(i); w != "" {
				return "the subject is evaluated exactly once per match and the first matching case wins: " + w
			}
			return ""
		},
		NonTrivial: func(i Resp) bool { return i["class"] == "ok" || i["class"] == "runtime" }})
}

func c19Ordinal(sel, n int) string {
	switch {
	case sel == -2:
		return "error"
	case sel < 0:
		return "none"
	case sel == n-1 && n > 1:
		return "last"
	}
	return fmt.Sprint(sel + 1)
}

// ---------------------------------------------------------------- bindings across re-entry
//
// "the bindings are visible in that case's body" -- also after the body has called a
// function that runs the SAME match expression again (recursion), one or several times,
// directly or through another function's match. Every program here is a recursive
// function whose match case body uses its own bindings AFTER the recursive call(s)
// returned; the expected output is computed in Go from the closed form / a direct
// evaluation of the recurrence.

// a binary tree as jqawk sees it: [] or [left, value, right]
type c19Tree struct {
	l, r *c19Tree
	v    interface{} // float64 or string
}

func c19TreeText(t *c19Tree, json bool) string {
	if t == nil {
		return "[]"
	}
	v := ""
	switch x := t.v.(type) {
	case float64:
		v = strconv.FormatFloat(x, 'f', -1, 64)
	case string:
		v = `"` + x + `"`
	}
	sep := ", "
	if json {
		sep = ","
	}
	return "[" + c19TreeText(t.l, json) + sep + v + sep + c19TreeText(t.r, json) + "]"
}

// c19RandTree: shape 0 = random (depth <= 6), 1 = left spine, 2 = right spine, 3 = zigzag (depth as given, up to 50)
func c19RandTree(r *rand.Rand, shape, depth int, strs bool) *c19Tree {
	val := func() interface{} {
		if strs && chance(r, 0.4) {
			return pick(r, []string{"a", "b", "x y", "é", "", "10"})
		}
		return float64(r.Intn(100))
	}
	var build func(d, side int) *c19Tree
	build = func(d, side int) *c19Tree {
		if d <= 0 {
			return nil
		}
		t := &c19Tree{v: val()}
		switch shape {
		case 0:
			if chance(r, 0.75) {
				t.l = build(d-1, 0)
			}
			if chance(r, 0.75) {
				t.r = build(d-1, 0)
			}
		case 1:
			t.l = build(d-1, 0)
		case 2:
			t.r = build(d-1, 0)
		default:
			if side == 0 {
				t.l = build(d-1, 1)
			} else {
				t.r = build(d-1, 0)
			}
		}
		return t
	}
	return build(depth, 0)
}

type c19Fold struct {
	name string
	base string // value of the empty tree, as program text
	body string // L V R = the bindings, F = the function
	eval func(t *c19Tree) interface{}
	strs bool // string values allowed
	big  bool // the value grows exponentially with the depth
}

func c19FoldNum(f func(l, v, r float64) float64) func(t *c19Tree) interface{} {
	var ev func(t *c19Tree) float64
	ev = func(t *c19Tree) float64 {
		if t == nil {
			return 0
		}
		return f(ev(t.l), t.v.(float64), ev(t.r))
	}
	return func(t *c19Tree) interface{} { return ev(t) }
}

func c19InOrder(t *c19Tree, open, close string) string {
	if t == nil {
		return ""
	}
	return c19InOrder(t.l, open, close) + open + c19Pretty(t.v, false) + close + c19InOrder(t.r, open, close)
}

var c19Folds = []c19Fold{
	{"sum l v r", "0", "F(L) + V + F(R)", c19FoldNum(func(l, v, r float64) float64 { return l + v + r }), false, false},
	{"sum l r v", "0", "F(L) + F(R) + V", c19FoldNum(func(l, v, r float64) float64 { return l + v + r }), false, false},
	{"sum r v l", "0", "F(R) + V + F(L)", c19FoldNum(func(l, v, r float64) float64 { return l + v + r }), false, false},
	{"sum v first", "0", "V + F(L) + F(R)", c19FoldNum(func(l, v, r float64) float64 { return l + v + r }), false, false},
	{"value before and after", "0", "V + F(L) + V + F(R) + V", c19FoldNum(func(l, v, r float64) float64 { return l + 3*v + r }), false, false},
	{"weighted", "0", "F(L) * 3 + V + F(R) * 7", c19FoldNum(func(l, v, r float64) float64 { return l*3 + v + r*7 }), false, true},
	{"count", "0", "F(L) + 1 + F(R)", func(t *c19Tree) interface{} {
		var ev func(t *c19Tree) float64
		ev = func(t *c19Tree) float64 {
			if t == nil {
				return 0
			}
			return ev(t.l) + 1 + ev(t.r)
		}
		return ev(t)
	}, true, false},
	{"left only, right used after", "0", "F(L) + V + R.length()", func(t *c19Tree) interface{} {
		var ev func(t *c19Tree) float64
		ev = func(t *c19Tree) float64 {
			if t == nil {
				return 0
			}
			n := 0.0
			if t.r != nil {
				n = 3
			}
			return ev(t.l) + t.v.(float64) + n
		}
		return ev(t)
	}, false, false},
	{"in-order string", `""`, `F(L) + "(" + V + ")" + F(R)`, func(t *c19Tree) interface{} { return c19InOrder(t, "(", ")") }, true, false},
	{"in-order string, nested match in the body", `""`, `match (V) { w => F(L) + "<" + w + V + ">" + F(R) }`, func(t *c19Tree) interface{} {
		var ev func(t *c19Tree) string
		ev = func(t *c19Tree) string {
			if t == nil {
				return ""
			}
			v := c19Pretty(t.v, false)
			return ev(t.l) + "<" + v + v + ">" + ev(t.r)
		}
		return ev(t)
	}, true, false},
}

var c19BindNames = [][]string{{"l", "v", "r"}, {"a", "b", "c"}, {"left", "val", "right"}, {"_l", "k", "n"}, {"x", "y", "z"}, {"t1", "nextval", "t2"}, {"p", "q", "_"}}

func c19TreeFold(r *rand.Rand, emit func(Case)) {
	fold := pick(r, c19Folds)
	names := pick(r, c19BindNames)
	fn := pick(r, []string{"f", "sum", "walk", "fold_", "g1"})
	body := strings.NewReplacer("F", fn, "L", names[0], "V", names[1], "R", names[2]).Replace(fold.body)
	pat := "[" + names[0] + ", " + names[1] + ", " + names[2] + "]"
	var cases string
	switch r.Intn(4) {
	case 0:
		cases = "[] => " + fold.base + ",\n    " + pat + " => " + body + ",\n"
	case 1:
		cases = "[] => " + fold.base + ",\n    " + pat + " => " + body + "\n"
	case 2:
		cases = pat + " => " + body + ",\n    [] => " + fold.base + "\n"
	default:
		cases = "[e1], [e1, e2] => \"never\",\n    " + pat + " => " + body + ",\n    other => " + fold.base + "\n"
	}
	funcs := "function " + fn + "(t) {\n  return match (t) {\n    " + cases + "  }\n}\n"
	if chance(r, 0.25) {
		// block body with return
		funcs = "function " + fn + "(t) {\n  match (t) {\n    " + pat + " => {\n      return " + body + "\n    }\n  }\n  return " + fold.base + "\n}\n"
	}
	ntrees := 1 + r.Intn(3)
	var trees []*c19Tree
	for i := 0; i < ntrees; i++ {
		shape, depth := r.Intn(4), r.Intn(7)
		if shape != 0 {
			depth = r.Intn(51)
			if fold.big {
				depth = r.Intn(12)
			}
		}
		trees = append(trees, c19RandTree(r, shape, depth, fold.strs))
	}
	var want strings.Builder
	for _, t := range trees {
		want.WriteString(c19Pretty(fold.eval(t), false) + "\n")
	}
	var prog string
	var files []File
	after := "  print " + names[0] + " is unknown, " + names[1] + " is unknown\n"
	switch r.Intn(3) {
	case 0: // from the document
		prog = funcs + "{\n  print " + fn + "($)\n}\nEND {\n" + after + "}\n"
		var doc []string
		for _, t := range trees {
			doc = append(doc, c19TreeText(t, true))
		}
		files = []File{{Name: "in.json", Data: []byte("[" + strings.Join(doc, ",") + "]")}}
	case 1: // literals
		prog = funcs + "BEGIN {\n"
		for _, t := range trees {
			prog += "  print " + fn + "(" + c19TreeText(t, false) + ")\n"
		}
		prog += after + "}\n"
	default: // through a variable
		prog = funcs + "BEGIN {\n"
		for i, t := range trees {
			prog += fmt.Sprintf("  tree%d = %s\n  print %s(tree%d)\n", i, c19TreeText(t, false), fn, i)
		}
		prog += after + "}\n"
	}
	want.WriteString("true true\n")
	c19EmitRec(emit, prog, files, want.String(), "tree fold: "+fold.name)
}

func c19EmitRec(emit func(Case), prog string, files []File, want, probe string) {
	emit(Case{Req: RunReq(prog, nil, files, false), Fields: []string{"class", "out"}, Meta: metaProg(prog, "probe", probe, "want", short(want), "row", strings.SplitN(probe, ":", 2)[0]),
		Oracle: c19Oracle(want, "ok"), NonTrivial: func(i Resp) bool { return i["class"] == "ok" }})
}

// recursion on a number n: the case body combines its binding with the value of the call for n - 1
type c19NumRec struct {
	name  string
	funcs string // F = function name, K = the binding
	max   int
	eval  func(n int) string
}

func c19Itoa(f float64) string { return strconv.FormatFloat(f, 'f', -1, 64) }

func c19JoinUp(n int, sep string) string {
	parts := make([]string, n+1)
	for i := range parts {
		parts[i] = fmt.Sprint(i)
	}
	return strings.Join(parts, sep)
}

var c19NumRecs = []c19NumRec{
	{"triangular, binding after the call", "function F(n) {\n  return match (n) {\n    0 => 0,\n    K => F(K - 1) + K,\n  }\n}\n", 50, func(n int) string { return fmt.Sprint(n * (n + 1) / 2) }},
	{"factorial, binding after the call", "function F(n) {\n  return match (n) {\n    0 => 1,\n    K => F(K - 1) * K\n  }\n}\n", 18, func(n int) string {
		f := 1.0
		for i := 2; i <= n; i++ {
			f *= float64(i)
		}
		return c19Itoa(f)
	}},
	{"binding before and after the call", "function F(n) {\n  return match (n) {\n    0 => 0,\n    K => K + F(K - 1) + K\n  }\n}\n", 50, func(n int) string { return fmt.Sprint(n * (n + 1)) }},
	{"binding and parameter after the call", "function F(n) {\n  return match (n) {\n    0 => 0,\n    K => F(K - 1) + K + n\n  }\n}\n", 50, func(n int) string { return fmt.Sprint(n * (n + 1)) }},
	{"joined string", "function F(n) {\n  return match (n) {\n    0 => \"0\",\n    K => F(K - 1) + \",\" + K\n  }\n}\n", 50, func(n int) string { return c19JoinUp(n, ",") }},
	{"nested string, binding on both sides", "function F(n) {\n  return match (n) {\n    0 => \"\",\n    K => K + \"<\" + F(K - 1) + \">\" + K\n  }\n}\n", 50, func(n int) string {
		s := ""
		for i := 1; i <= n; i++ {
			s = fmt.Sprint(i) + "<" + s + ">" + fmt.Sprint(i)
		}
		return s
	}},
	{"two calls, binding in the second call's argument", "function F(n) {\n  return match (n) {\n    0 => 0,\n    1 => 1,\n    K => F(K - 1) + F(K - 2)\n  }\n}\n", 15, func(n int) string {
		a, b := 0, 1
		for i := 0; i < n; i++ {
			a, b = b, a+b
		}
		return fmt.Sprint(a)
	}},
	{"two calls, then the binding", "function F(n) {\n  return match (n) {\n    0, 1 => 1,\n    K => F(K - 1) + F(K - 2) + K\n  }\n}\n", 15, func(n int) string {
		v := make([]int, n+2)
		v[0], v[1] = 1, 1
		for i := 2; i <= n; i++ {
			v[i] = v[i-1] + v[i-2] + i
		}
		return fmt.Sprint(v[n])
	}},
	{"block body, binding printed after the call", "function F(n) {\n  match (n) {\n    0 => { }\n    K => {\n      F(K - 1)\n      print \"up\", K\n    }\n  }\n  return \"done\"\n}\n", 50, func(n int) string {
		s := ""
		for i := 1; i <= n; i++ {
			s += fmt.Sprintf("up %d\n", i)
		}
		return s + "done"
	}},
	{"block body, binding printed before and after the call", "function F(n) {\n  match (n) {\n    0 => { print \"bottom\" }\n    K => {\n      print \"down\", K\n      F(K - 1)\n      print \"up\", K\n    }\n  }\n  return n\n}\n", 50, func(n int) string {
		s := ""
		for i := n; i >= 1; i-- {
			s += fmt.Sprintf("down %d\n", i)
		}
		s += "bottom\n"
		for i := 1; i <= n; i++ {
			s += fmt.Sprintf("up %d\n", i)
		}
		return s + fmt.Sprint(n)
	}},
	{"nested match in the body, both bindings after the call", "function F(n) {\n  return match (n) {\n    0 => 0,\n    K => match (K * 2) {\n      d => F(K - 1) + d - K\n    }\n  }\n}\n", 50, func(n int) string { return fmt.Sprint(n * (n + 1) / 2) }},
	{"array subject, two bindings after the call", "function F(n) {\n  return match ([n, n * 2]) {\n    [0, z] => 0,\n    [K, d] => F(K - 1) + d - K\n  }\n}\n", 50, func(n int) string { return fmt.Sprint(n * (n + 1) / 2) }},
	{"call in a loop in the body, binding after the loop", "function F(n) {\n  return match (n) {\n    0 => 1,\n    K => {\n      for (j in [1, 2]) { F(K - 1) }\n      cnt = cnt + K\n    }\n  }\n}\n", 9, nil},
	{"one function, two match expressions by parity", "function F(n) {\n  if (n % 2 == 0) return match (n) {\n    0 => 0,\n    K => F(K - 1) + K\n  }\n  return match (n) {\n    j => F(j - 1) + 3 * j\n  }\n}\n", 50, func(n int) string {
		t := 0
		for i := 1; i <= n; i++ {
			if i%2 == 0 {
				t += i
			} else {
				t += 3 * i
			}
		}
		return fmt.Sprint(t)
	}},
}

func c19NumRecursion(r *rand.Rand, emit func(Case)) {
	nr := pick(r, c19NumRecs)
	fn := pick(r, []string{"f", "fact", "rec", "g_"})
	k := pick(r, []string{"k", "x", "m", "_k", "nextval", "v"})
	funcs := strings.NewReplacer("F", fn, "K", k).Replace(nr.funcs)
	if nr.eval == nil {
		// the loop form counts in a global: sum over all activations of their binding
		n := r.Intn(nr.max + 1)
		var total func(n int) int
		total = func(n int) int {
			if n == 0 {
				return 0
			}
			return 2*total(n-1) + n
		}
		prog := funcs + "BEGIN {\n  cnt = 0\n  " + fn + fmt.Sprintf("(%d)\n  print cnt\n}\n", n)
		c19EmitRec(emit, prog, nil, fmt.Sprintf("%d\n", total(n)), "numeric recursion: "+nr.name)
		return
	}
	var ns []int
	for i, c := 0, 1+r.Intn(3); i < c; i++ {
		n := r.Intn(nr.max + 1)
		if chance(r, 0.2) {
			n = pick(r, []int{0, 1, 2, nr.max})
		}
		ns = append(ns, n)
	}
	want := ""
	for _, n := range ns {
		want += nr.eval(n) + "\n"
	}
	var prog string
	var files []File
	if chance(r, 0.4) {
		var doc []string
		for _, n := range ns {
			doc = append(doc, fmt.Sprint(n))
		}
		prog = funcs + "{\n  print " + fn + "($)\n}\nEND { print " + k + " is unknown }\n"
		files = []File{{Name: "in.json", Data: []byte("[" + strings.Join(doc, ", ") + "]")}}
	} else {
		prog = funcs + "BEGIN {\n"
		for _, n := range ns {
			prog += fmt.Sprintf("  print %s(%d)\n", fn, n)
		}
		prog += "  print " + k + " is unknown\n}\n"
	}
	c19EmitRec(emit, prog, files, want+"true\n", "numeric recursion: "+nr.name)
}

// mutual recursion through two (three) different match expressions
func c19Mutual(r *rand.Rand, emit func(Case)) {
	n := r.Intn(51)
	switch r.Intn(3) {
	case 0:
		prog := "function ev(n) {\n  return match (n) {\n    0 => \"\",\n    k => od(k - 1) + \"e\" + k\n  }\n}\nfunction od(n) {\n  return match (n) {\n    0 => \"\",\n    j => ev(j - 1) + \"o\" + j,\n  }\n}\nBEGIN { print \"[\" + ev(" + fmt.Sprint(n) + ") + \"]\" }\n"
		s := ""
		for i := 1; i <= n; i++ {
			if (n-i)%2 == 0 {
				s += "e" + fmt.Sprint(i)
			} else {
				s += "o" + fmt.Sprint(i)
			}
		}
		c19EmitRec(emit, prog, nil, "["+s+"]\n", "mutual recursion: two matches, strings")
	case 1:
		// the same binding name in both functions
		prog := "function a(n) {\n  return match (n) {\n    0 => 0,\n    k => b(k - 1) + k\n  }\n}\nfunction b(n) {\n  match (n) {\n    0 => { return 0 }\n    k => {\n      return a(k - 1) + 2 * k\n    }\n  }\n}\n{ print a($), b($) }\n"
		var fa, fb func(n int) int
		fa = func(n int) int {
			if n == 0 {
				return 0
			}
			return fb(n-1) + n
		}
		fb = func(n int) int {
			if n == 0 {
				return 0
			}
			return fa(n-1) + 2*n
		}
		m := r.Intn(51)
		c19EmitRec(emit, prog, []File{{Name: "in.json", Data: []byte(fmt.Sprintf("[%d, %d]", n, m))}}, fmt.Sprintf("%d %d\n%d %d\n", fa(n), fb(n), fa(m), fb(m)), "mutual recursion: two matches, same binding name")
	default:
		prog := "function a(n) {\n  return match (n) {\n    0 => 0,\n    x => b(x - 1) + x\n  }\n}\nfunction b(n) {\n  return match ([n]) {\n    [0] => 0,\n    [y] => c(y - 1) + 10 * y\n  }\n}\nfunction c(n) {\n  return match (n) {\n    0 => 0,\n    z => match (z) { w => a(z - 1) + 100 * w }\n  }\n}\nBEGIN { print a(" + fmt.Sprint(n) + "), x is unknown }\n"
		var f func(n, which int) int
		f = func(n, which int) int {
			if n == 0 {
				return 0
			}
			return f(n-1, (which+1)%3) + []int{1, 10, 100}[which]*n
		}
		c19EmitRec(emit, prog, nil, fmt.Sprintf("%d true\n", f(n, 0)), "mutual recursion: three matches")
	}
}

// lists cut into chunks: [] | [w] | [a, rest] | [a, b, rest] | [a, b, c, rest] | [[a, b], rest]:
// array patterns with 1-4 names, every name used after the recursive call
func c19Chunks(r *rand.Rand, emit func(Case)) {
	depth := r.Intn(51)
	text, total := "[]", 0.0
	if chance(r, 0.5) {
		w := 1 + r.Intn(9)
		text, total = fmt.Sprintf("[%d]", w), float64(w)
	}
	for i := 0; i < depth; i++ {
		a, b, c := 1+r.Intn(9), 1+r.Intn(9), 1+r.Intn(9)
		switch r.Intn(4) {
		case 0:
			text, total = fmt.Sprintf("[%d, %s]", a, text), total+float64(a)
		case 1:
			text, total = fmt.Sprintf("[%d, %d, %s]", a, b, text), total+float64(a*10+b)
		case 2:
			text, total = fmt.Sprintf("[%d, %d, %d, %s]", a, b, c, text), total+float64(a*100+b*10+c)
		default:
			text, total = fmt.Sprintf("[[%d, %d], %s]", a, b, text), total+float64(a*1000+b)
		}
	}
	cases := []string{"[] => 0", "[w] => s([]) + w", "[[p, q], rest] => s(rest) + p * 1000 + q", "[a, rest] => s(rest) + a", "[a, b, rest] => s(rest) + a * 10 + b", "[a, b, c, rest] => s(rest) + a * 100 + b * 10 + c"}
	// the nested pattern must come before [a, rest] (same length); the others in any order
	idx := []int{0, 1, 4, 5}
	r.Shuffle(len(idx), func(i, j int) { idx[i], idx[j] = idx[j], idx[i] })
	at := r.Intn(len(idx) + 1)
	var order []string
	for i, k := range idx {
		if i == at {
			order = append(order, cases[2], cases[3])
		}
		order = append(order, cases[k])
	}
	if at == len(idx) {
		order = append(order, cases[2], cases[3])
	}
	funcs := "function s(t) {\n  return match (t) {\n    " + strings.Join(order, ",\n    ") + "\n  }\n}\n"
	var prog string
	var files []File
	if chance(r, 0.5) {
		prog = funcs + "{ print s($) }\nEND { print rest is unknown, a is unknown }\n"
		files = []File{{Name: "in.json", Data: []byte("[" + text + "]")}}
	} else {
		prog = funcs + "BEGIN { print s(" + text + ")\n print rest is unknown, a is unknown }\n"
	}
	c19EmitRec(emit, prog, files, c19Itoa(total)+"\ntrue true\n", fmt.Sprintf("chunked list: array patterns with 1-4 names, %d chunks", depth))
}

// ---------------------------------------------------------------- laws

type c19Law struct{ prog, want, class string }

var c19Laws = []c19Law{
	{"BEGIN { print match (1) { } }", "null\n", "ok"},
	{"BEGIN { r = match (u) { }\n print r, u is unknown }", "null true\n", "ok"},
	{"BEGIN { print match (2) { 1 => \"a\", 2 => \"b\", 2 => \"c\", x => \"d\" } }", "b\n", "ok"},
	{"function p(v) { print \"p\", v\n return v }\nBEGIN { print match (2) { 1 => p(1), 2 => p(2), x => p(3) } }", "p 2\n2\n", "ok"},
	{"BEGIN { print match (1) { x => \"first\", 1 => 1 / 0, y + 1 => 2 } }", "first\n", "ok"},
	{"BEGIN { print \"before\"\n print match (1) { 2 => \"no\", y + 1 => 2, x => \"late\" } }", "before\n", "runtime"},
	{"BEGIN { print match ([2, 5]) { [1, x], [2, x] => x } }", "5\n", "ok"},
	{"BEGIN { print match ([1, [7, 2], 9]) { [1, [x, 2], y] => x + y } }", "16\n", "ok"},
	{"BEGIN { print match ([3, 4]) { [x, x] => x } }", "4\n", "ok"},
	{"BEGIN { x = 1\n r = match (5) { x => x + 1 }\n print r, x }", "6 1\n", "ok"},
	{"BEGIN { match (5) { q => q }\n print q is unknown }", "true\n", "ok"},
	{"BEGIN { a = [1, 2]\n match (a) { [x, y] => { x = 10 } }\n print a }", "[10, 2]\n", "ok"},
	{"BEGIN { a = 1\n match (a) { v => { v = 5 } }\n print a }", "5\n", "ok"},
	{"BEGIN { a = [1, [2, 3]]\n match (a) { [p, q] => { q[0] = 9\n q = 0 } }\n print a }", "[1, 0]\n", "ok"},
	{"BEGIN { print match (1) { 1 => { print \"block\" } }, match (1) { 1 => { } } }", "block\nnull null\n", "ok"},
	{"BEGIN { print match (\"1\") { 1 => \"num\" }, match (1) { \"1\" => \"str\" }, match (\"a\") { \"A\" => 1, \"a\" => 2 } }", "num str 2\n", "ok"},
	{"BEGIN { print match (null) { 0 => \"zero\", \"\" => \"empty\", false => \"f\", null => \"null\" } }", "null\n", "ok"},
	{"BEGIN { print match (u) { null => \"null\", 0 => \"zero\", x => \"bound\" } }", "bound\n", "ok"},
	{"BEGIN { print match ([1]) { [1, 2] => \"two\", [] => \"none\", [1] => \"one\" } }", "one\n", "ok"},
	{"BEGIN { print match ([1]) { 1 => \"scalar\" } }", "", "runtime"},
	{"BEGIN { print match ([1]) { [1], 1 => \"ok\" } }", "ok\n", "ok"},
	{"BEGIN { print match ([1]) { null => \"null\", x => \"any\" } }", "any\n", "ok"},
	{"BEGIN { print match ({a: 1}) { [x] => \"arr\", o => o.a } }", "1\n", "ok"},
	{"BEGIN { print match ([[1], 2]) { [1, x] => x } }", "", "runtime"},
	{"BEGIN { print match ([1, 2, 3]) { [x, y] => \"two\", [1, zz + 1, 3] => \"bad\" } }", "", "runtime"},
	{"BEGIN { print match ([1, 2, 3]) { [x, y] => \"two\", [2, zz + 1, 3] => \"bad\", q => \"any\" } }", "any\n", "ok"},
	{"BEGIN { print match ([1, 2]) { [zz + 1] => \"bad\", q => \"any\" } }", "any\n", "ok"},
	{"BEGIN { print match (3) { 1, 2 => \"low\", 3, 4 => \"mid\", x => \"hi\" }, match (4) { 1, 2 => \"low\", 3, 4 => \"mid\" }, match (9) { 1, 2 => \"low\", x => \"hi\" } }", "mid mid hi\n", "ok"},
	{"BEGIN { print match (match (1) { 1 => 2 }) { 2 => match (3) { 3 => \"deep\" } } }", "deep\n", "ok"},
	{"function g(v) { return match (v) { [h, t] => h + g(t), x => 0 } }\nBEGIN { print g([1, [2, [3, null]]]) }", "6\n", "ok"},
	{"BEGIN { print match (\"x\") { \"\\q\" => 1 } }", "", "runtime"},
	{"BEGIN { print match (\"x\") { \"x\" => 1, \"\\q\" => 2 } }", "1\n", "ok"},
	{"BEGIN { print match (/a/) { 0 => \"zero\" }, match (f) { 0 => \"fz\" } }\nfunction f() { }", "zero fz\n", "ok"},
	{"BEGIN { print match (1) { -1 => \"neg\" } }", "", "runtime"},
	{"BEGIN { print match (1) { (1) => \"paren\" } }", "paren\n", "ok"},
	{"BEGIN { r = match ([1, 2]) { [a, b] => [b, a] }\n print r, a is unknown }", "[2, 1] true\n", "ok"},
	{"BEGIN { for (i = 0; i < 4; i++) print match (i) { 0 => \"zero\", 1, 2 => { } n => n * 2 } }", "zero\nnull\nnull\n6\n", "ok"},
	{"{ print match ($) { [k, v] => k + \"=\" + v, s => s } }", "a=1\nplain\n{\"o\": 1}\n", "ok"},
	// the subject is evaluated once, whichever case is selected
	{"BEGIN { i = 0\n r = match (i++) { 2 => \"two\", 1 => \"one\", 0 => \"zero\", z => \"other\" }\n print r, i }", "zero 1\n", "ok"},
	{"function id() { n = n + 1; return n }\nBEGIN { n = 0\n r = match (id()) { 3 => \"third\", 2 => \"second\", 1 => \"first\" }\n print r, n }", "first 1\n", "ok"},
	{"BEGIN { q = [5, 6, 7]; k = 0\n r = match ([q[k++], 0]) { [7, z] => \"seven\", [6, z], [9, z] => \"six\", [5, z] => \"five\" }\n print r, k }", "five 1\n", "ok"},
	{"function t(v) { print \"eval\", v\n return v }\nBEGIN { print match (t(4)) { 1, 2 => \"a\", 3 => \"b\" } }", "eval 4\nnull\n", "ok"},
	{"BEGIN { i = 0\n match (i++) { }\n print i }", "1\n", "ok"},
	{"BEGIN { i = 0\n r = match (++i) { 1 => i, 2 => \"again\" }\n print r, i }", "1 1\n", "ok"},
}

func init() {
	register(Family{
		Name: "literal-cases", Prop: "C19",
		Rule: "41 subjects of all 9 kinds (as literals, through a variable, or from the document) x 0-5 cases of 1-3 literal alternatives (numbers, strings in both quotes, true/false/null, regex literal, bad escape), 40% block bodies; oracle: a reference matcher in Go (first case in source order with an alternative `==` the subject per DESIGN 3.5; unset never matches; container vs non-null literal, or a bad literal, is a runtime error only when reached; block body => null)",
		Gen: func(r *rand.Rand, tier string, emit func(Case)) {
			subjects := c19Subjects()
			for i, n := 0, tierN(tier, 6000, 80000); i < n; i++ {
				c19LiteralCases(r, subjects, emit)
			}
		},
	})
	register(Family{
		Name: "structured-patterns", Prop: "C19",
		Rule: "random subjects (scalars, arrays of length 0-4 nested to depth 3, objects, unset, unset element) x 0-5 cases of 1-3 alternatives derived from the subject and perturbed (literals, identifiers incl. duplicate names, nested array patterns, wrong lengths, unrelated patterns, not-allowed patterns); identifier NAMES are fresh (x1, x2, ...) or (45 %) drawn from a pool: _, __, _x, x_, _1, single letters, keyword lookalikes (nextval, iffy, exits, truey, nulls, matchx, BEGINx, ...), the globals gl and gn, the parameters pa and pb of the function the match sits in (30 % of the programs), and, in cases with one alternative, the function name f and the builtins printf, json, num; block bodies print EVERY name of the case, expression bodies yield one name or the array of all of them, some bodies assign to a name; afterwards the subject is printed and every name is checked: `is unknown` for names that mean nothing outside, the outer value (global, parameter, <function>, <nativefunction>, or what the body assigned to an outer variable the matching alternative did not bind) otherwise; oracle: reference matcher with binding paths",
		Gen: func(r *rand.Rand, tier string, emit func(Case)) {
			for i, n := 0, tierN(tier, 8000, 100000); i < n; i++ {
				c19Structured(r, emit)
			}
		},
	})
	register(Family{
		Name: "subject-side-effects", Prop: "C19",
		Rule: "27 subjects with a side effect (i++ ++i i-- --i, i = i + 1, x += 1, x -= 2, x *= 2, calls that bump a global counter / print a trace line / push to an array, nested calls, array literals of those, q[k++], arr.pop(), arr.popfirst(), string append, nested matches as subject) on a random initial state x 0-5 cases of 1-3 alternatives built so that the selected case is the 1st .. last or none: the alternatives before the matching one are patterns (literals, names, nested array patterns) for the values a 2nd and 3rd evaluation of the subject WOULD yield, near values, unrelated ones; after the selected case also not-allowed and failing patterns; bodies: constant, the state, a bound name, a block printing state and names, a call with a side effect; in BEGIN, inside a function, as a statement, or once per record over 2-4 records with the state carried over; afterwards r and the whole state are printed; oracle: a Go reference that evaluates the subject ONCE per match (trace lines and every side effect exactly once) and selects with the reference matcher",
		Gen: func(r *rand.Rand, tier string, emit func(Case)) {
			for i, n := 0, tierN(tier, 8000, 100000); i < n; i++ {
				c19SideEffects(r, emit)
			}
		},
	})
	register(Family{
		Name: "literal-vs-eq", Prop: "C19",
		Rule: "every subject x every literal: `S == L` and `match (S) { L => true, zz => false }` print the same value, or both fail",
		Gen: func(r *rand.Rand, tier string, emit func(Case)) {
			for _, s := range c19Subjects() {
				for _, l := range c19Lits {
					prog := "function f() { return 1 }\nBEGIN { print match (" + s.text + ") { " + l.text + " => true, zz => false }\n print " + s.text + " == " + l.text + " }\n"
					emit(Case{Req: RunReq(prog, nil, nil, false), Fields: []string{"class", "out"}, Meta: metaProg(prog),
						Oracle: func(i Resp) string {
							lines := strings.Split(strings.TrimSpace(string(i.Bytes("out"))), "\n")
							if i["class"] == "runtime" && len(lines) == 1 && lines[0] == "" {
								return "" // the match itself failed (container against a literal, bad escape): == fails likewise, checked by the model comparison
							}
							if i["class"] != "ok" || len(lines) != 2 || lines[0] != lines[1] {
								return fmt.Sprintf("match and == disagree: class %s, output %q", i["class"], lines)
							}
							return ""
						},
						NonTrivial: func(i Resp) bool { return i["class"] == "ok" || i["class"] == "runtime" }})
				}
			}
		},
	})
	register(Family{
		Name: "recursive-bindings", Prop: "C19",
		Rule: "recursive functions whose match case body calls the function again (once, twice, in a loop, through a second / third function with its own match, through a nested match) and uses its own bindings AFTER the call returned: folds over binary trees [l, v, r] (10 combinations: sums in every operand order, the value before and after, weighted 3/7 to tell l from r, count, in-order strings, a nested match in the body; expression and block bodies, [] first / last / a catch-all; random trees to depth 6, left / right / zigzag spines to depth 50; 1-3 trees from the document, as literals or through variables), recursion on a number 0..50 (triangular, factorial to 18, binding before and after, binding and parameter, joined and nested strings, Fibonacci-like double calls, block bodies printing the binding before / after the call, nested match, array subject with two bindings, calls in a loop, two match expressions in one function), mutual recursion through two and three different matches (same and different binding names), lists cut into chunks matched by array patterns with 1-4 names and a nested pattern, 0-50 chunks; binding names from 6-7 pools; afterwards the binding names must be unknown outside; oracle: closed form / direct evaluation of the recurrence in Go, exact output",
		Gen: func(r *rand.Rand, tier string, emit func(Case)) {
			for i, n := 0, tierN(tier, 500, 8000); i < n; i++ {
				c19TreeFold(r, emit)
				c19NumRecursion(r, emit)
				if i%2 == 0 {
					c19Mutual(r, emit)
					c19Chunks(r, emit)
				}
			}
		},
	})
	register(Family{
		Name: "match-laws", Prop: "C19",
		Rule: "fixed programs from the property text (first match wins, later cases not evaluated, not-allowed patterns only when reached, nested array patterns, duplicate names, aliasing of bound names, scoping of bindings, block body => null, empty case list, literal vs == corner cases) with their expected output",
		Gen: func(r *rand.Rand, tier string, emit func(Case)) {
			for _, l := range c19Laws {
				var files []File
				if strings.HasPrefix(l.prog, "{") {
					files = []File{{Name: "in.json", Data: []byte(`[["a", 1], "plain", {"o": 1}]`)}}
				}
				emit(Case{Req: RunReq(l.prog, nil, files, false), Fields: []string{"class", "out"}, Meta: metaProg(l.prog),
					Oracle: c19Oracle(l.want, l.class), NonTrivial: func(i Resp) bool { return i["class"] == "ok" || i["class"] == "runtime" }})
			}
		},
	})
}

// ---------------------------------------------------------------- a null result is a fresh null each time
//
// A match whose selected case has a block body, or that selects no case, yields null -- whatever
// the program did with the nulls earlier matches yielded. The only way to write to what a match
// yielded is to bind it (the null-yielding match as the subject of an outer match whose
// identifier pattern binds it, directly, through a function result, through the body value of
// another match, through two nested bindings) and to assign to the binding (= ++ -- += a
// container); passing it to a function that assigns to its parameter and storing it in a variable
// that is then changed are the copies that must not matter either. Afterwards, over several
// records, further null-yielding matches are printed: each must print null.

var c19NullMatches = []string{
	"match ($) { 1 => 'one', 2 => 'two' }", // no case matches (records 1 and 2 excepted)
	"match ($) { 97 => 'x' }",
	"match ($) { qq => { cnt++ } }", // block body
	"match ($) { }",
	"match ([$]) { [aa, bb] => aa }",
	"match ($) { 98, 99 => 1, [zz] => 2 }",
	"none($)",                                    // the null comes out of a function
	"match (1) { 1 => match ($) { 97 => 'x' } }", // the body value of another match
	"match ($) { qq => match (qq) { 97 => 'x' } }",
}

var c19NullWrites = []string{
	"nm = nm + '!'", "nm = 'T'", "nm++", "++nm", "nm--", "nm += 5", "nm -= 1", "nm = $", "nm = [$, 'in']", "nm = {k: 1}", "nm = true", "nm = 0",
	"match (nm) { deep => { deep = 'D' } }\n", "nm = nm", "setp(nm)\n    nm = 'after'",
}

type c19Obs struct{ stmt, want string }

var c19NullObs = []c19Obs{
	{"print 'O', match ($) { 97 => 'x' }", "O null"},
	{"print 'O', match ($) { 1 => 'one', 2 => 'two' }", "O ?"}, // ? = one / two / null by the record
	{"r = match ($) { qq => { cnt++ } }\n  print 'O', r, r is null", "O null true"},
	{"print 'O', match ($) { }", "O null"},
	{"print 'O', none($)", "O null"},
	{"print 'O', match ([$, 1]) { [aa] => aa }", "O null"},
	{"print 'O', (match ($) { 97 => 1 }) is null, (match ($) { qq => { cnt++ } }) == null", "O true true"},
	{"printf('O %v|%5v\\n', match ($) { 97 => 1 }, match ($) { qq => { cnt++ } })", "O null| null"},
	{"print 'O', json(match ($) { 97 => 1 })", "O null"},
	{"print 'O', [match ($) { 97 => 1 }, match ($) { qq => { cnt++ } }], {k: match ($) { }}", `O [null, null] {"k": null}`},
	{"print 'O', match (match ($) { 97 => 1 }) { null => 'was null', other => other }", "O was null"},
	{"print 'O', blk($), match ($) { 96 => 0 }", "O null null"},
	{"w = match ($) { 97 => 1 }\n  print 'O', w, w is null, w is unknown", "O null true false"},
}

func c19NullResultCase(r *rand.Rand) Case {
	nrec := 2 + r.Intn(4)
	recs := make([]int, nrec)
	for i := range recs {
		recs[i] = pick(r, []int{1, 2, 3, 3, 4, 5, 5, 6, 7})
	}
	if chance(r, 0.7) {
		recs[0] = 3 + r.Intn(4) // the first record yields a null to write to
	}
	funcs := "function none(v) { return match (v) { 97 => 'x' } }\nfunction blk(v) { return match (v) { qq => { cnt++ } } }\nfunction setp(p) { p = 'P'; p++; return p }\n"
	// the writes
	var wr strings.Builder
	nw := 1 + r.Intn(3)
	for k := 0; k < nw; k++ {
		m := pick(r, c19NullMatches)
		switch x := r.Intn(10); {
		case x < 6:
			w := pick(r, c19NullWrites)
			wr.WriteString("  match (" + m + ") { nm => {\n    " + w + "\n    print 'T', nm\n  } }\n\n")
		case x < 7:
			// two bindings of the same result, both assigned
			w := pick(r, c19NullWrites)
			if strings.HasPrefix(w, "++") {
				w = "nm *= 3" // a line that starts with ++ would continue the match expression before it
			}
			wr.WriteString("  match (" + m + ") { nm => {\n    match (nm) { inner => { inner = 'I'; print 'T', inner, nm } }\n\n    " + w + "\n    print 'T', nm\n  } }\n\n")
		case x < 8:
			// a copy passed to a function that assigns to its parameter
			wr.WriteString("  print 'T', setp(" + m + ")\n")
		case x < 9:
			// a copy stored in a variable that is changed afterwards
			wr.WriteString("  st = " + m + "\n  st" + pick(r, []string{"++", " += 2", " = 'S'"}) + "\n  print 'T', st\n")
		default:
			// the binding written in an expression body
			wr.WriteString("  print 'T', match (" + m + ") { nm => nm = 'E' }\n")
		}
	}
	// the observations
	no := 2 + r.Intn(4)
	obs := make([]c19Obs, no)
	var ob strings.Builder
	for k := range obs {
		obs[k] = pick(r, c19NullObs)
		ob.WriteString("  " + obs[k].stmt + "\n")
	}
	var prog string
	layout := r.Intn(5)
	switch layout {
	case 0, 1: // writes and observations in one rule
		prog = funcs + "{\n" + wr.String() + ob.String() + "}\n"
	case 2: // observations in a second rule and once more at the end
		prog = funcs + "{\n" + wr.String() + "}\n{\n" + ob.String() + "}\nEND {\n" + ob.String() + "}\n"
	case 3: // the writes happen once, on the first record only
		prog = funcs + "$index == 0 {\n" + wr.String() + "}\n{\n" + ob.String() + "}\n"
	default: // the writes inside a function
		prog = funcs + "function writes() {\n" + wr.String() + "}\n{\n  writes()\n" + ob.String() + "}\n"
	}
	var want []string
	line := func(o c19Obs, rec int) string {
		if o.want == "O ?" {
			return "O " + map[int]string{1: "one", 2: "two"}[rec] + map[bool]string{true: "null", false: ""}[rec > 2]
		}
		return o.want
	}
	for _, rec := range recs {
		for _, o := range obs {
			want = append(want, line(o, rec))
		}
	}
	if layout == 2 {
		for _, o := range obs {
			want = append(want, line(o, 99)) // in END $ is the whole input, no record
		}
	}
	doc := make([]string, nrec)
	for i, v := range recs {
		doc[i] = fmt.Sprint(v)
	}
	return Case{Req: RunReq(prog, nil, []File{{Name: "in.json", Data: []byte("[" + strings.Join(doc, ", ") + "]")}}, false), Fields: []string{"class", "out"},
		Meta: metaProg(prog, "input", "["+strings.Join(doc, ", ")+"]", "want_O_lines", strings.Join(want, " / "), "row", fmt.Sprintf("layout %d", layout)),
		Oracle: func(i Resp) string {
			if i["class"] != "ok" {
				return "expected class ok, got " + i["class"] + " " + i["msg"]
			}
			var got []string
			for _, l := range strings.Split(string(i.Bytes("out")), "\n") {
				if strings.HasPrefix(l, "O") {
					got = append(got, l)
				}
			}
			for k := 0; k < len(got) || k < len(want); k++ {
				g, w := "<none>", "<none>"
				if k < len(got) {
					g = got[k]
				}
				if k < len(want) {
					w = want[k]
				}
				if g != w {
					return fmt.Sprintf("a match that selects a block body or no case yields null whatever was done with earlier results: observation %d prints %q, want %q", k+1, g, w)
				}
			}
			return ""
		},
		NonTrivial: func(i Resp) bool { return i["class"] == "ok" }}
}

func init() {
	register(Family{
		Name: "null-results-written", Prop: "C19",
		Rule: "null-yielding matches (no case matches, block body, empty case list, array pattern of another length, several alternatives; directly, as a function's result, as the body value of another match) whose result is bound by an outer match (`match (M) { nm => { … } }`) and written through the binding (= a string / number / bool / the record / an array / an object, + '!', ++ -- += -=, a second nested binding, an expression body `nm = 'E'`), passed to a function that assigns to its parameter, or stored in a variable that is then changed -- 1-3 such writes per record, in the rule, on the first record only, in a separate rule, or inside a function -- followed over 2-5 records (and in END) by 2-5 observations of further null-yielding matches (print, assignment + is null, a function's result, is null / == null, printf %v, json(), inside array and object literals, as the subject of another match); oracle: every observation line is exactly null (or one / two where the record selects that case) on every record; the whole output is compared with the model",
		Gen: func(r *rand.Rand, tier string, emit func(Case)) {
			for i, n := 0, tierN(tier, 2500, 30000); i < n; i++ {
				emit(c19NullResultCase(r))
			}
		},
	})
}

// ---------------------------------------------------------------- binding names of every lexical shape
//
// A pattern identifier is whatever the lexer hands out as an Ident token: `$` followed by
// letters / digits / underscores ($k, $1x, $0, $_, $print, $index, $file -- only the bare `$`
// is a token of its own), a leading underscore, names that are methods, type names, builtins or
// functions elsewhere, keyword lookalikes, bytes >= 0x80 that are Latin-1 letters, very long
// names. Whatever the name looks like, and whatever it means outside the case (nothing, a
// global, a parameter, a runtime variable like $index, the binding of an enclosing match), the
// case body must see the binding: read directly, through a function called from the body
// (scoping is dynamic), after a nested match that rebinds the same name, and written (the
// binding is the subject's own cell). A name the matching alternative did not bind means what it
// means outside: the outer value, unset for an ordinary name, a runtime error for a `$`-name.

var c19bnDollar = []string{"$k", "$a", "$b", "$x", "$1x", "$1", "$0", "$00", "$9a_", "$_", "$__", "$_1", "$x_9", "$K", "$index", "$file", "$index", "$file",
	"$indexx", "$inde", "$Index", "$INDEX", "$files", "$File", "$print", "$if", "$in", "$is", "$for", "$BEGIN", "$END", "$match", "$null", "$true", "$false",
	"$function", "$return", "$next", "$exit", "$length", "$printf", "$json", "$gl", "$f", "$s", "$r", "$unknown", "$\xc3\xaa", "$\xe9t\xe9", "$9\xff", "$\xb5"}

var c19bnPlain = []string{"_", "_", "__", "_x", "_1", "_9z", "_k", "x_", "a", "b", "i", "k", "n", "q", "v", "z", "A", "Z", "length", "push", "pop", "popfirst",
	"contains", "sort", "pluck", "split", "lower", "upper", "floor", "ceil", "round", "unknown", "string", "number", "array", "object", "bool", "regex",
	"Print", "PRINT", "printx", "print_", "begin", "Begin", "end", "End", "BEGIN_", "iff", "In", "IN", "IS", "Is", "nul", "Null", "NULL", "True", "matcher", "Match",
	"nextt", "exitt", "fo", "whil", "breakk", "elsee", "functio", "returnn", "index", "file", "dollar", "a1", "x2y", "k9", "\xc3\xaa", "\xe9", "caf\xe9", "\xb5m", "\xaa\xba"}

type c19bnCase struct {
	pats   []*c19Pat
	show   []string
	kind   int    // 0: expression body [names]; 1: block printing the names; 2: expression body rd<i>(), a function reading the names; 3: block with a nested match rebinding a name first
	assign string // block bodies: the name written to
	wop    int    // how: see c19bnWrite
	viaFn  bool   // the assignment happens in a function called from the body
	rebind string
	twice  bool           // expression body [n, n]
	use    map[string]int // expression body: how a name is used (0 as it is, 1 n[0], 2 n.a, 3 n.length(), 4 n + 1, 5 n * 2): by what it holds
}

type c19bnGen struct {
	r     *rand.Rand
	fresh int
	nval  int
	fnOK  bool
	fn    bool
	rec   bool
	used  []string
	again []string // the names of the case's first alternative: the second one mostly binds the same ones
}

func (g *c19bnGen) name() string {
	r := g.r
	if len(g.again) > 0 && chance(r, 0.8) {
		return pick(r, g.again)
	}
	if len(g.used) > 0 && chance(r, 0.15) {
		// the same name again: in the same pattern (the later binding wins), in another alternative or case
		if n := pick(r, g.used); g.fnOK || n != "f" && n != "printf" && n != "json" && n != "num" {
			return n
		}
	}
	var n string
	switch k := r.Intn(20); {
	case k < 9:
		n = pick(r, c19bnDollar)
	case k < 15:
		n = pick(r, c19bnPlain)
	case k < 17:
		outer := []string{"gl", "gn", "gl", "gn"}
		if g.fn {
			outer = append(outer, "pa", "$pb", "pa", "$pb", "$pb")
		}
		if g.rec {
			outer = append(outer, "$index", "$file")
		}
		if g.fnOK {
			outer = append(outer, "f", "printf", "json", "num")
		}
		n = pick(r, outer)
	case k < 18:
		n = pick(r, []string{"$", "", "$L_", "_", "\xe9"}) + strings.Repeat(pick(r, []string{"ab_9", "x", "Z0", "\xc3\xaa_"}), 20+r.Intn(120))
	default:
		g.fresh++
		n = fmt.Sprintf("%sx%d", pick(r, []string{"", "$", "_"}), g.fresh)
	}
	g.used = append(g.used, n)
	return n
}

var c19bnLits = []c19Lit{{"0", float64(0), false}, {"1", float64(1), false}, {"2.5", 2.5, false}, {`"a"`, "a", false}, {`'1'`, "1", false}, {`""`, "", false},
	{"true", true, false}, {"false", false, false}, {"null", nil, false}}

func (g *c19bnGen) pat(depth int) *c19Pat {
	r := g.r
	k := r.Intn(10)
	if depth == 0 && k < 6 || depth > 0 && depth < 3 && k < 3 {
		p := &c19Pat{kind: "arr"}
		n := r.Intn(4)
		if depth == 0 {
			n = 1 + r.Intn(4)
		}
		for i := 0; i < n; i++ {
			p.items = append(p.items, g.pat(depth+1))
		}
		return p
	}
	if k == 9 && depth > 0 {
		return &c19Pat{kind: "lit", lit: pick(r, c19bnLits)}
	}
	return &c19Pat{kind: "ident", name: g.name()}
}

// a subject the pattern matches; every name gets a value of its own
func (g *c19bnGen) subjFor(p *c19Pat) interface{} {
	switch p.kind {
	case "lit":
		return p.lit.val
	case "arr":
		a := make([]interface{}, len(p.items))
		for i, it := range p.items {
			a[i] = g.subjFor(it)
		}
		return a
	}
	g.nval++
	switch g.r.Intn(8) {
	case 0:
		return fmt.Sprintf("v%d", g.nval)
	case 1:
		return []interface{}{float64(100 + g.nval)}
	case 2:
		return map[string]interface{}{"a": float64(g.nval)}
	case 3:
		return pick(g.r, []interface{}{nil, true, false, ""})
	}
	return float64(10 + g.nval)
}

// the ways a case body writes to a name, and what the name holds afterwards
func c19bnWrite(wop int, n string) string {
	switch wop {
	case 1:
		return n + " = [" + n + ", 1]"
	case 2:
		return "for (" + n + " in [7, \"L\"]) { }" // the loop variable is the binding
	case 3:
		return "for (zq, " + n + " in [\"p\", \"q\"]) { }" // the index variable is
	case 4:
		return n + "++"
	case 5:
		return n + " += 5"
	case 6:
		return n + " *= 2"
	case 7:
		return n + " -= 1" // (not `--n`: after a line break it would be taken for the postfix operator of the line before)
	}
	return n + " = \"W\""
}

func c19bnWritten(wop int, old interface{}) interface{} {
	f, _ := old.(float64)
	switch wop {
	case 1:
		return []interface{}{old, float64(1)}
	case 2:
		return "L"
	case 3:
		return float64(1)
	case 4:
		return f + 1
	case 5:
		return f + 5
	case 6:
		return f * 2
	case 7:
		return f - 1
	}
	return "W"
}

// what is NOT an identifier: keywords, a `$` inside or after a name, a digit first, a blank
// after the `$`: the program is rejected before anything runs
var c19bnNotNames = []string{"print", "if", "else", "for", "while", "in", "match", "break", "continue", "next", "exit", "is", "function", "return",
	"BEGIN", "END", "BEGINFILE", "ENDFILE", "a$b", "k$", "$$", "$$k", "$k$", "1x", "9_", "$ k", "a b", "_ _", "$a $b", "$.", "x\xc3\xa9", "\xa9", "$\xd7"}

func c19bnIllFormed(r *rand.Rand, emit func(Case)) {
	bad := pick(r, c19bnNotNames)
	good := func() string {
		return pick(r, []string{"$k", "$1x", "_", "a", "length", "$index", "printx", "$print"})
	}
	var pat, subj string
	switch r.Intn(4) {
	case 0:
		pat, subj = bad, "1"
	case 1:
		pat, subj = "["+good()+", "+bad+"]", "[1, 2]"
	case 2:
		pat, subj = "["+bad+", ["+good()+"]]", "[1, [2]]"
	default:
		pat, subj = "7, [["+bad+"], "+good()+"]", "[[1], 2]"
	}
	if chance(r, 0.4) {
		pat = good() + " => 0,\n    " + pat // a case before it
	}
	prog := "BEGIN {\n  print \"before\"\n  r = match (" + subj + ") {\n    " + pat + " => \"body\"\n  }\n  print r\n}\n"
	emit(Case{Req: RunReq(prog, nil, nil, false), Fields: []string{"class", "out", "line", "col"}, Meta: metaProg(prog, "not a name", bad),
		Oracle: func(i Resp) string {
			if i["class"] != "syntax" || len(i.Bytes("out")) != 0 {
				return fmt.Sprintf("a pattern that is not an identifier (%q) must be a syntax error before anything runs: class %s, output %q", bad, i["class"], i.Bytes("out"))
			}
			return ""
		},
		NonTrivial: func(i Resp) bool { return i["class"] == "syntax" }})
}

func c19bnNames(r *rand.Rand, emit func(Case)) {
	if chance(r, 0.03) {
		c19bnIllFormed(r, emit)
		return
	}
	g := &c19bnGen{r: r, fn: chance(r, 0.3), rec: chance(r, 0.4)}
	nest := chance(r, 0.3)
	ncase := 1 + r.Intn(3)
	target := r.Intn(ncase)
	var cases []c19bnCase
	var subj interface{}
	allNames := map[string]bool{}
	for i := 0; i < ncase; i++ {
		var k c19bnCase
		m := 1
		if chance(r, 0.35) {
			m = 2
		}
		g.fnOK = m == 1
		for j := 0; j < m; j++ {
			g.again = nil
			if j > 0 && chance(r, 0.6) {
				first := map[string]bool{}
				k.pats[0].names(first)
				for n := range first {
					g.again = append(g.again, n)
				}
				sort.Strings(g.again)
			}
			p := g.pat(0)
			if i < target && p.kind == "ident" && chance(r, 0.85) {
				p = &c19Pat{kind: "arr", items: []*c19Pat{p, g.pat(1)}}
			}
			k.pats = append(k.pats, p)
		}
		if i == target {
			subj = g.subjFor(k.pats[r.Intn(m)])
		}
		names := map[string]bool{}
		for _, p := range k.pats {
			p.names(names)
		}
		for n := range names {
			k.show = append(k.show, n)
			allNames[n] = true
		}
		sort.Strings(k.show)
		k.kind = r.Intn(4)
		if len(k.show) == 0 {
			k.kind = 1
		}
		if (k.kind == 1 || k.kind == 3) && len(k.show) > 0 && chance(r, 0.5) {
			k.assign = pick(r, k.show)
			k.viaFn = chance(r, 0.4)
		}
		if k.kind == 3 {
			k.rebind = pick(r, k.show)
		}
		k.twice = k.kind == 0 && len(k.show) == 1 && chance(r, 0.5)
		cases = append(cases, k)
	}
	if chance(r, 0.12) {
		// no longer what the target case was made for
		if a, ok := subj.([]interface{}); ok && chance(r, 0.7) {
			subj = append(append([]interface{}{}, a...), float64(5))
		} else {
			subj = []interface{}{subj, "extra"}
		}
	}
	stext, ok := c19Expr(subj)
	if !ok {
		return
	}
	var nl []string
	for n := range allNames {
		nl = append(nl, n)
	}
	sort.Strings(nl)

	// what the names mean outside the cases
	base := map[string]interface{}{"gl": "G", "gn": float64(42), "f": c19Fn{}, "printf": c19Native{}, "json": c19Native{}, "num": c19Native{}}
	if g.fn {
		base["pa"] = "A"
		base["$pb"] = float64(7)
	}
	if g.rec {
		base["$index"] = float64(1)
		base["$file"] = "in.json"
	}
	var nestMap map[string]interface{}
	var nestNames []string
	if nest && len(nl) > 0 {
		nestMap = map[string]interface{}{}
		for i := 0; i < 2; i++ {
			n := pick(r, nl)
			nestNames = append(nestNames, n)
			nestMap[n] = fmt.Sprintf("o%d", i+1) // the same name twice: the later binding wins
		}
	}

	// ---- the reference: which case, which bindings
	var want strings.Builder
	wantClass := "ok"
	cur := subj
	selected := -1
	var bind map[string][]int
find:
	for i, k := range cases {
		for _, p := range k.pats {
			b := map[string][]int{}
			switch c19Match(p, subj, nil, b) {
			case -1:
				wantClass = "runtime"
				break find
			case 1:
				selected, bind = i, b
				break find
			}
		}
	}
	// get / set: innermost first -- the case's bindings, the enclosing match's, the rest of the program
	get := func(n string) (interface{}, bool) {
		if p, ok := bind[n]; ok {
			return c19At(cur, p), true
		}
		if v, ok := nestMap[n]; ok {
			return v, true
		}
		if v, ok := base[n]; ok {
			return v, true
		}
		if strings.HasPrefix(n, "$") {
			return nil, false // unknown variable
		}
		return c19Unset{}, true
	}
	// how the selected case uses a name and writes to it depends on what the name holds
	for i := range cases {
		k := &cases[i]
		if k.kind == 0 && !k.twice && chance(r, 0.5) {
			k.use = map[string]int{}
			for _, n := range k.show {
				if i != selected {
					k.use[n] = r.Intn(6)
					continue
				}
				switch old, _ := get(n); x := old.(type) {
				case []interface{}:
					if len(x) > 0 {
						k.use[n] = 1
					}
				case map[string]interface{}:
					if _, has := x["a"]; has {
						k.use[n] = 2
					}
				case string:
					k.use[n] = 3
				case float64:
					k.use[n] = 4 + r.Intn(2)
				}
			}
		}
		if k.assign == "" {
			continue
		}
		k.wop = r.Intn(8)
		if i == selected {
			switch old, _ := get(k.assign); old.(type) {
			case float64:
			case c19Unset:
				k.wop = pick(r, []int{0, 2, 3})
			default:
				k.wop = r.Intn(4)
			}
		}
	}

	// ---- the program
	var sb strings.Builder
	sb.WriteString("function f(a) { return a }\n")
	for i, k := range cases {
		if k.kind == 2 {
			fmt.Fprintf(&sb, "function rd%d() { return [%s] }\n", i, strings.Join(k.show, ", "))
		}
		if k.assign != "" && k.viaFn {
			fmt.Fprintf(&sb, "function wr%d() { %s }\n", i, c19bnWrite(k.wop, k.assign))
		}
	}
	var files []File
	head, tail := "BEGIN {\n", "}\n"
	sline := "  s = " + stext + "\n"
	if g.rec {
		js, ok := c19JSON(subj)
		if !ok {
			return
		}
		files = []File{{Name: "in.json", Data: []byte(`[0, {"s": ` + js + `}]`)}}
		head = "$index == 1 {\n"
		sline = "  s = $.s\n"
	}
	if g.fn {
		tail = "}\n" + head + "  gl = \"G\"; gn = 42\n  w(\"A\", 7)\n}\n"
		head = "function w(pa, $pb) {\n"
	} else {
		head += "  gl = \"G\"; gn = 42\n"
	}
	sb.WriteString(head)
	if len(nl) > 0 && chance(r, 0.3) {
		// an earlier match that binds the same names leaves nothing behind
		n1, n2 := pick(r, nl), pick(r, nl)
		fmt.Fprintf(&sb, "  match ([5, [6]]) { [%s, [%s]] => { print \"p\", %s, %s } }\n", n1, n2, n1, n2)
		if n1 == n2 {
			want.WriteString("p 6 6\n")
		} else {
			want.WriteString("p 5 6\n")
		}
	}
	sb.WriteString(sline)
	if nestMap != nil {
		fmt.Fprintf(&sb, "  match ([\"o1\", \"o2\"]) { [%s, %s] => {\n", nestNames[0], nestNames[1])
	}
	sb.WriteString("  r = match (s) {\n")
	for i, k := range cases {
		texts := make([]string, len(k.pats))
		for j, p := range k.pats {
			texts[j] = p.render()
		}
		fmt.Fprintf(&sb, "    %s => ", strings.Join(texts, ", "))
		block := false
		switch k.kind {
		case 0:
			if k.twice {
				sb.WriteString("[" + k.show[0] + ", " + k.show[0] + "]")
			} else {
				parts := make([]string, len(k.show))
				for j, n := range k.show {
					parts[j] = n + []string{"", "[0]", ".a", ".length()", " + 1", " * 2"}[k.use[n]]
				}
				sb.WriteString("[" + strings.Join(parts, ", ") + "]")
			}
		case 2:
			fmt.Fprintf(&sb, "rd%d()", i)
		default:
			block = true
			sb.WriteString("{\n")
			if k.kind == 3 {
				fmt.Fprintf(&sb, "      print \"i\", match (\"I\") { %s => [%s] }\n", k.rebind, k.rebind)
			}
			fmt.Fprintf(&sb, "      print %s\n", strings.Join(append([]string{fmt.Sprintf("\"b%d\"", i)}, k.show...), ", "))
			if k.assign != "" {
				if k.viaFn {
					fmt.Fprintf(&sb, "      wr%d()\n", i)
				} else {
					fmt.Fprintf(&sb, "      %s\n", c19bnWrite(k.wop, k.assign))
				}
				fmt.Fprintf(&sb, "      print \"a\", %s\n", k.assign)
			}
			sb.WriteString("    }")
		}
		if i < len(cases)-1 && (!block || chance(r, 0.5)) {
			sb.WriteString(",")
		}
		sb.WriteString("\n")
	}
	sb.WriteString("  }\n  print \"r\", r\n  print \"s\", s\n")

	set := func(n string, nv interface{}) bool {
		if p, ok := bind[n]; ok {
			cur = c19Replace(cur, p, nv)
		} else if _, ok := nestMap[n]; ok {
			nestMap[n] = nv
		} else if _, ok := base[n]; ok {
			base[n] = nv
		} else if strings.HasPrefix(n, "$") {
			return false
		}
		return true // an ordinary name nobody knows: created in the innermost frame, gone afterwards
	}
	list := func(ns []string, sep string, quote bool) (string, bool) {
		parts := make([]string, len(ns))
		for i, n := range ns {
			v, ok := get(n)
			if !ok {
				return "", false
			}
			switch v.(type) {
			case c19Native:
				parts[i] = "<nativefunction>"
			default:
				parts[i] = c19Pretty(v, quote)
			}
		}
		return strings.Join(parts, sep), true
	}
	fail := func() { wantClass = "runtime" }
	if wantClass == "ok" {
		rtext := "null"
		if selected >= 0 {
			k := cases[selected]
			switch k.kind {
			case 0, 2:
				ns := k.show
				if k.twice {
					ns = []string{k.show[0], k.show[0]}
				}
				parts := make([]string, len(ns))
				for j, n := range ns {
					v, ok := get(n)
					if !ok {
						fail()
						break
					}
					switch k.use[n] {
					case 1:
						v = v.([]interface{})[0]
					case 2:
						v = v.(map[string]interface{})["a"]
					case 3:
						v = float64(len(v.(string)))
					case 4:
						v = v.(float64) + 1
					case 5:
						v = v.(float64) * 2
					}
					if _, native := v.(c19Native); native {
						parts[j] = "<nativefunction>"
					} else {
						parts[j] = c19Pretty(v, true)
					}
				}
				rtext = "[" + strings.Join(parts, ", ") + "]"
			default:
				if k.kind == 3 {
					want.WriteString("i [\"I\"]\n")
				}
				if l, ok := list(k.show, " ", false); ok {
					fmt.Fprintf(&want, "b%d", selected)
					if len(k.show) > 0 {
						want.WriteString(" " + l)
					}
					want.WriteString("\n")
				} else {
					fail()
				}
				if wantClass == "ok" && k.assign != "" {
					old, _ := get(k.assign)
					nv := c19bnWritten(k.wop, old)
					if !set(k.assign, nv) {
						fail()
					} else {
						// (an ordinary name nobody knows was created in the case's frame by the print above, so wr finds it too)
						want.WriteString("a " + c19Pretty(nv, false) + "\n")
					}
				}
			}
		}
		if wantClass == "ok" {
			want.WriteString("r " + rtext + "\n")
			want.WriteString("s " + c19Pretty(cur, false) + "\n")
		}
	}
	bind = nil // the case's frame is gone
	// afterwards, still inside the enclosing match if there is one
	after := func(label string, names []string) {
		var exprs, vals []string
		for _, n := range names {
			v, ok := get(n)
			if !ok {
				continue
			}
			if _, unset := v.(c19Unset); unset {
				exprs = append(exprs, n+" is unknown")
				vals = append(vals, "true")
				continue
			}
			exprs = append(exprs, n)
			l, _ := list([]string{n}, "", false)
			vals = append(vals, l)
		}
		if len(exprs) == 0 {
			return
		}
		fmt.Fprintf(&sb, "  print \"%s\", %s\n", label, strings.Join(exprs, ", "))
		if wantClass == "ok" {
			want.WriteString(label + " " + strings.Join(vals, " ") + "\n")
		}
	}
	after("n", nl)
	zread := func(label string) {
		var cands []string
		for _, n := range nl {
			if _, ok := get(n); !ok {
				cands = append(cands, n)
			}
		}
		if len(cands) == 0 {
			return
		}
		n := pick(r, cands)
		fmt.Fprintf(&sb, "  print \"%s\", %s\n", label, n)
		if wantClass == "ok" {
			fail() // a `$`-name that means nothing here: unknown variable
		}
	}
	if nestMap != nil {
		if chance(r, 0.05) {
			zread("y")
		}
		sb.WriteString("  } }\n")
		nestMap = nil
		after("o", nestNames[:1+r.Intn(2)])
	}
	if chance(r, 0.1) {
		zread("z")
	}
	sb.WriteString(tail)
	prog := sb.String()
	emit(Case{Req: RunReq(prog, nil, files, false), Fields: []string{"class", "out"},
		Meta:       metaProg(prog, "subject", stext, "expected", fmt.Sprintf("case %d of %d, class %s", selected, ncase, wantClass), "names", strings.Join(nl, " ")),
		Oracle:     c19Oracle(want.String(), wantClass),
		NonTrivial: func(i Resp) bool { return i["class"] == "ok" || i["class"] == "runtime" }})
}

var c19bnLaws = []c19Law{
	{"{ print match ($) { [$k, [$lo, $hi]] => $k + ':' + ($hi - $lo), [a, b] => a + b, $other => 'other ' + $other } }", "w:7\n3\nother 7\n", "ok"},
	{"{ print match ($) { $other => $other } }", "[\"w\", [3, 10]]\n[1, 2]\n7\n", "ok"},
	{"{ print $index, match ($) { $index => [$index], $file => 0 }\n print $index, $file }", "0 [[\"w\", [3, 10]]]\n0 in.json\n1 [[1, 2]]\n1 in.json\n2 [7]\n2 in.json\n", "ok"},
	{"{ print match ($) { $ => $ } }", "[\"w\", [3, 10]]\n[1, 2]\n7\n", "ok"},
	{"BEGIN { print match (5) { $ => 1 } }", "1\n", "ok"},
	{"BEGIN { print match (5) { $a => $b } }", "", "runtime"},
	{"BEGIN { print match (5) { 4, $a => 'x', $b => $a } }", "x\n", "ok"},
	{"BEGIN { print match (5) { [$a], $b => $a } }", "", "runtime"},
	{"BEGIN { print match (5) { [a], b => a is unknown } }", "true\n", "ok"},
	{"BEGIN { print match (5) { $a => { $a = 7; print $a } }\n print 'after'\n print $a }", "7\nnull\nafter\n", "runtime"},
	{"function rd() { return [$k, q] }\nfunction wr() { $k = 'W'; q = 'V' }\nBEGIN { s = [1, 2]; print match (s) { [$k, q] => { print rd(); wr(); print $k, q } }\n print s, q is unknown }", "[1, 2]\nW V\nnull\n[\"W\", \"V\"] true\n", "ok"},
	{"BEGIN { print match (1) { $k => match (2) { $k => $k } + $k } }", "3\n", "ok"},
	{"BEGIN { match ([1, [2]]) { [$k, [$k]] => { print $k } }\n match ([1, [2], 3]) { [$k, [$k], $k] => { print $k } } }", "2\n3\n", "ok"},
	{"function w($a, b) { return match ([b, $a]) { [$a, b] => [$a, b] } }\nBEGIN { print w(1, 2) }", "[2, 1]\n", "ok"},
	{"function w($a) { r = match (9) { $a => $a }\n return [r, $a] }\nBEGIN { print w(1) }", "[9, 1]\n", "ok"},
	{"BEGIN { print match ([1, 2]) { [unknown, string] => [unknown, string, unknown is unknown, string is string, unknown is number] } }", "[1, 2, false, false, true]\n", "ok"},
	{"BEGIN { print match ([1, 2, 3]) { [length, push, printf] => [length, push, printf, 'ab'.length()] }\n printf('%v\\n', 5) }", "[1, 2, 3, 2]\n5\n", "ok"},
	{"BEGIN { print match ([1, 2]) { [\xc3\xaa, $\xe9] => [$\xe9, \xc3\xaa] } }", "[2, 1]\n", "ok"},
	{"{ match ($) { [$index, $file] => { print $index, $file } }\n print $index, $file }", "w [3, 10]\n0 in.json\n1 2\n1 in.json\n2 in.json\n", "ok"},
}

func init() {
	register(Family{
		Name: "binding-names", Prop: "C19",
		Rule: "identifier patterns whose NAME has every lexical shape the lexer hands out as an identifier: `$`-prefixed ($k $1x $0 $_ $K, $index / $file and near misses, $print $if $BEGIN $match $null ..., $length $printf $gl, `$` + Latin-1 letter bytes), leading / lone underscores, single letters, method / type / builtin / function names (length push sort unknown string printf json num f), keyword lookalikes in other case or with one letter more or less, byte names >= 0x80, names of 40-500 bytes, names that are globals (gl gn), parameters (pa, $pb) of the function the match sits in (30 %), $index / $file of a record rule (40 %), the bindings of an ENCLOSING match (30 %), the same name several times in a pattern / in two alternatives / in two cases; at top level and nested to depth 3 in array patterns beside literal sub-patterns; 1-3 cases of 1-2 alternatives, subject built for one alternative (12 % perturbed so that a later case or none matches); bodies read every name of the case: in an array expression (as it is, or by what it holds n[0] / n.a / n.length() / n + 1 / n * 2), in a block (print), through a function called from the body (dynamic scoping), after a nested match that rebinds one of the names, and write one (n = 'W', n = [n, 1], n++, n += 5, n *= 2, n -= 1, as the loop variable `for (n in ...)` or the index variable `for (zq, n in ...)`; directly or in a called function; the binding is the subject's own cell, so the subject printed afterwards shows the write); 30 %: an earlier match binding two of the same names first (nothing is left behind); a name the matching alternative did not bind means what it means outside (outer value; unset for an ordinary name; runtime error 'unknown variable' for a `$`-name, on read and on write); afterwards r, the subject and every name are printed inside the enclosing match and after it (outer value or `is unknown`), sometimes ending with the read of a `$`-name that means nothing there (runtime error, output kept); 3 %: a pattern that is NOT a name (18 keywords, a$b k$ $$ $$k 1x 9_ `$ k` `a b`, bytes that are not Latin-1 letters) at top level / nested / after another case: syntax error before anything runs (class, line, col compared with the model); plus 19 fixed programs; oracle: reference matcher with binding paths and a three-level environment (case, enclosing match, rest), exact output and class",
		Gen: func(r *rand.Rand, tier string, emit func(Case)) {
			for _, l := range c19bnLaws {
				var files []File
				if strings.HasPrefix(l.prog, "{") {
					files = []File{{Name: "in.json", Data: []byte(`[["w", [3, 10]], [1, 2], 7]`)}}
				}
				emit(Case{Req: RunReq(l.prog, nil, files, false), Fields: []string{"class", "out"}, Meta: metaProg(l.prog),
					Oracle: c19Oracle(l.want, l.class), NonTrivial: func(i Resp) bool { return i["class"] == "ok" || i["class"] == "runtime" }})
			}
			for i, n := 0, tierN(tier, 4000, 80000); i < n; i++ {
				c19bnNames(r, emit)
			}
		},
	})
}
