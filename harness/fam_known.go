package main

// Known findings: genuine defects of jqawk that are recorded (KNOWN_FINDINGS.txt,
// DESIGN section 7) rather than repaired. Each is a fixed case under the
// properties it violates; the check driver reports a violation of a listed case
// as "KNOWN-FINDING" and exits 0, any other violation as usual.

import (
	"math/rand"
	"strings"
)

// K1: the call-depth limit (4096 open frames) does not bound the Go stack. The stack
// one level of recursion needs grows with the expression nesting around the recursive
// call, so a 454-byte program — a function whose recursive call sits inside 100 nested
// additions — dies with Go's "fatal error: stack overflow" (exit status 2, goroutine
// dump) before the 4097th frame is refused, instead of the runtime error "call depth
// limit exceeded". With few nested additions it is the ordinary runtime error (on this machine up to about 70).
func knownK1Program(n int) string {
	return "function f(n) { return " + strings.Repeat("0+(", n) + "f(n + 1)" + strings.Repeat(")", n) + " }\nBEGIN { print \"before\"; print f(0) }"
}

func init() {
	for _, prop := range []string{"C01", "C20"} {
		prop := prop
		register(Family{
			Name: "known-findings",
			Prop: prop,
			Rule: "fixed witnesses of recorded, unrepaired defects (KNOWN_FINDINGS.txt); K1: runaway recursion whose recursive call is nested in 100 additions must end in the runtime error 'call depth limit exceeded' (class runtime, output 'before' kept) — the implementation crashes with a Go stack overflow instead; the 5-addition variant is the control that works (a control near the threshold — 70 additions — proved load- and machine-sensitive and was a false alarm of this check in one run)",
			Gen: func(r *rand.Rand, tier string, emit func(Case)) {
				for _, n := range []int{5, 100} {
					prog := knownK1Program(n)
					emit(Case{ID: "K1-nesting-" + map[int]string{5: "5-control", 100: "100"}[n],
						Req:    RunReq(prog, nil, []File{{Name: "in.json", Data: []byte("[]")}}, false),
						Fields: []string{"class", "out"},
						Oracle: func(i Resp) string {
							if i["class"] != "runtime" {
								return "runaway recursion must end in the runtime error 'call depth limit exceeded', got class " + i["class"]
							}
							return ""
						},
						NonTrivial: c01Any, ImplOnly: true,
						Meta: map[string]string{"id": "K1", "program-head": prog[:60], "nesting": map[int]string{5: "5", 100: "100"}[n], "row": "K1"}})
				}
			},
		})
	}
}
